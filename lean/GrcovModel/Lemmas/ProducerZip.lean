/-
Lemmas for Producer.Zip (C17): the zip crate's index has pairwise distinct names; the listing of a
raw archive has pairwise distinct canonical paths (so `WF` holds for zips by construction);
`canonName` is idempotent; the listing is the reference listing `zipFirst` (fix 99c0f28); when no
two entries of the index share a canonical spelling it is exactly "every listable entry under its
canonical name with its own bytes".
-/
import GrcovModel.Producer.Zip
import GrcovModel.Lemmas.Producer
import GrcovModel.Lemmas.UPath
namespace Grcov.Producer
open Grcov
open Grcov.UPath (RealName)

theorem pairwise_mem {α : Type} {R : α → α → Prop} {l : List α} (hs : ∀ a b, R a b → R b a)
    (h : l.Pairwise R) : ∀ a ∈ l, ∀ b ∈ l, a ≠ b → R a b := by
  induction l with
  | nil => intro a ha; cases ha
  | cons x l ih =>
    obtain ⟨hx, hl⟩ := List.pairwise_cons.1 h
    intro a ha b hb hab
    rcases List.mem_cons.1 ha with ea | ha'
    · rcases List.mem_cons.1 hb with eb | hb'
      · exact absurd (ea.trans eb.symm) hab
      · rw [ea]; exact hx b hb'
    · rcases List.mem_cons.1 hb with eb | hb'
      · rw [eb]; exact hs _ _ (hx a ha')
      · exact ih hl a ha' b hb' hab

/-! ### the crate's index -/

theorem indexInsert_names (ix : List RawEntry) (e : RawEntry) :
    (indexInsert ix e).map (·.name) =
      if e.name ∈ ix.map (·.name) then ix.map (·.name) else ix.map (·.name) ++ [e.name] := by
  unfold indexInsert
  by_cases h : ix.any (fun x => x.name = e.name) = true
  · have hm : e.name ∈ ix.map (·.name) := by
      obtain ⟨x, hx, hxe⟩ := List.any_eq_true.1 h
      exact List.mem_map.2 ⟨x, hx, by simpa using hxe⟩
    rw [if_pos h, if_pos hm, List.map_map]
    apply List.map_congr_left
    intro x _
    by_cases hx : x.name = e.name <;> simp [hx]
  · have hm : e.name ∉ ix.map (·.name) := by
      intro hm
      obtain ⟨x, hx, hxe⟩ := List.mem_map.1 hm
      exact h (List.any_eq_true.2 ⟨x, hx, by simpa using hxe⟩)
    rw [if_neg h, if_neg hm]; simp

theorem foldl_indexInsert_nodup (es acc : List RawEntry) (h : (acc.map (·.name)).Nodup) :
    ((es.foldl indexInsert acc).map (·.name)).Nodup := by
  induction es generalizing acc with
  | nil => exact h
  | cons e es ih =>
    apply ih
    rw [indexInsert_names]
    split
    · exact h
    · rename_i hm
      exact List.nodup_append.2 ⟨h, by simp, by
        intro a ha b hb
        simp at hb; subst hb
        intro e'; subst e'; exact hm ha⟩

/-- the index never holds a name twice -/
theorem crateIndex_names_nodup (es : List RawEntry) : ((crateIndex es).map (·.name)).Nodup :=
  foldl_indexInsert_nodup es [] (by simp)

theorem foldl_indexInsert_of_nodup (es acc : List RawEntry)
    (h : ((acc ++ es).map (·.name)).Nodup) : es.foldl indexInsert acc = acc ++ es := by
  induction es generalizing acc with
  | nil => simp
  | cons e es ih =>
    have hno : acc.any (fun x => x.name = e.name) = false := by
      cases ha : acc.any (fun x => x.name = e.name)
      · rfl
      · exfalso
        obtain ⟨x, hx, hxe⟩ := List.any_eq_true.1 ha
        simp only [List.map_append, List.map_cons] at h
        have := (List.nodup_append.1 h).2.2 x.name (List.mem_map.2 ⟨x, hx, rfl⟩) e.name (by simp)
        exact this (by simpa using hxe)
    have step : indexInsert acc e = acc ++ [e] := by
      unfold indexInsert; rw [hno]; simp
    rw [List.foldl_cons, step, ih]
    · simp
    · simpa using h

/-- an archive without repeated names is its own index -/
theorem crateIndex_of_nodup (es : List RawEntry) (h : (es.map (·.name)).Nodup) :
    crateIndex es = es := by
  have := foldl_indexInsert_of_nodup es [] (by simpa using h)
  simpa [crateIndex] using this

/-! ### the listing has distinct paths -/

theorem listGo_path_notin (ix : List RawEntry) (seen : List Name) (es : List RawEntry) :
    ∀ f ∈ listGo ix seen es, f.path ∉ seen := by
  induction es generalizing seen with
  | nil => intro f hf; simp [listGo] at hf
  | cons e es ih =>
    intro f hf
    unfold listGo at hf
    split at hf
    · exact ih seen f hf
    · split at hf
      · exact ih seen f hf
      · rename_i c hc
        split at hf
        · exact ih seen f hf
        · rename_i hs
          rcases List.mem_cons.1 hf with rfl | hf
          · simpa using hs
          · have := ih (c :: seen) f hf
            exact fun hm => this (List.mem_cons_of_mem _ hm)

theorem listGo_pairwise (ix : List RawEntry) (seen : List Name) (es : List RawEntry) :
    (listGo ix seen es).Pairwise (fun f g => f.path ≠ g.path) := by
  induction es generalizing seen with
  | nil => simp [listGo]
  | cons e es ih =>
    unfold listGo
    split
    · exact ih seen
    · split
      · exact ih seen
      · rename_i c hc
        split
        · exact ih seen
        · refine List.pairwise_cons.2 ⟨?_, ih (c :: seen)⟩
          intro g hg hp
          exact listGo_path_notin ix (c :: seen) es g hg (by simp [← hp])

/-- inside the listing of any raw archive a path names one file -/
theorem zipListed_functional (es : List RawEntry) :
    ∀ f ∈ zipListed es, ∀ g ∈ zipListed es, f.path = g.path → f = g := by
  intro f hf g hg hp
  have hpw := listGo_pairwise (crateIndex es) [] (crateIndex es)
  by_cases hfg : f = g
  · exact hfg
  · exact absurd hp (pairwise_mem (fun _ _ h => Ne.symm h) hpw f hf g hg hfg)

/-! ### `canonName` -/

theorem mem_join_of {S : List (List Nat)} {s : List Nat} {b : Nat} (hs : s ∈ S) (hb : b ∈ s) :
    b ∈ UPath.join S := by
  induction S with
  | nil => cases hs
  | cons a S ih =>
    cases S with
    | nil => simp at hs; subst hs; simpa [UPath.join] using hb
    | cons t ts =>
      simp only [UPath.join, List.mem_append, List.mem_cons]
      rcases List.mem_cons.1 hs with rfl | hs
      · exact Or.inl hb
      · exact Or.inr (Or.inr (ih hs))

theorem mem_of_mem_split {p s : List Nat} {b : Nat} (hs : s ∈ UPath.split p) (hb : b ∈ s) : b ∈ p := by
  have := mem_join_of hs hb
  rwa [UPath.join_split] at this

theorem normal_mem_components_sub {p n : List Nat} (h : UPath.Comp.normal n ∈ UPath.components p) :
    ∀ b ∈ n, b ∈ p := by
  unfold UPath.components at h
  simp only [List.mem_append, List.mem_filterMap] at h
  rcases h with h | ⟨s, hs, hc⟩
  · split at h
    · simp at h
    · split at h <;> simp at h
  · obtain ⟨e, _⟩ := UPath.segComp_normal hc (UPath.mem_split_noSlash hs)
    subst e
    intro b hb
    exact mem_of_mem_split hs hb

theorem mem_filterMap_normalName {cs : List UPath.Comp} {n : Name}
    (h : n ∈ cs.filterMap normalName?) : UPath.Comp.normal n ∈ cs := by
  obtain ⟨c, hc, hn⟩ := List.mem_filterMap.1 h
  cases c <;> simp [normalName?] at hn
  subst hn; exact hc

/-- the canonical spelling is made of real names and has no NUL -/
theorem canonName_spec {n c : Name} (h : canonName n = some c) :
    ∃ names : List Name, c = UPath.join names ∧ (∀ s ∈ names, RealName s) ∧ 0 ∉ c := by
  unfold canonName at h
  split at h
  · cases h
  · rename_i hg
    simp only [Bool.or_eq_true, Bool.not_eq_eq_eq_not, Bool.not_true, not_or,
      Bool.not_eq_true] at hg
    injection h with h
    refine ⟨_, h.symm, ?_, ?_⟩
    · intro s hs
      exact UPath.normal_mem_components (mem_filterMap_normalName hs)
    · intro h0
      rw [← h] at h0
      rcases UPath.mem_join h0 with h47 | ⟨s, hs, hb⟩
      · cases h47
      · have := normal_mem_components_sub (mem_filterMap_normalName hs) 0 hb
        have hc : n.contains 0 = true := by simpa using this
        rw [hc] at hg; exact absurd hg.1 (by simp)

theorem filterMap_normalName_map (l : List Name) :
    (l.map UPath.Comp.normal).filterMap normalName? = l := by
  induction l with
  | nil => rfl
  | cons a t ih => simp [normalName?, ih]

theorem all_compOk_map (l : List Name) : (l.map UPath.Comp.normal).all compOk = true := by
  induction l with
  | nil => rfl
  | cons a t ih => simp [compOk, ih]

/-- a canonical spelling is its own canonical spelling -/
theorem canonName_idem {n c : Name} (h : canonName n = some c) : canonName c = some c := by
  obtain ⟨names, hc, hreal, h0⟩ := canonName_spec h
  have hcomp : UPath.components c = names.map UPath.Comp.normal := by
    have := UPath.components_render (np := ⟨false, names⟩) hreal
    simpa [UPath.render, hc] using this
  unfold canonName
  have hc0 : c.contains 0 = false := by
    cases hx : c.contains 0
    · rfl
    · exact absurd (by simpa using hx) h0
  rw [hc0, hcomp, all_compOk_map, filterMap_normalName_map]
  simp [hc]

/-! ### no two entries with one canonical spelling: listed = read = the entry itself -/

/-- no two entries of the index (directory entries included) have the same canonical spelling -/
def CanonDistinct (ix : List RawEntry) : Prop :=
  ix.Pairwise (fun a b => ∀ c, canonName a.name = some c → canonName b.name ≠ some c)

theorem CanonDistinct.eq_of {ix : List RawEntry} (h : CanonDistinct ix) {a b : RawEntry}
    (ha : a ∈ ix) (hb : b ∈ ix) {c : Name} (hca : canonName a.name = some c)
    (hcb : canonName b.name = some c) : a = b := by
  by_cases hab : a = b
  · exact hab
  · unfold CanonDistinct at h
    have := pairwise_mem (R := fun a b => ∀ c, canonName a.name = some c → canonName b.name ≠ some c)
      (fun x y hxy c hy hx => hxy c hx hy) h a ha b hb hab
    exact absurd hcb (this c hca)

theorem find?_append_hit {α : Type} (p : α → Bool) (pre : List α) (e : α) (rest : List α)
    (hpre : ∀ x ∈ pre, p x = false) (he : p e = true) : (pre ++ e :: rest).find? p = some e := by
  rw [List.find?_append, List.find?_eq_none.2 (fun x hx => by simp [hpre x hx])]
  simp [List.find?_cons, he]

/-- the listing is the reference listing: the entry `zip_index` finds under a listed name is the
listed entry itself. `pre` are the entries already walked; every listable one of them has its
canonical spelling in `seen`. -/
theorem listGo_eq_firstGo_gen (pre : List RawEntry) (seen : List Name) (es : List RawEntry)
    (hinv : ∀ x ∈ pre, rawIsDir x.name = false → ∀ c, canonName x.name = some c → c ∈ seen) :
    listGo (pre ++ es) seen es = firstGo seen es := by
  induction es generalizing pre seen with
  | nil => rfl
  | cons e es ih =>
    have hsplit : pre ++ e :: es = (pre ++ [e]) ++ es := by simp
    unfold listGo firstGo
    split
    · rename_i hdir
      rw [hsplit]
      apply ih
      intro x hx hd c hc
      rcases List.mem_append.1 hx with hx | hx
      · exact hinv x hx hd c hc
      · simp at hx; subst hx; rw [hdir] at hd; cases hd
    · rename_i hdir
      split
      · rename_i hnone
        rw [hsplit]
        apply ih
        intro x hx hd c hc
        rcases List.mem_append.1 hx with hx | hx
        · exact hinv x hx hd c hc
        · simp at hx; subst hx; rw [hnone] at hc; cases hc
      · rename_i c hc
        split
        · rename_i hs
          rw [hsplit]
          apply ih
          intro x hx hd c' hc'
          rcases List.mem_append.1 hx with hx | hx
          · exact hinv x hx hd c' hc'
          · simp at hx; subst hx
            rw [hc] at hc'; injection hc' with hc'; subst hc'
            simpa using hs
        · rename_i hs
          have hfind : zipIndex (pre ++ e :: es) c = some e := by
            unfold zipIndex
            apply find?_append_hit
            · intro x hx
              cases hd : rawIsDir x.name
              · by_cases hcx : canonName x.name = some c
                · exact absurd (hinv x hx hd c hcx) (by simpa using hs)
                · simp [hcx]
              · simp
            · simp [hdir, hc]
          rw [hfind]
          have : listGo (pre ++ e :: es) (c :: seen) es = firstGo (c :: seen) es := by
            rw [hsplit]
            apply ih
            intro x hx hd c' hc'
            rcases List.mem_append.1 hx with hx | hx
            · exact List.mem_cons_of_mem _ (hinv x hx hd c' hc')
            · simp at hx; subst hx
              rw [hc] at hc'; injection hc' with hc'; subst hc'
              simp
          rw [this]; rfl

theorem zipListed_eq_zipFirst (es : List RawEntry) : zipListed es = zipFirst es := by
  unfold zipListed zipFirst listIx
  exact listGo_eq_firstGo_gen [] [] (crateIndex es) (by simp)

/-- the file an entry is listed as: canonical path, its own first bytes, its own content -/
def RawEntry.toFile (e : RawEntry) : File := ⟨(canonName e.name).getD [], e.head, e.cid⟩

theorem firstGo_of_distinct (seen : List Name) (es : List RawEntry) (h : CanonDistinct es)
    (hseen : ∀ e ∈ es, ∀ c, canonName e.name = some c → c ∉ seen) :
    firstGo seen es = (es.filter listable).map RawEntry.toFile := by
  induction es generalizing seen with
  | nil => rfl
  | cons e es ih =>
    have hd := List.pairwise_cons.1 h
    have hseen' : ∀ x ∈ es, ∀ c, canonName x.name = some c → c ∉ seen :=
      fun x hx => hseen x (List.mem_cons_of_mem _ hx)
    unfold firstGo
    split
    · rename_i hdir
      rw [ih seen hd.2 hseen']
      simp [listable, hdir]
    · rename_i hdir
      split
      · rename_i hc
        rw [ih seen hd.2 hseen']
        simp [listable, hc]
      · rename_i c hc
        have hns : seen.contains c = false := by
          cases hx : seen.contains c
          · rfl
          · exact absurd (by simpa using hx) (hseen e (by simp) c hc)
        rw [hns]
        simp only [Bool.false_eq_true, if_false]
        rw [ih (c :: seen) hd.2 (by
          intro x hx c' hc' hm
          rcases List.mem_cons.1 hm with rfl | hm
          · exact hd.1 x hx c' hc hc'
          · exact hseen' x hx c' hc' hm)]
        have hl : listable e = true := by simp [listable, hdir, hc]
        simp [hl, RawEntry.toFile, hc]

theorem listIx_of_distinct (ix : List RawEntry) (h : CanonDistinct ix) :
    listIx ix = (ix.filter listable).map RawEntry.toFile := by
  unfold listIx
  have := listGo_eq_firstGo_gen [] [] ix (by simp)
  simp only [List.nil_append] at this
  rw [this, firstGo_of_distinct [] ix h (by simp)]

/-! ### `WF` for layouts with raw zips -/

/-- what remains to be assumed of a layout with raw zips: paths unique inside each DIRECTORY and
among the plain-file arguments -/
def WFR (rargs : List RArg) : Prop :=
  ∀ a ∈ archives (rargs.map RArg.toArg), a.kind ≠ .zip → a.Functional

theorem mem_archives_zip {rargs : List RArg} {a : Arch}
    (ha : a ∈ archives (rargs.map RArg.toArg)) (hk : a.kind = .zip) :
    ∃ es, a.files = zipListed es := by
  unfold archives at ha
  rcases List.mem_append.1 ha with h | h
  · obtain ⟨x, hx, hxa⟩ := List.mem_filterMap.1 h
    obtain ⟨r, _, rfl⟩ := List.mem_map.1 hx
    cases r with
    | dir l fs => simp [RArg.toArg, Arg.toArch?] at hxa; subst hxa; cases hk
    | zip l es => simp [RArg.toArg, Arg.toArch?] at hxa; subst hxa; exact ⟨es, rfl⟩
    | plain f => simp [RArg.toArg, Arg.toArch?] at hxa
  · split at h
    · cases h
    · simp at h; subst h; cases hk

theorem WF_of_WFR {rargs : List RArg} (h : WFR rargs) : WF (rargs.map RArg.toArg) := by
  intro a ha
  by_cases hk : a.kind = .zip
  · obtain ⟨es, hes⟩ := mem_archives_zip ha hk
    rw [hes]
    exact zipListed_functional es
  · exact h a ha hk

end Grcov.Producer
