/-
Flow recovery: on a shape whose on-tree arcs form a forest (`SpanForest`) and for a conserved flow
`F`, `propagate_counts` started with the counters of `F` on the arcs that are not on the tree
leaves `F` on every arc.
-/
import GrcovModel.Gcno.Tree
import GrcovModel.Lemmas.Gcno
namespace Grcov.Gcno
open Grcov AList Outcome

/-- the end of arc `a` that is not `b` -/
def other (a : Arc) (b : Nat) : Nat := if a.src = b then a.dst else a.src

/-- parent block of a non-root block -/
def parOf (f : Func) (parc : Nat → Nat) (x : Nat) : Nat := other (f.arcs.getD (parc x) default) x

theorem getD_of_getElem? {α : Type} [Inhabited α] {l : List α} {i : Nat} {a : α}
    (h : l[i]? = some a) : l.getD i default = a := by
  rw [List.getD_eq_getElem?_getD, h]; rfl

section
variable {f : Func} {depth parc root : Nat → Nat}

theorem par_facts (hT : SpanForest f depth parc root) {x : Nat} (hx : x < f.blocks.length)
    (hd : 0 < depth x) :
    ∃ a : Arc, f.arcs[parc x]? = some a ∧ a.onTree = true ∧ parOf f parc x < f.blocks.length ∧
      depth (parOf f parc x) + 1 = depth x ∧ root (parOf f parc x) = root x ∧
      ((a.src = x ∧ a.dst = parOf f parc x) ∨ (a.dst = x ∧ a.src = parOf f parc x)) := by
  obtain ⟨a, ha, ht, hc⟩ := hT.parent x hx hd
  have hlt := hT.arcs_lt _ _ ha
  refine ⟨a, ha, ht, ?_⟩
  unfold parOf other
  rw [getD_of_getElem? ha]
  rcases hc with ⟨h1, h2, h3⟩ | ⟨h1, h2, h3⟩
  · rw [if_pos h1]; exact ⟨hlt.2, h2, h3, Or.inl ⟨h1, rfl⟩⟩
  · have : a.src ≠ x := by intro h; rw [h] at h2; omega
    rw [if_neg this]; exact ⟨hlt.1, h2, h3, Or.inr ⟨h1, rfl⟩⟩

/-- the parent arc determines the block -/
theorem parc_inj (hT : SpanForest f depth parc root) {x y : Nat} (hx : x < f.blocks.length)
    (hy : y < f.blocks.length) (hdx : 0 < depth x) (hdy : 0 < depth y) (h : parc x = parc y) :
    x = y := by
  obtain ⟨a, ha, _, cx⟩ := hT.parent x hx hdx
  obtain ⟨a', ha', _, cy⟩ := hT.parent y hy hdy
  rw [← h, ha] at ha'; cases ha'
  rcases cx with ⟨h1, h2, _⟩ | ⟨h1, h2, _⟩ <;> rcases cy with ⟨g1, g2, _⟩ | ⟨g1, g2, _⟩
  · omega
  · rw [h1] at g2; rw [g1] at h2; omega
  · rw [h1] at g2; rw [g1] at h2; omega
  · omega

/-- far end of an arc seen from the source list (`useSrc`) or the destination list -/
def farEnd (useSrc : Bool) (a : Arc) : Nat := if useSrc then a.src else a.dst
def nearEnd (useSrc : Bool) (a : Arc) : Nat := if useSrc then a.dst else a.src

/-- a tree arc at `b` that is not `b`'s parent arc leads to a child of `b` -/
theorem child_of_tree_arc (hT : SpanForest f depth parc root) {b e : Nat} {a : Arc} (useSrc : Bool)
    (ha : f.arcs[e]? = some a) (ht : a.onTree = true) (hnear : nearEnd useSrc a = b)
    (hnp : ¬ (0 < depth b ∧ parc b = e)) :
    farEnd useSrc a < f.blocks.length ∧ depth (farEnd useSrc a) = depth b + 1 ∧
      parc (farEnd useSrc a) = e ∧ parOf f parc (farEnd useSrc a) = b := by
  obtain ⟨c, hc, hdc, hpc⟩ := hT.tree_arc e a ha ht
  obtain ⟨a', ha', _, hcase⟩ := hT.parent c hc hdc
  rw [hpc, ha] at ha'; cases ha'
  have hlt := hT.arcs_lt _ _ ha
  cases useSrc
  · -- destination list: a.src = b, far end a.dst
    simp only [nearEnd, farEnd, Bool.false_eq_true, if_false] at hnear ⊢
    rcases hcase with ⟨h1, h2, _⟩ | ⟨h1, h2, _⟩
    · exact absurd ⟨by rw [← hnear, h1]; exact hdc, by rw [← hnear, h1]; exact hpc⟩ hnp
    · subst h1
      refine ⟨hlt.2, by rw [← hnear]; omega, hpc, ?_⟩
      unfold parOf other
      rw [hpc, getD_of_getElem? ha]
      have : a.src ≠ a.dst := by intro h; rw [h] at h2; omega
      rw [if_neg this]; exact hnear
  · simp only [nearEnd, farEnd, if_true] at hnear ⊢
    rcases hcase with ⟨h1, h2, _⟩ | ⟨h1, h2, _⟩
    · subst h1
      refine ⟨hlt.1, by rw [← hnear]; omega, hpc, ?_⟩
      unfold parOf other
      rw [hpc, getD_of_getElem? ha, if_pos rfl]; exact hnear
    · exact absurd ⟨by rw [← hnear, h1]; exact hdc, by rw [← hnear, h1]; exact hpc⟩ hnp

/-- `x` is `b` or below `b` in the forest -/
inductive Desc (f : Func) (depth parc : Nat → Nat) (b : Nat) : Nat → Prop where
  | refl : Desc f depth parc b b
  | step {x : Nat} : x < f.blocks.length → 0 < depth x → Desc f depth parc b (parOf f parc x) →
      Desc f depth parc b x

theorem Desc.depth_le (hT : SpanForest f depth parc root) {b x : Nat} (h : Desc f depth parc b x) :
    depth b ≤ depth x := by
  induction h with
  | refl => exact Nat.le_refl _
  | step hx hd _ ih =>
    obtain ⟨_, _, _, _, h2, _⟩ := par_facts hT hx hd
    omega

theorem Desc.eq_of_depth_le (hT : SpanForest f depth parc root) {b x : Nat}
    (h : Desc f depth parc b x) (hle : depth x ≤ depth b) : x = b := by
  cases h with
  | refl => rfl
  | step hx hd h' =>
    have := h'.depth_le hT
    obtain ⟨_, _, _, _, h2, _⟩ := par_facts hT hx hd
    omega

theorem Desc.lt {b x : Nat} (h : Desc f depth parc b x)
    (hb : b < f.blocks.length) : x < f.blocks.length := by
  cases h with
  | refl => exact hb
  | step hx _ _ => exact hx

theorem Desc.root_eq (hT : SpanForest f depth parc root) {b x : Nat} (h : Desc f depth parc b x) :
    root x = root b := by
  induction h with
  | refl => rfl
  | step hx hd _ ih =>
    obtain ⟨_, _, _, _, _, h3, _⟩ := par_facts hT hx hd
    rw [← h3]; exact ih

/-- two ancestors of the same block at the same depth coincide -/
theorem Desc.unique (hT : SpanForest f depth parc root) {c c' x : Nat}
    (h : Desc f depth parc c x) (h' : Desc f depth parc c' x) (hd : depth c = depth c') : c = c' := by
  induction h with
  | refl => exact h'.eq_of_depth_le hT (by omega)
  | step hx hdx hp ih =>
    cases h' with
    | refl =>
      have := (Desc.step hx hdx hp).eq_of_depth_le hT (by omega)
      exact this.symm
    | step _ _ hp' => exact ih hp'

theorem Desc.of_child {b c x : Nat} (hc : c < f.blocks.length) (hd : 0 < depth c)
    (hp : parOf f parc c = b) (h : Desc f depth parc c x) : Desc f depth parc b x := by
  induction h with
  | refl => exact Desc.step hc hd (hp ▸ Desc.refl)
  | step hx hdx _ ih => exact Desc.step hx hdx ih

theorem Desc.cases_child {b x : Nat} (h : Desc f depth parc b x) :
    x = b ∨ ∃ c, c < f.blocks.length ∧ 0 < depth c ∧ parOf f parc c = b ∧ Desc f depth parc c x := by
  induction h with
  | refl => exact Or.inl rfl
  | @step x hx hd hp ih =>
    rcases ih with h | ⟨c, hc, hdc, hpc, hcx⟩
    · exact Or.inr ⟨x, hx, hd, h, Desc.refl⟩
    · exact Or.inr ⟨c, hc, hdc, hpc, Desc.step hx hd hcx⟩

/-- every block is below its root, and roots have depth 0 -/
theorem desc_root (hT : SpanForest f depth parc root) : ∀ (d x : Nat), depth x = d →
    x < f.blocks.length → Desc f depth parc (root x) x ∧ depth (root x) = 0 := by
  intro d
  induction d with
  | zero =>
    intro x hd hx
    rw [hT.root_self x hx hd]; exact ⟨Desc.refl, hd⟩
  | succ d ih =>
    intro x hd hx
    obtain ⟨_, _, _, h1, h2, h3, _⟩ := par_facts hT hx (by omega)
    obtain ⟨g1, g2⟩ := ih _ (by omega) h1
    rw [h3] at g1 g2
    exact ⟨Desc.step hx (by omega) g1, g2⟩

theorem root_of_desc (hT : SpanForest f depth parc root) {r x : Nat} (hr : r < f.blocks.length)
    (h0 : depth r = 0) (h : Desc f depth parc r x) : root x = r := by
  rw [h.root_eq hT, hT.root_self r hr h0]

end

/-! ### sums along adjacency lists -/

/-- sum of `F` over the list, skipping the arc we came through -/
def sumEx (F : Nat → Nat) (pred : Option Nat) : List Nat → Nat
  | [] => 0
  | e :: es => (if pred = some e then 0 else F e) + sumEx F pred es

theorem sumEx_none (F : Nat → Nat) (es : List Nat) : sumEx F none es = (es.map F).sum := by
  induction es with
  | nil => rfl
  | cons e es ih => simp [sumEx, ih]

theorem sumEx_not_mem (F : Nat → Nat) (p : Nat) (es : List Nat) (h : p ∉ es) :
    sumEx F (some p) es = (es.map F).sum := by
  induction es with
  | nil => rfl
  | cons e es ih =>
    have h1 : p ≠ e := fun h' => h (h' ▸ List.mem_cons_self)
    have h2 : p ∉ es := fun h' => h (List.mem_cons_of_mem _ h')
    simp [sumEx, ih h2, h1]

theorem sumEx_mem (F : Nat → Nat) (p : Nat) (es : List Nat) (hn : es.Nodup) (h : p ∈ es) :
    sumEx F (some p) es + F p = (es.map F).sum := by
  induction es with
  | nil => cases h
  | cons e es ih =>
    rw [List.nodup_cons] at hn
    rcases List.mem_cons.1 h with h | h
    · subst h
      simp only [sumEx, if_true, List.map_cons, List.sum_cons, Nat.zero_add]
      rw [sumEx_not_mem F p es hn.1]; omega
    · have hne : p ≠ e := fun h' => hn.1 (h' ▸ h)
      have : ¬ (some p = some e) := by simpa using hne
      simp only [sumEx, this, if_false, List.map_cons, List.sum_cons]
      have := ih hn.2 h
      omega

theorem sumEx_le (F : Nat → Nat) (pred : Option Nat) (es : List Nat) :
    sumEx F pred es ≤ (es.map F).sum := by
  induction es with
  | nil => exact Nat.le_refl _
  | cons e es ih =>
    simp only [sumEx, List.map_cons, List.sum_cons]
    split <;> omega

/-! ### the propagation on a forest -/

section
variable {f : Func} {depth parc root : Nat → Nat} {F : Nat → Nat}

/-- what a call of `propagate_counts` at `b` achieves: it visits exactly the blocks below `b` and
puts the flow on their parent arcs, touching nothing else -/
def KeyPost (f : Func) (depth parc F : Nat → Nat) (s t : PS) (b : Nat) : Prop :=
  (∀ x, x ∈ t.vis ↔ x ∈ s.vis ∨ Desc f depth parc b x) ∧
  (∀ x, Desc f depth parc b x → 0 < depth x → t.cnt (parc x) = F (parc x)) ∧
  (∀ e, (∀ x, Desc f depth parc b x → 0 < depth x → parc x ≠ e) → t.cnt e = s.cnt e)

def KeyStmt (f : Func) (depth parc F : Nat → Nat) (fuel : Nat) : Prop :=
  ∀ (b : Nat) (pred : Option Nat) (s : PS), b < f.blocks.length →
    ((depth b = 0 ∧ pred = none) ∨ (0 < depth b ∧ pred = some (parc b))) →
    f.blocks.length + 1 ≤ fuel + depth b →
    (∀ x, Desc f depth parc b x → x ∉ s.vis) →
    (∀ (e : Nat) (a : Arc), f.arcs[e]? = some a → a.onTree = false → s.cnt e = F e) →
    ∃ t, prop f fuel s b pred = ok (t, if depth b = 0 then 0 else F (parc b)) ∧
      KeyPost f depth parc F s t b

/-- state of the loops over the incident arcs of `b`: `C` = the children already resolved -/
structure LoopInv (f : Func) (depth parc F : Nat → Nat) (s0 : PS) (b : Nat) (C : List Nat) (t : PS) :
    Prop where
  vis : ∀ x, x ∈ t.vis ↔ x ∈ s0.vis ∨ x = b ∨ ∃ c ∈ C, Desc f depth parc c x
  cnt_in : ∀ c ∈ C, ∀ x, Desc f depth parc c x → t.cnt (parc x) = F (parc x)
  cnt_out : ∀ e, (∀ c ∈ C, ∀ x, Desc f depth parc c x → parc x ≠ e) → t.cnt e = s0.cnt e
  child : ∀ c ∈ C, c < f.blocks.length ∧ 0 < depth c ∧ parOf f parc c = b

theorem child_depth (hT : SpanForest f depth parc root) {b c : Nat} (hc : c < f.blocks.length)
    (hd : 0 < depth c) (hp : parOf f parc c = b) : depth c = depth b + 1 := by
  obtain ⟨_, _, _, _, h2, _⟩ := par_facts hT hc hd
  rw [hp] at h2; omega

/-- the parent arc of a block below a child is an on-tree arc -/
theorem parc_onTree (hT : SpanForest f depth parc root) {c x : Nat} (hc : c < f.blocks.length)
    (hd : 0 < depth c) (hx : Desc f depth parc c x) :
    x < f.blocks.length ∧ 0 < depth x ∧ ∃ a : Arc, f.arcs[parc x]? = some a ∧ a.onTree = true := by
  have hxl := hx.lt hc
  have hdx : 0 < depth x := by have := hx.depth_le hT; omega
  obtain ⟨a, ha, ht, _⟩ := par_facts hT hxl hdx
  exact ⟨hxl, hdx, a, ha, ht⟩

theorem loop_lemma (hT : SpanForest f depth parc root) {fuel : Nat}
    (hrec : KeyStmt f depth parc F fuel) {b : Nat} (hb : b < f.blocks.length) (pred : Option Nat)
    (hpred : (depth b = 0 ∧ pred = none) ∨ (0 < depth b ∧ pred = some (parc b)))
    (hfuel : f.blocks.length + 1 ≤ fuel + (depth b + 1)) (s0 : PS)
    (hs0vis : ∀ x, Desc f depth parc b x → x ∉ s0.vis)
    (hs0cnt : ∀ (e : Nat) (a : Arc), f.arcs[e]? = some a → a.onTree = false → s0.cnt e = F e)
    (useSrc : Bool) :
    ∀ (es C : List Nat) (t : PS) (acc : Nat),
      (∀ e ∈ es, ∃ a : Arc, f.arcs[e]? = some a ∧ nearEnd useSrc a = b) → es.Nodup →
      (∀ c ∈ C, parc c ∉ es) → LoopInv f depth parc F s0 b C t →
      acc + sumEx F pred es ≤ U64MAX →
      ∃ t' C', sumArcs (arcStep f.arcs (fun s w e => prop f fuel s w (some e)) useSrc pred) es t acc
          = ok (t', acc + sumEx F pred es) ∧
        LoopInv f depth parc F s0 b C' t' ∧ (∀ c ∈ C, c ∈ C') ∧ (∀ c ∈ C', c ∈ C ∨ parc c ∈ es) ∧
        (∀ e ∈ es, ∀ a : Arc, f.arcs[e]? = some a → a.onTree = true → pred ≠ some e →
          farEnd useSrc a ∈ C') := by
  intro es
  induction es with
  | nil =>
    intro C t acc _ _ _ hinv _
    exact ⟨t, C, by simp [sumArcs, sumEx], hinv, fun c hc => hc, fun c hc => Or.inl hc,
      fun e he => by cases he⟩
  | cons e es ih =>
    intro C t acc hE1 hnd hE3 hinv hbound
    rw [List.nodup_cons] at hnd
    have hE1' : ∀ e' ∈ es, ∃ a : Arc, f.arcs[e']? = some a ∧ nearEnd useSrc a = b :=
      fun e' he' => hE1 e' (List.mem_cons_of_mem _ he')
    obtain ⟨a, ha, hnear⟩ := hE1 e List.mem_cons_self
    -- counters of arcs that are not on the tree are still the flow
    have hnt : ∀ (e' : Nat) (a' : Arc), f.arcs[e']? = some a' → a'.onTree = false → t.cnt e' = F e' := by
      intro e' a' ha' hf'
      rw [hinv.cnt_out e' ?_]
      · exact hs0cnt e' a' ha' hf'
      · intro c hc x hx hpe
        obtain ⟨hcl, hcd, _⟩ := hinv.child c hc
        obtain ⟨_, _, a'', ha'', ht''⟩ := parc_onTree hT hcl hcd hx
        rw [hpe, ha'] at ha''; cases ha''
        rw [hf'] at ht''; cases ht''
    simp only [sumArcs]
    by_cases hp : pred = some e
    · -- the arc we came through
      have hstep : arcStep f.arcs (fun s w e => prop f fuel s w (some e)) useSrc pred t e = ok (t, 0) := by
        simp [arcStep, hp]
      simp only [hstep, bind_ok, Nat.add_zero]
      have hb1 : ¬ acc > U64MAX := by have := hbound; simp only [sumEx] at this; omega
      rw [if_neg hb1]
      have hse : sumEx F pred (e :: es) = sumEx F pred es := by simp [sumEx, hp]
      rw [hse] at hbound ⊢
      obtain ⟨t', C', h1, h2, h3, h4, h5⟩ := ih C t acc hE1' hnd.2
        (fun c hc hm => hE3 c hc (List.mem_cons_of_mem _ hm)) hinv hbound
      refine ⟨t', C', h1, h2, h3, ?_, ?_⟩
      · intro c hc
        rcases h4 c hc with h | h
        · exact Or.inl h
        · exact Or.inr (List.mem_cons_of_mem _ h)
      · intro e' he' a' ha' ht' hpe'
        rcases List.mem_cons.1 he' with h | h
        · subst h; exact absurd hp hpe'
        · exact h5 e' h a' ha' ht' hpe'
    · have hse : sumEx F pred (e :: es) = F e + sumEx F pred es := by simp [sumEx, hp]
      rw [hse] at hbound ⊢
      by_cases ht : a.onTree = true
      · -- a tree arc to a child
        have hnp : ¬ (0 < depth b ∧ parc b = e) := by
          rintro ⟨hd, hpe⟩
          rcases hpred with ⟨h0, _⟩ | ⟨_, hp'⟩
          · omega
          · exact hp (by rw [hp', hpe])
        obtain ⟨hwl, hwd, hwp, hwpar⟩ := child_of_tree_arc hT useSrc ha ht hnear hnp
        generalize hw : farEnd useSrc a = w at hwl hwd hwp hwpar
        have hwd0 : 0 < depth w := by omega
        have hstep : arcStep f.arcs (fun s w e => prop f fuel s w (some e)) useSrc pred t e
            = prop f fuel t w (some e) := by
          simp only [arcStep, hp, if_false, ha, ht, if_true]
          cases useSrc <;> simp [farEnd] at hw <;> simp [hw]
        -- the recursive call
        have hvis : ∀ x, Desc f depth parc w x → x ∉ t.vis := by
          intro x hx hmem
          rcases (hinv.vis x).1 hmem with h | h | ⟨c, hc, hcx⟩
          · exact hs0vis x (Desc.of_child hwl hwd0 hwpar hx) h
          · subst h; have := hx.depth_le hT; omega
          · obtain ⟨hcl, hcd, hcp⟩ := hinv.child c hc
            have hdc := child_depth hT hcl hcd hcp
            have : c = w := Desc.unique hT hcx hx (by omega)
            subst this
            exact hE3 c hc (by rw [hwp]; exact List.mem_cons_self)
        obtain ⟨t1, hcall, hpost⟩ := hrec w (some e) t hwl (Or.inr ⟨hwd0, by rw [hwp]⟩) (by omega)
          hvis hnt
        have hres : (if depth w = 0 then 0 else F (parc w)) = F e := by
          rw [if_neg (by omega), hwp]
        rw [hres] at hcall
        simp only [hstep, hcall, bind_ok]
        have hb1 : ¬ acc + F e > U64MAX := by omega
        rw [if_neg hb1]
        -- the invariant with the new child
        have hinv1 : LoopInv f depth parc F s0 b (w :: C) t1 := by
          constructor
          · intro x
            rw [hpost.1 x, hinv.vis x]
            constructor
            · rintro ((h | h | ⟨c, hc, hcx⟩) | h)
              · exact Or.inl h
              · exact Or.inr (Or.inl h)
              · exact Or.inr (Or.inr ⟨c, List.mem_cons_of_mem _ hc, hcx⟩)
              · exact Or.inr (Or.inr ⟨w, List.mem_cons_self, h⟩)
            · rintro (h | h | ⟨c, hc, hcx⟩)
              · exact Or.inl (Or.inl h)
              · exact Or.inl (Or.inr (Or.inl h))
              · rcases List.mem_cons.1 hc with h | h
                · subst h; exact Or.inr hcx
                · exact Or.inl (Or.inr (Or.inr ⟨c, h, hcx⟩))
          · intro c hc x hcx
            rcases List.mem_cons.1 hc with h | h
            · subst h
              exact hpost.2.1 x hcx (by have := hcx.depth_le hT; omega)
            · rw [hpost.2.2 (parc x) ?_]
              · exact hinv.cnt_in c h x hcx
              · intro y hy hdy hpe
                obtain ⟨hcl, hcd, hcp⟩ := hinv.child c h
                obtain ⟨hxl, hxd, _⟩ := parc_onTree hT hcl hcd hcx
                have hyl := hy.lt hwl
                have : y = x := parc_inj hT hyl hxl hdy hxd hpe
                subst this
                have hdc := child_depth hT hcl hcd hcp
                have : c = w := Desc.unique hT hcx hy (by omega)
                subst this
                exact hE3 c h (by rw [hwp]; exact List.mem_cons_self)
          · intro e' he'
            rw [hpost.2.2 e' (fun y hy _ => he' w List.mem_cons_self y hy)]
            exact hinv.cnt_out e' (fun c hc => he' c (List.mem_cons_of_mem _ hc))
          · intro c hc
            rcases List.mem_cons.1 hc with h | h
            · subst h; exact ⟨hwl, hwd0, hwpar⟩
            · exact hinv.child c h
        have hE3' : ∀ c ∈ w :: C, parc c ∉ es := by
          intro c hc
          rcases List.mem_cons.1 hc with h | h
          · subst h; rw [hwp]; exact hnd.1
          · exact fun hm => hE3 c h (List.mem_cons_of_mem _ hm)
        obtain ⟨t', C', h1, h2, h3, h4, h5⟩ := ih (w :: C) t1 (acc + F e) hE1' hnd.2 hE3' hinv1
          (by omega)
        refine ⟨t', C', by rw [h1, Nat.add_assoc], h2,
          fun c hc => h3 c (List.mem_cons_of_mem _ hc), ?_, ?_⟩
        · intro c hc
          rcases h4 c hc with h | h
          · rcases List.mem_cons.1 h with h | h
            · subst h; exact Or.inr (by rw [hwp]; exact List.mem_cons_self)
            · exact Or.inl h
          · exact Or.inr (List.mem_cons_of_mem _ h)
        · intro e' he' a' ha' ht' hpe'
          rcases List.mem_cons.1 he' with h | h
          · subst h
            rw [ha] at ha'; cases ha'
            rw [hw]; exact h3 w List.mem_cons_self
          · exact h5 e' h a' ha' ht' hpe'
      · -- an instrumented arc: its counter is the flow
        have htf : a.onTree = false := by simpa using ht
        have hstep : arcStep f.arcs (fun s w e => prop f fuel s w (some e)) useSrc pred t e
            = ok (t, t.cnt e) := by
          simp [arcStep, hp, ha, htf]
        rw [hnt e a ha htf] at hstep
        simp only [hstep, bind_ok]
        have hb1 : ¬ acc + F e > U64MAX := by omega
        rw [if_neg hb1]
        obtain ⟨t', C', h1, h2, h3, h4, h5⟩ := ih C t (acc + F e) hE1' hnd.2
          (fun c hc hm => hE3 c hc (List.mem_cons_of_mem _ hm)) hinv (by omega)
        refine ⟨t', C', by rw [h1, Nat.add_assoc], h2, h3, ?_, ?_⟩
        · intro c hc
          rcases h4 c hc with h | h
          · exact Or.inl h
          · exact Or.inr (List.mem_cons_of_mem _ h)
        · intro e' he' a' ha' ht' hpe'
          rcases List.mem_cons.1 he' with h | h
          · subst h; rw [ha] at ha'; cases ha'; exact absurd ht' ht
          · exact h5 e' h a' ha' ht' hpe'

theorem key_all (hT : SpanForest f depth parc root) (hF : Flow f F) :
    ∀ fuel, KeyStmt f depth parc F fuel := by
  intro fuel
  induction fuel with
  | zero =>
    intro b pred s hb _ hfuel _ _
    have := hT.depth_lt b hb
    omega
  | succ fuel hrec =>
    intro b pred s hb hpred hfuel hvis hcnt
    have hbv : b ∉ s.vis := hvis b Desc.refl
    obtain ⟨blk, hblk⟩ : ∃ blk, f.blocks[b]? = some blk := ⟨f.blocks[b], by simp [hb]⟩
    unfold prop
    rw [if_neg hbv, hblk]
    simp only
    -- first loop: incoming arcs
    have hinv0 : LoopInv f depth parc F s b [] { cnt := s.cnt, vis := b :: s.vis } := by
      constructor
      · intro x; simp only [List.mem_cons]
        constructor
        · rintro (h | h)
          · exact Or.inr (Or.inl h)
          · exact Or.inl h
        · rintro (h | h | ⟨c, hc, _⟩)
          · exact Or.inr h
          · exact Or.inl h
          · cases hc
      · intro c hc; cases hc
      · intro e _; rfl
      · intro c hc; cases hc
    have hsum := hF.conserve b blk hblk
    have hbd := hF.bounded b blk hblk
    obtain ⟨t1, C1, hl1, hinv1, hsub1, hfrom1, hcov1⟩ :=
      loop_lemma hT hrec hb pred hpred (by omega) s hvis hcnt true blk.source [] _ 0
        (fun e he => by
          obtain ⟨a, ha, hd⟩ := (hT.src_iff b blk e hblk).1 he
          exact ⟨a, ha, by simp [nearEnd, hd]⟩)
        (hT.src_nodup b blk hblk) (fun c hc => by cases hc) hinv0
        (by have := sumEx_le F pred blk.source; omega)
    simp only [Nat.zero_add] at hl1
    simp only [hl1, bind_ok]
    -- second loop: outgoing arcs
    have hE3 : ∀ c ∈ C1, parc c ∉ blk.destination := by
      intro c hc hm
      obtain ⟨hcl, hcd, hcp⟩ := hinv1.child c hc
      have hdc := child_depth hT hcl hcd hcp
      rcases hfrom1 c hc with h | h
      · cases h
      · obtain ⟨a, ha, hd⟩ := (hT.src_iff b blk _ hblk).1 h
        obtain ⟨a', ha', hs⟩ := (hT.dst_iff b blk _ hblk).1 hm
        rw [ha] at ha'; cases ha'
        obtain ⟨a'', ha'', _, _, _, _, hcase⟩ := par_facts hT hcl hcd
        rw [ha] at ha''; cases ha''
        rcases hcase with ⟨g1, _⟩ | ⟨g1, _⟩
        · rw [g1] at hs; rw [hs] at hdc; omega
        · rw [g1] at hd; rw [hd] at hdc; omega
    obtain ⟨t2, C2, hl2, hinv2, hsub2, _, hcov2⟩ :=
      loop_lemma hT hrec hb pred hpred (by omega) s hvis hcnt false blk.destination C1 t1 0
        (fun e he => by
          obtain ⟨a, ha, hd⟩ := (hT.dst_iff b blk e hblk).1 he
          exact ⟨a, ha, by simp [nearEnd, hd]⟩)
        (hT.dst_nodup b blk hblk) hE3 hinv1
        (by have := sumEx_le F pred blk.destination; omega)
    simp only [Nat.zero_add] at hl2
    simp only [hl2, bind_ok]
    -- every child of `b` has been resolved
    have hcover : ∀ c, c < f.blocks.length → 0 < depth c → parOf f parc c = b → c ∈ C2 := by
      intro c hcl hcd hcp
      have hdc := child_depth hT hcl hcd hcp
      obtain ⟨a, ha, ht, _, _, _, hcase⟩ := par_facts hT hcl hcd
      have hne : pred ≠ some (parc c) := by
        rcases hpred with ⟨_, h⟩ | ⟨hd, h⟩
        · rw [h]; simp
        · rw [h]; intro h'
          have : b = c := parc_inj hT hb hcl hd hcd (Option.some.inj h')
          subst this; omega
      rw [hcp] at hcase
      rcases hcase with ⟨g1, g2⟩ | ⟨g1, g2⟩
      · -- a.src = c, a.dst = b : incoming arc of b
        have hm : parc c ∈ blk.source := (hT.src_iff b blk _ hblk).2 ⟨a, ha, g2⟩
        have := hcov1 _ hm a ha ht hne
        simp only [farEnd, if_true, g1] at this
        exact hsub2 c this
      · have hm : parc c ∈ blk.destination := (hT.dst_iff b blk _ hblk).2 ⟨a, ha, g2⟩
        have := hcov2 _ hm a ha ht hne
        simp only [farEnd, Bool.false_eq_true, if_false, g1] at this
        exact this
    have hdesc : ∀ x, Desc f depth parc b x ↔ x = b ∨ ∃ c ∈ C2, Desc f depth parc c x := by
      intro x
      constructor
      · intro h
        rcases h.cases_child with h | ⟨c, hcl, hcd, hcp, hcx⟩
        · exact Or.inl h
        · exact Or.inr ⟨c, hcover c hcl hcd hcp, hcx⟩
      · rintro (h | ⟨c, hc, hcx⟩)
        · subst h; exact Desc.refl
        · obtain ⟨hcl, hcd, hcp⟩ := hinv2.child c hc
          exact Desc.of_child hcl hcd hcp hcx
    -- the excess is the flow on the parent arc
    have hexcess : (if sumEx F pred blk.source ≥ sumEx F pred blk.destination
          then sumEx F pred blk.source - sumEx F pred blk.destination
          else sumEx F pred blk.destination - sumEx F pred blk.source)
        = if depth b = 0 then 0 else F (parc b) := by
      rcases hpred with ⟨h0, hp⟩ | ⟨hd, hp⟩
      · subst hp
        rw [sumEx_none, sumEx_none, hsum, if_pos h0]
        simp
      · subst hp
        rw [if_neg (show ¬ depth b = 0 by omega)]
        obtain ⟨a, ha, _, _, hdp, _, hcase⟩ := par_facts hT hb hd
        rcases hcase with ⟨g1, g2⟩ | ⟨g1, g2⟩
        · -- a.src = b: the parent arc leaves b
          have hm : parc b ∈ blk.destination := (hT.dst_iff b blk _ hblk).2 ⟨a, ha, g1⟩
          have hnm : parc b ∉ blk.source := by
            intro h
            obtain ⟨a', ha', hd'⟩ := (hT.src_iff b blk _ hblk).1 h
            rw [ha] at ha'; cases ha'
            rw [hd'] at g2; rw [← g2] at hdp; omega
          have e1 := sumEx_not_mem F _ _ hnm
          have e2 := sumEx_mem F _ _ (hT.dst_nodup b blk hblk) hm
          split <;> omega
        · have hm : parc b ∈ blk.source := (hT.src_iff b blk _ hblk).2 ⟨a, ha, g1⟩
          have hnm : parc b ∉ blk.destination := by
            intro h
            obtain ⟨a', ha', hs'⟩ := (hT.dst_iff b blk _ hblk).1 h
            rw [ha] at ha'; cases ha'
            rw [hs'] at g2; rw [← g2] at hdp; omega
          have e1 := sumEx_not_mem F _ _ hnm
          have e2 := sumEx_mem F _ _ (hT.src_nodup b blk hblk) hm
          split <;> omega
    rw [hexcess]
    -- facts about blocks below the children
    have hbelow : ∀ c ∈ C2, ∀ x, Desc f depth parc c x →
        x < f.blocks.length ∧ 0 < depth x ∧ depth b < depth x := by
      intro c hc x hcx
      obtain ⟨hcl, hcd, hcp⟩ := hinv2.child c hc
      have hdc := child_depth hT hcl hcd hcp
      have := hcx.depth_le hT
      exact ⟨hcx.lt hcl, by omega, by omega⟩
    rcases hpred with ⟨h0, hp⟩ | ⟨hd, hp⟩
    · subst hp
      simp only
      refine ⟨t2, rfl, ?_, ?_, ?_⟩
      · intro x
        rw [hinv2.vis x, hdesc x]
      · intro x hx hdx
        rcases (hdesc x).1 hx with h | ⟨c, hc, hcx⟩
        · subst h; omega
        · exact hinv2.cnt_in c hc x hcx
      · intro e he
        apply hinv2.cnt_out
        intro c hc x hcx
        obtain ⟨_, hdx, _⟩ := hbelow c hc x hcx
        exact he x ((hdesc x).2 (Or.inr ⟨c, hc, hcx⟩)) hdx
    · subst hp
      simp only
      refine ⟨_, rfl, ?_, ?_, ?_⟩
      · intro x
        rw [hinv2.vis x, hdesc x]
      · intro x hx hdx
        rcases (hdesc x).1 hx with h | ⟨c, hc, hcx⟩
        · subst h; simp [upd, if_neg (show ¬ depth x = 0 by omega)]
        · obtain ⟨hxl, hdx', hlt⟩ := hbelow c hc x hcx
          have hne : parc x ≠ parc b := by
            intro h
            have := parc_inj hT hxl hb hdx' hd h
            subst this; omega
          simp only [upd, if_neg hne]
          exact hinv2.cnt_in c hc x hcx
      · intro e he
        have hne : e ≠ parc b := fun h => he b Desc.refl hd h.symm
        simp only [upd, if_neg hne]
        apply hinv2.cnt_out
        intro c hc x hcx
        obtain ⟨_, hdx, _⟩ := hbelow c hc x hcx
        exact he x ((hdesc x).2 (Or.inr ⟨c, hc, hcx⟩)) hdx

/-! ### the loop over all blocks -/

/-- state after `propagate_counts(k', None)` for all `k' < k` -/
structure OuterInv (f : Func) (depth parc root F : Nat → Nat) (s0 : PS) (k : Nat) (s : PS) : Prop where
  vis : ∀ x, x < f.blocks.length → (x ∈ s.vis ↔ root x < k)
  cnt_in : ∀ x, x < f.blocks.length → 0 < depth x → root x < k → s.cnt (parc x) = F (parc x)
  cnt_out : ∀ e, (∀ x, x < f.blocks.length → 0 < depth x → root x < k → parc x ≠ e) →
    s.cnt e = s0.cnt e

theorem outer_loop (hT : SpanForest f depth parc root) (hF : Flow f F) (fuel : Nat)
    (hfuel : f.blocks.length + 1 ≤ fuel) (s0 : PS)
    (hs0 : ∀ (e : Nat) (a : Arc), f.arcs[e]? = some a → a.onTree = false → s0.cnt e = F e) :
    ∀ (m k : Nat) (s : PS), k + m = f.blocks.length → OuterInv f depth parc root F s0 k s →
      ∃ s', propAll f fuel (List.range' k m) s = ok s' ∧
        OuterInv f depth parc root F s0 f.blocks.length s' := by
  intro m
  induction m with
  | zero =>
    intro k s hk hinv
    have : k = f.blocks.length := by omega
    subst this
    exact ⟨s, by simp [propAll], hinv⟩
  | succ m ih =>
    intro k s hk hinv
    have hkl : k < f.blocks.length := by omega
    rw [List.range'_succ]
    simp only [propAll]
    have hrk := hT.root_le k hkl
    obtain ⟨hdk, hd0⟩ := desc_root hT _ k rfl hkl
    -- counters of arcs that are not on the tree are still the flow
    have hnt : ∀ (e : Nat) (a : Arc), f.arcs[e]? = some a → a.onTree = false → s.cnt e = F e := by
      intro e a ha hf
      rw [hinv.cnt_out e ?_]
      · exact hs0 e a ha hf
      · intro x hx hdx _ hpe
        obtain ⟨a', ha', ht', _⟩ := par_facts hT hx hdx
        rw [hpe, ha] at ha'; cases ha'
        rw [hf] at ht'; cases ht'
    by_cases hroot : root k < k
    · -- already visited from its root
      have hv : k ∈ s.vis := (hinv.vis k hkl).2 hroot
      have hcall : prop f fuel s k none = ok (s, 0) := by
        obtain ⟨fuel', rfl⟩ : ∃ fuel', fuel = fuel' + 1 := ⟨fuel - 1, by omega⟩
        unfold prop; rw [if_pos hv]
      simp only [hcall, bind_ok]
      apply ih (k + 1) s (by omega)
      have hne : ∀ x, x < f.blocks.length → root x ≠ k := by
        intro x hx h
        obtain ⟨_, h0⟩ := desc_root hT _ x rfl hx
        rw [h] at h0
        have := hT.root_self k hkl h0
        omega
      constructor
      · intro x hx
        rw [hinv.vis x hx]
        have := hne x hx
        omega
      · intro x hx hdx hr
        have := hne x hx
        exact hinv.cnt_in x hx hdx (by omega)
      · intro e he
        apply hinv.cnt_out
        intro x hx hdx hr
        exact he x hx hdx (by omega)
    · -- a root: the whole tree is resolved now
      have hrk' : root k = k := by omega
      have hdepth : depth k = 0 := by rw [hrk'] at hd0; exact hd0
      have hvis : ∀ x, Desc f depth parc k x → x ∉ s.vis := by
        intro x hx hm
        have hxl := hx.lt hkl
        have := root_of_desc hT hkl hdepth hx
        have := (hinv.vis x hxl).1 hm
        omega
      obtain ⟨t, hcall, hpost⟩ := key_all hT hF fuel k none s hkl (Or.inl ⟨hdepth, rfl⟩) (by omega)
        hvis hnt
      rw [if_pos hdepth] at hcall
      simp only [hcall, bind_ok]
      apply ih (k + 1) t (by omega)
      have hdesc : ∀ x, x < f.blocks.length → (Desc f depth parc k x ↔ root x = k) := by
        intro x hx
        constructor
        · exact root_of_desc hT hkl hdepth
        · intro h
          obtain ⟨hd, _⟩ := desc_root hT _ x rfl hx
          rw [h] at hd; exact hd
      constructor
      · intro x hx
        rw [hpost.1 x, hinv.vis x hx, hdesc x hx]
        omega
      · intro x hx hdx hr
        by_cases hxk : root x = k
        · exact hpost.2.1 x ((hdesc x hx).2 hxk) hdx
        · rw [hpost.2.2 (parc x) ?_]
          · exact hinv.cnt_in x hx hdx (by omega)
          · intro y hy hdy hpe
            have hyl := hy.lt hkl
            have : y = x := parc_inj hT hyl hx hdy hdx hpe
            subst this
            exact hxk ((hdesc y hyl).1 hy)
      · intro e he
        rw [hpost.2.2 e ?_]
        · apply hinv.cnt_out
          intro x hx hdx hr
          exact he x hx hdx (by omega)
        · intro y hy hdy
          have hyl := hy.lt hkl
          exact he y hyl hdy (by have := (hdesc y hyl).1 hy; omega)

/-- **flow recovery by the propagation loop**: started with the flow on the arcs that are not on
the tree (anything on the others), the loop over all blocks ends with the flow on every arc -/
theorem propAll_recovers (hT : SpanForest f depth parc root) (hF : Flow f F) (fuel : Nat)
    (hfuel : f.blocks.length + 1 ≤ fuel) (cnt0 : Nat → Nat)
    (h0 : ∀ (e : Nat) (a : Arc), f.arcs[e]? = some a → a.onTree = false → cnt0 e = F e) :
    ∃ s, propAll f fuel (List.range f.blocks.length) ⟨cnt0, []⟩ = ok s ∧
      ∀ (e : Nat) (a : Arc), f.arcs[e]? = some a → s.cnt e = F e := by
  have hinv0 : OuterInv f depth parc root F ⟨cnt0, []⟩ 0 ⟨cnt0, []⟩ := by
    constructor
    · intro x _; simp
    · intro x _ _ h; omega
    · intro e _; rfl
  obtain ⟨s, hs, hinv⟩ := outer_loop hT hF fuel hfuel ⟨cnt0, []⟩ h0 f.blocks.length 0 ⟨cnt0, []⟩
    (by omega) hinv0
  rw [List.range_eq_range']
  refine ⟨s, hs, ?_⟩
  intro e a ha
  by_cases ht : a.onTree = true
  · obtain ⟨x, hx, hdx, hpx⟩ := hT.tree_arc e a ha ht
    rw [← hpx]
    exact hinv.cnt_in x hx hdx (by have := hT.root_le x hx; omega)
  · have htf : a.onTree = false := by simpa using ht
    rw [hinv.cnt_out e ?_]
    · exact h0 e a ha htf
    · intro x hx hdx _ hpe
      obtain ⟨a', ha', ht', _⟩ := par_facts hT hx hdx
      rw [hpe, ha] at ha'; cases ha'
      exact ht ht'

/-! ### block counters: sums over the arcs that leave a block -/

/-- ids (numbered from `i`) of the arcs of `l` that satisfy `P` and leave block `b` -/
def outIdx (P : Arc → Bool) (b : Nat) : List Arc → Nat → List Nat
  | [], _ => []
  | a :: l, i => if P a && a.src == b then i :: outIdx P b l (i + 1) else outIdx P b l (i + 1)

theorem mem_outIdx (P : Arc → Bool) (b e : Nat) : ∀ (l : List Arc) (i : Nat),
    e ∈ outIdx P b l i ↔ i ≤ e ∧ ∃ a : Arc, l[e - i]? = some a ∧ P a = true ∧ a.src = b := by
  intro l
  induction l with
  | nil => intro i; simp [outIdx]
  | cons a l ih =>
    intro i
    simp only [outIdx]
    have key : (i + 1 ≤ e ∧ ∃ a' : Arc, l[e - (i + 1)]? = some a' ∧ P a' = true ∧ a'.src = b) ↔
        (i < e ∧ ∃ a' : Arc, (a :: l)[e - i]? = some a' ∧ P a' = true ∧ a'.src = b) := by
      constructor
      · rintro ⟨h1, a', h2, h3⟩
        refine ⟨h1, a', ?_, h3⟩
        have : e - i = (e - (i + 1)) + 1 := by omega
        rw [this, List.getElem?_cons_succ]; exact h2
      · rintro ⟨h1, a', h2, h3⟩
        refine ⟨h1, a', ?_, h3⟩
        have : e - i = (e - (i + 1)) + 1 := by omega
        rw [this, List.getElem?_cons_succ] at h2; exact h2
    split
    · rename_i hc
      simp only [Bool.and_eq_true, beq_iff_eq] at hc
      rw [List.mem_cons, ih, key]
      constructor
      · rintro (h | ⟨h1, h2⟩)
        · subst h; exact ⟨Nat.le_refl _, a, by simp, hc.1, hc.2⟩
        · exact ⟨by omega, h2⟩
      · rintro ⟨h1, a', h2, h3⟩
        by_cases he : e = i
        · exact Or.inl he
        · exact Or.inr ⟨by omega, a', h2, h3⟩
    · rename_i hc
      simp only [Bool.and_eq_true, beq_iff_eq] at hc
      rw [ih, key]
      constructor
      · rintro ⟨h1, h2⟩; exact ⟨by omega, h2⟩
      · rintro ⟨h1, a', h2, h3⟩
        by_cases he : e = i
        · subst he; simp at h2; subst h2; exact absurd h3 hc
        · exact ⟨by omega, a', h2, h3⟩

theorem outIdx_nodup (P : Arc → Bool) (b : Nat) : ∀ (l : List Arc) (i : Nat),
    (outIdx P b l i).Nodup := by
  intro l
  induction l with
  | nil => intro i; simp [outIdx]
  | cons a l ih =>
    intro i
    simp only [outIdx]
    split
    · rw [List.nodup_cons]
      refine ⟨?_, ih _⟩
      intro h
      have := ((mem_outIdx P b i l (i + 1)).1 h).1
      omega
    · exact ih _

theorem outIdx_split (P : Arc → Bool) (F : Nat → Nat) (b : Nat) : ∀ (l : List Arc) (i : Nat),
    ((outIdx P b l i).map F).sum + ((outIdx (fun a => !P a) b l i).map F).sum
      = ((outIdx (fun _ => true) b l i).map F).sum := by
  intro l
  induction l with
  | nil => intro i; simp [outIdx]
  | cons a l ih =>
    intro i
    simp only [outIdx]
    have := ih (i + 1)
    by_cases hs : a.src = b
    · by_cases hp : P a = true
      · simp [hs, hp]; omega
      · have hp' : P a = false := by simpa using hp
        simp [hs, hp']; omega
    · have hs' : (a.src == b) = false := by simpa using hs
      simp only [hs', Bool.and_false, Bool.false_eq_true, if_false]
      exact this

/-- two duplicate-free lists with the same elements have the same sum -/
theorem sum_eq_of_same_mem (F : Nat → Nat) : ∀ (l1 l2 : List Nat), l1.Nodup → l2.Nodup →
    (∀ x, x ∈ l1 ↔ x ∈ l2) → (l1.map F).sum = (l2.map F).sum := by
  intro l1
  induction l1 with
  | nil =>
    intro l2 _ _ h
    cases l2 with
    | nil => rfl
    | cons y l2 => exact absurd ((h y).2 List.mem_cons_self) (by simp)
  | cons x l1 ih =>
    intro l2 h1 h2 h
    rw [List.nodup_cons] at h1
    obtain ⟨A, B, rfl⟩ := List.append_of_mem ((h x).1 List.mem_cons_self)
    have h2' : (A ++ B).Nodup := by
      rw [List.nodup_append] at h2 ⊢
      obtain ⟨hA, hB, hAB⟩ := h2
      rw [List.nodup_cons] at hB
      exact ⟨hA, hB.2, fun a ha b hb => hAB a ha b (List.mem_cons_of_mem _ hb)⟩
    have hx : x ∉ A ++ B := by
      rw [List.nodup_append] at h2
      obtain ⟨_, hB, hAB⟩ := h2
      rw [List.nodup_cons] at hB
      intro hm
      rcases List.mem_append.1 hm with hm | hm
      · exact hAB x hm x List.mem_cons_self rfl
      · exact hB.1 hm
    have hmem : ∀ y, y ∈ l1 ↔ y ∈ A ++ B := by
      intro y
      constructor
      · intro hy
        have := (h y).1 (List.mem_cons_of_mem _ hy)
        rcases List.mem_append.1 this with hm | hm
        · exact List.mem_append_left _ hm
        · rcases List.mem_cons.1 hm with hm | hm
          · subst hm; exact absurd hy h1.1
          · exact List.mem_append_right _ hm
      · intro hy
        have hne : y ≠ x := fun e => hx (e ▸ hy)
        have : y ∈ A ++ x :: B := by
          rcases List.mem_append.1 hy with hm | hm
          · exact List.mem_append_left _ hm
          · exact List.mem_append_right _ (List.mem_cons_of_mem _ hm)
        rcases List.mem_cons.1 ((h y).2 this) with hm | hm
        · exact absurd hm hne
        · exact hm
    have := ih (A ++ B) h1.2 h2' hmem
    simp only [List.map_cons, List.sum_cons, List.map_append, List.sum_append] at this ⊢
    omega

/-- contribution of the on-tree arcs of an indexed arc list to block `b` -/
def treeOut (cnt : Nat → Nat) (b : Nat) : List (Nat × Arc) → Nat
  | [] => 0
  | ia :: L => (if ia.2.onTree && ia.2.src == b then cnt ia.1 else 0) + treeOut cnt b L

theorem treeOut_append (cnt : Nat → Nat) (b : Nat) (L1 L2 : List (Nat × Arc)) :
    treeOut cnt b (L1 ++ L2) = treeOut cnt b L1 + treeOut cnt b L2 := by
  induction L1 with
  | nil => simp [treeOut]
  | cons ia L1 ih => simp only [List.cons_append, treeOut, ih]; omega

theorem treeOut_reverse (cnt : Nat → Nat) (b : Nat) (L : List (Nat × Arc)) :
    treeOut cnt b L.reverse = treeOut cnt b L := by
  induction L with
  | nil => rfl
  | cons ia L ih => simp only [List.reverse_cons, treeOut_append, treeOut, ih]; omega

theorem treeOut_indexed (cnt : Nat → Nat) (b : Nat) : ∀ (l : List Arc) (i : Nat),
    treeOut cnt b (indexed l i) = ((outIdx (fun a => a.onTree) b l i).map cnt).sum := by
  intro l
  induction l with
  | nil => intro i; rfl
  | cons a l ih =>
    intro i
    simp only [indexed, treeOut, outIdx, ih]
    split <;> simp

theorem addTreeCounts_ok (n : Nat) (cnt : Nat → Nat) : ∀ (L : List (Nat × Arc)) (blk : Nat → Nat),
    (∀ ia ∈ L, ia.2.src < n) → (∀ b, blk b + treeOut cnt b L ≤ U64MAX) →
      addTreeCounts n cnt L blk = ok (fun b => blk b + treeOut cnt b L) := by
  intro L
  induction L with
  | nil => intro blk _ _; simp [addTreeCounts, treeOut]
  | cons ia L ih =>
    obtain ⟨i, a⟩ := ia
    intro blk hsrc hbound
    simp only [addTreeCounts]
    have hsrc' : ∀ ia ∈ L, ia.2.src < n := fun ia h => hsrc ia (List.mem_cons_of_mem _ h)
    split
    · rename_i ht
      have hs := hsrc (i, a) List.mem_cons_self
      simp only at hs
      have hb := hbound a.src
      simp only [treeOut, ht, beq_self_eq_true, Bool.and_self, if_true] at hb
      rw [if_neg (by omega), if_neg (by omega)]
      rw [ih _ hsrc' ?_]
      · congr 1
        funext b
        simp only [upd, treeOut, ht, Bool.true_and]
        by_cases hbb : b = a.src
        · subst hbb; simp; omega
        · have : ¬ (a.src == b) = true := by simpa using fun h => hbb h.symm
          simp [hbb, this]
      · intro b
        have := hbound b
        simp only [upd, treeOut, ht, Bool.true_and] at this ⊢
        by_cases hbb : b = a.src
        · subst hbb; simp at this ⊢; omega
        · have h' : ¬ (a.src == b) = true := by simpa using fun h => hbb h.symm
          simp [hbb, h'] at this ⊢; exact this
    · rename_i ht
      have htf : a.onTree = false := by simpa using ht
      rw [ih _ hsrc' ?_]
      · congr 1
        funext b
        simp [treeOut, htf]
      · intro b
        have := hbound b
        simp only [treeOut, htf, Bool.false_and] at this
        simpa using this

theorem mem_indexed {α : Type} : ∀ (l : List α) (i : Nat) (p : Nat × α),
    p ∈ indexed l i → i ≤ p.1 ∧ l[p.1 - i]? = some p.2 := by
  intro l
  induction l with
  | nil => intro i p h; cases h
  | cons a l ih =>
    intro i p h
    simp only [indexed] at h
    rcases List.mem_cons.1 h with h | h
    · subst h; simp
    · obtain ⟨h1, h2⟩ := ih _ _ h
      refine ⟨by omega, ?_⟩
      have : p.1 - i = (p.1 - (i + 1)) + 1 := by omega
      rw [this, List.getElem?_cons_succ]; exact h2

/-- all arcs leaving `b`: their flow sums to the block's outflow -/
theorem total_out (hT : SpanForest f depth parc root) {b : Nat} {blk : Block}
    (hblk : f.blocks[b]? = some blk) :
    ((outIdx (fun _ => true) b f.arcs 0).map F).sum = (blk.destination.map F).sum := by
  apply sum_eq_of_same_mem F _ _ (outIdx_nodup _ _ _ _) (hT.dst_nodup b blk hblk)
  intro e
  rw [mem_outIdx, hT.dst_iff b blk e hblk]
  simp

theorem total_out_none (hT : SpanForest f depth parc root) {b : Nat} (hb : f.blocks.length ≤ b) :
    outIdx (fun _ => true) b f.arcs 0 = [] := by
  rw [List.eq_nil_iff_forall_not_mem]
  intro e he
  obtain ⟨_, a, ha, _, hs⟩ := (mem_outIdx _ _ _ _ _).1 he
  have := (hT.arcs_lt _ _ (by simpa using ha)).1
  omega

theorem modifyAt_length {α : Type} (g : α → α) : ∀ (l : List α) (i : Nat),
    (modifyAt g l i).length = l.length := by
  intro l
  induction l with
  | nil => intro i; rfl
  | cons a l ih => intro i; cases i <;> simp [modifyAt, ih]

theorem addVirtualArc_arcs {version : Nat} {f : Func} (hn : f.blocks.length ≥ 2) :
    (addVirtualArc version f).arcs = f.arcs ++ [⟨sinkNo version f.blocks.length, 0, 1⟩] := by
  unfold addVirtualArc; rw [if_pos hn]

theorem addVirtualArc_blocks_length (version : Nat) (f : Func) :
    (addVirtualArc version f).blocks.length = f.blocks.length := by
  unfold addVirtualArc
  split
  · simp only [modifyAt_length]
  · rfl

end

/-- **`count_on_tree` recovers the flow.** `f` has at least two blocks; on `f` with its virtual
arc the on-tree arcs form a forest and `F` is a conserved flow; the counters are what `read_gcda`
leaves: `F` on the arcs that are not on the tree, and on every block the sum over its outgoing
arcs that are not on the tree. Then `count_on_tree` succeeds, every arc (the virtual one
included) carries `F`, and every block counter is the block's inflow = outflow. -/
theorem countOnTree_flow {version : Nat} {f : Func} {depth parc root F : Nat → Nat}
    (hn : f.blocks.length ≥ 2)
    (hT : SpanForest (addVirtualArc version f) depth parc root)
    (hF : Flow (addVirtualArc version f) F) (c : Cnt)
    (hc1 : ∀ (e : Nat) (a : Arc), (addVirtualArc version f).arcs[e]? = some a → a.onTree = false →
      c.arc e = F e)
    (hc2 : ∀ b, c.blk b
      = ((outIdx (fun a => !a.onTree) b (addVirtualArc version f).arcs 0).map F).sum) :
    ∃ c', countOnTree version f c = ok (addVirtualArc version f, c') ∧
      (∀ (e : Nat) (a : Arc), (addVirtualArc version f).arcs[e]? = some a → c'.arc e = F e) ∧
      (∀ (b : Nat) (blk : Block), (addVirtualArc version f).blocks[b]? = some blk →
        c'.blk b = (blk.source.map F).sum ∧ c'.blk b = (blk.destination.map F).sum) := by
  unfold countOnTree
  rw [if_pos hn]
  simp only
  generalize hf' : addVirtualArc version f = f' at hT hF hc1 hc2 ⊢
  have harcs : f'.arcs = f.arcs ++ [⟨sinkNo version f.blocks.length, 0, 1⟩] := by
    rw [← hf']; exact addVirtualArc_arcs hn
  -- the initial counters: the flow on every arc that is not on the tree
  have h0 : ∀ (e : Nat) (a : Arc), f'.arcs[e]? = some a → a.onTree = false →
      upd c.arc f.arcs.length 0 e = F e := by
    intro e a ha hf
    have hne : e ≠ f.arcs.length := by
      intro he
      rw [harcs, he] at ha
      simp at ha
      subst ha
      simp [Arc.onTree] at hf
    simp only [upd, if_neg hne]
    exact hc1 e a ha hf
  obtain ⟨s, hs, hrec⟩ := propAll_recovers hT hF (propFuel f') (by unfold propFuel; omega) _ h0
  simp only [hs, bind_ok]
  -- block counters
  have hmapF : ∀ (P : Arc → Bool) (b : Nat),
      ((outIdx P b f'.arcs 0).map s.cnt) = ((outIdx P b f'.arcs 0).map F) := by
    intro P b
    apply List.map_congr_left
    intro e he
    obtain ⟨_, a, ha, _⟩ := (mem_outIdx _ _ _ _ _).1 he
    exact hrec e a (by simpa using ha)
  have htree : ∀ b, treeOut s.cnt b (indexed f'.arcs 0).reverse
      = ((outIdx (fun a => a.onTree) b f'.arcs 0).map F).sum := by
    intro b; rw [treeOut_reverse, treeOut_indexed, hmapF]
  have htotal : ∀ b, c.blk b + treeOut s.cnt b (indexed f'.arcs 0).reverse
      = ((outIdx (fun _ => true) b f'.arcs 0).map F).sum := by
    intro b
    rw [htree, hc2, Nat.add_comm]
    exact outIdx_split (fun a => a.onTree) F b f'.arcs 0
  have hbound : ∀ b, c.blk b + treeOut s.cnt b (indexed f'.arcs 0).reverse ≤ U64MAX := by
    intro b
    rw [htotal]
    by_cases hb : b < f'.blocks.length
    · obtain ⟨blk, hblk⟩ : ∃ blk, f'.blocks[b]? = some blk := ⟨f'.blocks[b], by simp [hb]⟩
      rw [total_out hT hblk, ← hF.conserve b blk hblk]
      exact hF.bounded b blk hblk
    · rw [total_out_none hT (by omega)]; simp
  have hsrc : ∀ ia ∈ (indexed f'.arcs 0).reverse, ia.2.src < f'.blocks.length := by
    intro ia hia
    rw [List.mem_reverse] at hia
    obtain ⟨_, h2⟩ := mem_indexed _ _ _ hia
    exact (hT.arcs_lt _ _ (by simpa using h2)).1
  rw [addTreeCounts_ok _ _ _ _ hsrc hbound]
  simp only [bind_ok]
  refine ⟨_, rfl, hrec, ?_⟩
  intro b blk hblk
  simp only
  rw [htotal, total_out hT hblk, hF.conserve b blk hblk]
  exact ⟨rfl, rfl⟩

/-! ### what `read_gcda` leaves when the gcda carries a flow -/

/-- the counter values of a gcda arcs record for the flow `F`: one per arc that is not on the
tree, in arc order -/
def flowVals (F : Nat → Nat) : List Arc → Nat → List Nat
  | [], _ => []
  | a :: l, i => if a.onTree then flowVals F l (i + 1) else F i :: flowVals F l (i + 1)

theorem accArcs_flow (n : Nat) (F : Nat → Nat) : ∀ (rest : List Arc) (i : Nat) (c : Cnt),
    (∀ j, i ≤ j → c.arc j = 0) →
    (∀ a ∈ rest, a.src < n) →
    (∀ b, c.blk b + ((outIdx (fun a => !a.onTree) b rest i).map F).sum ≤ U64MAX) →
    ∃ c', accArcs n i rest c (flowVals F rest i) = ok c' ∧
      (∀ j, j < i → c'.arc j = c.arc j) ∧
      (∀ (j : Nat) (a : Arc), i ≤ j → rest[j - i]? = some a → a.onTree = false → c'.arc j = F j) ∧
      (∀ b, c'.blk b = c.blk b + ((outIdx (fun a => !a.onTree) b rest i).map F).sum) := by
  intro rest
  induction rest with
  | nil =>
    intro i c _ _ _
    exact ⟨c, accArcs_nil .., fun _ _ => rfl, fun j a _ h => by simp at h, fun b => by simp [outIdx]⟩
  | cons a rest ih =>
    intro i c hz hsrc hbound
    have hsrc' : ∀ a' ∈ rest, a'.src < n := fun a' h => hsrc a' (List.mem_cons_of_mem _ h)
    by_cases ht : a.onTree = true
    · rw [flowVals, if_pos ht, accArcs_tree _ _ _ _ _ ht]
      have hb' : ∀ b, c.blk b + ((outIdx (fun a => !a.onTree) b rest (i + 1)).map F).sum ≤ U64MAX := by
        intro b; have := hbound b; simp only [outIdx, ht] at this; simpa using this
      obtain ⟨c', h1, h2, h3, h4⟩ := ih (i + 1) c (fun j hj => hz j (by omega)) hsrc' hb'
      refine ⟨c', h1, fun j hj => h2 j (by omega), ?_, ?_⟩
      · intro j a' hj hget hf
        by_cases hji : j = i
        · subst hji; simp at hget; subst hget; rw [ht] at hf; cases hf
        · have : j - i = (j - (i + 1)) + 1 := by omega
          rw [this, List.getElem?_cons_succ] at hget
          exact h3 j a' (by omega) hget hf
      · intro b; rw [h4 b]; simp [outIdx, ht]
    · have htf : a.onTree = false := by simpa using ht
      have hsa := hsrc a List.mem_cons_self
      rw [flowVals, if_neg ht, accArcs_real _ _ _ _ _ _ htf]
      have hzi := hz i (Nat.le_refl _)
      have hba := hbound a.src
      simp only [outIdx, htf, Bool.not_false, beq_self_eq_true, Bool.and_self, if_true,
        List.map_cons, List.sum_cons] at hba
      rw [if_neg (by omega), if_neg (by omega), if_neg (by omega)]
      have hb' : ∀ b, (upd c.blk a.src (c.blk a.src + F i)) b
          + ((outIdx (fun a => !a.onTree) b rest (i + 1)).map F).sum ≤ U64MAX := by
        intro b
        have := hbound b
        simp only [outIdx, htf, Bool.not_false, Bool.true_and] at this
        simp only [upd]
        by_cases hbb : b = a.src
        · subst hbb; simp at this ⊢; omega
        · have h' : ¬ (a.src == b) = true := by simpa using fun h => hbb h.symm
          simp [hbb, h'] at this ⊢; exact this
      obtain ⟨c', h1, h2, h3, h4⟩ := ih (i + 1)
        ⟨upd c.arc i (c.arc i + F i), upd c.blk a.src (c.blk a.src + F i)⟩
        (fun j hj => by simp only [upd]; rw [if_neg (by omega)]; exact hz j (by omega)) hsrc' hb'
      refine ⟨c', h1, ?_, ?_, ?_⟩
      · intro j hj
        rw [h2 j (by omega)]; simp only [upd]; rw [if_neg (by omega)]
      · intro j a' hj hget hf
        by_cases hji : j = i
        · subst hji
          rw [h2 j (by omega)]; simp [upd, hzi]
        · have : j - i = (j - (i + 1)) + 1 := by omega
          rw [this, List.getElem?_cons_succ] at hget
          exact h3 j a' (by omega) hget hf
      · intro b
        rw [h4 b]
        simp only [upd, outIdx, htf, Bool.not_false, Bool.true_and]
        by_cases hbb : b = a.src
        · subst hbb; simp; omega
        · have h' : ¬ (a.src == b) = true := by simpa using fun h => hbb h.symm
          simp [hbb, h']


theorem outIdx_append (P : Arc → Bool) (b : Nat) : ∀ (l1 l2 : List Arc) (i : Nat),
    outIdx P b (l1 ++ l2) i = outIdx P b l1 i ++ outIdx P b l2 (i + l1.length) := by
  intro l1
  induction l1 with
  | nil => intro l2 i; simp [outIdx]
  | cons a l1 ih =>
    intro l2 i
    simp only [List.cons_append, outIdx, ih, List.length_cons]
    have : i + 1 + l1.length = i + (l1.length + 1) := by omega
    rw [this]
    split <;> simp

/-- **the whole path of one function**: reading the counters of a conserved flow `F` (one value
per arc that is not on the tree, in arc order) into fresh counters and running `count_on_tree`
succeeds, leaves `F` on every arc of the function – the virtual exit→entry arc included – and
makes every block counter the block's inflow (= outflow). -/
theorem flow_recovered {version : Nat} {f : Func} {depth parc root F : Nat → Nat}
    (hn : f.blocks.length ≥ 2)
    (hT : SpanForest (addVirtualArc version f) depth parc root)
    (hF : Flow (addVirtualArc version f) F) :
    ∃ c c', accArcs f.blocks.length 0 f.arcs Cnt.zero (flowVals F f.arcs 0) = ok c ∧
      countOnTree version f c = ok (addVirtualArc version f, c') ∧
      (∀ (e : Nat) (a : Arc), (addVirtualArc version f).arcs[e]? = some a → c'.arc e = F e) ∧
      (∀ (b : Nat) (blk : Block), (addVirtualArc version f).blocks[b]? = some blk →
        c'.blk b = (blk.source.map F).sum ∧ c'.blk b = (blk.destination.map F).sum) := by
  have harcs := addVirtualArc_arcs (version := version) hn
  have hlen := addVirtualArc_blocks_length version f
  have hvt : (⟨sinkNo version f.blocks.length, 0, 1⟩ : Arc).onTree = true := by simp [Arc.onTree]
  -- the arcs that are not on the tree are those of `f`
  have hsame : ∀ b, outIdx (fun a => !a.onTree) b (addVirtualArc version f).arcs 0
      = outIdx (fun a => !a.onTree) b f.arcs 0 := by
    intro b
    rw [harcs, outIdx_append]
    simp [outIdx, hvt]
  have hsrc : ∀ a ∈ f.arcs, a.src < f.blocks.length := by
    intro a ha
    obtain ⟨i, hi, hget⟩ := List.getElem_of_mem ha
    have : (addVirtualArc version f).arcs[i]? = some a := by
      rw [harcs, List.getElem?_append_left hi, List.getElem?_eq_getElem hi, hget]
    have := (hT.arcs_lt _ _ this).1
    omega
  have hbound : ∀ b, Cnt.zero.blk b + ((outIdx (fun a => !a.onTree) b f.arcs 0).map F).sum
      ≤ U64MAX := by
    intro b
    have hsplit := outIdx_split (fun a => a.onTree) F b (addVirtualArc version f).arcs 0
    rw [hsame] at hsplit
    simp only [Cnt.zero, Nat.zero_add]
    by_cases hb : b < (addVirtualArc version f).blocks.length
    · obtain ⟨blk, hblk⟩ : ∃ blk, (addVirtualArc version f).blocks[b]? = some blk :=
        ⟨(addVirtualArc version f).blocks[b], by simp [hb]⟩
      have h1 := total_out (F := F) hT hblk
      have h2 := hF.conserve b blk hblk
      have h3 := hF.bounded b blk hblk
      omega
    · have := total_out_none hT (b := b) (by omega)
      rw [this] at hsplit; simp at hsplit; omega
  obtain ⟨c, hacc, _, hc3, hc4⟩ := accArcs_flow f.blocks.length F f.arcs 0 Cnt.zero
    (fun _ _ => rfl) hsrc hbound
  have hc1 : ∀ (e : Nat) (a : Arc), (addVirtualArc version f).arcs[e]? = some a →
      a.onTree = false → c.arc e = F e := by
    intro e a ha hf
    rw [harcs] at ha
    by_cases he : e < f.arcs.length
    · rw [List.getElem?_append_left he] at ha
      exact hc3 e a (Nat.zero_le _) (by simpa using ha) hf
    · have : e = f.arcs.length ∨ f.arcs.length < e := by omega
      rcases this with h | h
      · subst h; simp at ha; subst ha; rw [hvt] at hf; cases hf
      · rw [List.getElem?_append_right (by omega)] at ha
        have : e - f.arcs.length ≠ 0 := by omega
        cases hk : e - f.arcs.length with
        | zero => omega
        | succ k => rw [hk] at ha; simp at ha
  have hc2 : ∀ b, c.blk b
      = ((outIdx (fun a => !a.onTree) b (addVirtualArc version f).arcs 0).map F).sum := by
    intro b; rw [hc4 b, hsame]; simp [Cnt.zero]
  obtain ⟨c', h1, h2, h3⟩ := countOnTree_flow hn hT hF c hc1 hc2
  exact ⟨c, c', hacc, h1, h2, h3⟩

end Grcov.Gcno
