/-
Literal markers as patterns: the command-line value `encAll (escapeText cs)` compiles to the chain of
the literals of `cs`, and the line predicate of that pattern is "the line contains `cs`".
-/
import GrcovModel.Lemmas.FileFilterRegexRun
import GrcovModel.Lemmas.RegexLit
import GrcovModel.Lemmas.RegexUtf8
import Mathlib.Tactic.SplitIfs
namespace Grcov.FileFilter
open Grcov Grcov.Regex

theorem escapeText_eq (cs : Chars) : escapeText cs = escape cs := rfl

theorem scalar_anchoredText (pre post : Bool) (cs : Chars) (hs : ∀ c ∈ cs, isScalar c = true) :
    ∀ c ∈ anchoredText pre post cs, isScalar c = true := by
  intro c hc
  simp only [anchoredText, List.mem_append, escape, List.mem_flatMap] at hc
  rcases hc with (hc | ⟨d, hd, hc⟩) | hc
  · cases pre <;> simp at hc; subst hc; decide
  · by_cases hm : isMeta d = true
    · simp only [hm, if_true, List.mem_cons, List.not_mem_nil, or_false] at hc
      rcases hc with rfl | rfl
      · decide
      · exact hs _ hd
    · simp only [hm, Bool.false_eq_true, if_false, List.mem_cons, List.not_mem_nil, or_false] at hc
      subst hc; exact hs _ hd
  · cases post <;> simp at hc; subst hc; decide

/-- the UTF-8 bytes of a literal pattern compile to its chain of literals -/
theorem compile_anchored (pre post : Bool) (cs : Chars) (hs : ∀ c ∈ cs, isScalar c = true)
    (hl : cs.length ≤ 19000) :
    compile (encAll (anchoredText pre post cs)) = .ok (anchoredAst pre post cs) := by
  unfold compile
  rw [decode_encAll _ (scalar_anchoredText pre post cs hs)]
  simp only [parse_anchored pre post cs hl]

theorem anchoredText_ff (cs : Chars) : anchoredText false false cs = escapeText cs := by
  simp [anchoredText, escapeText, escape]

theorem compileOpt_litArg (t : Option Chars) (h : OkText t) :
    compileOpt (litArg t) = .ok (t.map (anchoredAst false false)) := by
  cases t with
  | none => rfl
  | some cs =>
    obtain ⟨hs, hl⟩ := h cs rfl
    simp only [litArg, Option.map_some, compileOpt]
    rw [← anchoredText_ff, compile_anchored false false cs hs hl]

theorem compileArgs_litArgs (l s p bl bs bp : Option Chars) (hl : OkText l) (hs : OkText s)
    (hp : OkText p) (hbl : OkText bl) (hbs : OkText bs) (hbp : OkText bp) :
    compileArgs (litArgs l s p bl bs bp) =
      .ok ⟨l.map (anchoredAst false false), s.map (anchoredAst false false),
           p.map (anchoredAst false false), bl.map (anchoredAst false false),
           bs.map (anchoredAst false false), bp.map (anchoredAst false false)⟩ := by
  simp only [compileArgs, litArgs, compileOpt_litArg _ hl, compileOpt_litArg _ hs,
    compileOpt_litArg _ hp, compileOpt_litArg _ hbl, compileOpt_litArg _ hbs, compileOpt_litArg _ hbp]

theorem LineMatches_literal (t : Option Chars) (src : List Nat) (n : Nat) :
    LineMatches (t.map (anchoredAst false false)) src n ↔ OptContains t src n := by
  unfold LineMatches OptContains LineContains
  constructor
  · rintro ⟨pat, l, cs, ha, hl, hd, hM⟩
    cases t with
    | none => cases ha
    | some tx =>
      simp only [Option.map_some, Option.some.injEq] at ha
      subst ha
      exact ⟨tx, rfl, l, cs, hl, hd, (matches_literal tx cs).1 hM⟩
  · rintro ⟨tx, rfl, l, cs, hl, hd, hi⟩
    exact ⟨_, l, cs, rfl, hl, hd, (matches_literal tx cs).2 hi⟩

theorem LineMatches_whole (t : Chars) (src : List Nat) (n : Nat) :
    LineMatches (some (anchoredAst true true t)) src n ↔ LineIs t src n := by
  unfold LineMatches LineIs
  constructor
  · rintro ⟨pat, l, cs, ha, hl, hd, hM⟩
    cases ha
    have := (matches_whole t cs).1 hM
    subst this
    exact ⟨l, hl, hd⟩
  · rintro ⟨l, hl, hd⟩
    exact ⟨_, l, t, rfl, hl, hd, (matches_whole t t).2 rfl⟩

theorem not_LineMatches_none (src : List Nat) (n : Nat) : ¬ LineMatches none src n := by
  rintro ⟨_, _, _, h, _⟩; cases h

theorem not_inRegion_of_no_start {start stop : Nat → Prop} (h : ∀ k, ¬ start k) (n : Nat) :
    ¬ inRegion start stop n := by
  rintro ⟨s, _, hs, _⟩; exact h s hs

/-! ### which command lines clap refuses -/

theorem compileOpt_error {x : Option (List Nat)} {e : ArgErr} (h : compileOpt x = .error e) :
    ∃ v, x = some v ∧ ∀ t, compile v ≠ .ok t := by
  cases x with
  | none => cases h
  | some v =>
    refine ⟨v, rfl, fun t ht => ?_⟩
    simp [compileOpt, ht] at h

theorem compileOpt_bad {v : List Nat} (hb : ∀ t, compile v ≠ .ok t) : ∃ e, compileOpt (some v) = .error e := by
  simp only [compileOpt]
  cases hc : compile v with
  | ok t => exact absurd hc (hb t)
  | err e => exact ⟨_, rfl⟩
  | notUtf8 => exact ⟨_, rfl⟩

theorem cliExit_iff (a : MainGlue.FileFilterArgs) :
    cliExit a = some 2 ↔
      ∃ v, (a.exclLine = some v ∨ a.exclStart = some v ∨ a.exclStop = some v ∨ a.exclBrLine = some v ∨
            a.exclBrStart = some v ∨ a.exclBrStop = some v) ∧ ∀ t, compile v ≠ .ok t := by
  unfold cliExit compileArgs
  constructor
  · intro h
    cases h1 : compileOpt a.exclLine with
    | error e => obtain ⟨v, hv, hb⟩ := compileOpt_error h1; exact ⟨v, Or.inl hv, hb⟩
    | ok _ =>
    cases h2 : compileOpt a.exclStart with
    | error e => obtain ⟨v, hv, hb⟩ := compileOpt_error h2; exact ⟨v, Or.inr (Or.inl hv), hb⟩
    | ok _ =>
    cases h3 : compileOpt a.exclStop with
    | error e => obtain ⟨v, hv, hb⟩ := compileOpt_error h3; exact ⟨v, Or.inr (Or.inr (Or.inl hv)), hb⟩
    | ok _ =>
    cases h4 : compileOpt a.exclBrLine with
    | error e =>
      obtain ⟨v, hv, hb⟩ := compileOpt_error h4; exact ⟨v, Or.inr (Or.inr (Or.inr (Or.inl hv))), hb⟩
    | ok _ =>
    cases h5 : compileOpt a.exclBrStart with
    | error e =>
      obtain ⟨v, hv, hb⟩ := compileOpt_error h5
      exact ⟨v, Or.inr (Or.inr (Or.inr (Or.inr (Or.inl hv)))), hb⟩
    | ok _ =>
    cases h6 : compileOpt a.exclBrStop with
    | error e =>
      obtain ⟨v, hv, hb⟩ := compileOpt_error h6
      exact ⟨v, Or.inr (Or.inr (Or.inr (Or.inr (Or.inr hv)))), hb⟩
    | ok _ => simp [h1, h2, h3, h4, h5, h6] at h
  · rintro ⟨v, hv, hb⟩
    obtain ⟨e, he⟩ := compileOpt_bad hb
    cases h1 : compileOpt a.exclLine with
    | error _ => rfl
    | ok _ =>
    cases h2 : compileOpt a.exclStart with
    | error _ => rfl
    | ok _ =>
    cases h3 : compileOpt a.exclStop with
    | error _ => rfl
    | ok _ =>
    cases h4 : compileOpt a.exclBrLine with
    | error _ => rfl
    | ok _ =>
    cases h5 : compileOpt a.exclBrStart with
    | error _ => rfl
    | ok _ =>
    cases h6 : compileOpt a.exclBrStop with
    | error _ => rfl
    | ok _ =>
      rcases hv with hv | hv | hv | hv | hv | hv
      · rw [hv, he] at h1; cases h1
      · rw [hv, he] at h2; cases h2
      · rw [hv, he] at h3; cases h3
      · rw [hv, he] at h4; cases h4
      · rw [hv, he] at h5; cases h5
      · rw [hv, he] at h6; cases h6

/-! ### the first line of a text -/

theorem splitLF_noLF : ∀ (body : List Nat), (∀ b ∈ body, b ≠ 10) → splitLF body = [body]
  | [], _ => rfl
  | b :: bs, h => by
    have hb : b ≠ 10 := h b (by simp)
    simp only [splitLF, hb, if_false, splitLF_noLF bs (fun x hx => h x (by simp [hx])), consHead]

theorem splitLF_append_lf : ∀ (body : List Nat), (∀ b ∈ body, b ≠ 10) → ∀ r,
    splitLF (body ++ 10 :: r) = body :: splitLF r
  | [], _, r => by simp [splitLF]
  | b :: bs, h, r => by
    have hb : b ≠ 10 := h b (by simp)
    simp only [List.cons_append, splitLF, hb, if_false,
      splitLF_append_lf bs (fun x hx => h x (by simp [hx])) r, consHead]

theorem stripCR_snoc_cr (l : List Nat) : stripCR (l ++ [13]) = l := by
  simp [stripCR]

theorem srcLine_one (src : List Nat) : srcLine src 1 = ((splitSrc src)[0]?).map stripCR := by
  simp [srcLine]

theorem srcLine_first_lf (body : List Nat) (hb : ∀ b ∈ body, b ≠ 10) (rest : List Nat) :
    srcLine (body ++ 10 :: rest) 1 = some (stripCR body) := by
  rw [srcLine_one]
  unfold splitSrc
  by_cases hr : rest = []
  · subst hr
    rw [stripFinalLF_snoc_lf, splitLF_noLF body hb]
    rfl
  · have : stripFinalLF (body ++ 10 :: rest) = body ++ 10 :: (stripFinalLF rest) := by
      unfold stripFinalLF
      have hl : (body ++ 10 :: rest).getLast? = rest.getLast? := by
        rw [List.getLast?_append, List.getLast?_cons]
        cases hg : rest.getLast? with
        | none => exact absurd (List.getLast?_eq_none_iff.1 hg) hr
        | some x => simp
      rw [hl]
      by_cases h10 : rest.getLast? = some 10
      · simp only [h10, if_true]
        rw [List.dropLast_append_of_ne_nil (by simp), List.dropLast_cons_of_ne_nil hr]
      · simp only [h10, if_false]
    rw [this, splitLF_append_lf body hb]
    rfl

theorem srcLine_first (body : List Nat) (hb : ∀ b ∈ body, b ≠ 10) (rest : List Nat) :
    srcLine (body ++ 10 :: rest) 1 = some (stripCR body) ∧
    srcLine (body ++ 13 :: 10 :: rest) 1 = some body ∧
    srcLine body 1 = some (stripCR body) ∧ srcLine (body ++ [10]) 1 = some (stripCR body) := by
  refine ⟨srcLine_first_lf body hb rest, ?_, ?_, srcLine_first_lf body hb []⟩
  · have h13 : ∀ b ∈ body ++ [13], b ≠ 10 := by
      intro b hbm
      rcases List.mem_append.1 hbm with h | h
      · exact hb b h
      · simp at h; omega
    have := srcLine_first_lf (body ++ [13]) h13 rest
    rw [stripCR_snoc_cr] at this
    simpa using this
  · rw [srcLine_one]
    unfold splitSrc
    have hl : body.getLast? ≠ some 10 := by
      intro h
      exact hb 10 (List.mem_of_getLast? h) rfl
    rw [stripFinalLF_of_not_lf body hl, splitLF_noLF body hb]
    rfl

/-! ### every line of a UTF-8 file is UTF-8 -/

theorem splitLF_decodes : ∀ (n : Nat) (s : List Nat), s.length ≤ n → (decode s).isSome = true →
    ∀ p ∈ splitLF s, (decode p).isSome = true
  | n, s, hn, hs => by
    by_cases hno : ∀ b ∈ s, b ≠ 10
    · rw [splitLF_noLF s hno]
      intro p hp
      simp only [List.mem_singleton] at hp
      subst hp; exact hs
    · -- the first line feed
      have hex : ∃ body rest, s = body ++ 10 :: rest ∧ ∀ b ∈ body, b ≠ 10 := by
        clear hs hn
        induction s with
        | nil => exact absurd (fun b hb => by cases hb) hno
        | cons c t ih =>
          by_cases hc : c = 10
          · exact ⟨[], t, by simp [hc], fun b hb => by cases hb⟩
          · have : ¬ ∀ b ∈ t, b ≠ 10 := by
              intro ht; apply hno; intro b hb
              rcases List.mem_cons.1 hb with rfl | hb
              · exact hc
              · exact ht b hb
            obtain ⟨body, rest, rfl, hb⟩ := ih this
            refine ⟨c :: body, rest, rfl, fun b hbm => ?_⟩
            rcases List.mem_cons.1 hbm with rfl | hbm
            · exact hc
            · exact hb b hbm
      obtain ⟨body, rest, rfl, hb⟩ := hex
      obtain ⟨h1, h2⟩ := decode_isSome_split body 10 (by decide) rest hs
      rw [splitLF_append_lf body hb]
      intro p hp
      rcases List.mem_cons.1 hp with rfl | hp
      · exact h1
      · match n, hn with
        | 0, hn => simp at hn
        | n + 1, hn =>
          exact splitLF_decodes n rest (by simp at hn; omega) h2 p hp

/-- `read_to_string` succeeded: every line `create` looks at is UTF-8 too -/
theorem srcLine_decodes (src : List Nat) (hs : (decode src).isSome = true) (n : Nat) (l : List Nat)
    (hl : srcLine src n = some l) : (decode l).isSome = true := by
  unfold srcLine at hl
  split_ifs at hl
  obtain ⟨p, hp, rfl⟩ := Option.map_eq_some_iff.1 hl
  have hmem : p ∈ splitSrc src := List.mem_of_getElem? hp
  unfold splitSrc at hmem
  have hstrip : (decode (stripFinalLF src)).isSome = true := by
    unfold stripFinalLF
    split_ifs with h10
    · have e := eq_snoc_of_getLast? h10
      rw [e] at hs
      exact (decode_isSome_split src.dropLast 10 (by decide) [] hs).1
    · exact hs
  have hpd := splitLF_decodes _ _ (Nat.le_refl _) hstrip p hmem
  unfold stripCR
  split_ifs with h13
  · have e := eq_snoc_of_getLast? h13
    rw [e] at hpd
    exact (decode_isSome_split p.dropLast 13 (by decide) [] hpd).1
  · exact hpd

/-! ### ASCII literal markers: the regex model is the substring model -/

theorem hasSub_iff_infix (p : List Nat) : ∀ l : List Nat, hasSub p l = true ↔ p <:+: l
  | [] => by simp [hasSub, List.isEmpty_iff]
  | x :: xs => by
    simp only [hasSub, Bool.or_eq_true, List.isPrefixOf_iff_prefix, hasSub_iff_infix p xs, List.infix_cons_iff]

/-- on a line that is UTF-8, the pattern of an ASCII literal text answers what the byte-wise substring
search answers -/
theorem lineMatch_literal_ascii (t : Chars) (ht : ∀ b ∈ t, b < 128) (l : List Nat)
    (hl : (decode l).isSome = true) :
    lineMatch (some (anchoredAst false false t)) l = hasSub t l := by
  obtain ⟨cs, hcs⟩ := Option.isSome_iff_exists.1 hl
  have hinv := decode_eq_some_iff l cs hcs
  have key : isMatch (anchoredAst false false t) cs = true ↔ hasSub t l = true := by
    rw [isMatch_iff, matches_literal, hasSub_iff_infix, ← hinv, infix_enc_ascii t ht cs]
  simp only [lineMatch, hcs]
  cases h1 : isMatch (anchoredAst false false t) cs <;> cases h2 : hasSub t l <;> simp_all

theorem mem_splitSrc_decodes (src : List Nat) (hs : (decode src).isSome = true) (p : List Nat)
    (hp : p ∈ splitSrc src) : (decode (stripCR p)).isSome = true := by
  obtain ⟨i, hi⟩ := List.getElem?_of_mem hp
  exact srcLine_decodes src hs (i + 1) (stripCR p) (by simp [srcLine, hi])

/-- what the literal-marker configuration compiles to -/
def litCompiled (l s p bl bs bp : Option Chars) : Compiled6 :=
  ⟨l.map (anchoredAst false false), s.map (anchoredAst false false), p.map (anchoredAst false false),
   bl.map (anchoredAst false false), bs.map (anchoredAst false false), bp.map (anchoredAst false false)⟩

theorem hit_literal_ascii (t : Option Chars) (ht : ∀ cs, t = some cs → ∀ b ∈ cs, b < 128) (l : List Nat)
    (hl : (decode l).isSome = true) :
    ((t.map (anchoredAst false false)).isSome && lineMatch (t.map (anchoredAst false false)) l)
      = (t.isSome && hasSub (t.getD []) l) := by
  cases t with
  | none => rfl
  | some cs => simp [lineMatch_literal_ascii cs (ht cs rfl) l hl]

/-- **ASCII literal markers: the filter list of the compiled patterns is the filter list of the
byte-wise substring search** (`Rx.ofLiterals`), on every file that is UTF-8 -/
theorem createSrc_literals_ascii (l s p bl bs bp : Option Chars)
    (hl : ∀ cs, l = some cs → ∀ b ∈ cs, b < 128) (hs : ∀ cs, s = some cs → ∀ b ∈ cs, b < 128)
    (hp : ∀ cs, p = some cs → ∀ b ∈ cs, b < 128) (hbl : ∀ cs, bl = some cs → ∀ b ∈ cs, b < 128)
    (hbs : ∀ cs, bs = some cs → ∀ b ∈ cs, b < 128) (hbp : ∀ cs, bp = some cs → ∀ b ∈ cs, b < 128)
    (file : List Nat) (hutf : (decode file).isSome = true) :
    createSrc (litCompiled l s p bl bs bp).toOpts (litCompiled l s p bl bs bp).rx (some file)
      = createSrc ⟨l.isSome, s.isSome, p.isSome, bl.isSome, bs.isSome, bp.isSome⟩
          (Rx.ofLiterals (l.getD []) (s.getD []) (p.getD []) (bl.getD []) (bs.getD []) (bp.getD [])) (some file) := by
  have ho : (litCompiled l s p bl bs bp).toOpts = ⟨l.isSome, s.isSome, p.isSome, bl.isSome, bs.isSome, bp.isSome⟩ := by
    simp [litCompiled, Compiled6.toOpts]
  rw [ho]
  apply createSrc_congr_on
  intro q hq
  have hd := mem_splitSrc_decodes file hutf q hq
  have e1 := hit_literal_ascii l hl _ hd
  have e2 := hit_literal_ascii s hs _ hd
  have e3 := hit_literal_ascii p hp _ hd
  have e4 := hit_literal_ascii bl hbl _ hd
  have e5 := hit_literal_ascii bs hbs _ hd
  have e6 := hit_literal_ascii bp hbp _ hd
  simp only [Option.isSome_map] at e1 e2 e3 e4 e5 e6
  simp only [maskBits, Rx.bits, Compiled6.rx, litCompiled, Rx.ofLiterals, e1, e2, e3, e4, e5, e6]

theorem litArg_plain (t : Option (List Nat)) (h : PlainAscii t) : litArg t = t := by
  cases t with
  | none => rfl
  | some cs =>
    obtain ⟨hb, _⟩ := h cs rfl
    simp only [litArg, Option.map_some, Option.some.injEq]
    rw [escapeText_eq, escape_plain cs (fun c hc => (hb c hc).2), encAll_ascii cs (fun c hc => (hb c hc).1)]

theorem okText_of_plain (t : Option (List Nat)) (h : PlainAscii t) : OkText t ∧ AsciiText t := by
  refine ⟨fun cs hcs => ?_, fun cs hcs b hb => ((h cs hcs).1 b hb).1⟩
  obtain ⟨hb, hl⟩ := h cs hcs
  exact ⟨fun c hc => isScalar_of_lt (hb c hc).1, hl⟩

/-- in a whole run, plain ASCII markers: `isMatchText` (the regex model) and `hasSub` (the substring
model of the byte-for-byte run ties) give the same filter list on every UTF-8 text -/
theorem filterList_plain_ascii (o : Cli.RunAll.Opts) (w : Cli.RunAll.World) (abs src : List Nat)
    (h : w.text abs = some src) (hutf : (decode src).isSome = true)
    (h1 : PlainAscii o.excl.exclLine) (h2 : PlainAscii o.excl.exclStart) (h3 : PlainAscii o.excl.exclStop)
    (h4 : PlainAscii o.excl.exclBrLine) (h5 : PlainAscii o.excl.exclBrStart) (h6 : PlainAscii o.excl.exclBrStop) :
    Cli.RunAll.filterList { o with isMatch := isMatchText } w abs
      = Cli.RunAll.filterList { o with isMatch := hasSub } w abs := by
  have he : o.excl = litArgs o.excl.exclLine o.excl.exclStart o.excl.exclStop o.excl.exclBrLine
      o.excl.exclBrStart o.excl.exclBrStop := by
    simp only [litArgs, litArg_plain _ h1, litArg_plain _ h2, litArg_plain _ h3, litArg_plain _ h4,
      litArg_plain _ h5, litArg_plain _ h6]
  have hc := compileArgs_litArgs o.excl.exclLine o.excl.exclStart o.excl.exclStop o.excl.exclBrLine
    o.excl.exclBrStart o.excl.exclBrStop (okText_of_plain _ h1).1 (okText_of_plain _ h2).1
    (okText_of_plain _ h3).1 (okText_of_plain _ h4).1 (okText_of_plain _ h5).1 (okText_of_plain _ h6).1
  rw [← he] at hc
  rw [filterList_compiled { o with isMatch := isMatchText } w abs _ rfl hc, h]
  have := createSrc_literals_ascii o.excl.exclLine o.excl.exclStart o.excl.exclStop o.excl.exclBrLine
    o.excl.exclBrStart o.excl.exclBrStop (okText_of_plain _ h1).2 (okText_of_plain _ h2).2
    (okText_of_plain _ h3).2 (okText_of_plain _ h4).2 (okText_of_plain _ h5).2 (okText_of_plain _ h6).2 src hutf
  simp only [litCompiled] at this
  rw [this]
  simp only [Cli.RunAll.filterList, h]
  rfl

end Grcov.FileFilter

