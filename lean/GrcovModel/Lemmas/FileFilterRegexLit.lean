/-
Literal markers as patterns: the command-line value `encAll (escapeText cs)` compiles to the chain of
the literals of `cs`, and the line predicate of that pattern is "the line contains `cs`".
-/
import GrcovModel.Lemmas.FileFilterRegexRun
import GrcovModel.Lemmas.RegexLit
import GrcovModel.Lemmas.RegexUtf8
namespace Grcov.FileFilter
open Grcov Grcov.Regex

theorem escapeText_eq (cs : Chars) : escapeText cs = escape cs := rfl

theorem scalar_anchoredText (pre post : Bool) (cs : Chars) (hs : ∀ c ∈ cs, isScalar c = true) :
    ∀ c ∈ anchoredText pre post cs, isScalar c = true := by
  intro c hc
  simp only [anchoredText, List.mem_append, escape, List.mem_flatMap] at hc
  rcases hc with (hc | ⟨d, hd, hc⟩) | hc
  · cases pre <;> simp at hc; subst hc; decide
  · by_cases hm : isMeta d = true
    · simp only [hm, if_true, List.mem_cons, List.not_mem_nil, or_false] at hc
      rcases hc with rfl | rfl
      · decide
      · exact hs _ hd
    · simp only [hm, Bool.false_eq_true, if_false, List.mem_cons, List.not_mem_nil, or_false] at hc
      subst hc; exact hs _ hd
  · cases post <;> simp at hc; subst hc; decide

/-- the UTF-8 bytes of a literal pattern compile to its chain of literals -/
theorem compile_anchored (pre post : Bool) (cs : Chars) (hs : ∀ c ∈ cs, isScalar c = true)
    (hl : cs.length ≤ 19000) :
    compile (encAll (anchoredText pre post cs)) = .ok (anchoredAst pre post cs) := by
  unfold compile
  rw [decode_encAll _ (scalar_anchoredText pre post cs hs)]
  simp only [parse_anchored pre post cs hl]

theorem anchoredText_ff (cs : Chars) : anchoredText false false cs = escapeText cs := by
  simp [anchoredText, escapeText, escape]

theorem compileOpt_litArg (t : Option Chars) (h : OkText t) :
    compileOpt (litArg t) = .ok (t.map (anchoredAst false false)) := by
  cases t with
  | none => rfl
  | some cs =>
    obtain ⟨hs, hl⟩ := h cs rfl
    simp only [litArg, Option.map_some, compileOpt]
    rw [← anchoredText_ff, compile_anchored false false cs hs hl]

theorem compileArgs_litArgs (l s p bl bs bp : Option Chars) (hl : OkText l) (hs : OkText s)
    (hp : OkText p) (hbl : OkText bl) (hbs : OkText bs) (hbp : OkText bp) :
    compileArgs (litArgs l s p bl bs bp) =
      .ok ⟨l.map (anchoredAst false false), s.map (anchoredAst false false),
           p.map (anchoredAst false false), bl.map (anchoredAst false false),
           bs.map (anchoredAst false false), bp.map (anchoredAst false false)⟩ := by
  simp only [compileArgs, litArgs, compileOpt_litArg _ hl, compileOpt_litArg _ hs,
    compileOpt_litArg _ hp, compileOpt_litArg _ hbl, compileOpt_litArg _ hbs, compileOpt_litArg _ hbp]

theorem LineMatches_literal (t : Option Chars) (src : List Nat) (n : Nat) :
    LineMatches (t.map (anchoredAst false false)) src n ↔ OptContains t src n := by
  unfold LineMatches OptContains LineContains
  constructor
  · rintro ⟨pat, l, cs, ha, hl, hd, hM⟩
    cases t with
    | none => cases ha
    | some tx =>
      simp only [Option.map_some, Option.some.injEq] at ha
      subst ha
      exact ⟨tx, rfl, l, cs, hl, hd, (matches_literal tx cs).1 hM⟩
  · rintro ⟨tx, rfl, l, cs, hl, hd, hi⟩
    exact ⟨_, l, cs, rfl, hl, hd, (matches_literal tx cs).2 hi⟩

theorem LineMatches_whole (t : Chars) (src : List Nat) (n : Nat) :
    LineMatches (some (anchoredAst true true t)) src n ↔ LineIs t src n := by
  unfold LineMatches LineIs
  constructor
  · rintro ⟨pat, l, cs, ha, hl, hd, hM⟩
    cases ha
    have := (matches_whole t cs).1 hM
    subst this
    exact ⟨l, hl, hd⟩
  · rintro ⟨l, hl, hd⟩
    exact ⟨_, l, t, rfl, hl, hd, (matches_whole t t).2 rfl⟩

theorem not_LineMatches_none (src : List Nat) (n : Nat) : ¬ LineMatches none src n := by
  rintro ⟨_, _, _, h, _⟩; cases h

theorem not_inRegion_of_no_start {start stop : Nat → Prop} (h : ∀ k, ¬ start k) (n : Nat) :
    ¬ inRegion start stop n := by
  rintro ⟨s, _, hs, _⟩; exact h s hs

end Grcov.FileFilter
