/-
Lemmas for the CLI-level composition (GrcovModel/Cli.lean): sorting by key, what a second run
reads from a written report, `add_results` on records with distinct keys, the covered-filter under
the reader's normalisation, and the rewrite of a canonicalised key below the source dir.
-/
import GrcovModel.Cli
import GrcovModel.Lemmas.LcovIterate
import GrcovModel.Lemmas.RewriteIdem
import GrcovModel.Lemmas.MainGlue
import GrcovModel.Lemmas.RewritePartial
namespace Grcov.Cli
open Grcov AList Grcov.Lcov Grcov.Rewrite Grcov.UPath

/-! ### sorting by key -/

def SortedKeys {α : Type} (m : List (Nat × α)) : Prop := m.Pairwise fun a b => a.1 ≤ b.1

theorem insertByKey_perm {α : Type} (kv : Nat × α) (m : List (Nat × α)) :
    (insertByKey kv m).Perm (kv :: m) := by
  induction m with
  | nil => exact List.Perm.refl _
  | cons x xs ih =>
    unfold insertByKey
    split
    · exact List.Perm.refl _
    · exact (List.Perm.cons x ih).trans (List.Perm.swap kv x xs)

theorem sortByKey_perm {α : Type} (m : List (Nat × α)) : (sortByKey m).Perm m := by
  induction m with
  | nil => exact List.Perm.refl _
  | cons x xs ih => exact (insertByKey_perm x _).trans (List.Perm.cons x ih)

theorem insertByKey_sorted {α : Type} (kv : Nat × α) (m : List (Nat × α)) (h : SortedKeys m) :
    SortedKeys (insertByKey kv m) := by
  induction m with
  | nil => simp [insertByKey, SortedKeys]
  | cons x xs ih =>
    unfold SortedKeys at h
    rw [List.pairwise_cons] at h
    unfold insertByKey
    split
    · rename_i hle
      unfold SortedKeys
      rw [List.pairwise_cons]
      refine ⟨?_, List.pairwise_cons.2 h⟩
      intro y hy
      simp only [List.mem_cons] at hy
      rcases hy with hy | hy
      · subst hy; exact hle
      · exact Nat.le_trans hle (h.1 y hy)
    · rename_i hgt
      unfold SortedKeys
      rw [List.pairwise_cons]
      refine ⟨?_, ih h.2⟩
      intro y hy
      have := (insertByKey_perm kv xs).mem_iff.1 hy
      simp only [List.mem_cons] at this
      rcases this with e | hm
      · subst e; omega
      · exact h.1 y hm

theorem sortByKey_sorted {α : Type} (m : List (Nat × α)) : SortedKeys (sortByKey m) := by
  induction m with
  | nil => simp [sortByKey, SortedKeys]
  | cons x xs ih => exact insertByKey_sorted x _ ih

theorem sortByKey_of_sorted {α : Type} (m : List (Nat × α)) (h : SortedKeys m) : sortByKey m = m := by
  induction m with
  | nil => rfl
  | cons x xs ih =>
    unfold SortedKeys at h
    rw [List.pairwise_cons] at h
    simp only [sortByKey]
    rw [ih h.2]
    cases xs with
    | nil => rfl
    | cons y ys => simp [insertByKey, h.1 y (by simp)]

theorem sortByKey_idem {α : Type} (m : List (Nat × α)) : sortByKey (sortByKey m) = sortByKey m :=
  sortByKey_of_sorted _ (sortByKey_sorted m)

/-! ### sorting the function table by name (`sorted_functions`) -/

open Grcov.MainGlue in
def SortedNames (m : List (Name × Fn)) : Prop := m.Pairwise fun a b => bytesLe a.1 b.1 = true

theorem insertByName_perm (nf : Name × Fn) (m : List (Name × Fn)) :
    (insertByName nf m).Perm (nf :: m) := by
  induction m with
  | nil => exact List.Perm.refl _
  | cons x xs ih =>
    unfold insertByName
    split
    · exact List.Perm.refl _
    · exact (List.Perm.cons x ih).trans (List.Perm.swap nf x xs)

theorem sortFns_perm (m : List (Name × Fn)) : (sortFns m).Perm m := by
  induction m with
  | nil => exact List.Perm.refl _
  | cons x xs ih => exact (insertByName_perm x _).trans (List.Perm.cons x ih)

open Grcov.MainGlue in
theorem insertByName_sorted (nf : Name × Fn) (m : List (Name × Fn)) (h : SortedNames m) :
    SortedNames (insertByName nf m) := by
  induction m with
  | nil => simp [insertByName, SortedNames]
  | cons x xs ih =>
    have hx := List.pairwise_cons.mp h
    unfold insertByName
    split
    · rename_i hle
      refine List.pairwise_cons.mpr ⟨?_, h⟩
      intro y hy
      rcases List.mem_cons.mp hy with rfl | hy
      · exact hle
      · exact bytesLe_trans _ _ _ hle (hx.1 y hy)
    · rename_i hnle
      have hxr : bytesLe x.1 nf.1 = true := by
        rcases bytesLe_total nf.1 x.1 with h1 | h1
        · exact absurd h1 hnle
        · exact h1
      refine List.pairwise_cons.mpr ⟨?_, ih hx.2⟩
      intro y hy
      have := (insertByName_perm nf xs).mem_iff.mp hy
      rcases List.mem_cons.mp this with rfl | hy
      · exact hxr
      · exact hx.1 y hy

theorem sortFns_sorted (m : List (Name × Fn)) : SortedNames (sortFns m) := by
  induction m with
  | nil => simp [sortFns, SortedNames]
  | cons x xs ih => exact insertByName_sorted x _ ih

theorem sortFns_of_sorted (m : List (Name × Fn)) (h : SortedNames m) : sortFns m = m := by
  induction m with
  | nil => rfl
  | cons x xs ih =>
    have hx := List.pairwise_cons.mp h
    simp only [sortFns]
    rw [ih hx.2]
    cases xs with
    | nil => rfl
    | cons y ys => simp [insertByName, hx.1 y (by simp)]

theorem sortFns_idem (m : List (Name × Fn)) : sortFns (sortFns m) = sortFns m :=
  sortFns_of_sorted _ (sortFns_sorted m)

theorem nodupKeys_sortFns (m : List (Name × Fn)) (h : NodupKeys m) : NodupKeys (sortFns m) := by
  unfold NodupKeys keys at *
  exact ((sortFns_perm m).map _).nodup_iff.2 h

open Grcov.MainGlue in
/-- two name-sorted tables with distinct names and the same entries are the same list -/
theorem sortedNames_perm_eq : ∀ (a b : List (Name × Fn)), SortedNames a → SortedNames b →
    NodupKeys a → a.Perm b → a = b
  | [], b, _, _, _, p => (List.Perm.nil_eq p)
  | x :: xs, [], _, _, _, p => absurd p.symm (by simp)
  | x :: xs, y :: ys, sa, sb, na, p => by
    have hsa := List.pairwise_cons.mp sa
    have hsb := List.pairwise_cons.mp sb
    have nb : NodupKeys (y :: ys) := by
      unfold NodupKeys keys at *; exact (p.map _).nodup_iff.1 na
    have hxy : x = y := by
      have hx : x ∈ y :: ys := p.subset (by simp)
      have hy : y ∈ x :: xs := p.symm.subset (by simp)
      rcases List.mem_cons.mp hx with e | hx'
      · exact e
      · rcases List.mem_cons.mp hy with e | hy'
        · exact e.symm
        · have h1 := hsb.1 x hx'
          have h2 := hsa.1 y hy'
          have hk : x.1 = y.1 := bytesLe_antisymm _ _ h2 h1
          -- y ∈ xs with the key of x: the keys of x :: xs are not distinct
          unfold NodupKeys keys at na
          simp only [List.map_cons, List.nodup_cons] at na
          exact absurd (by rw [hk]; exact List.mem_map_of_mem hy') na.1
    subst hxy
    have na' : NodupKeys xs := by
      unfold NodupKeys keys at *; simp only [List.map_cons, List.nodup_cons] at na; exact na.2
    rw [sortedNames_perm_eq xs ys hsa.2 hsb.2 na' ((List.perm_cons x).1 p)]

/-- **the listed order of the functions does not depend on the table's iteration order** -/
theorem sortFns_eq_of_perm {m₁ m₂ : List (Name × Fn)} (p : m₁.Perm m₂) (h : NodupKeys m₁) :
    sortFns m₁ = sortFns m₂ :=
  sortedNames_perm_eq _ _ (sortFns_sorted m₁) (sortFns_sorted m₂) (nodupKeys_sortFns m₁ h)
    (((sortFns_perm m₁).trans p).trans (sortFns_perm m₂).symm)

/-- what the reader rebuilds from a written record: the record in key order, minus empty vectors -/
def norm (c : Cov) : Cov := dropEmpty (sortCov c)

theorem sortCov_norm (c : Cov) : sortCov (norm c) = norm c := by
  simp only [norm, sortCov, dropEmpty, sortByKey_idem, sortFns_idem]
  congr 1
  apply sortByKey_of_sorted
  exact List.Pairwise.filter _ (sortByKey_sorted c.branches)

theorem nodupKeys_sortByKey {α : Type} (m : List (Nat × α)) (h : NodupKeys m) : NodupKeys (sortByKey m) := by
  unfold NodupKeys keys at *
  exact ((sortByKey_perm m).map _).nodup_iff.2 h

/-! ### the covered filter does not see the normalisation -/

theorem isCovered_norm (c : Cov) : isCovered (norm c) = isCovered c := by
  have : (norm c).lines.any (fun lc => lc.2 != 0) = c.lines.any (fun lc => lc.2 != 0) :=
    (sortByKey_perm c.lines).any_eq
  have hf : (norm c).functions.Perm c.functions := sortFns_perm c.functions
  simp only [isCovered, this, hf.length_eq, hf.any_eq]

theorem filterOk_norm (f : Option Bool) (c : Cov) : filterOk f (norm c) = filterOk f c := by
  unfold filterOk; rw [isCovered_norm]

theorem selectRec_norm (cfg : Cfg) (fs : FS) (abs rel : Lcov.Bytes) (c : Cov)
    (h : selectRec cfg fs abs rel c = some ⟨abs, rel, c⟩) :
    selectRec cfg fs abs rel (norm c) = some ⟨abs, rel, norm c⟩ := by
  obtain ⟨h1, h2, h3, h4, _⟩ := (selectRec_some_iff _ _ _ _ _ _).1 h
  rw [selectRec_some_iff]
  exact ⟨h1, h2, h3, by rw [filterOk_norm]; exact h4, rfl⟩

/-! ### add_results on records with distinct keys -/

theorem addResults_distinct (canon : Key → Key) (m batch : List (Key × Cov))
    (hn : ((batch.map (·.1)).map canon).Nodup) (hd : ∀ kc ∈ batch, canon kc.1 ∉ keys m) :
    addResults canon m batch = m ++ batch.map fun kc => (canon kc.1, kc.2) := by
  induction batch generalizing m with
  | nil => simp [addResults]
  | cons kc batch ih =>
    simp only [List.map_cons, List.nodup_cons] at hn
    have hk : canon kc.1 ∉ keys m := hd kc (by simp)
    have hg : get? m (canon kc.1) = none := (get?_eq_none_iff _ _).2 hk
    have step : addResults canon m (kc :: batch) = addResults canon (addOne canon m kc) batch := rfl
    have h1 : addOne canon m kc = m ++ [(canon kc.1, kc.2)] := by
      simp only [addOne, hg]; exact set_append_new m _ _ hk
    rw [step, h1, ih _ hn.2]
    · simp
    · intro x hx
      rw [keys_append]
      simp only [keys, List.map_cons, List.map_nil, List.mem_append, List.mem_singleton, not_or]
      refine ⟨hd x (List.mem_cons_of_mem _ hx), ?_⟩
      intro e
      exact hn.1 (by rw [← e]; exact List.mem_map_of_mem (List.mem_map_of_mem hx))

/-! ### what a run reads from a report written by a run -/

/-- the records a run reads from the report `printReport rep` -/
theorem parseInput_printReport (rep : List Rewrite.Rec) (h : Grcov.Props.C05.ReportOK (printable rep)) :
    parseInput true (printReport rep) = rep.map fun r => (r.rel, norm r.cov) := by
  unfold parseInput printReport
  rw [parse_printLcov (printable rep) fun pc hpc => (h pc hpc).1]
  simp only [printable, List.map_map]
  apply List.map_congr_left
  intro r hr
  have := h (r.rel, sortCov r.cov) (List.mem_map_of_mem (f := fun r => (r.rel, sortCov r.cov)) hr)
  simp only [Function.comp, this.2, norm, rtCov_eq _ this.1.wf]

/-- printing the normalised records prints the same bytes -/
theorem printReport_norm (rep : List Rewrite.Rec) (g : Rewrite.Rec → Lcov.Bytes)
    (h : Grcov.Props.C05.ReportOK (printable rep)) :
    printReport (rep.map fun r => ⟨g r, r.rel, norm r.cov⟩) = printReport rep := by
  unfold printReport
  have e : printable (rep.map fun r => ⟨g r, r.rel, norm r.cov⟩) = roundtrip (printable rep) := by
    simp only [printable, roundtrip, List.map_map]
    apply List.map_congr_left
    intro r hr
    have := h (r.rel, sortCov r.cov) (List.mem_map_of_mem (f := fun r => (r.rel, sortCov r.cov)) hr)
    have e2 := sortCov_norm r.cov
    simp only [norm] at e2
    simp only [Function.comp, this.2, norm, rtCov_eq _ this.1.wf, e2]
  rw [e]
  exact printLcov_roundtrip _ fun pc hpc => ⟨(h pc hpc).1.wf, (h pc hpc).2⟩

/-! ### a canonicalised key below the source dir -/

/-- source dir `S` clean, absolute and backslash-free, no mapping, prefix dir absent or `S` (what
`main` sets without `-p`): the canonical path of an existing file below `S`, used as a key – this
is the key `add_results` files a reported path under –, is resolved to (itself, path relative to
`S`) -/
theorem resolveKey_canonical_under_source {cfg : Cfg} {fs : FS} {sn names : List Lcov.Bytes}
    (hS : cfg.sourceDir = some (render ⟨true, sn⟩)) (hM : cfg.mapping = none)
    (hP : cfg.prefixDir = none ∨ cfg.prefixDir = some (render ⟨true, sn⟩))
    (hsn : ∀ n ∈ sn, RealName n ∧ 92 ∉ n) (hn : ∀ n ∈ names, RealName n ∧ 92 ∉ n)
    (hne : names ≠ [])
    (hres : fs.resolve (render ⟨true, sn ++ names⟩) = some (sn ++ names, .file)) :
    resolveKey cfg fs (render ⟨true, sn ++ names⟩)
      = .ok (some (render ⟨true, sn ++ names⟩, join names)) := by
  have hsn1 : ∀ n ∈ sn, RealName n := fun n hn' => (hsn n hn').1
  have hn1 : ∀ n ∈ names, RealName n := fun n hn' => (hn n hn').1
  have hall1 : ∀ n ∈ sn ++ names, RealName n := by
    intro n h; rcases List.mem_append.1 h with h | h
    · exact hsn1 n h
    · exact hn1 n h
  have hall2 : ∀ n ∈ sn ++ names, 92 ∉ n := by
    intro n h; rcases List.mem_append.1 h with h | h
    · exact (hsn n h).2
    · exact (hn n h).2
  have hb : bsl (render ⟨true, sn ++ names⟩) = render ⟨true, sn ++ names⟩ :=
    bsl_id (noBackslash_render (np := ⟨true, sn ++ names⟩) hall2)
  have hstrip := stripPrefix_render hsn1 hn1
  have hfin : finalRel (join names) = some (join names) := by
    rw [join_eq_render, finalRel_render (np := ⟨false, names⟩) hn1 fun n h => (hn n h).2]
  unfold resolveKey
  simp only [hM, Option.isSome_none, Bool.false_and, Bool.false_eq_true, if_false, hS]
  rcases hP with hP | hP
  · have hkp : keyPath cfg (render ⟨true, sn ++ names⟩) = render ⟨true, sn ++ names⟩ := by
      simp [keyPath, hP, hM, removePrefix, applyMapping, hb]
    have hreal : fs.realpath (render ⟨true, sn ++ names⟩) = some (render ⟨true, sn ++ names⟩) := by
      simp [FS.realpath, hres]
    rw [hkp]
    have : getAbsPath fs (some (render ⟨true, sn⟩)) (render ⟨true, sn ++ names⟩)
        = .ok (some (render ⟨true, sn ++ names⟩, join names)) := by
      rw [getAbsPath_some_iff]
      refine ⟨render ⟨true, sn ++ names⟩, ?_, normalizePath_render (np := ⟨true, sn ++ names⟩) hall1, ?_⟩
      · simp [absCanon, absGuess, isRelative, hasRoot_render_true, canonOrNorm, hreal]
      · simp only [fixupRelPath, hstrip]
        rw [join_eq_render, normalizePath_render (np := ⟨false, names⟩) hn1]
    rw [this]; simp [finishPath, hfin]
  · have hkp : keyPath cfg (render ⟨true, sn ++ names⟩) = join names := by
      simp [keyPath, hP, hM, removePrefix, applyMapping, hb, hstrip]
    rw [hkp, getAbsPath_under_source hsn1 hn1 hne hres]
    simp [finishPath, hfin]

/-- … and `add_results` files the reported relative path of such a file under that canonical key -/
theorem addCanon_under_source {fs : FS} {sn names : List Lcov.Bytes} (hsn : ∀ n ∈ sn, RealName n)
    (hn : ∀ n ∈ names, RealName n) (hne : names ≠ [])
    (hres : fs.resolve (render ⟨true, sn ++ names⟩) = some (sn ++ names, .file)) :
    addCanon fs (some (render ⟨true, sn⟩)) (join names) = render ⟨true, sn ++ names⟩ := by
  simp [addCanon, push_render hsn hn hne, FS.realpath, hres]

/-- a result map every key of which is retained -/
theorem rewritePaths_map_ok {α : Type} (cfg : Cfg) (fs : FS) (l : List α) (key : α → Lcov.Bytes × Cov)
    (g : α → Rewrite.Rec) (habs : ∀ s, cfg.sourceDir = some s → isAbsolute s = true)
    (h : ∀ x ∈ l, rewriteKey cfg fs (key x) = .ok (some (g x))) :
    rewritePaths cfg fs (l.map key) = .ok (l.map g) := by
  have hc : collect ((l.map key).map (rewriteKey cfg fs)) = .ok (l.map g) := by
    rw [List.map_map]
    exact collect_map_ok _ g l fun x hx => h x hx
  unfold rewritePaths
  cases hs : cfg.sourceDir with
  | none => exact hc
  | some s => simp only [habs s hs, if_true]; exact hc

/-! ### the run with the Java/Kotlin lookup (`runJ`) -/

/-- the lookup is not needed: the run is the run without it -/
theorem reportJ_eq_report (cfg : Cfg) (branch : Bool) (fs : FS) (ord : List (List Lcov.Bytes))
    (inputs : List Lcov.Bytes)
    (h : needed cfg fs ((resultMap cfg branch fs inputs).map (·.1)) = false) :
    reportJ cfg branch fs ord inputs = report cfg branch fs inputs := by
  unfold reportJ report
  exact rewritePathsJ_eq_rewritePaths cfg fs ord _ (walkPanics_of_not_needed h) fun _ _ => Or.inl h

theorem runJ_eq_run (cfg : Cfg) (branch : Bool) (fs : FS) (ord : List (List Lcov.Bytes))
    (inputs : List Lcov.Bytes)
    (h : needed cfg fs ((resultMap cfg branch fs inputs).map (·.1)) = false) :
    runJ cfg branch fs ord inputs = run cfg branch fs inputs := by
  unfold runJ run; rw [reportJ_eq_report cfg branch fs ord inputs h]

/-- without a source dir there is nothing to look up -/
theorem needed_of_no_source {cfg : Cfg} (hS : cfg.sourceDir = none) (fs : FS) (keys : List Lcov.Bytes) :
    needed cfg fs keys = false := by simp [needed, hS]

/-- no Java/Kotlin key: nothing to look up -/
theorem needed_of_no_java {cfg : Cfg} (fs : FS) {keys : List Lcov.Bytes}
    (h : ∀ k ∈ keys, isPartialExt k = false) : needed cfg fs keys = false := by
  have : hasJava keys = false := by
    unfold hasJava; rw [List.any_eq_false]; intro k hk; simp [h k hk]
  unfold needed; cases cfg.sourceDir <;> simp [this]

/-- every key exists below the source dir as spelled (after prefix removal): nothing to look up -/
theorem needed_of_all_exist {cfg : Cfg} {fs : FS} {s : Lcov.Bytes} (hS : cfg.sourceDir = some s)
    {keys : List Lcov.Bytes}
    (h : ∀ k ∈ keys, fs.exists (push s (removePrefix cfg.prefixDir k)) = true) :
    needed cfg fs keys = false := by
  have : (keys.any fun k => !fs.exists (push s (removePrefix cfg.prefixDir k))) = false := by
    rw [List.any_eq_false]; intro k hk; simp [h k hk]
  unfold needed; rw [hS]; simp [this]

/-- the canonical path of an existing file below `S`, with the prefix dir absent or `S`, exists
below `S` as `rewrite_paths` probes it -/
theorem exists_canonical_under_source {cfg : Cfg} {fs : FS} {sn names : List Lcov.Bytes}
    (hP : cfg.prefixDir = none ∨ cfg.prefixDir = some (render ⟨true, sn⟩))
    (hsn : ∀ n ∈ sn, RealName n) (hn : ∀ n ∈ names, RealName n) (hne : names ≠ [])
    (hres : fs.resolve (render ⟨true, sn ++ names⟩) = some (sn ++ names, .file)) :
    fs.exists (push (render ⟨true, sn⟩) (removePrefix cfg.prefixDir (render ⟨true, sn ++ names⟩))) = true := by
  rcases hP with hP | hP
  · have : push (render ⟨true, sn⟩) (render ⟨true, sn ++ names⟩) = render ⟨true, sn ++ names⟩ := by
      unfold push; simp [hasRoot_render_true]
    simp [hP, removePrefix, this, FS.exists, hres]
  · simp [hP, removePrefix, stripPrefix_render hsn hn, push_render hsn hn hne, FS.exists, hres]

/-! ### `--branch` off: no branch data anywhere -/

theorem mergeWith_nil_nil {κ α : Type} [DecidableEq κ] (f : α → α → α) :
    mergeWith f ([] : List (κ × α)) [] = [] := rfl

theorem addOne_no_branches (canon : Key → Key) (m : List (Key × Cov)) (kc : Key × Cov)
    (hm : ∀ x ∈ m, x.2.branches = []) (hk : kc.2.branches = []) :
    ∀ x ∈ addOne canon m kc, x.2.branches = [] := by
  intro x hx
  unfold addOne at hx
  -- an entry of `set m k v` is an old entry or (k, v)
  have key : ∀ (m : List (Key × Cov)) (k : Key) (v : Cov), (∀ x ∈ m, x.2.branches = []) →
      v.branches = [] → ∀ x ∈ AList.set m k v, x.2.branches = [] := by
    intro m k v hm hv
    induction m with
    | nil => intro x hx; simp [AList.set] at hx; subst hx; exact hv
    | cons a m ih =>
      intro x hx
      obtain ⟨k0, w⟩ := a
      unfold AList.set at hx
      split at hx
      · simp only [List.mem_cons] at hx
        rcases hx with h | h
        · subst h; exact hv
        · exact hm x (List.mem_cons_of_mem _ h)
      · simp only [List.mem_cons] at hx
        rcases hx with h | h
        · subst h; exact hm _ (by simp)
        · exact ih (fun y hy => hm y (List.mem_cons_of_mem _ hy)) x h
  refine key m _ _ hm ?_ x hx
  cases hg : get? m (canon kc.1) with
  | none => exact hk
  | some v =>
    have hv : v.branches = [] := hm (canon kc.1, v) (mem_of_get? hg)
    simp [merge, hv, hk, mergeWith]

theorem addResults_no_branches (canon : Key → Key) (m batch : List (Key × Cov))
    (hm : ∀ x ∈ m, x.2.branches = []) (hb : ∀ x ∈ batch, x.2.branches = []) :
    ∀ x ∈ addResults canon m batch, x.2.branches = [] := by
  induction batch generalizing m with
  | nil => exact hm
  | cons kc batch ih =>
    exact ih _ (addOne_no_branches canon m kc hm (hb kc (by simp))) fun x hx => hb x (List.mem_cons_of_mem _ hx)

/-- with branch parsing disabled no branch data is produced (as `C04_branch_off`, from the same
invariant of the byte machine) -/
theorem parse_off_no_branches (bs : Lcov.Bytes) (rs : List (Lcov.Bytes × Cov)) (h : Lcov.parse false bs = .ok rs) :
    ∀ r ∈ rs, r.2.branches = [] := by
  have inv : ∀ (bs : Lcov.Bytes) (s : St), NoBranchInv s → NoBranchInv (Lcov.run false s bs) := by
    intro bs
    induction bs with
    | nil => intro s hs; exact hs
    | cons b bs ih => intro s hs; exact ih _ (step_noBranch s b hs)
  have hi := inv bs {} ⟨rfl, rfl, by simp⟩
  unfold Lcov.parse at h
  generalize Lcov.run false {} bs = s at h hi
  obtain ⟨ctl, a⟩ := s
  have key : ∀ rs', Out.ok a.results = Out.ok rs' → ∀ r ∈ rs', r.2.branches = [] := by
    intro rs' e; cases e; exact hi.2.2
  cases ctl <;> simp only [finish] at h
  case halt o =>
    subst h; exact absurd hi.1 (by simp [Ctl.isBr])
  all_goals first
    | exact key rs h
    | (split at h <;> first | exact key rs h | cases h)
    | cases h

theorem parseInput_off_no_branches (b : Lcov.Bytes) : ∀ x ∈ parseInput false b, x.2.branches = [] := by
  unfold parseInput
  cases h : Lcov.parse false b with
  | ok rs => exact parse_off_no_branches b rs h
  | err k => simp
  | panic s => simp

/-- a run without `--branch` on lcov inputs files no branch data -/
theorem resultMap_off_no_branches (cfg : Cfg) (fs : FS) (inputs : List Lcov.Bytes) :
    ∀ x ∈ resultMap cfg false fs inputs, x.2.branches = [] := by
  unfold resultMap
  have : ∀ (ins : List Lcov.Bytes) (m : List (Key × Cov)), (∀ x ∈ m, x.2.branches = []) →
      ∀ x ∈ ins.foldl (fun m b => addResults (addCanon fs cfg.sourceDir) m (parseInput false b)) m,
        x.2.branches = [] := by
    intro ins
    induction ins with
    | nil => intro m hm; exact hm
    | cons b ins ih =>
      intro m hm
      exact ih _ (addResults_no_branches _ m _ hm (parseInput_off_no_branches b))
  exact this inputs [] (by simp)

/-- what a run WITHOUT `--branch` reads from a report written by a run: the branch data is gone -/
theorem parseInput_off_printReport (rep : List Rewrite.Rec) (h : Grcov.Props.C05.ReportOK (printable rep))
    (hb : ∀ r ∈ rep, r.cov.branches = []) :
    parseInput false (printReport rep) = rep.map fun r => (r.rel, norm r.cov) := by
  unfold parseInput printReport
  rw [parse_printLcov_off (printable rep) fun pc hpc => (h pc hpc).1]
  simp only [printable, List.map_map]
  apply List.map_congr_left
  intro r hr
  have := h (r.rel, sortCov r.cov) (List.mem_map_of_mem (f := fun r => (r.rel, sortCov r.cov)) hr)
  have hbr : (sortCov r.cov).branches = [] := by simp [sortCov, hb r hr, sortByKey]
  have e : rtCovOff (sortCov r.cov) = rtCov (sortCov r.cov) := by
    unfold rtCovOff
    rw [rtCov_eq _ this.1.wf]
    simp [dropEmpty, hbr, nonEmptyVecs]
  simp only [Function.comp, this.2, norm, e, rtCov_eq _ this.1.wf]

end Grcov.Cli
