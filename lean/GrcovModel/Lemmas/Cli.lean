/-
Lemmas for the CLI-level composition (GrcovModel/Cli.lean): sorting by key, what a second run
reads from a written report, `add_results` on records with distinct keys, the covered-filter under
the reader's normalisation, and the rewrite of a canonicalised key below the source dir.
-/
import GrcovModel.Cli
import GrcovModel.Lemmas.LcovIterate
import GrcovModel.Lemmas.RewriteIdem
namespace Grcov.Cli
open Grcov AList Grcov.Lcov Grcov.Rewrite Grcov.UPath

/-! ### sorting by key -/

def SortedKeys {α : Type} (m : List (Nat × α)) : Prop := m.Pairwise fun a b => a.1 ≤ b.1

theorem insertByKey_perm {α : Type} (kv : Nat × α) (m : List (Nat × α)) :
    (insertByKey kv m).Perm (kv :: m) := by
  induction m with
  | nil => exact List.Perm.refl _
  | cons x xs ih =>
    unfold insertByKey
    split
    · exact List.Perm.refl _
    · exact (List.Perm.cons x ih).trans (List.Perm.swap kv x xs)

theorem sortByKey_perm {α : Type} (m : List (Nat × α)) : (sortByKey m).Perm m := by
  induction m with
  | nil => exact List.Perm.refl _
  | cons x xs ih => exact (insertByKey_perm x _).trans (List.Perm.cons x ih)

theorem insertByKey_sorted {α : Type} (kv : Nat × α) (m : List (Nat × α)) (h : SortedKeys m) :
    SortedKeys (insertByKey kv m) := by
  induction m with
  | nil => simp [insertByKey, SortedKeys]
  | cons x xs ih =>
    unfold SortedKeys at h
    rw [List.pairwise_cons] at h
    unfold insertByKey
    split
    · rename_i hle
      unfold SortedKeys
      rw [List.pairwise_cons]
      refine ⟨?_, List.pairwise_cons.2 h⟩
      intro y hy
      simp only [List.mem_cons] at hy
      rcases hy with hy | hy
      · subst hy; exact hle
      · exact Nat.le_trans hle (h.1 y hy)
    · rename_i hgt
      unfold SortedKeys
      rw [List.pairwise_cons]
      refine ⟨?_, ih h.2⟩
      intro y hy
      have := (insertByKey_perm kv xs).mem_iff.1 hy
      simp only [List.mem_cons] at this
      rcases this with e | hm
      · subst e; omega
      · exact h.1 y hm

theorem sortByKey_sorted {α : Type} (m : List (Nat × α)) : SortedKeys (sortByKey m) := by
  induction m with
  | nil => simp [sortByKey, SortedKeys]
  | cons x xs ih => exact insertByKey_sorted x _ ih

theorem sortByKey_of_sorted {α : Type} (m : List (Nat × α)) (h : SortedKeys m) : sortByKey m = m := by
  induction m with
  | nil => rfl
  | cons x xs ih =>
    unfold SortedKeys at h
    rw [List.pairwise_cons] at h
    simp only [sortByKey]
    rw [ih h.2]
    cases xs with
    | nil => rfl
    | cons y ys => simp [insertByKey, h.1 y (by simp)]

theorem sortByKey_idem {α : Type} (m : List (Nat × α)) : sortByKey (sortByKey m) = sortByKey m :=
  sortByKey_of_sorted _ (sortByKey_sorted m)

/-- what the reader rebuilds from a written record: the record in key order, minus empty vectors -/
def norm (c : Cov) : Cov := dropEmpty (sortCov c)

theorem sortCov_norm (c : Cov) : sortCov (norm c) = norm c := by
  simp only [norm, sortCov, dropEmpty, sortByKey_idem]
  congr 1
  apply sortByKey_of_sorted
  exact List.Pairwise.filter _ (sortByKey_sorted c.branches)

theorem nodupKeys_sortByKey {α : Type} (m : List (Nat × α)) (h : NodupKeys m) : NodupKeys (sortByKey m) := by
  unfold NodupKeys keys at *
  exact ((sortByKey_perm m).map _).nodup_iff.2 h

/-! ### the covered filter does not see the normalisation -/

theorem isCovered_norm (c : Cov) : isCovered (norm c) = isCovered c := by
  have : (norm c).lines.any (fun lc => lc.2 != 0) = c.lines.any (fun lc => lc.2 != 0) :=
    (sortByKey_perm c.lines).any_eq
  simp only [isCovered, this]
  rfl

theorem filterOk_norm (f : Option Bool) (c : Cov) : filterOk f (norm c) = filterOk f c := by
  unfold filterOk; rw [isCovered_norm]

theorem selectRec_norm (cfg : Cfg) (fs : FS) (abs rel : Lcov.Bytes) (c : Cov)
    (h : selectRec cfg fs abs rel c = some ⟨abs, rel, c⟩) :
    selectRec cfg fs abs rel (norm c) = some ⟨abs, rel, norm c⟩ := by
  obtain ⟨h1, h2, h3, h4, _⟩ := (selectRec_some_iff _ _ _ _ _ _).1 h
  rw [selectRec_some_iff]
  exact ⟨h1, h2, h3, by rw [filterOk_norm]; exact h4, rfl⟩

/-! ### add_results on records with distinct keys -/

theorem addResults_distinct (canon : Key → Key) (m batch : List (Key × Cov))
    (hn : ((batch.map (·.1)).map canon).Nodup) (hd : ∀ kc ∈ batch, canon kc.1 ∉ keys m) :
    addResults canon m batch = m ++ batch.map fun kc => (canon kc.1, kc.2) := by
  induction batch generalizing m with
  | nil => simp [addResults]
  | cons kc batch ih =>
    simp only [List.map_cons, List.nodup_cons] at hn
    have hk : canon kc.1 ∉ keys m := hd kc (by simp)
    have hg : get? m (canon kc.1) = none := (get?_eq_none_iff _ _).2 hk
    have step : addResults canon m (kc :: batch) = addResults canon (addOne canon m kc) batch := rfl
    have h1 : addOne canon m kc = m ++ [(canon kc.1, kc.2)] := by
      simp only [addOne, hg]; exact set_append_new m _ _ hk
    rw [step, h1, ih _ hn.2]
    · simp
    · intro x hx
      rw [keys_append]
      simp only [keys, List.map_cons, List.map_nil, List.mem_append, List.mem_singleton, not_or]
      refine ⟨hd x (List.mem_cons_of_mem _ hx), ?_⟩
      intro e
      exact hn.1 (by rw [← e]; exact List.mem_map_of_mem (List.mem_map_of_mem hx))

/-! ### what a run reads from a report written by a run -/

/-- the records a run reads from the report `printReport rep` -/
theorem parseInput_printReport (rep : List Rewrite.Rec) (h : Grcov.Props.C05.ReportOK (printable rep)) :
    parseInput true (printReport rep) = rep.map fun r => (r.rel, norm r.cov) := by
  unfold parseInput printReport
  rw [parse_printLcov (printable rep) fun pc hpc => (h pc hpc).1]
  simp only [printable, List.map_map]
  apply List.map_congr_left
  intro r hr
  have := h (r.rel, sortCov r.cov) (List.mem_map_of_mem (f := fun r => (r.rel, sortCov r.cov)) hr)
  simp only [Function.comp, this.2, norm, rtCov_eq _ this.1.wf]

/-- printing the normalised records prints the same bytes -/
theorem printReport_norm (rep : List Rewrite.Rec) (g : Rewrite.Rec → Lcov.Bytes)
    (h : Grcov.Props.C05.ReportOK (printable rep)) :
    printReport (rep.map fun r => ⟨g r, r.rel, norm r.cov⟩) = printReport rep := by
  unfold printReport
  have e : printable (rep.map fun r => ⟨g r, r.rel, norm r.cov⟩) = roundtrip (printable rep) := by
    simp only [printable, roundtrip, List.map_map]
    apply List.map_congr_left
    intro r hr
    have := h (r.rel, sortCov r.cov) (List.mem_map_of_mem (f := fun r => (r.rel, sortCov r.cov)) hr)
    have e2 := sortCov_norm r.cov
    simp only [norm] at e2
    simp only [Function.comp, this.2, norm, rtCov_eq _ this.1.wf, e2]
  rw [e]
  exact printLcov_roundtrip _ fun pc hpc => ⟨(h pc hpc).1.wf, (h pc hpc).2⟩

/-! ### a canonicalised key below the source dir -/

/-- source dir `S` clean, absolute and backslash-free, no mapping, prefix dir absent or `S` (what
`main` sets without `-p`): the canonical path of an existing file below `S`, used as a key – this
is the key `add_results` files a reported path under –, is resolved to (itself, path relative to
`S`) -/
theorem resolveKey_canonical_under_source {cfg : Cfg} {fs : FS} {sn names : List Lcov.Bytes}
    (hS : cfg.sourceDir = some (render ⟨true, sn⟩)) (hM : cfg.mapping = none)
    (hP : cfg.prefixDir = none ∨ cfg.prefixDir = some (render ⟨true, sn⟩))
    (hsn : ∀ n ∈ sn, RealName n ∧ 92 ∉ n) (hn : ∀ n ∈ names, RealName n ∧ 92 ∉ n)
    (hne : names ≠ [])
    (hres : fs.resolve (render ⟨true, sn ++ names⟩) = some (sn ++ names, .file)) :
    resolveKey cfg fs (render ⟨true, sn ++ names⟩)
      = .ok (some (render ⟨true, sn ++ names⟩, join names)) := by
  have hsn1 : ∀ n ∈ sn, RealName n := fun n hn' => (hsn n hn').1
  have hn1 : ∀ n ∈ names, RealName n := fun n hn' => (hn n hn').1
  have hall1 : ∀ n ∈ sn ++ names, RealName n := by
    intro n h; rcases List.mem_append.1 h with h | h
    · exact hsn1 n h
    · exact hn1 n h
  have hall2 : ∀ n ∈ sn ++ names, 92 ∉ n := by
    intro n h; rcases List.mem_append.1 h with h | h
    · exact (hsn n h).2
    · exact (hn n h).2
  have hb : bsl (render ⟨true, sn ++ names⟩) = render ⟨true, sn ++ names⟩ :=
    bsl_id (noBackslash_render (np := ⟨true, sn ++ names⟩) hall2)
  have hstrip := stripPrefix_render hsn1 hn1
  have hfin : finalRel (join names) = some (join names) := by
    rw [join_eq_render, finalRel_render (np := ⟨false, names⟩) hn1 fun n h => (hn n h).2]
  unfold resolveKey
  simp only [hM, Option.isSome_none, Bool.false_and, Bool.false_eq_true, if_false, hS]
  rcases hP with hP | hP
  · have hkp : keyPath cfg (render ⟨true, sn ++ names⟩) = render ⟨true, sn ++ names⟩ := by
      simp [keyPath, hP, hM, removePrefix, applyMapping, hb]
    have hreal : fs.realpath (render ⟨true, sn ++ names⟩) = some (render ⟨true, sn ++ names⟩) := by
      simp [FS.realpath, hres]
    rw [hkp]
    have : getAbsPath fs (some (render ⟨true, sn⟩)) (render ⟨true, sn ++ names⟩)
        = .ok (some (render ⟨true, sn ++ names⟩, join names)) := by
      rw [getAbsPath_some_iff]
      refine ⟨render ⟨true, sn ++ names⟩, ?_, normalizePath_render (np := ⟨true, sn ++ names⟩) hall1, ?_⟩
      · simp [absCanon, absGuess, isRelative, hasRoot_render_true, canonOrNorm, hreal]
      · simp only [fixupRelPath, hstrip]
        rw [join_eq_render, normalizePath_render (np := ⟨false, names⟩) hn1]
    rw [this]; simp [finishPath, hfin]
  · have hkp : keyPath cfg (render ⟨true, sn ++ names⟩) = join names := by
      simp [keyPath, hP, hM, removePrefix, applyMapping, hb, hstrip]
    rw [hkp, getAbsPath_under_source hsn1 hn1 hne hres]
    simp [finishPath, hfin]

/-- … and `add_results` files the reported relative path of such a file under that canonical key -/
theorem addCanon_under_source {fs : FS} {sn names : List Lcov.Bytes} (hsn : ∀ n ∈ sn, RealName n)
    (hn : ∀ n ∈ names, RealName n) (hne : names ≠ [])
    (hres : fs.resolve (render ⟨true, sn ++ names⟩) = some (sn ++ names, .file)) :
    addCanon fs (some (render ⟨true, sn⟩)) (join names) = render ⟨true, sn ++ names⟩ := by
  simp [addCanon, push_render hsn hn hne, FS.realpath, hres]

/-- a result map every key of which is retained -/
theorem rewritePaths_map_ok {α : Type} (cfg : Cfg) (fs : FS) (l : List α) (key : α → Lcov.Bytes × Cov)
    (g : α → Rewrite.Rec) (habs : ∀ s, cfg.sourceDir = some s → isAbsolute s = true)
    (h : ∀ x ∈ l, rewriteKey cfg fs (key x) = .ok (some (g x))) :
    rewritePaths cfg fs (l.map key) = .ok (l.map g) := by
  have hc : collect ((l.map key).map (rewriteKey cfg fs)) = .ok (l.map g) := by
    rw [List.map_map]
    exact collect_map_ok _ g l fun x hx => h x hx
  unfold rewritePaths
  cases hs : cfg.sourceDir with
  | none => exact hc
  | some s => simp only [habs s hs, if_true]; exact hc

end Grcov.Cli
