/-
The ActiveData-ETL report read LINE BY LINE: serde_json never writes a raw line feed (strings are
escaped, number tokens have none), so the lines of the report are exactly its documents, and the
strict reader of Writers/JsonBytes.lean reads each one back. Used by `C02_run_decodes_ade`.
-/
import GrcovModel.Lemmas.WritersJsonBytes
import GrcovModel.Lemmas.WritersDocs
import GrcovModel.Lemmas.Escape
namespace Grcov.Writers.JsonBytes
open Grcov AList Grcov.Escape Grcov.Writers Grcov.Writers.Docs
open Grcov.Writers.CobBytes (decBytes)

theorem noLF_jsonTab (b : Nat) : 10 ∉ (jsonTab b).getD [b] := by
  unfold jsonTab hexDigitLower
  repeat' split
  all_goals simp
  all_goals omega

theorem noLF_jsonStr (s : Bytes) : 10 ∉ jsonStr s := not_mem_escapeWith _ _ noLF_jsonTab s

theorem noLF_serStr (s : Bytes) : 10 ∉ serStr s := by
  simp [serStr, noLF_jsonStr]

theorem noLF_serInt (i : Int) : 10 ∉ serInt i := by
  unfold serInt
  split
  · intro h
    rcases List.mem_cons.1 h with h | h
    · cases h
    · have := decBytes_digits _ _ h; omega
  · intro h; have := decBytes_digits _ _ h; omega

theorem noLF_tok (t : Bytes) (h : tokOk t = true) : 10 ∉ t := by
  intro hm
  have := (tokOk_parts h).1
  rw [List.all_eq_true] at this
  have := this 10 hm
  simp [isNumChar] at this

mutual
theorem noLF_ser : ∀ (j : Json), wf j = true → 10 ∉ ser j
  | .null, _ => by simp [ser]
  | .bool true, _ => by simp [ser]
  | .bool false, _ => by simp [ser]
  | .int i, _ => by simp only [ser]; exact noLF_serInt i
  | .tok t, h => by simp only [ser]; exact noLF_tok t (by simpa [wf] using h)
  | .str s, _ => by simp only [ser]; exact noLF_serStr s
  | .arr [], _ => by simp [ser]
  | .arr (x :: xs), h => by
    simp only [wf, wfs, Bool.and_eq_true] at h
    have a := noLF_ser x h.1; have b := noLF_serTail xs h.2
    simp [ser, a, b]
  | .obj [], _ => by simp [ser]
  | .obj (kv :: fs), h => by
    simp only [wf, wfFields, Bool.and_eq_true] at h
    have a := noLF_ser kv.2 h.1; have b := noLF_serFields fs h.2; have c := noLF_serStr kv.1
    simp [ser, a, b, c]
theorem noLF_serTail : ∀ (xs : List Json), wfs xs = true → 10 ∉ serTail xs
  | [], _ => by simp [serTail]
  | x :: xs, h => by
    simp only [wfs, Bool.and_eq_true] at h
    have a := noLF_ser x h.1; have b := noLF_serTail xs h.2
    simp [serTail, a, b]
theorem noLF_serFields : ∀ (fs : List (Bytes × Json)), wfFields fs = true → 10 ∉ serFields fs
  | [], _ => by simp [serFields]
  | kv :: fs, h => by
    simp only [wfFields, Bool.and_eq_true] at h
    have a := noLF_ser kv.2 h.1; have b := noLF_serFields fs h.2; have c := noLF_serStr kv.1
    simp [serFields, a, b, c]
end


/-! ### the ActiveData report, line by line -/

theorem wf_adeLists (pct : Json) (hp : wf pct = true) (l : CobAde.AdeLists) :
    ∀ kv ∈ adeLists pct l, wf kv.2 = true := by
  intro kv hkv
  simp only [adeLists, List.mem_cons, List.not_mem_nil, or_false] at hkv
  rcases hkv with rfl | rfl | rfl | rfl | rfl
  · exact wf_arr_map _ _ fun _ => rfl
  · exact wf_arr_map _ _ fun _ => rfl
  · rfl
  · rfl
  · exact hp

theorem wf_getD (pcts : List Json) (hp : ∀ p ∈ pcts, wf p = true) (i : Nat) : wf (pcts.getD i .null) = true := by
  rw [List.getD_eq_getElem?_getD]
  cases h : pcts[i]? with
  | none => rfl
  | some p => exact hp p (List.mem_of_getElem? h)

theorem wf_adeRecordJson (pcts : List Json) (hp : ∀ p ∈ pcts, wf p = true) (r : CobAde.AdeRecord) :
    wf (adeRecordJson pcts r) = true := by
  cases r with
  | method file name m =>
    apply wf_mkObj
    intro kv hkv
    simp only [List.mem_cons, List.not_mem_nil, or_false] at hkv
    rcases hkv with rfl | rfl | rfl
    · rfl
    · exact wf_mkObj _ (by intro kv hkv; simp at hkv; subst hkv; rfl)
    · apply wf_mkObj
      intro kv hkv
      rcases List.mem_cons.1 hkv with rfl | hkv
      · rfl
      · exact wf_adeLists _ (wf_getD pcts hp 0) m kv hkv
  | file file f orphan =>
    apply wf_mkObj
    intro kv hkv
    simp only [List.mem_cons, List.not_mem_nil, or_false] at hkv
    rcases hkv with rfl | rfl | rfl | rfl
    · rfl
    · rfl
    · apply wf_mkObj
      intro kv hkv
      rcases List.mem_cons.1 hkv with rfl | hkv
      · rfl
      · exact wf_adeLists _ (wf_getD pcts hp 0) f kv hkv
    · exact wf_mkObj _ (wf_adeLists _ (wf_getD pcts hp 1) orphan)

/-- the documents of the report, one per line -/
def adeLines : List Json → List CobAde.AdeRecord → List Json
  | _, [] => []
  | pcts, r :: rs => adeRecordJson (pcts.take (adeSlots r)) r :: adeLines (pcts.drop (adeSlots r)) rs

/-- read line by line, the ActiveData report is the serialisation of its documents, and the strict
JSON reader reads every line back to its document -/
theorem adeBytes_lines (pcts : List Json) (hp : ∀ p ∈ pcts, wf p = true) (recs : List CobAde.AdeRecord) :
    splitLines (adeBytes pcts recs) = (adeLines pcts recs).map ser ∧
    (splitLines (adeBytes pcts recs)).mapM jsonParse = some (adeLines pcts recs) := by
  induction recs generalizing pcts with
  | nil => exact ⟨rfl, rfl⟩
  | cons r rs ih =>
    have hw : wf (adeRecordJson (pcts.take (adeSlots r)) r) = true :=
      wf_adeRecordJson _ (fun p hp' => hp p (List.mem_of_mem_take hp')) r
    obtain ⟨i1, i2⟩ := ih (pcts.drop (adeSlots r)) (fun p hp' => hp p (List.mem_of_mem_drop hp'))
    have e : adeBytes pcts (r :: rs) = ser (adeRecordJson (pcts.take (adeSlots r)) r) ++ 10 :: adeBytes (pcts.drop (adeSlots r)) rs := rfl
    rw [e, splitLines_line _ (noLF_ser _ hw)]
    refine ⟨by rw [i1]; rfl, ?_⟩
    have hparse := jsonParse_jsonSerialize _ hw
    unfold jsonSerialize at hparse
    simp only [List.mapM_cons, hparse, i2, adeLines]
    rfl

end Grcov.Writers.JsonBytes
