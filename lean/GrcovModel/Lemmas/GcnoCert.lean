/-
Soundness of the executable certificate: `wfShape f && treeCert f depth parc root` implies the
hypothesis `SpanForest` of the flow theorems; a Boolean check of flow conservation implies `Flow`.
-/
import GrcovModel.Gcno.Tree
namespace Grcov.Gcno
open Grcov

theorem mem_indexed_of_getElem? {α : Type} : ∀ (l : List α) (k i : Nat) (a : α),
    l[i]? = some a → (k + i, a) ∈ indexed l k := by
  intro l
  induction l with
  | nil => intro k i a h; simp at h
  | cons x l ih =>
    intro k i a h
    cases i with
    | zero => simp at h; subst h; simp [indexed]
    | succ i =>
      simp only [List.getElem?_cons_succ] at h
      simp only [indexed]
      have := ih (k + 1) i a h
      have e : k + 1 + i = k + (i + 1) := by omega
      rw [e] at this
      exact List.mem_cons_of_mem _ this

theorem nodup_of_nodupB : ∀ (l : List Nat), nodupB l = true → l.Nodup := by
  intro l
  induction l with
  | nil => intro _; exact List.nodup_nil
  | cons a l ih =>
    intro h
    simp only [nodupB, Bool.and_eq_true, Bool.not_eq_true', List.contains_eq_mem,
      decide_eq_false_iff_not] at h
    exact List.nodup_cons.2 ⟨h.1, ih h.2⟩

theorem getD_eq_of_getElem? {α : Type} {l : List α} {i : Nat} {a d : α} (h : l[i]? = some a) :
    l.getD i d = a := by
  rw [List.getD_eq_getElem?_getD, h]; rfl

theorem getElem?_of_lt_getD {α : Type} {l : List α} {i : Nat} (d : α) (h : i < l.length) :
    l[i]? = some (l.getD i d) := by
  rw [List.getD_eq_getElem?_getD, List.getElem?_eq_getElem h]; rfl

/-- the Boolean certificate implies the hypothesis of the flow theorems -/
theorem spanForest_of_cert {f : Func} {depth parc root : List Nat} (hw : wfShape f = true)
    (hc : treeCert f depth parc root = true) :
    SpanForest f (fun b => depth.getD b 0) (fun b => parc.getD b 0) (fun b => root.getD b 0) := by
  unfold wfShape at hw
  simp only [Bool.and_eq_true, List.all_eq_true, decide_eq_true_eq, beq_iff_eq,
    List.contains_eq_mem] at hw
  obtain ⟨⟨hw1, hw2⟩, hw3⟩ := hw
  unfold treeCert at hc
  simp only [Bool.and_eq_true, List.all_eq_true, decide_eq_true_eq, beq_iff_eq, List.mem_range,
    Bool.or_eq_true, Bool.not_eq_true', List.any_eq_true] at hc
  obtain ⟨⟨_, hc1⟩, hc2⟩ := hc
  have hblk : ∀ (b : Nat) (blk : Block), f.blocks[b]? = some blk → (b, blk) ∈ indexed f.blocks 0 := by
    intro b blk h
    have := mem_indexed_of_getElem? f.blocks 0 b blk h
    simpa using this
  have harc : ∀ (e : Nat) (a : Arc), f.arcs[e]? = some a → (e, a) ∈ indexed f.arcs 0 := by
    intro e a h
    have := mem_indexed_of_getElem? f.arcs 0 e a h
    simpa using this
  constructor
  · intro e a ha
    exact hw1 a (List.mem_of_getElem? ha)
  · intro b blk e hb
    obtain ⟨⟨⟨hs, _⟩, _⟩, _⟩ := hw2 (b, blk) (hblk b blk hb)
    constructor
    · intro he
      obtain ⟨h1, h2⟩ := hs e he
      exact ⟨f.arcs.getD e default, getElem?_of_lt_getD default h1, h2⟩
    · rintro ⟨a, ha, hd⟩
      have := (hw3 (e, a) (harc e a ha)).1
      rw [hd, getD_eq_of_getElem? hb] at this
      exact this
  · intro b blk e hb
    obtain ⟨⟨_, hd⟩, _⟩ := hw2 (b, blk) (hblk b blk hb)
    constructor
    · intro he
      obtain ⟨h1, h2⟩ := hd e he
      exact ⟨f.arcs.getD e default, getElem?_of_lt_getD default h1, h2⟩
    · rintro ⟨a, ha, hs⟩
      have := (hw3 (e, a) (harc e a ha)).2
      rw [hs, getD_eq_of_getElem? hb] at this
      exact this
  · intro b blk hb
    obtain ⟨⟨⟨_, hn⟩, _⟩, _⟩ := hw2 (b, blk) (hblk b blk hb)
    exact nodup_of_nodupB _ hn
  · intro b blk hb
    obtain ⟨_, hn⟩ := hw2 (b, blk) (hblk b blk hb)
    exact nodup_of_nodupB _ hn
  · intro b hb hd
    obtain ⟨_, h3⟩ := hc1 b hb
    rw [if_neg (by omega)] at h3
    simp only [Bool.and_eq_true, decide_eq_true_eq, beq_iff_eq, Bool.or_eq_true] at h3
    obtain ⟨⟨h4, h5⟩, h6⟩ := h3
    refine ⟨f.arcs.getD (parc.getD b 0) default, getElem?_of_lt_getD default h4, h5, ?_⟩
    rcases h6 with ⟨⟨g1, g2⟩, g3⟩ | ⟨⟨g1, g2⟩, g3⟩
    · exact Or.inl ⟨g1, g2, g3⟩
    · exact Or.inr ⟨g1, g2, g3⟩
  · intro e a ha ht
    rcases hc2 (e, a) (harc e a ha) with h | ⟨b, hb, h⟩
    · rw [ht] at h; cases h
    · exact ⟨b, hb, h.1, h.2⟩
  · intro b hb
    exact (hc1 b hb).1.1
  · intro b hb hd
    have := (hc1 b hb).2
    rw [if_pos hd] at this
    simpa using this
  · intro b hb
    exact (hc1 b hb).1.2

/-- the conclusion of `isSpanTree` -/
theorem spanForest_of_isSpanTree {f : Func} (h : isSpanTree f = true) :
    ∃ depth parc root, SpanForest f depth parc root := by
  unfold isSpanTree at h
  simp only [Bool.and_eq_true] at h
  exact ⟨_, _, _, spanForest_of_cert h.1 h.2⟩

/-- conservation and the u64 bound, checked block by block -/
def flowB (f : Func) (F : Nat → Nat) : Bool :=
  f.blocks.all fun blk =>
    (blk.source.map F).sum == (blk.destination.map F).sum &&
      decide ((blk.source.map F).sum ≤ U64MAX)

theorem flow_of_flowB {f : Func} {F : Nat → Nat} (h : flowB f F = true) : Flow f F := by
  unfold flowB at h
  simp only [List.all_eq_true, Bool.and_eq_true, beq_iff_eq, decide_eq_true_eq] at h
  constructor
  · intro b blk hb; exact (h blk (List.mem_of_getElem? hb)).1
  · intro b blk hb; exact (h blk (List.mem_of_getElem? hb)).2

/-! ### splitting the arc counts of a line into circuits -/

/-- `es` is a chain of arcs from block `cur` back to block `first`, through blocks of `bs` only -/
def chainOk (f : Func) (bs : List Nat) (first : Nat) : Nat → List Nat → Bool
  | cur, [] => cur == first
  | cur, e :: es =>
    match f.arcs[e]? with
    | none => false
    | some a => a.src == cur && bs.contains a.src && bs.contains a.dst && chainOk f bs first a.dst es

/-- a non-empty closed chain of arcs among the blocks `bs` -/
def isCircuit (f : Func) (bs : List Nat) (es : List Nat) : Bool :=
  match es with
  | [] => false
  | e :: _ =>
    match f.arcs[e]? with
    | none => false
    | some a => chainOk f bs a.src a.src es

/-- `circs` is a way to split (part of) the arc counts `cnt` of the blocks `bs` into circuits:
every member is a circuit and no arc is used more often than its count -/
def validSplit (f : Func) (cnt : Nat → Nat) (bs : List Nat) (circs : List (List Nat)) : Bool :=
  circs.all (isCircuit f bs) &&
    (List.range f.arcs.length).all fun e => decide ((circs.map fun c => c.count e).sum ≤ cnt e)

/-- the count returned by a cycle search, if it succeeded -/
def cyclesOf : Outcome ((Nat → Nat) × Nat) → Option Nat
  | .ok (_, n) => some n
  | _ => none

/-- the count a result reports for line `l` of its only file -/
def lineCountOf (o : Outcome (List (Bytes × Cov))) (l : Nat) : Option Nat :=
  match o with
  | .ok [(_, c)] => AList.get? c.lines l
  | _ => none

end Grcov.Gcno
