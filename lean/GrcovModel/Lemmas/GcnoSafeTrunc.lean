/-
C14, last sentence: a truncated gcda.  `stepD` is one iteration of the record loop of `read_gcda`
as a value; `TruncOf t f` says how the record stream `t` of a truncated buffer relates to the
record stream `f` of the whole buffer: the same records, up to the point where the buffer ends, and
there either nothing (the loop stops silently: fewer than four bytes left, `while let Ok(tag)`) or
the marker `fail short` – possibly after an `arcs` record that holds a *prefix* of the counters of
the same record of `f`.  Hence the record layer sees an error, or exactly `f.take k`.
-/
import GrcovModel.Lemmas.GcnoSafeBytes
namespace Grcov.Gcno
open Outcome

/-- `TruncOf t f`: `t` is the record stream of a truncated gcda whose complete record stream is
`f`.  Record by record they are equal until `t` ends; `t` ends silently (nothing more: it is
`f.take k`), or with the marker `fail short`, which may be preceded by an `arcs` record holding a
prefix of the counters of the same record of `f`. -/
inductive TruncOf : List DRec → List DRec → Prop
  | silent (f : List DRec) : TruncOf [] f
  | short (f : List DRec) : TruncOf [.fail .short] f
  | arcsShort (len : Nat) (vs' vs : List Nat) (f : List DRec) : vs' <+: vs →
      TruncOf [.arcs len vs', .fail .short] (.arcs len vs :: f)
  | cons (r : DRec) (t f : List DRec) : TruncOf t f → TruncOf (r :: t) (r :: f)

theorem TruncOf.append (rec : List DRec) {t f : List DRec} (h : TruncOf t f) :
    TruncOf (rec ++ t) (rec ++ f) := by
  induction rec with
  | nil => exact h
  | cons r rec ih => exact .cons _ _ _ ih

theorem TruncOf.refl_append (rec f : List DRec) : TruncOf rec (rec ++ f) := by
  have := TruncOf.append rec (TruncOf.silent f)
  simpa using this

/-- the end of a record (`finish` in `parseDRecs`) on a prefix of the buffer -/
theorem finish_trunc {len c : Nat} {rec : List DRec} {P' P : List Nat → List DRec} {r' r : List Nat}
    (hp : r' <+: r)
    (H : ∀ x' x, x' <+: x → x'.length ≤ r'.length → x.length ≤ r.length → TruncOf (P' x') (P x)) :
    TruncOf
      (if 4 * len < c then rec ++ [.fail .recordLen]
       else match skipN (4 * len - c) r' with
         | .ok _ x => rec ++ P' x
         | _ => rec ++ [.fail .short])
      (if 4 * len < c then rec ++ [.fail .recordLen]
       else match skipN (4 * len - c) r with
         | .ok _ x => rec ++ P x
         | _ => rec ++ [.fail .short]) := by
  by_cases hc : 4 * len < c
  · simp only [if_pos hc]
    simpa using TruncOf.refl_append (rec ++ [.fail .recordLen]) []
  simp only [if_neg hc]
  rcases skipN_prefix (4 * len - c) hp with h | ⟨u, x', x, h', h, hx⟩
  · simp only [h]
    split
    · exact TruncOf.append rec (.short _)
    · exact TruncOf.append rec (.short _)
  · simp only [h', h]
    exact TruncOf.append rec (H x' x hx (by have := skipN_length h'; omega) (by have := skipN_length h; omega))

/-- whatever the end of a record does, the records read before it come first -/
theorem finish_head (len c : Nat) (rec : List DRec) (P : List Nat → List DRec) (r : List Nat) :
    ∃ rest, (if 4 * len < c then rec ++ [DRec.fail .recordLen]
       else match skipN (4 * len - c) r with
         | .ok _ x => rec ++ P x
         | _ => rec ++ [.fail .short]) = rec ++ rest := by
  split
  · exact ⟨_, rfl⟩
  · split
    · exact ⟨_, rfl⟩
    · exact ⟨_, rfl⟩

/-- **the record stream of a truncated gcda** (any cut, any bytes): `TruncOf` the stream of the
whole buffer.  The fuels are those of `readGcda` (any fuel above the buffer length). -/
theorem parseDRecs_trunc (le : Bool) (version : Nat) : ∀ (fuel' fuel : Nat) (hf : Bool)
    (bs' bs : List Nat), bs'.length < fuel' → bs.length < fuel → bs' <+: bs →
    TruncOf (parseDRecs le version fuel' hf bs') (parseDRecs le version fuel hf bs) := by
  intro fuel'
  induction fuel' with
  | zero => intro _ _ _ _ h; omega
  | succ fuel' ih =>
    intro fuel hf bs' bs hl' hl hp
    obtain ⟨fuel0, rfl⟩ : ∃ k, fuel = k + 1 := ⟨fuel - 1, by omega⟩
    have IH : ∀ (hf : Bool) (x' x : List Nat), x' <+: x → x'.length + 8 ≤ bs'.length →
        x.length + 8 ≤ bs.length →
        TruncOf (parseDRecs le version fuel' hf x') (parseDRecs le version fuel0 hf x) :=
      fun hf x' x hx h1 h2 => ih fuel0 hf x' x (by omega) (by omega) hx
    rw [parseDRecs, parseDRecs]
    rcases readU32_prefix le hp with h1 | ⟨tag, r1', r1, h1', h1, hp1⟩
    · simp only [h1]; exact .silent _
    have l1' := readU32_length h1'
    have l1 := readU32_length h1
    simp only [h1', h1]
    by_cases htag : tag = 0
    · simp only [if_pos htag]; exact .silent _
    simp only [if_neg htag]
    rcases readU32_prefix le hp1 with h2 | ⟨len, r2', r2, h2', h2, hp2⟩
    · simp only [h2]; exact .short _
    have l2' := readU32_length h2'
    have l2 := readU32_length h2
    simp only [h2', h2]
    -- the end of a record, in every branch below
    have FIN : ∀ (c : Nat) (rec : List DRec) (hf : Bool) (x' x : List Nat), x' <+: x →
        x'.length ≤ r2'.length → x.length ≤ r2.length →
        TruncOf
          (if 4 * len < c then rec ++ [.fail .recordLen]
           else match skipN (4 * len - c) x' with
             | .ok _ y => rec ++ parseDRecs le version fuel' hf y
             | _ => rec ++ [.fail .short])
          (if 4 * len < c then rec ++ [.fail .recordLen]
           else match skipN (4 * len - c) x with
             | .ok _ y => rec ++ parseDRecs le version fuel0 hf y
             | _ => rec ++ [.fail .short]) := by
      intro c rec hf x' x hx hx' hxl
      exact finish_trunc (P' := parseDRecs le version fuel' hf) (P := parseDRecs le version fuel0 hf) hx
        (fun y' y hy hy' hyl => IH hf y' y hy (by omega) (by omega))
    by_cases hF : tag = TAG_FUNCTION
    · simp only [if_pos hF]
      by_cases hl0 : len = 0
      · simp only [if_pos hl0]
        exact .cons _ _ _ (IH _ _ _ hp2 (by omega) (by omega))
      simp only [if_neg hl0]
      by_cases hl1 : len = 1
      · simp only [if_pos hl1]
        exact .cons _ _ _ (.silent _)
      simp only [if_neg hl1]
      rcases readU32_prefix le hp2 with h3 | ⟨ident, r3', r3, h3', h3, hp3⟩
      · simp only [h3]; exact .short _
      have l3' := readU32_length h3'
      have l3 := readU32_length h3
      simp only [h3', h3]
      rcases readU32_prefix le hp3 with h4 | ⟨lsum, r4', r4, h4', h4, hp4⟩
      · simp only [h4]; exact .short _
      have l4' := readU32_length h4'
      have l4 := readU32_length h4
      simp only [h4', h4]
      by_cases hv : version ≥ 47
      · simp only [if_pos hv]
        rcases readU32_prefix le hp4 with h5 | ⟨csum, r5', r5, h5', h5, hp5⟩
        · simp only [h5]; exact .short _
        have l5' := readU32_length h5'
        have l5 := readU32_length h5
        simp only [h5', h5]
        exact FIN 12 _ true r5' r5 hp5 (by omega) (by omega)
      · simp only [if_neg hv]
        exact FIN 8 _ true r4' r4 hp4 (by omega) (by omega)
    simp only [if_neg hF]
    by_cases hA : tag = TAG_COUNTER_ARCS
    · simp only [if_pos hA]
      cases hf with
      | false =>
        simp only [Bool.not_false, if_true]
        exact IH _ _ _ hp2 (by omega) (by omega)
      | true =>
        simp only [Bool.not_true, Bool.false_eq_true, if_false]
        have lc' := parseCounters_length le (len / 2) r2' []
        have lc := parseCounters_length le (len / 2) r2 []
        rcases parseCounters_prefix le (len / 2) r2' r2 [] hp2 with
          ⟨vs, r3', r3, e', e, hp3⟩ | ⟨vs', e', hpre⟩
        · rw [e'] at lc'; rw [e] at lc
          simp only [optLen, List.length_nil] at lc' lc
          simp only [e', e]
          exact FIN _ _ true r3' r3 hp3 (by omega) (by omega)
        · simp only [e']
          rcases hfull : parseCounters le (len / 2) r2 [] with ⟨vs, _ | r3⟩
          · rw [hfull] at hpre
            exact .arcsShort _ _ _ _ hpre
          · rw [hfull] at hpre
            simp only
            obtain ⟨rest, hrest⟩ := finish_head len (8 * (len / 2)) [.arcs len vs]
              (parseDRecs le version fuel0 true) r3
            exact Eq.mpr (congrArg (TruncOf _) hrest) (.arcsShort _ _ _ _ hpre)
    simp only [if_neg hA]
    by_cases hO : tag = TAG_OBJECT_SUMMARY
    · simp only [if_pos hO]
      rcases readU32_prefix le hp2 with h3 | ⟨w3, r3', r3, h3', h3, hp3⟩
      · simp only [h3]; exact .short _
      have l3' := readU32_length h3'
      have l3 := readU32_length h3
      simp only [h3', h3]
      rcases skipN_prefix 4 hp3 with h4 | ⟨u4, r4', r4, h4', h4, hp4⟩
      · simp only [h4]; exact .short _
      have l4' := skipN_length h4'
      have l4 := skipN_length h4
      simp only [h4', h4]
      by_cases h9 : len = 9
      · simp only [if_pos h9]
        rcases readU32_prefix le hp4 with h5 | ⟨w5, r5', r5, h5', h5, hp5⟩
        · simp only [h5]; exact .short _
        have l5' := readU32_length h5'
        have l5 := readU32_length h5
        simp only [h5', h5]
        exact FIN 12 _ hf r5' r5 hp5 (by omega) (by omega)
      · simp only [if_neg h9]
        exact FIN 8 _ hf r4' r4 hp4 (by omega) (by omega)
    simp only [if_neg hO]
    by_cases hP : tag = TAG_PROGRAM_SUMMARY
    · simp only [if_pos hP]
      by_cases hpos : len > 0
      · simp only [if_pos hpos]
        rcases skipN_prefix 4 hp2 with h3 | ⟨u3, r3', r3, h3', h3, hp3⟩
        · simp only [h3]; exact .short _
        have l3' := skipN_length h3'
        have l3 := skipN_length h3
        simp only [h3', h3]
        rcases skipN_prefix 4 hp3 with h4 | ⟨u4, r4', r4, h4', h4, hp4⟩
        · simp only [h4]; exact .short _
        have l4' := skipN_length h4'
        have l4 := skipN_length h4
        simp only [h4', h4]
        rcases readU32_prefix le hp4 with h5 | ⟨w5, r5', r5, h5', h5, hp5⟩
        · simp only [h5]; exact .short _
        have l5' := readU32_length h5'
        have l5 := readU32_length h5
        simp only [h5', h5]
        exact FIN 12 _ hf r5' r5 hp5 (by omega) (by omega)
      · simp only [if_neg hpos]
        exact FIN 0 _ hf r2' r2 hp2 (by omega) (by omega)
    simp only [if_neg hP]
    exact FIN 0 _ hf r2' r2 hp2 (by omega) (by omega)

/-! ### what `TruncOf` means for the record layer -/

/-- a truncated stream is a prefix of the complete records, or it carries the failure marker -/
theorem TruncOf.take_or_fail {t f : List DRec} (h : TruncOf t f) :
    (∃ k, t = f.take k) ∨ DRec.fail .short ∈ t := by
  induction h with
  | silent f => exact .inl ⟨0, by simp⟩
  | short f => exact .inr (by simp)
  | arcsShort len vs' vs f _ => exact .inr (by simp)
  | cons r t f _ ih =>
    rcases ih with ⟨k, hk⟩ | hm
    · exact .inl ⟨k + 1, by simp [hk]⟩
    · exact .inr (List.mem_cons_of_mem _ hm)

/-- no counter that is not in the file: the `i`-th record of the truncated stream, when it is a
counter record, is the `i`-th record of the whole stream with a prefix of its counters -/
theorem TruncOf.counters {t f : List DRec} (h : TruncOf t f) : ∀ (i len : Nat) (vs' : List Nat),
    t[i]? = some (.arcs len vs') → ∃ vs, f[i]? = some (.arcs len vs) ∧ vs' <+: vs := by
  induction h with
  | silent f => intro i len vs' h; simp at h
  | short f =>
    intro i len vs' h
    cases i with
    | zero => simp at h
    | succ i => simp at h
  | arcsShort len0 vs0' vs0 f hp =>
    intro i len vs' h
    cases i with
    | zero =>
      simp only [List.getElem?_cons_zero, Option.some.injEq, DRec.arcs.injEq] at h
      obtain ⟨rfl, rfl⟩ := h
      exact ⟨vs0, by simp, hp⟩
    | succ i =>
      cases i with
      | zero => simp at h
      | succ i => simp at h
  | cons r t f _ ih =>
    intro i len vs' h
    cases i with
    | zero =>
      simp only [List.getElem?_cons_zero, Option.some.injEq] at h
      subst h
      exact ⟨vs', by simp, List.prefix_refl _⟩
    | succ i =>
      simp only [List.getElem?_cons_succ] at h ⊢
      exact ih i len vs' h

/-- a stream with a failure marker is never accepted -/
theorem goRecs_ok_no_fail (g : Notes) : ∀ (recs : List DRec) (cur : Option Nat) (st r : State),
    goRecs g cur recs st = ok r → ∀ k, DRec.fail k ∉ recs := by
  intro recs
  induction recs with
  | nil => intro _ _ _ _ k; simp
  | cons d rest ih =>
    intro cur st r h k hm
    rw [goRecs_cons] at h
    rcases List.mem_cons.1 hm with rfl | hm
    · simp [recStep] at h
    · split at h
      · exact ih _ _ _ h k hm
      · obtain ⟨c, _, h⟩ := bind_eq_ok.1 h
        exact ih _ _ _ h k hm
      · cases h
      · cases h
      · cases h

/-! ### the file header on a prefix of the buffer -/

theorem guessEndian_prefix (m : List Nat) {bs' bs : List Nat} (h : bs' <+: bs) {le : Bool}
    {r0' : List Nat} (h' : guessEndian m bs' = ok (le, r0')) :
    ∃ r0, guessEndian m bs = ok (le, r0) ∧ r0' <+: r0 := by
  obtain ⟨t, rfl⟩ := h
  match bs', h' with
  | b0 :: b1 :: b2 :: b3 :: rest, h' =>
    simp only [guessEndian, List.cons_append] at h' ⊢
    split at h'
    · rename_i hm
      simp only [Outcome.ok.injEq, Prod.mk.injEq] at h'
      obtain ⟨rfl, rfl⟩ := h'
      rw [if_pos hm]
      exact ⟨_, rfl, List.prefix_append _ _⟩
    · rename_i hm
      split at h'
      · rename_i hm2
        simp only [Outcome.ok.injEq, Prod.mk.injEq] at h'
        obtain ⟨rfl, rfl⟩ := h'
        rw [if_neg hm, if_pos hm2]
        exact ⟨_, rfl, List.prefix_append _ _⟩
      · cases h'
  | [], h' => simp [guessEndian] at h'
  | [_], h' => simp [guessEndian] at h'
  | [_, _], h' => simp [guessEndian] at h'
  | [_, _, _], h' => simp [guessEndian] at h'

theorem getVersion_ok (c0 c1 c2 : Nat) : ∃ v, getVersion c0 c1 c2 = ok v := by
  unfold getVersion; split <;> exact ⟨_, rfl⟩

theorem readVersion_prefix (le : Bool) {bs' bs : List Nat} (h : bs' <+: bs) {v : Nat}
    {r1' : List Nat} (h' : readVersion le bs' = ok (v, r1')) :
    ∃ r1, readVersion le bs = ok (v, r1) ∧ r1' <+: r1 := by
  obtain ⟨t, rfl⟩ := h
  match bs', h' with
  | b0 :: b1 :: b2 :: b3 :: rest, h' =>
    simp only [readVersion, List.cons_append] at h' ⊢
    split at h'
    · rename_i hle
      rw [if_pos hle]
      split at h'
      · rename_i hs
        rw [if_pos hs]
        obtain ⟨v0, hv0⟩ := getVersion_ok b1 b2 b3
        rw [hv0] at h' ⊢
        simp only [bind_ok, Outcome.ok.injEq, Prod.mk.injEq] at h' ⊢
        obtain ⟨rfl, rfl⟩ := h'
        exact ⟨_, ⟨rfl, rfl⟩, List.prefix_append _ _⟩
      · cases h'
    · rename_i hle
      rw [if_neg hle]
      split at h'
      · rename_i hs
        rw [if_pos hs]
        obtain ⟨v0, hv0⟩ := getVersion_ok b2 b1 b0
        rw [hv0] at h' ⊢
        simp only [bind_ok, Outcome.ok.injEq, Prod.mk.injEq] at h' ⊢
        obtain ⟨rfl, rfl⟩ := h'
        exact ⟨_, ⟨rfl, rfl⟩, List.prefix_append _ _⟩
      · cases h'
  | [], h' => simp [readVersion] at h'
  | [_], h' => simp [readVersion] at h'
  | [_, _], h' => simp [readVersion] at h'
  | [_, _, _], h' => simp [readVersion] at h'

/-- **`readGcda` on a truncated buffer**: when the header of the cut buffer is readable, so is the
header of the whole buffer, with the same version and checksum, and the record stream of the cut
buffer is `TruncOf` the record stream of the whole one. -/
theorem readGcda_prefix {bs' bs : List Nat} (h : bs' <+: bs) {p' : GcdaBytes}
    (h' : readGcda bs' = ok p') :
    ∃ p, readGcda bs = ok p ∧ p.version = p'.version ∧
      ∀ cs recs', p'.rest = ok (cs, recs') → ∃ recs, p.rest = ok (cs, recs) ∧ TruncOf recs' recs := by
  unfold readGcda at h' ⊢
  obtain ⟨⟨le, r0'⟩, hg', h'⟩ := bind_eq_ok.1 h'
  obtain ⟨⟨v, r1'⟩, hv', h'⟩ := bind_eq_ok.1 h'
  obtain ⟨r0, hg, hp0⟩ := guessEndian_prefix _ h hg'
  obtain ⟨r1, hv, hp1⟩ := readVersion_prefix le hp0 hv'
  simp only [Outcome.ok.injEq] at h'
  subst h'
  rw [hg]; simp only [bind_ok]; rw [hv]; simp only [bind_ok]
  refine ⟨_, rfl, rfl, ?_⟩
  intro cs recs' hrest
  simp only at hrest ⊢
  rcases readU32_prefix le hp1 with h2 | ⟨c, r2', r2, h2', h2, hp2⟩
  · rw [h2] at hrest; cases hrest
  · rw [h2'] at hrest
    rw [h2]
    simp only [Outcome.ok.injEq, Prod.mk.injEq] at hrest ⊢
    obtain ⟨rfl, rfl⟩ := hrest
    exact ⟨_, ⟨rfl, rfl⟩, parseDRecs_trunc le v _ _ false r2' r2 (by omega) (by omega) hp2⟩

/-- **a truncated gcda at the record layer**: whenever the cut buffer is accepted, the resulting
state is the state after a prefix of the complete records of the whole buffer – an `ok` never
contains a count that is not in the file. -/
theorem addGcdaBytes_prefix (g : Notes) (st st' : State) {bs' bs : List Nat} (h : bs' <+: bs)
    (h' : addGcdaBytes g st bs' = ok st') :
    ∃ p cs recs k, readGcda bs = ok p ∧ p.rest = ok (cs, recs) ∧
      addGcda g st ⟨p.version, cs, recs.take k⟩ = ok st' := by
  unfold addGcdaBytes at h'
  obtain ⟨p', hp', h'⟩ := bind_eq_ok.1 h'
  split at h'
  · cases h'
  · obtain ⟨⟨cs, recs'⟩, hrest', h'⟩ := bind_eq_ok.1 h'
    obtain ⟨p, hp, hv, hrec⟩ := readGcda_prefix h hp'
    obtain ⟨recs, hrest, htr⟩ := hrec cs recs' hrest'
    refine ⟨p, cs, recs, ?_⟩
    rcases htr.take_or_fail with ⟨k, hk⟩ | hm
    · refine ⟨k, hp, hrest, ?_⟩
      rw [hv, ← hk]; exact h'
    · exfalso
      unfold addGcda at h'
      simp only at h'
      split at h'
      · cases h'
      · split at h'
        · cases h'
        · exact goRecs_ok_no_fail g _ _ _ _ h' _ hm

end Grcov.Gcno
