/-
Lemmas for the extraction destinations of C19: `dec` writes digits only and is injective; the
destination of a well-formed stem is `tmp ++ [inputs] ++ <real names> ++ [<last>_<n>.<ext>]`;
destinations are injective in (stem, n, ext); worker directories and the extraction directory are
apart.
-/
import GrcovModel.Confine.Extracts
import GrcovModel.Lemmas.ConfineDest
namespace Grcov.Confine
open Grcov.UPath (Bytes RealName)

/-! ### decimal numbers -/

theorem decDigits_digits (fuel n : Nat) : ∀ b ∈ decDigits fuel n, 48 ≤ b ∧ b ≤ 57 := by
  induction fuel generalizing n with
  | zero => intro b hb; simp [decDigits] at hb; omega
  | succ f ih =>
    intro b hb
    unfold decDigits at hb
    split at hb
    · simp at hb; omega
    · rcases List.mem_append.1 hb with h | h
      · exact ih _ b h
      · simp at h; omega

theorem dec_digits (n : Nat) : ∀ b ∈ dec n, 48 ≤ b ∧ b ≤ 57 := decDigits_digits n n

theorem dec_ne_nil (n : Nat) : dec n ≠ [] := by
  unfold dec
  cases n with
  | zero => simp [decDigits]
  | succ k =>
    unfold decDigits
    split
    · simp
    · simp

/-- the value of a digit string -/
def undec (l : Bytes) : Nat := l.foldl (fun a d => a * 10 + (d - 48)) 0

theorem undec_decDigits (fuel n : Nat) (h : n ≤ fuel) : undec (decDigits fuel n) = n := by
  induction fuel generalizing n with
  | zero =>
    have : n = 0 := by omega
    subst this; simp [decDigits, undec]
  | succ f ih =>
    unfold decDigits
    split
    · simp [undec]
    · rename_i hn
      have := ih (n / 10) (by omega)
      unfold undec at this ⊢
      rw [List.foldl_append, this]
      simp
      omega

theorem dec_injective {a b : Nat} (h : dec a = dec b) : a = b := by
  have ha := undec_decDigits a a (Nat.le_refl _)
  have hb := undec_decDigits b b (Nat.le_refl _)
  unfold dec at h
  rw [h] at ha
  omega

theorem dec_ne_inputs (i : Nat) : dec i ≠ bInputs := by
  intro h
  have := dec_digits i 105 (by rw [h]; decide)
  omega

/-! ### splitting at the last occurrence of a byte -/

theorem append_cons_unique {x : Nat} {A A' e e' : Bytes} (h : x ∉ e) (h' : x ∉ e')
    (heq : A ++ x :: e = A' ++ x :: e') : A = A' ∧ e = e' := by
  induction A generalizing A' with
  | nil =>
    cases A' with
    | nil => simp at heq; exact ⟨rfl, heq⟩
    | cons a t =>
      simp at heq
      obtain ⟨rfl, he⟩ := heq
      exact absurd (by rw [he]; simp) h
  | cons a A ih =>
    cases A' with
    | nil =>
      simp at heq
      obtain ⟨rfl, he⟩ := heq
      exact absurd (by rw [← he]; simp) h'
    | cons a' t =>
      simp at heq
      obtain ⟨rfl, he⟩ := heq
      obtain ⟨h1, h2⟩ := ih he
      exact ⟨by rw [h1], h2⟩

/-- `<stem>_<n>.<ext>` determines stem, number and extension (the extension has no dot) -/
theorem numbered_inj {n n' : Nat} {e e' s s' : Bytes} (he : 46 ∉ e) (he' : 46 ∉ e')
    (h : numbered n e s = numbered n' e' s') : s = s' ∧ n = n' ∧ e = e' := by
  unfold numbered at h
  have h1 : (s ++ 95 :: dec n) ++ 46 :: e = (s' ++ 95 :: dec n') ++ 46 :: e' := by
    simpa [List.append_assoc] using h
  obtain ⟨h2, h3⟩ := append_cons_unique he he' h1
  have nd : ∀ k, 95 ∉ dec k := fun k hk => by have := dec_digits k 95 hk; omega
  obtain ⟨h4, h5⟩ := append_cons_unique (nd n) (nd n') h2
  exact ⟨h4, dec_injective h5, h3⟩

/-! ### well-formed stems -/

/-- a stem string whose directories are real names and whose last name is non-empty and has no
separator (it may be `..`: `...gcno` has the stem `..`, and its numbered name `.._1.gcno` is a real
name) -/
def StemOK (stem : Bytes) : Prop :=
  ∃ pre last, stem = UPath.join (pre ++ [last]) ∧ (∀ s ∈ pre, RealName s) ∧ last ≠ [] ∧ 47 ∉ last

theorem realName_numbered {last ext : Bytes} (n : Nat) (hl : 47 ∉ last) (he : 47 ∉ ext) :
    RealName (last ++ 95 :: dec n ++ 46 :: ext) := by
  have hmem : ∀ b, b ∈ (last ++ 95 :: dec n ++ 46 :: ext) ↔
      (b ∈ last ∨ b = 95 ∨ b ∈ dec n ∨ b = 46 ∨ b ∈ ext) := by
    intro b; simp [or_assoc]
  refine ⟨by simp, ?_, ?_, ?_⟩
  · intro h
    rcases (hmem 47).1 h with h | h | h | h | h
    · exact hl h
    · cases h
    · have := dec_digits n 47 h; omega
    · cases h
    · exact he h
  · intro h
    have h95 : (95 : Nat) ∈ (last ++ 95 :: dec n ++ 46 :: ext) := (hmem 95).2 (Or.inr (Or.inl rfl))
    rw [h] at h95
    simp at h95
  · intro h
    have h95 : (95 : Nat) ∈ (last ++ 95 :: dec n ++ 46 :: ext) := (hmem 95).2 (Or.inr (Or.inl rfl))
    rw [h] at h95
    simp at h95

theorem numbered_join (n : Nat) (ext : Bytes) (pre : List Bytes) (last : Bytes) :
    numbered n ext (UPath.join (pre ++ [last])) = UPath.join (pre ++ [last ++ 95 :: dec n ++ 46 :: ext]) := by
  rw [join_snoc, join_snoc]
  simp [numbered, List.append_assoc]

/-- the components of `<stem>_<n>.<ext>`: the stem's directories and ONE real last name -/
theorem toPath_numbered {stem : Bytes} (n : Nat) {ext : Bytes} (he : 47 ∉ ext)
    {pre : List Bytes} {last : Bytes} (hs : stem = UPath.join (pre ++ [last]))
    (hpre : ∀ s ∈ pre, RealName s) (hl : 47 ∉ last) :
    toPath (numbered n ext stem)
      = pre.map Comp.normal ++ [Comp.normal (last ++ 95 :: dec n ++ 46 :: ext)] := by
  rw [hs, numbered_join, toPath_join_real]
  · simp
  · intro s hs'
    rcases List.mem_append.1 hs' with h | h
    · exact hpre s h
    · rw [List.mem_singleton.1 h]; exact realName_numbered n hl he

theorem extractDir_eq (tmp : Path) : extractDir tmp = tmp ++ [Comp.normal bInputs] := by
  unfold extractDir; exact join_of_enclosed _ (enc1 _)

theorem extractDest_eq (tmp : Path) {stem : Bytes} (n : Nat) {ext : Bytes} (he : 47 ∉ ext)
    {pre : List Bytes} {last : Bytes} (hs : stem = UPath.join (pre ++ [last]))
    (hpre : ∀ s ∈ pre, RealName s) (hl : 47 ∉ last) :
    extractDest tmp stem n ext
      = tmp ++ (Comp.normal bInputs :: (pre.map Comp.normal
          ++ [Comp.normal (last ++ 95 :: dec n ++ 46 :: ext)])) := by
  unfold extractDest
  rw [toPath_numbered n he hs hpre hl, extractDir_eq, join_of_enclosed]
  · simp
  · exact enclosed_of_plain _ (by rw [plain_append, plain_map_normal]; rfl)

theorem extractDest_under (tmp : Path) {stem : Bytes} (n : Nat) {ext : Bytes} (hs : StemOK stem)
    (he : 47 ∉ ext) :
    Under tmp (extractDest tmp stem n ext) ∧ Under tmp (parentC (extractDest tmp stem n ext)) := by
  obtain ⟨pre, last, e1, hp, _, hl⟩ := hs
  rw [extractDest_eq tmp n he e1 hp hl]
  exact under_and_parent tmp _
    (enclosed_of_plain _ (by
      have : (Comp.normal bInputs :: (pre.map Comp.normal
          ++ [Comp.normal (last ++ 95 :: dec n ++ 46 :: ext)]))
          = (bInputs :: (pre ++ [last ++ 95 :: dec n ++ 46 :: ext])).map Comp.normal := by simp
      rw [this]; exact plain_map_normal _)) (by simp)

theorem resolveOnto_normals (st : List (List Nat)) (l : List Bytes) :
    resolveOnto st (l.map Comp.normal) = st ++ l := by
  induction l generalizing st with
  | nil => simp [resolveOnto]
  | cons a t ih => simp [resolveOnto, ih]

theorem resolve_append_normals (root : Path) (l : List Bytes) :
    resolve (root ++ l.map Comp.normal) = resolve root ++ l := by
  unfold resolve
  rw [resolveOnto_append, resolveOnto_normals]

/-- where an extraction destination resolves -/
theorem resolve_extractDest (tmp : Path) {stem : Bytes} (n : Nat) {ext : Bytes} (he : 47 ∉ ext)
    {pre : List Bytes} {last : Bytes} (hs : stem = UPath.join (pre ++ [last]))
    (hpre : ∀ s ∈ pre, RealName s) (hl : 47 ∉ last) :
    resolve (extractDest tmp stem n ext)
      = resolve tmp ++ (bInputs :: (pre ++ [last ++ 95 :: dec n ++ 46 :: ext])) := by
  rw [extractDest_eq tmp n he hs hpre hl]
  have : (Comp.normal bInputs :: (pre.map Comp.normal
      ++ [Comp.normal (last ++ 95 :: dec n ++ 46 :: ext)]))
      = (bInputs :: (pre ++ [last ++ 95 :: dec n ++ 46 :: ext])).map Comp.normal := by simp
  rw [this, resolve_append_normals]

theorem resolve_workerDir (tmp : Path) (i : Nat) : resolve (workerDir tmp i) = resolve tmp ++ [dec i] := by
  rw [workerDir_eq]
  have : [Comp.normal (dec i)] = [dec i].map Comp.normal := rfl
  rw [this, resolve_append_normals]

/-- resolved extraction destinations determine (stem, number, extension) -/
theorem extractDest_inj (tmp : Path) {stem stem' : Bytes} {n n' : Nat} {ext ext' : Bytes}
    (hs : StemOK stem) (hs' : StemOK stem') (he : 47 ∉ ext ∧ 46 ∉ ext) (he' : 47 ∉ ext' ∧ 46 ∉ ext')
    (h : resolve (extractDest tmp stem n ext) = resolve (extractDest tmp stem' n' ext')) :
    stem = stem' ∧ n = n' ∧ ext = ext' := by
  obtain ⟨pre, last, e1, hp, _, hl⟩ := hs
  obtain ⟨pre', last', e1', hp', _, hl'⟩ := hs'
  rw [resolve_extractDest tmp n he.1 e1 hp hl, resolve_extractDest tmp n' he'.1 e1' hp' hl'] at h
  have h2 := List.append_cancel_left h
  simp only [List.cons.injEq, true_and] at h2
  have hlen : pre.length = pre'.length := by
    have := congrArg List.length h2
    simp at this; exact this
  obtain ⟨h3, h4⟩ := List.append_inj h2 hlen
  simp only [List.cons.injEq, and_true] at h4
  have h5 : numbered n ext last = numbered n' ext' last' := by simpa [numbered] using h4
  obtain ⟨h6, h7, h8⟩ := numbered_inj he.2 he'.2 h5
  exact ⟨by rw [e1, e1', h3, h6], h7, h8⟩

end Grcov.Confine
