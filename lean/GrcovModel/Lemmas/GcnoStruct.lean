/-
The structure of a `finalize` result (line set, branch slots, function set) is a function of the
shape alone; a result computed from all-zero entry counters reports nothing as run.
-/
import GrcovModel.Lemmas.Gcno
namespace Grcov.Gcno
open Grcov AList Outcome

/-! ### association-list helpers -/

theorem map_set {κ α β : Type} [DecidableEq κ] (g : α → β) (m : List (κ × α)) (k : κ) (v : α) :
    (set m k v).map (fun p => (p.1, g p.2)) = set (m.map fun p => (p.1, g p.2)) k (g v) := by
  induction m with
  | nil => rfl
  | cons kv m ih =>
    obtain ⟨k', w⟩ := kv
    simp only [AList.set, List.map_cons]
    split
    · rfl
    · simp only [List.map_cons, ih]

theorem get?_map {κ α β : Type} [DecidableEq κ] (g : α → β) (m : List (κ × α)) (k : κ) :
    get? (m.map fun p => (p.1, g p.2)) k = (get? m k).map g := by
  induction m with
  | nil => rfl
  | cons kv m ih =>
    obtain ⟨k', w⟩ := kv
    simp only [List.map_cons, get?_cons]
    split
    · rfl
    · exact ih

theorem mem_set {κ α : Type} [DecidableEq κ] {m : List (κ × α)} {k : κ} {v : α} {p : κ × α}
    (h : p ∈ set m k v) : p = (k, v) ∨ p ∈ m := by
  induction m with
  | nil => simp [AList.set] at h; exact Or.inl h
  | cons kv m ih =>
    obtain ⟨k', w⟩ := kv
    simp only [AList.set] at h
    split at h
    · rename_i hk; subst hk
      rcases List.mem_cons.1 h with h | h
      · exact Or.inl h
      · exact Or.inr (List.mem_cons_of_mem _ h)
    · rcases List.mem_cons.1 h with h | h
      · exact Or.inr (h ▸ List.mem_cons_self)
      · rcases ih h with h | h
        · exact Or.inl h
        · exact Or.inr (List.mem_cons_of_mem _ h)

theorem mem_of_get?' {κ α : Type} [DecidableEq κ] {m : List (κ × α)} {k : κ} {v : α}
    (h : get? m k = some v) : (k, v) ∈ m := by
  induction m with
  | nil => simp at h
  | cons kv m ih =>
    obtain ⟨k', w⟩ := kv
    simp only [get?_cons] at h
    split at h
    · rename_i hk; subst hk; cases h; exact List.mem_cons_self
    · exact List.mem_cons_of_mem _ (ih h)

/-- append the elements of `new` that are not yet present, in order of first occurrence -/
def dedupKeys : List Nat → List Nat → List Nat
  | [], ks => ks
  | l :: ls, ks => dedupKeys ls (if l ∈ ks then ks else ks ++ [l])

theorem mem_dedupKeys (x : Nat) : ∀ (new ks : List Nat), x ∈ dedupKeys new ks ↔ x ∈ new ∨ x ∈ ks := by
  intro new
  induction new with
  | nil => intro ks; simp [dedupKeys]
  | cons l ls ih =>
    intro ks
    simp only [dedupKeys, ih, List.mem_cons]
    by_cases h : l ∈ ks
    · simp only [h, if_true]
      constructor
      · rintro (h1 | h1)
        · exact Or.inl (Or.inr h1)
        · exact Or.inr h1
      · rintro ((h1 | h1) | h1)
        · subst h1; exact Or.inr h
        · exact Or.inl h1
        · exact Or.inr h1
    · simp only [h, if_false, List.mem_append, List.mem_singleton]
      constructor
      · rintro (h1 | h1 | h1)
        · exact Or.inl (Or.inr h1)
        · exact Or.inr h1
        · exact Or.inl (Or.inl h1)
      · rintro ((h1 | h1) | h1)
        · exact Or.inr (Or.inr h1)
        · exact Or.inl h1
        · exact Or.inr (Or.inl h1)

theorem keys_set_some {α : Type} {m : List (Nat × α)} {l : Nat} {v w : α} (h : get? m l = some v) :
    keys (set m l w) = keys m := by
  rw [keys_set]
  have : l ∈ keys m := (get?_isSome_iff m l).1 (by simp [h])
  simp [this]

theorem keys_set_none {α : Type} {m : List (Nat × α)} {l : Nat} {w : α} (h : get? m l = none) :
    keys (set m l w) = keys m ++ [l] := by
  rw [keys_set]
  have : l ∉ keys m := (get?_eq_none_iff m l).1 h
  simp [this]

theorem get?_some_iff_mem {α : Type} (m : List (Nat × α)) (l : Nat) :
    (∃ v, get? m l = some v) ↔ l ∈ keys m := by
  rw [← get?_isSome_iff]
  cases get? m l <;> simp

theorem get?_none_iff {α : Type} (m : List (Nat × α)) (l : Nat) : get? m l = none ↔ l ∉ keys m :=
  get?_eq_none_iff m l

/-! ### keys of the per-function line map -/

theorem keys_linesToBlockLines (n : Nat) : ∀ (ls : List Nat) (m : List (Nat × List Nat)),
    keys (linesToBlockLines n ls m) = dedupKeys ls (keys m) := by
  intro ls
  induction ls with
  | nil => intro m; rfl
  | cons l ls ih =>
    intro m
    simp only [linesToBlockLines, dedupKeys, ih]
    cases h : get? m l with
    | some v =>
      have : l ∈ keys m := (get?_some_iff_mem m l).1 ⟨v, h⟩
      simp only [keys_set_some h, this, if_true]
    | none =>
      have : l ∉ keys m := (get?_none_iff m l).1 h
      simp only [keys_set_none h, this, if_false]

theorem dedupKeys_append (a b ks : List Nat) :
    dedupKeys (a ++ b) ks = dedupKeys b (dedupKeys a ks) := by
  induction a generalizing ks with
  | nil => rfl
  | cons x a ih => simp only [List.cons_append, dedupKeys, ih]

theorem keys_linesToBlockGo : ∀ (bl : List Block) (m : List (Nat × List Nat)),
    keys (linesToBlockGo bl m) = dedupKeys (bl.flatMap (·.lines)) (keys m) := by
  intro bl
  induction bl with
  | nil => intro m; rfl
  | cons b bl ih =>
    intro m
    simp only [linesToBlockGo, ih, keys_linesToBlockLines, List.flatMap_cons, dedupKeys_append]

theorem keys_linesToBlock (f : Func) :
    keys (linesToBlock f) = dedupKeys (f.blocks.flatMap (·.lines)) [] := by
  unfold linesToBlock; rw [keys_linesToBlockGo]; rfl

theorem keys_zeroLines : ∀ (ls : List Nat) (m : List (Nat × Nat)),
    keys (zeroLines ls m) = dedupKeys ls (keys m) := by
  intro ls
  induction ls with
  | nil => intro m; rfl
  | cons l ls ih =>
    intro m
    simp only [zeroLines, dedupKeys, ih]
    cases h : get? m l with
    | some v =>
      have : l ∈ keys m := (get?_some_iff_mem m l).1 ⟨v, h⟩
      simp only [this, if_true]
    | none =>
      have : l ∉ keys m := (get?_none_iff m l).1 h
      simp only [keys_set_none h, this, if_false]

theorem keys_lineCounts (f : Func) (c : Cnt) : ∀ (m : List (Nat × List Nat)) (y : Nat → Nat)
    (ls : List (Nat × Nat)), lineCounts f c m y = ok ls → keys ls = keys m := by
  intro m
  induction m with
  | nil => intro y ls h; simp only [lineCounts] at h; cases h; rfl
  | cons lb m ih =>
    obtain ⟨l, bs⟩ := lb
    intro y ls h
    have key : ∃ n y' r, lineCounts f c m y' = ok r ∧ ls = (l, n) :: r := by
      cases bs with
      | nil =>
        simp only [lineCounts] at h
        obtain ⟨⟨y1, n⟩, _, h2⟩ := bind_eq_ok.1 h
        obtain ⟨r, h3, h4⟩ := bind_eq_ok.1 h2
        cases h4; exact ⟨n, y1, r, h3, rfl⟩
      | cons b bs' =>
        cases bs' with
        | nil =>
          simp only [lineCounts] at h
          obtain ⟨r, h3, h4⟩ := bind_eq_ok.1 h
          cases h4; exact ⟨_, y, r, h3, rfl⟩
        | cons b' bs'' =>
          simp only [lineCounts] at h
          obtain ⟨⟨y1, n⟩, _, h2⟩ := bind_eq_ok.1 h
          obtain ⟨r, h3, h4⟩ := bind_eq_ok.1 h2
          cases h4; exact ⟨n, y1, r, h3, rfl⟩
    obtain ⟨n, y', r, h1, rfl⟩ := key
    simp only [keys, List.map_cons] at *
    rw [ih _ _ h1]

/-- the lines a function reports, in order of first occurrence: all lines of all its blocks -/
def funLines (f : Func) : List Nat := dedupKeys (f.blocks.flatMap (·.lines)) []

theorem keys_addLineCount {f : Func} {c : Cnt} {ex : Bool} {ls : List (Nat × Nat)}
    (h : addLineCount f c = ok (ex, ls)) : keys ls = funLines f := by
  unfold addLineCount at h
  split at h
  · obtain ⟨l, h1, h2⟩ := bind_eq_ok.1 h
    cases h2
    rw [keys_lineCounts f c _ _ _ h1, keys_linesToBlock]; rfl
  · cases h
    rw [keys_zeroLines]; rfl

theorem keys_mergeLines : ∀ (ls m t : List (Nat × Nat)), mergeLines m ls = ok t →
    keys t = dedupKeys (keys ls) (keys m) := by
  intro ls
  induction ls with
  | nil => intro m t h; simp only [mergeLines] at h; cases h; rfl
  | cons ln ls ih =>
    obtain ⟨l, n⟩ := ln
    intro m t h
    simp only [mergeLines] at h
    simp only [keys, List.map_cons, dedupKeys] at ih ⊢
    cases hg : get? m l with
    | some v =>
      rw [hg] at h; simp only at h
      split at h; · cases h
      have hm : l ∈ keys m := (get?_some_iff_mem m l).1 ⟨v, hg⟩
      simp only [keys] at hm
      rw [ih _ _ h, if_pos hm]
      have := keys_set_some (w := v + n) hg
      simp only [keys] at this; rw [this]
    | none =>
      rw [hg] at h; simp only at h
      have hm : l ∉ keys m := (get?_none_iff m l).1 hg
      simp only [keys] at hm
      rw [ih _ _ h, if_neg hm]
      have := keys_set_none (w := n) hg
      simp only [keys] at this; rw [this]

theorem keys_mergeZeroLines : ∀ (ls m : List (Nat × Nat)),
    keys (mergeZeroLines m ls) = dedupKeys (keys ls) (keys m) := by
  intro ls
  induction ls with
  | nil => intro m; rfl
  | cons ln ls ih =>
    obtain ⟨l, n⟩ := ln
    intro m
    simp only [mergeZeroLines]
    simp only [keys, List.map_cons, dedupKeys] at ih ⊢
    cases hg : get? m l with
    | some v =>
      have hm : l ∈ keys m := (get?_some_iff_mem m l).1 ⟨v, hg⟩
      simp only [keys] at hm
      rw [ih, if_pos hm]
    | none =>
      have hm : l ∉ keys m := (get?_none_iff m l).1 hg
      simp only [keys] at hm
      rw [ih, if_neg hm]
      have := keys_set_none (w := 0) hg
      simp only [keys] at this; rw [this]

/-! ### branch slots -/

/-- `branchLine` without the index checks -/
def branchLineS (f : Func) (blk : Block) : Nat :=
  if blk.lines.isEmpty then
    blk.source.foldl (fun m e => max m (f.blocks.getD (f.arcs.getD e default).src default).lineMax) 0
  else blk.lineMax

theorem branchLine_eq {f : Func} {blk : Block} {l : Nat} (h : branchLine f blk = ok l) :
    l = branchLineS f blk := by
  unfold branchLine at h
  unfold branchLineS
  split
  · rename_i he; rw [if_pos he] at h
    have gen : ∀ (es : List Nat) (m l : Nat),
        Outcome.foldl (fun (m : Nat) e =>
          match f.arcs[e]? with
          | none => crash .idxArc
          | some a =>
            match f.blocks[a.src]? with
            | none => crash .idxBlock
            | some sb => ok (max m sb.lineMax)) m es = ok l →
        l = es.foldl (fun m e => max m (f.blocks.getD (f.arcs.getD e default).src default).lineMax) m := by
      intro es
      induction es with
      | nil => intro m l h; cases h; rfl
      | cons e es ih =>
        intro m l h
        rw [foldl_cons] at h
        obtain ⟨m', h1, h2⟩ := bind_eq_ok.1 h
        cases ha : f.arcs[e]? with
        | none => rw [ha] at h1; cases h1
        | some a =>
          rw [ha] at h1; simp only at h1
          cases hb : f.blocks[a.src]? with
          | none => rw [hb] at h1; cases h1
          | some sb =>
            rw [hb] at h1; cases h1
            rw [ih _ _ h2, List.foldl_cons]
            have e1 : f.arcs.getD e default = a := by
              rw [List.getD_eq_getElem?_getD, ha]; rfl
            have e2 : f.blocks.getD a.src default = sb := by
              rw [List.getD_eq_getElem?_getD, hb]; rfl
            rw [e1, e2]
    exact gen _ _ _ h
  · rename_i he; rw [if_neg he] at h; cases h; rfl

/-- number of branch slots of a block: outgoing arcs that are not fake -/
def takenLen (f : Func) (es : List Nat) : Nat :=
  (es.filter fun e => !(f.arcs.getD e default).fake).length

theorem takenVec_length {f : Func} {cnt : Nat → Nat} {ex : Bool} : ∀ (es : List Nat) (v : List Bool),
    takenVec f cnt ex es = ok v → v.length = takenLen f es := by
  intro es
  induction es with
  | nil => intro v h; cases h; rfl
  | cons e es ih =>
    intro v h
    simp only [takenVec] at h
    cases ha : f.arcs[e]? with
    | none => rw [ha] at h; cases h
    | some a =>
      rw [ha] at h; simp only at h
      obtain ⟨r, h1, h2⟩ := bind_eq_ok.1 h
      cases h2
      have e1 : f.arcs.getD e default = a := by
        rw [List.getD_eq_getElem?_getD, ha]; rfl
      simp only [takenLen, List.filter_cons, e1]
      cases hf : a.fake
      · simp only [Bool.not_false, if_true, Bool.false_eq_true, if_false, List.length_cons]
        rw [ih _ h1]; rfl
      · simp only [Bool.not_true, Bool.false_eq_true, if_false, if_true]
        rw [ih _ h1]; rfl

/-- length view of a branch map -/
def bstruct (m : List (Nat × List Bool)) : List (Nat × Nat) := m.map fun p => (p.1, p.2.length)

def addBranchesS (f : Func) : List Block → List (Nat × Nat) → List (Nat × Nat)
  | [], m => m
  | blk :: rest, m =>
    let line := branchLineS f blk
    if line = 0 then addBranchesS f rest m
    else
      let n := takenLen f blk.destination
      if n ≤ 1 then addBranchesS f rest m
      else addBranchesS f rest (match get? m line with
        | some v => set m line (v + n)
        | none => set m line n)

theorem addBranches_struct {f : Func} {cnt : Nat → Nat} {ex : Bool} :
    ∀ (bl : List Block) (m m' : List (Nat × List Bool)),
      addBranches f cnt ex bl m = ok m' → bstruct m' = addBranchesS f bl (bstruct m) := by
  intro bl
  induction bl with
  | nil => intro m m' h; cases h; rfl
  | cons blk bl ih =>
    intro m m' h
    simp only [addBranches] at h
    simp only [addBranchesS]
    obtain ⟨line, h1, h2⟩ := bind_eq_ok.1 h
    rw [← branchLine_eq h1]
    split
    · rename_i h0; rw [if_pos h0] at h2; exact ih _ _ h2
    · rename_i h0; rw [if_neg h0] at h2
      obtain ⟨taken, h3, h4⟩ := bind_eq_ok.1 h2
      rw [← takenVec_length _ _ h3]
      split
      · rename_i h5; rw [if_pos h5] at h4; exact ih _ _ h4
      · rename_i h5; rw [if_neg h5] at h4
        rw [ih _ _ h4]
        congr 1
        unfold bstruct
        rw [get?_map]
        cases get? m line with
        | none => simp only [Option.map_none]; rw [map_set]
        | some v => simp only [Option.map_some]; rw [map_set, List.length_append]

/-! ### the structure of a whole result -/

/-- line keys, (line, number of branch slots), (function name, start line) -/
abbrev CovS := List Nat × List (Nat × Nat) × List (Name × Nat)

def fstruct (m : List (Name × Fn)) : List (Name × Nat) := m.map fun p => (p.1, p.2.start)

def covStruct (c : Cov) : CovS := (keys c.lines, bstruct c.branches, fstruct c.functions)

/-- the structure of a result: per file (in insertion order) its `covStruct` -/
def structOf (rs : List (Bytes × Cov)) : List (Bytes × CovS) := rs.map fun p => (p.1, covStruct p.2)

def finStepS (br : Bool) (S : List (Bytes × CovS)) (f : Func) : List (Bytes × CovS) :=
  let r : CovS := (get? S f.fileName).getD ([], [], [])
  set S f.fileName
    (dedupKeys (funLines f) r.1,
     if br then addBranchesS f f.blocks r.2.1 else r.2.1,
     set r.2.2 f.name f.startLine)

theorem finStep_struct {br : Bool} {res res' : List (Bytes × Cov)} {f : Func} {c : Cnt}
    (h : finStep br res (f, c) = ok res') : structOf res' = finStepS br (structOf res) f := by
  unfold finStep at h
  simp only at h
  obtain ⟨⟨ex, lines⟩, h1, h2⟩ := bind_eq_ok.1 h
  simp only at h2
  obtain ⟨ls, h3, h4⟩ := bind_eq_ok.1 h2
  obtain ⟨brs, h5, h6⟩ := bind_eq_ok.1 h4
  cases h6
  unfold finStepS structOf
  rw [map_set, get?_map]
  congr 1
  have hr : ((get? res f.fileName).map covStruct).getD ([], [], [])
      = covStruct ((get? res f.fileName).getD {}) := by
    cases get? res f.fileName <;> rfl
  rw [hr]
  simp only [covStruct]
  have hk := keys_addLineCount h1
  congr 1
  · split at h3
    · rw [keys_mergeLines _ _ _ h3, hk]
    · cases h3; rw [keys_mergeZeroLines, hk]
  congr 1
  · split at h5
    · rename_i hb; simp only [hb, if_true]; exact addBranches_struct _ _ _ h5
    · rename_i hb; cases h5; simp only [hb]; rfl
  · unfold fstruct; rw [map_set]

/-- the structure `finalize` produces for a list of function shapes -/
def finalizeS (br : Bool) (fs : List Func) : List (Bytes × CovS) := fs.foldl (finStepS br) []

theorem foldl_finStep_struct (br : Bool) : ∀ (fcs : List (Func × Cnt)) (res r : List (Bytes × Cov)),
    Outcome.foldl (finStep br) res fcs = ok r →
      structOf r = (fcs.map (·.1)).foldl (finStepS br) (structOf res) := by
  intro fcs
  induction fcs with
  | nil => intro res r h; cases h; rfl
  | cons fc fcs ih =>
    obtain ⟨f, c⟩ := fc
    intro res r h
    rw [foldl_cons] at h
    obtain ⟨res1, h1, h2⟩ := bind_eq_ok.1 h
    rw [ih _ _ h2, finStep_struct h1]; rfl

theorem finalize_struct {br : Bool} {fcs : List (Func × Cnt)} {r : List (Bytes × Cov)}
    (h : finalize br fcs = ok r) : structOf r = finalizeS br (fcs.map (·.1)) :=
  foldl_finStep_struct br fcs [] r h

/-! ### shapes after `stop` -/

theorem countOnTree_shape {version : Nat} {f f' : Func} {c c' : Cnt}
    (h : countOnTree version f c = ok (f', c')) : f' = addVirtualArc version f := by
  unfold countOnTree at h
  split at h
  · obtain ⟨s, _, h2⟩ := bind_eq_ok.1 h
    obtain ⟨blk, _, h3⟩ := bind_eq_ok.1 h2
    cases h3; rfl
  · rename_i hn; cases h; unfold addVirtualArc; rw [if_neg hn]

theorem stopGo_shape {version : Nat} {st : State} : ∀ (fs : List Func) (i : Nat)
    (r : List (Func × Cnt)), stopGo version st fs i = ok r →
      r.map (·.1) = fs.map (addVirtualArc version) := by
  intro fs
  induction fs with
  | nil => intro i r h; cases h; rfl
  | cons f fs ih =>
    intro i r h
    simp only [stopGo] at h
    obtain ⟨⟨f', c'⟩, h1, h2⟩ := bind_eq_ok.1 h
    obtain ⟨r', h3, h4⟩ := bind_eq_ok.1 h2
    cases h4
    simp only [List.map_cons, ih _ _ h3, countOnTree_shape h1]

/-- the structure of every result computed from the notes `g` -/
def gcnoStructure (g : Notes) (br : Bool) : List (Bytes × CovS) :=
  finalizeS br (g.funcs.map (addVirtualArc g.version))

theorem compute_struct {g : Notes} {ds : List Gcda} {br : Bool} {r : List (Bytes × Cov)}
    (h : compute g ds br = ok r) : structOf r = gcnoStructure g br := by
  unfold compute at h
  obtain ⟨st, _, h2⟩ := bind_eq_ok.1 h
  obtain ⟨fs, h3, h4⟩ := bind_eq_ok.1 h2
  rw [finalize_struct h4]
  unfold gcnoStructure
  unfold stop at h3
  rw [stopGo_shape _ _ _ h3]

end Grcov.Gcno
