/-
C14 for the gcno/gcda reader: `count_on_tree` / `propagate_counts` on a well-formed shape – ANY
well-formed shape, no spanning-tree hypothesis: a malformed file gives arbitrary tree flags – crash
only by u64 overflow, and the depth fuel `propFuel` is never exhausted (every level of the
recursion marks a block that was not yet visited).
-/
import GrcovModel.Lemmas.GcnoSafeRec
namespace Grcov.Gcno
open Outcome

/-! ## counting unvisited blocks -/

/-- number of blocks below `n` that are not in `vis` -/
def unvis (n : Nat) (vis : List Nat) : Nat := (List.range n).countP fun x => decide (x ∉ vis)

theorem unvis_le (n : Nat) (vis : List Nat) : unvis n vis ≤ n := by
  unfold unvis
  exact Nat.le_trans List.countP_le_length (by simp)

theorem countP_le_of_imp {α : Type} (p q : α → Bool) : ∀ (l : List α), (∀ x ∈ l, p x = true → q x = true) →
    l.countP p ≤ l.countP q := by
  intro l
  induction l with
  | nil => intro _; simp
  | cons a l ih =>
    intro h
    have := ih fun x hx => h x (List.mem_cons_of_mem _ hx)
    have ha := h a (by simp)
    have h1 : (if p a = true then 1 else 0) ≤ (if q a = true then 1 else 0) := by
      split <;> split <;> simp_all
    simp only [List.countP_cons]
    omega

theorem countP_lt_of_imp {α : Type} (p q : α → Bool) : ∀ (l : List α), (∀ x ∈ l, p x = true → q x = true) →
    (∃ b ∈ l, q b = true ∧ ¬ p b = true) → l.countP p < l.countP q := by
  intro l
  induction l with
  | nil => intro _ ⟨b, hb, _⟩; simp at hb
  | cons a l ih =>
    intro h ⟨b, hb, hq, hp⟩
    have hl : ∀ x ∈ l, p x = true → q x = true := fun x hx => h x (List.mem_cons_of_mem _ hx)
    simp only [List.countP_cons]
    rcases List.mem_cons.1 hb with rfl | hb
    · have := countP_le_of_imp p q l hl
      have h1 : (if p b = true then 1 else 0) = 0 := by simp [hp]
      have h2 : (if q b = true then 1 else 0) = 1 := by simp [hq]
      omega
    · have := ih hl ⟨b, hb, hq, hp⟩
      have ha := h a (by simp)
      have h1 : (if p a = true then 1 else 0) ≤ (if q a = true then 1 else 0) := by
        split <;> split <;> simp_all
      omega

theorem unvis_mono {n : Nat} {v v' : List Nat} (h : ∀ x ∈ v, x ∈ v') : unvis n v' ≤ unvis n v := by
  unfold unvis
  apply countP_le_of_imp
  intro x _ hx
  simp only [decide_eq_true_eq] at hx ⊢
  exact fun hv => hx (h x hv)

theorem unvis_cons {n b : Nat} {vis : List Nat} (hb : b < n) (hv : b ∉ vis) :
    unvis n (b :: vis) < unvis n vis := by
  unfold unvis
  apply countP_lt_of_imp
  · intro x _ hx
    simp only [decide_eq_true_eq, List.mem_cons, not_or] at hx ⊢
    exact hx.2
  · exact ⟨b, by simp [hb], by simp [hv], by simp⟩

/-! ## `propagate_counts` -/

theorem sumArcs_sat {C : Site → Prop} {D : Prop} (hov : C .overflow) {Inv : PS → Prop}
    {step : PS → Nat → Outcome (PS × Nat)} : ∀ (es : List Nat) (s : PS) (acc : Nat), Inv s →
    (∀ s e, e ∈ es → Inv s → Sat C D (step s e) fun r => Inv r.1) →
    Sat C D (sumArcs step es s acc) fun r => Inv r.1 := by
  intro es
  induction es with
  | nil => intro s acc hs _; exact hs
  | cons e es ih =>
    intro s acc hs hstep
    simp only [sumArcs]
    apply Sat.bind
    refine (hstep s e (by simp) hs).mono fun ⟨s', x⟩ h' => ?_
    simp only
    split
    · exact hov
    · exact ih s' _ h' fun s e he hs => hstep s e (List.mem_cons_of_mem _ he) hs

/-- **`propagate_counts` on any well-formed shape**: only the overflow crash, never out of fuel
when the fuel exceeds the number of unvisited blocks; the visited set only grows -/
theorem prop_sat {f : Func} (hf : f.WF) : ∀ (fuel : Nat) (s : PS) (b : Nat) (pred : Option Nat),
    b < f.blocks.length → unvis f.blocks.length s.vis < fuel →
    Sat OvOnly False (prop f fuel s b pred) fun r => ∀ x ∈ s.vis, x ∈ r.1.vis := by
  intro fuel
  induction fuel with
  | zero => intro s b pred _ h; omega
  | succ fuel ih =>
    intro s b pred hb hfuel
    simp only [prop]
    split
    · simp
    · rename_i hvis
      rw [List.getElem?_eq_getElem hb]
      simp only
      have hblk := hf.ids _ (List.getElem_mem hb)
      have hu : unvis f.blocks.length (b :: s.vis) < fuel := by
        have := unvis_cons hb hvis; omega
      have hstep : ∀ (useSrc : Bool) (s' : PS) (e : Nat), e < f.arcs.length →
          (∀ x ∈ b :: s.vis, x ∈ s'.vis) →
          Sat OvOnly False
            (arcStep f.arcs (fun s w e => prop f fuel s w (some e)) useSrc pred s' e)
            fun r => ∀ x ∈ b :: s.vis, x ∈ r.1.vis := by
        intro useSrc s' e he hinv
        unfold arcStep
        split
        · exact hinv
        · rw [List.getElem?_eq_getElem he]
          simp only
          split
          · have ha := hf.arcs _ (List.getElem_mem he)
            refine (ih s' _ (some e) (by split; exact ha.1; exact ha.2)
              (Nat.lt_of_le_of_lt (unvis_mono hinv) hu)).mono ?_
            intro r hr x hx; exact hr x (hinv x hx)
          · exact hinv
      apply Sat.bind
      refine (sumArcs_sat (C := OvOnly) (D := False) rfl (Inv := fun s' : PS => ∀ x ∈ b :: s.vis, x ∈ s'.vis) _ _ 0
        (fun x hx => hx) (fun s' e he hinv => hstep true s' e (hblk.1 e he) hinv)).mono ?_
      intro ⟨s2, pos⟩ h2
      apply Sat.bind
      refine (sumArcs_sat (C := OvOnly) (D := False) rfl (Inv := fun s' : PS => ∀ x ∈ b :: s.vis, x ∈ s'.vis) _ _ 0
        h2 (fun s' e he hinv => hstep false s' e (hblk.2 e he) hinv)).mono ?_
      intro ⟨s3, neg⟩ h3
      simp only
      split <;> (simp only [sat_ok]; intro x hx; exact h3 x (List.mem_cons_of_mem _ hx))

theorem propAll_sat {f : Func} (hf : f.WF) {fuel : Nat} (hfuel : f.blocks.length < fuel) :
    ∀ (bs : List Nat) (s : PS), (∀ b ∈ bs, b < f.blocks.length) →
    Sat OvOnly False (propAll f fuel bs s) fun _ => True := by
  intro bs
  induction bs with
  | nil => intro s _; trivial
  | cons b bs ih =>
    intro s h
    simp only [propAll]
    apply Sat.bind
    refine (prop_sat hf fuel s b none (h b (by simp))
      (Nat.lt_of_le_of_lt (unvis_le _ _) hfuel)).mono fun ⟨s', _⟩ _ => ?_
    exact ih s' fun b hb => h b (List.mem_cons_of_mem _ hb)

theorem addTreeCounts_sat (n : Nat) (cnt : Nat → Nat) : ∀ (L : List (Nat × Arc)) (blk : Nat → Nat),
    (∀ p ∈ L, p.2.src < n) → Sat OvOnly False (addTreeCounts n cnt L blk) fun _ => True := by
  intro L
  induction L with
  | nil => intro blk _; trivial
  | cons p L ih =>
    intro blk h
    obtain ⟨i, a⟩ := p
    have hL : ∀ p ∈ L, p.2.src < n := fun p hp => h p (List.mem_cons_of_mem _ hp)
    simp only [addTreeCounts]
    split
    · split
      · have := h (i, a) (by simp); simp only at this; omega
      · split
        · rfl
        · exact ih _ hL
    · exact ih _ hL

/-- **`count_on_tree` on any well-formed shape**: only the overflow crash, `propFuel` suffices; the
function it returns (with the virtual arc) is well-formed again -/
theorem countOnTree_sat {f : Func} (hf : f.WF) (version : Nat) (c : Cnt) :
    Sat OvOnly False (countOnTree version f c) fun r => r.1.WF := by
  unfold countOnTree
  split
  · have hf' := addVirtualArc_WF hf version
    simp only
    apply Sat.bind
    refine (propAll_sat hf' (by unfold propFuel; omega) _ _ (fun b hb => List.mem_range.1 hb)).mono
      fun s _ => ?_
    apply Sat.bind
    refine (addTreeCounts_sat _ _ _ _ ?_).mono fun blk _ => hf'
    intro p hp
    have := mem_indexed _ _ _ (List.mem_reverse.1 hp)
    exact (hf'.arcs _ (List.mem_of_getElem? this.2)).1
  · exact hf

theorem stopGo_sat (version : Nat) (st : State) : ∀ (fs : List Func) (i : Nat), (∀ f ∈ fs, f.WF) →
    Sat OvOnly False (stopGo version st fs i) fun r => ∀ fc ∈ r, fc.1.WF := by
  intro fs
  induction fs with
  | nil => intro i _; simp [stopGo]
  | cons f fs ih =>
    intro i h
    simp only [stopGo]
    apply Sat.bind
    refine (countOnTree_sat (h f (by simp)) version (st i)).mono fun fc hfc => ?_
    apply Sat.bind
    refine (ih (i + 1) fun f hf => h f (List.mem_cons_of_mem _ hf)).mono fun r hr => ?_
    simp only [sat_ok]
    intro x hx
    rcases List.mem_cons.1 hx with rfl | hx
    · exact hfc
    · exact hr x hx

/-- **`stop` on any well-formed notes**: only the overflow crash, never out of fuel -/
theorem stop_sat {g : Notes} (hg : g.WF) (st : State) :
    Sat OvOnly False (stop g st) fun r => ∀ fc ∈ r, fc.1.WF :=
  stopGo_sat _ _ _ _ hg

end Grcov.Gcno
