/-
C14, part TextCost – lemmas about the cost view of the two gcov readers (`Gcov/Cost.lean`).
-/
import GrcovModel.Gcov.Cost
import GrcovModel.Lemmas.TextCostBase
import GrcovModel.Lemmas.Gcov
import GrcovModel.Lemmas.TextCostLcov
namespace Grcov.Gcov
open Grcov AList Grcov.TextCost Grcov.Size

namespace Text

/-! ### `procStripped` = classify the line, then perform the operation -/

theorem procStripped_eq (a : Acc) (l : Bytes) : procStripped a l = applyEv a (classify l) := by
  unfold procStripped classify
  repeat' split
  all_goals first | rfl | (simp_all [applyEv, invalidRecord, parseErr]; done)

theorem splitLines_flatten (bs : Bytes) : (splitLines bs).flatten = bs := by
  induction bs with
  | nil => rfl
  | cons b bs ih =>
    unfold splitLines
    split
    · next h => simp [ih, h]
    · split
      · next h => rw [h] at ih; simp at ih; simp [ih]
      · next l ls h => rw [h] at ih; simp at ih ⊢; exact ih

theorem splitLines_length_le (bs : Bytes) : (splitLines bs).length ≤ lfs bs + 1 := by
  induction bs with
  | nil => simp [splitLines]
  | cons b bs ih =>
    unfold splitLines lfs
    split
    · next h => subst h; simp [lfs] at ih ⊢; omega
    · next h =>
      have : (b == 10) = false := by simp [h]
      split
      · simp
      · next l ls h2 => rw [h2] at ih; simp [lfs, List.filter_cons, this] at ih ⊢; omega

def sumLens (ls : List Bytes) : Nat := (ls.map List.length).sum

theorem sumLens_splitLines (bs : Bytes) : sumLens (splitLines bs) = bs.length := by
  have := congrArg List.length (splitLines_flatten bs)
  rw [List.length_flatten] at this
  exact this


/-! ### names are pieces of the line -/

def optLen : Option Bytes → Nat
  | some t => t.length + 1
  | none => 0

theorem splitOnce_length (sep : Nat) (l h : Bytes) (t : Option Bytes) (hs : splitOnce sep l = (h, t)) :
    h.length + optLen t = l.length := by
  induction l generalizing h t with
  | nil => simp [splitOnce] at hs; obtain ⟨h1, h2⟩ := hs; subst h1; subst h2; rfl
  | cons b bs ih =>
    unfold splitOnce at hs
    by_cases hb : b = sep
    · simp only [hb, if_true, Prod.mk.injEq] at hs
      obtain ⟨h1, h2⟩ := hs; subst h1; subst h2; simp [optLen]
    · simp only [hb, if_false] at hs
      cases hs2 : splitOnce sep bs with
      | mk h' t' =>
        rw [hs2] at hs
        simp only [Prod.mk.injEq] at hs
        obtain ⟨h1, h2⟩ := hs; subst h1; subst h2
        have := ih h' t' hs2
        simp only [List.length_cons]; omega

theorem splitOnce_some_le {sep : Nat} {l h t : Bytes} (hs : splitOnce sep l = (h, some t)) :
    t.length ≤ l.length ∧ h.length ≤ l.length := by
  have := splitOnce_length sep l h (some t) hs
  simp [optLen] at this; omega

theorem stripEol_length_le (l : Bytes) : (stripEol l).length ≤ l.length := by
  induction l with
  | nil => simp [stripEol]
  | cons b bs ih =>
    unfold stripEol
    split
    · split <;> simp
    · next r hr => simp; omega

def Ev.nameLen : Ev → Nat
  | .file nm => nm.length
  | .function _ _ nm => nm.length
  | _ => 0

theorem classify_nameLen (l : Bytes) : (classify l).nameLen ≤ l.length := by
  unfold classify
  split
  · simp [Ev.nameLen]
  · next key value hkv =>
    have h1 := (splitOnce_some_le hkv).1
    split
    · simpa [Ev.nameLen] using h1
    · split
      · cases hs : splitOnce 44 value with
        | mk t1 r1 =>
          simp only
          split
          · simp [Ev.nameLen]
          · split
            · simp [Ev.nameLen]
            · next r1' =>
              have h2 := (splitOnce_some_le hs).1
              cases hs2 : splitOnce 44 r1' with
              | mk t2 nm =>
                cases nm with
                | none => simp [Ev.nameLen]
                | some nm =>
                  have h3 := (splitOnce_some_le hs2).1
                  simp [Ev.nameLen]; omega
      · split
        · repeat' split
          all_goals simp [Ev.nameLen]
        · split
          · repeat' split
            all_goals simp [Ev.nameLen]
          · simp [Ev.nameLen]

theorem evCost_copied (e : Ev) : (evCost e).copied = e.nameLen := by
  cases e <;> rfl

theorem resEntries_append (rs : List (Bytes × Cov)) (r : Bytes × Cov) :
    resEntries (rs ++ [r]) = resEntries rs + covEntries r.2 := by
  simp [resEntries]
theorem resSlots_append (rs : List (Bytes × Cov)) (r : Bytes × Cov) :
    resSlots (rs ++ [r]) = resSlots rs + covSlots r.2 := by
  simp [resSlots]
def keyLen {α : Type} (m : List (Bytes × α)) : Nat := wsum (fun kv => kv.1.length) m
theorem resNameBytes_append (rs : List (Bytes × Cov)) (r : Bytes × Cov) :
    resNameBytes (rs ++ [r]) = resNameBytes rs + (r.1.length + keyLen r.2.functions) := by
  simp [resNameBytes, keyLen, wsum]

/-- entries, plus one while a `file:` record is open (its section may still be pushed) -/
def accPhi (a : Acc) : Nat := accEntries a + (if a.curFile.isSome then 1 else 0)

theorem pushBranch_length_le (m : List (Nat × List Bool)) (l : Nat) (t : Bool) :
    (pushBranch m l t).length ≤ m.length + 1 := by
  unfold pushBranch
  split <;> exact length_set_le _ _ _

theorem pushBranch_slots (m : List (Nat × List Bool)) (l : Nat) (t : Bool) :
    sumLen (pushBranch m l t) = sumLen m + 1 := by
  unfold pushBranch
  cases hg : get? m l with
  | none =>
    have := wsum_set (fun kv : Nat × List Bool => kv.2.length) m l [t]
    simp only [hg] at this
    show wsum _ _ = wsum _ _ + 1
    simp at this ⊢; omega
  | some v =>
    have := wsum_set (fun kv : Nat × List Bool => kv.2.length) m l (v ++ [t])
    simp only [hg] at this
    show wsum _ _ = wsum _ _ + 1
    simp at this ⊢; omega

theorem applyEv_phi (a a' : Acc) (ev : Ev) (h : applyEv a ev = .run a') : accPhi a' ≤ accPhi a + 1 := by
  cases ev with
  | nop => simp [applyEv] at h; subst h; omega
  | reject k => simp [applyEv] at h
  | file nm =>
    simp only [applyEv, St.run.injEq] at h; subst h
    unfold onFile accPhi accEntries
    cases hf : a.curFile with
    | none => simp [covEntries]
    | some f =>
      by_cases hl : a.cur.lines.isEmpty = true
      · simp [hl, covEntries]; omega
      · simp [hl, covEntries, resEntries_append]; omega
  | function st ex nm =>
    simp only [applyEv, St.run.injEq] at h; subst h
    have := length_set_le a.cur.functions nm ⟨st, ex⟩
    cases hcf : a.curFile <;> simp [onFunction, accPhi, accEntries, covEntries, hcf] <;> omega
  | lcount l c =>
    simp only [applyEv, St.run.injEq] at h; subst h
    have := length_set_le a.cur.lines l c
    cases hcf : a.curFile <;> simp [onLcount, accPhi, accEntries, covEntries, hcf] <;> omega
  | branch l t =>
    simp only [applyEv, St.run.injEq] at h; subst h
    have := pushBranch_length_le a.cur.branches l t
    cases hcf : a.curFile <;> simp [onBranch, accPhi, accEntries, covEntries, hcf] <;> omega

theorem applyEv_slots (a a' : Acc) (ev : Ev) (h : applyEv a ev = .run a') :
    accSlots a' ≤ accSlots a + (evCost ev).pushed := by
  cases ev with
  | nop => simp [applyEv] at h; subst h; simp [evCost]
  | reject k => simp [applyEv] at h
  | file nm =>
    simp only [applyEv, St.run.injEq] at h; subst h
    unfold onFile accSlots
    cases hf : a.curFile with
    | none => simp [covSlots, sumLen, evCost]
    | some f =>
      by_cases hl : a.cur.lines.isEmpty = true
      · simp [hl, covSlots, sumLen, evCost]
      · simp [hl, covSlots, sumLen, evCost, resSlots_append]
  | function st ex nm =>
    simp only [applyEv, St.run.injEq] at h; subst h
    simp [onFunction, accSlots, covSlots, evCost]
  | lcount l c =>
    simp only [applyEv, St.run.injEq] at h; subst h
    simp [onLcount, accSlots, covSlots, evCost]
  | branch l t =>
    simp only [applyEv, St.run.injEq] at h; subst h
    simp only [onBranch, accSlots, covSlots, evCost, pushBranch_slots]; omega

def accNameBytes (a : Acc) : Nat :=
  resNameBytes a.results + (a.curFile.map List.length).getD 0 + keyLen a.cur.functions

theorem applyEv_names (a a' : Acc) (ev : Ev) (h : applyEv a ev = .run a') :
    accNameBytes a' ≤ accNameBytes a + ev.nameLen := by
  cases ev with
  | nop => simp [applyEv] at h; subst h; omega
  | reject k => simp [applyEv] at h
  | file nm =>
    simp only [applyEv, St.run.injEq] at h; subst h
    unfold onFile accNameBytes
    cases hf : a.curFile with
    | none => simp [keyLen, Ev.nameLen]
    | some f =>
      by_cases hl : a.cur.lines.isEmpty = true
      · simp [hl, keyLen, Ev.nameLen]; omega
      · simp [hl, keyLen, Ev.nameLen, resNameBytes_append]; omega
  | function st ex nm =>
    simp only [applyEv, St.run.injEq] at h; subst h
    have := wsum_set_le (fun kv : Bytes × Fn => kv.1.length) a.cur.functions nm ⟨st, ex⟩
    simp only [onFunction, accNameBytes, keyLen, Ev.nameLen] at *; omega
  | lcount l c =>
    simp only [applyEv, St.run.injEq] at h; subst h
    simp [onLcount, accNameBytes]
  | branch l t =>
    simp only [applyEv, St.run.injEq] at h; subst h
    simp [onBranch, accNameBytes]

/-! ### the loop -/

theorem runLines_halt (o : Out) (ls : List Bytes) : runLines (.halt o) ls = .halt o := by
  induction ls with
  | nil => rfl
  | cons l ls ih => simpa [runLines, stepLine] using ih

theorem runLines_cons (a : Acc) (l : Bytes) (ls : List Bytes) :
    runLines (.run a) (l :: ls) = runLines (applyEv a (classify (Lcov.utf8Lossy (stripEol l)))) ls := by
  simp [runLines, stepLine, procLine, procStripped_eq]

theorem costLines_cons (a : Acc) (l : Bytes) (ls : List Bytes) :
    costLines (.run a) (l :: ls)
      = (lineCost l).add (costLines (applyEv a (classify (Lcov.utf8Lossy (stripEol l)))) ls) := by
  simp [costLines, procLine, procStripped_eq]

theorem costLines_halt (o : Out) (ls : List Bytes) : costLines (.halt o) ls = {} := by
  cases ls <;> rfl

/-- the machine only halts with an error -/
theorem applyEv_halt {a : Acc} {ev : Ev} {o : Out} (h : applyEv a ev = .halt o) : ∃ k, o = .err k := by
  cases ev <;> simp [applyEv] at h
  exact ⟨_, h.symm⟩

theorem runLines_halt_err (a : Acc) (ls : List Bytes) (o : Out) (h : runLines (.run a) ls = .halt o) :
    ∃ k, o = .err k := by
  induction ls generalizing a with
  | nil => simp [runLines] at h
  | cons l ls ih =>
    rw [runLines_cons] at h
    cases hs : applyEv a (classify (Lcov.utf8Lossy (stripEol l))) with
    | halt o' =>
      rw [hs, runLines_halt] at h
      cases h; exact applyEv_halt hs
    | run a1 => rw [hs] at h; exact ih a1 h

theorem lineCost_bounds (raw : Bytes) :
    (lineCost raw).mapOps ≤ 1 ∧ (lineCost raw).pushed ≤ 1 ∧ (lineCost raw).copied ≤ 3 * raw.length ∧
    (lineCost raw).lines = 1 ∧ (lineCost raw).reads = raw.length := by
  have h1 := classify_nameLen (Lcov.utf8Lossy (stripEol raw))
  have h2 := stripEol_length_le raw
  have h4 := Lcov.utf8Lossy_length (stripEol raw)
  have h3 := evCost_copied (classify (Lcov.utf8Lossy (stripEol raw)))
  unfold lineCost
  cases hc : classify (Lcov.utf8Lossy (stripEol raw)) <;>
    simp [evCost, Cost.add, hc, Ev.nameLen] at h1 h3 ⊢ <;> omega

/-- per run: at most one map operation and one push per line, names are copied out of the bytes
read, and no line is read twice -/
theorem costLines_bounds (s : St) (ls : List Bytes) :
    (costLines s ls).mapOps ≤ (costLines s ls).lines ∧ (costLines s ls).pushed ≤ (costLines s ls).lines ∧
    (costLines s ls).copied ≤ 3 * (costLines s ls).reads ∧ (costLines s ls).lines ≤ ls.length ∧
    (costLines s ls).reads ≤ sumLens ls := by
  induction ls generalizing s with
  | nil => cases s <;> simp [costLines, sumLens]
  | cons l ls ih =>
    cases s with
    | halt o => simp [costLines]
    | run a =>
      rw [costLines_cons]
      have h1 := lineCost_bounds l
      have h2 := ih (applyEv a (classify (Lcov.utf8Lossy (stripEol l))))
      simp only [Cost.add, sumLens, List.map_cons, List.sum_cons, List.length_cons] at h2 ⊢
      omega

/-- a run that did not stop early read every line -/
theorem costLines_full (a a' : Acc) (ls : List Bytes) (h : runLines (.run a) ls = .run a') :
    (costLines (.run a) ls).lines = ls.length ∧ (costLines (.run a) ls).reads = sumLens ls := by
  induction ls generalizing a with
  | nil => simp [costLines, sumLens]
  | cons l ls ih =>
    rw [runLines_cons] at h
    rw [costLines_cons]
    cases hs : applyEv a (classify (Lcov.utf8Lossy (stripEol l))) with
    | halt o => rw [hs, runLines_halt] at h; cases h
    | run a1 =>
      rw [hs] at h
      have h1 := lineCost_bounds l
      have h2 := ih a1 h
      simp only [Cost.add, sumLens, List.map_cons, List.sum_cons, List.length_cons] at h2 ⊢
      omega

theorem runLines_run (a a' : Acc) (ls : List Bytes) (h : runLines (.run a) ls = .run a') :
    accPhi a' ≤ accPhi a + ls.length ∧
    accSlots a' ≤ accSlots a + (costLines (.run a) ls).pushed ∧
    accNameBytes a' ≤ accNameBytes a + (costLines (.run a) ls).copied := by
  induction ls generalizing a with
  | nil => simp [runLines] at h; subst h; simp [costLines]
  | cons l ls ih =>
    rw [runLines_cons] at h
    rw [costLines_cons]
    cases hs : applyEv a (classify (Lcov.utf8Lossy (stripEol l))) with
    | halt o => rw [hs, runLines_halt] at h; cases h
    | run a1 =>
      rw [hs] at h
      have h1 := applyEv_phi a a1 _ hs
      have h2 := applyEv_slots a a1 _ hs
      have h3 := applyEv_names a a1 _ hs
      have h4 := ih a1 h
      have h5 := evCost_copied (classify (Lcov.utf8Lossy (stripEol l)))
      simp only [Cost.add, lineCost, List.length_cons] at h4 ⊢
      omega

/-- what a successful `parse_gcov` returns, in terms of the final accumulator -/
theorem parse_ok {bs : Bytes} {rs : List (Bytes × Cov)} (h : parse bs = .ok rs) :
    ∃ a', runLines (.run {}) (splitLines bs) = .run a' ∧
      rs.length + resEntries rs ≤ accPhi a' ∧ resSlots rs ≤ accSlots a' ∧
      resNameBytes rs ≤ accNameBytes a' := by
  unfold parse runBytes at h
  cases hr : runLines (.run {}) (splitLines bs) with
  | halt o =>
    obtain ⟨k, hk⟩ := runLines_halt_err _ _ _ hr
    rw [hr, hk] at h; simp [finish] at h
  | run a' =>
    refine ⟨a', rfl, ?_⟩
    rw [hr] at h
    simp only [finish] at h
    split at h
    · simp only [Out.ok.injEq] at h; subst h
      simp only [accPhi, accEntries, accSlots, accNameBytes]
      refine ⟨by omega, by omega, by omega⟩
    · split at h
      · next f hf =>
        simp only [Out.ok.injEq] at h; subst h
        simp only [accPhi, accEntries, accSlots, accNameBytes, hf, resEntries_append, resSlots_append,
          resNameBytes_append, List.length_append, List.length_singleton]
        simp
        omega
      · cases h

end Text

namespace Json

/-! ### generic: what a decoded value can weigh -/

theorem mapOpt_some_cons {α β : Type} {f : α → Option β} {x : α} {xs : List α} {ys : List β}
    (h : mapOpt f (x :: xs) = some ys) :
    ∃ y ys', ys = y :: ys' ∧ f x = some y ∧ mapOpt f xs = some ys' := by
  unfold mapOpt at h
  cases hx : f x with
  | none => simp [hx] at h
  | some y =>
    cases hxs : mapOpt f xs with
    | none => simp [hx, hxs] at h
    | some ys' => simp [hx, hxs] at h; exact ⟨y, ys', h.symm, rfl, rfl⟩

theorem mapOpt_weight {α β : Type} (f : α → Option β) (sz : α → Nat) (w : β → Nat)
    (hw : ∀ x y, f x = some y → w y ≤ sz x) (xs : List α) (ys : List β)
    (h : mapOpt f xs = some ys) : (ys.map w).sum ≤ (xs.map sz).sum := by
  induction xs generalizing ys with
  | nil => simp [mapOpt] at h; subst h; simp
  | cons x xs ih =>
    obtain ⟨y, ys', rfl, h1, h2⟩ := mapOpt_some_cons h
    have := hw x y h1
    have := ih ys' h2
    simp; omega

theorem mapOpt_all {α β : Type} (f : α → Option β) (P : β → Prop)
    (hp : ∀ x y, f x = some y → P y) (xs : List α) (ys : List β)
    (h : mapOpt f xs = some ys) : ∀ y ∈ ys, P y := by
  induction xs generalizing ys with
  | nil => simp [mapOpt] at h; subst h; simp
  | cons x xs ih =>
    obtain ⟨y, ys', rfl, h1, h2⟩ := mapOpt_some_cons h
    intro z hz
    simp only [List.mem_cons] at hz
    rcases hz with hz | hz
    · subst hz; exact hp x _ h1
    · exact ih ys' h2 z hz

theorem mapOpt_length {α β : Type} (f : α → Option β) (xs : List α) (ys : List β)
    (h : mapOpt f xs = some ys) : ys.length = xs.length := by
  induction xs generalizing ys with
  | nil => simp [mapOpt] at h; subst h; simp
  | cons x xs ih =>
    obtain ⟨y, ys', rfl, h1, h2⟩ := mapOpt_some_cons h
    simp [ih ys' h2]

theorem sizeL_eq (xs : List Gcov.Json) : sizeL xs = (xs.map size).sum := by
  induction xs with
  | nil => simp [sizeL]
  | cons x xs ih => simp [sizeL, ih]

theorem size_pos (j : Gcov.Json) : 1 ≤ size j := by
  cases j <;> simp [size] <;> omega

theorem length_le_sizeL (xs : List Gcov.Json) : xs.length ≤ sizeL xs := by
  induction xs with
  | nil => simp [sizeL]
  | cons x xs ih => have := size_pos x; simp [sizeL]; omega

theorem asVec_weight {β : Type} (f : Gcov.Json → Option β) (w : β → Nat)
    (hw : ∀ x y, f x = some y → w y ≤ size x) (j : Gcov.Json) (ys : List β)
    (h : asVec f j = some ys) : (ys.map w).sum + 1 ≤ size j := by
  cases j <;> simp [asVec] at h
  rename_i xs
  have := mapOpt_weight f size w hw xs ys h
  simp [size, sizeL_eq]; omega

theorem asVec_all {β : Type} (f : Gcov.Json → Option β) (P : β → Prop)
    (hp : ∀ x y, f x = some y → P y) (j : Gcov.Json) (ys : List β)
    (h : asVec f j = some ys) : ∀ y ∈ ys, P y := by
  cases j <;> simp [asVec] at h
  exact mapOpt_all f P hp _ ys h

/-- weight of the members with key `k` -/
def entW (kvs : List (Bytes × Gcov.Json)) (k : Bytes) : Nat := sizeM (entries kvs k)

theorem req_some {β : Type} {kvs : List (Bytes × Gcov.Json)} {k : Bytes} {dec : Gcov.Json → Option β}
    {v : β} (h : req kvs k dec = some v) : ∃ j, dec j = some v ∧ size j ≤ entW kvs k := by
  unfold req at h
  unfold entW
  split at h
  · next kv heq => rw [heq]; exact ⟨kv.2, h, by obtain ⟨k', j⟩ := kv; simp [sizeM]⟩
  · cases h

theorem entW_cons (k' : Bytes) (v : Gcov.Json) (r : List (Bytes × Gcov.Json)) (k : Bytes) :
    entW ((k', v) :: r) k = (if k' = k then k'.length + size v else 0) + entW r k := by
  unfold entW entries
  by_cases h : k' = k
  · simp [List.filter_cons, h, sizeM]
  · have : (k' == k) = false := by simp [h]
    simp [List.filter_cons, h, this]

theorem entW_le (kvs : List (Bytes × Gcov.Json)) (k : Bytes) : entW kvs k ≤ sizeM kvs := by
  induction kvs with
  | nil => simp [entW, entries, sizeM]
  | cons kv r ih =>
    obtain ⟨k', v⟩ := kv
    rw [entW_cons]; simp only [sizeM]
    split <;> omega

theorem entW_le2 (kvs : List (Bytes × Gcov.Json)) (k1 k2 : Bytes) (h12 : k1 ≠ k2) :
    entW kvs k1 + entW kvs k2 ≤ sizeM kvs := by
  induction kvs with
  | nil => simp [entW, entries, sizeM]
  | cons kv r ih =>
    obtain ⟨k', v⟩ := kv
    rw [entW_cons, entW_cons]; simp only [sizeM]
    by_cases h1 : k' = k1
    · subst h1
      rw [if_pos rfl, if_neg h12]; omega
    · rw [if_neg h1]
      split <;> omega

theorem entW_le3 (kvs : List (Bytes × Gcov.Json)) (k1 k2 k3 : Bytes) (h12 : k1 ≠ k2) (h13 : k1 ≠ k3)
    (h23 : k2 ≠ k3) : entW kvs k1 + entW kvs k2 + entW kvs k3 ≤ sizeM kvs := by
  induction kvs with
  | nil => simp [entW, entries, sizeM]
  | cons kv r ih =>
    obtain ⟨k', v⟩ := kv
    rw [entW_cons, entW_cons, entW_cons]; simp only [sizeM]
    by_cases h1 : k' = k1
    · subst h1
      rw [if_pos rfl, if_neg h12, if_neg h13]; omega
    · rw [if_neg h1]
      by_cases h2 : k' = k2
      · subst h2
        rw [if_pos rfl, if_neg h23]; omega
      · rw [if_neg h2]
        split <;> omega


theorem asU32_le {j : Gcov.Json} {n : Nat} (h : asU32 j = some n) : n ≤ U32MAX := by
  unfold asU32 at h
  split at h
  · split at h <;> simp at h; omega
  · cases h

theorem asStr_size {j : Gcov.Json} {s : Bytes} (h : asStr j = some s) : 1 + s.length = size j := by
  cases j <;> simp [asStr] at h
  subst h; simp [size]

def LineOK (l : LineJ) : Prop := l.lineNumber ≤ U32MAX ∧ l.count ≤ U64MAX
def FnOK (f : FnJ) : Prop := f.startLine ≤ U32MAX

theorem decBr_weight (j : Gcov.Json) (c : Nat) (_h : decBr j = some c) : (fun _ : Nat => 1) c ≤ size j :=
  size_pos j

theorem brs_weight {j : Gcov.Json} {bs : List Nat} (h : asVec decBr j = some bs) :
    bs.length + 1 ≤ size j := by
  have := asVec_weight decBr (fun _ => 1) decBr_weight j bs h
  have e : (bs.map fun _ => 1).sum = bs.length := by
    clear this h; induction bs with
    | nil => rfl
    | cons b bs ih => simp [ih]; omega
  omega

theorem decLine_weight (j : Gcov.Json) (l : LineJ) (h : decLine j = some l) :
    lineW l ≤ size j ∧ LineOK l := by
  unfold decLine at h
  split at h
  · next kvs =>
    split at h
    · next ln _ c _ bs h1 _ h3 _ h5 =>
      simp only [Option.some.injEq] at h; subst h
      obtain ⟨j1, d1, _⟩ := req_some h1
      obtain ⟨j3, d3, _⟩ := req_some h3
      obtain ⟨j5, d5, s5⟩ := req_some h5
      have := brs_weight d5
      have := entW_le kvs kBranches
      refine ⟨?_, asU32_le d1, JsonL.asCounter_le _ _ d3⟩
      simp only [lineW, size]; omega
    · cases h
  · next ln fnn c u bs =>
    split at h
    · next ln' _ c' _ bs' h1 _ h3 _ h5 =>
      simp only [Option.some.injEq] at h; subst h
      have := brs_weight h5
      refine ⟨?_, asU32_le h1, JsonL.asCounter_le _ _ h3⟩
      simp only [lineW, size, sizeL]; omega
    · cases h
  · cases h


theorem decFn_weight (j : Gcov.Json) (f : FnJ) (h : decFn j = some f) : fnW f ≤ size j ∧ FnOK f := by
  unfold decFn at h
  split at h
  · next kvs =>
    split at h
    · simp only [Option.some.injEq] at h; subst h
      obtain ⟨j2, d2, s2⟩ := req_some ‹req kvs kDemangledName asStr = some _›
      obtain ⟨j3, d3, _⟩ := req_some ‹req kvs kStartLine asU32 = some _›
      have := asStr_size d2
      have := entW_le kvs kDemangledName
      refine ⟨?_, asU32_le d3⟩
      simp only [fnW, size]; omega
    · cases h
  · next n d s sc el ec bl be x =>
    split at h
    · simp only [Option.some.injEq] at h; subst h
      have := asStr_size ‹asStr d = some _›
      have := size_pos n
      refine ⟨?_, asU32_le ‹asU32 s = some _›⟩
      simp only [fnW, size, sizeL]; omega
    · cases h
  · cases h

theorem sum_fnW_le {j : Gcov.Json} {fns : List FnJ} (h : asVec decFn j = some fns) :
    (fns.map fnW).sum + 1 ≤ size j ∧ ∀ f ∈ fns, FnOK f :=
  ⟨asVec_weight decFn fnW (fun x y hxy => (decFn_weight x y hxy).1) j fns h,
   asVec_all decFn FnOK (fun x y hxy => (decFn_weight x y hxy).2) j fns h⟩

theorem sum_lineW_le {j : Gcov.Json} {ls : List LineJ} (h : asVec decLine j = some ls) :
    (ls.map lineW).sum + 1 ≤ size j ∧ ∀ l ∈ ls, LineOK l :=
  ⟨asVec_weight decLine lineW (fun x y hxy => (decLine_weight x y hxy).1) j ls h,
   asVec_all decLine LineOK (fun x y hxy => (decLine_weight x y hxy).2) j ls h⟩

def FileOK (f : FileJ) : Prop := (∀ l ∈ f.lines, LineOK l) ∧ ∀ g ∈ f.functions, FnOK g

theorem decFile_weight (j : Gcov.Json) (f : FileJ) (h : decFile j = some f) :
    fileW f ≤ size j ∧ FileOK f := by
  unfold decFile at h
  split at h
  · next kvs =>
    split at h
    · simp only [Option.some.injEq] at h; subst h
      obtain ⟨j1, d1, s1⟩ := req_some ‹req kvs kFile asStr = some _›
      obtain ⟨j2, d2, s2⟩ := req_some ‹req kvs kFunctions (asVec decFn) = some _›
      obtain ⟨j3, d3, s3⟩ := req_some ‹req kvs kLines (asVec decLine) = some _›
      have := asStr_size d1
      have h2 := sum_fnW_le d2
      have h3 := sum_lineW_le d3
      have := entW_le3 kvs kFile kFunctions kLines (by decide) (by decide) (by decide)
      refine ⟨?_, h3.2, h2.2⟩
      simp only [fileW, size]; omega
    · cases h
  · next nm fns ls =>
    split at h
    · simp only [Option.some.injEq] at h; subst h
      have := asStr_size ‹asStr nm = some _›
      have h2 := sum_fnW_le ‹asVec decFn fns = some _›
      have h3 := sum_lineW_le ‹asVec decLine ls = some _›
      refine ⟨?_, h3.2, h2.2⟩
      simp only [fileW, size, sizeL]; omega
    · cases h
  · cases h

theorem decDoc_weight (j : Gcov.Json) (fs : List FileJ) (h : decDoc j = some fs) :
    filesW fs ≤ size j ∧ ∀ f ∈ fs, FileOK f := by
  unfold decDoc at h
  split at h
  · next kvs =>
    split at h
    · simp only [Option.some.injEq] at h; subst h
      obtain ⟨j5, d5, s5⟩ := req_some ‹req kvs kFiles (asVec decFile) = some _›
      have h1 := asVec_weight decFile fileW (fun x y hxy => (decFile_weight x y hxy).1) j5 _ d5
      have h2 := asVec_all decFile FileOK (fun x y hxy => (decFile_weight x y hxy).2) j5 _ d5
      have := entW_le kvs kFiles
      refine ⟨?_, h2⟩
      simp only [filesW, size]; omega
    · cases h
  · next fv gv cwd df fs' =>
    split at h
    · simp only [Option.some.injEq] at h; subst h
      have h1 := asVec_weight decFile fileW (fun x y hxy => (decFile_weight x y hxy).1) fs' _
        ‹asVec decFile fs' = some _›
      have h2 := asVec_all decFile FileOK (fun x y hxy => (decFile_weight x y hxy).2) fs' _
        ‹asVec decFile fs' = some _›
      refine ⟨?_, h2⟩
      simp only [filesW, size, sizeL]; omega
    · cases h
  · cases h


/-! ### the loop after the decoding -/

theorem foldl_le {β σ : Type} (μ : σ → Nat) (c : β → Nat) (g : σ → β → σ)
    (h : ∀ s x, μ (g s x) ≤ μ s + c x) (ls : List β) (s : σ) :
    μ (ls.foldl g s) ≤ μ s + (ls.map c).sum := by
  induction ls generalizing s with
  | nil => simp
  | cons x ls ih =>
    have := ih (g s x)
    have := h s x
    simp only [List.foldl_cons, List.map_cons, List.sum_cons]; omega

theorem foldl_inv {β σ : Type} (P : σ → Prop) (Q : β → Prop) (g : σ → β → σ)
    (h : ∀ s x, Q x → P s → P (g s x)) (ls : List β) (hq : ∀ x ∈ ls, Q x) (s : σ) (hs : P s) :
    P (ls.foldl g s) := by
  induction ls generalizing s with
  | nil => exact hs
  | cons x ls ih =>
    exact ih (fun y hy => hq y (List.mem_cons_of_mem _ hy)) _ (h s x (hq x (by simp)) hs)

theorem sum_const_one {β : Type} (ls : List β) : (ls.map fun _ => 1).sum = ls.length := by
  induction ls with
  | nil => rfl
  | cons b bs ih => simp [ih]; omega

theorem fileLines_length (ls : List LineJ) : (fileLines ls).length ≤ ls.length := by
  have := foldl_le (fun m : List (Nat × Nat) => m.length) (fun _ : LineJ => 1)
    (fun m ln => addCount m ln.lineNumber ln.count) (fun s x => length_set_le _ _ _) ls []
  rw [sum_const_one] at this
  simpa [fileLines] using this

theorem addFunction_length (m : List (Name × Fn)) (f : FnJ) : (addFunction m f).length ≤ m.length + 1 := by
  unfold addFunction
  split <;> exact length_set_le _ _ _

theorem fileFunctions_length (fs : List FnJ) : (fileFunctions fs).length ≤ fs.length := by
  have := foldl_le (fun m : List (Name × Fn) => m.length) (fun _ : FnJ => 1)
    addFunction (fun s x => addFunction_length s x) fs []
  rw [sum_const_one] at this
  simpa [fileFunctions] using this

theorem fileBranches_length (ls : List LineJ) : (fileBranches ls).length ≤ ls.length := by
  have := foldl_le (fun m : List (Nat × List Bool) => m.length) (fun _ : LineJ => 1)
    (fun m ln => if ln.branches.isEmpty then m
      else orBranches m ln.lineNumber (ln.branches.map fun c => decide (c > 0)))
    (fun s x => by
      show List.length (if _ then _ else _) ≤ _
      split
      · omega
      · exact length_set_le _ _ _) ls []
  rw [sum_const_one] at this
  simpa [fileBranches] using this

/-- OR-ing a vector into a line's vector adds at most its own length -/
theorem orBranches_slots (m : List (Nat × List Bool)) (l : Nat) (taken : List Bool) :
    sumLen (orBranches m l taken) ≤ sumLen m + taken.length := by
  unfold orBranches
  have := wsum_set (fun kv : Nat × List Bool => kv.2.length) m l (zipOr ((get? m l).getD []) taken)
  cases hg : get? m l with
  | none =>
    simp only [hg, Option.getD_none, zipOr_nil_left] at this ⊢
    show wsum _ _ ≤ wsum _ _ + _
    omega
  | some u =>
    simp only [hg, Option.getD_some, zipOr_length] at this ⊢
    show wsum _ _ ≤ wsum _ _ + _
    omega

theorem fileBranches_slots (ls : List LineJ) :
    sumLen (fileBranches ls) ≤ (ls.map fun l => l.branches.length).sum := by
  have := foldl_le (fun m : List (Nat × List Bool) => sumLen m) (fun l : LineJ => l.branches.length)
    (fun m ln => if ln.branches.isEmpty then m
      else orBranches m ln.lineNumber (ln.branches.map fun c => decide (c > 0)))
    (fun s x => by
      show sumLen (if _ then _ else _) ≤ _
      split
      · omega
      · have := orBranches_slots s x.lineNumber (x.branches.map fun c => decide (c > 0))
        simpa using this) ls []
  have e : sumLen ([] : List (Nat × List Bool)) = 0 := rfl
  simp only [e, Nat.zero_add] at this
  simpa [fileBranches] using this

def keyLen {α : Type} (m : List (Bytes × α)) : Nat := wsum (fun kv => kv.1.length) m

theorem addFunction_names (m : List (Name × Fn)) (f : FnJ) :
    keyLen (addFunction m f) ≤ keyLen m + f.demangled.length := by
  unfold addFunction
  split <;> exact wsum_set_le (fun kv : Name × Fn => kv.1.length) m f.demangled _

theorem fileFunctions_names (fs : List FnJ) :
    keyLen (fileFunctions fs) ≤ (fs.map fun f => f.demangled.length).sum := by
  have := foldl_le (fun m : List (Name × Fn) => keyLen m) (fun f : FnJ => f.demangled.length)
    addFunction (fun s x => addFunction_names s x) fs []
  have e : keyLen ([] : List (Name × Fn)) = 0 := rfl
  simp only [e, Nat.zero_add] at this
  simpa [fileFunctions] using this

/-- all four measures of one result entry -/
def entryW (r : Bytes × Cov) : Nat :=
  1 + covEntries r.2 + covSlots r.2 + (r.1.length + keyLen r.2.functions)

theorem sum_add {β : Type} (ls : List β) (f g : β → Nat) :
    (ls.map fun x => f x + g x).sum = (ls.map f).sum + (ls.map g).sum := by
  induction ls with
  | nil => rfl
  | cons x ls ih => simp [ih]; omega

theorem convFile_weight (f : FileJ) (r : Bytes × Cov) (h : convFile f = some r) :
    entryW r ≤ 2 * fileW f := by
  unfold convFile at h
  simp only at h
  split at h
  · cases h
  · simp only [Option.some.injEq] at h; subst h
    have h1 := fileLines_length f.lines
    have h2 := fileFunctions_length f.functions
    have h3 := fileBranches_length f.lines
    have h4 := fileBranches_slots f.lines
    have h5 := fileFunctions_names f.functions
    have e1 : (f.lines.map lineW).sum = f.lines.length + (f.lines.map fun l => l.branches.length).sum := by
      have := sum_add f.lines (fun _ => 1) (fun l => l.branches.length)
      rw [sum_const_one] at this
      exact this
    have e2 : (f.functions.map fnW).sum
        = f.functions.length + (f.functions.map fun g => g.demangled.length).sum := by
      have := sum_add f.functions (fun _ => 1) (fun g => g.demangled.length)
      rw [sum_const_one] at this
      exact this
    simp only [entryW, covEntries, covSlots, fileW, e1, e2]
    omega

theorem filterMap_weight (fs : List FileJ) :
    ((fs.filterMap convFile).map entryW).sum ≤ 2 * filesW fs := by
  induction fs with
  | nil => simp [filesW]
  | cons f fs ih =>
    simp only [List.filterMap_cons, filesW, List.map_cons, List.sum_cons] at ih ⊢
    cases hc : convFile f with
    | none => simp only [filesW] at ih ⊢; omega
    | some r =>
      have := convFile_weight f r hc
      simp only [List.map_cons, List.sum_cons, filesW] at ih ⊢; omega

theorem entryW_sum (rs : List (Bytes × Cov)) :
    (rs.map entryW).sum = rs.length + resEntries rs + resSlots rs + resNameBytes rs := by
  induction rs with
  | nil => simp [resEntries, resSlots, resNameBytes]
  | cons r rs ih =>
    have e : keyLen r.2.functions = (r.2.functions.map fun f => f.1.length).sum := rfl
    simp only [List.map_cons, List.sum_cons, ih, resEntries, resSlots, resNameBytes, entryW,
      List.length_cons, e]
    omega

/-- the whole result is at most twice the size of the value tree -/
theorem toResults_size (j : Gcov.Json) (rs : List (Bytes × Cov)) (h : toResults j = .ok rs) :
    rs.length + resEntries rs + resSlots rs + resNameBytes rs ≤ 2 * size j := by
  unfold toResults at h
  split at h
  · cases h
  · next files hd =>
    simp only [Out.ok.injEq] at h; subst h
    have h1 := (decDoc_weight j files hd).1
    have h2 := filterMap_weight files
    rw [entryW_sum] at h2
    omega

theorem fileOps_le (f : FileJ) : fileOps f ≤ 2 * fileW f := by
  have e1 : f.lines.length ≤ (f.lines.map lineW).sum := by
    have := sum_add f.lines (fun _ => 1) (fun l => l.branches.length)
    rw [sum_const_one] at this
    have e : (f.lines.map lineW).sum = (f.lines.map fun l => 1 + l.branches.length).sum := rfl
    omega
  have e2 : f.functions.length ≤ (f.functions.map fnW).sum := by
    have := sum_add f.functions (fun _ => 1) (fun g => g.demangled.length)
    rw [sum_const_one] at this
    have e : (f.functions.map fnW).sum = (f.functions.map fun g => 1 + g.demangled.length).sum := rfl
    omega
  have e3 := List.length_filter_le (fun l : LineJ => !l.branches.isEmpty) f.lines
  simp only [fileOps, fileW]; omega

theorem convOps_le (j : Gcov.Json) (fs : List FileJ) (h : decDoc j = some fs) :
    convOps fs ≤ 2 * size j := by
  have h1 := (decDoc_weight j fs h).1
  have : convOps fs ≤ 2 * filesW fs := by
    clear h h1
    induction fs with
    | nil => simp [convOps, filesW]
    | cons f fs ih =>
      have := fileOps_le f
      simp only [convOps, filesW, List.map_cons, List.sum_cons] at ih ⊢; omega
  omega


/-! ### the numbers of the result fit their Rust types -/

def CovFits (c : Cov) : Prop :=
  (∀ kv ∈ c.lines, kv.1 ≤ U32MAX ∧ kv.2 ≤ U64MAX) ∧ (∀ kv ∈ c.branches, kv.1 ≤ U32MAX) ∧
  (∀ kv ∈ c.functions, kv.2.start ≤ U32MAX)

theorem convFile_fits (f : FileJ) (r : Bytes × Cov) (hf : FileOK f) (h : convFile f = some r) :
    CovFits r.2 := by
  unfold convFile at h
  simp only at h
  split at h
  · cases h
  · simp only [Option.some.injEq] at h; subst h
    refine ⟨?_, ?_, ?_⟩
    · exact foldl_inv (fun m : List (Nat × Nat) => ∀ kv ∈ m, kv.1 ≤ U32MAX ∧ kv.2 ≤ U64MAX) LineOK
        (fun m ln => addCount m ln.lineNumber ln.count)
        (fun s x hx hs kv hkv => by
          rcases TextCost.mem_set hkv with h1 | h1
          · exact hs kv h1
          · subst h1; exact ⟨hx.1, satAdd_le _ _⟩) f.lines hf.1 [] (by simp)
    · exact foldl_inv (fun m : List (Nat × List Bool) => ∀ kv ∈ m, kv.1 ≤ U32MAX) LineOK
        (fun m ln => if ln.branches.isEmpty then m
          else orBranches m ln.lineNumber (ln.branches.map fun c => decide (c > 0)))
        (fun s x hx hs kv hkv => by
          split at hkv
          · exact hs kv hkv
          · rcases TextCost.mem_set hkv with h1 | h1
            · exact hs kv h1
            · subst h1; exact hx.1) f.lines hf.1 [] (by simp)
    · exact foldl_inv (fun m : List (Name × Fn) => ∀ kv ∈ m, kv.2.start ≤ U32MAX) FnOK addFunction
        (fun s x hx hs kv hkv => by
          unfold addFunction at hkv
          split at hkv
          · next g hg =>
            rcases TextCost.mem_set hkv with h1 | h1
            · exact hs kv h1
            · subst h1; exact hs (x.demangled, g) (get?_mem hg)
          · rcases TextCost.mem_set hkv with h1 | h1
            · exact hs kv h1
            · subst h1; exact hx) f.functions hf.2 [] (by simp)

theorem toResults_fits (j : Gcov.Json) (rs : List (Bytes × Cov)) (h : toResults j = .ok rs) :
    ∀ r ∈ rs, CovFits r.2 := by
  unfold toResults at h
  split at h
  · cases h
  · next files hd =>
    simp only [Out.ok.injEq] at h; subst h
    have h2 := (decDoc_weight j files hd).2
    intro r hr
    simp only [List.mem_filterMap] at hr
    obtain ⟨f, hf, hc⟩ := hr
    exact convFile_fits f r (h2 f hf) hc

end Json
end Grcov.Gcov
