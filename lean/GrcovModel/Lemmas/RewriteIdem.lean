/-
Helper lemmas for the rewrite side of the lcov fixed point (Props/C05Rewrite.lean): what
`rewrite_paths` does with a key that is itself a reported path.
-/
import GrcovModel.Lemmas.Rewrite
namespace Grcov.Rewrite
open Grcov Grcov.UPath Grcov.Glob AList

theorem collect_map_ok {α : Type} (f : α → Res (Option Rec)) (g : α → Rec) (l : List α)
    (h : ∀ x ∈ l, f x = .ok (some (g x))) : collect (l.map f) = .ok (l.map g) := by
  induction l with
  | nil => rfl
  | cons a l ih =>
    simp only [List.map_cons, collect, h a (by simp), ih fun x hx => h x (List.mem_cons_of_mem _ hx)]

/-- a report is re-imported record by record -/
theorem rewritePaths_reKeys (cfg : Cfg) (fs : FS) (rep : List Rec) (g : Rec → Rec)
    (habs : ∀ s, cfg.sourceDir = some s → isAbsolute s = true)
    (h : ∀ r ∈ rep, rewriteKey cfg fs (r.rel, r.cov) = .ok (some (g r))) :
    rewritePaths cfg fs (reKeys rep) = .ok (rep.map g) := by
  have hc : collect ((reKeys rep).map (rewriteKey cfg fs)) = .ok (rep.map g) := by
    unfold reKeys
    rw [List.map_map]
    exact collect_map_ok _ g rep fun r hr => h r hr
  unfold rewritePaths
  cases hs : cfg.sourceDir with
  | none => exact hc
  | some s => simp only [habs s hs, if_true]; exact hc

theorem realpath_clean {fs : FS} (hcwd : ∀ n ∈ fs.cwd, RealName n) {p c : Bytes}
    (h : fs.realpath p = some c) : ∃ names, (∀ n ∈ names, RealName n) ∧ c = render ⟨true, names⟩ := by
  unfold FS.realpath FS.resolve at h
  by_cases hne : p = []
  · simp [hne] at h
  · simp only [hne, if_false] at h
    split at h
    · cases hw : walk fs (fs.fuel (split p)) maxLinks [] Kind.dir (split p) with
      | none => simp [hw] at h
      | some r =>
        simp [hw] at h
        exact ⟨r.1, walk_real fs _ _ _ (fun s hs => mem_split_noSlash hs) [] _ (by simp) r hw, h.symm⟩
    · cases hw : walk fs (fs.fuel (split p)) maxLinks fs.cwd Kind.dir (split p) with
      | none => simp [hw] at h
      | some r =>
        simp [hw] at h
        exact ⟨r.1, walk_real fs _ _ _ (fun s hs => mem_split_noSlash hs) fs.cwd _ hcwd r hw, h.symm⟩

/-- no path options: a clean path without backslash, used as a key, is resolved to itself -/
theorem resolveKey_plain_normal {cfg : Cfg} {fs : FS} (hS : cfg.sourceDir = none)
    (hP : cfg.prefixDir = none) (hM : cfg.mapping = none) (hcwd : ∀ n ∈ fs.cwd, RealName n)
    {np : NPath} (hreal : ∀ n ∈ np.names, RealName n) (hbs : 92 ∉ render np) :
    ∃ a, resolveKey cfg fs (render np) = .ok (some (a, render np)) := by
  have hfin : finalRel (render np) = some (render np) := by
    unfold finalRel; rw [bsl_id hbs, normalizePath_render hreal]
  have hkp : keyPath cfg (render np) = render np := by rw [keyPath_plain hP hM, bsl_id hbs]
  have hguess : absGuess fs none (render np) = some (render np) := by
    unfold absGuess; split <;> rfl
  -- the canonicalised-or-normalised absolute path is clean
  obtain ⟨ac, hac, npa, hra, ea⟩ : ∃ ac, canonOrNorm fs (render np) = some ac ∧
      ∃ npa : NPath, (∀ n ∈ npa.names, RealName n) ∧ ac = render npa := by
    unfold canonOrNorm
    cases hr : fs.realpath (render np) with
    | some c =>
      obtain ⟨names, hn, e⟩ := realpath_clean hcwd hr
      exact ⟨c, rfl, ⟨true, names⟩, hn, e⟩
    | none => exact ⟨render np, by simp [normalizePath_render hreal], np, hreal, rfl⟩
  refine ⟨ac, ?_⟩
  unfold resolveKey
  simp only [hM, Option.isSome_none, Bool.false_and, Bool.false_eq_true, if_false, hkp, hS]
  have : getAbsPath fs none (render np) = .ok (some (ac, render np)) := by
    rw [getAbsPath_some_iff]
    refine ⟨ac, by simp [absCanon, hguess, hac], by rw [ea, normalizePath_render hra], ?_⟩
    simp [fixupRelPath, normalizePath_render hreal]
  rw [this]
  simp [finishPath, hfin]

/-- a relative path is not below an absolute prefix -/
theorem stripPrefix_rel_abs {names : List Bytes} (hn : ∀ n ∈ names, RealName n) {pre : Bytes}
    (hpre : hasRoot pre = true) : stripPrefix (join names) pre = none := by
  unfold stripPrefix
  have hc : components (join names) = names.map Comp.normal := by
    rw [join_eq_render, components_render (np := ⟨false, names⟩) hn]; simp
  have hp : ∃ t, components pre = Comp.root :: t := by
    rw [components_eq]; simp [hpre]
  obtain ⟨t, ht⟩ := hp
  rw [hc, ht]
  cases names with
  | nil => simp [isPrefixOfC]
  | cons a l => simp [isPrefixOfC]

/-- source dir `S` clean and absolute, no mapping, prefix absent or absolute: the reported
relative path of an existing file below `S`, used as a key, is resolved to the same pair -/
theorem resolveKey_under_source {cfg : Cfg} {fs : FS} {sn names : List Bytes}
    (hS : cfg.sourceDir = some (render ⟨true, sn⟩)) (hM : cfg.mapping = none)
    (hP : ∀ pre, cfg.prefixDir = some pre → hasRoot pre = true)
    (hsn : ∀ n ∈ sn, RealName n) (hn : ∀ n ∈ names, RealName n) (hbs : ∀ n ∈ names, 92 ∉ n)
    (hne : names ≠ [])
    (hres : fs.resolve (render ⟨true, sn ++ names⟩) = some (sn ++ names, .file)) :
    resolveKey cfg fs (join names) = .ok (some (render ⟨true, sn ++ names⟩, join names)) := by
  have hb : bsl (join names) = join names :=
    bsl_id (by rw [join_eq_render]; exact noBackslash_render (np := ⟨false, names⟩) hbs)
  have hkp : keyPath cfg (join names) = join names := by
    unfold keyPath
    rw [hb, hM]
    simp only [applyMapping, removePrefix]
    cases hp : cfg.prefixDir with
    | none => rfl
    | some pre => simp [stripPrefix_rel_abs hn (hP pre hp)]
  unfold resolveKey
  simp only [hM, Option.isSome_none, Bool.false_and, Bool.false_eq_true, if_false, hkp, hS]
  rw [getAbsPath_under_source hsn hn hne hres]
  simp only [finishPath]
  rw [join_eq_render, finalRel_render (np := ⟨false, names⟩) hn hbs]

end Grcov.Rewrite
