/-
Lemmas about GrcovModel/Glob/Strategy.lean: `pathutil::file_name` / `file_name_ext` on lists, the
denotation of every token shape `MatchStrategy::new` recognises, what each classifier
(`basename_literal`, `literal`, `ext`, `prefix`, `suffix`, `required_ext`) recognises, and the
result: the strategy tables of a `GlobSet` answer what the regular expression of the glob answers
on every path that does not end with '.' (`stratMatch_eq_regexMatch`).
-/
import GrcovModel.Glob.Strategy
import GrcovModel.Lemmas.GlobSyntax
set_option linter.unusedSimpArgs false
namespace Grcov.GlobSyntax
open Grcov.UPath (Bytes)

/-! ### `pathutil` on lists -/

theorem afterLast_not_mem (d : Nat) (l : Bytes) (h : d ∉ l) : afterLast d l = l := by
  induction l with
  | nil => rfl
  | cons b bs ih =>
    have h1 : b ≠ d := fun e => h (by simp [e])
    have h2 : d ∉ bs := fun e => h (List.mem_cons_of_mem _ e)
    have h3 : bs.contains d = false := by simpa using h2
    simp [afterLast, h2, h1]

theorem afterLast_append (d : Nat) (u l : Bytes) (hl : d ∉ l) (hu : u = [] ∨ u.getLast? = some d) :
    afterLast d (u ++ l) = l := by
  induction u with
  | nil => exact afterLast_not_mem d l hl
  | cons b u ih =>
    rcases hu with hu | hu
    · cases hu
    · cases u with
      | nil =>
        have hb : b = d := by simpa using hu
        have h3 : l.contains d = false := by simpa using hl
        simp [afterLast, hl, hb]
      | cons c u =>
        have hu' : (c :: u).getLast? = some d := by simpa [List.getLast?_cons_cons] using hu
        have hm : d ∈ c :: u := List.mem_of_getLast? hu'
        have h3 : ((c :: u) ++ l).contains d = true := by
          simp only [List.contains_iff_mem, List.mem_append]; exact Or.inl hm
        simp only [List.cons_append] at h3 ⊢
        rw [afterLast]
        simp only [h3, if_true]
        exact ih (Or.inr hu')

theorem afterLast_spec (d : Nat) (p : Bytes) :
    ∃ u, p = u ++ afterLast d p ∧ (u = [] ∨ u.getLast? = some d) ∧ d ∉ afterLast d p := by
  induction p with
  | nil => exact ⟨[], rfl, Or.inl rfl, by simp [afterLast]⟩
  | cons b bs ih =>
    by_cases hc : bs.contains d = true
    · obtain ⟨u, h1, h2, h3⟩ := ih
      have hm : d ∈ bs := by simpa using hc
      refine ⟨b :: u, ?_, ?_, ?_⟩
      · simp only [afterLast, hc, if_true, List.cons_append]; rw [← h1]
      · right
        rcases h2 with rfl | h2
        · -- bs = afterLast d bs contains d: impossible
          exfalso
          simp only [List.nil_append] at h1
          rw [← h1] at h3
          exact h3 (by simpa using hc)
        · cases u with
          | nil => simp at h2
          | cons c u => simpa [List.getLast?_cons_cons] using h2
      · simpa [afterLast, hm] using h3
    · have hc' : bs.contains d = false := by simpa using hc
      have hn : d ∉ bs := by simpa using hc'
      by_cases hb : b = d
      · refine ⟨[b], by simp [afterLast, hn, hb], Or.inr (by simp [hb]), by simp [afterLast, hn, hb]⟩
      · refine ⟨[], by simp [afterLast, hn, hb], Or.inl rfl, ?_⟩
        simp only [afterLast, hc', hb, if_false, Bool.false_eq_true, List.mem_cons, not_or]
        exact ⟨fun e => hb e.symm, hn⟩

theorem fromLast_none (d : Nat) (l : Bytes) (h : d ∉ l) : fromLast d l = none := by
  induction l with
  | nil => rfl
  | cons b bs ih =>
    have h1 : b ≠ d := fun e => h (by simp [e])
    have h2 : d ∉ bs := fun e => h (List.mem_cons_of_mem _ e)
    simp [fromLast, ih h2, h1]

theorem fromLast_append (d : Nat) (u x : Bytes) (hx : d ∉ x) : fromLast d (u ++ d :: x) = some (d :: x) := by
  induction u with
  | nil => simp [fromLast, fromLast_none d x hx]
  | cons b u ih => simp [fromLast, ih]

theorem fromLast_some (d : Nat) (s r : Bytes) (h : fromLast d s = some r) : ∃ u, s = u ++ r := by
  induction s with
  | nil => simp [fromLast] at h
  | cons b bs ih =>
    simp only [fromLast] at h
    cases hf : fromLast d bs with
    | some r' =>
      rw [hf] at h
      simp only [Option.some.injEq] at h
      subst h
      obtain ⟨u, hu⟩ := ih hf
      exact ⟨b :: u, by simp [hu]⟩
    | none =>
      rw [hf] at h
      by_cases hb : b = d
      · simp only [hb, if_true, Option.some.injEq] at h
        exact ⟨[], by simp [← h, hb]⟩
      · simp [hb] at h

theorem baseName_of_guard (p : Bytes) (h : p.getLast? ≠ some 46) : baseName p = afterLast 47 p := by
  unfold baseName
  cases hl : p.getLast? with
  | none =>
    have : p = [] := by simpa using hl
    subst this; rfl
  | some l =>
    have : l ≠ 46 := fun e => h (by rw [hl, e])
    simp [this]

/-- a path that ends with `.x` (x without '.' and '/') and not with '.' has the extension `.x` -/
theorem extName_of_suffix (p u x : Bytes) (hg : p.getLast? ≠ some 46) (hp : p = u ++ 46 :: x)
    (h46 : 46 ∉ x) (h47 : 47 ∉ x) : extName p = 46 :: x := by
  unfold extName
  rw [baseName_of_guard p hg]
  obtain ⟨u1, h1, h2, h3⟩ := afterLast_spec 47 u
  have : p = u1 ++ (afterLast 47 u ++ 46 :: x) := by rw [hp]; conv => lhs; rw [h1]; simp
  rw [this, afterLast_append 47 u1 _ (by
    simp only [List.mem_append, List.mem_cons, not_or]
    exact ⟨h3, by omega, h47⟩) h2]
  rw [fromLast_append 46 _ x h46]; rfl

/-- the extension is a suffix of the path -/
theorem extName_suffix (p e : Bytes) (he : e ≠ []) (h : extName p = e) : ∃ u, p = u ++ e := by
  unfold extName at h
  cases hf : fromLast 46 (baseName p) with
  | none => rw [hf] at h; exact absurd h.symm he
  | some r =>
    rw [hf] at h
    simp only [Option.getD_some] at h
    subst h
    obtain ⟨w, hw⟩ := fromLast_some 46 _ _ hf
    unfold baseName at hw
    cases hl : p.getLast? with
    | none => rw [hl] at hw; simp at hw; exact absurd hw.2 he
    | some l =>
      rw [hl] at hw
      by_cases h46 : l = 46
      · simp [h46] at hw; exact absurd hw.2 he
      · simp only [h46, if_false] at hw
        obtain ⟨u1, h1, _, _⟩ := afterLast_spec 47 p
        exact ⟨u1 ++ w, by rw [h1, hw]; simp⟩

/-- basename: the part after the last '/' -/
theorem baseName_eq_iff (p l : Bytes) (hg : p.getLast? ≠ some 46) (h47 : 47 ∉ l) :
    baseName p = l ↔ ∃ u, (u = [] ∨ u.getLast? = some 47) ∧ p = u ++ l := by
  rw [baseName_of_guard p hg]
  constructor
  · intro h
    obtain ⟨u, h1, h2, _⟩ := afterLast_spec 47 p
    exact ⟨u, h2, by rw [← h]; exact h1⟩
  · rintro ⟨u, hu, rfl⟩
    exact afterLast_append 47 u l h47 hu

/-! ### denotations of the token shapes the strategies recognise -/

def litToks (cs : Chars) : Tokens := cs.map fun c => .atom (.lit c)

theorem allLits_eq_some (ts : Tokens) (cs : Chars) : allLits ts = some cs ↔ ts = litToks cs := by
  induction ts generalizing cs with
  | nil =>
    simp only [allLits, List.mapM_nil, litToks]
    constructor
    · intro h; cases h; rfl
    · intro h; cases cs with
      | nil => rfl
      | cons _ _ => simp at h
  | cons t ts ih =>
    unfold allLits at ih ⊢
    simp only [List.mapM_cons]
    cases t with
    | alt a => simp only [litOf]; constructor
               · intro h; cases h
               · intro h; cases cs <;> simp [litToks] at h
    | atom a =>
      cases a with
      | lit c =>
        simp only [litOf]
        cases hm : ts.mapM litOf with
        | none =>
          constructor
          · intro h; cases h
          · intro h
            cases cs with
            | nil => simp [litToks] at h
            | cons c' cs' =>
              simp only [litToks, List.map_cons, List.cons.injEq, Tok.atom.injEq, Atom.lit.injEq] at h
              have := (ih cs').2 h.2
              rw [hm] at this; cases this
        | some r =>
          have hr := (ih r).1 hm
          constructor
          · intro h
            have : cs = c :: r := by cases h; rfl
            subst this; simp [litToks, hr]
          · intro h
            cases cs with
            | nil => simp [litToks] at h
            | cons c' cs' =>
              simp only [litToks, List.map_cons, List.cons.injEq, Tok.atom.injEq, Atom.lit.injEq] at h
              have := (ih cs').2 h.2
              rw [hm] at this
              cases this; rw [h.1]; rfl
      | _ => simp only [litOf]; constructor
             · intro h; cases h
             · intro h; cases cs <;> simp [litToks] at h

theorem den_append (t1 t2 : Tokens) (s : Bytes) :
    Den (t1 ++ t2) s ↔ ∃ u v, s = u ++ v ∧ Den t1 u ∧ Den t2 v := by
  induction t1 generalizing s with
  | nil =>
    simp only [List.nil_append, Den]
    constructor
    · intro h; exact ⟨[], s, rfl, rfl, h⟩
    · rintro ⟨u, v, rfl, rfl, h⟩; exact h
  | cons t t1 ih =>
    simp only [List.cons_append, Den]
    constructor
    · rintro ⟨u, v, rfl, hu, hv⟩
      obtain ⟨v1, v2, rfl, h1, h2⟩ := (ih v).1 hv
      exact ⟨u ++ v1, v2, by simp, ⟨u, v1, rfl, hu, h1⟩, h2⟩
    · rintro ⟨u, v, rfl, ⟨u1, u2, rfl, h1, h2⟩, hv⟩
      exact ⟨u1, u2 ++ v, by simp, h1, (ih _).2 ⟨u2, v, rfl, h2, hv⟩⟩

theorem den_litToks (cs : Chars) (s : Bytes) : Den (litToks cs) s ↔ s = encPat cs := by
  induction cs generalizing s with
  | nil => simp [litToks, Den, encPat]
  | cons c cs ih =>
    have : litToks (c :: cs) = .atom (.lit c) :: litToks cs := rfl
    rw [this]
    simp only [Den, TokDen, AtomDen, ih, encPat, List.flatMap_cons]
    constructor
    · rintro ⟨u, v, rfl, rfl, rfl⟩; rfl
    · intro h; exact ⟨enc c, cs.flatMap enc, h, rfl, rfl⟩

theorem den_atom_cons (a : Atom) (ts : Tokens) (s : Bytes) :
    Den (.atom a :: ts) s ↔ ∃ u v, s = u ++ v ∧ AtomDen a u ∧ Den ts v := by
  simp [Den, TokDen]

theorem den_single (a : Atom) (s : Bytes) : Den [.atom a] s ↔ AtomDen a s := by
  simp only [Den, TokDen]
  constructor
  · rintro ⟨u, v, rfl, h, rfl⟩; simpa using h
  · intro h; exact ⟨s, [], by simp, h, rfl⟩

theorem enc_low (c b : Nat) (hb : b ∈ enc c) (hlt : b < 128) : b = c := by
  by_cases h : c < 128
  · simpa [enc_ascii' c h] using hb
  · have := enc_hi' c (by omega) b hb; omega
where
  enc_ascii' (c : Nat) (h : c < 128) : enc c = [c] := by simp [enc, h]
  enc_hi' (c : Nat) (h : 128 ≤ c) : ∀ b ∈ enc c, 128 ≤ b := by
    intro b hb
    unfold enc at hb
    have h1 : ¬ c < 128 := by omega
    simp only [h1, if_false] at hb
    split at hb
    · simp only [List.mem_cons, List.not_mem_nil, or_false] at hb; omega
    · split at hb
      · simp only [List.mem_cons, List.not_mem_nil, or_false] at hb; omega
      · simp only [List.mem_cons, List.not_mem_nil, or_false] at hb; omega

theorem not_mem_encPat (cs : Chars) (b : Nat) (hb : b < 128) (h : b ∉ cs) : b ∉ encPat cs := by
  intro hm
  simp only [encPat, List.mem_flatMap] at hm
  obtain ⟨c, hc, hbc⟩ := hm
  exact h (enc_low c b hbc hb ▸ hc)

theorem encPat_ne_nil (cs : Chars) (h : cs ≠ []) : encPat cs ≠ [] := by
  cases cs with
  | nil => exact absurd rfl h
  | cons c cs =>
    simp only [encPat, List.flatMap_cons, ne_eq, List.append_eq_nil_iff, not_and]
    intro h0; exfalso
    unfold enc at h0
    repeat' split at h0
    all_goals simp at h0

theorem encPat_append (a b : Chars) : encPat (a ++ b) = encPat a ++ encPat b := by
  simp [encPat]

theorem isSuffixOfB_iff (l p : Bytes) : isSuffixOfB l p = true ↔ ∃ u, p = u ++ l := by
  unfold isSuffixOfB
  rw [List.isPrefixOf_iff_prefix, List.reverse_prefix]
  constructor
  · rintro ⟨u, h⟩; exact ⟨u, h.symm⟩
  · rintro ⟨u, h⟩; exact ⟨u, h.symm⟩

theorem isPrefixOf_iff' (l p : Bytes) : l.isPrefixOf p = true ↔ ∃ v, p = l ++ v := by
  rw [List.isPrefixOf_iff_prefix]
  constructor
  · rintro ⟨u, h⟩; exact ⟨u, h.symm⟩
  · rintro ⟨u, h⟩; exact ⟨u, h.symm⟩

theorem den_star_lits (cs : Chars) (p : Bytes) :
    Den (.atom .star :: litToks cs) p ↔ ∃ u, p = u ++ encPat cs := by
  simp only [den_atom_cons, AtomDen, den_litToks, true_and]
  constructor
  · rintro ⟨u, v, rfl, rfl⟩; exact ⟨u, rfl⟩
  · rintro ⟨u, rfl⟩; exact ⟨u, _, rfl, rfl⟩

theorem den_rec_lits (cs : Chars) (p : Bytes) :
    Den (.atom .recPrefix :: litToks cs) p ↔ ∃ u, (u = [] ∨ ∃ m, u = m ++ [47]) ∧ p = u ++ encPat cs := by
  simp only [den_atom_cons, AtomDen, den_litToks]
  constructor
  · rintro ⟨u, v, rfl, hu, rfl⟩; exact ⟨u, hu, rfl⟩
  · rintro ⟨u, hu, rfl⟩; exact ⟨u, _, rfl, hu, rfl⟩

theorem den_rec_star_lits (cs : Chars) (p : Bytes) :
    Den (.atom .recPrefix :: .atom .star :: litToks cs) p ↔ ∃ u, p = u ++ encPat cs := by
  rw [den_atom_cons]
  simp only [den_star_lits, AtomDen]
  constructor
  · rintro ⟨u, v, rfl, _, w, rfl⟩; exact ⟨u ++ w, by simp⟩
  · rintro ⟨u, rfl⟩; exact ⟨[], u ++ encPat cs, rfl, Or.inl rfl, u, rfl⟩

theorem den_lits_star (cs : Chars) (p : Bytes) :
    Den (litToks cs ++ [.atom .star]) p ↔ ∃ v, p = encPat cs ++ v := by
  simp only [den_append, den_litToks, den_single, AtomDen, and_true]
  constructor
  · rintro ⟨u, v, rfl, rfl⟩; exact ⟨v, rfl⟩
  · rintro ⟨v, rfl⟩; exact ⟨_, v, rfl, rfl⟩

theorem den_lits_recSuffix (cs : Chars) (p : Bytes) :
    Den (litToks cs ++ [.atom .recSuffix]) p ↔ ∃ m, p = (encPat cs ++ [47]) ++ m := by
  simp only [den_append, den_litToks, den_single, AtomDen]
  constructor
  · rintro ⟨u, v, rfl, rfl, m, rfl⟩; exact ⟨m, by simp⟩
  · rintro ⟨m, rfl⟩; exact ⟨_, 47 :: m, by simp, rfl, m, rfl⟩

theorem den_front_lits (front : Tokens) (cs : Chars) (p : Bytes) (h : Den (front ++ litToks cs) p) :
    ∃ u, p = u ++ encPat cs := by
  obtain ⟨u, v, rfl, _, hv⟩ := (den_append _ _ _).1 h
  exact ⟨u, by rw [(den_litToks cs v).1 hv]⟩

/-! ### what each classifier recognises -/

theorem basenameLit_some (ts : Tokens) (l : Bytes) (h : basenameLit ts = some l) :
    ∃ cs, ts = .atom .recPrefix :: litToks cs ∧ cs ≠ [] ∧ 47 ∉ cs ∧ l = encPat cs := by
  unfold basenameLit at h
  split at h
  · rename_i rest
    split at h
    · cases h
    · split at h
      · rename_i cs hcs
        split at h
        · cases h
        · rename_i h47
          refine ⟨cs, by rw [(allLits_eq_some rest cs).1 hcs], ?_, by simpa using h47, by cases h; rfl⟩
          rintro rfl
          have := (allLits_eq_some rest []).1 hcs
          simp_all [litToks]
      · cases h
  · cases h

theorem literalOf_some (ts : Tokens) (l : Bytes) (h : literalOf ts = some l) :
    ∃ cs, ts = litToks cs ∧ cs ≠ [] ∧ l = encPat cs := by
  unfold literalOf at h
  split at h
  · rename_i cs hcs
    split at h
    · cases h
    · rename_i hne
      exact ⟨cs, (allLits_eq_some ts cs).1 hcs, by simpa using hne, by cases h; rfl⟩
  · cases h

theorem literalOf_none_lits (cs : Chars) (h : literalOf (litToks cs) = none) : cs = [] := by
  unfold literalOf at h
  rw [(allLits_eq_some _ cs).2 rfl] at h
  simp only at h
  split at h
  · rename_i he; simpa using he
  · cases h

theorem extOf_some (ts : Tokens) (e : Bytes) (h : extOf ts = some e) :
    ∃ cs, (ts = .atom .recPrefix :: .atom .star :: .atom (.lit 46) :: litToks cs ∨
           ts = .atom .star :: .atom (.lit 46) :: litToks cs) ∧ 46 ∉ cs ∧ 47 ∉ cs ∧ e = 46 :: encPat cs := by
  unfold extOf at h
  simp only at h
  split at h
  · rename_i rest tail hrest
    split at h
    · rename_i cs hcs
      split at h
      · cases h
      · rename_i hno
        simp only [Bool.or_eq_true, List.contains_iff_mem, not_or] at hno
        have htail := (allLits_eq_some tail cs).1 hcs
        refine ⟨cs, ?_, hno.1, hno.2, by cases h; rfl⟩
        split at hrest
        · left; rw [hrest, htail]
        · right; rw [hrest, htail]
    · cases h
  · cases h

theorem litToks_append (a b : Chars) : litToks (a ++ b) = litToks a ++ litToks b := by
  simp [litToks]

theorem prefixOf_some (ts : Tokens) (l : Bytes) (h : prefixOf ts = some l) :
    l ≠ [] ∧ ∃ cs, (ts = litToks cs ++ [.atom .star] ∧ l = encPat cs) ∨
      (ts = litToks cs ++ [.atom .recSuffix] ∧ l = encPat cs ++ [47]) ∨
      (ts = litToks cs ∧ l = encPat cs) := by
  unfold prefixOf at h
  cases hlast : ts.getLast? with
  | none => simp [hlast] at h
  | some last =>
    obtain ⟨ys, rfl⟩ := List.getLast?_eq_some_iff.1 hlast
    simp only [hlast, List.dropLast_concat] at h
    by_cases h1 : last = .atom .star
    · subst h1
      simp only [decide_true, Bool.true_or, if_true, Tok.atom.injEq, reduceCtorEq, if_false, List.append_nil] at h
      cases hcs : allLits ys with
      | none => simp [hcs] at h
      | some cs =>
        simp only [hcs] at h
        have := (allLits_eq_some _ cs).1 hcs
        by_cases he : (encPat cs).isEmpty = true
        · simp [he] at h
        · simp only [he, if_false, Bool.false_eq_true, Option.some.injEq] at h
          subst h
          exact ⟨by simpa using he, cs, Or.inl ⟨by rw [this], rfl⟩⟩
    · by_cases h2 : last = .atom .recSuffix
      · subst h2
        simp only [decide_true, Bool.or_true, if_true] at h
        cases hcs : allLits ys with
        | none => simp [hcs] at h
        | some cs =>
          simp only [hcs] at h
          have := (allLits_eq_some _ cs).1 hcs
          by_cases he : (encPat cs ++ [47]).isEmpty = true
          · simp at he
          · simp only [he, if_false, Bool.false_eq_true, Option.some.injEq] at h
            subst h
            exact ⟨by simp, cs, Or.inr (Or.inl ⟨by rw [this], rfl⟩)⟩
      · simp only [h1, h2, decide_false, Bool.or_false, Bool.false_eq_true, if_false, List.append_nil] at h
        cases hcs : allLits (ys ++ [last]) with
        | none => simp [hcs] at h
        | some cs =>
          simp only [hcs] at h
          have := (allLits_eq_some _ cs).1 hcs
          by_cases he : (encPat cs).isEmpty = true
          · simp [he] at h
          · simp only [he, if_false, Bool.false_eq_true, Option.some.injEq] at h
            subst h
            exact ⟨by simpa using he, cs, Or.inr (Or.inr ⟨this, rfl⟩)⟩

/-- the tail of `suffix` once `pre`, `rest`, `entire` are fixed -/
theorem suffix_tail (pre : Bytes) (t : Tok) (r : Tokens) (entire : Bool) (l : Bytes) (comp : Bool)
    (h : suffixTail pre t r entire = some (l, comp)) :
    ∃ cs, (if t = .atom .star then r else t :: r) = litToks cs ∧ l = pre ++ encPat cs ∧ comp = entire ∧
      l ≠ [] ∧ l ≠ [47] := by
  unfold suffixTail at h
  cases hcs : allLits (if t = .atom .star then r else t :: r) with
  | none => simp [hcs] at h
  | some cs =>
    simp only [hcs] at h
    by_cases hc : ((pre ++ encPat cs).isEmpty || decide (pre ++ encPat cs = [47])) = true
    · simp [hc] at h
    · simp only [hc, if_false, Bool.false_eq_true, Option.some.injEq, Prod.mk.injEq] at h
      simp only [Bool.or_eq_true, List.isEmpty_iff, decide_eq_true_eq, not_or] at hc
      exact ⟨cs, (allLits_eq_some _ cs).1 hcs, h.1.symm, h.2.symm, h.1 ▸ hc.1, h.1 ▸ hc.2⟩

theorem suffixParts_other (t0 : Tok) (ts : Tokens) (h0 : t0 ≠ .atom .recPrefix) :
    suffixParts (t0 :: ts) = ([], t0 :: ts, false) := by
  cases t0 with
  | alt _ => rfl
  | atom a => cases a with
    | recPrefix => exact absurd rfl h0
    | _ => rfl

theorem suffixParts_rec_other (t1 : Tok) (r : Tokens) (hne : ∀ c, t1 ≠ .atom (.lit c)) :
    suffixParts (.atom .recPrefix :: t1 :: r) = ([], t1 :: r, false) := by
  cases t1 with
  | alt _ => rfl
  | atom a => cases a with
    | lit c => exact absurd rfl (hne c)
    | _ => rfl

theorem suffixOf_some (ts : Tokens) (l : Bytes) (comp : Bool) (h : suffixOf ts = some (l, comp)) :
    (∃ cs, cs ≠ [] ∧ ts = .atom .recPrefix :: litToks cs ∧ l = 47 :: encPat cs ∧ comp = true) ∨
    (∃ cs, ts = .atom .recPrefix :: .atom .star :: litToks cs ∧ l = encPat cs ∧ comp = false ∧ l ≠ []) ∨
    (∃ cs, ts = .atom .star :: litToks cs ∧ l = encPat cs ∧ comp = false ∧ l ≠ []) ∨
    (∃ cs, ts = litToks cs ∧ l = encPat cs ∧ comp = false ∧ cs ≠ []) := by
  unfold suffixOf at h
  cases ts with
  | nil => simp at h
  | cons t0 ts =>
    simp only [List.isEmpty_cons, Bool.false_eq_true, if_false] at h
    by_cases h0 : t0 = .atom .recPrefix
    · subst h0
      cases ts with
      | nil => simp [suffixParts] at h
      | cons t1 r =>
        by_cases h1 : ∃ c, t1 = .atom (.lit c)
        · obtain ⟨c, rfl⟩ := h1
          simp only [suffixParts] at h
          obtain ⟨cs, h1, h2, h3, _, _⟩ := suffix_tail [47] (.atom (.lit c)) r true l comp h
          simp only [Tok.atom.injEq, reduceCtorEq, if_false] at h1
          left
          refine ⟨cs, ?_, by rw [h1], by simpa using h2, h3⟩
          rintro rfl; simp [litToks] at h1
        · have hne : ∀ c, t1 ≠ .atom (.lit c) := fun c e => h1 ⟨c, e⟩
          rw [suffixParts_rec_other t1 r hne] at h
          simp only at h
          obtain ⟨cs, h1', h2, h3, h4, _⟩ := suffix_tail [] t1 r false l comp h
          by_cases hs : t1 = .atom .star
          · subst hs
            simp only [if_true] at h1'
            right; left
            exact ⟨cs, by rw [h1'], by simpa using h2, h3, h4⟩
          · simp only [hs, if_false] at h1'
            exfalso
            cases cs with
            | nil => simp [litToks] at h1'
            | cons c cs =>
              simp only [litToks, List.map_cons, List.cons.injEq] at h1'
              exact hne c h1'.1
    · rw [suffixParts_other t0 ts h0] at h
      simp only at h
      obtain ⟨cs, h1', h2, h3, h4, _⟩ := suffix_tail [] t0 ts false l comp h
      by_cases hs : t0 = .atom .star
      · subst hs
        simp only [if_true] at h1'
        right; right; left
        exact ⟨cs, by rw [h1'], by simpa using h2, h3, h4⟩
      · simp only [hs, if_false] at h1'
        right; right; right
        refine ⟨cs, h1', by simpa using h2, h3, ?_⟩
        rintro rfl; simp [litToks] at h1'

theorem reqExtAux_some (rts : Tokens) (acc r : Chars) (h : reqExtAux rts acc = some r) :
    ∃ x front, rts = (litToks x).reverse ++ .atom (.lit 46) :: front ∧ 46 ∉ x ∧ 47 ∉ x ∧ r = 46 :: (x ++ acc) := by
  induction rts generalizing acc with
  | nil => simp [reqExtAux] at h
  | cons t rts ih =>
    cases t with
    | alt _ => simp [reqExtAux] at h
    | atom a =>
      cases a with
      | lit c =>
        simp only [reqExtAux] at h
        by_cases h47 : c = 47
        · simp [h47] at h
        · by_cases h46 : c = 46
          · subst h46
            simp at h
            exact ⟨[], rts, by simp [litToks], by simp, by simp, by simp [← h]⟩
          · simp only [h47, h46, if_false] at h
            obtain ⟨x, front, h1, h2, h3, h4⟩ := ih (c :: acc) h
            refine ⟨x ++ [c], front, ?_, ?_, ?_, ?_⟩
            · simp [litToks, h1]
            · simp only [List.mem_append, List.mem_singleton, not_or]; exact ⟨h2, fun e => h46 e.symm⟩
            · simp only [List.mem_append, List.mem_singleton, not_or]; exact ⟨h3, fun e => h47 e.symm⟩
            · simp [h4]
      | _ => simp [reqExtAux] at h

theorem requiredExtOf_some (ts : Tokens) (e : Bytes) (h : requiredExtOf ts = some e) :
    ∃ x front, ts = front ++ litToks (46 :: x) ∧ 46 ∉ x ∧ 47 ∉ x ∧ e = 46 :: encPat x := by
  unfold requiredExtOf at h
  cases hr : reqExtAux ts.reverse [] with
  | none => simp [hr] at h
  | some r =>
    simp only [hr, Option.map_some, Option.some.injEq] at h
    obtain ⟨x, front, h1, h2, h3, h4⟩ := reqExtAux_some _ _ _ hr
    refine ⟨x, front.reverse, ?_, h2, h3, ?_⟩
    · have := congrArg List.reverse h1
      simp only [List.reverse_reverse, List.reverse_append, List.reverse_cons] at this
      rw [this]; simp [litToks]
    · rw [← h, h4]; simp [encPat, enc]

theorem litToks_ne_rec (cs : Chars) : litToks cs ≠ [.atom .recPrefix] := by
  cases cs with
  | nil => simp [litToks]
  | cons c cs => simp [litToks]

/-- THE STRATEGY TABLES AGREE WITH THE REGULAR EXPRESSION on every path that does not end with '.' -/
theorem stratMatch_eq_regexMatch (ts : Tokens) (p : Bytes) (hg : p.getLast? ≠ some 46) :
    stratMatch ts p = regexMatch ts p := by
  rw [Bool.eq_iff_iff, regexMatch_iff]
  unfold stratMatch strategy GlobDen
  cases hb : basenameLit ts with
  | some l =>
    obtain ⟨cs, rfl, hne, h47, rfl⟩ := basenameLit_some ts l hb
    have hL := encPat_ne_nil cs hne
    have h47' := not_mem_encPat cs 47 (by omega) h47
    have hnr : (Tok.atom Atom.recPrefix :: litToks cs) ≠ [.atom .recPrefix] := by
      cases cs with
      | nil => exact absurd rfl hne
      | cons c cs => simp [litToks]
    simp only [hnr, false_or, den_rec_lits, Bool.and_eq_true, Bool.not_eq_true', beq_iff_eq]
    constructor
    · rintro ⟨_, h⟩
      obtain ⟨u, hu, rfl⟩ := (baseName_eq_iff p _ hg h47').1 h
      refine ⟨u, ?_, rfl⟩
      rcases hu with rfl | hu
      · exact Or.inl rfl
      · exact Or.inr (List.getLast?_eq_some_iff.1 hu)
    · rintro ⟨u, hu, rfl⟩
      have : baseName (u ++ encPat cs) = encPat cs := by
        refine (baseName_eq_iff _ _ hg h47').2 ⟨u, ?_, rfl⟩
        rcases hu with rfl | ⟨m, rfl⟩
        · exact Or.inl rfl
        · exact Or.inr (by simp)
      rw [this]
      exact ⟨by cases h : encPat cs <;> simp_all, rfl⟩
  | none =>
    simp only
    cases hl : literalOf ts with
    | some l =>
      obtain ⟨cs, rfl, hne, rfl⟩ := literalOf_some ts l hl
      simp only [litToks_ne_rec, false_or, den_litToks, beq_iff_eq]
    | none =>
      simp only
      cases he : extOf ts with
      | some e =>
        obtain ⟨cs, hts, h46, h47, rfl⟩ := extOf_some ts e he
        have h46' := not_mem_encPat cs 46 (by omega) h46
        have h47' := not_mem_encPat cs 47 (by omega) h47
        have hden : (ts = [.atom .recPrefix] ∨ Den ts p) ↔ ∃ u, p = u ++ 46 :: encPat cs := by
          have e1 : (Tok.atom (.lit 46) :: litToks cs) = litToks (46 :: cs) := rfl
          have e2 : encPat (46 :: cs) = 46 :: encPat cs := by simp [encPat, enc]
          rcases hts with rfl | rfl
          · simp only [List.cons.injEq, reduceCtorEq, and_false, false_or, e1, den_rec_star_lits, e2]
          · simp only [List.cons.injEq, Tok.atom.injEq, reduceCtorEq, false_and, false_or, e1,
              den_star_lits, e2]
        rw [hden]
        simp only [Bool.and_eq_true, Bool.not_eq_true', beq_iff_eq]
        constructor
        · rintro ⟨_, h⟩; exact extName_suffix p _ (by simp) h
        · rintro ⟨u, hu⟩
          have := extName_of_suffix p u _ hg hu h46' h47'
          rw [this]; simp
      | none =>
        simp only
        cases hp : prefixOf ts with
        | some l =>
          obtain ⟨hlne, cs, hsh⟩ := prefixOf_some ts l hp
          simp only [isPrefixOf_iff']
          rcases hsh with ⟨rfl, rfl⟩ | ⟨rfl, rfl⟩ | ⟨rfl, rfl⟩
          · have : litToks cs ++ [Tok.atom Atom.star] ≠ [.atom .recPrefix] := by
              cases cs <;> simp [litToks]
            simp only [this, false_or, den_lits_star]
          · have : litToks cs ++ [Tok.atom Atom.recSuffix] ≠ [.atom .recPrefix] := by
              cases cs <;> simp [litToks]
            simp only [this, false_or, den_lits_recSuffix]
          · -- all literals: `literal` would have taken it
            have := literalOf_none_lits cs hl
            subst this
            exact absurd rfl hlne
        | none =>
          simp only
          cases hs : suffixOf ts with
          | some lc =>
            obtain ⟨l, comp⟩ := lc
            simp only [Bool.or_eq_true, Bool.and_eq_true, beq_iff_eq, isSuffixOfB_iff]
            rcases suffixOf_some ts l comp hs with ⟨cs, hne, rfl, rfl, rfl⟩ | ⟨cs, rfl, rfl, rfl, hl'⟩ |
                ⟨cs, rfl, rfl, rfl, hl'⟩ | ⟨cs, rfl, rfl, rfl, hne⟩
            · have hnr : (Tok.atom Atom.recPrefix :: litToks cs) ≠ [.atom .recPrefix] := by
                cases cs with
                | nil => exact absurd rfl hne
                | cons c cs => simp [litToks]
              simp only [hnr, false_or, den_rec_lits, List.tail_cons, true_and]
              constructor
              · rintro (rfl | ⟨u, rfl⟩)
                · exact ⟨[], Or.inl rfl, rfl⟩
                · exact ⟨u ++ [47], Or.inr ⟨u, rfl⟩, by simp⟩
              · rintro ⟨u, (rfl | ⟨m, rfl⟩), rfl⟩
                · left; rfl
                · right; exact ⟨m, by simp⟩
            · have hnr : (Tok.atom Atom.recPrefix :: Tok.atom Atom.star :: litToks cs) ≠ [.atom .recPrefix] := by
                simp
              simp only [hnr, false_or, den_rec_star_lits, Bool.false_eq_true, false_and]
            · have hnr : (Tok.atom Atom.star :: litToks cs) ≠ [.atom .recPrefix] := by simp
              simp only [hnr, false_or, den_star_lits, Bool.false_eq_true, false_and]
            · have := literalOf_none_lits cs hl
              exact absurd this hne
          | none =>
            simp only
            cases hr : requiredExtOf ts with
            | some e =>
              obtain ⟨x, front, rfl, h46, h47, rfl⟩ := requiredExtOf_some ts e hr
              have h46' := not_mem_encPat x 46 (by omega) h46
              have h47' := not_mem_encPat x 47 (by omega) h47
              simp only [Bool.and_eq_true, Bool.not_eq_true', beq_iff_eq, regexMatch_iff, GlobDen]
              constructor
              · rintro ⟨_, h⟩; exact h
              · intro h
                refine ⟨?_, h⟩
                have hnr : front ++ litToks (46 :: x) ≠ [.atom .recPrefix] := by
                  intro e
                  have hlen := congrArg List.length e
                  simp only [litToks, List.length_append, List.length_map, List.length_cons,
                    List.length_nil] at hlen
                  have hf : front = [] := List.eq_nil_of_length_eq_zero (by omega)
                  have hx : x = [] := List.eq_nil_of_length_eq_zero (by omega)
                  subst hf hx
                  simp [litToks] at e
                rcases h with h | h
                · exact absurd h hnr
                · obtain ⟨u, hu⟩ := den_front_lits front (46 :: x) p h
                  have e2 : encPat (46 :: x) = 46 :: encPat x := by simp [encPat, enc]
                  rw [e2] at hu
                  have := extName_of_suffix p u _ hg hu h46' h47'
                  rw [this]; simp
            | none =>
              simp only [regexMatch_iff, GlobDen]

end Grcov.GlobSyntax
