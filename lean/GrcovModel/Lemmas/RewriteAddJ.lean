/-
Helper lemmas for Rewrite/AddJ.lean (C12): when the Java/Kotlin lookup is the identity, when it is
not needed, the UTF-8 aware key step of `add_results`, and the html variant of the tree-writer view.
-/
import GrcovModel.Rewrite.AddJ
import GrcovModel.Lemmas.RewritePartial
namespace Grcov.Rewrite
open Grcov Grcov.UPath Grcov.Glob AList

/-! ### the lookup is the identity -/

theorem rewriteKeyJ_eq_of_id {cfg : Cfg} {fs : FS} {nd : Bool} {ftp : List (Bytes × List Bytes)}
    {kc : Bytes × Cov} (h : partialStepF fs cfg.sourceDir nd ftp (keyPath cfg kc.1) = keyPath cfg kc.1) :
    rewriteKeyJ cfg fs nd ftp kc = rewriteKey cfg fs kc := by
  have hr : resolveKeyJ cfg fs nd ftp kc.1 = resolveKey cfg fs kc.1 := by
    unfold resolveKeyJ resolveKey; rw [h]
  unfold rewriteKeyJ rewriteKey
  rw [hr]
  cases resolveKey cfg fs kc.1 with
  | panic s => rfl
  | ok o => rcases o with _ | ⟨a, r⟩ <;> rfl

/-- `rewritePathsJ` is `rewritePaths` as soon as the walk does not panic and the lookup returns
every key's own path (a generalisation of `rewritePathsJ_eq_rewritePaths`: the lookup may well be
switched on and find candidates, as long as each path is mapped to itself) -/
theorem rewritePathsJ_eq_of_lookup_id (cfg : Cfg) (fs : FS) (ord : List (List Bytes))
    (m : List (Bytes × Cov)) (hw : walkPanics cfg fs (m.map (·.1)) = false)
    (h : ∀ kc ∈ m, partialStepF fs cfg.sourceDir (needed cfg fs (m.map (·.1)))
      (fileToPaths fs ord cfg (m.map (·.1))) (keyPath cfg kc.1) = keyPath cfg kc.1) :
    rewritePathsJ cfg fs ord m = rewritePaths cfg fs m := by
  have hmap : m.map (rewriteKeyJ cfg fs (needed cfg fs (m.map (·.1))) (fileToPaths fs ord cfg (m.map (·.1))))
      = m.map (rewriteKey cfg fs) :=
    List.map_congr_left fun kc hkc => rewriteKeyJ_eq_of_id (h kc hkc)
  unfold rewritePathsJ rewritePaths
  simp only [hw, Bool.false_eq_true, if_false, hmap]
  cases cfg.sourceDir <;> rfl

/-- every covered path exists below the source dir (after prefix removal): the lookup is off -/
theorem needed_false_of_all_exist {cfg : Cfg} {fs : FS} {keys : List Bytes}
    (h : ∀ s, cfg.sourceDir = some s → ∀ k ∈ keys, fs.exists (push s (removePrefix cfg.prefixDir k)) = true) :
    needed cfg fs keys = false := by
  unfold needed
  cases hs : cfg.sourceDir with
  | none => rfl
  | some s =>
    simp only [Bool.and_eq_false_imp]
    intro _
    rw [List.any_eq_false]
    intro k hk
    simp [h s hs k hk]

/-- the canonical path of an existing file below a clean source dir exists, with the prefix dir
absent or equal to the source dir -/
theorem exists_canonical_key {cfg : Cfg} {fs : FS} {sn names : List Bytes}
    (hP : cfg.prefixDir = none ∨ cfg.prefixDir = some (render ⟨true, sn⟩))
    (hsn : ∀ n ∈ sn, RealName n) (hn : ∀ n ∈ names, RealName n) (hne : names ≠ [])
    (hres : fs.resolve (render ⟨true, sn ++ names⟩) = some (sn ++ names, .file)) :
    fs.exists (push (render ⟨true, sn⟩) (removePrefix cfg.prefixDir (render ⟨true, sn ++ names⟩))) = true := by
  have hK : push (render ⟨true, sn⟩) (removePrefix cfg.prefixDir (render ⟨true, sn ++ names⟩))
      = render ⟨true, sn ++ names⟩ := by
    rcases hP with hP | hP
    · simp [hP, removePrefix, push, hasRoot_render_true]
    · simp only [hP, removePrefix, stripPrefix_render hsn hn]
      exact push_render hsn hn hne
  rw [hK]; simp [FS.exists, hres]

/-- the canonical key of an existing file below a clean source dir NAMES A FILE below it after
prefix removal (prefix absent or equal to the source dir): since fix fdef150 the partial-path lookup
leaves it alone -/
theorem namesFile_canonical_key {cfg : Cfg} {fs : FS} {sn names : List Bytes}
    (hS : cfg.sourceDir = some (render ⟨true, sn⟩)) (hM : cfg.mapping = none)
    (hP : cfg.prefixDir = none ∨ cfg.prefixDir = some (render ⟨true, sn⟩))
    (hsn : ∀ n ∈ sn, RealName n ∧ 92 ∉ n) (hn : ∀ n ∈ names, RealName n ∧ 92 ∉ n) (hne : names ≠ [])
    (hres : fs.resolve (render ⟨true, sn ++ names⟩) = some (sn ++ names, .file)) :
    namesFile fs cfg.sourceDir (keyPath cfg (render ⟨true, sn ++ names⟩)) = true := by
  have hsn1 : ∀ n ∈ sn, RealName n := fun n h => (hsn n h).1
  have hn1 : ∀ n ∈ names, RealName n := fun n h => (hn n h).1
  have hall2 : ∀ n ∈ sn ++ names, 92 ∉ n := by
    intro n h; rcases List.mem_append.1 h with h | h
    · exact (hsn n h).2
    · exact (hn n h).2
  have hb : bsl (render ⟨true, sn ++ names⟩) = render ⟨true, sn ++ names⟩ :=
    bsl_id (noBackslash_render (np := ⟨true, sn ++ names⟩) hall2)
  have hK : push (render ⟨true, sn⟩) (keyPath cfg (render ⟨true, sn ++ names⟩)) = render ⟨true, sn ++ names⟩ := by
    rcases hP with hP | hP
    · simp [keyPath, hP, hM, applyMapping, hb, removePrefix, push, hasRoot_render_true]
    · simp only [keyPath, hP, hM, applyMapping, hb, removePrefix, stripPrefix_render hsn1 hn1]
      exact push_render hsn1 hn1 hne
  simp [namesFile, hS, hK, FS.isFile, hres]

/-! ### `add_results` when a canonical path need not be UTF-8 -/

theorem addCanonU_eq_addCanon (fs : FS) (src : Option Bytes) (key : Bytes)
    (h : ∀ s p, src = some s → fs.realpath (push s key) = some p → isUtf8 p = true) :
    addCanonU fs src key = addCanon fs src key := by
  unfold addCanonU addCanon
  cases src with
  | none => rfl
  | some s =>
    simp only
    cases hr : fs.realpath (push s key) with
    | none => rfl
    | some p => simp [h s p rfl hr]

/-! ### the html view -/

theorem htmlRecs_idem (rep : List Rec) : htmlRecs (htmlRecs rep) = htmlRecs rep := by
  unfold htmlRecs; rw [List.filter_filter]; simp

theorem shownH_of_nodup (rep : List Rec) (h : (rep.map (·.rel)).Nodup) : shownH rep = rep := by
  induction rep with
  | nil => rfl
  | cons r rest ih =>
    simp only [List.map_cons, List.nodup_cons] at h
    have hno : rest.any (fun r' => decide (r'.rel = r.rel)) = false := by
      rw [Bool.eq_false_iff]
      intro hany
      obtain ⟨r', hr', e⟩ := List.any_eq_true.1 hany
      exact h.1 (List.mem_map.2 ⟨r', hr', by simpa using e⟩)
    simp only [shownH, hno, Bool.false_eq_true, if_false]
    rw [ih h.2]

theorem eq_of_nodup_map {α β : Type} (f : α → β) (l : List α) (h : (l.map f).Nodup) :
    ∀ a ∈ l, ∀ b ∈ l, f a = f b → a = b := by
  induction l with
  | nil => intro a ha; cases ha
  | cons x l ih =>
    simp only [List.map_cons, List.nodup_cons] at h
    intro a ha b hb e
    rcases List.mem_cons.1 ha with rfl | ha' <;> rcases List.mem_cons.1 hb with rfl | hb'
    · rfl
    · exact absurd (List.mem_map.2 ⟨b, hb', e.symm⟩) h.1
    · exact absurd (List.mem_map.2 ⟨a, ha', e⟩) h.1
    · exact ih h.2 a ha' b hb' e

end Grcov.Rewrite
