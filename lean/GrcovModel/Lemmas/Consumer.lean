/-
Lemmas about the `Consumer` model: the worker directory (`writeAll`, `cleanDir`), what a notes
item reads in each mode, the isolation invariant, version parsing, `rename_single_files`.
-/
import GrcovModel.Consumer
namespace Grcov.Consumer
open Grcov AList

/-! ## the directory -/

/-- the entry a sequence of writes leaves under a name -/
def lastWrite : Dir → Bytes → Option Entry
  | [], _ => none
  | (k, e) :: ws, n =>
    match lastWrite ws n with
    | some e' => some e'
    | none => if k = n then some e else none

theorem writeAll_cons (d : Dir) (w : Bytes × Entry) (ws : Dir) :
    writeAll d (w :: ws) = writeAll (AList.set d w.1 w.2) ws := rfl

theorem get?_writeAll (d ws : Dir) (n : Bytes) :
    get? (writeAll d ws) n = match lastWrite ws n with | some e => some e | none => get? d n := by
  induction ws generalizing d with
  | nil => simp [writeAll, lastWrite]
  | cons w ws ih =>
    obtain ⟨k, e⟩ := w
    rw [writeAll_cons, ih, lastWrite]
    cases h : lastWrite ws n with
    | some e' => simp
    | none => simp only [get?_set]; split <;> rfl

/-- when the run writes a name, what is found under it does not depend on what was there -/
theorem get?_writeAll_of_written {ws : Dir} {n : Bytes} (h : (lastWrite ws n).isSome) (d d' : Dir) :
    get? (writeAll d ws) n = get? (writeAll d' ws) n := by
  rw [get?_writeAll, get?_writeAll]
  cases hl : lastWrite ws n with
  | some e => rfl
  | none => simp [hl] at h

theorem mem_set {d : Dir} {k : Bytes} {e : Entry} {x : Bytes × Entry} (h : x ∈ AList.set d k e) :
    x ∈ d ∨ x = (k, e) := by
  induction d with
  | nil => simp [AList.set] at h; exact Or.inr h
  | cons kv d ih =>
    obtain ⟨k', e'⟩ := kv
    unfold AList.set at h
    split at h
    · rename_i hk
      simp only [List.mem_cons] at h ⊢
      rcases h with h | h
      · subst hk; exact Or.inr h
      · exact Or.inl (Or.inr h)
    · simp only [List.mem_cons] at h ⊢
      rcases h with h | h
      · exact Or.inl (Or.inl h)
      · rcases ih h with h | h
        · exact Or.inl (Or.inr h)
        · exact Or.inr h

theorem mem_writeAll {d ws : Dir} {x : Bytes × Entry} (h : x ∈ writeAll d ws) : x ∈ d ∨ x ∈ ws := by
  induction ws generalizing d with
  | nil => exact Or.inl h
  | cons w ws ih =>
    rw [writeAll_cons] at h
    rcases ih h with h | h
    · rcases mem_set h with h | h
      · exact Or.inl h
      · exact Or.inr (by simp [h])
    · exact Or.inr (List.mem_cons_of_mem _ h)

/-- gcov wrote regular files only and the directory held none: a failed run leaves nothing -/
theorem cleanDir_writeAll_nil {ws : Dir} (h : ∀ w ∈ ws, w.2 ≠ .subdir) : cleanDir (writeAll [] ws) = [] := by
  unfold cleanDir
  rw [List.filter_eq_nil_iff]
  intro x hx
  rcases mem_writeAll hx with hx | hx
  · simp at hx
  · simp [h x hx]

/-! ## what a notes item reads -/

theorem singleRead_congr (env : Env) {d d' : Dir} (stem name : Bytes) (h : get? d name = get? d' name) :
    (singleRead env d stem name).2 = (singleRead env d' stem name).2 := by
  unfold singleRead
  rw [h]
  split
  · cases get? d' name with
    | none => rfl
    | some e =>
      cases e with
      | subdir => rfl
      | file c => dsimp only; split <;> rfl
  · rfl

theorem multiRead_dir (env : Env) (d : Dir) (stem : Bytes) (h : (multiRead env d stem).2 ≠ .panic) :
    (multiRead env d stem).1 = [] := by
  unfold multiRead at *
  split
  · rename_i hm; simp [hm] at h
  · rfl

theorem latch_ne_unknown (t : GcovType) (b : Bool) : latch t b ≠ .unknown := by
  cases t <;> cases b <;> simp [latch]

@[simp] theorem latch_single (b : Bool) : latch .single b = .single := rfl
@[simp] theorem latch_multi (b : Bool) : latch .multi b = .multi := rfl

/-- the mode a worker falls into when this notes file is the first it handles (in an empty
directory) -/
def modeOf (env : Env) (g : Bytes) : GcovType :=
  match fileName g with
  | some f => if (lastWrite (env.gcovRun g).writes (f ++ env.ext)).isSome then .single else .multi
  | none => .multi

/-- what an item yields when its worker is in mode `m` and the directory is empty -/
def solo (env : Env) (m : GcovType) (it : Item) : StepResult := (step env ⟨m, []⟩ it).2

def isLlvmPaths (it : Item) : Option (List Bytes) :=
  match it.format, it.item with
  | .profraw, .paths ps => some ps
  | .profdata, .paths ps => some ps
  | _, _ => none

/-- the tool contract under which a worker's items do not influence each other:
  * gcov writes regular files only;
  * every successful gcov run follows the same output convention `m` (its own
    `<notes file name><ext>` is among the files it writes: `single`; is not: `multi`). -/
structure Guard (env : Env) (m : GcovType) (items : List Item) : Prop where
  mode : m = .single ∨ m = .multi
  filesOnly : ∀ stem g, (⟨.gcno, .path stem g⟩ : Item) ∈ items → ∀ w ∈ (env.gcovRun g).writes, w.2 ≠ .subdir
  uniform : ∀ stem g, (⟨.gcno, .path stem g⟩ : Item) ∈ items → (env.gcovRun g).ok = true → modeOf env g = m

theorem Guard.mono {env : Env} {m : GcovType} {items items' : List Item} (G : Guard env m items)
    (h : ∀ it ∈ items', it ∈ items) : Guard env m items' where
  mode := G.mode
  filesOnly := fun stem g hg => G.filesOnly stem g (h _ hg)
  uniform := fun stem g hg => G.uniform stem g (h _ hg)

/-- the states from which an item behaves as on its own -/
def Good (m : GcovType) (st : WorkerState) : Prop :=
  match m with
  | .single => st.gcovType ≠ .multi
  | .multi => st.gcovType ≠ .single ∧ st.dir = []
  | .unknown => False

theorem good_init {m : GcovType} (h : m = .single ∨ m = .multi) : Good m init := by
  rcases h with h | h <;> subst h <;> simp [Good, init]

/-- the notes arm under the guard: the result is the solo result, and the state stays good -/
theorem stepPath_solo (env : Env) (m : GcovType) (stem g : Bytes)
    (hm : m = .single ∨ m = .multi)
    (hfiles : ∀ w ∈ (env.gcovRun g).writes, w.2 ≠ .subdir)
    (huni : (env.gcovRun g).ok = true → modeOf env g = m)
    (st : WorkerState) (hst : Good m st) :
    (stepPath env st stem g).2 = (stepPath env ⟨m, []⟩ stem g).2 ∧
      ((stepPath env st stem g).2 ≠ .panic → Good m (stepPath env st stem g).1) := by
  cases hok : (env.gcovRun g).ok with
  | false =>
    -- a failed run: rejected, directory cleaned
    have h1 : ∀ s : WorkerState, stepPath env s stem g = ({ s with dir := cleanDir (writeAll s.dir (env.gcovRun g).writes) }, .rejected) := by
      intro s; simp [stepPath, hok]
    rw [h1 st, h1 ⟨m, []⟩]
    refine ⟨rfl, fun _ => ?_⟩
    rcases hm with hm | hm <;> subst hm
    · exact hst
    · obtain ⟨ht, hd⟩ := hst
      refine ⟨ht, ?_⟩
      show cleanDir (writeAll st.dir _) = []
      rw [hd]; exact cleanDir_writeAll_nil hfiles
  | true =>
    have hmode := huni hok
    cases hf : fileName g with
    | none =>
      have h1 : ∀ s : WorkerState, (stepPath env s stem g).2 = .panic := by
        intro s; simp [stepPath, hok, hf]
      rw [h1 st, h1 ⟨m, []⟩]
      exact ⟨rfl, fun h => absurd rfl h⟩
    | some f =>
      have h1 : ∀ s : WorkerState, stepPath env s stem g =
          (match latch s.gcovType (get? (writeAll s.dir (env.gcovRun g).writes) (f ++ env.ext)).isSome with
            | .single => (⟨latch s.gcovType (get? (writeAll s.dir (env.gcovRun g).writes) (f ++ env.ext)).isSome,
                (singleRead env (writeAll s.dir (env.gcovRun g).writes) stem (f ++ env.ext)).1⟩,
                (singleRead env (writeAll s.dir (env.gcovRun g).writes) stem (f ++ env.ext)).2)
            | _ => (⟨latch s.gcovType (get? (writeAll s.dir (env.gcovRun g).writes) (f ++ env.ext)).isSome,
                (multiRead env (writeAll s.dir (env.gcovRun g).writes) stem).1⟩,
                (multiRead env (writeAll s.dir (env.gcovRun g).writes) stem).2)) := by
        intro s; simp only [stepPath, hok, hf]; rfl
      simp only [modeOf, hf] at hmode
      rcases hm with hm | hm <;> subst hm
      · -- single convention: the own file is written, whatever the directory held
        have hw : (lastWrite (env.gcovRun g).writes (f ++ env.ext)).isSome := by
          by_cases h : (lastWrite (env.gcovRun g).writes (f ++ env.ext)).isSome
          · exact h
          · simp [h] at hmode
        have hget : ∀ d, (get? (writeAll d (env.gcovRun g).writes) (f ++ env.ext)).isSome = true := by
          intro d
          rw [get?_writeAll]
          cases hl : lastWrite (env.gcovRun g).writes (f ++ env.ext) with
          | some e => rfl
          | none => simp [hl] at hw
        have hl : latch st.gcovType true = .single := by
          simp only [Good] at hst
          cases ht : st.gcovType <;> simp_all [latch]
        rw [h1 st, h1 ⟨.single, []⟩]
        simp only [hget, hl, latch_single]
        refine ⟨singleRead_congr env stem _ (get?_writeAll_of_written hw _ _), fun _ => ?_⟩
        simp [Good]
      · -- multi convention: the own file is not written, the directory was empty
        have hw : lastWrite (env.gcovRun g).writes (f ++ env.ext) = none := by
          cases hl : lastWrite (env.gcovRun g).writes (f ++ env.ext) with
          | none => rfl
          | some e => simp [hl] at hmode
        obtain ⟨ht, hd⟩ := hst
        have hget : (get? (writeAll [] (env.gcovRun g).writes) (f ++ env.ext)).isSome = false := by
          rw [get?_writeAll, hw]; rfl
        have hl : latch st.gcovType false = .multi := by
          cases ht' : st.gcovType <;> simp_all [latch]
        rw [h1 st, h1 ⟨.multi, []⟩]
        simp only [hd, hget, hl, latch_multi]
        refine ⟨by first | rfl | trivial, fun hp => ⟨by simp, ?_⟩⟩
        exact multiRead_dir env _ stem hp

theorem erase_set (d : Dir) (n : Bytes) (e : Entry) : AList.erase (AList.set d n e) n = AList.erase d n := by
  induction d with
  | nil => simp [AList.set, AList.erase]
  | cons kv d ih =>
    obtain ⟨k, e'⟩ := kv
    unfold AList.set
    by_cases hk : k = n
    · simp [hk, AList.erase]
    · simp [hk, AList.erase, ih]

theorem erase_of_absent {d : Dir} {n : Bytes} (h : get? d n = none) : AList.erase d n = d := by
  induction d with
  | nil => rfl
  | cons kv d ih =>
    obtain ⟨k, e⟩ := kv
    simp only [get?_cons] at h
    by_cases hk : k = n
    · simp [hk] at h
    · simp only [hk, if_false] at h
      simp [AList.erase, hk, ih h]

theorem rmFile_of_absent {d : Dir} {n : Bytes} (h : get? d n = none) : rmFile d n = d := by
  unfold rmFile; rw [h]; exact erase_of_absent h

/-- after a profile item the directory is the old one without a regular file `grcov.profdata`,
whatever the merge tool wrote -/
theorem stepLlvm_dir (env : Env) (st : WorkerState) (ps : List Bytes) (hb : env.hasBinary = true) :
    (stepLlvm env st (.paths ps)).1 = ⟨st.gcovType, rmFile st.dir PROFDATA⟩ := by
  have key : ∀ c, rmFile (if get? st.dir PROFDATA = some .subdir then st.dir
      else AList.set st.dir PROFDATA (.file c)) PROFDATA = rmFile st.dir PROFDATA := by
    intro c
    by_cases hs : get? st.dir PROFDATA = some .subdir
    · simp [hs]
    · simp only [hs, if_false]
      unfold rmFile
      rw [get?_set]
      simp only [if_true]
      rw [erase_set]
  unfold stepLlvm
  simp only [hb, Bool.not_true, Bool.false_eq_true, if_false]
  cases hp : (env.llvm ps).profdata with
  | none => cases (env.llvm ps).res <;> rfl
  | some c => cases (env.llvm ps).res <;> simp only [key c]

theorem stepLlvm_solo (env : Env) (m : GcovType) (it : ItemType)
    (st : WorkerState) (hst : Good m st) :
    (stepLlvm env st it).2 = (stepLlvm env ⟨m, []⟩ it).2 ∧
      ((stepLlvm env st it).2 ≠ .panic → Good m (stepLlvm env st it).1) := by
  cases hb : env.hasBinary with
  | false => simp only [stepLlvm, hb]; exact ⟨rfl, fun _ => hst⟩
  | true =>
    cases it with
    | paths ps =>
      refine ⟨?_, fun _ => ?_⟩
      · unfold stepLlvm
        simp only [hb, Bool.not_true, Bool.false_eq_true, if_false]
        cases (env.llvm ps).res <;> rfl
      · rw [stepLlvm_dir env st ps hb]
        cases m with
        | single => exact hst
        | multi =>
          obtain ⟨ht, hd⟩ := hst
          exact ⟨ht, by show rmFile st.dir PROFDATA = []; rw [hd]; rfl⟩
        | unknown => exact hst
    | path _ _ => simp only [stepLlvm, hb]; exact ⟨rfl, fun _ => hst⟩
    | content _ => simp only [stepLlvm, hb]; exact ⟨rfl, fun _ => hst⟩
    | buffers _ _ => simp only [stepLlvm, hb]; exact ⟨rfl, fun _ => hst⟩

/-- one step under the guard -/
theorem step_solo (env : Env) (m : GcovType) (items : List Item) (G : Guard env m items)
    (it : Item) (hit : it ∈ items) (st : WorkerState) (hst : Good m st) :
    (step env st it).2 = solo env m it ∧ ((step env st it).2 ≠ .panic → Good m (step env st it).1) := by
  obtain ⟨f, t⟩ := it
  unfold solo step
  cases f with
  | gcno =>
    cases t with
    | path stem g =>
      exact stepPath_solo env m stem g G.mode (G.filesOnly stem g hit) (G.uniform stem g hit) st hst
    | buffers stem b => dsimp only; cases env.compute stem b <;> exact ⟨rfl, fun _ => hst⟩
    | content c => exact ⟨rfl, fun _ => hst⟩
    | paths ps => exact ⟨rfl, fun _ => hst⟩
  | profraw => exact stepLlvm_solo env m t st hst
  | profdata => exact stepLlvm_solo env m t st hst
  | info =>
    cases t with
    | content c => dsimp only; cases env.parseLcov c <;> exact ⟨rfl, fun _ => hst⟩
    | path _ _ => exact ⟨rfl, fun _ => hst⟩
    | paths _ => exact ⟨rfl, fun _ => hst⟩
    | buffers _ _ => exact ⟨rfl, fun _ => hst⟩
  | jacocoXml =>
    cases t with
    | content c => dsimp only; cases env.parseJacoco c <;> exact ⟨rfl, fun _ => hst⟩
    | path _ _ => exact ⟨rfl, fun _ => hst⟩
    | paths _ => exact ⟨rfl, fun _ => hst⟩
    | buffers _ _ => exact ⟨rfl, fun _ => hst⟩

/-- keep the results up to and including the first panic (the worker is dead after it) -/
def cut : List StepResult → List StepResult
  | [] => []
  | .panic :: _ => [.panic]
  | r :: rs => r :: cut rs

theorem cut_of_no_panic {rs : List StepResult} (h : ∀ r ∈ rs, r ≠ .panic) : cut rs = rs := by
  induction rs with
  | nil => rfl
  | cons r rs ih =>
    have hr := h r (by simp)
    have := ih fun x hx => h x (List.mem_cons_of_mem _ hx)
    cases r <;> simp_all [cut]

theorem runItems_cons (env : Env) (st : WorkerState) (it : Item) (rest : List Item) :
    (runItems env st (it :: rest)).2 =
      if (step env st it).2 = .panic then [.panic]
      else (step env st it).2 :: (runItems env (step env st it).1 rest).2 := by
  rw [runItems]
  rcases h : step env st it with ⟨st', r⟩
  cases r <;> simp

/-- a worker's results are the solo results of its items (until it dies) -/
theorem runItems_solo (env : Env) (m : GcovType) (items : List Item) (G : Guard env m items)
    (st : WorkerState) (hst : Good m st) :
    (runItems env st items).2 = cut (items.map (solo env m)) := by
  induction items generalizing st with
  | nil => rfl
  | cons it rest ih =>
    obtain ⟨h1, h2⟩ := step_solo env m (it :: rest) G it (by simp) st hst
    rw [runItems_cons, h1]
    by_cases hp : solo env m it = .panic
    · simp [hp, cut]
    · have hg := h2 (by rw [h1]; exact hp)
      have := ih (G.mono fun x hx => List.mem_cons_of_mem _ hx) _ hg
      rw [this]
      simp only [hp, if_false, List.map_cons]
      cases hs : solo env m it <;> simp_all [cut]

/-! ## dispatch -/

inductive Reader where
  | gcov | compute | llvm | lcov | jacoco
deriving DecidableEq, Repr

/-- which reader a (format, item type) pair is handed to; `none` = "Invalid content type" -/
def readerOf : ItemFormat → ItemType → Option Reader
  | .gcno, .path _ _ => some .gcov
  | .gcno, .buffers _ _ => some .compute
  | .profraw, .paths _ => some .llvm
  | .profdata, .paths _ => some .llvm
  | .info, .content _ => some .lcov
  | .jacocoXml, .content _ => some .jacoco
  | _, _ => none

theorem step_of_no_reader (env : Env) (st : WorkerState) (f : ItemFormat) (t : ItemType)
    (h : readerOf f t = none) : step env st ⟨f, t⟩ = (st, .rejected) := by
  cases f <;> cases t <;> simp_all [readerOf, step, stepLlvm]

/-! ## MultipleFiles walk -/

theorem multiGo_isSome (env : Env) (d : Dir) (acc : Results) (failed : Bool)
    (h : ∀ w ∈ d, w.2 ≠ .subdir ∧ extension w.1 ≠ none) : (multiGo env d acc failed).isSome := by
  induction d generalizing acc failed with
  | nil => rfl
  | cons w d ih =>
    obtain ⟨n, e⟩ := w
    have hw := h (n, e) (by simp)
    have ih' := fun acc failed => ih acc failed fun x hx => h x (List.mem_cons_of_mem _ hx)
    unfold multiGo
    cases hx : extension n with
    | none => exact absurd hx hw.2
    | some x =>
      cases e with
      | subdir => exact absurd rfl hw.1
      | file c =>
        dsimp only
        split <;> exact ih' _ _

/-! ## rename_single_files -/

theorem renameSingle_length (rs : Results) (stem : Bytes) : (renameSingle rs stem).length = rs.length := by
  unfold renameSingle; split <;> simp

/-! ## gcov version -/

theorem ge910_iff (v : Ver) :
    ge910 v = true ↔ (v.major > 9 ∨ (v.major = 9 ∧ (v.minor > 1 ∨ (v.minor = 1 ∧ (v.patch > 0 ∨ v.pre = false))))) := by
  simp [ge910]

theorem EXT_GZ_ne_TEXT : EXT_GZ ≠ EXT_TEXT := by decide

theorem getLast?_filterMap_append {α β : Type} (f : α → Option β) (pre post : List α) (t : α) (v : β)
    (ht : f t = some v) (hpost : ∀ x ∈ post, f x = none) :
    ((pre ++ t :: post).filterMap f).getLast? = some v := by
  have : post.filterMap f = [] := by
    rw [List.filterMap_eq_nil_iff]; exact hpost
  simp [List.filterMap_append, ht, this]

/-! ## more directory lemmas -/

theorem mem_erase {d : Dir} {n : Bytes} {x : Bytes × Entry} (h : x ∈ AList.erase d n) : x ∈ d := by
  induction d with
  | nil => simp [AList.erase] at h
  | cons kv d ih =>
    obtain ⟨k, e⟩ := kv
    unfold AList.erase at h
    split at h
    · exact List.mem_cons_of_mem _ (ih h)
    · simp only [List.mem_cons] at h ⊢
      rcases h with h | h
      · exact Or.inl h
      · exact Or.inr (ih h)

theorem singleRead_dir_subset (env : Env) (d : Dir) (stem name : Bytes) :
    ∀ x ∈ (singleRead env d stem name).1, x ∈ d := by
  intro x hx
  unfold singleRead at hx
  split at hx
  · split at hx
    · exact hx
    · exact hx
    · split at hx
      · exact hx
      · exact mem_erase hx
  · exact hx

theorem singleRead_results_removed (env : Env) (d : Dir) (stem name : Bytes) (rs : Results)
    (h : (singleRead env d stem name).2 = .results rs) :
    get? (singleRead env d stem name).1 name = none := by
  unfold singleRead at h ⊢
  split
  · split
    · simp_all
    · simp_all
    · split
      · simp_all
      · simp [get?_erase]
  · simp_all

/-- what is needed on top of the contract for a worker never to die -/
structure PanicFree (env : Env) (m : GcovType) (items : List Item) : Prop where
  ext : m = .single → (endsWith env.ext GZ || endsWith env.ext GCOV) = true
  names : ∀ stem g, (⟨.gcno, .path stem g⟩ : Item) ∈ items → fileName g ≠ none
  multiExt : m = .multi → ∀ stem g, (⟨.gcno, .path stem g⟩ : Item) ∈ items →
    ∀ w ∈ (env.gcovRun g).writes, extension w.1 ≠ none
  llvm : ∀ it ∈ items, ∀ ps, isLlvmPaths it = some ps → (env.llvm ps).res ≠ .panic

theorem stepLlvm_ne_panic (env : Env) (st : WorkerState) (t : ItemType)
    (h : ∀ ps, t = .paths ps → (env.llvm ps).res ≠ .panic) : (stepLlvm env st t).2 ≠ .panic := by
  unfold stepLlvm
  split
  · simp
  · cases t with
    | paths ps =>
      have := h ps rfl
      dsimp only
      cases hr : (env.llvm ps).res <;> simp_all
    | path _ _ => simp
    | content _ => simp
    | buffers _ _ => simp

theorem solo_ne_panic (env : Env) (m : GcovType) (items : List Item) (G : Guard env m items)
    (P : PanicFree env m items) (it : Item) (hit : it ∈ items) : solo env m it ≠ .panic := by
  obtain ⟨f, t⟩ := it
  unfold solo step
  cases f with
  | gcno =>
    cases t with
    | path stem g =>
      dsimp only
      cases hok : (env.gcovRun g).ok with
      | false => simp [stepPath, hok]
      | true =>
        have hmode := G.uniform stem g hit hok
        cases hf : fileName g with
        | none => exact absurd hf (P.names stem g hit)
        | some fn =>
          simp only [modeOf, hf] at hmode
          rcases G.mode with hm | hm <;> subst hm
          · have hw : (lastWrite (env.gcovRun g).writes (fn ++ env.ext)).isSome := by
              by_cases h : (lastWrite (env.gcovRun g).writes (fn ++ env.ext)).isSome
              · exact h
              · simp [h] at hmode
            have hget : (get? (writeAll [] (env.gcovRun g).writes) (fn ++ env.ext)).isSome = true := by
              rw [get?_writeAll]
              cases hl : lastWrite (env.gcovRun g).writes (fn ++ env.ext) with
              | some e => rfl
              | none => simp [hl] at hw
            have hext := P.ext rfl
            simp only [stepPath, hok, hf, latch_single, Bool.not_true, Bool.false_eq_true, if_false]
            unfold singleRead
            rw [if_pos hext]
            cases hg : get? (writeAll [] (env.gcovRun g).writes) (fn ++ env.ext) with
            | none => simp [hg] at hget
            | some e =>
              cases e with
              | subdir => simp
              | file c => dsimp only; split <;> simp
          · simp only [stepPath, hok, hf, latch_multi, Bool.not_true, Bool.false_eq_true, if_false]
            unfold multiRead
            have := multiGo_isSome env (writeAll [] (env.gcovRun g).writes) [] false (by
              intro w hw
              rcases mem_writeAll hw with hw | hw
              · simp at hw
              · exact ⟨G.filesOnly stem g hit w hw, P.multiExt rfl stem g hit w hw⟩)
            cases hmg : multiGo env (writeAll [] (env.gcovRun g).writes) [] false with
            | none => simp [hmg] at this
            | some r => obtain ⟨rs, failed⟩ := r; dsimp only; split <;> simp
    | buffers stem b => dsimp only; cases env.compute stem b <;> simp
    | content c => simp
    | paths ps => simp
  | profraw => exact stepLlvm_ne_panic env _ t fun ps hps => P.llvm _ hit ps (by subst hps; rfl)
  | profdata => exact stepLlvm_ne_panic env _ t fun ps hps => P.llvm _ hit ps (by subst hps; rfl)
  | info =>
    cases t with
    | content c => dsimp only; cases env.parseLcov c <;> simp
    | path _ _ => simp
    | paths _ => simp
    | buffers _ _ => simp
  | jacocoXml =>
    cases t with
    | content c => dsimp only; cases env.parseJacoco c <;> simp
    | path _ _ => simp
    | paths _ => simp
    | buffers _ _ => simp

/-! ## closed witnesses -/

def gzName : Bytes := [97, 46, 103, 122]                       -- "a.gz"
def uGcno : Bytes := [117, 46, 103, 99, 110, 111]              -- "u.gcno"

/-- the witness of the former finding C20-profdata-left-in-worker-dir (fixed by 2cb069b): gcov ≥ 12
style (the output is not named after the notes file), a profile merge that writes `grcov.profdata`
(content 0, not a gcov file). Kept as a regression example. -/
def witnessEnvProfdata : Env where
  guess := false
  hasBinary := true
  ext := EXT_GZ
  gcovRun _ := ⟨true, [(gzName, .file 1)]⟩
  parseGz c := if c = 1 then some [([115], 1)] else none
  parseText _ := none
  parseLcov _ := none
  parseJacoco _ := none
  compute _ _ := none
  llvm _ := ⟨.ok [], some 0⟩

def witnessItemsProfdata : List Item := [⟨.profraw, .paths []⟩, ⟨.gcno, .path [117] uGcno⟩]

/-- the one-file convention broken twice: the run for "a.gcno" also writes "u.gcno.gcov", the run
for "u.gcno" succeeds without writing anything -/
def aGcno : Bytes := [97, 46, 103, 99, 110, 111]
def witnessEnvLeftover : Env where
  guess := false
  hasBinary := false
  ext := EXT_TEXT
  gcovRun g := if g = aGcno then ⟨true, [(aGcno ++ EXT_TEXT, .file 1), (uGcno ++ EXT_TEXT, .file 2)]⟩ else ⟨true, []⟩
  parseGz _ := none
  parseText c := some [([115], c)]
  parseLcov _ := none
  parseJacoco _ := none
  compute _ _ := none
  llvm _ := ⟨.err, none⟩

def witnessItemsLeftover : List Item := [⟨.gcno, .path [97] aGcno⟩, ⟨.gcno, .path [117] uGcno⟩]

/-- MultipleFiles mode and a file without extension -/
def witnessEnvNoExt : Env where
  guess := false
  hasBinary := false
  ext := EXT_TEXT
  gcovRun _ := ⟨true, [([110, 111, 101, 120, 116], .file 1)]⟩
  parseGz _ := none
  parseText c := some [([115], c)]
  parseLcov _ := none
  parseJacoco _ := none
  compute _ _ := none
  llvm _ := ⟨.err, none⟩

end Grcov.Consumer
