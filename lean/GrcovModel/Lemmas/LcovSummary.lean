/-
The summary lines of the lcov writer (`LF`, `LH`, `BRF`, `BRH`, `FNF`, `FNH`) as counts over the
records that are listed in the same section (C03, lcov clause). Model: `Lcov.writerRecs`
(Lemmas/LcovWriter.lean); link to the figures of C13 (`Stats.lcovRec`).
-/
import GrcovModel.Lemmas.LcovWriter
import GrcovModel.Lemmas.Stats
namespace Grcov.Lcov
open Grcov AList Grcov.Lcov.Spec

/-- number of `DA` records -/
def countDa (rs : List Rec) : Nat := rs.countP fun r => match r with
  | .da .. => true
  | _ => false
/-- number of `DA` records with a count other than 0 -/
def countDaHit (rs : List Rec) : Nat := rs.countP fun r => match r with
  | .da _ c _ => decide (0 < c.val)
  | _ => false
/-- number of `BRDA` records -/
def countBrda (rs : List Rec) : Nat := rs.countP fun r => match r with
  | .brda .. => true
  | _ => false
/-- number of `BRDA` records marked taken (last field `1`, not `-`) -/
def countBrdaTaken (rs : List Rec) : Nat := rs.countP fun r => match r with
  | .brda _ _ _ _ t => takenOf t
  | _ => false
/-- number of `FN` records -/
def countFn (rs : List Rec) : Nat := rs.countP fun r => match r with
  | .fn .. => true
  | _ => false
/-- number of `FNDA` records with a count other than 0 -/
def countFndaHit (rs : List Rec) : Nat := rs.countP fun r => match r with
  | .fnda c _ => decide (c.val ≠ 0)
  | _ => false

theorem countDa_daRecs (ls : List (Nat × Nat)) :
    countDa (daRecs ls) = ls.length ∧
    countDaHit (daRecs ls) = (ls.filter fun lc => decide (lc.2 > 0)).length := by
  constructor
  · simp [countDa, daRecs, List.countP_map, Function.comp_def]
  · simp only [countDaHit, daRecs, List.countP_map]
    rw [List.countP_eq_length_filter]
    congr 1
    apply List.filter_congr
    intro lc _
    simp [decDigits_val]

theorem slotRecords_length (l n : Nat) (v : List Bool) : (slotRecords l n v).length = v.length := by
  induction v generalizing n with
  | nil => rfl
  | cons t v ih => simp [slotRecords, ih]

theorem slotRecords_taken (l n : Nat) (v : List Bool) :
    (slotRecords l n v).countP (fun r => r.2.2) = (v.filter id).length := by
  induction v generalizing n with
  | nil => rfl
  | cons t v ih => cases t <;> simp [slotRecords, ih]

theorem brdaRecords_length_sum (bs : List (Nat × List Bool)) :
    (brdaRecords bs).length = (bs.map fun lv => lv.2.length).sum := by
  induction bs with
  | nil => rfl
  | cons lv bs ih =>
    simp only [brdaRecords, List.flatMap_cons, List.length_append, slotRecords_length, List.map_cons,
      List.sum_cons] at ih ⊢
    rw [ih]

theorem brdaRecords_taken (bs : List (Nat × List Bool)) :
    (brdaRecords bs).countP (fun r => r.2.2) = (bs.map fun lv => (lv.2.filter id).length).sum := by
  induction bs with
  | nil => rfl
  | cons lv bs ih =>
    simp only [brdaRecords, List.flatMap_cons, List.countP_append, slotRecords_taken, List.map_cons,
      List.sum_cons] at ih ⊢
    rw [ih]

theorem countBrda_brdaRecs (bs : List (Nat × List Bool)) :
    countBrda (brdaRecs bs) = (bs.map fun lv => lv.2.length).sum ∧
    countBrdaTaken (brdaRecs bs) = (bs.map fun lv => (lv.2.filter id).length).sum := by
  constructor
  · simp [countBrda, brdaRecs, List.countP_map, Function.comp_def, brdaRecords_length_sum]
  · rw [← brdaRecords_taken]
    simp only [countBrdaTaken, brdaRecs, List.countP_map]
    apply List.countP_congr
    intro r _
    cases h : r.2.2 <;> simp [h, takenOf]

theorem countFn_fnRecs (fs : List (Name × Fn)) :
    countFn (fnRecs fs) = fs.length ∧
    countFndaHit (fndaRecs fs) = (fs.filter fun nf => nf.2.executed).length := by
  constructor
  · simp [countFn, fnRecs, List.countP_map, Function.comp_def]
  · simp only [countFndaHit, fndaRecs, List.countP_map]
    rw [List.countP_eq_length_filter]
    congr 1
    apply List.filter_congr
    intro nf _
    cases h : nf.2.executed <;> simp [h, decDigits_val]

/-- the writer's records with every summary figure written as the count of the records listed -/
theorem writerRecs_summaries (c : Cov) :
    writerRecs c =
      fnRecs c.functions ++ fndaRecs c.functions
        ++ (if c.functions.isEmpty then [] else
              [keyedSummary [70, 78, 70] (countFn (fnRecs c.functions)),
               keyedSummary [70, 78, 72] (countFndaHit (fndaRecs c.functions))])
        ++ brdaRecs c.branches
        ++ [keyedSummary [66, 82, 70] (countBrda (brdaRecs c.branches)),
            keyedSummary [66, 82, 72] (countBrdaTaken (brdaRecs c.branches))]
        ++ daRecs c.lines
        ++ [lineSummary 70 (countDa (daRecs c.lines)), lineSummary 72 (countDaHit (daRecs c.lines))] := by
  rw [(countFn_fnRecs c.functions).1, (countFn_fnRecs c.functions).2,
    (countBrda_brdaRecs c.branches).1, (countBrda_brdaRecs c.branches).2,
    (countDa_daRecs c.lines).1, (countDa_daRecs c.lines).2]
  rfl

/-- the same figures are the ones C13 computes (`Stats.lcovRec`) -/
theorem summaries_stats (c : Cov) :
    (Stats.lcovRec c).lf = countDa (daRecs c.lines) ∧
    (Stats.lcovRec c).lh = countDaHit (daRecs c.lines) ∧
    (Stats.lcovRec c).brf = countBrda (brdaRecs c.branches) ∧
    (Stats.lcovRec c).brh = countBrdaTaken (brdaRecs c.branches) ∧
    (Stats.lcovRec c).fn = (if c.functions.isEmpty then none
      else some (countFn (fnRecs c.functions), countFndaHit (fndaRecs c.functions))) := by
  rw [(countFn_fnRecs c.functions).1, (countFn_fnRecs c.functions).2,
    (countBrda_brdaRecs c.branches).1, (countBrda_brdaRecs c.branches).2,
    (countDa_daRecs c.lines).1, (countDa_daRecs c.lines).2]
  refine ⟨rfl, ?_, ?_, ?_, ?_⟩
  · simp [Stats.lcovRec, Stats.countPos, List.countP_eq_length_filter]
  · simp [Stats.lcovRec, Stats.lcovBranchLoop_eq, Stats.brTotal]
  · simp [Stats.lcovRec, Stats.lcovBranchLoop_eq, Stats.brTaken, List.countP_eq_length_filter]
  · simp [Stats.lcovRec, Stats.fnExecuted, List.countP_eq_length_filter]

/-- a summary line prints its figure in decimal: read back, it is that figure -/
theorem summary_value (n : Nat) : valFrom 0 (dec (n + 1) n) = n := dec_val (n + 1) n (by omega)

end Grcov.Lcov
