/-
What LITERAL patterns mean (GrcovModel/Regex/Match.lean): a chain of literals matches exactly the
occurrences of its text; with `^` the occurrence is a prefix of the line, with `$` a suffix, with both
the whole line.
-/
import GrcovModel.Lemmas.RegexMatch
import GrcovModel.Lemmas.RegexParse
namespace Grcov.Regex

theorem M_catOf_cons (h : Chars) (a : Ast) (as : List Ast) (i j : Nat) :
    M h (catOf (a :: as)) i j ↔ ∃ k, M h a i k ∧ M h (catOf as) k j := by
  cases as with
  | nil =>
    simp only [catOf, M]
    exact ⟨fun hm => ⟨j, hm, rfl⟩, fun ⟨k, hm, e⟩ => e ▸ hm⟩
  | cons b r => simp only [catOf, M]

theorem M_catOf_append (h : Chars) : ∀ (xs ys : List Ast) (i j : Nat),
    M h (catOf (xs ++ ys)) i j ↔ ∃ k, M h (catOf xs) i k ∧ M h (catOf ys) k j
  | [], ys, i, j => by
    simp only [List.nil_append, catOf, M]
    exact ⟨fun hm => ⟨i, rfl, hm⟩, fun ⟨k, e, hm⟩ => e ▸ hm⟩
  | x :: xs, ys, i, j => by
    rw [List.cons_append, M_catOf_cons]
    constructor
    · rintro ⟨k, hx, hm⟩
      obtain ⟨k', h1, h2⟩ := (M_catOf_append h xs ys k j).1 hm
      exact ⟨k', (M_catOf_cons h x xs i k').2 ⟨k, hx, h1⟩, h2⟩
    · rintro ⟨k', hm, h2⟩
      obtain ⟨k, hx, h1⟩ := (M_catOf_cons h x xs i k').1 hm
      exact ⟨k, hx, (M_catOf_append h xs ys k j).2 ⟨k', h1, h2⟩⟩

theorem cons_prefix_drop (c : Nat) (cs h : Chars) (i : Nat) :
    c :: cs <+: h.drop i ↔ h[i]? = some c ∧ cs <+: h.drop (i + 1) := by
  have hd : (h.drop i).head? = h[i]? := by simp [List.head?_drop]
  have ht : (h.drop i).tail = h.drop (i + 1) := by simp [List.tail_drop]
  rw [← hd, ← ht]
  cases h.drop i with
  | nil => simp
  | cons x t =>
    simp only [List.head?_cons, Option.some.injEq, List.tail_cons]
    constructor
    · intro hp
      have := List.cons_prefix_cons.1 hp
      exact ⟨this.1.symm, this.2⟩
    · rintro ⟨rfl, hp⟩
      exact List.cons_prefix_cons.2 ⟨rfl, hp⟩

/-- a chain of literals matches from `i` to `j` iff the text stands at position `i` -/
theorem M_lits (h : Chars) : ∀ (cs : Chars) (i j : Nat),
    M h (catOf (cs.map Ast.lit)) i j ↔ j = i + cs.length ∧ cs <+: h.drop i
  | [], i, j => by simp [catOf, M]
  | c :: cs, i, j => by
    rw [List.map_cons, M_catOf_cons, cons_prefix_drop]
    simp only [M]
    constructor
    · rintro ⟨k, ⟨hc, rfl⟩, hm⟩
      obtain ⟨rfl, hp⟩ := (M_lits h cs (i + 1) j).1 hm
      exact ⟨by simp; omega, hc, hp⟩
    · rintro ⟨rfl, hc, hp⟩
      exact ⟨i + 1, ⟨hc, rfl⟩, (M_lits h cs (i + 1) _).2 ⟨by simp; omega, hp⟩⟩

theorem M_anchored (h : Chars) (pre post : Bool) (cs : Chars) (i j : Nat) :
    M h (anchoredAst pre post cs) i j ↔
      (pre = true → i = 0) ∧ j = i + cs.length ∧ cs <+: h.drop i ∧ (post = true → j = h.length) := by
  unfold anchoredAst
  rw [M_catOf_append, ]
  constructor
  · rintro ⟨k, h1, h2⟩
    obtain ⟨k0, h0, hl⟩ := (M_catOf_append h _ _ i k).1 h1
    obtain ⟨rfl, hp⟩ := (M_lits h cs k0 k).1 hl
    have e0 : k0 = i ∧ (pre = true → i = 0) := by
      cases pre
      · simp [catOf, M] at h0; exact ⟨h0, by simp⟩
      · simp [catOf, M, lookHolds] at h0; exact ⟨h0.2, fun _ => h0.1⟩
    obtain ⟨rfl, hpre⟩ := e0
    have e1 : j = k0 + cs.length ∧ (post = true → j = h.length) := by
      cases post
      · simp [catOf, M] at h2; exact ⟨h2, by simp⟩
      · simp [catOf, M, lookHolds] at h2; exact ⟨h2.2, fun _ => by omega⟩
    exact ⟨hpre, e1.1, hp, e1.2⟩
  · rintro ⟨hpre, rfl, hp, hpost⟩
    refine ⟨i + cs.length, (M_catOf_append h _ _ i _).2 ⟨i, ?_, (M_lits h cs i _).2 ⟨rfl, hp⟩⟩, ?_⟩
    · cases pre
      · simp [catOf, M]
      · simp [catOf, M, lookHolds, hpre rfl]
    · cases post
      · simp [catOf, M]
      · simp [catOf, M, lookHolds, hpost rfl]

theorem prefix_drop_le {cs h : Chars} {i : Nat} (hp : cs <+: h.drop i) : i + cs.length ≤ h.length ∨ cs = [] := by
  have := hp.length_le
  simp only [List.length_drop] at this
  rcases Nat.lt_or_ge i h.length with hl | hl
  · left; omega
  · right; have : cs.length = 0 := by omega
    exact List.eq_nil_of_length_eq_zero this

/-- unanchored: the text occurs in the line -/
theorem matches_literal (cs h : Chars) : Matches (anchoredAst false false cs) h ↔ cs <:+: h := by
  unfold Matches
  constructor
  · rintro ⟨i, j, _, hm⟩
    obtain ⟨_, _, hp, _⟩ := (M_anchored h false false cs i j).1 hm
    exact List.IsInfix.trans hp.isInfix (List.drop_suffix i h).isInfix
  · rintro ⟨s, t, rfl⟩
    refine ⟨s.length, s.length + cs.length, by simp, (M_anchored _ false false cs _ _).2 ⟨by simp, rfl, ?_, by simp⟩⟩
    rw [List.append_assoc, List.drop_left]
    exact List.prefix_append cs t

/-- `^text`: the line begins with the text -/
theorem matches_prefix (cs h : Chars) : Matches (anchoredAst true false cs) h ↔ cs <+: h := by
  unfold Matches
  constructor
  · rintro ⟨i, j, _, hm⟩
    obtain ⟨h0, _, hp, _⟩ := (M_anchored h true false cs i j).1 hm
    have := h0 rfl; subst this; simpa using hp
  · intro hp
    exact ⟨0, cs.length, Nat.zero_le _, (M_anchored h true false cs 0 _).2 ⟨fun _ => rfl, by simp, by simpa using hp, by simp⟩⟩

/-- `text$`: the line ends with the text -/
theorem matches_suffix (cs h : Chars) : Matches (anchoredAst false true cs) h ↔ cs <:+ h := by
  unfold Matches
  constructor
  · rintro ⟨i, j, hi, hm⟩
    obtain ⟨_, rfl, hp, h1⟩ := (M_anchored h false true cs i j).1 hm
    have hlen := h1 rfl
    obtain ⟨t, ht⟩ := hp
    have : t = [] := by
      have := congrArg List.length ht
      simp only [List.length_append, List.length_drop] at this
      exact List.eq_nil_of_length_eq_zero (by omega)
    subst this
    rw [List.append_nil] at ht
    rw [ht]; exact List.drop_suffix i h
  · rintro ⟨s, rfl⟩
    refine ⟨s.length, s.length + cs.length, by simp, (M_anchored _ false true cs _ _).2 ⟨by simp, rfl, ?_, by simp⟩⟩
    rw [List.drop_left]
    exact List.prefix_refl cs

/-- `^text$`: the line IS the text -/
theorem matches_whole (cs h : Chars) : Matches (anchoredAst true true cs) h ↔ h = cs := by
  unfold Matches
  constructor
  · rintro ⟨i, j, _, hm⟩
    obtain ⟨h0, rfl, hp, h1⟩ := (M_anchored h true true cs i j).1 hm
    have := h0 rfl; subst this
    have hlen := h1 rfl
    simp only [List.drop_zero] at hp
    exact (List.IsPrefix.eq_of_length hp (by omega)).symm
  · rintro rfl
    exact ⟨0, h.length, Nat.zero_le _, (M_anchored h true true h 0 _).2 ⟨fun _ => rfl, by simp, by simp, fun _ => rfl⟩⟩

/-! ### the repetition operators in their familiar form -/

theorem M_opt (h : Chars) (a : Ast) (i j : Nat) : M h (.rep 0 (some 1) a) i j ↔ j = i ∨ M h a i j := by
  simp only [M]
  constructor
  · rintro ⟨n, _, h2, hI⟩
    have := h2 1 rfl
    match n, hI with
    | 0, hI => exact Or.inl hI
    | 1, hI => exact Or.inr (Iter_one.1 hI)
    | n + 2, _ => omega
  · rintro (rfl | hm)
    · exact ⟨0, Nat.le_refl _, fun _ _ => Nat.zero_le _, rfl⟩
    · exact ⟨1, Nat.zero_le _, fun m hm' => by cases hm'; exact Nat.le_refl _, Iter_one.2 hm⟩

theorem M_star (h : Chars) (a : Ast) (i j : Nat) :
    M h (.rep 0 none a) i j ↔ j = i ∨ ∃ k, M h a i k ∧ M h (.rep 0 none a) k j := by
  simp only [M]
  constructor
  · rintro ⟨n, _, _, hI⟩
    cases n with
    | zero => exact Or.inl hI
    | succ n =>
      obtain ⟨k, hr, hI'⟩ := hI
      exact Or.inr ⟨k, hr, n, Nat.zero_le _, (fun _ hm => nomatch hm), hI'⟩
  · rintro (rfl | ⟨k, hr, n, _, _, hI⟩)
    · exact ⟨0, Nat.le_refl _, (fun _ hm => nomatch hm), rfl⟩
    · exact ⟨n + 1, Nat.zero_le _, (fun _ hm => nomatch hm), k, hr, hI⟩

theorem M_plus (h : Chars) (a : Ast) (i j : Nat) :
    M h (.rep 1 none a) i j ↔ ∃ k, M h a i k ∧ M h (.rep 0 none a) k j := by
  simp only [M]
  constructor
  · rintro ⟨n, h1, _, hI⟩
    cases n with
    | zero => omega
    | succ n =>
      obtain ⟨k, hr, hI'⟩ := hI
      exact ⟨k, hr, n, Nat.zero_le _, (fun _ hm => nomatch hm), hI'⟩
  · rintro ⟨k, hr, n, _, _, hI⟩
    exact ⟨n + 1, by omega, (fun _ hm => nomatch hm), k, hr, hI⟩

theorem M_exact (h : Chars) (a : Ast) (n i j : Nat) :
    M h (.rep n (some n) a) i j ↔ Iter (M h a) n i j := by
  simp only [M]
  constructor
  · rintro ⟨m, h1, h2, hI⟩
    have := h2 n rfl
    have : m = n := by omega
    subst this; exact hI
  · intro hI
    exact ⟨n, Nat.le_refl _, fun m hm => by cases hm; exact Nat.le_refl _, hI⟩

end Grcov.Regex
