/-
Helper lemmas for C03 part CobAde (`GrcovModel/Writers/CobAde.lean`). Core Lean only.
-/
import GrcovModel.Writers.CobAde
import GrcovModel.Lemmas.Stats
namespace Grcov.Writers.CobAde
open Grcov AList Grcov.Stats Grcov.Writers

/-! ## `func_end`: the least function start above `s`, else one past the last line -/

/-- the step of `Stats.minAbove` -/
def minStep (s : Nat) (m : Option Nat) (x : Nat) : Option Nat :=
  if s < x then (match m with
                 | none => some x
                 | some y => some (min x y)) else m

theorem minAbove_eq_foldl (xs : List Nat) (s : Nat) : minAbove xs s = xs.foldl (minStep s) none := rfl

theorem minFold_spec (s : Nat) (xs : List Nat) (acc : Option Nat) :
    match xs.foldl (minStep s) acc with
    | none => acc = none ∧ ∀ x ∈ xs, x ≤ s
    | some m => (acc = some m ∨ (m ∈ xs ∧ s < m)) ∧ (∀ x ∈ xs, s < x → m ≤ x) ∧
                (∀ a, acc = some a → m ≤ a) := by
  induction xs generalizing acc with
  | nil =>
    cases acc with
    | none => simp
    | some a => simp
  | cons x xs ih =>
    rw [List.foldl_cons]
    have h := ih (minStep s acc x)
    cases hr : xs.foldl (minStep s) (minStep s acc x) with
    | none =>
      rw [hr] at h
      obtain ⟨h1, h2⟩ := h
      unfold minStep at h1
      by_cases hx : s < x
      · simp only [hx, if_true] at h1
        cases acc <;> simp at h1
      · simp only [hx, if_false] at h1
        refine ⟨h1, ?_⟩
        intro y hy
        simp only [List.mem_cons] at hy
        rcases hy with hy | hy
        · subst hy; omega
        · exact h2 y hy
    | some m =>
      rw [hr] at h
      obtain ⟨h1, h2, h3⟩ := h
      simp only
      unfold minStep at h1 h3
      by_cases hx : s < x
      · simp only [hx, if_true] at h1 h3
        cases acc with
        | none =>
          simp only at h1 h3
          have hmx : m ≤ x := h3 x rfl
          refine ⟨?_, ?_, by simp⟩
          · right
            rcases h1 with h1 | ⟨h1, h1'⟩
            · simp at h1; subst h1; exact ⟨by simp, hx⟩
            · exact ⟨List.mem_cons_of_mem _ h1, h1'⟩
          · intro y hy hsy
            simp only [List.mem_cons] at hy
            rcases hy with hy | hy
            · subst hy; exact hmx
            · exact h2 y hy hsy
        | some a =>
          simp only at h1 h3
          have hm : m ≤ min x a := h3 _ rfl
          refine ⟨?_, ?_, ?_⟩
          · rcases h1 with h1 | ⟨h1, h1'⟩
            · simp at h1
              by_cases hxa : x ≤ a
              · right
                have : min x a = x := Nat.min_eq_left hxa
                rw [this] at h1; subst h1; exact ⟨by simp, hx⟩
              · left
                have : min x a = a := Nat.min_eq_right (by omega)
                rw [this] at h1; subst h1; rfl
            · right; exact ⟨List.mem_cons_of_mem _ h1, h1'⟩
          · intro y hy hsy
            simp only [List.mem_cons] at hy
            rcases hy with hy | hy
            · subst hy; exact Nat.le_trans hm (Nat.min_le_left _ _)
            · exact h2 y hy hsy
          · intro b hb
            simp at hb; subst hb
            exact Nat.le_trans hm (Nat.min_le_right _ _)
      · simp only [hx, if_false] at h1 h3
        refine ⟨?_, ?_, h3⟩
        · rcases h1 with h1 | ⟨h1, h1'⟩
          · exact Or.inl h1
          · exact Or.inr ⟨List.mem_cons_of_mem _ h1, h1'⟩
        · intro y hy hsy
          simp only [List.mem_cons] at hy
          rcases hy with hy | hy
          · subst hy; exact absurd hsy hx
          · exact h2 y hy hsy

/-- `m` is the least element of `xs` above `s` -/
def LeastAbove (xs : List Nat) (s m : Nat) : Prop := m ∈ xs ∧ s < m ∧ ∀ x ∈ xs, s < x → m ≤ x

theorem LeastAbove.unique {xs : List Nat} {s m m' : Nat} (h : LeastAbove xs s m)
    (h' : LeastAbove xs s m') : m = m' :=
  Nat.le_antisymm (h.2.2 m' h'.1 h'.2.1) (h'.2.2 m h.1 h.2.1)

theorem minAbove_none {xs : List Nat} {s : Nat} : minAbove xs s = none ↔ ∀ x ∈ xs, x ≤ s := by
  have h := minFold_spec s xs none
  rw [minAbove_eq_foldl]
  constructor
  · intro hn; rw [hn] at h; exact h.2
  · intro hall
    cases hr : xs.foldl (minStep s) none with
    | none => rfl
    | some m =>
      rw [hr] at h
      rcases h.1 with h1 | ⟨h1, h1'⟩
      · simp at h1
      · have := hall m h1; omega

theorem minAbove_some {xs : List Nat} {s m : Nat} : minAbove xs s = some m ↔ LeastAbove xs s m := by
  have h := minFold_spec s xs none
  rw [minAbove_eq_foldl]
  constructor
  · intro hs; rw [hs] at h
    rcases h.1 with h1 | ⟨h1, h1'⟩
    · simp at h1
    · exact ⟨h1, h1', h.2.1⟩
  · intro hl
    cases hr : xs.foldl (minStep s) none with
    | none =>
      rw [hr] at h
      have := h.2 m hl.1; have := hl.2.1; omega
    | some m' =>
      rw [hr] at h
      rcases h.1 with h1 | ⟨h1, h1'⟩
      · simp at h1
      · have : LeastAbove xs s m' := ⟨h1, h1', h.2.1⟩
        rw [this.unique hl]

/-- the start lines of the functions of a file -/
def starts (c : Cov) : List Nat := c.functions.map fun nf => nf.2.start

/-- what `func_end` is, stated without the algorithm: the least function start above `s` when
there is one, else one past the last line key -/
def IsFuncEnd (c : Cov) (s e : Nat) : Prop :=
  LeastAbove (starts c) s e ∨ ((∀ x ∈ starts c, x ≤ s) ∧ e = maxKey c.lines + 1)

theorem funcEnd_spec (c : Cov) (s : Nat) : IsFuncEnd c s (funcEnd c s) := by
  unfold funcEnd
  cases h : minAbove (c.functions.map fun nf => nf.2.start) s with
  | none => exact Or.inr ⟨minAbove_none.1 h, rfl⟩
  | some m => exact Or.inl (minAbove_some.1 h)

theorem IsFuncEnd.unique {c : Cov} {s e e' : Nat} (h : IsFuncEnd c s e) (h' : IsFuncEnd c s e') :
    e = e' := by
  rcases h with h | ⟨h, he⟩ <;> rcases h' with h' | ⟨h', he'⟩
  · exact h.unique h'
  · have := h' e h.1; have := h.2.1; omega
  · have := h e' h'.1; have := h'.2.1; omega
  · rw [he, he']

theorem funcEnd_eq_iff (c : Cov) (s e : Nat) : funcEnd c s = e ↔ IsFuncEnd c s e :=
  ⟨fun h => h ▸ funcEnd_spec c s, fun h => (funcEnd_spec c s).unique h⟩

/-- a greater start line bounds the range -/
theorem funcEnd_le_start (c : Cov) (s : Nat) {g : Name × Fn} (hg : g ∈ c.functions)
    (hs : s < g.2.start) : funcEnd c s ≤ g.2.start := by
  have hmem : g.2.start ∈ starts c := List.mem_map.2 ⟨g, hg, rfl⟩
  rcases funcEnd_spec c s with h | ⟨h, _⟩
  · exact h.2.2 _ hmem hs
  · have := h _ hmem; omega

/-- an instrumented line below every greater start line is inside the range -/
theorem lt_funcEnd (c : Cov) (s l : Nat) (hl : l ∈ keys c.lines)
    (h : ∀ g ∈ c.functions, s < g.2.start → l < g.2.start) : l < funcEnd c s := by
  rcases funcEnd_spec c s with hs | ⟨_, he⟩
  · obtain ⟨g, hg, hge⟩ := List.mem_map.1 hs.1
    have := h g hg (by rw [hge]; exact hs.2.1)
    rw [hge] at this; exact this
  · rw [he]
    obtain ⟨kv, hkv, rfl⟩ := List.mem_map.1 hl
    have := le_maxKey c.lines kv hkv
    omega

/-! ## the loop as written: sort, then the first start above -/

theorem mem_insertSorted (x y : Nat) (ys : List Nat) : y ∈ insertSorted x ys ↔ y = x ∨ y ∈ ys := by
  induction ys with
  | nil => simp [insertSorted]
  | cons z zs ih =>
    unfold insertSorted
    by_cases h : x ≤ z
    · simp [h]
    · simp only [h, if_false, List.mem_cons, ih]
      constructor
      · rintro (h1 | h1 | h1)
        · exact Or.inr (Or.inl h1)
        · exact Or.inl h1
        · exact Or.inr (Or.inr h1)
      · rintro (h1 | h1 | h1)
        · exact Or.inr (Or.inl h1)
        · exact Or.inl h1
        · exact Or.inr (Or.inr h1)

theorem mem_isort (y : Nat) (xs : List Nat) : y ∈ isort xs ↔ y ∈ xs := by
  induction xs with
  | nil => simp [isort]
  | cons x xs ih => simp [isort, mem_insertSorted, ih]

theorem sorted_insertSorted (x : Nat) (ys : List Nat) (h : ys.Pairwise (· ≤ ·)) :
    (insertSorted x ys).Pairwise (· ≤ ·) := by
  induction ys with
  | nil => simp [insertSorted]
  | cons z zs ih =>
    unfold insertSorted
    have hz := List.pairwise_cons.1 h
    by_cases hx : x ≤ z
    · simp only [hx, if_true]
      refine List.pairwise_cons.2 ⟨?_, h⟩
      intro a ha
      simp only [List.mem_cons] at ha
      rcases ha with ha | ha
      · subst ha; exact hx
      · exact Nat.le_trans hx (hz.1 a ha)
    · simp only [hx, if_false]
      refine List.pairwise_cons.2 ⟨?_, ih hz.2⟩
      intro a ha
      rcases (mem_insertSorted x a zs).1 ha with ha | ha
      · subst ha; omega
      · exact hz.1 a ha

theorem sorted_isort (xs : List Nat) : (isort xs).Pairwise (· ≤ ·) := by
  induction xs with
  | nil => simp [isort]
  | cons x xs ih => exact sorted_insertSorted x _ ih

theorem firstAbove_sorted (s : Nat) (xs : List Nat) (h : xs.Pairwise (· ≤ ·)) :
    match firstAbove s xs with
    | none => ∀ x ∈ xs, x ≤ s
    | some m => LeastAbove xs s m := by
  induction xs with
  | nil => simp [firstAbove]
  | cons x xs ih =>
    have hx := List.pairwise_cons.1 h
    unfold firstAbove
    by_cases hs : s < x
    · simp only [hs, if_true]
      refine ⟨by simp, hs, ?_⟩
      intro y hy _
      simp only [List.mem_cons] at hy
      rcases hy with hy | hy
      · subst hy; exact Nat.le_refl _
      · exact hx.1 y hy
    · simp only [hs, if_false]
      have := ih hx.2
      cases hr : firstAbove s xs with
      | none =>
        rw [hr] at this
        intro y hy
        simp only [List.mem_cons] at hy
        rcases hy with hy | hy
        · subst hy; omega
        · exact this y hy
      | some m =>
        rw [hr] at this
        refine ⟨List.mem_cons_of_mem _ this.1, this.2.1, ?_⟩
        intro y hy hsy
        simp only [List.mem_cons] at hy
        rcases hy with hy | hy
        · subst hy; exact absurd hsy hs
        · exact this.2.2 y hy hsy

/-- the loop of the Rust code computes `Stats.funcEnd` -/
theorem funcEndLoop_eq (c : Cov) (s : Nat) : funcEndLoop c s = funcEnd c s := by
  symm
  rw [funcEnd_eq_iff]
  unfold funcEndLoop
  have h := firstAbove_sorted s _ (sorted_isort (c.functions.map fun nf => nf.2.start))
  cases hr : firstAbove s (isort (c.functions.map fun nf => nf.2.start)) with
  | none =>
    rw [hr] at h
    exact Or.inr ⟨fun x hx => h x ((mem_isort x _).2 hx), rfl⟩
  | some m =>
    rw [hr] at h
    refine Or.inl ⟨(mem_isort m _).1 h.1, h.2.1, ?_⟩
    intro x hx hsx
    exact h.2.2 x ((mem_isort x _).2 hx) hsx

/-! ## `last line key` -/

theorem maxKey_mem {α} (ls : List (Nat × α)) (h : ls ≠ []) : maxKey ls ∈ keys ls := by
  have key : ∀ (ls : List (Nat × α)) (m : Nat),
      ls.foldl (fun m kv => max m kv.1) m = m ∨ ls.foldl (fun m kv => max m kv.1) m ∈ keys ls := by
    intro ls
    induction ls with
    | nil => intro m; exact Or.inl rfl
    | cons kv ls ih =>
      intro m
      rw [List.foldl_cons]
      rcases ih (max m kv.1) with h1 | h1
      · rw [h1]
        by_cases hm : kv.1 ≤ m
        · left; exact Nat.max_eq_left hm
        · right
          have : max m kv.1 = kv.1 := Nat.max_eq_right (by omega)
          rw [this]; simp [keys]
      · right; simp only [keys, List.map_cons, List.mem_cons]; right; exact h1
  cases ls with
  | nil => exact absurd rfl h
  | cons kv ls =>
    unfold maxKey
    rw [List.foldl_cons]
    rcases key ls (max 0 kv.1) with h1 | h1
    · rw [h1]; simp [keys]
    · simp only [keys, List.map_cons, List.mem_cons]; right; exact h1

/-! ## method attribution -/

theorem mem_linesInFunction (c : Cov) (f : Fn) (l : Nat) :
    l ∈ linesInFunction c f ↔ l ∈ keys c.lines ∧ f.start ≤ l ∧ l < funcEnd c f.start := by
  simp [linesInFunction, List.mem_filter]

theorem linesInFunction_congr (c : Cov) (f g : Fn) (h : f.start = g.start) :
    linesInFunction c f = linesInFunction c g := by
  simp [linesInFunction, h]

/-- two functions that both claim a line start on the same line -/
theorem same_start_of_shared_line (c : Cov) (f g : Name × Fn) (hf : f ∈ c.functions)
    (hg : g ∈ c.functions) (l : Nat) (hlf : l ∈ linesInFunction c f.2)
    (hlg : l ∈ linesInFunction c g.2) : f.2.start = g.2.start := by
  rw [mem_linesInFunction] at hlf hlg
  rcases Nat.lt_trichotomy f.2.start g.2.start with h | h | h
  · have := funcEnd_le_start c f.2.start hg h; omega
  · exact h
  · have := funcEnd_le_start c g.2.start hf h; omega

theorem exists_max_start (fs : List (Name × Fn)) (l : Nat) (h : ∃ nf ∈ fs, nf.2.start ≤ l) :
    ∃ nf ∈ fs, nf.2.start ≤ l ∧ ∀ g ∈ fs, g.2.start ≤ l → g.2.start ≤ nf.2.start := by
  induction fs with
  | nil => obtain ⟨nf, hnf, _⟩ := h; simp at hnf
  | cons a fs ih =>
    by_cases hrest : ∃ nf ∈ fs, nf.2.start ≤ l
    · obtain ⟨b, hb, hbl, hmax⟩ := ih hrest
      by_cases ha : a.2.start ≤ l ∧ b.2.start < a.2.start
      · refine ⟨a, by simp, ha.1, ?_⟩
        intro g hg hgl
        simp only [List.mem_cons] at hg
        rcases hg with hg | hg
        · subst hg; exact Nat.le_refl _
        · have := hmax g hg hgl; omega
      · refine ⟨b, List.mem_cons_of_mem _ hb, hbl, ?_⟩
        intro g hg hgl
        simp only [List.mem_cons] at hg
        rcases hg with hg | hg
        · subst hg; omega
        · exact hmax g hg hgl
    · obtain ⟨nf, hnf, hl⟩ := h
      simp only [List.mem_cons] at hnf
      rcases hnf with hnf | hnf
      · subst hnf
        refine ⟨nf, by simp, hl, ?_⟩
        intro g hg hgl
        simp only [List.mem_cons] at hg
        rcases hg with hg | hg
        · subst hg; exact Nat.le_refl _
        · exact absurd ⟨g, hg, hgl⟩ hrest
      · exact absurd ⟨nf, hnf, hl⟩ hrest

/-- an instrumented line at or after some function start is claimed by a function -/
theorem claimed_of_start_le (c : Cov) (l : Nat) (hl : l ∈ keys c.lines)
    (h : ∃ nf ∈ c.functions, nf.2.start ≤ l) : ∃ nf ∈ c.functions, l ∈ linesInFunction c nf.2 := by
  obtain ⟨nf, hnf, hle, hmax⟩ := exists_max_start c.functions l h
  refine ⟨nf, hnf, (mem_linesInFunction c nf.2 l).2 ⟨hl, hle, ?_⟩⟩
  apply lt_funcEnd c _ l hl
  intro g hg hsg
  by_cases hgl : g.2.start ≤ l
  · have := hmax g hg hgl; omega
  · omega

/-! ## lines made by `line_from_number` -/

@[simp] theorem hits_lineFromNumber (c : Cov) (n : Nat) :
    CLine.hits (lineFromNumber c n) = (get? c.lines n).getD 0 := by
  unfold lineFromNumber; cases get? c.branches n <;> rfl

@[simp] theorem conds_lineFromNumber (c : Cov) (n : Nat) :
    CLine.conds (lineFromNumber c n) = get? c.branches n := by
  unfold lineFromNumber; cases h : get? c.branches n <;> simp [CLine.conds]

theorem decodeLines_class (c : Cov) (hnd : NodupKeys c.lines) :
    decodeLines ((keys c.lines).map (lineFromNumber c)) = c.lines := by
  unfold decodeLines keys
  rw [List.map_map, List.map_map]
  refine (List.map_congr_left ?_).trans (List.map_id _)
  intro kv hkv
  obtain ⟨k, v⟩ := kv
  simp [get?_of_mem hnd hkv]

theorem decodeBranches_class (c : Cov) :
    decodeBranches ((keys c.lines).map (lineFromNumber c)) = (cobProj c).branches := by
  unfold decodeBranches keys cobProj
  rw [List.map_map, List.filterMap_map]
  congr 1
  funext kv
  simp

theorem decodeClass_docClass (rel : Name) (c : Cov) (hnd : NodupKeys c.lines) :
    decodeClass (docClass rel c) = (rel, cobProj c) := by
  unfold decodeClass docClass
  simp only [cobClass]
  rw [decodeLines_class c hnd, decodeBranches_class c]
  simp [cobProj, keys, Function.comp_def]

theorem decodeCobertura_packages (rs : List (Name × Cov)) (hnd : ∀ r ∈ rs, NodupKeys r.2.lines) :
    decodeCobertura (coberturaPackages rs) = rs.map fun r => (r.1, cobProj r.2) := by
  induction rs with
  | nil => rfl
  | cons r rs ih =>
    have h1 := ih fun x hx => hnd x (List.mem_cons_of_mem _ hx)
    unfold decodeCobertura coberturaPackages at *
    simp only [List.map_cons, List.flatMap_cons]
    rw [h1]
    simp [docPackage, decodeClass_docClass r.1 r.2 (hnd r (by simp))]

/-- the branch vectors the format carries: those of lines with a line entry -/
theorem get?_filterMap_keyed {β : Type} (m : List (Nat × Nat)) (g : Nat → Option β) (l : Nat) :
    get? (m.filterMap fun lh => (g lh.1).map fun v => (lh.1, v)) l
      = if l ∈ keys m then g l else none := by
  induction m with
  | nil => simp [keys]
  | cons kv m ih =>
    obtain ⟨k, h⟩ := kv
    simp only [List.filterMap_cons, keys, List.map_cons, List.mem_cons]
    cases hg : g k with
    | none =>
      simp only [Option.map_none]
      rw [ih]
      by_cases hk : l = k
      · subst hk; simp [hg]
      · by_cases hm : l ∈ List.map (fun x => x.fst) m <;> simp [hk, hm, keys]
    | some v =>
      simp only [Option.map_some, get?_cons]
      by_cases hk : k = l
      · subst hk; simp [hg]
      · have hk' : ¬ l = k := fun e => hk e.symm
        simp only [hk, if_false, hk', false_or]
        rw [ih]; rfl

theorem get?_cobProj_branches (c : Cov) (l : Nat) :
    get? (cobProj c).branches l = if l ∈ keys c.lines then get? c.branches l else none :=
  get?_filterMap_keyed c.lines (get? c.branches) l

/-! ## class stats: no double count through the methods -/

theorem classStats_docClass (rel : Name) (c : Cov) (hnd : NodupKeys c.lines) :
    classStats (docClass rel c) = statsOn c (keys c.lines) := by
  have : classStats (docClass rel c) = fromLines (classLines (cobClass c)) := rfl
  rw [this, classLines_eq c hnd, fromLines_baseMap]

theorem packageStats_docPackage (rel : Name) (c : Cov) (hnd : NodupKeys c.lines) :
    packageStats (docPackage rel c) = statsOn c (keys c.lines) := by
  have : packageStats (docPackage rel c) = fromLines (packageLines (cobClass c)) := rfl
  rw [this, packageLines_eq c hnd, fromLines_baseMap]

/-! ## ActiveData-ETL -/

theorem nodup_adeCovered (ls : List (Nat × Nat)) (h : NodupKeys ls) : (adeCovered ls).Nodup :=
  List.Nodup.sublist (List.Sublist.map _ List.filter_sublist) h

theorem nodup_adeUncovered (ls : List (Nat × Nat)) (h : NodupKeys ls) : (adeUncovered ls).Nodup :=
  List.Nodup.sublist (List.Sublist.map _ List.filter_sublist) h

theorem length_adeCovered_add (ls : List (Nat × Nat)) :
    (adeCovered ls).length + (adeUncovered ls).length = ls.length := by
  unfold adeCovered adeUncovered
  simp only [List.length_map, ← List.countP_eq_length_filter]
  rw [Nat.add_comm]
  exact countZero_add_countPos ls

theorem mem_keys_iff_ade (ls : List (Nat × Nat)) (l : Nat) :
    l ∈ keys ls ↔ l ∈ adeCovered ls ∨ l ∈ adeUncovered ls := by
  simp only [keys, adeCovered, adeUncovered, List.mem_map, List.mem_filter, decide_eq_true_eq]
  constructor
  · rintro ⟨kv, hkv, rfl⟩
    by_cases h : kv.2 = 0
    · exact Or.inr ⟨kv, ⟨hkv, h⟩, rfl⟩
    · exact Or.inl ⟨kv, ⟨hkv, by omega⟩, rfl⟩
  · rintro (⟨kv, ⟨hkv, _⟩, rfl⟩ | ⟨kv, ⟨hkv, _⟩, rfl⟩) <;> exact ⟨kv, hkv, rfl⟩

theorem ade_disjoint (ls : List (Nat × Nat)) (hnd : NodupKeys ls) (l : Nat) :
    ¬ (l ∈ adeCovered ls ∧ l ∈ adeUncovered ls) := by
  simp only [adeCovered, adeUncovered, List.mem_map, List.mem_filter, decide_eq_true_eq]
  rintro ⟨⟨kv, ⟨hkv, hpos⟩, rfl⟩, ⟨kv', ⟨hkv', hz⟩, he⟩⟩
  obtain ⟨k, v⟩ := kv
  obtain ⟨k', v'⟩ := kv'
  simp only at he hpos hz
  subst he
  have h1 := get?_of_mem hnd hkv
  have h2 := get?_of_mem hnd hkv'
  rw [h1] at h2
  simp at h2
  omega

theorem removeAll_eq_filter (xs ys : List Nat) (h : xs.Nodup) :
    removeAll xs ys = xs.filter fun x => !ys.contains x := by
  unfold removeAll
  induction ys generalizing xs with
  | nil => exact (List.filter_eq_self.2 (fun x _ => by simp)).symm
  | cons y ys ih =>
    rw [List.foldl_cons, List.Nodup.erase_eq_filter h y]
    have hnd : (xs.filter fun x => x != y).Nodup := List.Nodup.sublist List.filter_sublist h
    rw [ih _ hnd, List.filter_filter]
    apply List.filter_congr
    intro x _
    simp only [List.contains_cons]
    cases h1 : ys.contains x <;> by_cases hxy : x = y <;> simp [hxy, bne]

/-- removing the lines of one function from a filtered list -/
theorem removeAll_filter (cov : List Nat) (hnd : cov.Nodup) (p q : Nat → Bool) :
    removeAll (cov.filter p) (cov.filter q) = cov.filter fun x => p x && !q x := by
  rw [removeAll_eq_filter _ _ (List.Nodup.sublist List.filter_sublist hnd), List.filter_filter]
  apply List.filter_congr
  intro x hx
  have : (cov.filter q).contains x = q x := by
    cases hq : q x with
    | true => exact List.contains_iff_mem.2 (List.mem_filter.2 ⟨hx, hq⟩)
    | false =>
      cases hc : (cov.filter q).contains x with
      | false => rfl
      | true =>
        have := (List.mem_filter.1 (List.contains_iff_mem.1 hc)).2
        rw [hq] at this; cases this
  rw [this, Bool.and_comm]

/-- the record written for one function -/
def methodRec (file : Name) (c : Cov) (nf : Name × Fn) : AdeRecord :=
  .method file nf.1 (.mk' ((adeCovered c.lines).filter (inFn c nf.2))
                          ((adeUncovered c.lines).filter (inFn c nf.2)))

theorem adeFold_recs (file : Name) (c : Cov) (cov unc : List Nat) (fs : List (Name × Fn))
    (st : AdeState) :
    (fs.foldl (adeStep file c cov unc) st).recs
      = st.recs ++ fs.map fun nf =>
          .method file nf.1 (.mk' (cov.filter (inFn c nf.2)) (unc.filter (inFn c nf.2))) := by
  induction fs generalizing st with
  | nil => simp
  | cons nf fs ih =>
    rw [List.foldl_cons, ih]
    simp [adeStep]

theorem adeFold_orphans (file : Name) (c : Cov) (cov unc : List Nat) (hc : cov.Nodup)
    (hu : unc.Nodup) (fs : List (Name × Fn)) (st : AdeState) (P : Nat → Bool)
    (h1 : st.orphanCovered = cov.filter fun x => !P x)
    (h2 : st.orphanUncovered = unc.filter fun x => !P x) :
    (fs.foldl (adeStep file c cov unc) st).orphanCovered
        = cov.filter (fun x => !(P x || fs.any fun nf => inFn c nf.2 x)) ∧
    (fs.foldl (adeStep file c cov unc) st).orphanUncovered
        = unc.filter (fun x => !(P x || fs.any fun nf => inFn c nf.2 x)) := by
  induction fs generalizing st P with
  | nil => simpa using ⟨h1, h2⟩
  | cons nf fs ih =>
    rw [List.foldl_cons]
    have := ih (adeStep file c cov unc st nf) (fun x => P x || inFn c nf.2 x)
      (by
        simp only [adeStep, h1]
        rw [removeAll_filter cov hc]
        apply List.filter_congr; intro x _; simp [Bool.not_or])
      (by
        simp only [adeStep, h2]
        rw [removeAll_filter unc hu]
        apply List.filter_congr; intro x _; simp [Bool.not_or])
    simpa [List.any_cons, Bool.or_assoc] using this

/-- the file record -/
def fileRec (file : Name) (c : Cov) : AdeRecord :=
  .file file (.mk' (adeCovered c.lines) (adeUncovered c.lines))
    (.mk' ((adeCovered c.lines).filter fun x => !claimed c x)
          ((adeUncovered c.lines).filter fun x => !claimed c x))

/-- closed form of the records of one file -/
theorem adeRecords_eq (r : Name × Cov) (hnd : NodupKeys r.2.lines) :
    adeRecords r = r.2.functions.map (methodRec r.1 r.2) ++ [fileRec r.1 r.2] := by
  obtain ⟨file, c⟩ := r
  unfold adeRecords adeLoop
  simp only
  rw [adeFold_recs]
  obtain ⟨ho1, ho2⟩ := adeFold_orphans file c (adeCovered c.lines) (adeUncovered c.lines)
    (nodup_adeCovered _ hnd) (nodup_adeUncovered _ hnd) c.functions
    ⟨[], adeCovered c.lines, adeUncovered c.lines⟩ (fun _ => false)
    (List.filter_eq_self.2 (fun _ _ => rfl)).symm (List.filter_eq_self.2 (fun _ _ => rfl)).symm
  rw [ho1, ho2]
  simp [methodRec, fileRec, claimed]

/-- the function records do not depend on the orphan bookkeeping -/
theorem adeRecords_shape (r : Name × Cov) :
    ∃ o, adeRecords r = r.2.functions.map (methodRec r.1 r.2) ++
      [.file r.1 (.mk' (adeCovered r.2.lines) (adeUncovered r.2.lines)) o] := by
  obtain ⟨file, c⟩ := r
  refine ⟨.mk' (adeLoop file c).orphanCovered (adeLoop file c).orphanUncovered, ?_⟩
  unfold adeRecords adeLoop
  simp only
  rw [adeFold_recs]
  simp [methodRec]

theorem decodeAdeFiles_append (a b : List AdeRecord) :
    decodeAdeFiles (a ++ b) = decodeAdeFiles a ++ decodeAdeFiles b := by
  simp [decodeAdeFiles, List.filterMap_append]

theorem decodeAdeFns_append (a b : List AdeRecord) :
    decodeAdeFns (a ++ b) = decodeAdeFns a ++ decodeAdeFns b := by
  simp [decodeAdeFns, List.filterMap_append]

theorem decodeAdeFiles_methods (file : Name) (c : Cov) (fs : List (Name × Fn)) :
    decodeAdeFiles (fs.map (methodRec file c)) = [] := by
  induction fs with
  | nil => rfl
  | cons nf fs ih => simp [decodeAdeFiles, methodRec] at ih ⊢

theorem decodeAdeFns_methods (file : Name) (c : Cov) (fs : List (Name × Fn)) :
    decodeAdeFns (fs.map (methodRec file c)) = fs.map fun nf => (file, nf.1) := by
  induction fs with
  | nil => rfl
  | cons nf fs ih =>
    simp only [decodeAdeFns, List.map_cons, List.filterMap_cons, methodRec] at ih ⊢
    rw [ih]

theorem decodeAdeFiles_adeDoc (rs : List (Name × Cov)) :
    decodeAdeFiles (adeDoc rs)
      = rs.map fun r => (r.1, adeCovered r.2.lines, adeUncovered r.2.lines) := by
  induction rs with
  | nil => rfl
  | cons r rs ih =>
    unfold adeDoc at *
    rw [List.flatMap_cons, decodeAdeFiles_append, ih]
    obtain ⟨o, ho⟩ := adeRecords_shape r
    rw [ho, decodeAdeFiles_append, decodeAdeFiles_methods]
    simp [decodeAdeFiles, AdeLists.mk']

theorem decodeAdeFns_adeDoc (rs : List (Name × Cov)) :
    decodeAdeFns (adeDoc rs) = rs.flatMap fun r => r.2.functions.map fun nf => (r.1, nf.1) := by
  induction rs with
  | nil => rfl
  | cons r rs ih =>
    unfold adeDoc at *
    rw [List.flatMap_cons, decodeAdeFns_append, ih]
    obtain ⟨o, ho⟩ := adeRecords_shape r
    rw [ho, decodeAdeFns_append, decodeAdeFns_methods]
    simp [decodeAdeFns]

theorem inFn_iff (c : Cov) (f : Fn) (x : Nat) :
    inFn c f x = true ↔ f.start ≤ x ∧ x < funcEnd c f.start := by
  simp [inFn]

theorem claimed_iff (c : Cov) (x : Nat) (hx : x ∈ keys c.lines) :
    claimed c x = true ↔ ∃ nf ∈ c.functions, x ∈ linesInFunction c nf.2 := by
  simp only [claimed, List.any_eq_true, inFn_iff, mem_linesInFunction]
  constructor
  · rintro ⟨nf, hnf, h⟩; exact ⟨nf, hnf, hx, h⟩
  · rintro ⟨nf, hnf, _, h⟩; exact ⟨nf, hnf, h⟩

/-! ## element tree: reading back what `toXml` wrote -/

theorem mapM_map_some {α β : Type} (f : β → Option α) (g : α → β) (xs : List α)
    (h : ∀ x ∈ xs, f (g x) = some x) : (xs.map g).mapM f = some xs := by
  induction xs with
  | nil => rfl
  | cons x xs ih =>
    simp only [List.map_cons, List.mapM_cons, h x (by simp), ih fun y hy => h y (List.mem_cons_of_mem _ hy)]
    rfl

theorem conds_roundtrip (v : List Bool) (i : Nat) : (condsXml i v).mapM condOfXml = some v := by
  induction v generalizing i with
  | nil => rfl
  | cons b v ih =>
    simp only [condsXml, List.mapM_cons, ih]
    cases b <;> simp [condOfXml, natAttr, lookupAttr]

theorem line_roundtrip (l : CLine) : lineOfXml (lineXml l) = some l := by
  cases l with
  | plain n h => simp [lineXml, lineOfXml, natAttr, lookupAttr]
  | branch n h v => simp [lineXml, lineOfXml, natAttr, lookupAttr, conds_roundtrip]

theorem lines_roundtrip (ls : List CLine) : linesOfXml (linesXml ls) = some ls := by
  simp [linesXml, linesOfXml, mapM_map_some _ _ _ fun l _ => line_roundtrip l]

theorem method_roundtrip (m : CMethod) : methodOfXml (methodXml m) = some m := by
  simp [methodXml, methodOfXml, bytesAttr, lookupAttr, lines_roundtrip]

theorem class_roundtrip (k : DocClass) : classOfXml (classXml k) = some k := by
  simp [classXml, classOfXml, bytesAttr, lookupAttr, lines_roundtrip,
    mapM_map_some _ _ _ fun m _ => method_roundtrip m]

theorem package_roundtrip (p : DocPackage) : packageOfXml (packageXml p) = some p := by
  simp [packageXml, packageOfXml, bytesAttr, lookupAttr,
    mapM_map_some _ _ _ fun k _ => class_roundtrip k]

theorem doc_roundtrip (d : Doc) : docOfXml (toXml d) = some d := by
  simp [toXml, docOfXml, mapM_map_some _ _ _ fun p _ => package_roundtrip p,
    mapM_map_some sourceOfXml (fun p => Xml.elem "source" [] [.text p]) _ fun p _ => by simp [sourceOfXml]]

/-! ## `Path::file_stem` -/

theorem splitBytes_ne_nil (sep : Nat) (bs : List Nat) : splitBytes sep bs ≠ [] := by
  induction bs with
  | nil => simp [splitBytes]
  | cons b bs ih =>
    unfold splitBytes at *
    simp only [List.foldr_cons]
    by_cases hb : b = sep
    · simp [hb]
    · simp only [hb, if_false]
      split <;> simp

theorem splitBytes_no_sep (sep : Nat) (bs : List Nat) (h : sep ∉ bs) : splitBytes sep bs = [bs] := by
  induction bs with
  | nil => rfl
  | cons b bs ih =>
    have hb : b ≠ sep := fun e => h (by simp [e])
    have ih := ih (fun hm => h (List.mem_cons_of_mem _ hm))
    unfold splitBytes at *
    simp only [List.foldr_cons, hb, if_false, ih]

theorem splitBytes_append_sep (sep : Nat) (a b : List Nat) :
    splitBytes sep (a ++ sep :: b) = splitBytes sep a ++ splitBytes sep b := by
  induction a with
  | nil => simp [splitBytes]
  | cons x a ih =>
    have hne := splitBytes_ne_nil sep a
    unfold splitBytes at *
    simp only [List.cons_append, List.foldr_cons, ih]
    by_cases hx : x = sep
    · simp [hx]
    · simp only [hx, if_false]
      cases hs : List.foldr (fun b acc => if b = sep then [] :: acc else
          match acc with
          | [] => [[b]]
          | h :: t => (b :: h) :: t) [[]] a with
      | nil => exact absurd hs hne
      | cons h t => simp

theorem stemOf_ext (n e : Name) (hn : n ≠ []) (he : 46 ∉ e) : stemOf (n ++ 46 :: e) = n := by
  unfold stemOf
  have hr : (n ++ 46 :: e).reverse = e.reverse ++ 46 :: n.reverse := by simp
  have hd : (e.reverse ++ 46 :: n.reverse).dropWhile (fun b => b != 46) = 46 :: n.reverse := by
    have : ∀ (xs : List Nat), 46 ∉ xs →
        (xs ++ 46 :: n.reverse).dropWhile (fun b => b != 46) = 46 :: n.reverse := by
      intro xs hx
      induction xs with
      | nil => simp
      | cons x xs ih =>
        have hx1 : x ≠ 46 := fun e => hx (by simp [e])
        simp only [List.cons_append, List.dropWhile_cons]
        simp [hx1, ih (fun hm => hx (List.mem_cons_of_mem _ hm))]
    exact this _ (by simpa using he)
  simp only [hr, hd]
  have : n.reverse ≠ [] := by simpa using hn
  simp [this]

theorem stemOf_noext (n : Name) (h : 46 ∉ n) : stemOf n = n := by
  unfold stemOf
  have : n.reverse.dropWhile (fun b => b != 46) = [] := by
    have key : ∀ xs : List Nat, 46 ∉ xs → xs.dropWhile (fun b => b != 46) = [] := by
      intro xs hx
      induction xs with
      | nil => rfl
      | cons x xs ih =>
        have hx1 : x ≠ 46 := fun e => hx (by simp [e])
        simp only [List.dropWhile_cons]
        simp [hx1, ih (fun hm => hx (List.mem_cons_of_mem _ hm))]
    exact key _ (by simpa using h)
  simp [this]

/-- the file name of `dir/name` -/
theorem fileName_join (dir name : Name) (h47 : 47 ∉ name) (hne : name ≠ []) (hdot : name ≠ [46])
    (hdd : name ≠ [46, 46]) : fileName (dir ++ 47 :: name) = some name ∧ fileName name = some name := by
  have hlast : ∀ pre : List Name, (pre ++ [name]).getLast? = some name := by intro pre; simp
  have hk : (!(name == [] || name == [46])) = true := by
    rw [beq_eq_false_iff_ne.2 hne, beq_eq_false_iff_ne.2 hdot]; rfl
  constructor
  · unfold fileName components
    rw [splitBytes_append_sep, splitBytes_no_sep 47 name h47, List.filter_append]
    have : List.filter (fun c => !(c == [] || c == [46])) [name] = [name] := by
      simp only [List.filter_cons, hk, if_true, List.filter_nil]
    rw [this, hlast]
    simp [hdd]
  · unfold fileName components
    rw [splitBytes_no_sep 47 name h47]
    have : List.filter (fun c => !(c == [] || c == [46])) [name] = [name] := by
      simp only [List.filter_cons, hk, if_true, List.filter_nil]
    rw [this]
    simp [hdd]

theorem className_ext (dir n e : Name) (hn : n ≠ []) (hn47 : 47 ∉ n) (he47 : 47 ∉ e) (he : 46 ∉ e)
    (hdd : n ++ 46 :: e ≠ [46, 46]) :
    className (dir ++ 47 :: (n ++ 46 :: e)) = n ∧ className (n ++ 46 :: e) = n := by
  have h47 : 47 ∉ n ++ 46 :: e := by simp [hn47, he47]
  have hne : n ++ 46 :: e ≠ [] := by simp
  have hdot : n ++ 46 :: e ≠ [46] := by
    intro h
    cases n with
    | nil => exact hn rfl
    | cons a n => simp at h
  obtain ⟨h1, h2⟩ := fileName_join dir _ h47 hne hdot hdd
  unfold className
  rw [h1, h2]
  exact ⟨stemOf_ext n e hn he, stemOf_ext n e hn he⟩

theorem className_noext (dir n : Name) (hn : n ≠ []) (hn47 : 47 ∉ n) (hn46 : 46 ∉ n) :
    className (dir ++ 47 :: n) = n ∧ className n = n := by
  have hdot : n ≠ [46] := fun e => hn46 (by simp [e])
  have hdd : n ≠ [46, 46] := fun e => hn46 (by simp [e])
  obtain ⟨h1, h2⟩ := fileName_join dir n hn47 hn hdot hdd
  unfold className
  rw [h1, h2]
  exact ⟨stemOf_noext n hn46, stemOf_noext n hn46⟩

/-! ## statements used by Props/C03CobAde.lean -/

theorem cobProj_spec (c : Cov) (hnd : NodupKeys c.lines) :
    (cobProj c).lines = c.lines ∧ (cobProj c).fnNames = keys c.functions ∧
    NodupKeys (cobProj c).branches ∧
    ∀ l, get? (cobProj c).branches l = if l ∈ keys c.lines then get? c.branches l else none := by
  refine ⟨rfl, rfl, ?_, get?_cobProj_branches c⟩
  have hsub : (keys (cobProj c).branches).Sublist (keys c.lines) := by
    unfold cobProj keys
    simp only
    induction c.lines with
    | nil => simp
    | cons kv m ih =>
      simp only [List.filterMap_cons, List.map_cons]
      cases get? c.branches kv.1 with
      | none => exact List.Sublist.cons _ ih
      | some v => exact List.Sublist.cons_cons _ ih
  exact List.Nodup.sublist hsub hnd

theorem cobProj_branches_guarded (c : Cov)
    (guard : ∀ l, (get? c.branches l).isSome → (get? c.lines l).isSome) (l : Nat) :
    get? (cobProj c).branches l = get? c.branches l := by
  rw [get?_cobProj_branches]
  by_cases hl : l ∈ keys c.lines
  · simp [hl]
  · simp only [hl, if_false]
    cases hb : get? c.branches l with
    | none => rfl
    | some v =>
      have := guard l (by simp [hb])
      rw [get?_isSome_iff] at this
      exact absurd this hl

theorem docClass_methods_spec (rel : Name) (c : Cov) :
    ((docClass rel c).methods.map (·.name) = keys c.functions) ∧
    ∀ (i : Nat) (nf : Name × Fn), c.functions[i]? = some nf →
      ∃ m : CMethod, (docClass rel c).methods[i]? = some m ∧ m.name = nf.1 ∧
        (∀ l, l ∈ m.lines.map CLine.number ↔
          (l ∈ keys c.lines ∧ nf.2.start ≤ l ∧ l < funcEnd c nf.2.start)) ∧
        ∀ x ∈ m.lines, x = lineFromNumber c x.number := by
  refine ⟨by simp [docClass, cobClass, keys, Function.comp_def], fun i nf hnf => ?_⟩
  refine ⟨⟨nf.1, (linesInFunction c nf.2).map (lineFromNumber c)⟩, ?_, rfl, ?_, ?_⟩
  · simp [docClass, cobClass, hnf]
  · intro l
    simp only [List.map_map]
    rw [← mem_linesInFunction]
    have : (CLine.number ∘ lineFromNumber c) = id := by funext n; simp
    rw [this, List.map_id]
  · intro x hx
    simp only [List.mem_map] at hx
    obtain ⟨l, _, rfl⟩ := hx
    simp

theorem docClass_method_lines_sub (rel : Name) (c : Cov) :
    ∀ m ∈ (docClass rel c).methods, ∀ x ∈ m.lines, x ∈ (docClass rel c).lines := by
  intro m hm x hx
  simp only [docClass, cobClass, List.mem_map] at hm
  obtain ⟨nf, _, rfl⟩ := hm
  simp only [List.mem_map] at hx
  obtain ⟨l, hl, rfl⟩ := hx
  simp only [docClass, cobClass, List.mem_map]
  exact ⟨l, linesInFunction_sub c nf.2 l hl, rfl⟩

theorem ade_claimed_xor_orphan (c : Cov) (l : Nat) (hl : l ∈ keys c.lines) :
    let orphans := (adeCovered c.lines).filter (fun x => !claimed c x) ++
                   (adeUncovered c.lines).filter (fun x => !claimed c x)
    let inSomeFunction := ∃ nf ∈ c.functions,
      l ∈ (adeCovered c.lines).filter (inFn c nf.2) ∨ l ∈ (adeUncovered c.lines).filter (inFn c nf.2)
    (l ∈ orphans ↔ ¬ inSomeFunction) ∧ (l ∈ orphans ∨ inSomeFunction) := by
  have hm := (mem_keys_iff_ade c.lines l).1 hl
  have key : (∃ nf ∈ c.functions,
      l ∈ (adeCovered c.lines).filter (inFn c nf.2) ∨ l ∈ (adeUncovered c.lines).filter (inFn c nf.2))
      ↔ claimed c l = true := by
    simp only [List.mem_filter, claimed, List.any_eq_true]
    constructor
    · rintro ⟨nf, hnf, h | h⟩ <;> exact ⟨nf, hnf, h.2⟩
    · rintro ⟨nf, hnf, h⟩
      rcases hm with hm | hm
      · exact ⟨nf, hnf, Or.inl ⟨hm, h⟩⟩
      · exact ⟨nf, hnf, Or.inr ⟨hm, h⟩⟩
  have horph : l ∈ (adeCovered c.lines).filter (fun x => !claimed c x) ++
      (adeUncovered c.lines).filter (fun x => !claimed c x) ↔ claimed c l = false := by
    simp only [List.mem_append, List.mem_filter]
    constructor
    · rintro (h | h) <;> simpa using h.2
    · intro h
      rcases hm with hm | hm
      · exact Or.inl ⟨hm, by simp [h]⟩
      · exact Or.inr ⟨hm, by simp [h]⟩
  simp only
  rw [horph, key]
  cases claimed c l <;> simp

theorem ade_lists_ascending (c : Cov) (hs : (keys c.lines).Pairwise (· < ·)) (p : Nat → Bool) :
    ((adeCovered c.lines).filter p).Pairwise (· < ·) ∧
    ((adeUncovered c.lines).filter p).Pairwise (· < ·) := by
  have h1 : (adeCovered c.lines).Pairwise (· < ·) :=
    List.Pairwise.sublist (List.Sublist.map _ List.filter_sublist) hs
  have h2 : (adeUncovered c.lines).Pairwise (· < ·) :=
    List.Pairwise.sublist (List.Sublist.map _ List.filter_sublist) hs
  exact ⟨h1.filter p, h2.filter p⟩

theorem coberturaDoc_packages_spec (src : Option Name) (rs : List (Name × Cov)) :
    (coberturaDoc src rs).packages.length = rs.length ∧
    ∀ (i : Nat) (r : Name × Cov), rs[i]? = some r →
      ∃ k : DocClass, (coberturaDoc src rs).packages[i]? = some ⟨r.1, [k]⟩ ∧
        k.filename = r.1 ∧ k.name = className r.1 ∧ k = docClass r.1 r.2 := by
  refine ⟨by simp [coberturaDoc, coberturaPackages], fun i r hr => ?_⟩
  refine ⟨docClass r.1 r.2, ?_, rfl, rfl, rfl⟩
  simp [coberturaDoc, coberturaPackages, hr, docPackage]

end Grcov.Writers.CobAde
