/-
C18: the XML readers of `GrcovModel/Escape.lean` (`scanAttr`, `scanXmlText`) and the guards
`printable` / `textSafe` are the readers and guards of the byte-level Cobertura model
(`Writers/CobBytes.lean`: `readAttrValue`, `readText`, `attrOk`, `textOk`), which is tied to expat.
-/
import GrcovModel.Lemmas.Escape
import GrcovModel.Writers.CobBytes
namespace Grcov.Escape
open Grcov.Writers.CobBytes

theorem eolNorm_eq_normEol (xs : Bytes) : eolNorm xs = normEol xs := by
  fun_induction normEol xs <;> simp_all [eolNorm]

theorem xmlCharsOk_eq_legalValue (v : Bytes) : xmlCharsOk v = legalValue v := rfl

theorem printable_eq_attrOk (v : Bytes) : printable v = attrOk v := rfl

theorem textSafe_eq_textOk (v : Bytes) : textSafe v = textOk v := rfl

theorem scanAttr_eq_readAttrValue (bs : Bytes) : scanAttr bs = readAttrValue bs := by
  unfold scanAttr readAttrValue
  cases splitAt1 34 bs with
  | none => rfl
  | some p =>
    obtain ⟨raw, rest⟩ := p
    simp only [eolNorm_eq_normEol, xmlCharsOk_eq_legalValue]
    split
    · rfl
    · cases unescapeEnt (List.map normAttrByte (normEol raw)) <;> rfl

/-- splitting at the first `<` is `takeWhile` / `dropWhile` -/
theorem splitAt1_take_drop (d : Nat) (bs : Bytes) :
    splitAt1 d bs =
      if (bs.dropWhile (· != d)).isEmpty then none
      else some (bs.takeWhile (· != d), (bs.dropWhile (· != d)).drop 1) := by
  induction bs with
  | nil => rfl
  | cons b r ih =>
    by_cases hb : b = d
    · subst hb
      simp [splitAt1, List.takeWhile, List.dropWhile]
    · have h1 : (b != d) = true := by simpa using hb
      simp only [splitAt1, hb, if_false, List.takeWhile, List.dropWhile, h1, ih]
      split <;> simp_all

theorem readText_eq_scanXmlText (bs : Bytes) :
    readText bs = (scanXmlText bs).map fun vr => (BXml.text vr.1, 60 :: vr.2) := by
  unfold readText scanXmlText
  rw [splitAt1_take_drop]
  cases hdrop : bs.dropWhile (· != 60) with
  | nil => simp
  | cons x r =>
    have hx : x = 60 := by
      have := List.head_dropWhile_not (· != 60) (l := bs) (by rw [hdrop]; simp)
      simpa [hdrop] using this
    subst hx
    simp only [List.isEmpty_cons, Bool.false_eq_true, if_false, List.drop_one, List.tail_cons,
      eolNorm_eq_normEol, xmlCharsOk_eq_legalValue]
    split
    · rfl
    · split
      · split <;> simp_all
      · simp_all

end Grcov.Escape
