/-
The multi-block line rule (`get_line_count` / `get_cycles_count` / `look_for_circuit`): what the
model of the code computes, against the plain sums of Gcno/MultiBlock.lean.

All statements about the search are *partial correctness* statements (`… = ok r → …`): that the
search returns at all (never out of fuel, never an index or underflow panic; the only crash is the
recorded u64 overflow) is `getLineCount_ov` of Lemmas/GcnoSafeJohnson.lean.

* first loop: `entryPart`, and afterwards `cycles = counter` on every arc inside the line;
* `lookForCircuit_dead`: from a block that cannot get back to `start` the search finds nothing and
  changes nothing;
* `lookForCircuit_bound`: whatever the shape, the counts of the circuits found are paid for by the
  `cycles` of the arcs inside the line (potential argument), `cycles` only decrease;
* `lookForCircuit_loop`: on a line whose only circuit is one simple loop the search started at the
  loop's smallest block walks round the loop once and cancels it.
-/
import GrcovModel.Gcno.MultiBlock
import GrcovModel.Lemmas.GcnoSafeJohnson
import GrcovModel.Lemmas.GcnoEndToEnd
namespace Grcov.Gcno
open Grcov AList Outcome

/-! ## adjacency consistency -/

/-- `blocks[b].source` / `.destination` list exactly the arcs into / out of `b`, once each, and arc
endpoints are block numbers (the first five fields of `SpanForest`; what `read_gcno` builds) -/
structure Adj (f : Func) : Prop where
  arcs_lt : ∀ (e : Nat) (a : Arc), f.arcs[e]? = some a → a.src < f.blocks.length ∧ a.dst < f.blocks.length
  src_iff : ∀ (b : Nat) (blk : Block) (e : Nat), f.blocks[b]? = some blk →
    (e ∈ blk.source ↔ ∃ a, f.arcs[e]? = some a ∧ a.dst = b)
  dst_iff : ∀ (b : Nat) (blk : Block) (e : Nat), f.blocks[b]? = some blk →
    (e ∈ blk.destination ↔ ∃ a, f.arcs[e]? = some a ∧ a.src = b)
  src_nodup : ∀ (b : Nat) (blk : Block), f.blocks[b]? = some blk → blk.source.Nodup
  dst_nodup : ∀ (b : Nat) (blk : Block), f.blocks[b]? = some blk → blk.destination.Nodup

theorem SpanForest.adj {f : Func} {depth parc root : Nat → Nat} (h : SpanForest f depth parc root) :
    Adj f := ⟨h.arcs_lt, h.src_iff, h.dst_iff, h.src_nodup, h.dst_nodup⟩

/-- the Boolean shape check implies adjacency consistency -/
theorem adj_of_wfShape {f : Func} (hw : wfShape f = true) : Adj f := by
  unfold wfShape at hw
  simp only [Bool.and_eq_true, List.all_eq_true, decide_eq_true_eq, beq_iff_eq,
    List.contains_eq_mem] at hw
  obtain ⟨⟨hw1, hw2⟩, hw3⟩ := hw
  have hblk : ∀ (b : Nat) (blk : Block), f.blocks[b]? = some blk → (b, blk) ∈ indexed f.blocks 0 := by
    intro b blk h
    have := mem_indexed_of_getElem? f.blocks 0 b blk h
    simpa using this
  have harc : ∀ (e : Nat) (a : Arc), f.arcs[e]? = some a → (e, a) ∈ indexed f.arcs 0 := by
    intro e a h
    have := mem_indexed_of_getElem? f.arcs 0 e a h
    simpa using this
  constructor
  · intro e a ha
    exact hw1 a (List.mem_of_getElem? ha)
  · intro b blk e hb
    obtain ⟨⟨⟨hs, _⟩, _⟩, _⟩ := hw2 (b, blk) (hblk b blk hb)
    constructor
    · intro he
      obtain ⟨h1, h2⟩ := hs e he
      exact ⟨f.arcs.getD e default, getElem?_of_lt_getD default h1, h2⟩
    · rintro ⟨a, ha, hd⟩
      have := (hw3 (e, a) (harc e a ha)).1
      rw [hd, getD_eq_of_getElem? hb] at this
      exact this
  · intro b blk e hb
    obtain ⟨⟨_, hd⟩, _⟩ := hw2 (b, blk) (hblk b blk hb)
    constructor
    · intro he
      obtain ⟨h1, h2⟩ := hd e he
      exact ⟨f.arcs.getD e default, getElem?_of_lt_getD default h1, h2⟩
    · rintro ⟨a, ha, hs⟩
      have := (hw3 (e, a) (harc e a ha)).2
      rw [hs, getD_eq_of_getElem? hb] at this
      exact this
  · intro b blk hb
    obtain ⟨⟨⟨_, hn⟩, _⟩, _⟩ := hw2 (b, blk) (hblk b blk hb)
    exact nodup_of_nodupB _ hn
  · intro b blk hb
    obtain ⟨_, hn⟩ := hw2 (b, blk) (hblk b blk hb)
    exact nodup_of_nodupB _ hn

theorem arcSrc_eq {f : Func} {e : Nat} {a : Arc} (h : f.arcs[e]? = some a) : arcSrc f e = a.src := by
  simp [arcSrc, List.getD_eq_getElem?_getD, h]

theorem arcDst_eq {f : Func} {e : Nat} {a : Arc} (h : f.arcs[e]? = some a) : arcDst f e = a.dst := by
  simp [arcDst, List.getD_eq_getElem?_getD, h]

theorem Adj.block_of_lt {f : Func} {b : Nat} (h : b < f.blocks.length) :
    ∃ blk, f.blocks[b]? = some blk := ⟨f.blocks[b], List.getElem?_eq_getElem h⟩

/-- an arc is in the destination list of its source block -/
theorem Adj.mem_dst {f : Func} (hA : Adj f) {e : Nat} {a : Arc} (ha : f.arcs[e]? = some a) :
    ∃ blk, f.blocks[a.src]? = some blk ∧ e ∈ blk.destination := by
  obtain ⟨blk, hb⟩ := Adj.block_of_lt (hA.arcs_lt e a ha).1
  exact ⟨blk, hb, (hA.dst_iff _ blk e hb).2 ⟨a, ha, rfl⟩⟩

theorem Adj.mem_src {f : Func} (hA : Adj f) {e : Nat} {a : Arc} (ha : f.arcs[e]? = some a) :
    ∃ blk, f.blocks[a.dst]? = some blk ∧ e ∈ blk.source := by
  obtain ⟨blk, hb⟩ := Adj.block_of_lt (hA.arcs_lt e a ha).2
  exact ⟨blk, hb, (hA.src_iff _ blk e hb).2 ⟨a, ha, rfl⟩⟩

/-- membership in `intArcs`: the arcs with both ends among `bs` -/
theorem mem_intArcs {f : Func} (hA : Adj f) {bs : List Nat} {e : Nat} :
    e ∈ intArcs f bs ↔ ∃ a, f.arcs[e]? = some a ∧ a.src ∈ bs ∧ a.dst ∈ bs := by
  unfold intArcs intIn
  rw [List.mem_flatMap]
  constructor
  · rintro ⟨b, hb, he⟩
    cases hblk : f.blocks[b]? with
    | none => rw [hblk] at he; simp at he
    | some blk =>
      rw [hblk] at he
      simp only [List.mem_filter, decide_eq_true_eq] at he
      obtain ⟨a, ha, hd⟩ := (hA.src_iff b blk e hblk).1 he.1
      refine ⟨a, ha, ?_, hd ▸ hb⟩
      rw [← arcSrc_eq ha]; exact he.2
  · rintro ⟨a, ha, hs, hd⟩
    obtain ⟨blk, hblk, hmem⟩ := hA.mem_src ha
    refine ⟨a.dst, hd, ?_⟩
    rw [hblk]
    simp only [List.mem_filter, decide_eq_true_eq]
    exact ⟨hmem, by rw [arcSrc_eq ha]; exact hs⟩

/-! ## partial correctness of folds -/

theorem foldl_ok_inv {σ α : Type} {step : σ → α → Outcome σ} (Inv : σ → Prop) :
    ∀ (l : List α) (s r : σ), Inv s →
    (∀ s a s', a ∈ l → Inv s → step s a = ok s' → Inv s') → Outcome.foldl step s l = ok r → Inv r := by
  intro l
  induction l with
  | nil => intro s r hs _ h; simp only [foldl_nil, Outcome.ok.injEq] at h; exact h ▸ hs
  | cons a l ih =>
    intro s r hs hstep h
    rw [foldl_cons] at h
    obtain ⟨s', h1, h2⟩ := bind_eq_ok.1 h
    exact ih s' r (hstep s a s' (by simp) hs h1)
      (fun s a s' ha => hstep s a s' (List.mem_cons_of_mem _ ha)) h2

theorem foldl_append_ok {σ α : Type} {step : σ → α → Outcome σ} {l1 l2 : List α} {s r : σ}
    (h : Outcome.foldl step s (l1 ++ l2) = ok r) :
    ∃ s', Outcome.foldl step s l1 = ok s' ∧ Outcome.foldl step s' l2 = ok r := by
  rw [foldl_append] at h
  exact bind_eq_ok.1 h

/-! ## the first loop of `get_line_count` -/

theorem sumCounters_spec (arcs : List Arc) (cnt : Nat → Nat) : ∀ (es : List Nat) (acc n : Nat),
    sumCounters arcs cnt es acc = ok n → n = acc + (es.map cnt).sum := by
  intro es
  induction es with
  | nil => intro acc n h; simp only [sumCounters, Outcome.ok.injEq] at h; simp [h]
  | cons e es ih =>
    intro acc n h
    simp only [sumCounters] at h
    split at h
    · cases h
    · split at h
      · cases h
      · have := ih _ _ h
        simp only [List.map_cons, List.sum_cons]
        omega

theorem sumEntering_spec (f : Func) (cnt : Nat → Nat) (bs : List Nat) : ∀ (es : List Nat)
    (acc n : Nat), sumEntering f.arcs cnt bs es acc = ok n →
    n = acc + ((es.filter fun e => !decide (arcSrc f e ∈ bs)).map cnt).sum := by
  intro es
  induction es with
  | nil => intro acc n h; simp only [sumEntering, Outcome.ok.injEq] at h; simp [h]
  | cons e es ih =>
    intro acc n h
    simp only [sumEntering] at h
    split at h
    · cases h
    · rename_i a ha
      have hsrc := arcSrc_eq ha
      split at h
      · rename_i hin
        have := ih _ _ h
        rw [List.filter_cons]
        simp only [hsrc, hin, decide_true, Bool.not_true]
        exact this
      · rename_i hin
        split at h
        · cases h
        · have := ih _ _ h
          rw [List.filter_cons]
          simp only [hsrc, hin, decide_false, Bool.not_false, if_true, List.map_cons, List.sum_cons]
          omega

theorem setCycles_spec (arcs : List Arc) (cnt : Nat → Nat) : ∀ (es : List Nat) (cyc cyc' : Nat → Nat),
    setCycles arcs cnt es cyc = ok cyc' → ∀ x, cyc' x = if x ∈ es then cnt x else cyc x := by
  intro es
  induction es with
  | nil => intro cyc cyc' h x; simp only [setCycles, Outcome.ok.injEq] at h; simp [h]
  | cons e es ih =>
    intro cyc cyc' h x
    simp only [setCycles] at h
    split at h
    · cases h
    · rw [ih _ _ h x]
      by_cases hx : x ∈ es
      · simp [hx]
      · simp only [hx, if_false, List.mem_cons, or_false, upd]
        by_cases hxe : x = e
        · simp [hxe]
        · simp [hxe]

theorem lineEntryStep_spec (f : Func) (cnt : Nat → Nat) (bs : List Nat) (acc r : (Nat → Nat) × Nat)
    (b : Nat) (h : lineEntryStep f cnt bs acc b = ok r) :
    r.2 = acc.2 + entryOf f cnt bs b ∧
    ∃ blk, f.blocks[b]? = some blk ∧
      ∀ x, r.1 x = if x ∈ blk.destination then cnt x else acc.1 x := by
  unfold lineEntryStep at h
  cases hblk : f.blocks[b]? with
  | none => rw [hblk] at h; cases h
  | some blk =>
    rw [hblk] at h
    simp only at h
    obtain ⟨count, h1, h2⟩ := bind_eq_ok.1 h
    obtain ⟨cyc, h3, h4⟩ := bind_eq_ok.1 h2
    simp only [Outcome.ok.injEq] at h4
    subst h4
    refine ⟨?_, blk, rfl, setCycles_spec _ _ _ _ _ h3⟩
    simp only [entryOf, hblk, extIn]
    split at h1
    · rename_i hno
      rw [if_pos hno]
      exact sumCounters_spec _ _ _ _ _ h1
    · rename_i hno
      rw [if_neg hno]
      exact sumEntering_spec f _ _ _ _ _ h1

/-- the first loop over any list of block occurrences -/
theorem lineEntry_fold (f : Func) (cnt : Nat → Nat) (bs : List Nat) : ∀ (l : List Nat)
    (acc r : (Nat → Nat) × Nat), Outcome.foldl (lineEntryStep f cnt bs) acc l = ok r →
    r.2 = acc.2 + (l.map (entryOf f cnt bs)).sum ∧
    (∀ x, r.1 x = cnt x ∨ r.1 x = acc.1 x) ∧
    (∀ b ∈ l, ∀ blk, f.blocks[b]? = some blk → ∀ x ∈ blk.destination, r.1 x = cnt x) := by
  intro l
  induction l with
  | nil =>
    intro acc r h
    simp only [foldl_nil, Outcome.ok.injEq] at h
    subst h
    exact ⟨by simp, fun x => .inr rfl, fun b hb => by cases hb⟩
  | cons b l ih =>
    intro acc r h
    rw [foldl_cons] at h
    obtain ⟨acc1, h1, h2⟩ := bind_eq_ok.1 h
    obtain ⟨g1, blk, hblk, g2⟩ := lineEntryStep_spec f cnt bs acc acc1 b h1
    obtain ⟨k1, k2, k3⟩ := ih acc1 r h2
    refine ⟨by simp only [List.map_cons, List.sum_cons]; omega, ?_, ?_⟩
    · intro x
      rcases k2 x with hx | hx
      · exact .inl hx
      · rw [hx, g2 x]
        split
        · exact .inl rfl
        · exact .inr rfl
    · intro b' hb' blk' hblk' x hx
      rcases List.mem_cons.1 hb' with rfl | hb'
      · rw [hblk] at hblk'
        cases hblk'
        rcases k2 x with h' | h'
        · exact h'
        · rw [h', g2 x, if_pos hx]
      · exact k3 b' hb' blk' hblk' x hx

/-! ## walks among the blocks of a line -/

/-- `es` is a chain of arcs from block `u` to block `w`; every arc ends in a block of `S` -/
def IsWalk (f : Func) (S : List Nat) : Nat → List Nat → Nat → Prop
  | u, [], w => u = w
  | u, e :: es, w => ∃ a, f.arcs[e]? = some a ∧ a.src = u ∧ a.dst ∈ S ∧ IsWalk f S a.dst es w

/-- no circuit among the blocks `bs`: no non-empty closed chain of arcs that stays in `bs` -/
def NoCycle (f : Func) (bs : List Nat) : Prop := ∀ u es, es ≠ [] → ¬ IsWalk f bs u es u

/-- the blocks of `bs` that the search started at `start` may enter -/
def bsGe (bs : List Nat) (start : Nat) : List Nat := bs.filter fun w => decide (start ≤ w)

theorem mem_bsGe {bs : List Nat} {start w : Nat} : w ∈ bsGe bs start ↔ w ∈ bs ∧ start ≤ w := by
  simp [bsGe]

theorem IsWalk.append {f : Func} {S : List Nat} : ∀ {es : List Nat} {u v w : Nat} {es' : List Nat},
    IsWalk f S u es v → IsWalk f S v es' w → IsWalk f S u (es ++ es') w := by
  intro es
  induction es with
  | nil => intro u v w es' h1 h2; simp only [IsWalk] at h1; subst h1; simpa using h2
  | cons e es ih =>
    intro u v w es' h1 h2
    obtain ⟨a, ha, hs, hd, hr⟩ := h1
    exact ⟨a, ha, hs, hd, ih hr h2⟩

theorem IsWalk.mono {f : Func} {S S' : List Nat} (hS : ∀ x ∈ S, x ∈ S') : ∀ {es : List Nat} {u w : Nat},
    IsWalk f S u es w → IsWalk f S' u es w := by
  intro es
  induction es with
  | nil => intro u w h; exact h
  | cons e es ih =>
    intro u w h
    obtain ⟨a, ha, hs, hd, hr⟩ := h
    exact ⟨a, ha, hs, hS _ hd, ih hr⟩

theorem IsWalk.single {f : Func} {S : List Nat} {e : Nat} {a : Arc} (ha : f.arcs[e]? = some a)
    (hd : a.dst ∈ S) : IsWalk f S a.src [e] a.dst := ⟨a, ha, rfl, hd, rfl⟩

/-- the end of a non-empty walk is in `S` -/
theorem IsWalk.end_mem {f : Func} {S : List Nat} : ∀ {es : List Nat} {u w : Nat}, es ≠ [] →
    IsWalk f S u es w → w ∈ S := by
  intro es
  induction es with
  | nil => intro u w h; exact absurd rfl h
  | cons e es ih =>
    intro u w _ h
    obtain ⟨a, ha, hs, hd, hr⟩ := h
    cases es with
    | nil => simp only [IsWalk] at hr; exact hr ▸ hd
    | cons e' es' => exact ih (by simp) hr

/-- the part of a walk after one of its arcs -/
theorem IsWalk.after {f : Func} {S : List Nat} : ∀ {es : List Nat} {u w : Nat} {e : Nat},
    IsWalk f S u es w → e ∈ es → ∃ es2, IsWalk f S (arcDst f e) es2 w := by
  intro es
  induction es with
  | nil => intro u w e _ he; cases he
  | cons e0 es ih =>
    intro u w e h he
    obtain ⟨a, ha, hs, hd, hr⟩ := h
    rcases List.mem_cons.1 he with rfl | he
    · exact ⟨es, by rw [arcDst_eq ha]; exact hr⟩
    · exact ih hr he

/-- along a walk whose arcs all go up in rank by at least one, the rank grows by the length -/
theorem IsWalk.rank_lt {f : Func} {S : List Nat} (rk : Nat → Nat) : ∀ {es : List Nat} {u w : Nat},
    IsWalk f S u es w → (∀ e ∈ es, rk (arcSrc f e) < rk (arcDst f e)) → rk u + es.length ≤ rk w := by
  intro es
  induction es with
  | nil => intro u w h _; simp only [IsWalk] at h; subst h; simp
  | cons e es ih =>
    intro u w h hrk
    obtain ⟨a, ha, hs, hd, hr⟩ := h
    have h1 := hrk e (by simp)
    rw [arcSrc_eq ha, arcDst_eq ha, hs] at h1
    have h2 := ih hr (fun e he => hrk e (List.mem_cons_of_mem _ he))
    simp only [List.length_cons]
    omega

/-- every arc of a walk from a block of `bs` through `bs` is an arc inside the line -/
theorem IsWalk.mem_intArcs {f : Func} (hA : Adj f) {bs : List Nat} : ∀ {es : List Nat} {u w : Nat},
    u ∈ bs → IsWalk f bs u es w → ∀ e ∈ es, e ∈ intArcs f bs := by
  intro es
  induction es with
  | nil => intro u w _ _ e he; cases he
  | cons e0 es ih =>
    intro u w hu h e he
    obtain ⟨a, ha, hs, hd, hr⟩ := h
    rcases List.mem_cons.1 he with rfl | he
    · exact (Grcov.Gcno.mem_intArcs hA).2 ⟨a, ha, hs ▸ hu, hd⟩
    · exact ih hd hr e he

theorem noCycle_of_cert {f : Func} (hA : Adj f) {bs : List Nat} {rk : Nat → Nat}
    (h : acyclicCert f bs rk = true) : NoCycle f bs := by
  unfold acyclicCert at h
  simp only [List.all_eq_true, decide_eq_true_eq] at h
  intro u es hne hw
  have hu : u ∈ bs := hw.end_mem hne
  have := IsWalk.rank_lt rk hw (fun e he => h e (hw.mem_intArcs hA hu e he))
  cases es with
  | nil => exact hne rfl
  | cons e es => simp only [List.length_cons] at this; omega

/-! ## pieces of the cycle search that do not touch `cycles` -/

theorem noteBlocked_fields (arcs : List Arc) (bs : List Nat) (start v : Nat) : ∀ (es : List Nat)
    (s r : CS), noteBlocked arcs bs start v es s = ok r →
    r.cyc = s.cyc ∧ r.path = s.path ∧ r.blocked = s.blocked := by
  intro es
  induction es with
  | nil => intro s r h; simp only [noteBlocked, Outcome.ok.injEq] at h; subst h; exact ⟨rfl, rfl, rfl⟩
  | cons e es ih =>
    intro s r h
    simp only [noteBlocked] at h
    split at h
    · cases h
    · split at h
      · split at h
        · split at h
          · cases h
          · split at h
            · exact ih _ _ h
            · have := ih _ _ h
              exact this
        · exact ih _ _ h
      · exact ih _ _ h

theorem unblock_sub : ∀ (fuel b : Nat) (bl : List Nat) (ls : List (List Nat))
    (r : List Nat × List (List Nat)), unblock fuel b (bl, ls) = ok r → ∀ x ∈ r.1, x ∈ bl := by
  intro fuel
  induction fuel with
  | zero => intro b bl ls r h; simp [unblock] at h
  | succ fuel ih =>
    intro b bl ls r h
    simp only [unblock] at h
    split at h
    · simp only [Outcome.ok.injEq] at h; subst h; exact fun x hx => hx
    · split at h
      · cases h
      · rename_i i _ l _
        have := foldl_ok_inv (Inv := fun p : List Nat × List (List Nat) => ∀ x ∈ p.1, x ∈ bl) l _ r
          (fun x hx => List.mem_of_mem_eraseIdx hx)
          (fun p b' p' _ hp hstep x hx => hp x (ih b' p.1 p.2 p' hstep x hx)) h
        exact this

/-! ## `get_cycle_count`: paid for by the arcs of the path -/

theorem sum_upd_le (g : Nat → Nat) (e c : Nat) (hc : c ≤ g e) : ∀ (L : List Nat),
    (L.map (upd g e (g e - c))).sum ≤ (L.map g).sum ∧
    (e ∈ L → (L.map (upd g e (g e - c))).sum + c ≤ (L.map g).sum) := by
  intro L
  induction L with
  | nil => simp
  | cons x L ih =>
    simp only [List.map_cons, List.sum_cons, List.mem_cons]
    by_cases hx : x = e
    · subst hx
      have : upd g x (g x - c) x = g x - c := by simp [upd]
      rw [this]
      exact ⟨by omega, fun _ => by omega⟩
    · have : upd g e (g e - c) x = g x := by simp [upd, hx]
      rw [this]
      refine ⟨by omega, fun h => ?_⟩
      rcases h with h | h
      · exact absurd h.symm hx
      · have := ih.2 h; omega

theorem subCycle_fold_bound (count : Nat) (L : List Nat) : ∀ (path : List Nat) (cy cy' : Nat → Nat),
    Outcome.foldl (subCycle count) cy path = ok cy' → (∀ e ∈ path, e ∈ L) →
    path.length * count + (L.map cy').sum ≤ (L.map cy).sum ∧ ∀ e, cy' e ≤ cy e := by
  intro path
  induction path with
  | nil =>
    intro cy cy' h _
    simp only [foldl_nil, Outcome.ok.injEq] at h
    subst h
    simp
  | cons e path ih =>
    intro cy cy' h hL
    rw [foldl_cons] at h
    obtain ⟨cy1, h1, h2⟩ := bind_eq_ok.1 h
    unfold subCycle at h1
    split at h1
    · cases h1
    · rename_i hge
      simp only [Outcome.ok.injEq] at h1
      subst h1
      obtain ⟨k1, k2⟩ := ih _ _ h2 (fun e he => hL e (List.mem_cons_of_mem _ he))
      have hs := (sum_upd_le cy e count (by omega) L).2 (hL e (by simp))
      refine ⟨?_, ?_⟩
      · simp only [List.length_cons, Nat.add_mul, Nat.one_mul]
        omega
      · intro x
        have := k2 x
        simp only [upd] at this
        by_cases hx : x = e
        · subst hx; simp only [if_true] at this; omega
        · simp only [hx, if_false] at this; exact this

theorem cycleCount_bound (L : List Nat) {cyc cy : Nat → Nat} {path : List Nat} {c : Nat}
    (h : cycleCount cyc path = ok (cy, c)) (hne : path ≠ []) (hL : ∀ e ∈ path, e ∈ L) :
    c + (L.map cy).sum ≤ (L.map cyc).sum ∧ ∀ e, cy e ≤ cyc e := by
  unfold cycleCount at h
  obtain ⟨cy0, h1, h2⟩ := bind_eq_ok.1 h
  simp only [Outcome.ok.injEq, Prod.mk.injEq] at h2
  obtain ⟨rfl, rfl⟩ := h2
  obtain ⟨k1, k2⟩ := subCycle_fold_bound _ L path cyc cy0 h1 hL
  refine ⟨?_, k2⟩
  have : 1 ≤ path.length := by
    cases path with
    | nil => exact absurd rfl hne
    | cons a l => simp
  have : path.foldl (fun c e => min c (cyc e)) U64MAX ≤
      path.length * path.foldl (fun c e => min c (cyc e)) U64MAX :=
    Nat.le_mul_of_pos_left _ (by omega)
  omega

/-! ## a block that cannot get back to `start` -/

/-- **dead end.** If no chain of arcs through the blocks the search may enter leads from `v` back
to `start`, `look_for_circuit` at `v` finds nothing, adds nothing, leaves `cycles` and `path` as
they were, and blocks only blocks reachable from `v`. -/
theorem lookForCircuit_dead {f : Func} (hA : Adj f) (bs : List Nat) (start : Nat) :
    ∀ (fuel v : Nat) (s : CS) (r : CS × Bool × Nat),
    (∀ es, es ≠ [] → ¬ IsWalk f (bsGe bs start) v es start) →
    lookForCircuit f bs start fuel v s = ok r →
    r.2.1 = false ∧ r.2.2 = 0 ∧ r.1.cyc = s.cyc ∧ r.1.path = s.path ∧
      ∀ x ∈ r.1.blocked, x ∈ s.blocked ∨ ∃ es, IsWalk f (bsGe bs start) v es x := by
  intro fuel
  induction fuel with
  | zero => intro v s r _ h; simp [lookForCircuit] at h
  | succ fuel ih =>
    intro v s r hdead h
    simp only [lookForCircuit] at h
    cases hblk : f.blocks[v]? with
    | none => rw [hblk] at h; cases h
    | some blk =>
      rw [hblk] at h
      simp only at h
      obtain ⟨acc, hfold, hrest⟩ := bind_eq_ok.1 h
      have hinv : acc.2.1 = false ∧ acc.2.2 = 0 ∧ acc.1.cyc = s.cyc ∧ acc.1.path = s.path ∧
          ∀ x ∈ acc.1.blocked, x ∈ s.blocked ∨ ∃ es, IsWalk f (bsGe bs start) v es x := by
        refine foldl_ok_inv (Inv := fun acc : CS × Bool × Nat =>
          acc.2.1 = false ∧ acc.2.2 = 0 ∧ acc.1.cyc = s.cyc ∧ acc.1.path = s.path ∧
          ∀ x ∈ acc.1.blocked, x ∈ s.blocked ∨ ∃ es, IsWalk f (bsGe bs start) v es x)
          blk.destination _ acc ?_ ?_ hfold
        · refine ⟨rfl, rfl, rfl, rfl, ?_⟩
          intro x hx
          simp only [List.mem_append, List.mem_singleton] at hx
          rcases hx with hx | hx
          · exact .inl hx
          · exact .inr ⟨[], hx.symm⟩
        · intro acc e acc' he hacc hstep
          obtain ⟨s2, found, count⟩ := acc
          obtain ⟨a1, a2, a3, a4, a5⟩ := hacc
          have a1 : found = false := a1
          have a2 : count = 0 := a2
          have a3 : s2.cyc = s.cyc := a3
          have a4 : s2.path = s.path := a4
          have a5 : ∀ x ∈ s2.blocked, x ∈ s.blocked ∨ ∃ es, IsWalk f (bsGe bs start) v es x := a5
          obtain ⟨a, ha, hsrc⟩ := (hA.dst_iff v blk e hblk).1 he
          simp only [circuitStep] at hstep
          rw [ha] at hstep
          simp only at hstep
          split at hstep
          · rename_i hw
            have hwS : a.dst ∈ bsGe bs start := mem_bsGe.2 ⟨hw.2, hw.1⟩
            have hwalk : IsWalk f (bsGe bs start) v [e] a.dst := hsrc ▸ IsWalk.single ha hwS
            split at hstep
            · rename_i hws
              exact absurd (hws ▸ hwalk) (hdead [e] (by simp))
            · split at hstep
              · obtain ⟨r', hr', hstep⟩ := bind_eq_ok.1 hstep
                obtain ⟨s', f', c⟩ := r'
                have hdead' : ∀ es, es ≠ [] → ¬ IsWalk f (bsGe bs start) a.dst es start := by
                  intro es hne hw'
                  exact hdead ([e] ++ es) (by simp) (hwalk.append hw')
                obtain ⟨b1, b2, b3, b4, b5⟩ := ih a.dst _ _ hdead' hr'
                have b1 : f' = false := b1
                have b2 : c = 0 := b2
                have b3 : s'.cyc = s2.cyc := b3
                have b4 : s'.path = s2.path ++ [e] := b4
                simp only at hstep
                split at hstep
                · cases hstep
                · simp only [Outcome.ok.injEq] at hstep
                  subst hstep
                  refine ⟨by simp [a1, b1], by simp [a2, b2], by simp [b3, a3], by simp [b4, a4], ?_⟩
                  intro x hx
                  rcases b5 x hx with hx | ⟨es, hes⟩
                  · exact a5 x hx
                  · exact .inr ⟨[e] ++ es, hwalk.append hes⟩
              · simp only [Outcome.ok.injEq] at hstep
                subst hstep
                exact ⟨a1, a2, a3, by simp [a4], a5⟩
          · simp only [Outcome.ok.injEq] at hstep
            subst hstep
            exact ⟨a1, a2, a3, a4, a5⟩
      obtain ⟨s4, found, count⟩ := acc
      obtain ⟨c1, c2, c3, c4, c5⟩ := hinv
      have c1 : found = false := c1
      have c2 : count = 0 := c2
      simp only at hrest
      subst c1
      simp only [Bool.false_eq_true, if_false] at hrest
      obtain ⟨s5, hnb, hrest⟩ := bind_eq_ok.1 hrest
      simp only [Outcome.ok.injEq] at hrest
      subst hrest
      obtain ⟨g1, g2, g3⟩ := noteBlocked_fields _ _ _ _ _ _ _ hnb
      refine ⟨rfl, c2, g1.trans c3, g2.trans c4, ?_⟩
      intro x hx
      rw [g3] at hx
      exact c5 x hx

/-! ## the circuits found are paid for by the arcs inside the line -/

/-- **potential.** Whatever the shape of the line: the count `look_for_circuit` returns plus what is
left in `cycles` on the arcs inside the line is at most what was there before; `cycles` never
grow; `path` is restored. -/
theorem lookForCircuit_bound {f : Func} (hA : Adj f) (bs : List Nat) (start : Nat) :
    ∀ (fuel v : Nat) (s : CS) (r : CS × Bool × Nat), v ∈ bs →
    (∀ e ∈ s.path, e ∈ intArcs f bs) → lookForCircuit f bs start fuel v s = ok r →
    r.2.2 + ((intArcs f bs).map r.1.cyc).sum ≤ ((intArcs f bs).map s.cyc).sum ∧
      (∀ e, r.1.cyc e ≤ s.cyc e) ∧ r.1.path = s.path := by
  intro fuel
  induction fuel with
  | zero => intro v s r _ _ h; simp [lookForCircuit] at h
  | succ fuel ih =>
    intro v s r hv hpath h
    simp only [lookForCircuit] at h
    cases hblk : f.blocks[v]? with
    | none => rw [hblk] at h; cases h
    | some blk =>
      rw [hblk] at h
      simp only at h
      obtain ⟨acc, hfold, hrest⟩ := bind_eq_ok.1 h
      have hinv : acc.2.2 + ((intArcs f bs).map acc.1.cyc).sum ≤ ((intArcs f bs).map s.cyc).sum ∧
          (∀ e, acc.1.cyc e ≤ s.cyc e) ∧ acc.1.path = s.path := by
        refine foldl_ok_inv (Inv := fun acc : CS × Bool × Nat =>
          acc.2.2 + ((intArcs f bs).map acc.1.cyc).sum ≤ ((intArcs f bs).map s.cyc).sum ∧
          (∀ e, acc.1.cyc e ≤ s.cyc e) ∧ acc.1.path = s.path)
          blk.destination _ acc ?_ ?_ hfold
        · exact ⟨by simp, fun e => Nat.le_refl _, rfl⟩
        · intro acc e acc' he hacc hstep
          obtain ⟨s2, found, count⟩ := acc
          obtain ⟨a1, a2, a3⟩ := hacc
          have a1 : count + ((intArcs f bs).map s2.cyc).sum ≤ ((intArcs f bs).map s.cyc).sum := a1
          have a2 : ∀ e, s2.cyc e ≤ s.cyc e := a2
          have a3 : s2.path = s.path := a3
          obtain ⟨a, ha, hsrc⟩ := (hA.dst_iff v blk e hblk).1 he
          simp only [circuitStep] at hstep
          rw [ha] at hstep
          simp only at hstep
          split at hstep
          · rename_i hw
            have heL : e ∈ intArcs f bs := (mem_intArcs hA).2 ⟨a, ha, hsrc ▸ hv, hw.2⟩
            have hpath' : ∀ e' ∈ s2.path ++ [e], e' ∈ intArcs f bs := by
              intro e' he'
              rcases List.mem_append.1 he' with he' | he'
              · exact hpath e' (a3 ▸ he')
              · simp only [List.mem_singleton] at he'; exact he' ▸ heL
            split at hstep
            · obtain ⟨r', hr', hstep⟩ := bind_eq_ok.1 hstep
              obtain ⟨cy, c⟩ := r'
              obtain ⟨k1, k2⟩ := cycleCount_bound (intArcs f bs) hr' (by simp) hpath'
              simp only at hstep
              split at hstep
              · cases hstep
              · simp only [Outcome.ok.injEq] at hstep
                subst hstep
                refine ⟨?_, fun e => Nat.le_trans (k2 e) (a2 e), by simp [a3]⟩
                show count + c + ((intArcs f bs).map cy).sum ≤ _
                omega
            · split at hstep
              · obtain ⟨r', hr', hstep⟩ := bind_eq_ok.1 hstep
                obtain ⟨s', f', c⟩ := r'
                obtain ⟨b1, b2, b3⟩ := ih a.dst _ _ hw.2 hpath' hr'
                have b1 : c + ((intArcs f bs).map s'.cyc).sum ≤ ((intArcs f bs).map s2.cyc).sum := b1
                have b2 : ∀ e, s'.cyc e ≤ s2.cyc e := b2
                have b3 : s'.path = s2.path ++ [e] := b3
                simp only at hstep
                split at hstep
                · cases hstep
                · simp only [Outcome.ok.injEq] at hstep
                  subst hstep
                  refine ⟨?_, fun e => Nat.le_trans (b2 e) (a2 e), by simp [b3, a3]⟩
                  show count + c + ((intArcs f bs).map s'.cyc).sum ≤ _
                  omega
              · simp only [Outcome.ok.injEq] at hstep
                subst hstep
                exact ⟨a1, a2, by simp [a3]⟩
          · simp only [Outcome.ok.injEq] at hstep
            subst hstep
            exact ⟨a1, a2, a3⟩
      obtain ⟨s4, found, count⟩ := acc
      obtain ⟨c1, c2, c3⟩ := hinv
      simp only at hrest
      split at hrest
      · obtain ⟨p, _, hrest⟩ := bind_eq_ok.1 hrest
        simp only [Outcome.ok.injEq] at hrest
        subst hrest
        exact ⟨c1, c2, c3⟩
      · obtain ⟨s5, hnb, hrest⟩ := bind_eq_ok.1 hrest
        simp only [Outcome.ok.injEq] at hrest
        subst hrest
        obtain ⟨g1, g2, _⟩ := noteBlocked_fields _ _ _ _ _ _ _ hnb
        refine ⟨?_, ?_, g2.trans c3⟩
        · show count + ((intArcs f bs).map s5.cyc).sum ≤ _
          rw [g1]; exact c1
        · intro e; show s5.cyc e ≤ _; rw [g1]; exact c2 e

/-- `get_cycles_count` over any list of start blocks of the line -/
theorem cyclesCount_bound {f : Func} (hA : Adj f) (bs : List Nat) (fuel : Nat) : ∀ (l : List Nat)
    (acc r : (Nat → Nat) × Nat), (∀ b ∈ l, b ∈ bs) →
    Outcome.foldl (cyclesStep f fuel bs) acc l = ok r →
    r.2 + ((intArcs f bs).map r.1).sum ≤ acc.2 + ((intArcs f bs).map acc.1).sum ∧
      acc.2 ≤ r.2 ∧ ∀ e, r.1 e ≤ acc.1 e := by
  intro l
  induction l with
  | nil =>
    intro acc r _ h
    simp only [foldl_nil, Outcome.ok.injEq] at h
    subst h
    exact ⟨Nat.le_refl _, Nat.le_refl _, fun _ => Nat.le_refl _⟩
  | cons b l ih =>
    intro acc r hl h
    rw [foldl_cons] at h
    obtain ⟨acc1, h1, h2⟩ := bind_eq_ok.1 h
    unfold cyclesStep at h1
    obtain ⟨r', hr', h1⟩ := bind_eq_ok.1 h1
    obtain ⟨s', f', c⟩ := r'
    simp only at h1
    split at h1
    · cases h1
    · simp only [Outcome.ok.injEq] at h1
      subst h1
      obtain ⟨b1, b2, _⟩ := lookForCircuit_bound hA bs b fuel b _ _ (hl b (by simp))
        (fun e he => by cases he) hr'
      have b1 : c + ((intArcs f bs).map s'.cyc).sum ≤ ((intArcs f bs).map acc.1).sum := b1
      have b2 : ∀ e, s'.cyc e ≤ acc.1 e := b2
      obtain ⟨k1, k2, k3⟩ := ih _ r (fun b hb => hl b (List.mem_cons_of_mem _ hb)) h2
      have k1 : r.2 + ((intArcs f bs).map r.1).sum ≤ acc.2 + c + ((intArcs f bs).map s'.cyc).sum := k1
      have k2 : acc.2 + c ≤ r.2 := k2
      have k3 : ∀ e, r.1 e ≤ s'.cyc e := k3
      exact ⟨by omega, by omega, fun e => Nat.le_trans (k3 e) (b2 e)⟩

theorem sum_map_congr {g h : Nat → Nat} : ∀ (L : List Nat), (∀ e ∈ L, g e = h e) →
    (L.map g).sum = (L.map h).sum := by
  intro L
  induction L with
  | nil => intro _; rfl
  | cons x L ih =>
    intro hL
    simp only [List.map_cons, List.sum_cons]
    rw [hL x (by simp), ih fun e he => hL e (List.mem_cons_of_mem _ he)]

/-- after the first loop `cycles = counter` on every arc inside the line -/
theorem lineEntry_cycles {f : Func} (hA : Adj f) (cnt : Nat → Nat) (bs : List Nat)
    (acc r : (Nat → Nat) × Nat) (h : Outcome.foldl (lineEntryStep f cnt bs) acc bs = ok r) :
    ∀ e ∈ intArcs f bs, r.1 e = cnt e := by
  intro e he
  obtain ⟨a, ha, hs, _⟩ := (mem_intArcs hA).1 he
  obtain ⟨blk, hblk, hmem⟩ := hA.mem_dst ha
  exact (lineEntry_fold f cnt bs bs acc r h).2.2 a.src hs blk hblk e hmem

/-- **`get_line_count` between its bounds**: the entering part plus something between zero and
the total count of the arcs inside the line -/
theorem getLineCount_bounds {f : Func} (hA : Adj f) (cnt : Nat → Nat) (bs : List Nat)
    (cyc cyc' : Nat → Nat) (n : Nat) (h : getLineCount f cnt bs cyc = ok (cyc', n)) :
    entryPart f cnt bs ≤ n ∧ n ≤ entryPart f cnt bs + intSum f cnt bs := by
  unfold getLineCount at h
  obtain ⟨r1, h1, h2⟩ := bind_eq_ok.1 h
  obtain ⟨cyc1, count⟩ := r1
  simp only at h2
  obtain ⟨r2, h3, h4⟩ := bind_eq_ok.1 h2
  obtain ⟨cyc2, c⟩ := r2
  simp only at h4
  split at h4
  · cases h4
  · simp only [Outcome.ok.injEq, Prod.mk.injEq] at h4
    obtain ⟨_, rfl⟩ := h4
    have e1 := (lineEntry_fold f cnt bs bs _ _ h1).1
    have e1 : count = 0 + entryPart f cnt bs := e1
    have e2 := lineEntry_cycles hA cnt bs _ _ h1
    unfold cyclesCount at h3
    obtain ⟨k1, _, _⟩ := cyclesCount_bound hA bs _ bs _ _ (fun b hb => hb) h3
    have k1 : c + ((intArcs f bs).map cyc2).sum ≤ 0 + ((intArcs f bs).map cyc1).sum := k1
    have e3 : ((intArcs f bs).map cyc1).sum = intSum f cnt bs := sum_map_congr _ e2
    omega

/-! ## a line without a circuit -/

theorem cyclesCount_dead {f : Func} (hA : Adj f) (bs : List Nat) (fuel : Nat) : ∀ (l : List Nat)
    (acc r : (Nat → Nat) × Nat),
    (∀ b ∈ l, ∀ es, es ≠ [] → ¬ IsWalk f (bsGe bs b) b es b) →
    Outcome.foldl (cyclesStep f fuel bs) acc l = ok r → r = acc := by
  intro l
  induction l with
  | nil => intro acc r _ h; simp only [foldl_nil, Outcome.ok.injEq] at h; exact h.symm
  | cons b l ih =>
    intro acc r hl h
    rw [foldl_cons] at h
    obtain ⟨acc1, h1, h2⟩ := bind_eq_ok.1 h
    unfold cyclesStep at h1
    obtain ⟨r', hr', h1⟩ := bind_eq_ok.1 h1
    obtain ⟨s', f', c⟩ := r'
    simp only at h1
    split at h1
    · cases h1
    · simp only [Outcome.ok.injEq] at h1
      subst h1
      obtain ⟨_, b2, b3, _⟩ := lookForCircuit_dead hA bs b fuel b _ _ (hl b (by simp)) hr'
      have b2 : c = 0 := b2
      have b3 : s'.cyc = acc.1 := b3
      have := ih _ r (fun b hb => hl b (List.mem_cons_of_mem _ hb)) h2
      rw [this, b2, b3]
      rfl

/-- **no circuit among the blocks of the line**: the count is the entering part -/
theorem getLineCount_acyclic {f : Func} (hA : Adj f) (cnt : Nat → Nat) (bs : List Nat)
    (hN : NoCycle f bs) (cyc cyc' : Nat → Nat) (n : Nat)
    (h : getLineCount f cnt bs cyc = ok (cyc', n)) : n = entryPart f cnt bs := by
  unfold getLineCount at h
  obtain ⟨r1, h1, h2⟩ := bind_eq_ok.1 h
  obtain ⟨cyc1, count⟩ := r1
  simp only at h2
  obtain ⟨r2, h3, h4⟩ := bind_eq_ok.1 h2
  obtain ⟨cyc2, c⟩ := r2
  simp only at h4
  split at h4
  · cases h4
  · simp only [Outcome.ok.injEq, Prod.mk.injEq] at h4
    obtain ⟨_, rfl⟩ := h4
    have e1 : count = 0 + entryPart f cnt bs := (lineEntry_fold f cnt bs bs _ _ h1).1
    unfold cyclesCount at h3
    have := cyclesCount_dead hA bs _ bs _ _
      (fun b _ es hne hw => hN b es hne (hw.mono fun x hx => (mem_bsGe.1 hx).1)) h3
    have hc : c = 0 := congrArg Prod.snd this
    omega

/-! ## a line whose only circuit is one simple loop -/

/-- `loop` is a simple circuit among `bs`, listed from its smallest block `m`, and every closed
chain of arcs among `bs` uses arcs of `loop` only (so it is the only circuit, without chords) -/
structure OneLoop (f : Func) (bs loop : List Nat) (m : Nat) : Prop where
  ne : loop ≠ []
  walk : IsWalk f bs m loop m
  srcs_nodup : (loop.map (arcSrc f)).Nodup
  src_ge : ∀ e ∈ loop, m ≤ arcSrc f e
  dst_ge : ∀ e ∈ loop, m ≤ arcDst f e
  mem : m ∈ bs
  only : ∀ u es, es ≠ [] → IsWalk f bs u es u → ∀ e ∈ es, e ∈ loop

theorem IsWalk.restrict {f : Func} {S S' : List Nat} : ∀ {es : List Nat} {u w : Nat},
    IsWalk f S u es w → (∀ e ∈ es, arcDst f e ∈ S') → IsWalk f S' u es w := by
  intro es
  induction es with
  | nil => intro u w h _; exact h
  | cons e es ih =>
    intro u w h hS
    obtain ⟨a, ha, hs, hd, hr⟩ := h
    refine ⟨a, ha, hs, ?_, ih hr fun e he => hS e (List.mem_cons_of_mem _ he)⟩
    have := hS e (by simp)
    rwa [arcDst_eq ha] at this

/-- the arc after an arc of a walk that does not end the walk -/
theorem IsWalk.next {f : Func} {S : List Nat} : ∀ {es : List Nat} {u w : Nat} {e : Nat},
    IsWalk f S u es w → e ∈ es → arcDst f e ≠ w → ∃ e' ∈ es, arcSrc f e' = arcDst f e := by
  intro es
  induction es with
  | nil => intro u w e _ he; cases he
  | cons e0 es ih =>
    intro u w e h he hne
    obtain ⟨a, ha, hs, hd, hr⟩ := h
    rcases List.mem_cons.1 he with rfl | he
    · cases es with
      | nil =>
        simp only [IsWalk] at hr
        rw [arcDst_eq ha] at hne
        exact absurd hr hne
      | cons e1 es' =>
        obtain ⟨a1, ha1, hs1, _, _⟩ := hr
        exact ⟨e1, by simp, by rw [arcSrc_eq ha1, arcDst_eq ha, hs1]⟩
    · obtain ⟨e', he', h'⟩ := ih hr he hne
      exact ⟨e', List.mem_cons_of_mem _ he', h'⟩

theorem inj_of_nodup_map {α β : Type} (g : α → β) : ∀ (l : List α), (l.map g).Nodup →
    ∀ x ∈ l, ∀ y ∈ l, g x = g y → x = y := by
  intro l
  induction l with
  | nil => intro _ x hx; cases hx
  | cons a l ih =>
    intro h x hx y hy hxy
    simp only [List.map_cons, List.nodup_cons] at h
    rcases List.mem_cons.1 hx with hxa | hx'
    · rcases List.mem_cons.1 hy with hya | hy'
      · exact hxa.trans hya.symm
      · exact absurd (by rw [← hxa, hxy]; exact List.mem_map_of_mem hy') h.1
    · rcases List.mem_cons.1 hy with hya | hy'
      · exact absurd (by rw [← hya, ← hxy]; exact List.mem_map_of_mem hx') h.1
      · exact ih h.2 x hx' y hy' hxy

theorem OneLoop.nodup {f : Func} {bs loop : List Nat} {m : Nat} (hL : OneLoop f bs loop m) :
    loop.Nodup := nodup_of_map (arcSrc f) loop hL.srcs_nodup

theorem OneLoop.src_inj {f : Func} {bs loop : List Nat} {m : Nat} (hL : OneLoop f bs loop m)
    {x y : Nat} (hx : x ∈ loop) (hy : y ∈ loop) (h : arcSrc f x = arcSrc f y) : x = y :=
  inj_of_nodup_map (arcSrc f) loop hL.srcs_nodup x hx y hy h

theorem OneLoop.walkGe {f : Func} {bs loop : List Nat} {m : Nat} (hL : OneLoop f bs loop m) :
    IsWalk f (bsGe bs m) m loop m := by
  refine hL.walk.restrict fun e he => mem_bsGe.2 ⟨?_, hL.dst_ge e he⟩
  -- the destination of a loop arc is a block of `bs`
  have : ∀ {es : List Nat} {u w : Nat}, IsWalk f bs u es w → ∀ e ∈ es, arcDst f e ∈ bs := by
    intro es
    induction es with
    | nil => intro u w _ e he; cases he
    | cons e0 es ih =>
      intro u w h e he
      obtain ⟨a, ha, hs, hd, hr⟩ := h
      rcases List.mem_cons.1 he with rfl | he
      · rw [arcDst_eq ha]; exact hd
      · exact ih hr e he
  exact this hL.walk e he

theorem OneLoop.head_src {f : Func} {bs loop : List Nat} {m : Nat} (hL : OneLoop f bs loop m) :
    ∃ e0 rest, loop = e0 :: rest ∧ arcSrc f e0 = m := by
  cases hl : loop with
  | nil => exact absurd hl hL.ne
  | cons e0 rest =>
    have := hL.walk
    rw [hl] at this
    obtain ⟨a, ha, hs, _, _⟩ := this
    exact ⟨e0, rest, rfl, by rw [arcSrc_eq ha, hs]⟩

/-- the destination of an arc that does not end the walk is the source of a later arc -/
theorem IsWalk.dst_mem_tail {f : Func} {S : List Nat} : ∀ {es : List Nat} {u w e0 e : Nat},
    IsWalk f S u (e0 :: es) w → e ∈ e0 :: es → arcDst f e ≠ w →
    arcDst f e ∈ es.map (arcSrc f) := by
  intro es
  induction es with
  | nil =>
    intro u w e0 e h he hne
    obtain ⟨a, ha, hs, hd, hr⟩ := h
    simp only [List.mem_singleton] at he
    subst he
    simp only [IsWalk] at hr
    rw [arcDst_eq ha] at hne
    exact absurd hr hne
  | cons e1 es ih =>
    intro u w e0 e h he hne
    obtain ⟨a, ha, hs, hd, hr⟩ := h
    rcases List.mem_cons.1 he with rfl | he
    · obtain ⟨a1, ha1, hs1, _, _⟩ := hr
      simp only [List.map_cons, List.mem_cons]
      exact .inl (by rw [arcSrc_eq ha1, arcDst_eq ha, hs1])
    · exact List.mem_cons_of_mem _ (ih hr he hne)

/-- position of `x` in a list (its length when absent) -/
def posIn : List Nat → Nat → Nat
  | [], _ => 0
  | a :: l, x => if x = a then 0 else posIn l x + 1

/-- along a chain with pairwise different source blocks, an arc that does not end the chain goes
one position up -/
theorem IsWalk.pos_succ {f : Func} {S : List Nat} : ∀ {es : List Nat} {u w : Nat},
    IsWalk f S u es w → (es.map (arcSrc f)).Nodup → ∀ e ∈ es, arcDst f e ≠ w →
    posIn (es.map (arcSrc f)) (arcDst f e) = posIn (es.map (arcSrc f)) (arcSrc f e) + 1 := by
  intro es
  induction es with
  | nil => intro u w _ _ e he; cases he
  | cons e0 es ih =>
    intro u w h hn e he hne
    have hfull : IsWalk f S u (e0 :: es) w := h
    obtain ⟨a, ha, hs, hd, hr⟩ := h
    simp only [List.map_cons, List.nodup_cons] at hn
    -- the destination of `e` is the source of a later arc, hence not the first source
    have hd0 : arcDst f e ≠ arcSrc f e0 := fun heq => hn.1 (heq ▸ hfull.dst_mem_tail he hne)
    rcases List.mem_cons.1 he with rfl | he
    · -- first arc: its destination is the source of the second arc
      cases es with
      | nil =>
        simp only [IsWalk] at hr
        rw [arcDst_eq ha] at hne
        exact absurd hr hne
      | cons e1 es' =>
        obtain ⟨a1, ha1, hs1, _, _⟩ := hr
        have h1 : arcSrc f e1 = arcDst f e := by rw [arcSrc_eq ha1, arcDst_eq ha, hs1]
        simp only [List.map_cons, posIn, if_true]
        rw [if_neg hd0, h1]
        simp
    · have := ih hr hn.2 e he hne
      simp only [List.map_cons, posIn]
      have hs0 : arcSrc f e ≠ arcSrc f e0 := fun heq => hn.1 (heq ▸ List.mem_map_of_mem he)
      rw [if_neg hd0, if_neg hs0, this]

/-- a start block other than the smallest loop block lies on no circuit the search may walk -/
theorem OneLoop.dead_start {f : Func} {bs loop : List Nat} {m : Nat} (hL : OneLoop f bs loop m)
    {b : Nat} (hb : b ≠ m) : ∀ es, es ≠ [] → ¬ IsWalk f (bsGe bs b) b es b := by
  intro es hne hw
  have hwbs : IsWalk f bs b es b := hw.mono fun x hx => (mem_bsGe.1 hx).1
  have hall := hL.only b es hne hwbs
  -- `b` is a loop block above `m`
  have hbm : m < b := by
    cases es with
    | nil => exact absurd rfl hne
    | cons e1 es' =>
      obtain ⟨a, ha, hs, _, _⟩ := hw
      have := hL.src_ge e1 (hall e1 (by simp))
      rw [arcSrc_eq ha, hs] at this
      omega
  -- no arc of the walk enters `m`
  have hdst : ∀ e ∈ es, arcDst f e ≠ m := by
    have : ∀ {es : List Nat} {u w : Nat}, IsWalk f (bsGe bs b) u es w → ∀ e ∈ es, b ≤ arcDst f e := by
      intro es
      induction es with
      | nil => intro u w _ e he; cases he
      | cons e0 es ih =>
        intro u w h e he
        obtain ⟨a, ha, hs, hd, hr⟩ := h
        rcases List.mem_cons.1 he with rfl | he
        · rw [arcDst_eq ha]; exact (mem_bsGe.1 hd).2
        · exact ih hr e he
    intro e he heq
    have := this hw e he
    omega
  have hrk := IsWalk.rank_lt (posIn (loop.map (arcSrc f))) hw (fun e he => by
    have := hL.walk.pos_succ hL.srcs_nodup e (hall e he) (hdst e he)
    omega)
  cases es with
  | nil => exact hne rfl
  | cons e es => simp only [List.length_cons] at hrk; omega

/-- **one simple loop.** The search started at the smallest loop block `m`, standing at the block
reached by the first part `pre` of the loop with `path = pre`, none of the loop blocks still to
come blocked: it walks the rest of the loop, closes the circuit once, and cancels it –
`found`, and the count and the new `cycles` are those of `get_cycle_count` on the whole loop.
Every other arc it tries leads to blocks that cannot get back to `m`. -/
theorem lookForCircuit_loop {f : Func} (hA : Adj f) {bs loop : List Nat} {m : Nat}
    (hL : OneLoop f bs loop m) :
    ∀ (suf pre : List Nat) (fuel v : Nat) (s : CS) (r : CS × Bool × Nat),
    loop = pre ++ suf → suf ≠ [] → IsWalk f bs m pre v → IsWalk f (bsGe bs m) v suf m →
    s.path = pre → (∀ e ∈ suf, arcDst f e ≠ m → arcDst f e ∉ s.blocked) →
    lookForCircuit f bs m fuel v s = ok r →
    r.2.1 = true ∧ cycleCount s.cyc loop = ok (r.1.cyc, r.2.2) ∧ r.1.path = s.path := by
  intro suf
  induction suf with
  | nil => intro pre fuel v s r _ h; exact absurd rfl h
  | cons e suf' ih =>
    intro pre fuel v s r hloop _ hpre hsuf hpath hH h
    have hsufW : IsWalk f (bsGe bs m) v (e :: suf') m := hsuf
    obtain ⟨a, ha, hsrc, hdS, hrest⟩ := hsuf
    have hdbs : a.dst ∈ bs := (mem_bsGe.1 hdS).1
    have hdge : m ≤ a.dst := (mem_bsGe.1 hdS).2
    cases fuel with
    | zero => simp [lookForCircuit] at h
    | succ fuel =>
    simp only [lookForCircuit] at h
    have heloop : e ∈ loop := by rw [hloop]; simp
    have hsufloop : ∀ x ∈ suf', x ∈ loop := by intro x hx; rw [hloop]; simp [hx]
    -- the arcs of the loop before and at `e` do not come again
    have hdisj : ∀ x ∈ pre ++ [e], x ∉ suf' := by
      have hn := hL.nodup
      rw [hloop, show pre ++ e :: suf' = (pre ++ [e]) ++ suf' by simp] at hn
      intro x hx hx'
      exact (List.nodup_append.1 hn).2.2 x hx x hx' rfl
    cases hblk : f.blocks[v]? with
    | none => rw [hblk] at h; cases h
    | some blk =>
    rw [hblk] at h
    simp only at h
    obtain ⟨acc, hfold, hfin⟩ := bind_eq_ok.1 h
    have hmem : e ∈ blk.destination := (hA.dst_iff v blk e hblk).2 ⟨a, ha, hsrc⟩
    obtain ⟨d1, d2, hsplit⟩ := List.append_of_mem hmem
    have hnd := hA.dst_nodup v blk hblk
    rw [hsplit] at hnd hfold
    have he1 : e ∉ d1 := fun hx => (List.nodup_append.1 hnd).2.2 e hx e (by simp) rfl
    have he2 : e ∉ d2 := (List.nodup_cons.1 (List.nodup_append.1 hnd).2.1).1
    -- an arc out of `v` other than `e` changes nothing but `blocked`
    have hother : ∀ (acc acc' : CS × Bool × Nat) (e' : Nat), e' ∈ blk.destination → e' ≠ e →
        acc.1.path = pre →
        circuitStep f.arcs bs m (lookForCircuit f bs m fuel) acc e' = ok acc' →
        acc'.2.1 = acc.2.1 ∧ acc'.2.2 = acc.2.2 ∧ acc'.1.cyc = acc.1.cyc ∧
          acc'.1.path = acc.1.path ∧
          ∀ x ∈ acc'.1.blocked, x ∈ acc.1.blocked ∨ ∀ es, ¬ IsWalk f (bsGe bs m) x es m := by
      intro acc acc' e' he' hne hp hstep
      obtain ⟨s2, found, count⟩ := acc
      have hp : s2.path = pre := hp
      obtain ⟨a', ha', hsrc'⟩ := (hA.dst_iff v blk e' hblk).1 he'
      have hdead : a'.dst ∈ bs → ∀ es, ¬ IsWalk f (bsGe bs m) a'.dst es m := by
        intro hb es hw
        have hclosed : IsWalk f bs m (pre ++ ([e'] ++ es)) m :=
          hpre.append ((hsrc' ▸ IsWalk.single ha' hb).append
            (hw.mono fun x hx => (mem_bsGe.1 hx).1))
        have h1 := hL.only m _ (by simp) hclosed e' (by simp)
        exact hne (hL.src_inj h1 heloop (by rw [arcSrc_eq ha', arcSrc_eq ha, hsrc', hsrc]))
      simp only [circuitStep] at hstep
      rw [ha'] at hstep
      simp only at hstep
      split at hstep
      · rename_i hw
        split at hstep
        · rename_i hws
          exact absurd (show IsWalk f (bsGe bs m) a'.dst [] m from hws) (hdead hw.2 [])
        · split at hstep
          · obtain ⟨r', hr', hstep⟩ := bind_eq_ok.1 hstep
            obtain ⟨s', f', c⟩ := r'
            obtain ⟨b1, b2, b3, b4, b5⟩ := lookForCircuit_dead hA bs m fuel a'.dst _ _
              (fun es _ => hdead hw.2 es) hr'
            have b1 : f' = false := b1
            have b2 : c = 0 := b2
            have b3 : s'.cyc = s2.cyc := b3
            have b4 : s'.path = s2.path ++ [e'] := b4
            simp only at hstep
            split at hstep
            · cases hstep
            · simp only [Outcome.ok.injEq] at hstep
              subst hstep
              refine ⟨by simp [b1], by simp [b2], b3, by simp [b4], ?_⟩
              intro x hx
              rcases b5 x hx with hx | ⟨es, hes⟩
              · exact .inl hx
              · exact .inr fun es' hw' => hdead hw.2 (es ++ es') (hes.append hw')
          · simp only [Outcome.ok.injEq] at hstep
            subst hstep
            exact ⟨rfl, rfl, rfl, by simp, fun x hx => .inl hx⟩
      · simp only [Outcome.ok.injEq] at hstep
        subst hstep
        exact ⟨rfl, rfl, rfl, rfl, fun x hx => .inl hx⟩
    have hd1 : ∀ x ∈ d1, x ∈ blk.destination ∧ x ≠ e := fun x hx =>
      ⟨by rw [hsplit]; simp [hx], fun heq => he1 (heq ▸ hx)⟩
    have hd2 : ∀ x ∈ d2, x ∈ blk.destination ∧ x ≠ e := fun x hx =>
      ⟨by rw [hsplit]; simp [hx], fun heq => he2 (heq ▸ hx)⟩
    obtain ⟨acc1, hf1, hf2⟩ := foldl_append_ok hfold
    rw [foldl_cons] at hf2
    obtain ⟨acc2, hstep, hf3⟩ := bind_eq_ok.1 hf2
    -- phase 1: the arcs before `e`
    have hinv1 : acc1.2.1 = false ∧ acc1.2.2 = 0 ∧ acc1.1.cyc = s.cyc ∧ acc1.1.path = pre ∧
        ∀ x ∈ acc1.1.blocked, x ∈ s.blocked ∨ x = v ∨ ∀ es, ¬ IsWalk f (bsGe bs m) x es m := by
      refine foldl_ok_inv (Inv := fun acc : CS × Bool × Nat =>
        acc.2.1 = false ∧ acc.2.2 = 0 ∧ acc.1.cyc = s.cyc ∧ acc.1.path = pre ∧
        ∀ x ∈ acc.1.blocked, x ∈ s.blocked ∨ x = v ∨ ∀ es, ¬ IsWalk f (bsGe bs m) x es m)
        d1 _ acc1 ?_ ?_ hf1
      · refine ⟨rfl, rfl, rfl, hpath, ?_⟩
        intro x hx
        simp only [List.mem_append, List.mem_singleton] at hx
        rcases hx with hx | hx
        · exact .inl hx
        · exact .inr (.inl hx)
      · intro acc e' acc' he' hacc hst
        obtain ⟨i1, i2, i3, i4, i5⟩ := hacc
        obtain ⟨o1, o2, o3, o4, o5⟩ := hother acc acc' e' (hd1 e' he').1 (hd1 e' he').2 i4 hst
        refine ⟨o1.trans i1, o2.trans i2, o3.trans i3, o4.trans i4, ?_⟩
        intro x hx
        rcases o5 x hx with hx | hx
        · exact i5 x hx
        · exact .inr (.inr hx)
    -- phase 2: the loop arc
    have hinv2 : acc2.2.1 = true ∧ cycleCount s.cyc loop = ok (acc2.1.cyc, acc2.2.2) ∧
        acc2.1.path = pre := by
      obtain ⟨s2, found, count⟩ := acc1
      obtain ⟨i1, i2, i3, i4, i5⟩ := hinv1
      dsimp only at i1 i2 i3 i4 i5
      subst i1
      subst i2
      simp only [circuitStep] at hstep
      rw [ha] at hstep
      simp only at hstep
      rw [if_pos ⟨hdge, hdbs⟩] at hstep
      cases hsuf' : suf' with
      | nil =>
        rw [hsuf'] at hrest hloop
        have hdm : a.dst = m := hrest
        rw [if_pos hdm] at hstep
        obtain ⟨r', hr', hstep⟩ := bind_eq_ok.1 hstep
        obtain ⟨cy, c⟩ := r'
        simp only at hstep
        split at hstep
        · cases hstep
        · simp only [Outcome.ok.injEq] at hstep
          subst hstep
          refine ⟨rfl, ?_, by simp [i4]⟩
          rw [i3, i4, ← hloop] at hr'
          simpa using hr'
      | cons e1 suf'' =>
        have hne' : suf' ≠ [] := by rw [hsuf']; simp
        have he1suf : e1 ∈ suf' := by rw [hsuf']; simp
        have hrest' := hrest
        rw [hsuf'] at hrest'
        obtain ⟨a1, ha1, hs1, _, _⟩ := hrest'
        have hsrc1 : arcSrc f e1 = a.dst := by rw [arcSrc_eq ha1, hs1]
        -- the next loop block is not `m`
        have hdm : a.dst ≠ m := by
          intro heq
          obtain ⟨e0, rest, hl0, hs0⟩ := hL.head_src
          have he0 : e0 ∈ pre ++ [e] := by
            rw [hloop] at hl0
            cases pre with
            | nil => simp at hl0; simp [hl0.1]
            | cons p pre' => simp at hl0; simp [hl0.1]
          have : e1 = e0 := hL.src_inj (hsufloop e1 he1suf) (by rw [hl0]; simp)
            (by rw [hsrc1, heq, hs0])
          exact hdisj e0 he0 (this ▸ he1suf)
        -- a later loop block is not `v`, not blocked, not dead
        have hfree : ∀ e' ∈ e :: suf', arcDst f e' ≠ m → arcDst f e' ∉ s2.blocked := by
          intro e' he' hne hb
          rcases i5 _ hb with hb | hb | hb
          · exact hH e' he' hne hb
          · -- the block after `e'` is the source of a later loop arc, never `v` again
            obtain ⟨e'', he'', hnx⟩ := hsufW.dst_mem_tail he' hne |> List.mem_map.1
            have : e'' = e := hL.src_inj (hsufloop e'' he'') heloop
              (by rw [hnx, hb, arcSrc_eq ha, hsrc])
            exact hdisj e (by simp) (this ▸ he'')
          · obtain ⟨es2, hes2⟩ := hsufW.after he'
            exact hb es2 hes2
        rw [if_neg hdm] at hstep
        have hwnb : a.dst ∉ s2.blocked := by
          have := hfree e (by simp) (by rw [arcDst_eq ha]; exact hdm)
          rwa [arcDst_eq ha] at this
        rw [if_pos hwnb] at hstep
        obtain ⟨r', hr', hstep⟩ := bind_eq_ok.1 hstep
        obtain ⟨s', f', c⟩ := r'
        have hpre' : IsWalk f bs m (pre ++ [e]) a.dst :=
          hpre.append (hsrc ▸ IsWalk.single ha hdbs)
        obtain ⟨b1, b2, b3⟩ := ih (pre ++ [e]) fuel a.dst { s2 with path := s2.path ++ [e] }
          (s', f', c) (by rw [hloop]; simp) hne' hpre' hrest (by simp [i4])
          (fun e' he' hne => hfree e' (List.mem_cons_of_mem _ he') hne) hr'
        dsimp only at b1 b2 b3
        simp only at hstep
        split at hstep
        · cases hstep
        · simp only [Outcome.ok.injEq] at hstep
          subst hstep
          refine ⟨by simp [b1], ?_, by simp [b3, i4]⟩
          rw [← i3]
          simpa using b2
    -- phase 3: the arcs after `e`
    have hinv3 : acc.2.1 = acc2.2.1 ∧ acc.2.2 = acc2.2.2 ∧ acc.1.cyc = acc2.1.cyc ∧
        acc.1.path = pre := by
      refine foldl_ok_inv (Inv := fun acc : CS × Bool × Nat =>
        acc.2.1 = acc2.2.1 ∧ acc.2.2 = acc2.2.2 ∧ acc.1.cyc = acc2.1.cyc ∧ acc.1.path = pre)
        d2 _ acc ?_ ?_ hf3
      · exact ⟨rfl, rfl, rfl, hinv2.2.2⟩
      · intro acc0 e' acc' he' hacc hst
        obtain ⟨i1, i2, i3, i4⟩ := hacc
        obtain ⟨o1, o2, o3, o4, _⟩ := hother acc0 acc' e' (hd2 e' he').1 (hd2 e' he').2 i4 hst
        exact ⟨o1.trans i1, o2.trans i2, o3.trans i3, o4.trans i4⟩
    obtain ⟨s4, found, count⟩ := acc
    obtain ⟨j1, j2, j3, j4⟩ := hinv3
    obtain ⟨k1, k2, _⟩ := hinv2
    dsimp only at j1 j2 j3 j4
    have hfound : found = true := j1.trans k1
    subst hfound
    simp only [if_true] at hfin
    obtain ⟨p, _, hfin⟩ := bind_eq_ok.1 hfin
    simp only [Outcome.ok.injEq] at hfin
    subst hfin
    refine ⟨rfl, ?_, j4.trans hpath.symm⟩
    show cycleCount s.cyc loop = ok (s4.cyc, count)
    rw [j3, j2]
    exact k2

/-! ## `get_cycle_count` on a path without repeated arcs, in closed form -/

/-- the minimum `get_cycle_count` computes: starts from `u64::MAX` -/
def pathMin (g : Nat → Nat) (p : List Nat) : Nat := p.foldl (fun c e => min c (g e)) U64MAX

/-- `cycles` after cancelling the circuit `p` once -/
def cancel (g : Nat → Nat) (p : List Nat) : Nat → Nat :=
  fun x => if x ∈ p then g x - pathMin g p else g x

theorem foldl_min_attained (g : Nat → Nat) : ∀ (p : List Nat) (c0 : Nat),
    p.foldl (fun c e => min c (g e)) c0 = c0 ∨ ∃ e ∈ p, p.foldl (fun c e => min c (g e)) c0 = g e := by
  intro p
  induction p with
  | nil => intro c0; exact .inl rfl
  | cons a p ih =>
    intro c0
    simp only [List.foldl_cons]
    rcases ih (min c0 (g a)) with h | ⟨e, he, h⟩
    · rw [h]
      rcases Nat.le_total c0 (g a) with h' | h'
      · exact .inl (Nat.min_eq_left h')
      · exact .inr ⟨a, by simp, Nat.min_eq_right h'⟩
    · exact .inr ⟨e, List.mem_cons_of_mem _ he, h⟩

theorem pathMin_le (g : Nat → Nat) (p : List Nat) {e : Nat} (he : e ∈ p) : pathMin g p ≤ g e :=
  (foldl_min_le g p U64MAX).2 e he

theorem pathMin_attained (g : Nat → Nat) {p : List Nat} (hne : p ≠ [])
    (hb : ∀ e ∈ p, g e ≤ U64MAX) : ∃ e ∈ p, pathMin g p = g e := by
  rcases foldl_min_attained g p U64MAX with h | h
  · cases p with
    | nil => exact absurd rfl hne
    | cons a p =>
      refine ⟨a, by simp, ?_⟩
      have h1 := pathMin_le g (a :: p) (e := a) (by simp)
      have h2 := hb a (by simp)
      unfold pathMin at h1 ⊢
      omega
  · exact h

theorem minOn_le (g : Nat → Nat) : ∀ (p : List Nat) (e : Nat), e ∈ p → minOn g p ≤ g e := by
  intro p
  induction p with
  | nil => intro e he; cases he
  | cons a p ih =>
    intro e he
    cases p with
    | nil => simp only [List.mem_singleton] at he; subst he; simp [minOn]
    | cons b p =>
      simp only [minOn]
      rcases List.mem_cons.1 he with rfl | he
      · exact Nat.min_le_left _ _
      · exact Nat.le_trans (Nat.min_le_right _ _) (ih e he)

theorem minOn_attained (g : Nat → Nat) : ∀ (p : List Nat), p ≠ [] → ∃ e ∈ p, minOn g p = g e := by
  intro p
  induction p with
  | nil => intro h; exact absurd rfl h
  | cons a p ih =>
    intro _
    cases p with
    | nil => exact ⟨a, by simp, rfl⟩
    | cons b p =>
      obtain ⟨e, he, h⟩ := ih (by simp)
      simp only [minOn]
      rcases Nat.le_total (g a) (minOn g (b :: p)) with h' | h'
      · exact ⟨a, by simp, Nat.min_eq_left h'⟩
      · exact ⟨e, List.mem_cons_of_mem _ he, by rw [Nat.min_eq_right h', h]⟩

/-- on counters that fit a u64 the minimum of the code is the plain minimum -/
theorem pathMin_eq_minOn (g : Nat → Nat) {p : List Nat} (hne : p ≠ [])
    (hb : ∀ e ∈ p, g e ≤ U64MAX) : pathMin g p = minOn g p := by
  obtain ⟨e1, he1, h1⟩ := pathMin_attained g hne hb
  obtain ⟨e2, he2, h2⟩ := minOn_attained g p hne
  have := pathMin_le g p he2
  have := minOn_le g p e1 he1
  omega

theorem subCycle_fold_spec (count : Nat) : ∀ (path : List Nat) (cy cy' : Nat → Nat), path.Nodup →
    Outcome.foldl (subCycle count) cy path = ok cy' →
    ∀ x, cy' x = if x ∈ path then cy x - count else cy x := by
  intro path
  induction path with
  | nil =>
    intro cy cy' _ h x
    simp only [foldl_nil, Outcome.ok.injEq] at h
    subst h
    simp
  | cons e path ih =>
    intro cy cy' hn h x
    rw [foldl_cons] at h
    obtain ⟨cy1, h1, h2⟩ := bind_eq_ok.1 h
    unfold subCycle at h1
    split at h1
    · cases h1
    · simp only [Outcome.ok.injEq] at h1
      subst h1
      have hn' := List.nodup_cons.1 hn
      rw [ih _ _ hn'.2 h2 x]
      by_cases hx : x = e
      · subst hx
        simp [hn'.1, upd]
      · simp [hx, upd]

theorem cycleCount_spec {cyc cy : Nat → Nat} {p : List Nat} {c : Nat} (hn : p.Nodup)
    (h : cycleCount cyc p = ok (cy, c)) : c = pathMin cyc p ∧ cy = cancel cyc p := by
  unfold cycleCount at h
  obtain ⟨cy0, h1, h2⟩ := bind_eq_ok.1 h
  simp only [Outcome.ok.injEq, Prod.mk.injEq] at h2
  obtain ⟨rfl, rfl⟩ := h2
  refine ⟨rfl, ?_⟩
  funext x
  rw [subCycle_fold_spec _ p cyc cy0 hn h1 x]
  rfl

/-- cancelling the same circuit again finds nothing left -/
theorem pathMin_cancel (g : Nat → Nat) {p : List Nat} (hne : p ≠ [])
    (hb : ∀ e ∈ p, g e ≤ U64MAX) : pathMin (cancel g p) p = 0 := by
  obtain ⟨e, he, h⟩ := pathMin_attained g hne hb
  have := pathMin_le (cancel g p) p he
  simp only [cancel, if_pos he] at this
  omega

theorem cancel_cancel (g : Nat → Nat) {p : List Nat} (hne : p ≠ [])
    (hb : ∀ e ∈ p, g e ≤ U64MAX) : cancel (cancel g p) p = cancel g p := by
  funext x
  show (if x ∈ p then cancel g p x - pathMin (cancel g p) p else cancel g p x) = cancel g p x
  rw [pathMin_cancel g hne hb]
  split <;> simp

theorem cancel_le (g : Nat → Nat) (p : List Nat) (x : Nat) : cancel g p x ≤ g x := by
  simp only [cancel]
  split <;> omega

/-- `get_cycles_count` on a line whose only circuit is `loop`: the start blocks other than `m`
find nothing; the first occurrence of `m` cancels the loop, later ones find it empty -/
theorem cyclesCount_loop {f : Func} (hA : Adj f) {bs loop : List Nat} {m : Nat}
    (hL : OneLoop f bs loop m) (fuel : Nat) : ∀ (l : List Nat) (acc r : (Nat → Nat) × Nat),
    (∀ e ∈ loop, acc.1 e ≤ U64MAX) → Outcome.foldl (cyclesStep f fuel bs) acc l = ok r →
    (m ∉ l → r = acc) ∧
    (m ∈ l → r.2 = acc.2 + pathMin acc.1 loop ∧ r.1 = cancel acc.1 loop) := by
  intro l
  induction l with
  | nil =>
    intro acc r _ h
    simp only [foldl_nil, Outcome.ok.injEq] at h
    exact ⟨fun _ => h.symm, fun hm => by cases hm⟩
  | cons b l ih =>
    intro acc r hb h
    rw [foldl_cons] at h
    obtain ⟨acc1, h1, h2⟩ := bind_eq_ok.1 h
    by_cases hbm : b = m
    · subst hbm
      unfold cyclesStep at h1
      obtain ⟨r', hr', h1⟩ := bind_eq_ok.1 h1
      obtain ⟨s', f', c⟩ := r'
      simp only at h1
      split at h1
      · cases h1
      · simp only [Outcome.ok.injEq] at h1
        subst h1
        obtain ⟨_, k2, _⟩ := lookForCircuit_loop hA hL loop [] fuel b ⟨acc.1, [], [], []⟩ (s', f', c)
          rfl hL.ne rfl hL.walkGe rfl (fun e _ _ hx => by cases hx) hr'
        dsimp only at k2
        obtain ⟨hc, hcy⟩ := cycleCount_spec hL.nodup k2
        have hb' : ∀ e ∈ loop, (s'.cyc, acc.2 + c).1 e ≤ U64MAX := by
          intro e he
          show s'.cyc e ≤ U64MAX
          rw [hcy]
          exact Nat.le_trans (cancel_le _ _ _) (hb e he)
        obtain ⟨g1, g2⟩ := ih _ r hb' h2
        refine ⟨fun hm => absurd (by simp) hm, fun _ => ?_⟩
        by_cases hml : b ∈ l
        · obtain ⟨g3, g4⟩ := g2 hml
          dsimp only at g3 g4
          rw [hcy] at g3 g4
          rw [pathMin_cancel acc.1 hL.ne hb] at g3
          rw [cancel_cancel acc.1 hL.ne hb] at g4
          exact ⟨by omega, g4⟩
        · have := g1 hml
          rw [this]
          exact ⟨by show acc.2 + c = _; rw [hc], hcy⟩
    · have hdead := cyclesCount_dead hA bs fuel [b] acc acc1
        (fun b' hb' => by
          simp only [List.mem_singleton] at hb'
          subst hb'
          exact hL.dead_start hbm)
        (by rw [foldl_cons, h1]; rfl)
      subst hdead
      obtain ⟨g1, g2⟩ := ih _ r hb h2
      refine ⟨fun hm => g1 fun h' => hm (List.mem_cons_of_mem _ h'), fun hm => g2 ?_⟩
      rcases List.mem_cons.1 hm with h' | h'
      · exact absurd h'.symm hbm
      · exact h'

/-- **one simple loop on the line**: the count is the entering part plus the smallest count on the
loop -/
theorem getLineCount_oneLoop {f : Func} (hA : Adj f) (cnt : Nat → Nat) {bs loop : List Nat} {m : Nat}
    (hL : OneLoop f bs loop m) (hfit : ∀ e ∈ loop, cnt e ≤ U64MAX) (cyc cyc' : Nat → Nat) (n : Nat)
    (h : getLineCount f cnt bs cyc = ok (cyc', n)) :
    n = entryPart f cnt bs + minOn cnt loop := by
  unfold getLineCount at h
  obtain ⟨r1, h1, h2⟩ := bind_eq_ok.1 h
  obtain ⟨cyc1, count⟩ := r1
  simp only at h2
  obtain ⟨r2, h3, h4⟩ := bind_eq_ok.1 h2
  obtain ⟨cyc2, c⟩ := r2
  simp only at h4
  split at h4
  · cases h4
  · simp only [Outcome.ok.injEq, Prod.mk.injEq] at h4
    obtain ⟨_, rfl⟩ := h4
    have e1 : count = 0 + entryPart f cnt bs := (lineEntry_fold f cnt bs bs _ _ h1).1
    have e2 := lineEntry_cycles hA cnt bs _ _ h1
    -- the loop arcs are arcs inside the line
    have hloopInt : ∀ e ∈ loop, e ∈ intArcs f bs := hL.walk.mem_intArcs hA hL.mem
    have hcyc1 : ∀ e ∈ loop, cyc1 e = cnt e := fun e he => e2 e (hloopInt e he)
    unfold cyclesCount at h3
    obtain ⟨_, g2⟩ := cyclesCount_loop hA hL _ bs (cyc1, 0) (cyc2, c)
      (fun e he => by show cyc1 e ≤ U64MAX; rw [hcyc1 e he]; exact hfit e he) h3
    obtain ⟨g3, _⟩ := g2 hL.mem
    have g3 : c = 0 + pathMin cyc1 loop := g3
    have : pathMin cyc1 loop = pathMin cnt loop := by
      unfold pathMin
      have : ∀ (p : List Nat) (c0 : Nat), (∀ e ∈ p, cyc1 e = cnt e) →
          p.foldl (fun c e => min c (cyc1 e)) c0 = p.foldl (fun c e => min c (cnt e)) c0 := by
        intro p
        induction p with
        | nil => intro c0 _; rfl
        | cons a p ih =>
          intro c0 hp
          simp only [List.foldl_cons]
          rw [hp a (by simp)]
          exact ih _ fun e he => hp e (List.mem_cons_of_mem _ he)
      exact this loop U64MAX hcyc1
    rw [this, pathMin_eq_minOn cnt hL.ne hfit] at g3
    omega

/-! ## the loop certificate -/

theorem nodup_of_nodupNat : ∀ (l : List Nat), nodupNat l = true → l.Nodup := by
  intro l
  induction l with
  | nil => intro _; exact List.nodup_nil
  | cons a l ih =>
    intro h
    simp only [nodupNat, Bool.and_eq_true, Bool.not_eq_true', decide_eq_false_iff_not] at h
    exact List.nodup_cons.2 ⟨h.1, ih h.2⟩

/-- in a chain every arc ends at the source of another arc of the chain, or at the chain's end -/
theorem chainEnd_dst {f : Func} : ∀ (es : List Nat) (u w : Nat), chainEnd f u es = some w →
    ∀ e ∈ es, arcDst f e ∈ es.map (arcSrc f) ∨ arcDst f e = w := by
  intro es
  induction es with
  | nil => intro u w _ e he; cases he
  | cons e0 es ih =>
    intro u w h e he
    simp only [chainEnd] at h
    split at h
    · cases h
    · rename_i a ha
      split at h
      · rcases List.mem_cons.1 he with rfl | he
        · cases es with
          | nil =>
            simp only [chainEnd, Option.some.injEq] at h
            exact .inr (by rw [arcDst_eq ha]; exact h)
          | cons e1 es' =>
            simp only [chainEnd] at h
            split at h
            · cases h
            · rename_i a1 ha1
              split at h
              · rename_i hs1
                refine .inl ?_
                simp only [List.map_cons, List.mem_cons]
                exact .inr (.inl (by rw [arcDst_eq ha, arcSrc_eq ha1, hs1]))
              · cases h
        · rcases ih _ _ h e he with h' | h'
          · exact .inl (List.mem_cons_of_mem _ h')
          · exact .inr h'
      · cases h

theorem isWalk_of_chainEnd {f : Func} {S : List Nat} : ∀ (es : List Nat) (u w : Nat),
    chainEnd f u es = some w → (∀ e ∈ es, arcDst f e ∈ S) → IsWalk f S u es w := by
  intro es
  induction es with
  | nil => intro u w h _; simp only [chainEnd, Option.some.injEq] at h; exact h
  | cons e0 es ih =>
    intro u w h hS
    simp only [chainEnd] at h
    split at h
    · cases h
    · rename_i a ha
      split at h
      · rename_i hs
        refine ⟨a, ha, hs, ?_, ih _ _ h fun e he => hS e (List.mem_cons_of_mem _ he)⟩
        have := hS e0 (by simp)
        rwa [arcDst_eq ha] at this
      · cases h

/-- along a walk inside the line whose arcs are loop arcs (rank kept) or go up in rank, the rank
does not go down, and goes up if some arc is not a loop arc -/
theorem IsWalk.rank_le {f : Func} (hA : Adj f) {bs loop : List Nat} (rk : Nat → Nat)
    (hup : ∀ e ∈ intArcs f bs, e ∈ loop ∨ rk (arcSrc f e) < rk (arcDst f e))
    (hkeep : ∀ e ∈ loop, rk (arcSrc f e) = rk (arcDst f e)) : ∀ {es : List Nat} {u w : Nat},
    u ∈ bs → IsWalk f bs u es w → rk u ≤ rk w ∧ ((∃ e ∈ es, e ∉ loop) → rk u < rk w) := by
  intro es
  induction es with
  | nil =>
    intro u w _ h
    simp only [IsWalk] at h
    subst h
    exact ⟨Nat.le_refl _, fun ⟨e, he, _⟩ => by cases he⟩
  | cons e0 es ih =>
    intro u w hu h
    have hint := h.mem_intArcs hA hu e0 (by simp)
    obtain ⟨a, ha, hs, hd, hr⟩ := h
    obtain ⟨i1, i2⟩ := ih hd hr
    have hsd : rk u ≤ rk a.dst ∧ (e0 ∉ loop → rk u < rk a.dst) := by
      rcases hup e0 hint with h' | h'
      · have := hkeep e0 h'
        rw [arcSrc_eq ha, arcDst_eq ha, hs] at this
        exact ⟨by omega, fun hn => absurd h' hn⟩
      · rw [arcSrc_eq ha, arcDst_eq ha, hs] at h'
        exact ⟨by omega, fun _ => h'⟩
    refine ⟨by omega, ?_⟩
    rintro ⟨e, he, hne⟩
    rcases List.mem_cons.1 he with rfl | he
    · have := hsd.2 hne; omega
    · have := i2 ⟨e, he, hne⟩; omega

/-- **the Boolean loop certificate is sound** -/
theorem oneLoop_of_cert {f : Func} (hA : Adj f) {bs loop : List Nat} {rk : Nat → Nat}
    (h : loopCert f bs loop rk = true) :
    ∃ m, OneLoop f bs loop m ∧ (∀ e0 rest, loop = e0 :: rest → m = arcSrc f e0) := by
  cases loop with
  | nil => simp [loopCert] at h
  | cons e0 rest =>
    simp only [loopCert, Bool.and_eq_true, beq_iff_eq, List.all_eq_true, decide_eq_true_eq,
      Bool.or_eq_true, List.mem_map, forall_exists_index, and_imp,
      forall_apply_eq_imp_iff₂] at h
    obtain ⟨⟨⟨⟨hchain, _⟩, hsrcs⟩, hnd⟩, hup⟩ := h
    generalize hl : e0 :: rest = loop at hchain hsrcs hnd hup ⊢
    have he0 : e0 ∈ loop := by rw [← hl]; simp
    -- destinations of loop arcs are loop sources (or `m`, itself a loop source)
    have hdst : ∀ e ∈ loop, ∃ e' ∈ loop, arcDst f e = arcSrc f e' := by
      intro e he
      rcases chainEnd_dst loop _ _ hchain e he with h' | h'
      · obtain ⟨e', he', heq⟩ := List.mem_map.1 h'
        exact ⟨e', he', heq.symm⟩
      · exact ⟨e0, he0, h'⟩
    have hdbs : ∀ e ∈ loop, arcDst f e ∈ bs := by
      intro e he
      obtain ⟨e', he', heq⟩ := hdst e he
      rw [heq]; exact (hsrcs e' he').1.1
    refine ⟨arcSrc f e0, ⟨by rw [← hl]; simp, isWalk_of_chainEnd loop _ _ hchain hdbs,
      nodup_of_nodupNat _ hnd, fun e he => (hsrcs e he).1.2, ?_, ?_, ?_⟩, ?_⟩
    · intro e he
      obtain ⟨e', he', heq⟩ := hdst e he
      rw [heq]; exact (hsrcs e' he').1.2
    · exact (hsrcs e0 he0).1.1
    · intro u es hne hw e he
      have hu : u ∈ bs := hw.end_mem hne
      have hkeep : ∀ e ∈ loop, rk (arcSrc f e) = rk (arcDst f e) := by
        intro e he
        obtain ⟨e', he', heq⟩ := hdst e he
        rw [heq, (hsrcs e he).2, (hsrcs e' he').2]
      have := (IsWalk.rank_le hA rk
        (fun e he => by rcases hup e he with h' | h'; exact .inl h'; exact .inr h') hkeep hu hw).2
      by_cases hin : e ∈ loop
      · exact hin
      · have := this ⟨e, he, hin⟩; omega
    · intro e0' rest' h'
      rw [← hl] at h'
      cases h'
      rfl

/-! ## the bounds in terms of block counters -/

theorem sum_flatMap (g : Nat → List Nat) (F : Nat → Nat) : ∀ (l : List Nat),
    ((l.flatMap g).map F).sum = (l.map fun b => ((g b).map F).sum).sum := by
  intro l
  induction l with
  | nil => rfl
  | cons a l ih => simp [List.flatMap_cons, ih]

theorem sum_filter_split (p : Nat → Bool) (F : Nat → Nat) : ∀ (l : List Nat),
    ((l.filter p).map F).sum + ((l.filter fun e => !p e).map F).sum = (l.map F).sum := by
  intro l
  induction l with
  | nil => rfl
  | cons a l ih =>
    simp only [List.filter_cons]
    cases p a <;> simp <;> omega

/-- block counters are the blocks' inflow and outflow on the blocks of the line -/
def CountsAreFlow (f : Func) (cnt blkc : Nat → Nat) (bs : List Nat) : Prop :=
  ∀ b ∈ bs, ∃ blk, f.blocks[b]? = some blk ∧
    blkc b = (blk.source.map cnt).sum ∧ blkc b = (blk.destination.map cnt).sum

/-- the block numbered 0 (the entry block) has no predecessor on the line -/
def EntryNoPred (f : Func) (bs : List Nat) : Prop :=
  ∀ b ∈ bs, ∀ blk, f.blocks[b]? = some blk → blk.no = 0 → intIn f bs b = []

theorem entry_plus_int_eq_blkSum {f : Func} (cnt blkc : Nat → Nat) (bs : List Nat)
    (hC : CountsAreFlow f cnt blkc bs) (hE : EntryNoPred f bs) :
    entryPart f cnt bs + intSum f cnt bs = blkSum blkc bs := by
  unfold entryPart intSum intArcs blkSum
  rw [sum_flatMap]
  have key : ∀ (l : List Nat), (∀ b ∈ l, b ∈ bs) →
      (l.map (entryOf f cnt bs)).sum + (l.map fun b => ((intIn f bs b).map cnt).sum).sum
        = (l.map blkc).sum := by
    intro l
    induction l with
    | nil => intro _; rfl
    | cons b l ih =>
      intro hl
      have := ih fun b hb => hl b (List.mem_cons_of_mem _ hb)
      simp only [List.map_cons, List.sum_cons]
      obtain ⟨blk, hblk, h1, h2⟩ := hC b (hl b (by simp))
      have hb : entryOf f cnt bs b + ((intIn f bs b).map cnt).sum = blkc b := by
        by_cases hno : blk.no = 0
        · rw [hE b (hl b (by simp)) blk hblk hno]
          simp only [entryOf, hblk, if_pos hno, List.map_nil, List.sum_nil]
          omega
        · simp only [entryOf, hblk, if_neg hno, extIn, intIn]
          have := sum_filter_split (fun e => decide (arcSrc f e ∈ bs)) cnt blk.source
          omega
      omega
  exact key bs fun b hb => hb

theorem entryNoPred_of_B {f : Func} {bs : List Nat} (h : entryNoPredB f bs = true) :
    EntryNoPred f bs := by
  unfold entryNoPredB at h
  simp only [List.all_eq_true] at h
  intro b hb blk hblk hno
  have := h b hb
  rw [hblk] at this
  simp only [hno, ne_eq, not_true_eq_false, decide_false, Bool.false_or, List.isEmpty_iff] at this
  exact this

/-- for a conserved flow the inflow is a valid block counter on any list of real blocks -/
theorem countsAreFlow_of_flow {f : Func} {F : Nat → Nat} (hF : Flow f F) {bs : List Nat}
    (hbs : ∀ b ∈ bs, b < f.blocks.length) : CountsAreFlow f F (inflow f F) bs := by
  intro b hb
  obtain ⟨blk, hblk⟩ := Adj.block_of_lt (hbs b hb)
  refine ⟨blk, hblk, by simp [inflow, hblk], ?_⟩
  simp only [inflow, hblk]
  exact hF.conserve b blk hblk

theorem sum_pos_mem (g : Nat → Nat) : ∀ (l : List Nat), 0 < (l.map g).sum → ∃ b ∈ l, 0 < g b := by
  intro l
  induction l with
  | nil => intro h; simp at h
  | cons a l ih =>
    intro h
    simp only [List.map_cons, List.sum_cons] at h
    by_cases ha : 0 < g a
    · exact ⟨a, by simp, ha⟩
    · obtain ⟨b, hb, hpos⟩ := ih (by omega)
      exact ⟨b, List.mem_cons_of_mem _ hb, hpos⟩

theorem le_sum_of_mem (g : Nat → Nat) : ∀ (l : List Nat) (b : Nat), b ∈ l → g b ≤ (l.map g).sum := by
  intro l
  induction l with
  | nil => intro b hb; cases hb
  | cons a l ih =>
    intro b hb
    simp only [List.map_cons, List.sum_cons]
    rcases List.mem_cons.1 hb with rfl | hb
    · omega
    · have := ih b hb; omega

/-! ## positivity -/

/-- blocks reached from block 0 along arcs with a positive count -/
inductive PosReach (f : Func) (cnt : Nat → Nat) : Nat → Prop
  | entry : PosReach f cnt 0
  | step {e : Nat} {a : Arc} : f.arcs[e]? = some a → 0 < cnt e → PosReach f cnt a.src →
      PosReach f cnt a.dst

/-- a block of the line that is reached from an entered entry block makes the entering part
positive: the walk enters the line somewhere -/
theorem entryPart_pos {f : Func} (hA : Adj f) (cnt : Nat → Nat) (bs : List Nat)
    (hflow : ∀ b ∈ bs, ∀ blk, f.blocks[b]? = some blk →
      (blk.source.map cnt).sum = (blk.destination.map cnt).sum)
    (h0 : ∃ blk, f.blocks[0]? = some blk ∧ blk.no = 0 ∧ 0 < (blk.destination.map cnt).sum) :
    ∀ {x : Nat}, PosReach f cnt x → x ∈ bs → 0 < entryPart f cnt bs := by
  intro x hx
  induction hx with
  | entry =>
    intro hmem
    obtain ⟨blk, hblk, hno, hpos⟩ := h0
    have := le_sum_of_mem (entryOf f cnt bs) bs 0 hmem
    simp only [entryOf, hblk, if_pos hno] at this
    unfold entryPart
    omega
  | @step e a ha hpos _ ih =>
    intro hmem
    by_cases hs : a.src ∈ bs
    · exact ih hs
    · obtain ⟨blk, hblk, hin⟩ := hA.mem_src ha
      have hle := le_sum_of_mem (entryOf f cnt bs) bs a.dst hmem
      have hge : cnt e ≤ entryOf f cnt bs a.dst := by
        simp only [entryOf, hblk]
        split
        · rw [← hflow a.dst hmem blk hblk]
          exact le_sum_of_mem cnt blk.source e hin
        · apply le_sum_of_mem cnt
          simp only [extIn, hblk, List.mem_filter, Bool.not_eq_true', decide_eq_false_iff_not]
          exact ⟨hin, by rw [arcSrc_eq ha]; exact hs⟩
      unfold entryPart
      omega

/-! ## from `get_line_count` to the report -/

/-- a line that lives in no or in several block occurrences gets what `get_line_count` returns for
its occurrence list -/
theorem lineCounts_multi (f : Func) (c : Cnt) (l : Nat) (bs : List Nat) (hlen : bs.length ≠ 1) :
    ∀ (m : List (Nat × List Nat)) (y : Nat → Nat) (ls : List (Nat × Nat)),
    lineCounts f c m y = ok ls → (l, bs) ∈ m →
    ∃ cyc cyc' n, getLineCount f c.arc bs cyc = ok (cyc', n) ∧ (l, n) ∈ ls := by
  intro m
  induction m with
  | nil => intro y ls _ hm; cases hm
  | cons lb m ih =>
    obtain ⟨l', bs'⟩ := lb
    intro y ls h hm
    have key : ∃ n y' r, lineCounts f c m y' = ok r ∧ ls = (l', n) :: r ∧
        (bs'.length ≠ 1 → ∃ cyc', getLineCount f c.arc bs' y = ok (cyc', n)) := by
      cases bs' with
      | nil =>
        simp only [lineCounts] at h
        obtain ⟨⟨y1, n⟩, h1, h2⟩ := bind_eq_ok.1 h
        obtain ⟨r, h3, h4⟩ := bind_eq_ok.1 h2
        cases h4; exact ⟨n, y1, r, h3, rfl, fun _ => ⟨y1, h1⟩⟩
      | cons b0 bs2 =>
        cases bs2 with
        | nil =>
          simp only [lineCounts] at h
          obtain ⟨r, h3, h4⟩ := bind_eq_ok.1 h
          cases h4
          exact ⟨_, y, r, h3, rfl, fun hne => absurd rfl hne⟩
        | cons b1 bs3 =>
          simp only [lineCounts] at h
          obtain ⟨⟨y1, n⟩, h1, h2⟩ := bind_eq_ok.1 h
          obtain ⟨r, h3, h4⟩ := bind_eq_ok.1 h2
          cases h4; exact ⟨n, y1, r, h3, rfl, fun _ => ⟨y1, h1⟩⟩
    obtain ⟨n, y', r, h1, rfl, hn⟩ := key
    rcases List.mem_cons.1 hm with e | hm
    · cases e
      obtain ⟨cyc', hg⟩ := hn hlen
      exact ⟨y, cyc', n, hg, List.mem_cons_self⟩
    · obtain ⟨cyc, cyc', n', hg, hmem⟩ := ih _ _ h1 hm
      exact ⟨cyc, cyc', n', hg, List.mem_cons_of_mem _ hmem⟩

/-! ### the sums only look at the counts of real arcs -/

theorem entryPart_congr {f : Func} (hA : Adj f) {cnt cnt' : Nat → Nat}
    (h : ∀ (e : Nat) (a : Arc), f.arcs[e]? = some a → cnt e = cnt' e) (bs : List Nat) :
    entryPart f cnt bs = entryPart f cnt' bs := by
  unfold entryPart
  congr 1
  apply List.map_congr_left
  intro b _
  unfold entryOf
  cases hblk : f.blocks[b]? with
  | none => rfl
  | some blk =>
    simp only
    split
    · exact sum_map_congr _ fun e he => by
        obtain ⟨a, ha, _⟩ := (hA.dst_iff b blk e hblk).1 he
        exact h e a ha
    · refine sum_map_congr _ fun e he => ?_
      simp only [extIn, hblk, List.mem_filter] at he
      obtain ⟨a, ha, _⟩ := (hA.src_iff b blk e hblk).1 he.1
      exact h e a ha

theorem intSum_congr {f : Func} (hA : Adj f) {cnt cnt' : Nat → Nat}
    (h : ∀ (e : Nat) (a : Arc), f.arcs[e]? = some a → cnt e = cnt' e) (bs : List Nat) :
    intSum f cnt bs = intSum f cnt' bs := by
  unfold intSum
  exact sum_map_congr _ fun e he => by
    obtain ⟨a, ha, _⟩ := (mem_intArcs hA).1 he
    exact h e a ha

theorem minOn_congr {cnt cnt' : Nat → Nat} : ∀ (p : List Nat), (∀ e ∈ p, cnt e = cnt' e) →
    minOn cnt p = minOn cnt' p := by
  intro p
  induction p with
  | nil => intro _; rfl
  | cons a p ih =>
    intro h
    cases p with
    | nil => simp [minOn, h a (by simp)]
    | cons b p =>
      simp only [minOn]
      rw [h a (by simp), ih fun e he => h e (List.mem_cons_of_mem _ he)]

/-- the arcs of a walk are real arcs -/
theorem IsWalk.arcs_some {f : Func} {S : List Nat} : ∀ {es : List Nat} {u w : Nat},
    IsWalk f S u es w → ∀ e ∈ es, ∃ a, f.arcs[e]? = some a := by
  intro es
  induction es with
  | nil => intro u w _ e he; cases he
  | cons e0 es ih =>
    intro u w h e he
    obtain ⟨a, ha, _, _, hr⟩ := h
    rcases List.mem_cons.1 he with rfl | he
    · exact ⟨a, ha⟩
    · exact ih hr e he

/-- **one function, one gcda that records a flow, one line in several blocks**: what `compute`
reports for the line is what `get_line_count` returns on the recovered flow -/
theorem compute_flowGcda_multi (version checksum : Nat) (f : Func)
    (depth parc root F : Nat → Nat) (br : Bool) (r : List (Bytes × Cov)) (l : Nat) (bs : List Nat)
    (hn : f.blocks.length ≥ 2) (hre : f.realEdgeCount < 4294967296)
    (hT : SpanForest (addVirtualArc version f) depth parc root)
    (hF : Flow (addVirtualArc version f) F) (hent : F 0 > 0)
    (hl : (l, bs) ∈ linesToBlock (addVirtualArc version f)) (hlen : bs.length ≠ 1)
    (h : compute ⟨version, checksum, [f]⟩ [flowGcda version checksum f F] br = ok r) :
    ∃ (c' : Cnt) (cov : Cov) (cyc cyc' : Nat → Nat) (n : Nat),
      (∀ (e : Nat) (a : Arc), (addVirtualArc version f).arcs[e]? = some a → c'.arc e = F e) ∧
      (∀ (b : Nat) (blk : Block), (addVirtualArc version f).blocks[b]? = some blk →
        c'.blk b = (blk.source.map F).sum ∧ c'.blk b = (blk.destination.map F).sum) ∧
      get? r f.fileName = some cov ∧
      getLineCount (addVirtualArc version f) c'.arc bs cyc = ok (cyc', n) ∧
      get? cov.lines l = some n := by
  obtain ⟨c, c', h1, h2, h3, h4⟩ := flow_recovered hn hT hF
  unfold compute at h
  rw [addGcdas_flowGcda version checksum f F c hre h1] at h
  simp only [bind_ok] at h
  rw [stop_single] at h
  have hst : (State.zero.set 0 c) 0 = c := by simp [State.set]
  rw [hst, h2] at h
  simp only [bind_ok, finalize, foldl_cons, foldl_nil] at h
  obtain ⟨res, hfin, hres⟩ := bind_eq_ok.1 h
  simp only [Outcome.ok.injEq] at hres
  subst hres
  unfold finStep at hfin
  simp only at hfin
  obtain ⟨⟨ex, ls⟩, hal, hfin⟩ := bind_eq_ok.1 hfin
  simp only at hfin
  have harcs := addVirtualArc_arcs (version := version) hn
  have hex : ex = true := by
    rw [addLineCount_executed hal]
    have : ∃ a : Arc, (addVirtualArc version f).arcs[0]? = some a := by
      rw [harcs]; cases f.arcs <;> simp
    obtain ⟨a, ha⟩ := this
    have hne : (addVirtualArc version f).arcs.isEmpty = false := by
      rw [harcs]; cases f.arcs <;> simp
    simp only [entered, hne, Bool.not_false, Bool.true_and, decide_eq_true_eq]
    rw [h3 0 a ha]; exact hent
  subst hex
  have hls : ∃ cyc cyc' n, getLineCount (addVirtualArc version f) c'.arc bs cyc = ok (cyc', n) ∧
      (l, n) ∈ ls := by
    unfold addLineCount at hal
    split at hal
    · obtain ⟨ls', g1, g2⟩ := bind_eq_ok.1 hal
      cases g2
      exact lineCounts_multi _ c' l bs hlen _ _ _ g1 hl
    · cases hal
  obtain ⟨cyc, cyc', n, hg, hmem⟩ := hls
  have hkeys : NodupKeys ls := by
    unfold addLineCount at hal
    split at hal
    · obtain ⟨ls', g1, g2⟩ := bind_eq_ok.1 hal
      cases g2
      unfold NodupKeys
      rw [keys_lineCounts _ _ _ _ _ g1]
      exact nodupKeys_linesToBlock _
    · cases hal
  obtain ⟨lsm, hml, hfin⟩ := bind_eq_ok.1 hfin
  obtain ⟨brs, _, hfin⟩ := bind_eq_ok.1 hfin
  simp only [Outcome.ok.injEq] at hfin
  subst hfin
  simp only [if_true] at hml
  have hget := mergeLines_get ls _ lsm hkeys hml l n hmem (by simp)
  have hfn : (addVirtualArc version f).fileName = f.fileName := addVirtualArc_fileName version f
  exact ⟨c', _, cyc, cyc', n, h3, h4, by rw [hfn, get?_set, if_pos rfl], hg, hget⟩

/-- what the driver prints as the class of a line is certified: class 0 lines carry no circuit,
class 1 lines exactly the simple loop printed with them -/
theorem lineClass_sound {f : Func} (hA : Adj f) (bs : List Nat) :
    ((lineClass f bs).1 = 0 → NoCycle f bs) ∧
    ((lineClass f bs).1 = 1 → ∃ m, OneLoop f bs (lineClass f bs).2 m) := by
  unfold lineClass
  split
  · rename_i h
    exact ⟨fun _ => noCycle_of_cert hA h, fun h' => by simp at h'⟩
  · simp only
    split
    · rename_i h
      refine ⟨fun h' => by simp at h', fun _ => ?_⟩
      obtain ⟨m, hm, _⟩ := oneLoop_of_cert hA h
      exact ⟨m, hm⟩
    · exact ⟨fun h' => by simp at h', fun h' => by simp at h'⟩

end Grcov.Gcno
