/-
Helper lemmas for C16 part Select: what survives the removal loop, entry by entry, and what
`is_covered` sees afterwards.
-/
import GrcovModel.FileFilter.Select
import GrcovModel.Lemmas.FileFilter
namespace Grcov.FileFilter
open Grcov AList

theorem mem_erase {α : Type} (m : List (Nat × α)) (x : Nat) (kv : Nat × α) :
    kv ∈ erase m x ↔ kv ∈ m ∧ kv.1 ≠ x := by
  induction m with
  | nil => simp [erase]
  | cons e m ih =>
    obtain ⟨k, w⟩ := e
    unfold erase
    by_cases h : k = x
    · rw [if_pos h, ih]
      constructor
      · rintro ⟨h1, h2⟩; exact ⟨List.mem_cons_of_mem _ h1, h2⟩
      · rintro ⟨h1, h2⟩
        rcases List.mem_cons.1 h1 with e | e
        · subst e; exact absurd h h2
        · exact ⟨e, h2⟩
    · rw [if_neg h, List.mem_cons, ih, List.mem_cons]
      constructor
      · rintro (e | ⟨h1, h2⟩)
        · subst e; exact ⟨Or.inl rfl, h⟩
        · exact ⟨Or.inr h1, h2⟩
      · rintro ⟨e | h1, h2⟩
        · exact Or.inl e
        · exact Or.inr ⟨h1, h2⟩

/-- an entry of the line table survives the loop iff its line is not named by a `Line`/`Both`
entry of the filter list; nothing is added, no count is changed -/
theorem mem_applyFilters_lines (fs : List FT) (c : Cov) (kv : Nat × Nat) :
    kv ∈ (applyFilters fs c).lines ↔ kv ∈ c.lines ∧ ¬ removesLine fs kv.1 := by
  induction fs generalizing c with
  | nil => simp [applyFilters, not_removesLine_nil]
  | cons f fs ih =>
    rw [applyFilters_cons, ih, removesLine_cons]
    cases f with
    | line k =>
      simp only [applyOne, mem_erase]
      constructor
      · rintro ⟨⟨h1, h2⟩, h3⟩
        refine ⟨h1, ?_⟩
        rintro ((e | e) | e)
        · injection e with e; exact h2 e.symm
        · cases e
        · exact h3 e
      · rintro ⟨h1, h2⟩
        exact ⟨⟨h1, fun e => h2 (Or.inl (Or.inl (by rw [e])))⟩, fun e => h2 (Or.inr e)⟩
    | branch k =>
      simp only [applyOne]
      constructor
      · rintro ⟨h1, h3⟩
        refine ⟨h1, ?_⟩
        rintro ((e | e) | e)
        · cases e
        · cases e
        · exact h3 e
      · rintro ⟨h1, h2⟩
        exact ⟨h1, fun e => h2 (Or.inr e)⟩
    | both k =>
      simp only [applyOne, mem_erase]
      constructor
      · rintro ⟨⟨h1, h2⟩, h3⟩
        refine ⟨h1, ?_⟩
        rintro ((e | e) | e)
        · cases e
        · injection e with e; exact h2 e.symm
        · exact h3 e
      · rintro ⟨h1, h2⟩
        exact ⟨⟨h1, fun e => h2 (Or.inl (Or.inr (by rw [e])))⟩, fun e => h2 (Or.inr e)⟩

/-- `is_covered` (filter.rs 3-21) is "some line hit" and the function clause -/
theorem isCovered_eq (c : Cov) : Rewrite.isCovered c = (anyHit c && fnClause c) := by
  unfold Rewrite.isCovered anyHit fnClause
  cases (c.lines.any fun lc => lc.2 != 0) <;> simp

/-- the function clause does not see the markers -/
theorem fnClause_applyFilters (fs : List FT) (c : Cov) : fnClause (applyFilters fs c) = fnClause c := by
  unfold fnClause; rw [applyFilters_functions]

/-- after the loop "some line was executed" means: some line that is NOT excluded was executed -/
theorem anyHit_applyFilters (fs : List FT) (c : Cov) :
    anyHit (applyFilters fs c) = true ↔
      ∃ n k, (n, k) ∈ c.lines ∧ k ≠ 0 ∧ ¬ removesLine fs n := by
  unfold anyHit
  rw [List.any_eq_true]
  constructor
  · rintro ⟨⟨n, k⟩, hm, hk⟩
    have := (mem_applyFilters_lines fs c (n, k)).1 hm
    exact ⟨n, k, this.1, by simpa using hk, this.2⟩
  · rintro ⟨n, k, hm, hk, hr⟩
    exact ⟨(n, k), (mem_applyFilters_lines fs c (n, k)).2 ⟨hm, hr⟩, by simpa using hk⟩

theorem anyHit_iff (c : Cov) : anyHit c = true ↔ ∃ n k, (n, k) ∈ c.lines ∧ k ≠ 0 := by
  unfold anyHit
  rw [List.any_eq_true]
  constructor
  · rintro ⟨⟨n, k⟩, hm, hk⟩; exact ⟨n, k, hm, by simpa using hk⟩
  · rintro ⟨n, k, hm, hk⟩; exact ⟨(n, k), hm, by simpa using hk⟩

end Grcov.FileFilter
