/-
Lemmas for the byte layer of C09 (GrcovModel/Gcov/JsonBytes.lean).
-/
import GrcovModel.Gcov.JsonBytes
import GrcovModel.Lemmas.Gcov
namespace Grcov.Gcov.JsonBytes
open Grcov Grcov.Gcov
open Grcov.Writers.JsonBytes (jsonParse isNumChar isDigitB serInt)

/-- input without any white-space byte passes the stripper unchanged, in every state -/
theorem stripGo_noWs (bs : List Nat) (h : ∀ b ∈ bs, isJsonWs b = false) :
    ∀ (mode : Nat) (prev : Bool), mode ≤ 2 → stripGo mode prev false bs = some bs := by
  induction bs with
  | nil => intro mode prev _; cases mode <;> rfl
  | cons b r ih =>
    intro mode prev hm
    have hb := h b (List.mem_cons_self ..)
    have hr := fun x hx => h x (List.mem_cons_of_mem _ hx)
    unfold stripGo
    by_cases h0 : mode = 0
    · subst h0
      simp only [if_true, hb, Bool.false_eq_true, if_false, Bool.false_and]
      rw [ih hr _ _ (by split <;> omega)]; rfl
    · by_cases h1 : mode = 1
      · subst h1
        simp only [h0, if_false, if_true]
        rw [ih hr _ _ (by split; omega; split <;> omega)]; rfl
      · simp only [h0, h1, if_false]
        rw [ih hr 1 _ (by omega)]; rfl

/-- the variant agrees with the original on the original's domain: on a text without white space
whose number tokens are grammatical, `jsonParse'` is `jsonParse` -/
theorem jsonParse'_eq (bs : List Nat) (h : ∀ b ∈ bs, isJsonWs b = false)
    (hw : wordsOk (bs.length + 1) 0 false bs = true) : jsonParse' bs = jsonParse bs := by
  unfold jsonParse' stripWs
  rw [stripGo_noWs bs h 0 false (by omega)]
  simp [hw]

/-- outside a string, after a byte that does not belong to a number or literal (a bracket, a
colon, a comma, a closing quote), white space is dropped -/
theorem stripGo_ws_after_nonword (ws r : List Nat) (h : ws.all isJsonWs = true) (pend : Bool) :
    stripGo 0 false pend (ws ++ r) = stripGo 0 false pend r := by
  induction ws generalizing pend with
  | nil => rfl
  | cons w ws ih =>
    simp only [List.all_cons, Bool.and_eq_true] at h
    rw [List.cons_append, stripGo]
    simp only [if_true, h.1]
    rw [ih h.2 true]
    cases r with
    | nil => cases pend <;> rfl
    | cons b r' => cases pend <;> simp [stripGo]

/-- … and before such a byte as well, whatever precedes -/
theorem stripGo_ws_before_nonword (ws r : List Nat) (h : ws.all isJsonWs = true) (b : Nat)
    (hb1 : isJsonWs b = false) (hb2 : isWordByte b = false) (prev pend : Bool) :
    stripGo 0 prev pend (ws ++ b :: r) = stripGo 0 prev false (b :: r) := by
  induction ws generalizing pend with
  | nil => cases pend <;> simp [stripGo, hb1, hb2]
  | cons w ws ih =>
    simp only [List.all_cons, Bool.and_eq_true] at h
    rw [List.cons_append, stripGo]
    simp only [if_true, h.1]
    exact ih h.2 true

/-- texts that are equal once the insignificant white space is removed read the same -/
theorem jsonParse'_congr (bs bs' : List Nat) (h : stripWs bs = stripWs bs') :
    jsonParse' bs = jsonParse' bs' := by
  unfold jsonParse'; rw [h]

end Grcov.Gcov.JsonBytes
