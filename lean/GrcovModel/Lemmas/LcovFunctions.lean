/-
The record-by-record reading of a section (`Spec.applyRecs`, what the byte machine does) against
what the section says (`Spec.sem`, order-free): lines and branches are the `daFold` / `brdaFold`
of the section's DA / BRDA records; the function table and the waiting FNDA records
(`pending_fnda`) follow an invariant over the records read so far, from which a well-formed section
ends with nothing waiting and with `semFunctions`, and a section with an FNDA whose function is
never declared ends with something waiting (the reader's "FN record missing" error).
-/
import GrcovModel.Lemmas.LcovFidelity
namespace Grcov.Lcov
open Grcov AList Grcov.Lcov.Spec

/-! ### lines and branches -/

theorem daFold_cons (a : Acc) (p : Nat × Nat) (ps : List (Nat × Nat)) :
    daFold a (p :: ps) = daFold (commitLine a p.1 p.2) ps := rfl

theorem applyRecs_lines (branch : Bool) (recs : List Rec) (a a' : Acc)
    (h : a.cur.lines = a'.cur.lines) :
    (applyRecs branch a recs).cur.lines = (daFold a' (daPairs recs)).cur.lines := by
  induction recs generalizing a a' with
  | nil => exact h
  | cons r rs ih =>
    rw [applyRecs_cons]
    cases r with
    | da l c ck =>
      have e : daPairs (.da l c ck :: rs) = (l.val, c.val) :: daPairs rs := by simp [daPairs]
      rw [e, daFold_cons]
      exact ih _ _ (by simp [applyRec, commitLine, h])
    | daNeg l txt =>
      have e : daPairs (.daNeg l txt :: rs) = (l.val, 0) :: daPairs rs := by simp [daPairs]
      rw [e, daFold_cons]
      exact ih _ _ (by simp [applyRec, commitLine, h])
    | fn s name =>
      have e : daPairs (.fn s name :: rs) = daPairs rs := by simp [daPairs]
      rw [e]; exact ih _ _ (by simpa [applyRec, commitFn] using h)
    | fnda c name =>
      have e : daPairs (.fnda c name :: rs) = daPairs rs := by simp [daPairs]
      rw [e]; refine ih _ _ ?_
      simp only [applyRec, commitFnda]; split <;> exact h
    | brda l exc blk br taken =>
      have e : daPairs (.brda l exc blk br taken :: rs) = daPairs rs := by simp [daPairs]
      rw [e]; refine ih _ _ ?_
      cases branch <;> exact h
    | other txt =>
      have e : daPairs (.other txt :: rs) = daPairs rs := by simp [daPairs]
      rw [e]; exact ih _ _ h
    | otherKeyed key d txt =>
      have e : daPairs (.otherKeyed key d txt :: rs) = daPairs rs := by simp [daPairs]
      rw [e]; exact ih _ _ h
    | blank =>
      have e : daPairs (.blank :: rs) = daPairs rs := by simp [daPairs]
      rw [e]; exact ih _ _ h

theorem brdaFold_cons (m : List (Nat × List Bool)) (r : Nat × Nat × Bool) (rs : List (Nat × Nat × Bool)) :
    brdaFold m (r :: rs) = brdaFold (addBranch m r.1 r.2.1 r.2.2) rs := rfl

theorem applyRecs_branches_on (recs : List Rec) (a : Acc) :
    (applyRecs true a recs).cur.branches = brdaFold a.cur.branches (brdaTriples recs) := by
  induction recs generalizing a with
  | nil => rfl
  | cons r rs ih =>
    rw [applyRecs_cons, ih]
    cases r with
    | brda l exc blk br taken =>
      have e : brdaTriples (.brda l exc blk br taken :: rs) = (l.val, br.val, takenOf taken) :: brdaTriples rs := by
        simp [brdaTriples]
      rw [e, brdaFold_cons]; rfl
    | fnda c name =>
      have e : brdaTriples (.fnda c name :: rs) = brdaTriples rs := by simp [brdaTriples]
      rw [e]; congr 1
      simp only [applyRec, commitFnda]; split <;> rfl
    | da l c ck => have e : brdaTriples (.da l c ck :: rs) = brdaTriples rs := by simp [brdaTriples]
                   rw [e]; rfl
    | daNeg l txt => have e : brdaTriples (.daNeg l txt :: rs) = brdaTriples rs := by simp [brdaTriples]
                     rw [e]; rfl
    | fn s name => have e : brdaTriples (.fn s name :: rs) = brdaTriples rs := by simp [brdaTriples]
                   rw [e]; rfl
    | other txt => have e : brdaTriples (.other txt :: rs) = brdaTriples rs := by simp [brdaTriples]
                   rw [e]; rfl
    | otherKeyed key d txt =>
      have e : brdaTriples (.otherKeyed key d txt :: rs) = brdaTriples rs := by simp [brdaTriples]
      rw [e]; rfl
    | blank => have e : brdaTriples (.blank :: rs) = brdaTriples rs := by simp [brdaTriples]
               rw [e]; rfl

theorem applyRecs_branches_off (recs : List Rec) (a : Acc) :
    (applyRecs false a recs).cur.branches = a.cur.branches := by
  induction recs generalizing a with
  | nil => rfl
  | cons r rs ih =>
    rw [applyRecs_cons, ih]
    cases r
    case fnda c name => simp only [applyRec, commitFnda]; split <;> rfl
    all_goals rfl

/-! ### association lists built from a list of declarations -/

theorem set_append_new {κ α : Type} [DecidableEq κ] (m : List (κ × α)) (k : κ) (v : α) (h : k ∉ keys m) :
    set m k v = m ++ [(k, v)] := by
  induction m with
  | nil => rfl
  | cons kv m ih =>
    obtain ⟨k0, w⟩ := kv
    simp only [keys, List.map_cons, List.mem_cons, not_or] at h
    have hne : ¬ k0 = k := fun e => h.1 e.symm
    simp only [AList.set, hne, if_false, List.cons_append]
    rw [ih (by simpa [keys] using h.2)]

theorem eq_nil_of_get?_none {α : Type} (m : List (Bytes × α)) (h : ∀ k, get? m k = none) : m = [] := by
  cases m with
  | nil => rfl
  | cons kv m => obtain ⟨k, v⟩ := kv; have := h k; simp at this

theorem mem_of_get?_some {α : Type} (m : List (Bytes × α)) (k : Bytes) (v : α) (h : get? m k = some v) :
    (k, v) ∈ m := by
  induction m with
  | nil => simp at h
  | cons kv m ih =>
    obtain ⟨k0, w⟩ := kv
    simp only [get?_cons] at h
    by_cases hk : k0 = k
    · simp only [hk, if_true, Option.some.injEq] at h; subst h; subst hk; simp
    · simp only [hk, if_false] at h; exact List.mem_cons_of_mem _ (ih h)

/-- the function table that a list of declarations `(name, start)` and an "executed" predicate give -/
def fnTable (ex : Bytes → Bool) (D : List (Bytes × Nat)) : List (Name × Fn) :=
  D.map fun d => (d.1, ⟨d.2, ex d.1⟩)

theorem keys_fnTable (ex : Bytes → Bool) (D : List (Bytes × Nat)) : keys (fnTable ex D) = D.map (·.1) := by
  simp [fnTable, keys]

theorem get?_fnTable (ex : Bytes → Bool) (D : List (Bytes × Nat)) (k : Bytes) :
    get? (fnTable ex D) k = (get? D k).map fun s => ⟨s, ex k⟩ := by
  induction D with
  | nil => rfl
  | cons d D ih =>
    obtain ⟨k0, s⟩ := d
    simp only [fnTable, List.map_cons, get?_cons]
    by_cases hk : k0 = k
    · subst hk; simp
    · simp only [hk, if_false]; exact ih

theorem fnTable_congr (ex ex' : Bytes → Bool) (D : List (Bytes × Nat)) (h : ∀ d ∈ D, ex d.1 = ex' d.1) :
    fnTable ex D = fnTable ex' D := by
  simp only [fnTable]
  apply List.map_congr_left
  intro d hd; rw [h d hd]

theorem fnTable_append (ex : Bytes → Bool) (D E : List (Bytes × Nat)) :
    fnTable ex (D ++ E) = fnTable ex D ++ fnTable ex E := by simp [fnTable]

/-- an FNDA for a declared function updates its entry in place -/
theorem set_fnTable (ex : Bytes → Bool) (D : List (Bytes × Nat)) (nm : Bytes) (s : Nat) (b : Bool)
    (hn : (D.map (·.1)).Nodup) (hg : get? D nm = some s) :
    set (fnTable ex D) nm ⟨s, ex nm || b⟩ = fnTable (fun k => ex k || (decide (nm = k) && b)) D := by
  induction D with
  | nil => simp at hg
  | cons d D ih =>
    obtain ⟨k0, s0⟩ := d
    simp only [List.map_cons, List.nodup_cons] at hn
    simp only [get?_cons] at hg
    by_cases hk : k0 = nm
    · subst hk
      simp only [if_true, Option.some.injEq] at hg; subst hg
      have hrest : fnTable ex D = fnTable (fun k => ex k || (decide (k0 = k) && b)) D := by
        apply fnTable_congr
        intro d hd
        have : ¬ k0 = d.1 := fun e => hn.1 (by rw [e]; exact List.mem_map_of_mem (f := (·.1)) hd)
        simp [this]
      simp only [fnTable, List.map_cons, AList.set, if_true] at hrest ⊢
      rw [hrest]; simp
    · simp only [hk, if_false] at hg
      have := ih hn.2 hg
      have hk' : ¬ nm = k0 := fun e => hk e.symm
      simp only [fnTable, List.map_cons, AList.set, hk, if_false] at this ⊢
      rw [this]; simp [hk']

/-! ### names, declarations and FNDA records of a list of records read so far -/

theorem fnDecls_append (xs ys : List Rec) : fnDecls (xs ++ ys) = fnDecls xs ++ fnDecls ys := by
  simp [fnDecls, List.filterMap_append]

theorem fnNames_append (xs ys : List Rec) : fnNames (xs ++ ys) = fnNames xs ++ fnNames ys := by
  simp [fnNames, fnDecls_append]

theorem fndaNames_append (xs ys : List Rec) : fndaNames (xs ++ ys) = fndaNames xs ++ fndaNames ys := by
  simp [fndaNames, List.filterMap_append]

theorem fnExecuted_append (xs ys : List Rec) (k : Bytes) :
    fnExecuted (xs ++ ys) k = (fnExecuted xs k || fnExecuted ys k) := by
  simp [fnExecuted, List.any_append]

theorem fnExecuted_cons (r : Rec) (rs : List Rec) (k : Bytes) :
    fnExecuted (r :: rs) k
      = ((match r with
          | .fnda c name => decide (utf8Lossy name = k) && decide (c.val ≠ 0)
          | _ => false) || fnExecuted rs k) := rfl

theorem fndaNames_cons_fnda (c : Digits) (name : Bytes) (rs : List Rec) :
    fndaNames (.fnda c name :: rs) = utf8Lossy name :: fndaNames rs := by simp [fndaNames]

theorem fnExecuted_false (recs : List Rec) (k : Bytes) (h : k ∉ fndaNames recs) :
    fnExecuted recs k = false := by
  induction recs with
  | nil => rfl
  | cons r rs ih =>
    rw [fnExecuted_cons]
    cases r
    case fnda c name =>
      rw [fndaNames_cons_fnda] at h
      simp only [List.mem_cons, not_or] at h
      have h1 : ¬ utf8Lossy name = k := fun e => h.1 e.symm
      rw [ih h.2]; simp [h1]
    all_goals
      rw [ih (by simpa [fndaNames] using h)]; rfl

/-- the reader's function table and waiting FNDA records after the records `pre` of a section -/
structure PendInv (pre : List Rec) (a : Acc) : Prop where
  mem : ∀ k, get? a.cur.functions k = none ↔ k ∉ fnNames pre
  pend : ∀ k, get? a.pending k
    = if k ∈ fnNames pre then none else if k ∈ fndaNames pre then some (fnExecuted pre k) else none

theorem pendInv_nil (a : Acc) (hf : a.cur.functions = []) (hp : a.pending = []) : PendInv [] a :=
  ⟨fun k => by simp [hf, fnNames, fnDecls], fun k => by simp [hp, fnNames, fnDecls, fndaNames]⟩

/-- what is waiting for `nm` is what the FNDA records read so far say -/
theorem PendInv.waiting {pre : List Rec} {a : Acc} (h : PendInv pre a) (nm : Bytes)
    (hn : nm ∉ fnNames pre) : (get? a.pending nm).getD false = fnExecuted pre nm := by
  rw [h.pend nm]
  simp only [hn, if_false]
  by_cases hd : nm ∈ fndaNames pre
  · simp [hd]
  · simp [hd, fnExecuted_false pre nm hd]

theorem pendInv_step (branch : Bool) (pre : List Rec) (a : Acc) (r : Rec) (h : PendInv pre a) :
    PendInv (pre ++ [r]) (applyRec branch a r) := by
  have inert : fnNames (pre ++ [r]) = fnNames pre → fndaNames (pre ++ [r]) = fndaNames pre →
      (∀ k, fnExecuted (pre ++ [r]) k = fnExecuted pre k) →
      (applyRec branch a r).cur.functions = a.cur.functions → (applyRec branch a r).pending = a.pending →
      PendInv (pre ++ [r]) (applyRec branch a r) := by
    intro e1 e2 e3 e4 e5
    exact ⟨fun k => by rw [e1, e4]; exact h.mem k, fun k => by rw [e1, e2, e3, e5]; exact h.pend k⟩
  cases r with
  | fn s name =>
    have e1 : fnNames (pre ++ [.fn s name]) = fnNames pre ++ [utf8Lossy name] := by
      simp [fnNames, fnDecls]
    have e2 : fndaNames (pre ++ [.fn s name]) = fndaNames pre := by simp [fndaNames]
    have e3 : ∀ k, fnExecuted (pre ++ [.fn s name]) k = fnExecuted pre k := by
      intro k; simp [fnExecuted]
    refine ⟨fun k => ?_, fun k => ?_⟩
    · rw [e1]
      simp only [applyRec, commitFn, get?_set, List.mem_append, List.mem_singleton, not_or]
      by_cases hk : utf8Lossy name = k
      · simp [hk]
      · have : ¬ k = utf8Lossy name := fun e => hk e.symm
        simp [hk, this, h.mem k]
    · rw [e1, e2, e3]
      simp only [applyRec, commitFn, get?_erase, List.mem_append, List.mem_singleton]
      by_cases hk : utf8Lossy name = k
      · simp [hk]
      · have : ¬ k = utf8Lossy name := fun e => hk e.symm
        simp only [hk, if_false, this, or_false]; exact h.pend k
  | fnda c name =>
    have e1 : fnNames (pre ++ [.fnda c name]) = fnNames pre := by simp [fnNames, fnDecls]
    have e2 : fndaNames (pre ++ [.fnda c name]) = fndaNames pre ++ [utf8Lossy name] := by
      simp [fndaNames]
    have e3 : ∀ k, fnExecuted (pre ++ [.fnda c name]) k
        = (fnExecuted pre k || (decide (utf8Lossy name = k) && decide (c.val ≠ 0))) := by
      intro k; simp [fnExecuted]
    cases hg : get? a.cur.functions (utf8Lossy name) with
    | some f =>
      have hin : utf8Lossy name ∈ fnNames pre := by
        apply Classical.byContradiction; intro hn
        have := (h.mem _).mpr hn; rw [hg] at this; simp at this
      refine ⟨fun k => ?_, fun k => ?_⟩
      · rw [e1]
        simp only [applyRec, commitFnda, hg, get?_set]
        by_cases hk : utf8Lossy name = k
        · subst hk; simp [hin]
        · simp only [hk, if_false]; exact h.mem k
      · rw [e1, e2, e3]
        have hp : (applyRec branch a (.fnda c name)).pending = a.pending := by
          simp only [applyRec, commitFnda, hg]
        rw [hp, h.pend k]
        by_cases hk : k ∈ fnNames pre
        · simp [hk]
        · have hne : ¬ utf8Lossy name = k := fun e => hk (e ▸ hin)
          have hne' : ¬ k = utf8Lossy name := fun e => hne e.symm
          simp [hk, hne, hne']
    | none =>
      have hout : utf8Lossy name ∉ fnNames pre := (h.mem _).mp hg
      refine ⟨fun k => ?_, fun k => ?_⟩
      · rw [e1]
        have hf : (applyRec branch a (.fnda c name)).cur.functions = a.cur.functions := by
          simp only [applyRec, commitFnda, hg]
        rw [hf]; exact h.mem k
      · rw [e1, e2, e3]
        simp only [applyRec, commitFnda, hg, get?_set]
        by_cases hk : utf8Lossy name = k
        · subst hk
          simp [hout, h.waiting _ hout]
        · have hne' : ¬ k = utf8Lossy name := fun e => hk e.symm
          simp only [hk, if_false, List.mem_append, List.mem_singleton, hne', or_false, decide_false,
            Bool.false_and, Bool.or_false]
          exact h.pend k
  | da l c ck =>
    exact inert (by simp [fnNames, fnDecls]) (by simp [fndaNames])
      (fun k => by simp [fnExecuted]) rfl rfl
  | daNeg l txt =>
    exact inert (by simp [fnNames, fnDecls]) (by simp [fndaNames])
      (fun k => by simp [fnExecuted]) rfl rfl
  | brda l exc blk br taken =>
    exact inert (by simp [fnNames, fnDecls]) (by simp [fndaNames])
      (fun k => by simp [fnExecuted]) (by cases branch <;> rfl) (by cases branch <;> rfl)
  | other txt =>
    exact inert (by simp [fnNames, fnDecls]) (by simp [fndaNames])
      (fun k => by simp [fnExecuted]) rfl rfl
  | otherKeyed key d txt =>
    exact inert (by simp [fnNames, fnDecls]) (by simp [fndaNames])
      (fun k => by simp [fnExecuted]) rfl rfl
  | blank =>
    exact inert (by simp [fnNames, fnDecls]) (by simp [fndaNames])
      (fun k => by simp [fnExecuted]) rfl rfl

theorem pendInv_applyRecs (branch : Bool) (post : List Rec) (pre : List Rec) (a : Acc)
    (h : PendInv pre a) : PendInv (pre ++ post) (applyRecs branch a post) := by
  induction post generalizing pre a with
  | nil => simpa [applyRecs_nil] using h
  | cons r post ih =>
    have := ih (pre ++ [r]) (applyRec branch a r) (pendInv_step branch pre a r h)
    simpa [applyRecs_cons] using this

/-- with every function declared once, the table is one entry per FN record read so far, executed
iff an FNDA record read so far (before or after the FN) has a non-zero count -/
theorem fnTable_step (branch : Bool) (pre : List Rec) (a : Acc) (r : Rec) (h : PendInv pre a)
    (hf : a.cur.functions = fnTable (fnExecuted pre) (fnDecls pre))
    (hn : (fnNames (pre ++ [r])).Nodup) :
    (applyRec branch a r).cur.functions = fnTable (fnExecuted (pre ++ [r])) (fnDecls (pre ++ [r])) := by
  have inert : fnDecls (pre ++ [r]) = fnDecls pre → (∀ k, fnExecuted (pre ++ [r]) k = fnExecuted pre k) →
      (applyRec branch a r).cur.functions = a.cur.functions →
      (applyRec branch a r).cur.functions = fnTable (fnExecuted (pre ++ [r])) (fnDecls (pre ++ [r])) := by
    intro e1 e3 e4
    rw [e4, e1, hf]; exact fnTable_congr _ _ _ fun d _ => (e3 d.1).symm
  cases r with
  | fn s name =>
    have e1 : fnDecls (pre ++ [.fn s name]) = fnDecls pre ++ [(utf8Lossy name, s.val)] := by
      simp [fnDecls]
    have e3 : ∀ k, fnExecuted (pre ++ [.fn s name]) k = fnExecuted pre k := by
      intro k; simp [fnExecuted]
    have hnew : utf8Lossy name ∉ fnNames pre := by
      have : fnNames (pre ++ [.fn s name]) = fnNames pre ++ [utf8Lossy name] := by
        simp [fnNames, fnDecls]
      rw [this, List.nodup_append] at hn
      intro hin; exact hn.2.2 _ hin _ (by simp) rfl
    rw [e1, fnTable_append]
    simp only [applyRec, commitFn]
    rw [set_append_new _ _ _ (by rw [hf, keys_fnTable]; exact hnew), hf, h.waiting _ hnew,
      fnTable_congr _ _ _ fun d _ => (e3 d.1).symm]
    simp [fnTable, e3]
  | fnda c name =>
    have e1 : fnDecls (pre ++ [.fnda c name]) = fnDecls pre := by simp [fnDecls]
    have e3 : ∀ k, fnExecuted (pre ++ [.fnda c name]) k
        = (fnExecuted pre k || (decide (utf8Lossy name = k) && decide (c.val ≠ 0))) := by
      intro k; simp [fnExecuted]
    have hnod : ((fnDecls pre).map (·.1)).Nodup := by
      have : fnNames (pre ++ [.fnda c name]) = fnNames pre := by simp [fnNames, fnDecls]
      rw [this] at hn; exact hn
    rw [e1]
    cases hg : get? a.cur.functions (utf8Lossy name) with
    | some f =>
      have hg' := hg
      rw [hf, get?_fnTable] at hg'
      cases hd : get? (fnDecls pre) (utf8Lossy name) with
      | none => rw [hd] at hg'; simp at hg'
      | some st =>
        rw [hd] at hg'; simp only [Option.map_some, Option.some.injEq] at hg'
        subst hg'
        simp only [applyRec, commitFnda, hg]
        rw [hf, set_fnTable _ _ _ st _ hnod hd]
        exact fnTable_congr _ _ _ fun d _ => (e3 d.1).symm
    | none =>
      have hout : utf8Lossy name ∉ fnNames pre := (h.mem _).mp hg
      simp only [applyRec, commitFnda, hg]
      rw [hf]
      apply fnTable_congr
      intro d hd
      have : ¬ utf8Lossy name = d.1 := fun e => hout (by
        rw [e]; exact List.mem_map_of_mem (f := (·.1)) hd)
      simp [e3, this]
  | da l c ck =>
    exact inert (by simp [fnDecls]) (fun k => by simp [fnExecuted]) rfl
  | daNeg l txt =>
    exact inert (by simp [fnDecls]) (fun k => by simp [fnExecuted]) rfl
  | brda l exc blk br taken =>
    exact inert (by simp [fnDecls]) (fun k => by simp [fnExecuted])
      (by cases branch <;> rfl)
  | other txt =>
    exact inert (by simp [fnDecls]) (fun k => by simp [fnExecuted]) rfl
  | otherKeyed key d txt =>
    exact inert (by simp [fnDecls]) (fun k => by simp [fnExecuted]) rfl
  | blank =>
    exact inert (by simp [fnDecls]) (fun k => by simp [fnExecuted]) rfl

theorem fnTable_applyRecs (branch : Bool) (post : List Rec) (pre : List Rec) (a : Acc)
    (h : PendInv pre a) (hf : a.cur.functions = fnTable (fnExecuted pre) (fnDecls pre))
    (hn : (fnNames (pre ++ post)).Nodup) :
    (applyRecs branch a post).cur.functions
      = fnTable (fnExecuted (pre ++ post)) (fnDecls (pre ++ post)) := by
  induction post generalizing pre a with
  | nil => simpa [applyRecs_nil] using hf
  | cons r post ih =>
    have e : pre ++ r :: post = (pre ++ [r]) ++ post := by simp
    have hn1 : (fnNames (pre ++ [r])).Nodup := by
      rw [e, fnNames_append] at hn; exact (List.nodup_append.mp hn).1
    have := ih (pre ++ [r]) (applyRec branch a r) (pendInv_step branch pre a r h)
      (fnTable_step branch pre a r h hf hn1) (by rw [← e]; exact hn)
    rw [applyRecs_cons, e]; exact this

/-! ### a whole section -/

def sectionStart (R : List (Bytes × Cov)) (sf : Bytes) : Acc :=
  { results := R, curFile := some (utf8Lossy sf), cur := {}, pending := [] }

theorem section_pendInv (branch : Bool) (R : List (Bytes × Cov)) (s : Section) :
    PendInv s.recs (applyRecs branch (sectionStart R s.sf) s.recs) := by
  simpa using pendInv_applyRecs branch s.recs [] (sectionStart R s.sf) (pendInv_nil _ rfl rfl)

/-- for a section in which every FNDA names a declared function nothing is waiting at the end -/
theorem section_pending_nil (branch : Bool) (R : List (Bytes × Cov)) (s : Section)
    (h : ∀ nm ∈ fndaNames s.recs, nm ∈ fnNames s.recs) :
    (applyRecs branch (sectionStart R s.sf) s.recs).pending = [] := by
  apply eq_nil_of_get?_none
  intro k
  rw [(section_pendInv branch R s).pend k]
  by_cases h1 : k ∈ fnNames s.recs
  · simp [h1]
  · have : k ∉ fndaNames s.recs := fun h2 => h1 (h k h2)
    simp [h1, this]

/-- … and an FNDA whose function is never declared is still waiting -/
theorem section_pending_ne_nil (branch : Bool) (R : List (Bytes × Cov)) (s : Section) (nm : Bytes)
    (h1 : nm ∈ fndaNames s.recs) (h2 : nm ∉ fnNames s.recs) :
    (applyRecs branch (sectionStart R s.sf) s.recs).pending ≠ [] := by
  intro e
  have := (section_pendInv branch R s).pend nm
  rw [e] at this
  simp [h1, h2] at this

theorem section_functions (branch : Bool) (R : List (Bytes × Cov)) (s : Section)
    (hn : (fnNames s.recs).Nodup) :
    (applyRecs branch (sectionStart R s.sf) s.recs).cur.functions = semFunctions s.recs := by
  have := fnTable_applyRecs branch s.recs [] (sectionStart R s.sf) (pendInv_nil _ rfl rfl) rfl
    (by simpa using hn)
  simpa [semFunctions, fnTable] using this

theorem section_cur (branch : Bool) (R : List (Bytes × Cov)) (s : Section) (hn : (fnNames s.recs).Nodup) :
    (applyRecs branch (sectionStart R s.sf) s.recs).cur = sem branch s := by
  have hl := applyRecs_lines branch s.recs (sectionStart R s.sf) {} rfl
  have hf := section_functions branch R s hn
  have hb : (applyRecs branch (sectionStart R s.sf) s.recs).cur.branches
      = if branch then brdaFold [] (brdaTriples s.recs) else [] := by
    cases branch
    · exact applyRecs_branches_off s.recs _
    · exact applyRecs_branches_on s.recs _
  generalize (applyRecs branch (sectionStart R s.sf) s.recs).cur = c at hl hf hb
  cases c
  simp only at hl hf hb
  simp [sem, hl, hf, hb]

/-- the record-by-record reading of a well-formed section is what the section says -/
theorem semSection_eq_sem (branch : Bool) (s : Section) (h : s.FnOK) :
    semSection branch s = some (utf8Lossy s.sf, sem branch s) := by
  have hp := section_pending_nil branch [] s h.2
  have hc := section_cur branch [] s h.1
  simp only [sectionStart] at hp hc
  simp only [semSection, hp, hc]
  rfl

theorem semAll_eq_sem (branch : Bool) (secs : List Section) (h : ∀ s ∈ secs, s.FnOK) :
    semAll branch secs = some (secs.map fun s => (utf8Lossy s.sf, sem branch s)) := by
  induction secs with
  | nil => rfl
  | cons s ss ih =>
    simp only [semAll, semSection_eq_sem branch s (h s (by simp)),
      ih fun s' hs' => h s' (List.mem_cons_of_mem _ hs')]
    rfl

/-- **Fidelity.** -/
theorem parse_render (branch : Bool) (eol : Bytes) (heol : eol = [LF] ∨ eol = [CR, LF])
    (secs : List Section) (hs : ∀ s ∈ secs, s.WellFormed) :
    parse branch (render eol secs) = .ok (secs.map fun s => (utf8Lossy s.sf, sem branch s)) := by
  have := file_bytes branch eol heol secs (fun s h => (hs s h).1) _
    (semAll_eq_sem branch secs fun s h => (hs s h).2) [] none
  unfold parse
  have e : ({} : St) = ⟨.dispatch, { results := [], curFile := none, cur := {}, pending := [] }⟩ := rfl
  rw [e, this]
  simp [finish]

/-- an FNDA record whose function is declared nowhere in its section: the reader answers the error
"FN record missing" at the `end_of_record` of that section, whatever follows -/
theorem parse_fnda_without_fn (branch : Bool) (eol : Bytes) (heol : eol = [LF] ∨ eol = [CR, LF])
    (secs : List Section) (hs : ∀ s ∈ secs, s.WellFormed) (s : Section) (hw : s.WF) (nm : Bytes)
    (h1 : nm ∈ fndaNames s.recs) (h2 : nm ∉ fnNames s.recs) (rest : Bytes) :
    parse branch (render eol secs ++ renderSection eol s ++ rest) = .err "Parse" := by
  have hfile := file_bytes branch eol heol secs (fun s h => (hs s h).1) _
    (semAll_eq_sem branch secs fun s h => (hs s h).2) [] none
  have e : ({} : St) = ⟨.dispatch, { results := [], curFile := none, cur := {}, pending := [] }⟩ := rfl
  unfold parse
  rw [List.append_assoc, run_append, e, hfile, renderSection_split, List.append_assoc, run_append,
    section_body_bytes branch eol heol _ _ s hw]
  have hp := section_pending_ne_nil branch ([] ++ secs.map fun s => (utf8Lossy s.sf, sem branch s)) s nm h1 h2
  have hcf := (applyRecs_frame branch (sectionStart ([] ++ secs.map fun s => (utf8Lossy s.sf, sem branch s)) s.sf)
    s.recs).2
  simp only [sectionStart] at hp hcf
  have e2 : [101] ++ s.eor ++ [LF] ++ rest = 101 :: (s.eor ++ [LF] ++ rest) := by simp
  rw [e2, run_cons, eor_pending_bytes branch _ (utf8Lossy s.sf) hcf hp, run_halt]
  rfl

/-! ### record order -/

theorem get?_perm {α : Type} (m m' : List (Bytes × α)) (p : m.Perm m') (hn : NodupKeys m) (k : Bytes) :
    get? m k = get? m' k := by
  have hn' : NodupKeys m' := by
    unfold NodupKeys keys at *; exact (p.map _).nodup_iff.mp hn
  cases hg : get? m k with
  | none =>
    have h1 : k ∉ keys m := (get?_eq_none_iff m k).mp hg
    have h2 : k ∉ keys m' := fun h => h1 (by unfold keys at *; exact (p.map _).mem_iff.mpr h)
    exact ((get?_eq_none_iff m' k).mpr h2).symm
  | some v =>
    have h1 := mem_of_get?_some m k v hg
    exact (get?_of_mem hn' (p.mem_iff.mp h1)).symm

theorem fnExecuted_perm (recs recs' : List Rec) (p : recs.Perm recs') (k : Bytes) :
    fnExecuted recs k = fnExecuted recs' k := p.any_eq

theorem semFunctions_perm (recs recs' : List Rec) (p : recs.Perm recs') (hn : (fnNames recs).Nodup)
    (k : Bytes) : get? (semFunctions recs) k = get? (semFunctions recs') k := by
  have e : ∀ rs, semFunctions rs = fnTable (fnExecuted rs) (fnDecls rs) := fun _ => rfl
  rw [e, e, get?_fnTable, get?_fnTable, fnExecuted_perm recs recs' p k,
    get?_perm (fnDecls recs) (fnDecls recs') (p.filterMap _) hn k]

theorem daFold_lines_perm (ps ps' : List (Nat × Nat)) (p : ps.Perm ps') (l : Nat) :
    get? (daFold {} ps).cur.lines l = get? (daFold {} ps').cur.lines l := by
  by_cases h : ∃ r ∈ ps, r.1 = l
  · have h' : ∃ r ∈ ps', r.1 = l := by
      obtain ⟨r, hr, e⟩ := h; exact ⟨r, p.mem_iff.mp hr, e⟩
    rw [daFold_present _ _ _ h, daFold_present _ _ _ h']
    have := ((p.filter fun r => decide (r.1 = l)).map (·.2)).sum_nat
    rw [this]
  · have h' : ¬ ∃ r ∈ ps', r.1 = l := by
      intro ⟨r, hr, e⟩; exact h ⟨r, p.mem_iff.mpr hr, e⟩
    rw [daFold_absent _ _ _ (fun r hr e => h ⟨r, hr, e⟩), daFold_absent _ _ _ (fun r hr e => h' ⟨r, hr, e⟩)]

theorem fnOK_perm (s : Section) (recs' : List Rec) (p : s.recs.Perm recs') (h : s.FnOK) :
    ({ s with recs := recs' } : Section).FnOK := by
  have pn : (fnNames s.recs).Perm (fnNames recs') := (p.filterMap _).map _
  have pd : (fndaNames s.recs).Perm (fndaNames recs') := p.filterMap _
  refine ⟨pn.nodup_iff.mp h.1, fun nm hnm => ?_⟩
  exact pn.mem_iff.mp (h.2 nm (pd.mem_iff.mpr hnm))

theorem wellFormed_perm (s : Section) (recs' : List Rec) (p : s.recs.Perm recs') (h : s.WellFormed) :
    ({ s with recs := recs' } : Section).WellFormed :=
  ⟨⟨h.1.1, h.1.2.1, fun r hr => h.1.2.2.1 r (p.mem_iff.mpr hr), h.1.2.2.2⟩, fnOK_perm s recs' p h.2⟩

/-- names that decoding leaves alone: the reported function names are the written ones -/
theorem fnNames_eq_written (recs : List Rec)
    (h : ∀ st name, Rec.fn st name ∈ recs → utf8Lossy name = name) : fnNames recs = fnWrittenNames recs := by
  induction recs with
  | nil => rfl
  | cons r rs ih =>
    have ih' := ih fun st name hm => h st name (List.mem_cons_of_mem _ hm)
    cases r
    case fn st name =>
      have e := h st name (by simp)
      simp only [fnNames, fnDecls, fnWrittenNames, List.filterMap_cons, List.map_cons] at ih' ⊢
      rw [ih', e]
    all_goals simpa [fnNames, fnDecls, fnWrittenNames] using ih'

end Grcov.Lcov
