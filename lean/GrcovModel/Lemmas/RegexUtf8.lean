/-
UTF-8 lemmas for GrcovModel/Regex/Match.lean: `decode` inverts `enc` on scalar values; a text that
decodes still decodes when cut at an ASCII byte (so every line of a UTF-8 file is UTF-8).
-/
import GrcovModel.Regex.Match
import Mathlib.Tactic.SplitIfs
namespace Grcov.Regex

theorem decode_enc_append (c : Nat) (hc : isScalar c = true) (r : Bytes) :
    decode (enc c ++ r) = (decode r).map (List.cons c) := by
  simp only [isScalar, Bool.or_eq_true, Bool.and_eq_true, decide_eq_true_eq] at hc
  unfold enc
  by_cases h1 : c < 128
  · simp only [h1, if_true, List.cons_append, List.nil_append]
    rw [decode.eq_def]
    simp [h1]
  · by_cases h2 : c < 2048
    · have a1 : ¬ (192 + c / 64 < 128) := by omega
      have a2 : 194 ≤ 192 + c / 64 ∧ 192 + c / 64 ≤ 223 := by omega
      have a3 : isCont (128 + c % 64) = true := by simp [isCont]; omega
      have a4 : c / 64 * 64 + c % 64 = c := by omega
      simp [h1, h2, decode, a1, a2, a3, a4]
    · by_cases h3 : c < 65536
      · have a1 : ¬ (224 + c / 4096 < 128) := by omega
        have a2 : ¬ (194 ≤ 224 + c / 4096 ∧ 224 + c / 4096 ≤ 223) := by omega
        have a3 : 224 ≤ 224 + c / 4096 ∧ 224 + c / 4096 ≤ 239 := by omega
        have a4 : isCont (128 + c / 64 % 64) = true := by simp [isCont]; omega
        have a5 : isCont (128 + c % 64) = true := by simp [isCont]; omega
        have a6 : (224 + c / 4096 != 224 || decide (160 ≤ 128 + c / 64 % 64)) = true := by
          simp only [Bool.or_eq_true, bne_iff_ne, ne_eq, decide_eq_true_eq]; omega
        have a7 : (224 + c / 4096 != 237 || decide (128 + c / 64 % 64 ≤ 159)) = true := by
          simp only [Bool.or_eq_true, bne_iff_ne, ne_eq, decide_eq_true_eq]; omega
        have a8 : c / 4096 * 4096 + c / 64 % 64 * 64 + c % 64 = c := by omega
        simp [h1, h2, h3, decode, a1, a2, a3, a4, a5, a6, a7, a8]
      · have a1 : ¬ (240 + c / 262144 < 128) := by omega
        have a2 : ¬ (194 ≤ 240 + c / 262144 ∧ 240 + c / 262144 ≤ 223) := by omega
        have a3 : ¬ (224 ≤ 240 + c / 262144 ∧ 240 + c / 262144 ≤ 239) := by omega
        have a3' : 240 ≤ 240 + c / 262144 ∧ 240 + c / 262144 ≤ 244 := by omega
        have a4 : isCont (128 + c / 4096 % 64) = true := by simp [isCont]; omega
        have a5 : isCont (128 + c / 64 % 64) = true := by simp [isCont]; omega
        have a5' : isCont (128 + c % 64) = true := by simp [isCont]; omega
        have a6 : (240 + c / 262144 != 240 || decide (144 ≤ 128 + c / 4096 % 64)) = true := by
          simp only [Bool.or_eq_true, bne_iff_ne, ne_eq, decide_eq_true_eq]; omega
        have a7 : (240 + c / 262144 != 244 || decide (128 + c / 4096 % 64 ≤ 143)) = true := by
          simp only [Bool.or_eq_true, bne_iff_ne, ne_eq, decide_eq_true_eq]; omega
        have a8 : c / 262144 * 262144 + c / 4096 % 64 * 4096 + c / 64 % 64 * 64 + c % 64 = c := by omega
        simp [h1, h2, h3, decode, a1, a2, a3, a3', a4, a5, a5', a6, a7, a8]

/-- decoding the UTF-8 of a list of scalar values gives the list back -/
theorem decode_encAll (cs : Chars) (h : ∀ c ∈ cs, isScalar c = true) : decode (encAll cs) = some cs := by
  induction cs with
  | nil => rfl
  | cons c cs ih =>
    have : encAll (c :: cs) = enc c ++ encAll cs := by simp [encAll]
    rw [this, decode_enc_append c (h c (by simp)), ih (fun d hd => h d (by simp [hd]))]
    rfl

theorem encAll_append (xs ys : Chars) : encAll (xs ++ ys) = encAll xs ++ encAll ys := by
  simp [encAll]

theorem encAll_ascii (cs : Chars) (h : ∀ c ∈ cs, c < 128) : encAll cs = cs := by
  induction cs with
  | nil => rfl
  | cons c cs ih =>
    have hc := h c (by simp)
    have : encAll (c :: cs) = enc c ++ encAll cs := by simp [encAll]
    rw [this, ih (fun d hd => h d (by simp [hd]))]
    simp [enc, hc]

theorem isScalar_of_lt {c : Nat} (h : c < 128) : isScalar c = true := by
  simp [isScalar]; omega

/-! ### an ASCII byte is never inside a char -/

theorem isCont_ascii {x : Nat} (hx : x < 128) : isCont x = false := by
  simp [isCont]; omega

theorem decode_cons_ascii (b0 : Nat) (r : Bytes) (h : b0 < 128) :
    decode (b0 :: r) = (decode r).map (List.cons b0) := by
  rw [decode.eq_def]; simp [h]

/-- the lead byte says how many bytes the char has -/
def leadLen (b0 : Nat) : Nat :=
  if b0 < 128 then 1 else if 194 ≤ b0 ∧ b0 ≤ 223 then 2 else if 224 ≤ b0 ∧ b0 ≤ 239 then 3
  else if 240 ≤ b0 ∧ b0 ≤ 244 then 4 else 0

theorem decode_bad_lead (b0 : Nat) (r : Bytes) (h : leadLen b0 = 0) : decode (b0 :: r) = none := by
  unfold leadLen at h
  rw [decode.eq_def]
  split_ifs at h with h1 h2 h3 h4 <;> first | omega | simp [*]

theorem decode_2 (b0 b1 : Nat) (r : Bytes) (h : leadLen b0 = 2) :
    decode (b0 :: b1 :: r) = if isCont b1 then (decode r).map (List.cons ((b0 - 192) * 64 + (b1 - 128))) else none := by
  unfold leadLen at h
  rw [decode.eq_def]
  split_ifs at h with h1 h2 h3 h4 <;> first | omega | simp [*]

theorem decode_2_short (b0 : Nat) (h : leadLen b0 = 2) : decode [b0] = none := by
  unfold leadLen at h
  rw [decode.eq_def]
  split_ifs at h with h1 h2 h3 h4 <;> first | omega | simp [*]

theorem decode_3 (b0 b1 b2 : Nat) (r : Bytes) (h : leadLen b0 = 3) :
    decode (b0 :: b1 :: b2 :: r) =
      if isCont b1 && isCont b2 && (b0 != 224 || 160 ≤ b1) && (b0 != 237 || b1 ≤ 159) then
        (decode r).map (List.cons ((b0 - 224) * 4096 + (b1 - 128) * 64 + (b2 - 128))) else none := by
  unfold leadLen at h
  rw [decode.eq_def]
  split_ifs at h with h1 h2 h3 h4 <;> first | omega | simp [*]

theorem decode_3_short (b0 : Nat) (r : Bytes) (h : leadLen b0 = 3) (hr : r.length < 2) :
    decode (b0 :: r) = none := by
  unfold leadLen at h
  rw [decode.eq_def]
  split_ifs at h with h1 h2 h3 h4 <;> try omega
  rcases r with _ | ⟨b1, _ | ⟨b2, r2⟩⟩
  · simp [*]
  · simp [*]
  · simp at hr; omega

theorem decode_4 (b0 b1 b2 b3 : Nat) (r : Bytes) (h : leadLen b0 = 4) :
    decode (b0 :: b1 :: b2 :: b3 :: r) =
      if isCont b1 && isCont b2 && isCont b3 && (b0 != 240 || 144 ≤ b1) && (b0 != 244 || b1 ≤ 143) then
        (decode r).map (List.cons ((b0 - 240) * 262144 + (b1 - 128) * 4096 + (b2 - 128) * 64 + (b3 - 128)))
      else none := by
  unfold leadLen at h
  rw [decode.eq_def]
  split_ifs at h with h1 h2 h3 h4 <;> first | omega | simp [*]

theorem decode_4_short (b0 : Nat) (r : Bytes) (h : leadLen b0 = 4) (hr : r.length < 3) :
    decode (b0 :: r) = none := by
  unfold leadLen at h
  rw [decode.eq_def]
  split_ifs at h with h1 h2 h3 h4 <;> try omega
  rcases r with _ | ⟨b1, _ | ⟨b2, _ | ⟨b3, r3⟩⟩⟩
  · simp [*]
  · simp [*]
  · simp [*]
  · simp at hr; omega

theorem leadLen_cases (b0 : Nat) :
    (b0 < 128 ∧ leadLen b0 = 1) ∨ leadLen b0 = 0 ∨ leadLen b0 = 2 ∨ leadLen b0 = 3 ∨ leadLen b0 = 4 := by
  unfold leadLen
  split_ifs <;> simp_all

/-- an ASCII byte never sits inside a char: a text decodes iff the parts before and after it do -/
theorem decode_split_ascii : ∀ (n : Nat) (a : Bytes), a.length ≤ n → ∀ (x : Nat), x < 128 → ∀ b : Bytes,
    (decode (a ++ x :: b)).isSome = true → (decode a).isSome = true ∧ (decode b).isSome = true
  | _, [], _, x, hx, b, h => by
    rw [List.nil_append, decode_cons_ascii x b hx] at h
    refine ⟨rfl, by simpa using h⟩
  | 0, _ :: _, hl, _, _, _, _ => by simp at hl
  | n + 1, b0 :: r, hl, x, hx, b, h => by
    have hc := isCont_ascii hx
    simp only [List.length_cons] at hl
    rw [List.cons_append] at h
    rcases leadLen_cases b0 with ⟨h1, _⟩ | h0 | h2 | h3 | h4
    · rw [decode_cons_ascii _ _ h1] at h
      have := decode_split_ascii n r (by omega) x hx b (by simpa using h)
      rw [decode_cons_ascii _ _ h1]
      simpa using this
    · rw [decode_bad_lead _ _ h0] at h; cases h
    · match r, hl with
      | [], _ => rw [List.nil_append, decode_2 _ _ _ h2, hc] at h; cases h
      | b1 :: r1, hl =>
        rw [List.cons_append, decode_2 _ _ _ h2] at h
        rw [decode_2 _ _ _ h2]
        by_cases c1 : isCont b1 = true
        · simp only [c1, if_true] at h ⊢
          simp only [List.length_cons] at hl
          have := decode_split_ascii n r1 (by omega) x hx b (by simpa using h)
          simpa using this
        · simp [c1] at h
    · match r, hl with
      | [], _ =>
        rcases b with _ | ⟨b2, b'⟩
        · rw [List.nil_append, decode_3_short _ _ h3 (by simp)] at h; cases h
        · rw [List.nil_append, decode_3 _ _ _ _ h3, hc] at h; simp at h
      | [b1], _ =>
        rw [List.cons_append, List.nil_append, decode_3 _ _ _ _ h3, hc] at h; simp at h
      | b1 :: b2 :: r2, hl =>
        rw [List.cons_append, List.cons_append, decode_3 _ _ _ _ h3] at h
        rw [decode_3 _ _ _ _ h3]
        split_ifs at h ⊢ with c1
        · simp only [List.length_cons] at hl
          have := decode_split_ascii n r2 (by omega) x hx b (by simpa using h)
          simpa using this
        · cases h
    · match r, hl with
      | [], _ =>
        rcases b with _ | ⟨b2, _ | ⟨b3, b''⟩⟩
        · rw [List.nil_append, decode_4_short _ _ h4 (by simp)] at h; cases h
        · rw [List.nil_append, decode_4_short _ _ h4 (by simp)] at h; cases h
        · rw [List.nil_append, decode_4 _ _ _ _ _ h4, hc] at h; simp at h
      | [b1], _ =>
        rcases b with _ | ⟨b3, b''⟩
        · rw [List.cons_append, List.nil_append, decode_4_short _ _ h4 (by simp)] at h; cases h
        · rw [List.cons_append, List.nil_append, decode_4 _ _ _ _ _ h4, hc] at h; simp at h
      | [b1, b2], _ =>
        rw [List.cons_append, List.cons_append, List.nil_append, decode_4 _ _ _ _ _ h4, hc] at h; simp at h
      | b1 :: b2 :: b3 :: r3, hl =>
        rw [List.cons_append, List.cons_append, List.cons_append, decode_4 _ _ _ _ _ h4] at h
        rw [decode_4 _ _ _ _ _ h4]
        split_ifs at h ⊢ with c1
        · simp only [List.length_cons] at hl
          have := decode_split_ascii n r3 (by omega) x hx b (by simpa using h)
          simpa using this
        · cases h

theorem decode_isSome_split (a : Bytes) (x : Nat) (hx : x < 128) (b : Bytes)
    (h : (decode (a ++ x :: b)).isSome = true) : (decode a).isSome = true ∧ (decode b).isSome = true :=
  decode_split_ascii a.length a (Nat.le_refl _) x hx b h

/-! ### `decode` is injective; ASCII texts inside UTF-8 -/

theorem enc_ge (c : Nat) (hc : 128 ≤ c) : ∀ b ∈ enc c, 128 ≤ b := by
  intro b hb
  unfold enc at hb
  split_ifs at hb <;> simp at hb <;> omega

theorem enc_ne_nil (c : Nat) : enc c ≠ [] := by
  unfold enc; split_ifs <;> simp

/-- `decode` is injective: the text is the encoding of what it decodes to -/
theorem decode_inv : ∀ (n : Nat) (l : Bytes), l.length ≤ n → ∀ cs, decode l = some cs → encAll cs = l
  | _, [], _, cs, h => by
    simp [decode] at h; subst h; rfl
  | 0, _ :: _, hl, _, _ => by simp at hl
  | n + 1, b0 :: r, hl, cs, h => by
    simp only [List.length_cons] at hl
    rcases leadLen_cases b0 with ⟨h1, _⟩ | h0 | h2 | h3 | h4
    · rw [decode_cons_ascii _ _ h1] at h
      obtain ⟨cs', hd, rfl⟩ := Option.map_eq_some_iff.1 h
      have := decode_inv n r (by omega) cs' hd
      simp [encAll, enc, h1] at this ⊢
      exact this
    · rw [decode_bad_lead _ _ h0] at h; cases h
    · have hb : 194 ≤ b0 ∧ b0 ≤ 223 := by
        unfold leadLen at h2; split_ifs at h2 <;> omega
      match r, hl with
      | [], _ => rw [decode_2_short _ h2] at h; cases h
      | b1 :: r1, hl =>
        rw [decode_2 _ _ _ h2] at h
        split_ifs at h with c1
        obtain ⟨cs', hd, rfl⟩ := Option.map_eq_some_iff.1 h
        simp only [List.length_cons] at hl
        have ih := decode_inv n r1 (by omega) cs' hd
        simp only [isCont, Bool.and_eq_true, decide_eq_true_eq] at c1
        have e : enc ((b0 - 192) * 64 + (b1 - 128)) = [b0, b1] := by
          unfold enc
          have a1 : ¬ ((b0 - 192) * 64 + (b1 - 128) < 128) := by omega
          have a2 : (b0 - 192) * 64 + (b1 - 128) < 2048 := by omega
          simp only [a1, a2, if_false, if_true]
          have e1 : 192 + ((b0 - 192) * 64 + (b1 - 128)) / 64 = b0 := by omega
          have e2 : 128 + ((b0 - 192) * 64 + (b1 - 128)) % 64 = b1 := by omega
          rw [e1, e2]
        simp only [encAll, List.flatMap_cons] at ih ⊢
        rw [e, ih]; rfl
    · have hb : 224 ≤ b0 ∧ b0 ≤ 239 := by
        unfold leadLen at h3; split_ifs at h3 <;> omega
      match r, hl with
      | [], _ => rw [decode_3_short _ _ h3 (by simp)] at h; cases h
      | [b1], _ => rw [decode_3_short _ _ h3 (by simp)] at h; cases h
      | b1 :: b2 :: r2, hl =>
        rw [decode_3 _ _ _ _ h3] at h
        split_ifs at h with c1
        obtain ⟨cs', hd, rfl⟩ := Option.map_eq_some_iff.1 h
        simp only [List.length_cons] at hl
        have ih := decode_inv n r2 (by omega) cs' hd
        simp only [isCont, Bool.and_eq_true, Bool.or_eq_true, decide_eq_true_eq, bne_iff_ne, ne_eq] at c1
        have e : enc ((b0 - 224) * 4096 + (b1 - 128) * 64 + (b2 - 128)) = [b0, b1, b2] := by
          unfold enc
          have a1 : ¬ ((b0 - 224) * 4096 + (b1 - 128) * 64 + (b2 - 128) < 128) := by omega
          have a2 : ¬ ((b0 - 224) * 4096 + (b1 - 128) * 64 + (b2 - 128) < 2048) := by omega
          have a3 : (b0 - 224) * 4096 + (b1 - 128) * 64 + (b2 - 128) < 65536 := by omega
          simp only [a1, a2, a3, if_false, if_true]
          have e1 : 224 + ((b0 - 224) * 4096 + (b1 - 128) * 64 + (b2 - 128)) / 4096 = b0 := by omega
          have e2 : 128 + ((b0 - 224) * 4096 + (b1 - 128) * 64 + (b2 - 128)) / 64 % 64 = b1 := by omega
          have e3 : 128 + ((b0 - 224) * 4096 + (b1 - 128) * 64 + (b2 - 128)) % 64 = b2 := by omega
          rw [e1, e2, e3]
        simp only [encAll, List.flatMap_cons] at ih ⊢
        rw [e, ih]; rfl
    · have hb : 240 ≤ b0 ∧ b0 ≤ 244 := by
        unfold leadLen at h4; split_ifs at h4 <;> omega
      match r, hl with
      | [], _ => rw [decode_4_short _ _ h4 (by simp)] at h; cases h
      | [b1], _ => rw [decode_4_short _ _ h4 (by simp)] at h; cases h
      | [b1, b2], _ => rw [decode_4_short _ _ h4 (by simp)] at h; cases h
      | b1 :: b2 :: b3 :: r3, hl =>
        rw [decode_4 _ _ _ _ _ h4] at h
        split_ifs at h with c1
        obtain ⟨cs', hd, rfl⟩ := Option.map_eq_some_iff.1 h
        simp only [List.length_cons] at hl
        have ih := decode_inv n r3 (by omega) cs' hd
        simp only [isCont, Bool.and_eq_true, Bool.or_eq_true, decide_eq_true_eq, bne_iff_ne, ne_eq] at c1
        have e : enc ((b0 - 240) * 262144 + (b1 - 128) * 4096 + (b2 - 128) * 64 + (b3 - 128)) = [b0, b1, b2, b3] := by
          unfold enc
          have a1 : ¬ ((b0 - 240) * 262144 + (b1 - 128) * 4096 + (b2 - 128) * 64 + (b3 - 128) < 128) := by omega
          have a2 : ¬ ((b0 - 240) * 262144 + (b1 - 128) * 4096 + (b2 - 128) * 64 + (b3 - 128) < 2048) := by omega
          have a3 : ¬ ((b0 - 240) * 262144 + (b1 - 128) * 4096 + (b2 - 128) * 64 + (b3 - 128) < 65536) := by omega
          simp only [a1, a2, a3, if_false]
          have e1 : 240 + ((b0 - 240) * 262144 + (b1 - 128) * 4096 + (b2 - 128) * 64 + (b3 - 128)) / 262144 = b0 := by omega
          have e2 : 128 + ((b0 - 240) * 262144 + (b1 - 128) * 4096 + (b2 - 128) * 64 + (b3 - 128)) / 4096 % 64 = b1 := by omega
          have e3 : 128 + ((b0 - 240) * 262144 + (b1 - 128) * 4096 + (b2 - 128) * 64 + (b3 - 128)) / 64 % 64 = b2 := by omega
          have e4 : 128 + ((b0 - 240) * 262144 + (b1 - 128) * 4096 + (b2 - 128) * 64 + (b3 - 128)) % 64 = b3 := by omega
          rw [e1, e2, e3, e4]
        simp only [encAll, List.flatMap_cons] at ih ⊢
        rw [e, ih]; rfl

theorem decode_eq_some_iff (l : Bytes) (cs : Chars) (h : decode l = some cs) : encAll cs = l :=
  decode_inv l.length l (Nat.le_refl _) cs h

/-! ### an ASCII text occurs in the bytes iff it occurs in the chars -/

theorem encAll_cons (c : Nat) (cs : Chars) : encAll (c :: cs) = enc c ++ encAll cs := by simp [encAll]

theorem enc_ascii (c : Nat) (h : c < 128) : enc c = [c] := by simp [enc, h]

theorem prefix_enc_ascii : ∀ (p : Bytes), (∀ b ∈ p, b < 128) → ∀ cs : Chars, p <+: encAll cs ↔ p <+: cs
  | [], _, _ => by simp
  | a :: p', hp, [] => by simp [encAll]
  | a :: p', hp, c :: t => by
    have ha : a < 128 := hp a (by simp)
    rw [encAll_cons]
    by_cases hc : c < 128
    · rw [enc_ascii c hc, List.singleton_append, List.cons_prefix_cons, List.cons_prefix_cons,
        prefix_enc_ascii p' (fun b hb => hp b (by simp [hb])) t]
    · have hge := enc_ge c (by omega)
      have hne := enc_ne_nil c
      cases he : enc c with
      | nil => exact absurd he hne
      | cons b0 rest =>
        have hb0 : 128 ≤ b0 := hge b0 (by rw [he]; simp)
        rw [List.cons_append, List.cons_prefix_cons, List.cons_prefix_cons]
        constructor
        · rintro ⟨e, _⟩; omega
        · rintro ⟨e, _⟩; omega

/-- bytes `≥ 128` in front cannot host the start of an ASCII text -/
theorem infix_append_high (a : Nat) (p' : Bytes) (ha : a < 128) : ∀ (X : Bytes), (∀ b ∈ X, 128 ≤ b) →
    ∀ Y : Bytes, a :: p' <:+: X ++ Y ↔ a :: p' <:+: Y
  | [], _, Y => by simp
  | x :: X', hX, Y => by
    have hx : 128 ≤ x := hX x (by simp)
    rw [List.cons_append, List.infix_cons_iff, infix_append_high a p' ha X' (fun b hb => hX b (by simp [hb])) Y]
    constructor
    · rintro (hpre | h)
      · have := (List.cons_prefix_cons.1 hpre).1; omega
      · exact h
    · exact Or.inr

theorem infix_enc_ascii : ∀ (p : Bytes), (∀ b ∈ p, b < 128) → ∀ cs : Chars, p <:+: encAll cs ↔ p <:+: cs
  | [], _, _ => by simp
  | a :: p', hp, [] => by simp [encAll]
  | a :: p', hp, c :: t => by
    have ha : a < 128 := hp a (by simp)
    have ih := infix_enc_ascii (a :: p') hp t
    rw [encAll_cons]
    by_cases hc : c < 128
    · rw [enc_ascii c hc, List.singleton_append, List.infix_cons_iff, List.infix_cons_iff, ih]
      have := prefix_enc_ascii (a :: p') hp (c :: t)
      rw [encAll_cons, enc_ascii c hc, List.singleton_append] at this
      rw [this]
    · rw [infix_append_high a p' ha (enc c) (enc_ge c (by omega)), ih, List.infix_cons_iff]
      constructor
      · exact Or.inr
      · rintro (hpre | h)
        · have := (List.cons_prefix_cons.1 hpre).1; omega
        · exact h

end Grcov.Regex

