/-
UTF-8 lemmas for GrcovModel/Regex/Match.lean: `decode` inverts `enc` on scalar values.
-/
import GrcovModel.Regex.Match
namespace Grcov.Regex

theorem decode_enc_append (c : Nat) (hc : isScalar c = true) (r : Bytes) :
    decode (enc c ++ r) = (decode r).map (List.cons c) := by
  simp only [isScalar, Bool.or_eq_true, Bool.and_eq_true, decide_eq_true_eq] at hc
  unfold enc
  by_cases h1 : c < 128
  · simp only [h1, if_true, List.cons_append, List.nil_append]
    rw [decode.eq_def]
    simp [h1]
  · by_cases h2 : c < 2048
    · have a1 : ¬ (192 + c / 64 < 128) := by omega
      have a2 : 194 ≤ 192 + c / 64 ∧ 192 + c / 64 ≤ 223 := by omega
      have a3 : isCont (128 + c % 64) = true := by simp [isCont]; omega
      have a4 : c / 64 * 64 + c % 64 = c := by omega
      simp [h1, h2, decode, a1, a2, a3, a4]
    · by_cases h3 : c < 65536
      · have a1 : ¬ (224 + c / 4096 < 128) := by omega
        have a2 : ¬ (194 ≤ 224 + c / 4096 ∧ 224 + c / 4096 ≤ 223) := by omega
        have a3 : 224 ≤ 224 + c / 4096 ∧ 224 + c / 4096 ≤ 239 := by omega
        have a4 : isCont (128 + c / 64 % 64) = true := by simp [isCont]; omega
        have a5 : isCont (128 + c % 64) = true := by simp [isCont]; omega
        have a6 : (224 + c / 4096 != 224 || decide (160 ≤ 128 + c / 64 % 64)) = true := by
          simp only [Bool.or_eq_true, bne_iff_ne, ne_eq, decide_eq_true_eq]; omega
        have a7 : (224 + c / 4096 != 237 || decide (128 + c / 64 % 64 ≤ 159)) = true := by
          simp only [Bool.or_eq_true, bne_iff_ne, ne_eq, decide_eq_true_eq]; omega
        have a8 : c / 4096 * 4096 + c / 64 % 64 * 64 + c % 64 = c := by omega
        simp [h1, h2, h3, decode, a1, a2, a3, a4, a5, a6, a7, a8]
      · have a1 : ¬ (240 + c / 262144 < 128) := by omega
        have a2 : ¬ (194 ≤ 240 + c / 262144 ∧ 240 + c / 262144 ≤ 223) := by omega
        have a3 : ¬ (224 ≤ 240 + c / 262144 ∧ 240 + c / 262144 ≤ 239) := by omega
        have a3' : 240 ≤ 240 + c / 262144 ∧ 240 + c / 262144 ≤ 244 := by omega
        have a4 : isCont (128 + c / 4096 % 64) = true := by simp [isCont]; omega
        have a5 : isCont (128 + c / 64 % 64) = true := by simp [isCont]; omega
        have a5' : isCont (128 + c % 64) = true := by simp [isCont]; omega
        have a6 : (240 + c / 262144 != 240 || decide (144 ≤ 128 + c / 4096 % 64)) = true := by
          simp only [Bool.or_eq_true, bne_iff_ne, ne_eq, decide_eq_true_eq]; omega
        have a7 : (240 + c / 262144 != 244 || decide (128 + c / 4096 % 64 ≤ 143)) = true := by
          simp only [Bool.or_eq_true, bne_iff_ne, ne_eq, decide_eq_true_eq]; omega
        have a8 : c / 262144 * 262144 + c / 4096 % 64 * 4096 + c / 64 % 64 * 64 + c % 64 = c := by omega
        simp [h1, h2, h3, decode, a1, a2, a3, a3', a4, a5, a5', a6, a7, a8]

/-- decoding the UTF-8 of a list of scalar values gives the list back -/
theorem decode_encAll (cs : Chars) (h : ∀ c ∈ cs, isScalar c = true) : decode (encAll cs) = some cs := by
  induction cs with
  | nil => rfl
  | cons c cs ih =>
    have : encAll (c :: cs) = enc c ++ encAll cs := by simp [encAll]
    rw [this, decode_enc_append c (h c (by simp)), ih (fun d hd => h d (by simp [hd]))]
    rfl

theorem encAll_append (xs ys : Chars) : encAll (xs ++ ys) = encAll xs ++ encAll ys := by
  simp [encAll]

theorem encAll_ascii (cs : Chars) (h : ∀ c ∈ cs, c < 128) : encAll cs = cs := by
  induction cs with
  | nil => rfl
  | cons c cs ih =>
    have hc := h c (by simp)
    have : encAll (c :: cs) = enc c ++ encAll cs := by simp [encAll]
    rw [this, ih (fun d hd => h d (by simp [hd]))]
    simp [enc, hc]

theorem isScalar_of_lt {c : Nat} (h : c < 128) : isScalar c = true := by
  simp [isScalar]; omega

end Grcov.Regex
