/-
Helper lemmas for the gcno/gcda model (properties C15 and C08): the `Outcome` monad, the algebra of
counter accumulation (`read_gcda` adds a state-independent increment), zero and scaling laws of the
propagation, and the structure homomorphism of `finalize`.
-/
import GrcovModel.Gcno
namespace Grcov.Gcno
open Grcov AList Outcome

/-! ## Outcome -/
namespace Outcome
variable {α β σ : Type}

@[simp] theorem bind_ok (a : α) (f : α → Outcome β) : (ok a).bind f = f a := rfl
@[simp] theorem bind_err (k : ErrKind) (f : α → Outcome β) : (err k : Outcome α).bind f = err k := rfl
@[simp] theorem bind_crash (s : Site) (f : α → Outcome β) : (crash s : Outcome α).bind f = crash s := rfl
@[simp] theorem bind_diverge (f : α → Outcome β) : (diverge : Outcome α).bind f = diverge := rfl

theorem bind_eq_ok {x : Outcome α} {f : α → Outcome β} {b : β} :
    x.bind f = ok b ↔ ∃ a, x = ok a ∧ f a = ok b := by
  cases x <;> simp [bind]

@[simp] theorem foldl_nil (step : σ → α → Outcome σ) (s : σ) : foldl step s [] = ok s := rfl
@[simp] theorem foldl_cons (step : σ → α → Outcome σ) (s : σ) (a : α) (as : List α) :
    foldl step s (a :: as) = (step s a).bind fun s' => foldl step s' as := rfl

theorem foldl_append (step : σ → α → Outcome σ) (s : σ) (xs ys : List α) :
    foldl step s (xs ++ ys) = (foldl step s xs).bind fun s' => foldl step s' ys := by
  induction xs generalizing s with
  | nil => simp
  | cons a as ih =>
    simp only [List.cons_append, foldl_cons]
    cases step s a <;> simp [ih]

end Outcome

/-! ## Counters: pointwise algebra -/

@[ext] theorem Cnt.ext' {a b : Cnt} (h1 : a.arc = b.arc) (h2 : a.blk = b.blk) : a = b := by
  cases a; cases b; simp_all

/-- pointwise sum of two counter sets -/
def Cnt.add (a b : Cnt) : Cnt := ⟨fun i => a.arc i + b.arc i, fun i => a.blk i + b.blk i⟩
/-- every counter multiplied by `k` -/
def Cnt.scale (k : Nat) (a : Cnt) : Cnt := ⟨fun i => k * a.arc i, fun i => k * a.blk i⟩
/-- every counter fits in a u64 -/
def Cnt.Fits (a : Cnt) : Prop := (∀ i, a.arc i ≤ U64MAX) ∧ (∀ i, a.blk i ≤ U64MAX)
def Cnt.le (a b : Cnt) : Prop := (∀ i, a.arc i ≤ b.arc i) ∧ (∀ i, a.blk i ≤ b.blk i)

def State.add (s t : State) : State := fun i => (s i).add (t i)
def State.scale (k : Nat) (s : State) : State := fun i => (s i).scale k
def State.Fits (s : State) : Prop := ∀ i, (s i).Fits
def State.le (s t : State) : Prop := ∀ i, (s i).le (t i)

theorem Cnt.add_comm (a b : Cnt) : a.add b = b.add a := by
  ext i <;> simp [Cnt.add, Nat.add_comm]
theorem Cnt.add_assoc (a b c : Cnt) : (a.add b).add c = a.add (b.add c) := by
  ext i <;> simp [Cnt.add, Nat.add_assoc]
@[simp] theorem Cnt.zero_add (a : Cnt) : Cnt.zero.add a = a := by
  ext i <;> simp [Cnt.add, Cnt.zero]
@[simp] theorem Cnt.add_zero (a : Cnt) : a.add Cnt.zero = a := by
  ext i <;> simp [Cnt.add, Cnt.zero]
theorem Cnt.le_refl (a : Cnt) : a.le a := ⟨fun _ => Nat.le_refl _, fun _ => Nat.le_refl _⟩
theorem Cnt.le_trans {a b c : Cnt} (h1 : a.le b) (h2 : b.le c) : a.le c :=
  ⟨fun i => Nat.le_trans (h1.1 i) (h2.1 i), fun i => Nat.le_trans (h1.2 i) (h2.2 i)⟩
theorem Cnt.Fits_of_le {a b : Cnt} (h : a.le b) (hb : b.Fits) : a.Fits :=
  ⟨fun i => Nat.le_trans (h.1 i) (hb.1 i), fun i => Nat.le_trans (h.2 i) (hb.2 i)⟩
theorem Cnt.zero_Fits : Cnt.zero.Fits := ⟨fun _ => Nat.zero_le _, fun _ => Nat.zero_le _⟩

theorem State.add_comm (s t : State) : s.add t = t.add s := by
  funext i; exact Cnt.add_comm _ _
theorem State.add_assoc (s t u : State) : (s.add t).add u = s.add (t.add u) := by
  funext i; exact Cnt.add_assoc _ _ _
@[simp] theorem State.zero_add (s : State) : State.zero.add s = s := by
  funext i; exact Cnt.zero_add _
@[simp] theorem State.add_zero (s : State) : s.add State.zero = s := by
  funext i; exact Cnt.add_zero _
theorem State.le_refl (s : State) : s.le s := fun _ => Cnt.le_refl _
theorem State.le_trans {a b c : State} (h1 : a.le b) (h2 : b.le c) : a.le c :=
  fun i => Cnt.le_trans (h1 i) (h2 i)
theorem State.Fits_of_le {a b : State} (h : a.le b) (hb : b.Fits) : a.Fits :=
  fun i => Cnt.Fits_of_le (h i) (hb i)
theorem State.zero_Fits : State.zero.Fits := fun _ => Cnt.zero_Fits
theorem State.le_add_left (s u : State) : s.le (u.add s) :=
  fun _ => ⟨fun _ => Nat.le_add_left _ _, fun _ => Nat.le_add_left _ _⟩
theorem State.add_le_add_right {a b : State} (h : a.le b) (u : State) : (a.add u).le (b.add u) :=
  fun i => ⟨fun j => Nat.add_le_add_right ((h i).1 j) _, fun j => Nat.add_le_add_right ((h i).2 j) _⟩

theorem State.set_add (st u : State) (i : Nat) (c : Cnt) :
    (st.set i c).add u = (st.add u).set i (c.add (u i)) := by
  funext j
  simp only [State.add, State.set]
  split <;> simp_all

theorem State.set_le {st : State} {i : Nat} {c : Cnt} (h : (st i).le c) : st.le (st.set i c) := by
  intro j
  simp only [State.set]
  split
  · subst_vars; exact h
  · exact Cnt.le_refl _

/-! ## `read_gcda` adds an increment that does not depend on the state -/

theorem accArcs_nil (n i : Nat) (c : Cnt) (vs : List Nat) : accArcs n i [] c vs = ok c := by
  simp [accArcs]

theorem accArcs_tree (n i : Nat) {a : Arc} (rest : List Arc) (c : Cnt) (vs : List Nat)
    (h : a.onTree = true) : accArcs n i (a :: rest) c vs = accArcs n (i + 1) rest c vs := by
  simp [accArcs, h]

theorem accArcs_short (n i : Nat) {a : Arc} (rest : List Arc) (c : Cnt)
    (h : a.onTree = false) : accArcs n i (a :: rest) c [] = err .short := by
  simp [accArcs, h]

theorem accArcs_real (n i : Nat) {a : Arc} (rest : List Arc) (c : Cnt) (v : Nat) (vs : List Nat)
    (h : a.onTree = false) : accArcs n i (a :: rest) c (v :: vs) =
      if c.arc i + v > U64MAX then crash .overflow
      else if n ≤ a.src then crash .idxBlock
      else if c.blk a.src + v > U64MAX then crash .overflow
      else accArcs n (i + 1) rest
            ⟨upd c.arc i (c.arc i + v), upd c.blk a.src (c.blk a.src + v)⟩ vs := by
  simp [accArcs, h]

/-- one accumulation step as a state transformer -/
def bump (c : Cnt) (i s v : Nat) : Cnt := ⟨upd c.arc i (c.arc i + v), upd c.blk s (c.blk s + v)⟩

theorem bump_le (c : Cnt) (i s v : Nat) : c.le (bump c i s v) := by
  constructor <;> intro j <;> simp only [bump, upd] <;> split <;> simp_all

theorem bump_add (c u : Cnt) (i s v : Nat) : bump (c.add u) i s v = (bump c i s v).add u := by
  ext j <;> simp only [bump, Cnt.add, upd] <;> split <;> simp_all <;> omega

/-- counters only grow -/
theorem accArcs_mono (n : Nat) : ∀ (rest : List Arc) (i : Nat) (c : Cnt) (vs : List Nat) (r : Cnt),
    accArcs n i rest c vs = ok r → c.le r := by
  intro rest
  induction rest with
  | nil => intro i c vs r h; rw [accArcs_nil] at h; cases h; exact Cnt.le_refl _
  | cons a rest ih =>
    intro i c vs r h
    by_cases ht : a.onTree = true
    · rw [accArcs_tree _ _ _ _ _ ht] at h; exact ih _ _ _ _ h
    · have ht : a.onTree = false := by simpa using ht
      cases vs with
      | nil => rw [accArcs_short _ _ _ _ ht] at h; cases h
      | cons v vs =>
        rw [accArcs_real _ _ _ _ _ _ ht] at h
        split at h; · cases h
        split at h; · cases h
        split at h; · cases h
        exact Cnt.le_trans (bump_le c i a.src v) (ih _ _ _ _ h)

/-- every counter that was written fits -/
theorem accArcs_fits (n : Nat) : ∀ (rest : List Arc) (i : Nat) (c : Cnt) (vs : List Nat) (r : Cnt),
    accArcs n i rest c vs = ok r → c.Fits → r.Fits := by
  intro rest
  induction rest with
  | nil => intro i c vs r h hc; rw [accArcs_nil] at h; cases h; exact hc
  | cons a rest ih =>
    intro i c vs r h hc
    by_cases ht : a.onTree = true
    · rw [accArcs_tree _ _ _ _ _ ht] at h; exact ih _ _ _ _ h hc
    · have ht : a.onTree = false := by simpa using ht
      cases vs with
      | nil => rw [accArcs_short _ _ _ _ ht] at h; cases h
      | cons v vs =>
        rw [accArcs_real _ _ _ _ _ _ ht] at h
        split at h; · cases h
        split at h; · cases h
        split at h; · cases h
        refine ih _ _ _ _ h ?_
        constructor <;> intro j <;> simp only [upd] <;> split
        · omega
        · exact hc.1 j
        · omega
        · exact hc.2 j

/-- a run from `c + u` succeeds only if the run from `c` does, and differs from it by `u` -/
theorem accArcs_add_down (n : Nat) : ∀ (rest : List Arc) (i : Nat) (c u : Cnt) (vs : List Nat)
    (r : Cnt), accArcs n i rest (c.add u) vs = ok r →
      ∃ r0, accArcs n i rest c vs = ok r0 ∧ r = r0.add u := by
  intro rest
  induction rest with
  | nil => intro i c u vs r h; rw [accArcs_nil] at h; cases h; exact ⟨c, accArcs_nil .., rfl⟩
  | cons a rest ih =>
    intro i c u vs r h
    by_cases ht : a.onTree = true
    · rw [accArcs_tree _ _ _ _ _ ht] at h ⊢; exact ih _ _ _ _ _ h
    · have ht : a.onTree = false := by simpa using ht
      cases vs with
      | nil => rw [accArcs_short _ _ _ _ ht] at h; cases h
      | cons v vs =>
        rw [accArcs_real _ _ _ _ _ _ ht] at h ⊢
        split at h; · cases h
        split at h; · cases h
        split at h; · cases h
        rename_i h1 h2 h3
        simp only [Cnt.add] at h1 h3
        have e := bump_add c u i a.src v
        simp only [bump] at e
        rw [e] at h
        rw [if_neg (by omega), if_neg h2, if_neg (by omega)]
        exact ih _ _ _ _ _ h

/-- a successful run can be replayed from `c + u` as long as the result still fits -/
theorem accArcs_add_up (n : Nat) : ∀ (rest : List Arc) (i : Nat) (c u : Cnt) (vs : List Nat)
    (r0 : Cnt), accArcs n i rest c vs = ok r0 → (r0.add u).Fits →
      accArcs n i rest (c.add u) vs = ok (r0.add u) := by
  intro rest
  induction rest with
  | nil => intro i c u vs r0 h _; rw [accArcs_nil] at h ⊢; cases h; rfl
  | cons a rest ih =>
    intro i c u vs r0 h hf
    by_cases ht : a.onTree = true
    · rw [accArcs_tree _ _ _ _ _ ht] at h ⊢; exact ih _ _ _ _ _ h hf
    · have ht : a.onTree = false := by simpa using ht
      cases vs with
      | nil => rw [accArcs_short _ _ _ _ ht] at h; cases h
      | cons v vs =>
        rw [accArcs_real _ _ _ _ _ _ ht] at h ⊢
        split at h; · cases h
        split at h; · cases h
        split at h; · cases h
        rename_i h1 h2 h3
        have hm := accArcs_mono n _ _ _ _ _ h
        have m1 := hm.1 i
        have m2 := hm.2 a.src
        simp only [upd, if_true] at m1 m2
        have f1 := hf.1 i
        have f2 := hf.2 a.src
        simp only [Cnt.add] at f1 f2
        have e := bump_add c u i a.src v
        simp only [bump] at e
        have g1 : ¬ (c.add u).arc i + v > U64MAX := by simp only [Cnt.add]; omega
        have g3 : ¬ (c.add u).blk a.src + v > U64MAX := by simp only [Cnt.add]; omega
        rw [if_neg g1, if_neg h2, if_neg g3, e]
        exact ih _ _ _ _ _ h hf

/-! ### the record loop -/

/-- the non-recursive part of one `read_gcda` record: what happens to the current function and
to the state, or how the record fails -/
inductive RecStep where
  | next (cur : Option Nat)                 -- go on with this current function, state unchanged
  | acc (i : Nat) (f : Func) (vs : List Nat) -- accumulate `vs` on function `i`
  | fail (k : ErrKind)
  | boom (s : Site)                         -- the byte reader panics
  | bad                                     -- `functions[fun_id]` out of range (cannot happen)

def recStep (g : Notes) (cur : Option Nat) : DRec → RecStep
  | .func len id ls cs =>
    if len = 0 then .next cur
    else if len = 1 then .fail .headerLen
    else match identToFun g.funcs id with
      | none => .fail .fnIdent
      | some i =>
        match g.funcs[i]? with
        | none => .bad
        | some f =>
          if ls ≠ f.lineChecksum ∨ cs ≠ f.cfgChecksum then .fail .fnChecksum else .next (some i)
  | .arcs len vs =>
    match cur with
    | none => .next none
    | some i =>
      match g.funcs[i]? with
      | none => .bad
      | some f => if f.realEdgeCount % 4294967296 ≠ len / 2 then .fail .edgeCount else .acc i f vs
  | .other => .next cur
  | .fail k => .fail k
  | .crash s => .boom s

theorem goRecs_nil (g : Notes) (cur : Option Nat) (st : State) : goRecs g cur [] st = ok st := by
  simp [goRecs]

theorem goRecs_cons (g : Notes) (cur : Option Nat) (d : DRec) (rest : List DRec) (st : State) :
    goRecs g cur (d :: rest) st =
      match recStep g cur d with
      | .next cur' => goRecs g cur' rest st
      | .acc i f vs => (accArcs f.blocks.length 0 f.arcs (st i) vs).bind fun c =>
          goRecs g cur rest (st.set i c)
      | .fail k => err k
      | .boom s => crash s
      | .bad => crash .idxFunc := by
  cases d with
  | func len id ls cs =>
    simp only [goRecs, recStep]
    by_cases h0 : len = 0
    · simp [h0]
    by_cases h1 : len = 1
    · simp [h1]
    simp only [h0, h1, if_false]
    cases hi : identToFun g.funcs id with
    | none => simp
    | some i =>
      cases hf : g.funcs[i]? with
      | none => simp [hf]
      | some f =>
        simp only [hf]
        by_cases hc : ls ≠ f.lineChecksum ∨ cs ≠ f.cfgChecksum
        · simp only [hc, if_true]
        · simp only [hc, if_false]
  | arcs len vs =>
    cases cur with
    | none => simp [goRecs, recStep]
    | some i =>
      simp only [goRecs, recStep]
      cases hf : g.funcs[i]? with
      | none => simp
      | some f =>
        by_cases hc : f.realEdgeCount % 4294967296 = len / 2
        · simp [hc]
        · simp [hc]
  | other => simp [goRecs, recStep]
  | fail k => simp [goRecs, recStep]
  | crash s => simp [goRecs, recStep]

theorem goRecs_mono (g : Notes) : ∀ (recs : List DRec) (cur : Option Nat) (st r : State),
    goRecs g cur recs st = ok r → st.le r := by
  intro recs
  induction recs with
  | nil => intro cur st r h; rw [goRecs_nil] at h; cases h; exact State.le_refl _
  | cons d rest ih =>
    intro cur st r h
    rw [goRecs_cons] at h
    split at h
    · exact ih _ _ _ h
    · obtain ⟨c, hc, h⟩ := bind_eq_ok.1 h
      exact State.le_trans (State.set_le (accArcs_mono _ _ _ _ _ _ hc)) (ih _ _ _ h)
    · cases h
    · cases h
    · cases h

theorem State.set_Fits {st : State} {i : Nat} {c : Cnt} (hs : st.Fits) (hc : c.Fits) :
    (st.set i c).Fits := by
  intro j; simp only [State.set]; split
  · exact hc
  · exact hs j

theorem goRecs_fits (g : Notes) : ∀ (recs : List DRec) (cur : Option Nat) (st r : State),
    goRecs g cur recs st = ok r → st.Fits → r.Fits := by
  intro recs
  induction recs with
  | nil => intro cur st r h hs; rw [goRecs_nil] at h; cases h; exact hs
  | cons d rest ih =>
    intro cur st r h hs
    rw [goRecs_cons] at h
    split at h
    · exact ih _ _ _ h hs
    · obtain ⟨c, hc, h⟩ := bind_eq_ok.1 h
      exact ih _ _ _ h (State.set_Fits hs (accArcs_fits _ _ _ _ _ _ hc (hs _)))
    · cases h
    · cases h
    · cases h

theorem goRecs_add_down (g : Notes) : ∀ (recs : List DRec) (cur : Option Nat) (st u r : State),
    goRecs g cur recs (st.add u) = ok r → ∃ r0, goRecs g cur recs st = ok r0 ∧ r = r0.add u := by
  intro recs
  induction recs with
  | nil => intro cur st u r h; rw [goRecs_nil] at h; cases h; exact ⟨st, goRecs_nil .., rfl⟩
  | cons d rest ih =>
    intro cur st u r h
    rw [goRecs_cons] at h ⊢
    split at h
    · exact ih _ _ _ _ h
    · rename_i i f vs _
      obtain ⟨c, hc, h⟩ := bind_eq_ok.1 h
      obtain ⟨c0, hc0, e⟩ := accArcs_add_down _ _ _ _ _ _ _ hc
      subst e
      rw [← State.set_add] at h
      obtain ⟨r0, hr0, e⟩ := ih _ _ _ _ h
      exact ⟨r0, by simp only [hc0, bind_ok, hr0], e⟩
    · cases h
    · cases h
    · cases h

theorem goRecs_add_up (g : Notes) : ∀ (recs : List DRec) (cur : Option Nat) (st u r0 : State),
    goRecs g cur recs st = ok r0 → (r0.add u).Fits → goRecs g cur recs (st.add u) = ok (r0.add u) := by
  intro recs
  induction recs with
  | nil => intro cur st u r0 h _; rw [goRecs_nil] at h ⊢; cases h; rfl
  | cons d rest ih =>
    intro cur st u r0 h hf
    rw [goRecs_cons] at h ⊢
    split at h
    · exact ih _ _ _ _ h hf
    · rename_i i f vs _
      obtain ⟨c, hc, h⟩ := bind_eq_ok.1 h
      have hm := goRecs_mono _ _ _ _ _ h
      have hcf : (c.add (u i)).Fits := by
        have := State.Fits_of_le (State.add_le_add_right hm u) hf i
        simpa [State.add, State.set] using this
      have this : accArcs f.blocks.length 0 f.arcs ((st.add u) i) vs = ok (c.add (u i)) :=
        accArcs_add_up _ _ _ _ (u i) _ _ hc hcf
      simp only [this, bind_ok]
      rw [← State.set_add]
      exact ih _ _ _ _ h hf
    · cases h
    · cases h
    · cases h

/-! ### whole gcda files -/

theorem addGcda_mono {g : Notes} {st r : State} {d : Gcda} (h : addGcda g st d = ok r) : st.le r := by
  unfold addGcda at h
  split at h; · cases h
  split at h; · cases h
  exact goRecs_mono _ _ _ _ _ h

theorem addGcda_fits {g : Notes} {st r : State} {d : Gcda} (h : addGcda g st d = ok r)
    (hs : st.Fits) : r.Fits := by
  unfold addGcda at h
  split at h; · cases h
  split at h; · cases h
  exact goRecs_fits _ _ _ _ _ h hs

theorem addGcda_add_down {g : Notes} {st u r : State} {d : Gcda}
    (h : addGcda g (st.add u) d = ok r) : ∃ r0, addGcda g st d = ok r0 ∧ r = r0.add u := by
  unfold addGcda at h ⊢
  split at h; · cases h
  split at h; · cases h
  rename_i h1 h2
  rw [if_neg h1, if_neg h2]
  exact goRecs_add_down _ _ _ _ _ _ h

theorem addGcda_add_up {g : Notes} {st u r0 : State} {d : Gcda}
    (h : addGcda g st d = ok r0) (hf : (r0.add u).Fits) :
    addGcda g (st.add u) d = ok (r0.add u) := by
  unfold addGcda at h ⊢
  split at h; · cases h
  split at h; · cases h
  rename_i h1 h2
  rw [if_neg h1, if_neg h2]
  exact goRecs_add_up _ _ _ _ _ _ h hf

/-- **the increment of a gcda**: reading `d` on top of any fitting state `u` succeeds exactly
when it succeeds on the zero state with a result `Δ` such that `Δ + u` fits; the result is then
`Δ + u`. -/
theorem addGcda_iff {g : Notes} {u r : State} {d : Gcda} (hu : u.Fits) :
    addGcda g u d = ok r ↔
      ∃ Δ, addGcda g State.zero d = ok Δ ∧ r = Δ.add u ∧ r.Fits := by
  constructor
  · intro h
    have h' : addGcda g (State.zero.add u) d = ok r := by simpa using h
    obtain ⟨Δ, hΔ, e⟩ := addGcda_add_down h'
    exact ⟨Δ, hΔ, e, addGcda_fits h hu⟩
  · rintro ⟨Δ, hΔ, e, hf⟩
    subst e
    have := addGcda_add_up (u := u) hΔ hf
    simpa using this

theorem addGcdas_nil (g : Notes) (st : State) : addGcdas g st [] = ok st := rfl
theorem addGcdas_cons (g : Notes) (st : State) (d : Gcda) (ds : List Gcda) :
    addGcdas g st (d :: ds) = (addGcda g st d).bind fun s => addGcdas g s ds := rfl

theorem addGcdas_fits {g : Notes} : ∀ (ds : List Gcda) (st r : State),
    addGcdas g st ds = ok r → st.Fits → r.Fits := by
  intro ds
  induction ds with
  | nil => intro st r h hs; cases h; exact hs
  | cons d ds ih =>
    intro st r h hs
    rw [addGcdas_cons] at h
    obtain ⟨s, hs1, h⟩ := bind_eq_ok.1 h
    exact ih _ _ h (addGcda_fits hs1 hs)

/-- two gcda files can be read in either order -/
theorem addGcda_swap {g : Notes} {st s1 s2 : State} {d1 d2 : Gcda} (hst : st.Fits)
    (h1 : addGcda g st d1 = ok s1) (h2 : addGcda g s1 d2 = ok s2) :
    ∃ s1', addGcda g st d2 = ok s1' ∧ addGcda g s1' d1 = ok s2 := by
  have hs1 := addGcda_fits h1 hst
  have hs2 := addGcda_fits h2 hs1
  obtain ⟨Δ1, hΔ1, e1, _⟩ := (addGcda_iff hst).1 h1
  obtain ⟨Δ2, hΔ2, e2, _⟩ := (addGcda_iff hs1).1 h2
  subst e1
  have hle : (Δ2.add st).le s2 := by
    subst e2
    intro i
    constructor <;> intro j <;> simp only [State.add, Cnt.add] <;> omega
  have hf : (Δ2.add st).Fits := State.Fits_of_le hle hs2
  refine ⟨Δ2.add st, (addGcda_iff hst).2 ⟨Δ2, hΔ2, rfl, hf⟩, ?_⟩
  refine (addGcda_iff hf).2 ⟨Δ1, hΔ1, ?_, hs2⟩
  subst e2
  funext i
  ext j <;> simp only [State.add, Cnt.add] <;> omega

/-- the accumulated state does not depend on the order of the gcda files -/
theorem addGcdas_perm {g : Notes} {ds ds' : List Gcda} (p : ds.Perm ds') :
    ∀ (st r : State), st.Fits → addGcdas g st ds = ok r → addGcdas g st ds' = ok r := by
  induction p with
  | nil => intro st r _ h; exact h
  | cons d _ ih =>
    intro st r hs h
    rw [addGcdas_cons] at h ⊢
    obtain ⟨s, hs1, h⟩ := bind_eq_ok.1 h
    simp only [hs1, bind_ok]
    exact ih _ _ (addGcda_fits hs1 hs) h
  | swap d1 d2 l =>
    intro st r hs h
    simp only [addGcdas_cons] at h ⊢
    obtain ⟨s1, hs1, h⟩ := bind_eq_ok.1 h
    obtain ⟨s2, hs2, h⟩ := bind_eq_ok.1 h
    obtain ⟨s1', h1', h2'⟩ := addGcda_swap hs hs1 hs2
    simp only [h1', bind_ok, h2', h]
  | trans _ _ ih1 ih2 =>
    intro st r hs h
    exact ih2 _ _ hs (ih1 _ _ hs h)

theorem State.scale_succ_add (k : Nat) (Δ : State) : Δ.add (Δ.scale k) = Δ.scale (k + 1) := by
  funext i
  ext j <;> simp only [State.add, State.scale, Cnt.add, Cnt.scale] <;>
    rw [Nat.add_mul, Nat.one_mul, Nat.add_comm]

theorem State.scale_zero (Δ : State) : Δ.scale 0 = State.zero := by
  funext i
  ext j <;> simp [State.scale, Cnt.scale, State.zero, Cnt.zero]

theorem State.scale_one (Δ : State) : Δ.scale 1 = Δ := by
  funext i
  ext j <;> simp [State.scale, Cnt.scale]

/-- `k ≥ 1` copies of one gcda accumulate to `k` times its increment -/
theorem addGcdas_replicate {g : Notes} {d : Gcda} : ∀ (k : Nat) (r : State),
    addGcdas g State.zero (List.replicate (k + 1) d) = ok r →
      ∃ Δ, addGcda g State.zero d = ok Δ ∧ r = Δ.scale (k + 1) := by
  have gen : ∀ (k : Nat) (u r : State), u.Fits →
      addGcdas g u (List.replicate (k + 1) d) = ok r →
        ∃ Δ, addGcda g State.zero d = ok Δ ∧ r = (Δ.scale (k + 1)).add u := by
    intro k
    induction k with
    | zero =>
      intro u r hu h
      simp only [List.replicate, addGcdas_cons, addGcdas_nil] at h
      obtain ⟨s, hs, h⟩ := bind_eq_ok.1 h
      cases h
      obtain ⟨Δ, hΔ, e, _⟩ := (addGcda_iff hu).1 hs
      exact ⟨Δ, hΔ, by rw [e, State.scale_one]⟩
    | succ k ih =>
      intro u r hu h
      rw [List.replicate_succ, addGcdas_cons] at h
      obtain ⟨s, hs, h⟩ := bind_eq_ok.1 h
      obtain ⟨Δ, hΔ, e, hsf⟩ := (addGcda_iff hu).1 hs
      obtain ⟨Δ', hΔ', e'⟩ := ih _ _ hsf h
      rw [hΔ] at hΔ'; cases hΔ'
      refine ⟨Δ, hΔ, ?_⟩
      rw [e', e, ← State.add_assoc, State.add_comm (Δ.scale (k + 1)) Δ, State.scale_succ_add]
  intro k r h
  obtain ⟨Δ, hΔ, e⟩ := gen k _ _ State.zero_Fits h
  exact ⟨Δ, hΔ, by simpa using e⟩

/-! ### mismatching gcda files -/

/-- a function record that does not match the notes: bad length, unknown identifier, or a line /
cfg checksum that differs from the function's; or a failure of the byte reader inside a record -/
def BadFnRec (g : Notes) : DRec → Prop
  | .func len id ls cs =>
    len ≠ 0 ∧ (len = 1 ∨ match identToFun g.funcs id with
      | none => True
      | some i => match g.funcs[i]? with
        | none => True
        | some f => ls ≠ f.lineChecksum ∨ cs ≠ f.cfgChecksum)
  | .fail _ => True
  | _ => False

/-- a gcda that must not be mixed in -/
def Mismatch (g : Notes) (d : Gcda) : Prop :=
  d.version ≠ g.version ∨ d.checksum ≠ g.checksum ∨ ∃ rec ∈ d.recs, BadFnRec g rec

theorem recStep_bad {g : Notes} {cur : Option Nat} {rec : DRec} (hbad : BadFnRec g rec) :
    (∃ k, recStep g cur rec = .fail k) ∨ recStep g cur rec = .bad := by
  cases rec with
  | func len id ls cs =>
    obtain ⟨h0, hb⟩ := hbad
    simp only [recStep, h0, if_false]
    by_cases h1 : len = 1
    · simp [h1]
    · simp only [h1, if_false]
      have hb := hb.resolve_left h1
      cases hi : identToFun g.funcs id with
      | none => simp
      | some i =>
        rw [hi] at hb; simp only at hb ⊢
        cases hf : g.funcs[i]? with
        | none => simp
        | some f => rw [hf] at hb; simp only at hb ⊢; simp [hb]
  | arcs len vs => exact absurd hbad (by simp [BadFnRec])
  | other => exact absurd hbad (by simp [BadFnRec])
  | fail k => simp [recStep]
  | crash s => exact absurd hbad (by simp [BadFnRec])

theorem goRecs_ok_no_bad (g : Notes) : ∀ (recs : List DRec) (cur : Option Nat) (st r : State),
    goRecs g cur recs st = ok r → ∀ rec ∈ recs, ¬ BadFnRec g rec := by
  intro recs
  induction recs with
  | nil => intro cur st r _ rec hrec; cases hrec
  | cons d rest ih =>
    intro cur st r h rec hrec
    rw [goRecs_cons] at h
    rcases List.mem_cons.1 hrec with e | hmem
    · subst e
      intro hbad
      rcases recStep_bad (cur := cur) hbad with ⟨k, hk⟩ | hk <;> rw [hk] at h <;> cases h
    · split at h
      · exact ih _ _ _ h rec hmem
      · obtain ⟨c, _, h2⟩ := bind_eq_ok.1 h
        exact ih _ _ _ h2 rec hmem
      · cases h
      · cases h
      · cases h

end Grcov.Gcno
