/-
Lemmas for the FLOAT part of `Writers/MdBytes.lean`, over exact rationals (core Lean's `Rat`, no
Mathlib): one IEEE rounding (`roundTo`) has relative error ≤ 2^-prec (`roundTo_close`; `Close v x P`
is `|v − x| ≤ x/P` written without absolute value and division), integers below 2^prec convert
exactly (`ofNat_exact`), hence the f32 percentage of markdown is within 2·10⁻⁵ of 100·c/t for
totals below 2^24 (`mdPct32_close`; 2.5·10⁻⁵ for ALL totals, `mdPct32_close_all`: beyond 2^24 the
conversions round too) and the f64 percentage of coverage.json within 10⁻⁹ for all totals
(`htmlPct64_close_all`); `{:.p$}` prints the digits of the value rounded to p places
(`parseDec_fmtFixed`, `fixedDigits_close`), so the printed figure is `printedOK`
(`Stats/Printed.lean`) for the exact rate, and at most 100 for p ≤ 4.
The integer facts (`rhe_close`, `roundTo_cross`, `ulpExp_lower`) are cross-multiplied statements on
naturals; the chain of roundings is linear arithmetic over `Rat` (`grind`).
-/
import GrcovModel.Writers.MdBytes
import GrcovModel.Stats.Printed
import GrcovModel.Lemmas.WritersMdBytes
namespace Grcov.Writers.MdBytes

theorem int_cases (e : Int) : (∃ k : Nat, e = (k : Int)) ∨ (∃ k : Nat, e = -((k : Int) + 1)) := by
  by_cases h : 0 ≤ e
  · exact Or.inl ⟨e.toNat, by omega⟩
  · exact Or.inr ⟨(-e - 1).toNat, by omega⟩

theorem den_pos (x : Fl) : 0 < x.den := by
  unfold Fl.den; split <;> simp [Nat.pow_pos]

theorem scaleD_pos (d : Nat) (hd : 0 < d) (e : Int) : 0 < scaleD d e := by
  unfold scaleD; split
  · exact Nat.mul_pos hd (Nat.pow_pos (by omega))
  · exact hd

theorem scaleN_pos (n : Nat) (hn : 0 < n) (e : Int) : 0 < scaleN n e := by
  unfold scaleN; split
  · exact hn
  · exact Nat.mul_pos hn (Nat.pow_pos (by omega))

/-- round-half-even is within 1/2: `|R − N/D| ≤ 1/2`, cross-multiplied -/
theorem rhe_close (N D : Nat) (hD : 0 < D) :
    2 * (rhe N D * D) ≤ 2 * N + D ∧ 2 * N ≤ 2 * (rhe N D * D) + D := by
  have hdm := Nat.div_add_mod N D
  have hr := Nat.mod_lt N hD
  unfold rhe
  split
  · rename_i h
    have h2 : D ≤ 2 * (N % D) := by omega
    rw [Nat.add_mul, Nat.one_mul, Nat.mul_comm (N / D) D]
    generalize D * (N / D) = X at *
    omega
  · rename_i h
    have h2 : 2 * (N % D) ≤ D := by omega
    rw [Nat.mul_comm (N / D) D]
    generalize D * (N / D) = X at *
    omega

/-- the value of the rounded result against the scaled integer: `val = R · (n·D)/(d·N)` -/
theorem roundTo_cross (prec n d : Nat) (hn : 0 < n) (hd : 0 < d) :
    (roundTo prec n d).num * (d * scaleN n (ulpExp prec n d)) =
      rhe (scaleN n (ulpExp prec n d)) (scaleD d (ulpExp prec n d)) * n * scaleD d (ulpExp prec n d) *
        (roundTo prec n d).den := by
  have hnd : ¬ (n = 0 ∨ d = 0) := by omega
  simp only [roundTo, hnd, if_false]
  generalize ulpExp prec n d = e
  generalize hR : rhe (scaleN n e) (scaleD d e) = R
  unfold Fl.num Fl.den scaleN scaleD at *
  by_cases h : 0 ≤ e
  · simp only [h, if_true] at *
    grind
  · simp only [h, if_false] at *
    grind

/-- at the first candidate exponent the scaled value exceeds `2^(prec-1)` -/
theorem ulp0_lower (prec n d : Nat) (hn : 0 < n) (e0 : Int)
    (he0 : e0 = (n.log2 : Int) - (d.log2 : Int) - (prec : Int)) :
    2 ^ prec * scaleD d e0 < 2 * scaleN n e0 := by
  have h1 : 2 ^ n.log2 ≤ n := Nat.log2_self_le (by omega)
  have h2 : d < 2 ^ (d.log2 + 1) := Nat.lt_log2_self
  unfold scaleD scaleN
  by_cases h : 0 ≤ e0
  · simp only [h, if_true]
    -- k = ln - ld - prec ≥ 0
    have hk : n.log2 = prec + e0.toNat + d.log2 := by omega
    calc 2 ^ prec * (d * 2 ^ e0.toNat) = d * (2 ^ prec * 2 ^ e0.toNat) := by grind
      _ < 2 ^ (d.log2 + 1) * (2 ^ prec * 2 ^ e0.toNat) :=
          Nat.mul_lt_mul_of_pos_right h2 (Nat.mul_pos (Nat.pow_pos (by omega)) (Nat.pow_pos (by omega)))
      _ = 2 * 2 ^ n.log2 := by rw [hk]; simp only [Nat.pow_add, Nat.pow_one]; grind
      _ ≤ 2 * n := Nat.mul_le_mul_left _ h1
  · simp only [h, if_false]
    have hk : prec + d.log2 = (-e0).toNat + n.log2 := by omega
    calc 2 ^ prec * d < 2 ^ prec * 2 ^ (d.log2 + 1) := Nat.mul_lt_mul_of_pos_left h2 (Nat.pow_pos (by omega))
      _ = 2 * 2 ^ (prec + d.log2) := by simp only [Nat.pow_add, Nat.pow_one]; grind
      _ = 2 * (2 ^ (-e0).toNat * 2 ^ n.log2) := by rw [hk, Nat.pow_add]
      _ ≤ 2 * (n * 2 ^ (-e0).toNat) := by
          rw [Nat.mul_comm n]
          exact Nat.mul_le_mul_left _ (Nat.mul_le_mul_left _ h1)

/-- one step of the exponent halves the scaled value: `N'/D' = N/(2D)` -/
theorem scale_succ (n d : Nat) (e : Int) :
    scaleN n (e + 1) * (2 * scaleD d e) = scaleN n e * scaleD d (e + 1) := by
  unfold scaleN scaleD
  rcases int_cases e with ⟨k, rfl⟩ | ⟨k, rfl⟩
  · have h1 : (0 : Int) ≤ (k : Int) := by omega
    have h2 : (0 : Int) ≤ (k : Int) + 1 := by omega
    have h3 : ((k : Int) + 1).toNat = k + 1 := by omega
    simp only [h1, h2, if_true, h3, Int.toNat_natCast, Nat.pow_succ]
    grind
  · rcases Nat.eq_zero_or_pos k with rfl | hk
    · simp
      grind
    · have h1 : ¬ (0 : Int) ≤ -((k : Int) + 1) := by omega
      have h2 : ¬ (0 : Int) ≤ -((k : Int) + 1) + 1 := by omega
      have h3 : (-(-((k : Int) + 1))).toNat = k + 1 := by omega
      have h4 : (-(-((k : Int) + 1) + 1)).toNat = k := by omega
      simp only [h1, h2, if_false, h3, h4, Nat.pow_succ]
      grind

/-- the result has `prec` significant bits: the scaled value is at least `2^(prec-1)` -/
theorem ulpExp_lower (prec n d : Nat) (hn : 0 < n) (hd : 0 < d) :
    2 ^ prec * scaleD d (ulpExp prec n d) ≤ 2 * scaleN n (ulpExp prec n d) := by
  have h0 := ulp0_lower prec n d hn _ rfl
  unfold ulpExp
  simp only
  generalize (n.log2 : Int) - (d.log2 : Int) - (prec : Int) = e0 at *
  split
  · exact Nat.le_of_lt h0
  · rename_i hq
    have hq' : 2 ^ prec ≤ scaleN n e0 / scaleD d e0 := Nat.le_of_not_lt hq
    have hD := scaleD_pos d hd e0
    have hle : 2 ^ prec * scaleD d e0 ≤ scaleN n e0 :=
      Nat.le_trans (Nat.mul_le_mul_right _ hq') (Nat.div_mul_le_self _ _)
    have hs := scale_succ n d e0
    -- 2^prec · D' · (2 D0) ≤ 2 N' (2 D0)  ⇐  2^prec D0 D' ≤ N0 D' = N' 2 D0
    apply Nat.le_of_mul_le_mul_right (c := 2 * scaleD d e0) _ (by omega)
    calc 2 ^ prec * scaleD d (e0 + 1) * (2 * scaleD d e0)
        = 2 * (2 ^ prec * scaleD d e0 * scaleD d (e0 + 1)) := by grind
      _ ≤ 2 * (scaleN n e0 * scaleD d (e0 + 1)) := Nat.mul_le_mul_left _ (Nat.mul_le_mul_right _ hle)
      _ = 2 * scaleN n (e0 + 1) * (2 * scaleD d e0) := by rw [← hs]; grind

/-! ## values as rationals (core `Rat`) -/

/-- the value of a float -/
def Fl.val (x : Fl) : Rat := (x.num : Rat) / (x.den : Rat)

/-- `|v − x| ≤ x / P` without absolute values and division -/
def Close (v x P : Rat) : Prop := (v - x) * P ≤ x ∧ (x - v) * P ≤ x

theorem natCast_pos' {n : Nat} (h : 0 < n) : (0 : Rat) < (n : Rat) := by exact_mod_cast h
theorem natCast_ne' {n : Nat} (h : 0 < n) : (n : Rat) ≠ 0 := by
  have := natCast_pos' h
  grind

theorem val_mul_den (x : Fl) : x.val * (x.den : Rat) = (x.num : Rat) := by
  have := natCast_ne' (den_pos x)
  unfold Fl.val
  grind

theorem val_nonneg (x : Fl) : 0 ≤ x.val := by
  have h1 : (0 : Rat) ≤ (x.num : Rat) := by exact_mod_cast Nat.zero_le _
  have h2 := natCast_pos' (den_pos x)
  rw [Fl.val, Rat.div_def]
  exact Rat.mul_nonneg h1 (Rat.le_of_lt (Rat.inv_pos.2 h2))

theorem core_R (v x Rr N D P : Rat) (hx : 0 ≤ x) (hN : 0 < N) (hP : 0 < P) (k1 : v * N = x * (Rr * D))
    (b1 : 2 * (Rr * D) ≤ 2 * N + D) (b2 : 2 * N ≤ 2 * (Rr * D) + D) (c : P * D ≤ 2 * N) : Close v x P := by
  have m1 := Rat.mul_le_mul_of_nonneg_left b1 hx
  have m2 := Rat.mul_le_mul_of_nonneg_left b2 hx
  have m3 := Rat.mul_le_mul_of_nonneg_left c hx
  have e1 : 2 * (v - x) * N ≤ x * D := by grind
  have e2 : 2 * (x - v) * N ≤ x * D := by grind
  have f1 := Rat.mul_le_mul_of_nonneg_right e1 (Rat.le_of_lt hP)
  have f2 := Rat.mul_le_mul_of_nonneg_right e2 (Rat.le_of_lt hP)
  have h2N : 0 < 2 * N := by grind
  constructor
  · apply Rat.le_of_mul_le_mul_right (c := 2 * N) _ h2N
    grind
  · apply Rat.le_of_mul_le_mul_right (c := 2 * N) _ h2N
    grind

theorem two_pow_cast (k : Nat) : ((2 ^ k : Nat) : Rat) = (2 : Rat) ^ k := by push_cast; rfl

theorem two_pow_pos (k : Nat) : (0 : Rat) < (2 : Rat) ^ k := Rat.pow_pos (by decide)

/-- ONE rounding: the relative error is at most `2^-prec` -/
theorem roundTo_close (prec n d : Nat) (hn : 0 < n) (hd : 0 < d) :
    Close (roundTo prec n d).val ((n : Rat) / d) ((2 : Rat) ^ prec) := by
  have hx := roundTo_cross prec n d hn hd
  have hl := ulpExp_lower prec n d hn hd
  generalize ulpExp prec n d = e at hx hl
  have hD := scaleD_pos d hd e
  have hN := scaleN_pos n hn e
  have hb := rhe_close (scaleN n e) (scaleD d e) hD
  generalize rhe (scaleN n e) (scaleD d e) = R at hx hb
  generalize scaleN n e = N at *
  generalize scaleD d e = D at *
  have hden := den_pos (roundTo prec n d)
  have hvd := val_mul_den (roundTo prec n d)
  generalize (roundTo prec n d).val = v at *
  generalize (roundTo prec n d).num = num at *
  generalize (roundTo prec n d).den = den at *
  have hdq := natCast_ne' hd
  have hdenq := natCast_ne' hden
  have hxq : (num : Rat) * ((d : Rat) * N) = R * n * D * den := by exact_mod_cast hx
  have hlq : (2 : Rat) ^ prec * (D : Rat) ≤ 2 * N := by rw [← two_pow_cast]; exact_mod_cast hl
  have hb1 : 2 * ((R : Rat) * D) ≤ 2 * N + D := by exact_mod_cast hb.1
  have hb2 : 2 * (N : Rat) ≤ 2 * (R * D) + D := by exact_mod_cast hb.2
  have hx0 : (0 : Rat) ≤ (n : Rat) / d := by
    have h1 := natCast_pos' hn
    have h2 := natCast_pos' hd
    have : (0 : Rat) < (n : Rat) / d := by
      rw [Rat.div_def]; exact Rat.mul_pos h1 (Rat.inv_pos.2 h2)
    exact Rat.le_of_lt this
  apply core_R v _ (R : Rat) (N : Rat) (D : Rat) _ hx0 (natCast_pos' hN) (two_pow_pos prec) _ hb1 hb2 hlq
  -- v * N = n/d * (R * D)
  have h1 : v * ((d : Rat) * N) = R * n * D := by
    have : v * (den : Rat) * ((d : Rat) * N) = R * n * D * den := by rw [hvd]; exact hxq
    have e : v * ((d : Rat) * N) = (R * n * D * den) / den := by grind
    grind
  grind

theorem roundTo_zero (prec d : Nat) : roundTo prec 0 d = ⟨0, 0⟩ := by simp [roundTo]

theorem zero_val : (⟨0, 0⟩ : Fl).val = 0 := by simp [Fl.val, Fl.num, Rat.div_def]

/-- integers below `2^prec` convert exactly -/
theorem ofNat_exact (prec n : Nat) (h : n < 2 ^ prec) : (Fl.ofNat prec n).val = n := by
  unfold Fl.ofNat
  rcases Nat.eq_zero_or_pos n with rfl | hn
  · simp [roundTo_zero, zero_val]
  have hx := roundTo_cross prec n 1 hn (by omega)
  have hlog : n.log2 < prec := (Nat.log2_lt (by omega)).2 h
  have hle : ulpExp prec n 1 ≤ 0 := by
    have h1 : (1 : Nat).log2 = 0 := by decide
    unfold ulpExp; simp only [h1]; split <;> omega
  generalize ulpExp prec n 1 = e at hx hle
  have hD : scaleD 1 e = 1 := by
    unfold scaleD
    split
    · have : e = 0 := by omega
      simp [this]
    · rfl
  have hr : rhe (scaleN n e) 1 = scaleN n e := by simp [rhe, Nat.mod_one]
  rw [hD, hr] at hx
  have hN := scaleN_pos n hn e
  generalize scaleN n e = N at *
  have hvd := val_mul_den (roundTo prec n 1)
  have hden := natCast_ne' (den_pos (roundTo prec n 1))
  generalize (roundTo prec n 1).val = v at *
  generalize (roundTo prec n 1).num = num at *
  generalize (roundTo prec n 1).den = den at *
  -- num * (1 * N) = N * n * 1 * den  →  num = n * den
  have h1 : num = n * den := by
    apply Nat.eq_of_mul_eq_mul_right hN
    grind
  have h1q : (num : Rat) = (n : Rat) * den := by exact_mod_cast h1
  have : v * (den : Rat) = (n : Rat) * den := by rw [hvd, h1q]
  have e : v = ((n : Rat) * den) / den := by grind
  grind

theorem val_zero_of_num_zero (x : Fl) (h : x.num = 0) : x.val = 0 := by
  simp [Fl.val, h, Rat.div_def]

theorem num_pos_of_val_pos (x : Fl) (h : 0 < x.val) : 0 < x.num := by
  rcases Nat.eq_zero_or_pos x.num with h0 | h0
  · rw [val_zero_of_num_zero x h0] at h
    exact absurd h (by decide)
  · exact h0

theorem close_zero (P : Rat) : Close 0 0 P := by
  unfold Close; constructor <;> grind

theorem mul_close (prec : Nat) (a b : Fl) :
    Close (Fl.mul prec a b).val (a.val * b.val) ((2 : Rat) ^ prec) := by
  unfold Fl.mul
  rcases Nat.eq_zero_or_pos (a.num * b.num) with h0 | h0
  · rw [h0, roundTo_zero, zero_val]
    rcases Nat.mul_eq_zero.1 h0 with h | h
    · simp [val_zero_of_num_zero a h, close_zero]
    · simp [val_zero_of_num_zero b h, close_zero]
  · have := roundTo_close prec (a.num * b.num) (a.den * b.den) h0 (Nat.mul_pos (den_pos a) (den_pos b))
    have ha := natCast_ne' (den_pos a)
    have hb := natCast_ne' (den_pos b)
    have e : ((a.num * b.num : Nat) : Rat) / ((a.den * b.den : Nat) : Rat) = a.val * b.val := by
      unfold Fl.val; push_cast; grind
    rwa [e] at this

theorem div_close (prec : Nat) (a b : Fl) (hb : 0 < b.num) :
    Close (Fl.div prec a b).val (a.val / b.val) ((2 : Rat) ^ prec) := by
  unfold Fl.div
  rcases Nat.eq_zero_or_pos (a.num * b.den) with h0 | h0
  · rw [h0, roundTo_zero, zero_val]
    rcases Nat.mul_eq_zero.1 h0 with h | h
    · simp [val_zero_of_num_zero a h, close_zero, Rat.div_def]
    · have := den_pos b; omega
  · have := roundTo_close prec (a.num * b.den) (a.den * b.num) h0 (Nat.mul_pos (den_pos a) hb)
    have hbn := natCast_ne' hb
    have hbd := natCast_ne' (den_pos b)
    have had := natCast_ne' (den_pos a)
    have e : ((a.num * b.den : Nat) : Rat) / ((a.den * b.num : Nat) : Rat) = a.val / b.val := by
      unfold Fl.val; push_cast; grind
    rwa [e] at this

/-- two roundings in a row: `|q − Z| ≤ Z (2/P + 1/P²)` -/
theorem two_roundings (Z W q P : Rat) (hP : 0 < P) (h1 : Close W Z P) (h2 : Close q W P) :
    (q - Z) * (P * P) ≤ Z * (2 * P + 1) ∧ (Z - q) * (P * P) ≤ Z * (2 * P + 1) := by
  obtain ⟨a1, a2⟩ := h1
  obtain ⟨b1, b2⟩ := h2
  have hP' := Rat.le_of_lt hP
  have c1 := Rat.mul_le_mul_of_nonneg_right a1 hP'
  have c2 := Rat.mul_le_mul_of_nonneg_right a2 hP'
  have d1 := Rat.mul_le_mul_of_nonneg_right b1 hP'
  have d2 := Rat.mul_le_mul_of_nonneg_right b2 hP'
  constructor <;> grind

theorem fl100_val : fl100.val = 100 := by
  simp only [fl100, Fl.val, Fl.num, Fl.den]
  decide +kernel

theorem close_div (B Y t P : Rat) (ht : 0 < t) (h : Close B Y P) : Close (B / t) (Y / t) P := by
  obtain ⟨h1, h2⟩ := h
  have hi := Rat.le_of_lt (Rat.inv_pos.2 ht)
  have c1 := Rat.mul_le_mul_of_nonneg_right h1 hi
  have c2 := Rat.mul_le_mul_of_nonneg_right h2 hi
  simp only [Close, Rat.div_def]
  constructor <;> grind

theorem close_mul (B Y k P : Rat) (hk : 0 ≤ k) (h : Close B Y P) : Close (B * k) (Y * k) P := by
  obtain ⟨h1, h2⟩ := h
  have c1 := Rat.mul_le_mul_of_nonneg_right h1 hk
  have c2 := Rat.mul_le_mul_of_nonneg_right h2 hk
  simp only [Close]
  constructor <;> grind

theorem ratio_le_100 (c t : Nat) (hct : c ≤ t) (ht0 : 0 < t) : 100 * (c : Rat) / t ≤ 100 ∧ 0 ≤ 100 * (c : Rat) / t := by
  have htq := natCast_pos' ht0
  have hcq : (c : Rat) ≤ t := by exact_mod_cast hct
  have hc0 : (0 : Rat) ≤ c := by exact_mod_cast Nat.zero_le c
  have hi := Rat.le_of_lt (Rat.inv_pos.2 htq)
  have c1 := Rat.mul_le_mul_of_nonneg_right hcq hi
  have c2 := Rat.mul_le_mul_of_nonneg_right hc0 hi
  have htne : (t : Rat) ≠ 0 := by grind
  simp only [Rat.div_def]
  constructor <;> grind

/-- the f32 percentage of markdown is within 2·10⁻⁵ of the exact one, for totals below 2^24 -/
theorem mdPct32_close (c t : Nat) (hct : c ≤ t) (ht0 : 0 < t) (ht : t < 2 ^ 24) :
    (mdPct32 c t).val - 100 * (c : Rat) / t ≤ 2 / 10 ^ 5 ∧ 100 * (c : Rat) / t - (mdPct32 c t).val ≤ 2 / 10 ^ 5 := by
  have hc : c < 2 ^ 24 := by omega
  have hA := ofNat_exact 24 c hc
  have hT := ofNat_exact 24 t ht
  have htq := natCast_pos' ht0
  have hTn : 0 < (Fl.ofNat 24 t).num := num_pos_of_val_pos _ (by rw [hT]; exact htq)
  unfold mdPct32
  rw [if_neg (by omega)]
  have h1 := mul_close 24 (Fl.ofNat 24 c) fl100
  have h2 := div_close 24 (Fl.mul 24 (Fl.ofNat 24 c) fl100) (Fl.ofNat 24 t) hTn
  rw [hA, fl100_val] at h1
  rw [hT] at h2
  generalize (Fl.mul 24 (Fl.ofNat 24 c) fl100).val = B at *
  generalize (Fl.div 24 (Fl.mul 24 (Fl.ofNat 24 c) fl100) (Fl.ofNat 24 t)).val = q at *
  have h1' := close_div _ _ _ _ htq h1
  have hP : (2 : Rat) ^ 24 = 16777216 := by decide +kernel
  rw [hP] at h1' h2
  have := two_roundings _ _ _ _ (by decide) h1' h2
  obtain ⟨r1, r2⟩ := ratio_le_100 c t hct ht0
  have e : (c : Rat) * 100 / t = 100 * (c : Rat) / t := by grind
  rw [e] at this
  generalize 100 * (c : Rat) / t = Z at *
  constructor <;> grind

/-- the f64 percentage of coverage.json is within 10⁻⁹ of the exact one, for totals below 2^53 -/
theorem htmlPct64_close (c t : Nat) (hct : c ≤ t) (ht0 : 0 < t) (ht : t < 2 ^ 53) :
    (htmlPct64 c t).val - 100 * (c : Rat) / t ≤ 1 / 10 ^ 9 ∧ 100 * (c : Rat) / t - (htmlPct64 c t).val ≤ 1 / 10 ^ 9 := by
  have hc : c < 2 ^ 53 := by omega
  have hA := ofNat_exact 53 c hc
  have hT := ofNat_exact 53 t ht
  have htq := natCast_pos' ht0
  have hTn : 0 < (Fl.ofNat 53 t).num := num_pos_of_val_pos _ (by rw [hT]; exact htq)
  unfold htmlPct64
  rw [if_pos (by omega)]
  have h1 := div_close 53 (Fl.ofNat 53 c) (Fl.ofNat 53 t) hTn
  have h2 := mul_close 53 (Fl.div 53 (Fl.ofNat 53 c) (Fl.ofNat 53 t)) fl100
  rw [hA, hT] at h1
  rw [fl100_val] at h2
  generalize (Fl.div 53 (Fl.ofNat 53 c) (Fl.ofNat 53 t)).val = q1 at *
  generalize (Fl.mul 53 (Fl.div 53 (Fl.ofNat 53 c) (Fl.ofNat 53 t)) fl100).val = r at *
  have h1' := close_mul _ _ 100 _ (by decide) h1
  have hP : (2 : Rat) ^ 53 = 9007199254740992 := by decide +kernel
  rw [hP] at h1' h2
  have := two_roundings _ _ _ _ (by decide) h1' h2
  obtain ⟨r1, r2⟩ := ratio_le_100 c t hct ht0
  have e : (c : Rat) / t * 100 = 100 * (c : Rat) / t := by grind
  rw [e] at this
  generalize 100 * (c : Rat) / t = Z at *
  constructor <;> grind
/-! ## all totals: the conversions round too (four roundings) -/

/-- `Close` as two product inequalities: `v·P ≤ x·(P+1)` and `x·(P−1) ≤ v·P` -/
theorem close_prod {v x P : Rat} (h : Close v x P) : v * P ≤ x * (P + 1) ∧ x * (P - 1) ≤ v * P := by
  obtain ⟨h1, h2⟩ := h
  constructor <;> grind

theorem nonneg_of_close {v x P : Rat} (hP : 1 < P) (hx : 0 ≤ x) (h : Close v x P) : 0 ≤ v := by
  obtain ⟨_, h2⟩ := close_prod h
  have hPm : 0 ≤ P - 1 := by grind
  have := Rat.mul_nonneg hx hPm
  exact Rat.le_of_mul_le_mul_right (a := 0) (b := v) (c := P) (by grind) (by grind)

theorem ofNat_close (prec n : Nat) : Close (Fl.ofNat prec n).val (n : Rat) ((2 : Rat) ^ prec) := by
  unfold Fl.ofNat
  rcases Nat.eq_zero_or_pos n with rfl | hn
  · rw [roundTo_zero, zero_val]; exact close_zero _
  · have := roundTo_close prec n 1 hn (by omega)
    have e : (n : Rat) / ((1 : Nat) : Rat) = n := by
      have : ((1 : Nat) : Rat) = 1 := rfl
      rw [this]; grind
    rwa [e] at this

theorem chain_core (c t A B T q W P : Rat) (hP0 : 0 < P) (hPm : 0 ≤ P - 1) (hPp : 0 ≤ P + 1) (ht : 0 < t) (hW0 : 0 ≤ W)
    (a1 : A * P ≤ c * (P + 1)) (a2 : c * (P - 1) ≤ A * P)
    (b1 : B * P ≤ A * 100 * (P + 1)) (b2 : A * 100 * (P - 1) ≤ B * P)
    (t1 : T * P ≤ t * (P + 1)) (t2 : t * (P - 1) ≤ T * P)
    (q1 : q * P ≤ W * (P + 1)) (q2 : W * (P - 1) ≤ q * P) (hWT : W * T = B) :
    q * (t * (P * P * (P - 1))) ≤ 100 * c * ((P + 1) * (P + 1) * (P + 1)) ∧
    100 * c * ((P - 1) * (P - 1) * (P - 1)) ≤ q * (t * (P * P * (P + 1))) := by
  have e1 : W * (T * P) = B * P := by rw [← hWT, Rat.mul_assoc]
  have hP0' := Rat.le_of_lt hP0
  have h100 : (0 : Rat) ≤ 100 := by decide
  constructor
  · have s1 := Rat.mul_le_mul_of_nonneg_left t2 hW0
    rw [e1] at s1
    -- W t (P-1) ≤ B P ≤ 100 A (P+1)
    have s2 : W * (t * (P - 1)) ≤ A * 100 * (P + 1) := Rat.le_trans s1 b1
    have s3 := Rat.mul_le_mul_of_nonneg_right s2 hP0'
    have s4 := Rat.mul_le_mul_of_nonneg_right a1 (Rat.mul_nonneg h100 hPp)
    have s5 : W * (t * (P - 1)) * P ≤ c * (P + 1) * (100 * (P + 1)) := by grind
    have s6 := Rat.mul_le_mul_of_nonneg_right s5 hPp
    have s7 := Rat.mul_le_mul_of_nonneg_right q1 (Rat.mul_nonneg (Rat.mul_nonneg (Rat.le_of_lt ht) hPm) hP0')
    grind
  · have s1 := Rat.mul_le_mul_of_nonneg_left t1 hW0
    rw [e1] at s1
    have s2 : A * 100 * (P - 1) ≤ W * (t * (P + 1)) := Rat.le_trans b2 s1
    have s3 := Rat.mul_le_mul_of_nonneg_right s2 hP0'
    have s4 := Rat.mul_le_mul_of_nonneg_right a2 (Rat.mul_nonneg h100 hPm)
    have s5 : c * (P - 1) * (100 * (P - 1)) ≤ W * (t * (P + 1)) * P := by grind
    have s6 := Rat.mul_le_mul_of_nonneg_right s5 hPm
    have s7 := Rat.mul_le_mul_of_nonneg_right q2 (Rat.mul_nonneg (Rat.mul_nonneg (Rat.le_of_lt ht) hPp) hP0')
    grind

/-- the f32 percentage of markdown for ALL totals: four roundings -/
theorem md_chain (c t A B T q P : Rat) (hP : 1 < P) (hc : 0 ≤ c) (ht : 0 < t) (hT : 0 < T)
    (hA : Close A c P) (hB : Close B (A * 100) P) (hT' : Close T t P) (hq : Close q (B / T) P) :
    q * (t * (P * P * (P - 1))) ≤ 100 * c * ((P + 1) * (P + 1) * (P + 1)) ∧
    100 * c * ((P - 1) * (P - 1) * (P - 1)) ≤ q * (t * (P * P * (P + 1))) := by
  have hA0 := nonneg_of_close hP hc hA
  have hB0 := nonneg_of_close hP (Rat.mul_nonneg hA0 (by decide)) hB
  obtain ⟨a1, a2⟩ := close_prod hA
  obtain ⟨b1, b2⟩ := close_prod hB
  obtain ⟨t1, t2⟩ := close_prod hT'
  obtain ⟨q1, q2⟩ := close_prod hq
  have hTne : T ≠ 0 := by grind
  have hWT : B / T * T = B := by grind
  have hW0 : 0 ≤ B / T := by
    rw [Rat.div_def]; exact Rat.mul_nonneg hB0 (Rat.le_of_lt (Rat.inv_pos.2 hT))
  exact chain_core c t A B T q (B / T) P (by grind) (by grind) (by grind) ht hW0 a1 a2 b1 b2 t1 t2 q1 q2 hWT

theorem chain_core_html (c t A T q1 r W P : Rat) (hP0 : 0 < P) (hPm : 0 ≤ P - 1) (hPp : 0 ≤ P + 1) (ht : 0 < t) (hW0 : 0 ≤ W)
    (a1 : A * P ≤ c * (P + 1)) (a2 : c * (P - 1) ≤ A * P)
    (t1 : T * P ≤ t * (P + 1)) (t2 : t * (P - 1) ≤ T * P)
    (q1a : q1 * P ≤ W * (P + 1)) (q1b : W * (P - 1) ≤ q1 * P)
    (r1 : r * P ≤ q1 * 100 * (P + 1)) (r2 : q1 * 100 * (P - 1) ≤ r * P) (hWT : W * T = A) :
    r * (t * (P * P * (P - 1))) ≤ 100 * c * ((P + 1) * (P + 1) * (P + 1)) ∧
    100 * c * ((P - 1) * (P - 1) * (P - 1)) ≤ r * (t * (P * P * (P + 1))) := by
  have e1 : W * (T * P) = A * P := by rw [← hWT, Rat.mul_assoc]
  have hP0' := Rat.le_of_lt hP0
  have h100 : (0 : Rat) ≤ 100 := by decide
  have ht' := Rat.le_of_lt ht
  constructor
  · have s1 := Rat.mul_le_mul_of_nonneg_left t2 hW0
    rw [e1] at s1
    have s2 : W * (t * (P - 1)) ≤ c * (P + 1) := Rat.le_trans s1 a1
    -- q1 P t (P-1) ≤ W (P+1) t (P-1) ≤ c (P+1)(P+1)
    have s3 := Rat.mul_le_mul_of_nonneg_right q1a (Rat.mul_nonneg ht' hPm)
    have s4 := Rat.mul_le_mul_of_nonneg_right s2 hPp
    have s5 : q1 * P * (t * (P - 1)) ≤ c * (P + 1) * (P + 1) := by grind
    have s6 := Rat.mul_le_mul_of_nonneg_right s5 (Rat.mul_nonneg h100 hPp)
    have s7 := Rat.mul_le_mul_of_nonneg_right r1 (Rat.mul_nonneg (Rat.mul_nonneg ht' hPm) hP0')
    grind
  · have s1 := Rat.mul_le_mul_of_nonneg_left t1 hW0
    rw [e1] at s1
    have s2 : c * (P - 1) ≤ W * (t * (P + 1)) := Rat.le_trans a2 s1
    have s3 := Rat.mul_le_mul_of_nonneg_right q1b (Rat.mul_nonneg ht' hPp)
    have s4 := Rat.mul_le_mul_of_nonneg_right s2 hPm
    have s5 : c * (P - 1) * (P - 1) ≤ q1 * P * (t * (P + 1)) := by grind
    have s6 := Rat.mul_le_mul_of_nonneg_right s5 (Rat.mul_nonneg h100 hPm)
    have s7 := Rat.mul_le_mul_of_nonneg_right r2 (Rat.mul_nonneg (Rat.mul_nonneg ht' hPp) hP0')
    grind

theorem val_pos_of_close {v x P : Rat} (hP : 1 < P) (hx : 0 < x) (h : Close v x P) : 0 < v := by
  obtain ⟨_, h2⟩ := close_prod h
  have hPm : 0 < P - 1 := by grind
  have := Rat.mul_pos hx hPm
  exact Rat.lt_of_mul_lt_mul_right (a := 0) (b := v) (c := P) (by grind) (by grind)

/-- the f32 percentage of markdown is within 2.5·10⁻⁵ of the exact one, for ALL totals -/
theorem mdPct32_close_all (c t : Nat) (hct : c ≤ t) (ht0 : 0 < t) :
    (mdPct32 c t).val - 100 * (c : Rat) / t ≤ 1 / 40000 ∧ 100 * (c : Rat) / t - (mdPct32 c t).val ≤ 1 / 40000 := by
  have htq := natCast_pos' ht0
  have hcq : (0 : Rat) ≤ (c : Rat) := by exact_mod_cast Nat.zero_le c
  have hP : (2 : Rat) ^ 24 = 16777216 := by decide +kernel
  have hA := ofNat_close 24 c
  have hT := ofNat_close 24 t
  have hB := mul_close 24 (Fl.ofNat 24 c) fl100
  rw [fl100_val] at hB
  rw [hP] at hA hT hB
  have hTpos := val_pos_of_close (by decide) htq hT
  have hTn := num_pos_of_val_pos _ hTpos
  have hq := div_close 24 (Fl.mul 24 (Fl.ofNat 24 c) fl100) (Fl.ofNat 24 t) hTn
  rw [hP] at hq
  unfold mdPct32
  rw [if_neg (by omega)]
  generalize (Fl.div 24 (Fl.mul 24 (Fl.ofNat 24 c) fl100) (Fl.ofNat 24 t)).val = q at *
  generalize (Fl.mul 24 (Fl.ofNat 24 c) fl100).val = B at *
  generalize (Fl.ofNat 24 c).val = A at *
  generalize (Fl.ofNat 24 t).val = T at *
  obtain ⟨u1, u2⟩ := md_chain _ _ _ _ _ _ _ (by decide) hcq htq hTpos hA hB hT hq
  obtain ⟨r1, r2⟩ := ratio_le_100 c t hct ht0
  have htne : (t : Rat) ≠ 0 := by grind
  have hZ : 100 * (c : Rat) / t * t = 100 * c := by grind
  generalize 100 * (c : Rat) / t = Z at *
  rw [← hZ] at u1 u2
  have v1 : q * (16777216 * 16777216 * (16777216 - 1)) ≤ Z * ((16777216 + 1) * (16777216 + 1) * (16777216 + 1)) := by
    apply Rat.le_of_mul_le_mul_right (c := (t : Rat)) _ htq
    grind
  have v2 : Z * ((16777216 - 1) * (16777216 - 1) * (16777216 - 1)) ≤ q * (16777216 * 16777216 * (16777216 + 1)) := by
    apply Rat.le_of_mul_le_mul_right (c := (t : Rat)) _ htq
    grind
  constructor <;> grind

/-- the f64 percentage of coverage.json is within 10⁻⁹ of the exact one, for ALL totals -/
theorem htmlPct64_close_all (c t : Nat) (hct : c ≤ t) (ht0 : 0 < t) :
    (htmlPct64 c t).val - 100 * (c : Rat) / t ≤ 1 / 10 ^ 9 ∧ 100 * (c : Rat) / t - (htmlPct64 c t).val ≤ 1 / 10 ^ 9 := by
  have htq := natCast_pos' ht0
  have hcq : (0 : Rat) ≤ (c : Rat) := by exact_mod_cast Nat.zero_le c
  have hP : (2 : Rat) ^ 53 = 9007199254740992 := by decide +kernel
  have hA := ofNat_close 53 c
  have hT := ofNat_close 53 t
  rw [hP] at hA hT
  have hTpos := val_pos_of_close (by decide) htq hT
  have hTn := num_pos_of_val_pos _ hTpos
  have hq := div_close 53 (Fl.ofNat 53 c) (Fl.ofNat 53 t) hTn
  have hr := mul_close 53 (Fl.div 53 (Fl.ofNat 53 c) (Fl.ofNat 53 t)) fl100
  rw [fl100_val] at hr
  rw [hP] at hq hr
  unfold htmlPct64
  rw [if_pos (by omega)]
  generalize (Fl.mul 53 (Fl.div 53 (Fl.ofNat 53 c) (Fl.ofNat 53 t)) fl100).val = r at *
  generalize (Fl.div 53 (Fl.ofNat 53 c) (Fl.ofNat 53 t)).val = q1 at *
  generalize (Fl.ofNat 53 c).val = A at *
  generalize (Fl.ofNat 53 t).val = T at *
  have hA0 := nonneg_of_close (by decide) hcq hA
  obtain ⟨a1, a2⟩ := close_prod hA
  obtain ⟨t1, t2⟩ := close_prod hT
  obtain ⟨q1a, q1b⟩ := close_prod hq
  obtain ⟨r1', r2'⟩ := close_prod hr
  have hTne : T ≠ 0 := by grind
  have hWT : A / T * T = A := by grind
  have hW0 : 0 ≤ A / T := by
    rw [Rat.div_def]; exact Rat.mul_nonneg hA0 (Rat.le_of_lt (Rat.inv_pos.2 hTpos))
  obtain ⟨u1, u2⟩ := chain_core_html c t A T q1 r (A / T) 9007199254740992 (by decide) (by decide +kernel) (by decide +kernel) htq hW0
    a1 a2 t1 t2 q1a q1b r1' r2' hWT
  obtain ⟨z1, z2⟩ := ratio_le_100 c t hct ht0
  have htne : (t : Rat) ≠ 0 := by grind
  have hZ : 100 * (c : Rat) / t * t = 100 * c := by grind
  generalize 100 * (c : Rat) / t = Z at *
  rw [← hZ] at u1 u2
  have v1 : r * (9007199254740992 * 9007199254740992 * (9007199254740992 - 1))
      ≤ Z * ((9007199254740992 + 1) * (9007199254740992 + 1) * (9007199254740992 + 1)) := by
    apply Rat.le_of_mul_le_mul_right (c := (t : Rat)) _ htq
    grind
  have v2 : Z * ((9007199254740992 - 1) * (9007199254740992 - 1) * (9007199254740992 - 1))
      ≤ r * (9007199254740992 * 9007199254740992 * (9007199254740992 + 1)) := by
    apply Rat.le_of_mul_le_mul_right (c := (t : Rat)) _ htq
    grind
  constructor <;> grind


/-! ## the printed figure -/

open Grcov.Stats (parseDec digitsVal splitAtByte Dec Tol tolOf printedOK absDiff Rate)
open Grcov.Writers.CobBytes (decBytes decFuel decFuel_digits decFuel_ne_nil)

/-- one step of `digitsVal` -/
def dstep (acc : Option Nat) (b : Nat) : Option Nat :=
  match acc with
  | some a => if 48 ≤ b ∧ b ≤ 57 then some (a * 10 + (b - 48)) else none
  | none => none

theorem digitsVal_eq (ds : List Nat) : digitsVal ds = ds.foldl dstep (some 0) := by
  cases ds <;> rfl

theorem fold_decFuel (f n a : Nat) (h : n < f) :
    (decFuel f n).foldl dstep (some a) = some (a * 10 ^ (decFuel f n).length + n) := by
  induction f generalizing n a with
  | zero => omega
  | succ f ih =>
    unfold decFuel
    by_cases h10 : n < 10
    · simp [h10, dstep]; omega
    · simp only [h10, if_false, List.foldl_append, ih (n / 10) a (by omega), List.foldl_cons, List.foldl_nil,
        List.length_append, List.length_singleton]
      have : 48 ≤ 48 + n % 10 ∧ 48 + n % 10 ≤ 57 := by omega
      simp only [dstep, this, and_self, if_true, Option.some.injEq]
      rw [Nat.pow_succ, ← Nat.mul_assoc]
      generalize a * 10 ^ (decFuel f (n / 10)).length = Y
      omega

theorem fold_zeros (k a : Nat) : (List.replicate k 48).foldl dstep (some a) = some (a * 10 ^ k) := by
  induction k generalizing a with
  | zero => simp
  | succ k ih =>
    rw [List.replicate_succ, List.foldl_cons]
    simp only [dstep, show (48 ≤ 48 ∧ 48 ≤ 57) from by omega, and_self, if_true]
    rw [ih, Nat.pow_succ]
    congr 1; grind

theorem decFuel_length_le (f n k : Nat) (hk : 1 ≤ k) (h : n < 10 ^ k) : (decFuel f n).length ≤ k := by
  induction f generalizing n k with
  | zero => simp [decFuel]
  | succ f ih =>
    unfold decFuel
    by_cases h10 : n < 10
    · simp [h10]; omega
    · simp only [h10, if_false, List.length_append, List.length_singleton]
      have hk2 : 2 ≤ k := by
        rcases Nat.lt_or_ge k 2 with h' | h'
        · have : k = 1 := by omega
          subst this
          omega
        · exact h'
      have : n / 10 < 10 ^ (k - 1) := by
        rw [Nat.div_lt_iff_lt_mul (by omega)]
        calc n < 10 ^ k := h
          _ = 10 ^ (k - 1) * 10 := by rw [← Nat.pow_succ]; congr 1; omega
      have := ih (n / 10) (k - 1) (by omega) this
      omega

theorem splitAtByte_not_mem (c : Nat) (s : List Nat) (h : c ∉ s) : splitAtByte c s = (s, none) := by
  induction s with
  | nil => rfl
  | cons b s ih =>
    have hb : b ≠ c := fun e => h (by simp [e])
    have hs : c ∉ s := fun m => h (List.mem_cons_of_mem _ m)
    simp [splitAtByte, hb, ih hs]

theorem splitAtByte_append (c : Nat) (a b : List Nat) (h : c ∉ a) : splitAtByte c (a ++ c :: b) = (a, some b) := by
  induction a with
  | nil => simp [splitAtByte]
  | cons x a ih =>
    have hx : x ≠ c := fun e => h (by simp [e])
    have ha : c ∉ a := fun m => h (List.mem_cons_of_mem _ m)
    simp [splitAtByte, hx, ih ha]

theorem decBytes_mem (n b : Nat) (h : b ∈ decBytes n) : 48 ≤ b ∧ b ≤ 57 := decFuel_digits _ _ b h

theorem pad0_mem (p : Nat) (ds : List Nat) (hd : ∀ b ∈ ds, 48 ≤ b ∧ b ≤ 57) : ∀ b ∈ pad0 p ds, 48 ≤ b ∧ b ≤ 57 := by
  intro b hb
  simp only [pad0, List.mem_append, List.mem_replicate] at hb
  rcases hb with ⟨_, rfl⟩ | hb
  · omega
  · exact hd b hb

theorem fmtFixed_mem (p : Nat) (x : Fl) : ∀ b ∈ fmtFixed p x, (48 ≤ b ∧ b ≤ 57) ∨ b = 46 := by
  intro b hb
  unfold fmtFixed at hb
  simp only at hb
  split at hb
  · exact Or.inl (decBytes_mem _ b hb)
  · simp only [List.mem_append, List.mem_cons] at hb
    rcases hb with hb | rfl | hb
    · exact Or.inl (decBytes_mem _ b hb)
    · exact Or.inr rfl
    · exact Or.inl (pad0_mem _ _ (decBytes_mem _) b hb)

theorem pad0_length (p n : Nat) (hp : 1 ≤ p) (h : n < 10 ^ p) : (pad0 p (decBytes n)).length = p := by
  have := decFuel_length_le (n + 1) n p hp h
  simp only [pad0, List.length_append, List.length_replicate]
  unfold decBytes
  omega

/-- the reader of printed figures reads `{:.p$}` output as the integer of all its digits over `10^p` -/
theorem parseDec_fmtFixed (p : Nat) (x : Fl) :
    parseDec (fmtFixed p x) = some ⟨false, fixedDigits p x, p, 0⟩ := by
  have hmem := fmtFixed_mem p x
  have hne45 : ∀ r, fmtFixed p x ≠ 45 :: r := by
    intro r e
    have := hmem 45 (by rw [e]; simp)
    omega
  have hmap : (fmtFixed p x).map (fun b => if b = 69 then 101 else b) = fmtFixed p x := by
    rw [List.map_congr_left (g := id)]
    · simp
    · intro b hb
      have := hmem b hb
      have : b ≠ 69 := by omega
      simp [this]
  have h101 : 101 ∉ fmtFixed p x := fun m => by have := hmem 101 m; omega
  unfold parseDec
  simp only [hmap, splitAtByte_not_mem 101 _ h101]
  have hfm : fmtFixed p x = if p = 0 then decBytes (fixedDigits p x)
      else decBytes (fixedDigits p x / 10 ^ p) ++ 46 :: pad0 p (decBytes (fixedDigits p x % 10 ^ p)) := rfl
  generalize fixedDigits p x = Q at *
  by_cases hp : p = 0
  · subst hp
    have hf : fmtFixed 0 x = decBytes Q := by simp [hfm]
    have h46 : 46 ∉ decBytes Q := fun m => by have := decBytes_mem _ _ m; omega
    rw [hf, splitAtByte_not_mem 46 _ h46]
    have hnn : decBytes Q ≠ [] := decFuel_ne_nil Q Q
    have hv : digitsVal (decBytes Q) = some Q := by
      rw [digitsVal_eq]
      unfold decBytes
      rw [fold_decFuel _ _ _ (by omega)]
      simp
    simp [hnn, hv]
  · have hp1 : 1 ≤ p := by omega
    have hf : fmtFixed p x = decBytes (Q / 10 ^ p) ++ 46 :: pad0 p (decBytes (Q % 10 ^ p)) := by
      simp [hfm, hp]
    have h46 : 46 ∉ decBytes (Q / 10 ^ p) := fun m => by have := decBytes_mem _ _ m; omega
    rw [hf, splitAtByte_append 46 _ _ h46]
    have hnn : decBytes (Q / 10 ^ p) ≠ [] := decFuel_ne_nil _ _
    have hmod : Q % 10 ^ p < 10 ^ p := Nat.mod_lt _ (Nat.pow_pos (by omega))
    have hlen := pad0_length p (Q % 10 ^ p) hp1 hmod
    have hpn : pad0 p (decBytes (Q % 10 ^ p)) ≠ [] := by
      intro e; rw [e] at hlen; simp at hlen; omega
    have hv : digitsVal (decBytes (Q / 10 ^ p) ++ pad0 p (decBytes (Q % 10 ^ p))) = some Q := by
      rw [digitsVal_eq, List.foldl_append]
      unfold decBytes
      rw [fold_decFuel _ _ _ (by omega)]
      simp only [Nat.zero_mul, Nat.zero_add, pad0, List.foldl_append, fold_zeros]
      rw [fold_decFuel _ _ _ (by omega)]
      have hl := decFuel_length_le (Q % 10 ^ p + 1) (Q % 10 ^ p) p hp1 hmod
      congr 1
      rw [Nat.mul_assoc, ← Nat.pow_add, Nat.sub_add_cancel hl]
      exact Nat.div_add_mod' Q (10 ^ p)
    simp [hnn, hpn, hv, hlen]


theorem absDiff_mul_le (a b X Y : Nat) (h1 : a * X ≤ b * X + Y) (h2 : b * X ≤ a * X + Y) : absDiff a b * X ≤ Y := by
  unfold absDiff
  split
  · rw [Nat.sub_mul]; omega
  · rw [Nat.sub_mul]; omega

/-- all the digits `{:.p$}` prints are within half a unit of `x · 10^p` -/
theorem fixedDigits_close (p : Nat) (x : Fl) :
    2 * ((fixedDigits p x : Nat) - x.val * (10 : Rat) ^ p) ≤ 1 ∧ 2 * (x.val * (10 : Rat) ^ p - (fixedDigits p x : Nat)) ≤ 1 := by
  have hb := rhe_close (x.num * 10 ^ p) x.den (den_pos x)
  have hvd := val_mul_den x
  have hden := natCast_pos' (den_pos x)
  unfold fixedDigits
  generalize rhe (x.num * 10 ^ p) x.den = Q at *
  have h1 : 2 * ((Q : Rat) * x.den) ≤ 2 * ((x.num : Rat) * (10 : Rat) ^ p) + x.den := by exact_mod_cast hb.1
  have h2 : 2 * ((x.num : Rat) * (10 : Rat) ^ p) ≤ 2 * ((Q : Rat) * x.den) + x.den := by exact_mod_cast hb.2
  rw [← hvd] at h1 h2
  generalize (x.den : Rat) = den at *
  generalize x.val = v at *
  generalize (10 : Rat) ^ p = T at *
  constructor
  · apply Rat.le_of_mul_le_mul_right (c := den) _ hden
    grind
  · apply Rat.le_of_mul_le_mul_right (c := den) _ hden
    grind

theorem ten_pow_cast (k : Nat) : ((10 ^ k : Nat) : Rat) = (10 : Rat) ^ k := by push_cast; rfl

/-- a printed figure whose binary value is within `sn/sd` of the exact rate is admissible -/
theorem printedOK_of_close (p : Nat) (x : Fl) (r : Rate) (sn sd : Nat) (hsd : 0 < sd) (hden : 0 < r.den)
    (h1 : x.val - (r.num : Rat) / r.den ≤ (sn : Rat) / sd) (h2 : (r.num : Rat) / r.den - x.val ≤ (sn : Rat) / sd) :
    printedOK ⟨some p, sn, sd⟩ r (fmtFixed p x) = true := by
  unfold printedOK
  rw [parseDec_fmtFixed]
  simp only [Dec.closeTo, Dec.absNum, Dec.den, Tol.boundNum, Tol.boundDen, decide_eq_true_eq]
  refine ⟨by omega, ?_⟩
  simp only [Int.le_refl, if_true, Int.toNat_zero, Nat.pow_zero, Nat.mul_one, Bool.false_eq_true, if_false]
  obtain ⟨q1, q2⟩ := fixedDigits_close p x
  generalize fixedDigits p x = Q at *
  have hT : (0 : Rat) < (10 : Rat) ^ p := Rat.pow_pos (by decide)
  have hdq := natCast_pos' hden
  have hsq := natCast_pos' hsd
  have hdne : (r.den : Rat) ≠ 0 := by grind
  have hsne : (sd : Rat) ≠ 0 := by grind
  have hK : (0 : Rat) ≤ (r.den : Rat) * (2 * (10 : Rat) ^ p * sd) :=
    Rat.le_of_lt (Rat.mul_pos hdq (Rat.mul_pos (Rat.mul_pos (by decide) hT) hsq))
  have hT' := Rat.le_of_lt hT
  have g1 := Rat.mul_le_mul_of_nonneg_right h1 hT'
  have g2 := Rat.mul_le_mul_of_nonneg_right h2 hT'
  apply absDiff_mul_le
  · -- Q·den·(2·10^p·sd) ≤ num·10^p·(2·10^p·sd) + (sd + 2·10^p·sn)·(10^p·den)
    have e : (Q : Rat) ≤ ((r.num : Rat) / r.den + (sn : Rat) / sd) * (10 : Rat) ^ p + 1 / 2 := by grind
    have := Rat.mul_le_mul_of_nonneg_right e hK
    have goal : ((Q * r.den * (2 * 10 ^ p * sd) : Nat) : Rat)
        ≤ ((r.num * 10 ^ p * (2 * 10 ^ p * sd) + (sd + 2 * 10 ^ p * sn) * (10 ^ p * r.den) : Nat) : Rat) := by
      push_cast
      generalize (10 : Rat) ^ p = T at *
      have er : (((r.num : Rat) / r.den + (sn : Rat) / sd) * T + 1 / 2) * ((r.den : Rat) * (2 * T * sd))
          = (r.num : Rat) * T * (2 * T * sd) + ((sd : Rat) + 2 * T * sn) * (T * r.den) := by grind
      rw [er] at this
      grind
    exact_mod_cast goal
  · have e : ((r.num : Rat) / r.den) * (10 : Rat) ^ p ≤ (Q : Rat) + 1 / 2 + (sn : Rat) / sd * (10 : Rat) ^ p := by grind
    have := Rat.mul_le_mul_of_nonneg_right e hK
    have goal : ((r.num * 10 ^ p * (2 * 10 ^ p * sd) : Nat) : Rat)
        ≤ ((Q * r.den * (2 * 10 ^ p * sd) + (sd + 2 * 10 ^ p * sn) * (10 ^ p * r.den) : Nat) : Rat) := by
      push_cast
      generalize (10 : Rat) ^ p = T at *
      have el : ((r.num : Rat) / r.den) * T * ((r.den : Rat) * (2 * T * sd)) = (r.num : Rat) * T * (2 * T * sd) := by grind
      have er : ((Q : Rat) + 1 / 2 + (sn : Rat) / sd * T) * ((r.den : Rat) * (2 * T * sd))
          = (Q : Rat) * r.den * (2 * T * sd) + ((sd : Rat) + 2 * T * sn) * (T * r.den) := by grind
      rw [el, er] at this
      exact this
    exact_mod_cast goal

/-- if the binary value is below `K + 1/2` (scaled), the printed digits are at most `K` -/
theorem fixedDigits_le (p : Nat) (x : Fl) (K : Nat) (h : x.val * (10 : Rat) ^ p < K + 1 / 2) : fixedDigits p x ≤ K := by
  obtain ⟨q1, _⟩ := fixedDigits_close p x
  have : ((fixedDigits p x : Nat) : Rat) < ((K + 1 : Nat) : Rat) := by push_cast; grind
  have : fixedDigits p x < K + 1 := by exact_mod_cast this
  omega

theorem tolOf_markdown (p : Nat) : tolOf "markdown" p = some ⟨some p, 2, 10 ^ 5⟩ := by
  simp [tolOf]

theorem tolOf_html (p : Nat) : tolOf "html" p = some ⟨some p, 1, 10 ^ 9⟩ := by
  simp [tolOf]

theorem cast_ratio (c t : Nat) : ((100 * c : Nat) : Rat) / (t : Rat) = 100 * (c : Rat) / t := by push_cast; rfl

open Grcov.Stats (mdPercent htmlPercent) in
/-- markdown: every printed percentage is admissible for the exact rate (rows and total line) -/
theorem md_printed_admissible (p c t : Nat) (hct : c ≤ t) (ht : t < 2 ^ 24) :
    printedOK ⟨some p, 2, 10 ^ 5⟩ (mdPercent c t) (fmtFixed p (mdPct32 c t)) = true := by
  have hs : ((2 : Nat) : Rat) / ((10 ^ 5 : Nat) : Rat) = 2 / 10 ^ 5 := by decide +kernel
  rcases Nat.eq_zero_or_pos t with rfl | ht0
  · apply printedOK_of_close p _ _ 2 (10 ^ 5) (by decide) (by simp [mdPercent])
    · simp only [mdPct32, mdPercent, if_true, fl100_val]; decide +kernel
    · simp only [mdPct32, mdPercent, if_true, fl100_val]; decide +kernel
  · have ht' : t ≠ 0 := by omega
    have hden : 0 < (mdPercent c t).den := by simp [mdPercent, ht']; omega
    obtain ⟨h1, h2⟩ := mdPct32_close c t hct ht0 ht
    apply printedOK_of_close p _ _ 2 (10 ^ 5) (by decide) hden
    · simp only [mdPercent, ht', if_false, cast_ratio, hs]; exact h1
    · simp only [mdPercent, ht', if_false, cast_ratio, hs]; exact h2

open Grcov.Stats (mdPercent htmlPercent) in
/-- markdown, ALL totals: within half a unit of the last place + 2.5·10⁻⁵ -/
theorem md_printed_within_all (p c t : Nat) (hct : c ≤ t) :
    printedOK ⟨some p, 1, 40000⟩ (mdPercent c t) (fmtFixed p (mdPct32 c t)) = true := by
  have hs : ((1 : Nat) : Rat) / ((40000 : Nat) : Rat) = 1 / 40000 := by decide +kernel
  rcases Nat.eq_zero_or_pos t with rfl | ht0
  · apply printedOK_of_close p _ _ 1 40000 (by decide) (by simp [mdPercent])
    · simp only [mdPct32, mdPercent, if_true, fl100_val]; decide +kernel
    · simp only [mdPct32, mdPercent, if_true, fl100_val]; decide +kernel
  · have ht' : t ≠ 0 := by omega
    have hden : 0 < (mdPercent c t).den := by simp [mdPercent, ht']; omega
    obtain ⟨h1, h2⟩ := mdPct32_close_all c t hct ht0
    apply printedOK_of_close p _ _ 1 40000 (by decide) hden
    · simp only [mdPercent, ht', if_false, cast_ratio, hs]; exact h1
    · simp only [mdPercent, ht', if_false, cast_ratio, hs]; exact h2

open Grcov.Stats (mdPercent htmlPercent) in
/-- coverage.json: the printed message is admissible for the exact rate, ALL totals -/
theorem html_printed_admissible (p c t : Nat) (hct : c ≤ t) :
    printedOK ⟨some p, 1, 10 ^ 9⟩ (htmlPercent c t) (fmtFixed p (htmlPct64 c t)) = true := by
  have hs : ((1 : Nat) : Rat) / ((10 ^ 9 : Nat) : Rat) = 1 / 10 ^ 9 := by decide +kernel
  rcases Nat.eq_zero_or_pos t with rfl | ht0
  · apply printedOK_of_close p _ _ 1 (10 ^ 9) (by decide) (by simp [htmlPercent])
    · simp only [htmlPct64, htmlPercent, ne_eq, not_true_eq_false, if_false, fl100_val]; decide +kernel
    · simp only [htmlPct64, htmlPercent, ne_eq, not_true_eq_false, if_false, fl100_val]; decide +kernel
  · have ht' : t ≠ 0 := by omega
    have hden : 0 < (htmlPercent c t).den := by simp [htmlPercent, ht']; omega
    obtain ⟨h1, h2⟩ := htmlPct64_close_all c t hct ht0
    apply printedOK_of_close p _ _ 1 (10 ^ 9) (by decide) hden
    · simp only [htmlPercent, ht', ne_eq, not_false_eq_true, if_true, cast_ratio, hs]; exact h1
    · simp only [htmlPercent, ht', ne_eq, not_false_eq_true, if_true, cast_ratio, hs]; exact h2

theorem ten_pow_le (p k : Nat) (hp : p ≤ k) : (10 : Rat) ^ p ≤ ((10 ^ k : Nat) : Rat) := by
  have : 10 ^ p ≤ 10 ^ k := Nat.pow_le_pow_right (by omega) hp
  rw [← ten_pow_cast]; exact_mod_cast this

/-- for the precisions of the property (0..4) no printed markdown percentage exceeds 100 -/
theorem md_digits_le_100 (p c t : Nat) (hp : p ≤ 4) (hct : c ≤ t) :
    fixedDigits p (mdPct32 c t) ≤ 100 * 10 ^ p := by
  apply fixedDigits_le
  have hv : (mdPct32 c t).val ≤ 100 + 1 / 40000 := by
    rcases Nat.eq_zero_or_pos t with rfl | ht0
    · simp only [mdPct32, if_true, fl100_val]; decide +kernel
    · obtain ⟨h1, _⟩ := mdPct32_close_all c t hct ht0
      obtain ⟨r1, _⟩ := ratio_le_100 c t hct ht0
      grind
  have h10 : (0 : Rat) < (10 : Rat) ^ p := Rat.pow_pos (by decide)
  have h104 := ten_pow_le p 4 hp
  have hm := Rat.mul_le_mul_of_nonneg_right hv (Rat.le_of_lt h10)
  push_cast
  generalize (10 : Rat) ^ p = T at *
  have : ((10 ^ 4 : Nat) : Rat) = 10000 := by decide +kernel
  grind

theorem html_digits_le_100 (p c t : Nat) (hp : p ≤ 8) (hct : c ≤ t) :
    fixedDigits p (htmlPct64 c t) ≤ 100 * 10 ^ p := by
  apply fixedDigits_le
  have hv : (htmlPct64 c t).val ≤ 100 + 1 / 10 ^ 9 := by
    rcases Nat.eq_zero_or_pos t with rfl | ht0
    · simp only [htmlPct64, ne_eq, not_true_eq_false, if_false, fl100_val]; decide +kernel
    · obtain ⟨h1, _⟩ := htmlPct64_close_all c t hct ht0
      obtain ⟨r1, _⟩ := ratio_le_100 c t hct ht0
      grind
  have h10 : (0 : Rat) < (10 : Rat) ^ p := Rat.pow_pos (by decide)
  have h108 := ten_pow_le p 8 hp
  have hm := Rat.mul_le_mul_of_nonneg_right hv (Rat.le_of_lt h10)
  push_cast
  generalize (10 : Rat) ^ p = T at *
  have : ((10 ^ 8 : Nat) : Rat) = 100000000 := by decide +kernel
  grind

/-! ## comparisons -/

theorem le_iff_val (a b : Fl) : Fl.le a b = true ↔ a.val ≤ b.val := by
  have ha := natCast_pos' (den_pos a)
  have hb := natCast_pos' (den_pos b)
  have ha' := val_mul_den a
  have hb' := val_mul_den b
  unfold Fl.le
  rw [decide_eq_true_iff]
  have key : ((a.num * b.den : Nat) : Rat) ≤ ((b.num * a.den : Nat) : Rat) ↔ a.val ≤ b.val := by
    push_cast
    rw [← ha', ← hb']
    generalize (a.den : Rat) = da at *
    generalize (b.den : Rat) = db at *
    have hdd := Rat.mul_pos ha hb
    constructor
    · intro h
      apply Rat.le_of_mul_le_mul_right (c := da * db) _ hdd
      grind
    · intro h
      have := Rat.mul_le_mul_of_nonneg_right h (Rat.le_of_lt hdd)
      grind
  rw [← key]
  exact ⟨fun h => by exact_mod_cast h, fun h => by exact_mod_cast h⟩

theorem nat_val (n : Nat) : (⟨n, 0⟩ : Fl).val = n := by
  simp only [Fl.val, Fl.num, Fl.den, Int.le_refl, if_true, Int.toNat_zero, Nat.pow_zero, Nat.mul_one]
  generalize (n : Rat) = x
  have : ((1 : Nat) : Rat) = 1 := rfl
  grind

theorem limit_int_val (h : Nat) (hh : h < 2 ^ 53) : (Limit.f64 ⟨h, 0⟩).val = h := by
  have := ofNat_exact 53 h hh
  simpa [Limit.f64, Fl.ofNat] using this

/-- with whole-number limits (the defaults 90 and 75 among them) the colour of a badge is decided by
integer comparisons of the figure with the limits -/
theorem badgeLevel_int (cur h m : Nat) (hh : h < 2 ^ 53) (hm : m < 2 ^ 53) :
    badgeLevel cur ⟨h, 0⟩ ⟨m, 0⟩ = if h ≤ cur then .hi else if m ≤ cur then .med else .low := by
  unfold badgeLevel levelOf
  have e1 : (Limit.f64 ⟨h, 0⟩).le ⟨cur, 0⟩ = decide (h ≤ cur) := by
    rw [Bool.eq_iff_iff, le_iff_val, limit_int_val h hh, nat_val, decide_eq_true_iff]
    exact ⟨fun x => by exact_mod_cast x, fun x => by exact_mod_cast x⟩
  have e2 : (Limit.f64 ⟨m, 0⟩).le ⟨cur, 0⟩ = decide (m ≤ cur) := by
    rw [Bool.eq_iff_iff, le_iff_val, limit_int_val m hm, nat_val, decide_eq_true_iff]
    exact ⟨fun x => by exact_mod_cast x, fun x => by exact_mod_cast x⟩
  rw [e1, e2]
  by_cases a : h ≤ cur <;> by_cases b : m ≤ cur <;> simp [a, b]

theorem fixedDigits_fl100 (p : Nat) : fixedDigits p fl100 = 100 * 10 ^ p := by
  simp [fixedDigits, fl100, Fl.num, Fl.den, rhe, Nat.mod_one]

/-- nothing to cover prints as `100`, `100.0`, `100.00`, … -/
theorem fmtFixed_fl100 (p : Nat) :
    fmtFixed p fl100 = decBytes 100 ++ (if p = 0 then [] else 46 :: List.replicate p 48) := by
  unfold fmtFixed
  simp only [fixedDigits_fl100]
  by_cases hp : p = 0
  · subst hp; simp
  · have h10 : 0 < 10 ^ p := Nat.pow_pos (by omega)
    simp only [hp, if_false, Nat.mul_div_cancel _ h10, Nat.mul_mod_left]
    have h0 : decBytes 0 = [48] := by decide
    obtain ⟨k, rfl⟩ : ∃ k, p = k + 1 := ⟨p - 1, by omega⟩
    simp [h0, pad0, List.replicate_succ']

end Grcov.Writers.MdBytes
