/-
Helper lemmas about the lcov byte machine (GrcovModel/Lcov.lean).
-/
import GrcovModel.Lcov
namespace Grcov.Lcov
open Grcov AList

/-! ### add_branch -/

/-- the vector of line `l` (absent = empty) -/
def vecAt (m : List (Nat × List Bool)) (l : Nat) : List Bool := (get? m l).getD []

theorem getD_replicate_false (k i : Nat) : (List.replicate k false).getD i false = false := by
  simp [List.getD_eq_getElem?_getD, List.getElem?_replicate]
  split <;> simp

theorem addBranch_other (m : List (Nat × List Bool)) (l no : Nat) (t : Bool) (l' : Nat)
    (h : l ≠ l') : get? (addBranch m l no t) l' = get? m l' := by
  unfold addBranch
  split
  · split
    · simp [get?_set, h]
    · split <;> simp [get?_set, h]
  · simp [get?_set, h]

theorem addBranch_isSome (m : List (Nat × List Bool)) (l no : Nat) (t : Bool) :
    (get? (addBranch m l no t) l).isSome := by
  unfold addBranch
  split
  · split
    · simp [get?_set]
    · split <;> simp [get?_set]
  · simp [get?_set]

theorem addBranch_length (m : List (Nat × List Bool)) (l no : Nat) (t : Bool) :
    (vecAt (addBranch m l no t) l).length = max (vecAt m l).length (no + 1) := by
  unfold addBranch vecAt
  cases hg : get? m l with
  | none => simp [get?_set]
  | some v =>
    simp only [Option.getD_some]
    by_cases h1 : no = v.length
    · simp [h1, get?_set]
    · by_cases h2 : no > v.length
      · simp [h1, h2, get?_set]; omega
      · simp [h1, h2, get?_set]; omega

theorem addBranch_getD (m : List (Nat × List Bool)) (l no : Nat) (t : Bool) (i : Nat) :
    (vecAt (addBranch m l no t) l).getD i false
      = ((vecAt m l).getD i false || (decide (i = no) && t)) := by
  unfold addBranch vecAt
  cases hg : get? m l with
  | none =>
    simp only [get?_set, if_true, Option.getD_some, Option.getD_none]
    by_cases hi : i = no
    · subst hi; simp [List.getD_eq_getElem?_getD]
    · by_cases hlt : i < no
      · simp [List.getD_eq_getElem?_getD, List.getElem?_append, hlt, hi]
      · have : ¬ i - no = 0 := by omega
        simp [List.getD_eq_getElem?_getD, List.getElem?_append, hlt, hi]
        cases hin : i - no with
        | zero => omega
        | succ k => simp
  | some v =>
    simp only [Option.getD_some]
    by_cases h1 : no = v.length
    · subst h1
      simp only [if_true, get?_set, Option.getD_some]
      by_cases hi : i = v.length
      · subst hi; simp [List.getD_eq_getElem?_getD]
      · by_cases hlt : i < v.length
        · simp [List.getD_eq_getElem?_getD, List.getElem?_append, hlt, hi]
        · simp [List.getD_eq_getElem?_getD, List.getElem?_append, hlt, hi]
          cases hin : i - v.length with
          | zero => omega
          | succ k => simp
    · by_cases h2 : no > v.length
      · simp only [h1, h2, if_true, if_false, get?_set, Option.getD_some]
        by_cases hi : i = no
        · subst hi
          have : ¬ i < v.length := by omega
          simp [List.getD_eq_getElem?_getD, List.getElem?_append, this]
        · by_cases hlt : i < v.length
          · simp [List.getD_eq_getElem?_getD, List.getElem?_append, hlt, hi]
          · have h3 : v.length ≤ i := by omega
            simp [List.getD_eq_getElem?_getD, List.getElem?_append, hlt, hi,
              List.getElem?_eq_none h3, List.getElem?_replicate]
            by_cases h4 : i - v.length < no - v.length
            · simp [h4]
            · simp [h4]
              cases hin : i - v.length - (no - v.length) with
              | zero => omega
              | succ k => simp
      · have h3 : no < v.length := by omega
        simp only [h1, h2, if_false, get?_set, if_true, Option.getD_some]
        by_cases hi : i = no
        · subst hi; simp [List.getD_eq_getElem?_getD, h3]
        · have : ¬ no = i := fun h => hi h.symm
          simp [List.getD_eq_getElem?_getD, List.getElem?_set, this, hi]

/-! ### digits -/

/-- value of a digit string read after `n` -/
def valFrom (n : Nat) (ds : Bytes) : Nat := ds.foldl (fun r d => r * 10 + (d - 48)) n

theorem valFrom_ge (n : Nat) (ds : Bytes) : n ≤ valFrom n ds := by
  induction ds generalizing n with
  | nil => simp [valFrom]
  | cons d ds ih =>
    have := ih (n * 10 + (d - 48))
    simp only [valFrom, List.foldl_cons] at this ⊢
    omega

/-- a numeric field read by one of the `take_while(is_ascii_digit).fold(...)` loops: if every step
of state family `mk` is `digitsStep`, then digits followed by a non-digit land in `done value` -/
theorem run_digits (branch : Bool) (bound : Nat) (mk done : Nat → Ctl) (a : Acc)
    (hstep : ∀ n b, step branch ⟨mk n, a⟩ b = ⟨digitsStep bound n b mk done, a⟩)
    (n : Nat) (ds : Bytes) (d : Nat) (hds : ∀ x ∈ ds, isDigit x = true) (hd : isDigit d = false)
    (hb : valFrom n ds ≤ bound) :
    run branch ⟨mk n, a⟩ (ds ++ [d]) = ⟨done (valFrom n ds), a⟩ := by
  induction ds generalizing n with
  | nil => simp [run, hstep, digitsStep, hd, valFrom]
  | cons x ds ih =>
    have hx : isDigit x = true := hds x (by simp)
    have hv : valFrom (n * 10 + (x - 48)) ds ≤ bound := by simpa [valFrom] using hb
    have hle : n * 10 + (x - 48) ≤ bound := Nat.le_trans (valFrom_ge _ _) hv
    have h1 : step branch ⟨mk n, a⟩ x = ⟨mk (n * 10 + (x - 48)), a⟩ := by
      rw [hstep]; simp [digitsStep, hx, pushDigit, hle]
    have := ih (n * 10 + (x - 48)) (fun y hy => hds y (List.mem_cons_of_mem _ hy)) hv
    simp only [run, List.cons_append, List.foldl_cons, h1] at this ⊢
    rw [this]; simp [valFrom]

/-- applying the BRDA records of a section, in file order -/
def brdaFold (m : List (Nat × List Bool)) (rs : List (Nat × Nat × Bool)) : List (Nat × List Bool) :=
  rs.foldl (fun m r => addBranch m r.1 r.2.1 r.2.2) m

theorem brdaFold_getD (m : List (Nat × List Bool)) (rs : List (Nat × Nat × Bool)) (l i : Nat) :
    (vecAt (brdaFold m rs) l).getD i false
      = ((vecAt m l).getD i false || rs.any fun r => decide (r.1 = l) && decide (r.2.1 = i) && r.2.2) := by
  induction rs generalizing m with
  | nil => simp [brdaFold]
  | cons r rs ih =>
    have : brdaFold m (r :: rs) = brdaFold (addBranch m r.1 r.2.1 r.2.2) rs := rfl
    rw [this, ih]
    by_cases hl : r.1 = l
    · subst hl
      rw [addBranch_getD]
      by_cases hi : i = r.2.1
      · subst hi; simp [Bool.or_assoc]
      · have : ¬ r.2.1 = i := fun h => hi h.symm
        simp [hi, this]
    · have : vecAt (addBranch m r.1 r.2.1 r.2.2) l = vecAt m l := by
        unfold vecAt; rw [addBranch_other _ _ _ _ _ hl]
      simp [this, hl]

theorem brdaFold_length (m : List (Nat × List Bool)) (rs : List (Nat × Nat × Bool)) (l : Nat) :
    (vecAt (brdaFold m rs) l).length
      = (rs.filter fun r => decide (r.1 = l)).foldl (fun k r => max k (r.2.1 + 1)) (vecAt m l).length := by
  induction rs generalizing m with
  | nil => simp [brdaFold]
  | cons r rs ih =>
    have : brdaFold m (r :: rs) = brdaFold (addBranch m r.1 r.2.1 r.2.2) rs := rfl
    rw [this, ih]
    by_cases hl : r.1 = l
    · subst hl; simp [addBranch_length]
    · have : vecAt (addBranch m r.1 r.2.1 r.2.2) l = vecAt m l := by
        unfold vecAt; rw [addBranch_other _ _ _ _ _ hl]
      simp [this, hl]

theorem foldl_max_perm {rs rs' : List (Nat × Nat × Bool)} (p : rs.Perm rs') (k : Nat) :
    rs.foldl (fun k r => max k (r.2.1 + 1)) k = rs'.foldl (fun k r => max k (r.2.1 + 1)) k := by
  apply List.Perm.foldl_eq' p
  intro x _ y _ z; omega

/-- applying the DA records of a section, in file order -/
def daFold (a : Acc) (rs : List (Nat × Nat)) : Acc := rs.foldl (fun a r => commitLine a r.1 r.2) a

/-- states that only exist with branch parsing on, or a machine halted with `ok` (never built) -/
def Ctl.isBr : Ctl → Bool
  | .brFirst | .brLine _ | .brAfterLine _ | .brBlock _ _ | .brAfterBlock _ | .brBranch _ _
  | .brAfterBranch _ _ | .brTaken _ _ _ => true
  | .halt (.ok _) => true
  | _ => false

def NoBranchInv (s : St) : Prop :=
  s.ctl.isBr = false ∧ s.acc.cur.branches = [] ∧ ∀ r ∈ s.acc.results, r.2.branches = []

theorem digitsStep_notBr (bound r b : Nat) (cont done : Nat → Ctl)
    (hc : ∀ n, (cont n).isBr = false) (hd : ∀ n, (done n).isBr = false) :
    (digitsStep bound r b cont done).isBr = false := by
  unfold digitsStep
  split
  · split
    · exact hc _
    · rfl
  · exact hd _

theorem step_noBranch (s : St) (b : Nat) (h : NoBranchInv s) : NoBranchInv (step false s b) := by
  obtain ⟨ctl, a⟩ := s
  obtain ⟨h1, h2, h3⟩ := h
  cases ctl <;> first | (exfalso; simp [Ctl.isBr] at h1; done) | skip
  all_goals simp only [step]
  case halt o => exact ⟨h1, h2, h3⟩
  case dispatch =>
    split
    · split
      · exact ⟨rfl, h2, h3⟩
      · split
        · refine ⟨rfl, rfl, ?_⟩
          intro r hr
          simp only [List.mem_append, List.mem_singleton] at hr
          rcases hr with hr | hr
          · exact h3 r hr
          · subst hr; exact h2
        · exact ⟨rfl, h2, h3⟩
    · split
      · exact ⟨rfl, h2, h3⟩
      · split <;> exact ⟨rfl, h2, h3⟩
  case skip => split <;> exact ⟨rfl, h2, h3⟩
  case key k =>
    split
    · split <;> exact ⟨rfl, h2, h3⟩
    · refine ⟨?_, h2, h3⟩
      simp only [afterKey]
      repeat' split
      all_goals first | rfl | contradiction
  case sfName nm => split <;> exact ⟨rfl, h2, h3⟩
  case daFirst =>
    split
    · exact ⟨digitsStep_notBr _ _ _ _ _ (fun _ => rfl) (fun _ => rfl), h2, h3⟩
    · exact ⟨rfl, h2, h3⟩
  case daLine n => exact ⟨digitsStep_notBr _ _ _ _ _ (fun _ => rfl) (fun _ => rfl), h2, h3⟩
  case daAfterLine l =>
    split
    · exact ⟨rfl, h2, h3⟩
    · split <;> exact ⟨rfl, h2, h3⟩
  case daCount l c =>
    split
    · split <;> exact ⟨rfl, h2, h3⟩
    · split <;> exact ⟨rfl, h2, h3⟩
  case daSkip l c => split <;> exact ⟨rfl, h2, h3⟩
  case fnFirst =>
    split
    · exact ⟨digitsStep_notBr _ _ _ _ _ (fun _ => rfl) (fun _ => rfl), h2, h3⟩
    · exact ⟨rfl, h2, h3⟩
  case fnStart n => exact ⟨digitsStep_notBr _ _ _ _ _ (fun _ => rfl) (fun _ => rfl), h2, h3⟩
  case fnAfterStart n => split <;> exact ⟨rfl, h2, h3⟩
  case fnName n nm => split <;> exact ⟨rfl, h2, h3⟩
  case fndaFirst =>
    split
    · exact ⟨digitsStep_notBr _ _ _ _ _ (fun _ => rfl) (fun _ => rfl), h2, h3⟩
    · exact ⟨rfl, h2, h3⟩
  case fndaCount n => exact ⟨digitsStep_notBr _ _ _ _ _ (fun _ => rfl) (fun _ => rfl), h2, h3⟩
  case fndaAfter n =>
    split
    · refine ⟨rfl, ?_, ?_⟩ <;> (simp only [commitFnda]; split) <;> assumption
    · exact ⟨rfl, h2, h3⟩
  case fndaName n nm =>
    split
    · refine ⟨rfl, ?_, ?_⟩ <;> (simp only [commitFnda]; split) <;> assumption
    · exact ⟨rfl, h2, h3⟩


theorem daFold_absent (rs : List (Nat × Nat)) (l : Nat) (a : Acc) (h : ∀ r ∈ rs, r.1 ≠ l) :
    get? (daFold a rs).cur.lines l = get? a.cur.lines l := by
  induction rs generalizing a with
  | nil => simp [daFold]
  | cons r rs ih =>
    have : daFold a (r :: rs) = daFold (commitLine a r.1 r.2) rs := rfl
    rw [this, ih _ fun x hx => h x (List.mem_cons_of_mem _ hx)]
    have hl : r.1 ≠ l := h r (by simp)
    simp [commitLine, get?_set, hl]

theorem daFold_present (rs : List (Nat × Nat)) (l : Nat) (a : Acc) (h : ∃ r ∈ rs, r.1 = l) :
    get? (daFold a rs).cur.lines l
      = some (min ((get? a.cur.lines l).getD 0
            + ((rs.filter fun r => decide (r.1 = l)).map (·.2)).sum) U64MAX) := by
  induction rs generalizing a with
  | nil => simp at h
  | cons r rs ih =>
    have step : daFold a (r :: rs) = daFold (commitLine a r.1 r.2) rs := rfl
    rw [step]
    by_cases hl : r.1 = l
    · by_cases hex : ∃ x ∈ rs, x.1 = l
      · rw [ih _ hex]
        subst hl
        simp [commitLine, get?_set, satAdd]
        generalize (List.map (fun x => x.snd) (List.filter (fun x => decide (x.fst = r.fst)) rs)).sum = S
        generalize (get? a.cur.lines r.fst).getD 0 = g
        unfold U64MAX; omega
      · have hno : ∀ x ∈ rs, x.1 ≠ l := fun x hx e => hex ⟨x, hx, e⟩
        rw [daFold_absent _ _ _ hno]
        have hf : (rs.filter fun x => decide (x.1 = l)) = [] := by
          rw [List.filter_eq_nil_iff]; intro x hx; simpa using hno x hx
        subst hl
        simp [commitLine, get?_set, satAdd, hf]
    · have hex : ∃ x ∈ rs, x.1 = l := by
        obtain ⟨x, hx, e⟩ := h
        simp only [List.mem_cons] at hx
        rcases hx with hx | hx
        · subst hx; exact absurd e hl
        · exact ⟨x, hx, e⟩
      rw [ih _ hex]
      simp [commitLine, get?_set, hl]

/-- the optional checksum field of a DA record: everything up to the line feed is skipped, then the
count is committed -/
theorem run_daSkip (branch : Bool) (a : Acc) (l c : Nat) (txt : Bytes) (h : ∀ x ∈ txt, x ≠ LF) :
    run branch ⟨.daSkip l c, a⟩ (txt ++ [LF]) = ⟨.dispatch, commitLine a l c⟩ := by
  induction txt with
  | nil => simp [run, step]
  | cons x txt ih =>
    have hx : x ≠ LF := h x (by simp)
    have hs : step branch ⟨.daSkip l c, a⟩ x = ⟨.daSkip l c, a⟩ := by simp [step, hx]
    have := ih fun y hy => h y (List.mem_cons_of_mem _ hy)
    simp only [run, List.cons_append, List.foldl_cons, hs] at this ⊢
    exact this

/-- the count of a DA record ends at the first non-digit `d`, which is remembered: a line feed ends
the record, anything else starts the skipped rest of the line -/
theorem run_daCount (branch : Bool) (a : Acc) (l c : Nat) (ds : Bytes) (d : Nat)
    (hds : ∀ x ∈ ds, isDigit x = true) (hd : isDigit d = false) (hb : valFrom c ds ≤ U64MAX) :
    run branch ⟨.daCount l c, a⟩ (ds ++ [d])
      = if d = LF then ⟨.dispatch, commitLine a l (valFrom c ds)⟩ else ⟨.daSkip l (valFrom c ds), a⟩ := by
  induction ds generalizing c with
  | nil =>
    by_cases h : d = LF
    · subst h; simp [run, step, valFrom, show isDigit LF = false from by decide]
    · simp [run, step, hd, valFrom, h]
  | cons x ds ih =>
    have hx : isDigit x = true := hds x (by simp)
    have hv : valFrom (c * 10 + (x - 48)) ds ≤ U64MAX := by simpa [valFrom] using hb
    have hle : c * 10 + (x - 48) ≤ U64MAX := Nat.le_trans (valFrom_ge _ _) hv
    have h1 : step branch ⟨.daCount l c, a⟩ x = ⟨.daCount l (c * 10 + (x - 48)), a⟩ := by
      simp [step, hx, pushDigit, hle]
    have := ih (c * 10 + (x - 48)) (fun y hy => hds y (List.mem_cons_of_mem _ hy)) hv
    simp only [run, List.cons_append, List.foldl_cons, h1] at this ⊢
    rw [this]; simp [valFrom]

theorem run_da_prefix (branch : Bool) (a : Acc) :
    run branch ⟨.dispatch, a⟩ [68, 65, 58] = ⟨.daFirst, a⟩ := by
  simp [run, step, isUpper, afterKey, kSF, kDA, LF, U32MAX]

theorem isDigit_false_of_eol (d : Nat) (h : d = 10 ∨ d = 13 ∨ d = 44) : isDigit d = false := by
  rcases h with h | h | h <;> subst h <;> decide

theorem da_record_bytes (branch : Bool) (a : Acc) (x : Nat) (dl : Bytes) (y : Nat) (dc : Bytes)
    (eol : Bytes) (hx : isDigit x = true) (hdl : ∀ z ∈ dl, isDigit z = true)
    (hy : isDigit y = true) (hdc : ∀ z ∈ dc, isDigit z = true)
    (heol : eol = [10] ∨ eol = [13, 10])
    (hl : valFrom 0 (x :: dl) ≤ U32MAX) (hc : valFrom 0 (y :: dc) ≤ U64MAX) :
    run branch ⟨.dispatch, a⟩ ([68, 65, 58] ++ (x :: dl) ++ [44] ++ (y :: dc) ++ eol)
      = ⟨.dispatch, commitLine a (valFrom 0 (x :: dl)) (valFrom 0 (y :: dc))⟩ := by
  have hvl : valFrom 0 (x :: dl) = valFrom (x - 48) dl := by simp [valFrom]
  have hvc : valFrom 0 (y :: dc) = valFrom (y - 48) dc := by simp [valFrom]
  rw [hvl] at hl ⊢; rw [hvc] at hc ⊢
  have e1 : [68, 65, 58] ++ (x :: dl) ++ [44] ++ (y :: dc) ++ eol
      = [68, 65, 58] ++ ([x] ++ ((dl ++ [44]) ++ ([y] ++ (dc ++ eol)))) := by simp
  rw [e1, run_append, run_da_prefix, run_append]
  have hx0 : x - 48 ≤ U32MAX := Nat.le_trans (valFrom_ge _ _) hl
  have s1 : run branch ⟨.daFirst, a⟩ [x] = ⟨.daLine (x - 48), a⟩ := by
    simp [run, step, hx, digitsStep, pushDigit, hx0]
  rw [s1, run_append]
  have s2 := run_digits branch U32MAX .daLine .daAfterLine a (fun n b => rfl) (x - 48) dl 44
    hdl (by decide) hl
  rw [s2, run_append]
  have s3 : run branch ⟨.daAfterLine (valFrom (x - 48) dl), a⟩ [y]
      = ⟨.daCount (valFrom (x - 48) dl) (y - 48), a⟩ := by
    have : y ≠ 45 := by
      intro h; subst h; simp [isDigit] at hy
    simp [run, step, hy, this]
  rw [s3]
  rcases heol with h | h <;> subst h
  · rw [run_daCount branch a _ _ dc 10 hdc (by decide) hc]; simp [LF]
  · have : dc ++ [13, 10] = (dc ++ [13]) ++ [10] := by simp
    rw [this, run_append, run_daCount branch a _ _ dc 13 hdc (by decide) hc]
    simp [run, step, LF]

/-- the BRDA records `output_lcov` writes for one line: one per vector slot, numbered from 0 -/
def slotRecords (l : Nat) (n : Nat) : List Bool → List (Nat × Nat × Bool)
  | [] => []
  | t :: v => (l, n, t) :: slotRecords l (n + 1) v

def brdaRecords (bs : List (Nat × List Bool)) : List (Nat × Nat × Bool) :=
  bs.flatMap fun lv => slotRecords lv.1 0 lv.2

theorem slotRecords_any (l n : Nat) (v : List Bool) (l' i : Nat) :
    (slotRecords l n v).any (fun r => decide (r.1 = l') && decide (r.2.1 = i) && r.2.2)
      = (decide (l = l') && decide (n ≤ i) && v.getD (i - n) false) := by
  induction v generalizing n with
  | nil => simp [slotRecords]
  | cons t v ih =>
    simp only [slotRecords, List.any_cons, ih]
    by_cases hl : l = l'
    · by_cases hn : n = i
      · subst hn
        have : ¬ n + 1 ≤ n := by omega
        simp [hl, this]
      · by_cases hlt : n < i
        · have h1 : n + 1 ≤ i := hlt
          have h2 : i - n = (i - (n + 1)) + 1 := by omega
          simp [hl, hn, h1, Nat.le_of_lt hlt, h2]
        · have h1 : ¬ n + 1 ≤ i := by omega
          have h2 : ¬ n ≤ i := by omega
          simp [hl, hn, h1, h2]
    · simp [hl]

theorem slotRecords_filter_other (l n : Nat) (v : List Bool) (l' : Nat) (h : l ≠ l') :
    (slotRecords l n v).filter (fun r => decide (r.1 = l')) = [] := by
  induction v generalizing n with
  | nil => rfl
  | cons t v ih => simp [slotRecords, h, ih]

theorem slotRecords_filter_same (l n : Nat) (v : List Bool) :
    (slotRecords l n v).filter (fun r => decide (r.1 = l)) = slotRecords l n v := by
  induction v generalizing n with
  | nil => rfl
  | cons t v ih => simp [slotRecords, ih]

theorem slotRecords_foldl_max (l n : Nat) (v : List Bool) (k : Nat) (hk : k ≤ n) :
    (slotRecords l n v).foldl (fun k r => max k (r.2.1 + 1)) k = if v = [] then k else n + v.length := by
  induction v generalizing n k with
  | nil => simp [slotRecords]
  | cons t v ih =>
    simp only [slotRecords, List.foldl_cons]
    rw [ih (n + 1) (max k (n + 1)) (by omega)]
    by_cases hv : v = []
    · subst hv; simp; omega
    · simp [hv]; omega

theorem brdaRecords_any (bs : List (Nat × List Bool)) (hb : NodupKeys bs) (l i : Nat) :
    (brdaRecords bs).any (fun r => decide (r.1 = l) && decide (r.2.1 = i) && r.2.2)
      = (vecAt bs l).getD i false := by
  induction bs with
  | nil => simp [brdaRecords, vecAt]
  | cons lv bs ih =>
    obtain ⟨l0, v⟩ := lv
    have hb' : NodupKeys bs := by unfold NodupKeys keys at *; simp at hb; exact hb.2
    have hnot : l0 ∉ keys bs := by unfold NodupKeys keys at *; simp at hb; simpa [keys] using hb.1
    have : brdaRecords ((l0, v) :: bs) = slotRecords l0 0 v ++ brdaRecords bs := by
      simp [brdaRecords]
    rw [this, List.any_append, slotRecords_any, ih hb']
    by_cases hl : l0 = l
    · subst hl
      have hnone : get? bs l0 = none := (get?_eq_none_iff bs l0).mpr hnot
      simp [vecAt, hnone]
    · simp [vecAt, hl]

theorem brdaRecords_length (bs : List (Nat × List Bool)) (hb : NodupKeys bs) (l : Nat) :
    ((brdaRecords bs).filter fun r => decide (r.1 = l)).foldl (fun k r => max k (r.2.1 + 1)) 0
      = (vecAt bs l).length := by
  induction bs with
  | nil => simp [brdaRecords, vecAt]
  | cons lv bs ih =>
    obtain ⟨l0, v⟩ := lv
    have hb' : NodupKeys bs := by unfold NodupKeys keys at *; simp at hb; exact hb.2
    have hnot : l0 ∉ keys bs := by unfold NodupKeys keys at *; simp at hb; simpa [keys] using hb.1
    have : brdaRecords ((l0, v) :: bs) = slotRecords l0 0 v ++ brdaRecords bs := by
      simp [brdaRecords]
    rw [this, List.filter_append, List.foldl_append]
    by_cases hl : l0 = l
    · subst hl
      have hnone : get? bs l0 = none := (get?_eq_none_iff bs l0).mpr hnot
      have hfil : (brdaRecords bs).filter (fun r => decide (r.1 = l0)) = [] := by
        rw [List.filter_eq_nil_iff]
        intro r hr
        simp only [brdaRecords, List.mem_flatMap] at hr
        obtain ⟨lv, hlv, hr⟩ := hr
        have hne : lv.1 ≠ l0 := by
          intro e; apply hnot; rw [← e]; exact List.mem_map_of_mem (f := (·.1)) hlv
        have := slotRecords_filter_other lv.1 0 lv.2 l0 hne
        have hmem : r ∉ (slotRecords lv.1 0 lv.2).filter (fun r => decide (r.1 = l0)) := by
          rw [this]; simp
        intro hdec; exact hmem (List.mem_filter.mpr ⟨hr, hdec⟩)
      rw [hfil, slotRecords_filter_same, slotRecords_foldl_max _ _ _ _ (Nat.le_refl 0)]
      simp only [List.foldl_nil, vecAt, get?_cons, if_true, Option.getD_some]
      by_cases hv : v = []
      · simp [hv]
      · simp [hv]
    · rw [slotRecords_filter_other _ _ _ _ hl]
      simp only [List.foldl_nil]
      rw [ih hb']
      simp [vecAt, hl]

/-- re-importing the BRDA records written for a branch map rebuilds every vector -/
theorem brda_roundtrip (bs : List (Nat × List Bool)) (hb : NodupKeys bs) (l : Nat) :
    vecAt (brdaFold [] (brdaRecords bs)) l = vecAt bs l := by
  apply List.ext_getElem
  · rw [brdaFold_length]; simpa [vecAt] using brdaRecords_length bs hb l
  · intro i h1 h2
    have a := brdaFold_getD [] (brdaRecords bs) l i
    rw [brdaRecords_any bs hb] at a
    simp only [vecAt, get?_nil, Option.getD_none, List.getD_nil, Bool.false_or] at a
    have a' : (vecAt (brdaFold [] (brdaRecords bs)) l).getD i false = (vecAt bs l).getD i false := by
      simpa [vecAt] using a
    rw [List.getD_eq_getElem?_getD, List.getD_eq_getElem?_getD, List.getElem?_eq_getElem h1,
      List.getElem?_eq_getElem h2] at a'
    simpa using a'

/-- re-importing the DA records written for a line map rebuilds it -/
theorem da_roundtrip (ls : List (Nat × Nat)) (hn : NodupKeys ls) (hfit : ∀ kv ∈ ls, kv.2 ≤ U64MAX)
    (l : Nat) : get? (daFold {} ls).cur.lines l = get? ls l := by
  by_cases h : ∃ r ∈ ls, r.1 = l
  · rw [daFold_present _ _ _ h]
    obtain ⟨r, hr, hl⟩ := h
    have hg : get? ls l = some r.2 := by
      subst hl; exact get?_of_mem hn hr
    -- the only record for `l` is `r`
    have hf : ((ls.filter fun x => decide (x.1 = l)).map (·.2)).sum = r.2 := by
      clear hfit
      induction ls with
      | nil => simp at hr
      | cons a ls ih =>
        have hn' : NodupKeys ls := by unfold NodupKeys keys at *; simp at hn; exact hn.2
        have hnot : a.1 ∉ keys ls := by unfold NodupKeys keys at *; simp at hn; simpa [keys] using hn.1
        simp only [List.mem_cons] at hr
        rcases hr with hr | hr
        · subst hr
          have : (ls.filter fun x => decide (x.1 = l)) = [] := by
            rw [List.filter_eq_nil_iff]; intro x hx hd
            simp only [decide_eq_true_eq] at hd
            apply hnot; rw [hl, ← hd]; exact List.mem_map_of_mem (f := (·.1)) hx
          simp [hl, this]
        · have hne : a.1 ≠ l := by
            intro e; apply hnot; rw [e, ← hl]; exact List.mem_map_of_mem (f := (·.1)) hr
          have hg' : get? ls l = some r.2 := by
            rw [get?_cons] at hg; simpa [hne] using hg
          simp only [List.filter_cons, hne, decide_false, Bool.false_eq_true, if_false]
          exact ih hn' hr hg'
    rw [hf, hg]
    have := hfit r hr
    simp [Nat.min_eq_left this]
  · have h' : ∀ r ∈ ls, r.1 ≠ l := fun r hr e => h ⟨r, hr, e⟩
    rw [daFold_absent _ _ _ h']
    have : get? ls l = none := by
      rw [get?_eq_none_iff]; intro hm
      simp only [keys, List.mem_map] at hm
      obtain ⟨r, hr, e⟩ := hm; exact h' r hr e
    rw [this]; rfl


def Ctl.isPanic : Ctl → Bool
  | .halt (.panic _) => true
  | _ => false

theorem digitsStep_notPanic (bound r b : Nat) (cont done : Nat → Ctl)
    (hc : ∀ n, (cont n).isPanic = false) (hd : ∀ n, (done n).isPanic = false) :
    (digitsStep bound r b cont done).isPanic = false := by
  unfold digitsStep
  split
  · split
    · exact hc _
    · rfl
  · exact hd _

theorem afterKey_notPanic (branch : Bool) (k : Nat) : (afterKey branch k).isPanic = false := by
  unfold afterKey
  repeat' split
  all_goals rfl

theorem step_noPanic (branch : Bool) (s : St) (b : Nat) (h : s.ctl.isPanic = false) :
    (step branch s b).ctl.isPanic = false := by
  obtain ⟨ctl, a⟩ := s
  cases ctl <;> simp only [step]
  case halt o => exact h
  all_goals (repeat' split)
  all_goals first
    | rfl
    | exact afterKey_notPanic _ _
    | exact digitsStep_notPanic _ _ _ _ _ (fun _ => rfl) (fun _ => rfl)

theorem run_noPanic (branch : Bool) (s : St) (bs : Bytes) (h : s.ctl.isPanic = false) :
    (run branch s bs).ctl.isPanic = false := by
  induction bs generalizing s with
  | nil => exact h
  | cons b bs ih => exact ih _ (step_noPanic branch s b h)

theorem parse_noPanic (branch : Bool) (bs : Bytes) (site : String) :
    parse branch bs ≠ .panic site := by
  have h := run_noPanic branch {} bs rfl
  unfold parse
  generalize run branch {} bs = s at h
  obtain ⟨ctl, a⟩ := s
  intro e
  cases ctl <;> simp only [finish] at e
  case halt =>
    subst e; simp [Ctl.isPanic] at h
  all_goals first
    | (cases e)
    | (split at e <;> cases e)

end Grcov.Lcov
