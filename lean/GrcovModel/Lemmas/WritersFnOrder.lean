/-
Lemmas for `GrcovModel/Writers/FnOrder.lean`: `nameLe` is a total order on names (it is
`MainGlue.bytesLe`), `sortByName` is a permutation, its result is ascending, and a table with
distinct names has exactly one listed order; the listed record (`listed dm c`); a reader's table
(`fnTable`).
-/
import GrcovModel.Writers.FnOrder
import GrcovModel.Lemmas.MainGlue
import GrcovModel.Lemmas.WritersCobAde
namespace Grcov.Writers
open Grcov AList

/-! ## the order -/

theorem nameLe_eq_bytesLe : ∀ a b : Name, nameLe a b = MainGlue.bytesLe a b
  | [], _ => rfl
  | _ :: _, [] => rfl
  | x :: xs, y :: ys => by
    unfold nameLe MainGlue.bytesLe
    rw [nameLe_eq_bytesLe xs ys]

theorem nameLe_refl (a : Name) : nameLe a a = true := by
  rw [nameLe_eq_bytesLe]; exact MainGlue.bytesLe_refl a

theorem nameLe_total (a b : Name) : nameLe a b = true ∨ nameLe b a = true := by
  rw [nameLe_eq_bytesLe, nameLe_eq_bytesLe]; exact MainGlue.bytesLe_total a b

theorem nameLe_trans (a b c : Name) (h1 : nameLe a b = true) (h2 : nameLe b c = true) :
    nameLe a c = true := by
  rw [nameLe_eq_bytesLe] at *; exact MainGlue.bytesLe_trans a b c h1 h2

theorem nameLe_antisymm (a b : Name) (h1 : nameLe a b = true) (h2 : nameLe b a = true) : a = b := by
  rw [nameLe_eq_bytesLe] at *; exact MainGlue.bytesLe_antisymm a b h1 h2

/-! ## `sortByName` -/

variable {α : Type}

/-- names ascending (weakly) -/
def SortedByName (m : List (Name × α)) : Prop := m.Pairwise fun a b => nameLe a.1 b.1 = true

theorem insertByName_perm (nf : Name × α) : ∀ m : List (Name × α), (insertByName nf m).Perm (nf :: m)
  | [] => List.Perm.refl _
  | x :: xs => by
    unfold insertByName
    split
    · exact List.Perm.refl _
    · exact ((insertByName_perm nf xs).cons x).trans (List.Perm.swap nf x xs)

theorem sortByName_perm : ∀ m : List (Name × α), (sortByName m).Perm m
  | [] => List.Perm.refl _
  | x :: xs => (insertByName_perm x _).trans (List.Perm.cons x (sortByName_perm xs))

theorem insertByName_sorted (nf : Name × α) (m : List (Name × α)) (h : SortedByName m) :
    SortedByName (insertByName nf m) := by
  induction m with
  | nil => simp [insertByName, SortedByName]
  | cons x xs ih =>
    have hx := List.pairwise_cons.mp h
    unfold insertByName
    split
    · rename_i hle
      refine List.pairwise_cons.mpr ⟨fun y hy => ?_, h⟩
      rcases List.mem_cons.mp hy with e | hy
      · rw [e]; exact hle
      · exact nameLe_trans _ _ _ hle (hx.1 y hy)
    · rename_i hnle
      have hxr : nameLe x.1 nf.1 = true := by
        rcases nameLe_total nf.1 x.1 with h1 | h1
        · exact absurd h1 hnle
        · exact h1
      refine List.pairwise_cons.mpr ⟨fun y hy => ?_, ih hx.2⟩
      have := (insertByName_perm nf xs).mem_iff.mp hy
      rcases List.mem_cons.mp this with e | hy'
      · rw [e]; exact hxr
      · exact hx.1 y hy'

theorem sortByName_sorted : ∀ m : List (Name × α), SortedByName (sortByName m)
  | [] => List.Pairwise.nil
  | x :: xs => insertByName_sorted x _ (sortByName_sorted xs)

theorem sortByName_of_sorted (m : List (Name × α)) (h : SortedByName m) : sortByName m = m := by
  induction m with
  | nil => rfl
  | cons x xs ih =>
    have hx := List.pairwise_cons.mp h
    simp only [sortByName]
    rw [ih hx.2]
    cases xs with
    | nil => rfl
    | cons y ys => simp [insertByName, hx.1 y (by simp)]

theorem sortByName_idem (m : List (Name × α)) : sortByName (sortByName m) = sortByName m :=
  sortByName_of_sorted _ (sortByName_sorted m)

theorem keys_sortByName_perm (m : List (Name × α)) : (keys (sortByName m)).Perm (keys m) :=
  (sortByName_perm m).map _

theorem nodupKeys_sortByName (m : List (Name × α)) (h : NodupKeys m) : NodupKeys (sortByName m) := by
  unfold NodupKeys at *
  exact (keys_sortByName_perm m).nodup_iff.2 h

theorem length_sortByName (m : List (Name × α)) : (sortByName m).length = m.length :=
  (sortByName_perm m).length_eq

theorem mem_sortByName (m : List (Name × α)) (x : Name × α) : x ∈ sortByName m ↔ x ∈ m :=
  (sortByName_perm m).mem_iff

/-- two name-sorted tables with distinct names and the same entries are the same list -/
theorem sortedByName_perm_eq : ∀ (a b : List (Name × α)), SortedByName a → SortedByName b →
    NodupKeys a → a.Perm b → a = b
  | [], _, _, _, _, p => (List.Perm.nil_eq p)
  | _ :: _, [], _, _, _, p => absurd p.symm (by simp)
  | x :: xs, y :: ys, sa, sb, na, p => by
    have hsa := List.pairwise_cons.mp sa
    have hsb := List.pairwise_cons.mp sb
    have hxy : x = y := by
      have hx : x ∈ y :: ys := p.subset (by simp)
      have hy : y ∈ x :: xs := p.symm.subset (by simp)
      rcases List.mem_cons.mp hx with e | hx'
      · exact e
      · rcases List.mem_cons.mp hy with e | hy'
        · exact e.symm
        · have h1 := hsb.1 x hx'
          have h2 := hsa.1 y hy'
          have hk : x.1 = y.1 := nameLe_antisymm _ _ h2 h1
          unfold NodupKeys keys at na
          simp only [List.map_cons, List.nodup_cons] at na
          exact absurd (by rw [hk]; exact List.mem_map_of_mem hy') na.1
    subst hxy
    have na' : NodupKeys xs := by
      unfold NodupKeys keys at *; simp only [List.map_cons, List.nodup_cons] at na; exact na.2
    rw [sortedByName_perm_eq xs ys hsa.2 hsb.2 na' ((List.perm_cons x).1 p)]

/-- **the listed order does not depend on the map's iteration order** -/
theorem sortByName_eq_of_perm {m₁ m₂ : List (Name × α)} (p : m₁.Perm m₂) (h : NodupKeys m₁) :
    sortByName m₁ = sortByName m₂ :=
  sortedByName_perm_eq _ _ (sortByName_sorted m₁) (sortByName_sorted m₂) (nodupKeys_sortByName m₁ h)
    (((sortByName_perm m₁).trans p).trans (sortByName_perm m₂).symm)

/-- with distinct names the listed order is strictly ascending -/
theorem sortByName_strict (m : List (Name × α)) (h : NodupKeys m) :
    (sortByName m).Pairwise fun a b => nameLe a.1 b.1 = true ∧ a.1 ≠ b.1 := by
  have hs := sortByName_sorted m
  have hn := nodupKeys_sortByName m h
  unfold NodupKeys keys at hn
  have hn' : (sortByName m).Pairwise fun a b => a.1 ≠ b.1 := List.pairwise_map.mp hn
  exact (List.pairwise_and_iff.mpr ⟨hs, hn'⟩)

/-! ## the listed record -/

@[simp] theorem listed_lines (dm : Name → Name) (c : Cov) : (listed dm c).lines = c.lines := rfl
@[simp] theorem listed_branches (dm : Name → Name) (c : Cov) : (listed dm c).branches = c.branches := rfl
theorem listed_functions (dm : Name → Name) (c : Cov) :
    (listed dm c).functions = renameTable dm (sortByName c.functions) := rfl

theorem renameTable_id (fs : List (Name × Fn)) : renameTable id fs = fs := by
  unfold renameTable; simp

/-- demangling off: the listed record is the record with its table sorted -/
theorem listed_id (c : Cov) : listed id c = sortFnsCov c := by
  unfold listed renameFns; simp [renameTable_id]

theorem listed_functions_perm (dm : Name → Name) (c : Cov) :
    (listed dm c).functions.Perm (renameFns dm c).functions :=
  (sortByName_perm c.functions).map _

theorem length_listed_functions (dm : Name → Name) (c : Cov) :
    (listed dm c).functions.length = c.functions.length := by
  rw [listed_functions]; unfold renameTable; rw [List.length_map, length_sortByName]

/-- two records that differ only in the iteration order of their function maps are listed alike -/
theorem listed_congr (dm : Name → Name) (c c' : Cov) (hl : c.lines = c'.lines)
    (hb : c.branches = c'.branches) (hf : c.functions.Perm c'.functions) (hn : NodupKeys c.functions) :
    listed dm c = listed dm c' := by
  unfold listed renameFns sortFnsCov
  simp only [hl, hb, sortByName_eq_of_perm hf hn]

/-- the demangler is injective on the names of the table -/
def DmInjOn (dm : Name → Name) (fs : List (Name × Fn)) : Prop :=
  ∀ f ∈ keys fs, ∀ g ∈ keys fs, dm f = dm g → f = g

theorem nodup_map_on {β γ : Type} (f : β → γ) : ∀ l : List β,
    (∀ x ∈ l, ∀ y ∈ l, f x = f y → x = y) → l.Nodup → (l.map f).Nodup
  | [], _, _ => List.nodup_nil
  | a :: l, hi, hn => by
    have hn' := List.nodup_cons.mp hn
    rw [List.map_cons, List.nodup_cons]
    refine ⟨?_, nodup_map_on f l (fun x hx y hy => hi x (List.mem_cons_of_mem _ hx) y
      (List.mem_cons_of_mem _ hy)) hn'.2⟩
    intro hmem
    obtain ⟨b, hb, hfb⟩ := List.mem_map.mp hmem
    have : b = a := hi b (List.mem_cons_of_mem _ hb) a (by simp) hfb
    subst this; exact hn'.1 hb

theorem keys_renameTable (dm : Name → Name) (fs : List (Name × Fn)) :
    keys (renameTable dm fs) = (keys fs).map dm := by
  unfold renameTable keys; simp [List.map_map, Function.comp_def]

theorem nodupKeys_renameTable (dm : Name → Name) (fs : List (Name × Fn)) (hn : NodupKeys fs)
    (hi : DmInjOn dm fs) : NodupKeys (renameTable dm fs) := by
  unfold NodupKeys at *
  rw [keys_renameTable]
  exact nodup_map_on dm (keys fs) (fun x hx y hy h => hi x hx y hy h) hn

theorem dmInjOn_perm {dm : Name → Name} {fs fs' : List (Name × Fn)} (p : fs.Perm fs')
    (hi : DmInjOn dm fs) : DmInjOn dm fs' := by
  intro f hf g hg
  have pk : (keys fs).Perm (keys fs') := p.map _
  exact hi f (pk.mem_iff.2 hf) g (pk.mem_iff.2 hg)

theorem nodupKeys_listed (dm : Name → Name) (c : Cov) (hn : NodupKeys c.functions)
    (hi : DmInjOn dm c.functions) : NodupKeys (listed dm c).functions := by
  rw [listed_functions]
  exact nodupKeys_renameTable dm _ (nodupKeys_sortByName _ hn)
    (dmInjOn_perm (sortByName_perm c.functions).symm hi)

theorem get?_renameTable (dm : Name → Name) (fs : List (Name × Fn)) (hi : DmInjOn dm fs) (n : Name)
    (hn : n ∈ keys fs) : get? (renameTable dm fs) (dm n) = get? fs n := by
  induction fs with
  | nil => simp [keys] at hn
  | cons x xs ih =>
    obtain ⟨k, v⟩ := x
    simp only [renameTable, List.map_cons, get?_cons]
    by_cases hk : k = n
    · subst hk; simp
    · have hne : dm k ≠ dm n := fun h =>
        hk (hi k (by simp [keys]) n hn h)
      simp only [hk, hne, if_false]
      have hn' : n ∈ keys xs := by
        simp only [keys, List.map_cons, List.mem_cons] at hn
        rcases hn with e | h
        · exact absurd e.symm hk
        · exact h
      exact ih (fun f hf g hg => hi f (by simp only [keys, List.map_cons, List.mem_cons]; exact Or.inr hf)
        g (by simp only [keys, List.map_cons, List.mem_cons]; exact Or.inr hg)) hn'

/-- `get?` only depends on the entries when the names are distinct -/
theorem get?_perm {β : Type} {m m' : List (Name × β)} (p : m.Perm m') (hn : NodupKeys m) (n : Name) :
    get? m n = get? m' n := by
  induction p with
  | nil => rfl
  | cons x _ ih =>
    obtain ⟨k, v⟩ := x
    simp only [get?_cons]
    rw [ih (by unfold NodupKeys keys at *; simp only [List.map_cons, List.nodup_cons] at hn; exact hn.2)]
  | swap x y l =>
    obtain ⟨k, v⟩ := x
    obtain ⟨k', v'⟩ := y
    simp only [get?_cons]
    by_cases h1 : k = n <;> by_cases h2 : k' = n
    · exfalso
      unfold NodupKeys keys at hn
      simp only [List.map_cons, List.nodup_cons, List.mem_cons] at hn
      exact hn.1 (Or.inl (h2.trans h1.symm))
    · simp [h1, h2]
    · simp [h1, h2]
    · simp [h1, h2]
  | trans p1 _ ih1 ih2 =>
    rw [ih1 hn, ih2 (by unfold NodupKeys at *; exact ((p1.map _).nodup_iff).1 hn)]

/-- looking a function up in the listed table under its printed name finds its data -/
theorem get?_listed (dm : Name → Name) (c : Cov) (hnd : NodupKeys c.functions)
    (hi : DmInjOn dm c.functions) (n : Name) (hn : n ∈ keys c.functions) :
    get? (listed dm c).functions (dm n) = get? c.functions n := by
  rw [listed_functions,
    get?_renameTable dm _ (dmInjOn_perm (sortByName_perm c.functions).symm hi) n
      ((keys_sortByName_perm c.functions).mem_iff.2 hn)]
  exact get?_perm (sortByName_perm c.functions) (nodupKeys_sortByName _ hnd) n

/-! ## ranges: nothing but the names and the order of the table changes -/

section ranges
open Grcov.Stats Grcov.Writers.CobAde

theorem mem_listed_functions (dm : Name → Name) (c : Cov) (x : Name × Fn) :
    x ∈ (listed dm c).functions ↔ ∃ nf ∈ c.functions, x = (dm nf.1, nf.2) := by
  rw [listed_functions]
  unfold renameTable
  simp only [List.mem_map, mem_sortByName]
  constructor
  · rintro ⟨nf, h, rfl⟩; exact ⟨nf, h, rfl⟩
  · rintro ⟨nf, h, rfl⟩; exact ⟨nf, h, rfl⟩

theorem mem_starts_listed (dm : Name → Name) (c : Cov) (x : Nat) :
    x ∈ starts (listed dm c) ↔ x ∈ starts c := by
  unfold starts
  simp only [List.mem_map, mem_listed_functions]
  constructor
  · rintro ⟨_, ⟨nf, h, rfl⟩, rfl⟩; exact ⟨nf, h, rfl⟩
  · rintro ⟨nf, h, rfl⟩; exact ⟨_, ⟨nf, h, rfl⟩, rfl⟩

theorem funcEnd_listed (dm : Name → Name) (c : Cov) (s : Nat) :
    funcEnd (listed dm c) s = funcEnd c s := by
  rw [funcEnd_eq_iff]
  rcases funcEnd_spec c s with h | ⟨h, he⟩
  · exact Or.inl ⟨(mem_starts_listed dm c _).2 h.1, h.2.1,
      fun x hx => h.2.2 x ((mem_starts_listed dm c x).1 hx)⟩
  · exact Or.inr ⟨fun x hx => h x ((mem_starts_listed dm c x).1 hx), he⟩

theorem linesInFunction_listed (dm : Name → Name) (c : Cov) (f : Fn) :
    linesInFunction (listed dm c) f = linesInFunction c f := by
  unfold linesInFunction
  simp only [funcEnd_listed, listed_lines]

theorem lineFromNumber_listed (dm : Name → Name) (c : Cov) (n : Nat) :
    lineFromNumber (listed dm c) n = lineFromNumber c n := rfl

theorem inFn_listed (dm : Name → Name) (c : Cov) (f : Fn) (x : Nat) :
    inFn (listed dm c) f x = inFn c f x := by
  unfold inFn; rw [funcEnd_listed]

theorem claimed_listed (dm : Name → Name) (c : Cov) (x : Nat) :
    claimed (listed dm c) x = claimed c x := by
  rw [Bool.eq_iff_iff]
  unfold claimed
  simp only [List.any_eq_true, mem_listed_functions, inFn_listed]
  constructor
  · rintro ⟨_, ⟨nf, h, rfl⟩, hx⟩; exact ⟨nf, h, hx⟩
  · rintro ⟨nf, h, hx⟩; exact ⟨_, ⟨nf, h, rfl⟩, hx⟩

end ranges

/-! ## the reader's table -/

theorem set_of_not_mem {β : Type} (m : List (Name × β)) (x : Name) (v : β) (h : x ∉ keys m) :
    AList.set m x v = m ++ [(x, v)] := by
  induction m with
  | nil => rfl
  | cons kv m ih =>
    obtain ⟨k, w⟩ := kv
    simp only [keys, List.map_cons, List.mem_cons, not_or] at h
    unfold AList.set
    have hk : ¬ k = x := fun e => h.1 e.symm
    simp only [hk, if_false, List.cons_append]
    rw [ih (by simpa [keys] using h.2)]

theorem foldl_set_of_nodup (fs m : List (Name × Fn)) (hn : NodupKeys fs)
    (hd : ∀ k ∈ keys fs, k ∉ keys m) : fs.foldl (fun m nf => set m nf.1 nf.2) m = m ++ fs := by
  induction fs generalizing m with
  | nil => simp
  | cons x xs ih =>
    obtain ⟨k, v⟩ := x
    unfold NodupKeys keys at hn
    simp only [List.map_cons, List.nodup_cons] at hn
    simp only [List.foldl_cons]
    rw [set_of_not_mem m k v (hd k (by simp [keys]))]
    rw [ih (m ++ [(k, v)]) hn.2 ?_]
    · simp
    · intro k' hk'
      simp only [keys, List.map_append, List.map_cons, List.map_nil, List.mem_append,
        List.mem_singleton, not_or]
      refine ⟨hd k' (by simp only [keys, List.map_cons, List.mem_cons]; exact Or.inr hk'), ?_⟩
      intro e; subst e; exact hn.1 hk'

/-- with distinct printed names the reader's table IS the listed table -/
theorem fnTable_of_nodup (fs : List (Name × Fn)) (hn : NodupKeys fs) : fnTable fs = fs := by
  unfold fnTable
  rw [foldl_set_of_nodup fs [] hn (by simp [keys])]; simp

/-- in general it has one entry per distinct printed name -/
theorem nodupKeys_fnTable (fs : List (Name × Fn)) : NodupKeys (fnTable fs) := by
  unfold fnTable
  suffices ∀ m : List (Name × Fn), NodupKeys m → NodupKeys (fs.foldl (fun m nf => set m nf.1 nf.2) m) from
    this [] (by simp [NodupKeys, keys])
  induction fs with
  | nil => intro m hm; exact hm
  | cons x xs ih => intro m hm; exact ih _ (nodupKeys_set hm _ _)

end Grcov.Writers
