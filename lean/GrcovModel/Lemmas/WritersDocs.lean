/-
Helper lemmas for `Writers/Docs.lean` (C03, part Docs).
-/
import GrcovModel.Writers.Docs
import GrcovModel.Lemmas.Lcov
namespace Grcov.Writers.Docs
open Grcov AList Grcov.Writers Grcov.UPath

/-! ## generic: `mapM` in `Option` -/

theorem mapM_cons_some {α β : Type} (f : α → Option β) (x : α) (xs : List α) (ys : List β)
    (h : (x :: xs).mapM f = some ys) : ∃ y ys', f x = some y ∧ xs.mapM f = some ys' ∧ ys = y :: ys' := by
  rw [List.mapM_cons] at h
  cases hx : f x with
  | none => simp [hx] at h
  | some y =>
    cases hxs : xs.mapM f with
    | none => simp [hx, hxs] at h
    | some ys' =>
      simp [hx, hxs] at h; subst h
      exact ⟨y, ys', rfl, rfl, rfl⟩

theorem mapM_some_mem_left {α β : Type} (f : α → Option β) :
    ∀ (xs : List α) (ys : List β), xs.mapM f = some ys → ∀ x ∈ xs, ∃ y ∈ ys, f x = some y
  | [], _, _, x, hx => by simp at hx
  | a :: xs, ys, h, x, hx => by
    obtain ⟨y, ys', hy, hys, rfl⟩ := mapM_cons_some f a xs ys h
    simp only [List.mem_cons] at hx
    rcases hx with rfl | hx
    · exact ⟨y, by simp, hy⟩
    · obtain ⟨z, hz, hfz⟩ := mapM_some_mem_left f xs ys' hys x hx
      exact ⟨z, by simp [hz], hfz⟩

theorem mapM_some_mem_right {α β : Type} (f : α → Option β) :
    ∀ (xs : List α) (ys : List β), xs.mapM f = some ys → ∀ y ∈ ys, ∃ x ∈ xs, f x = some y
  | [], ys, h, y, hy => by simp at h; subst h; simp at hy
  | a :: xs, ys, h, y, hy => by
    obtain ⟨y0, ys', hy0, hys, rfl⟩ := mapM_cons_some f a xs ys h
    simp only [List.mem_cons] at hy
    rcases hy with rfl | hy
    · exact ⟨a, by simp, hy0⟩
    · obtain ⟨z, hz, hfz⟩ := mapM_some_mem_right f xs ys' hys y hy
      exact ⟨z, by simp [hz], hfz⟩

/-- the outputs are the images of the inputs, position by position -/
theorem mapM_some_map {α β γ : Type} (f : α → Option β) (g : β → γ) (h' : α → γ)
    (hg : ∀ x y, f x = some y → g y = h' x) :
    ∀ (xs : List α) (ys : List β), xs.mapM f = some ys → ys.map g = xs.map h'
  | [], ys, h => by simp at h; subst h; rfl
  | a :: xs, ys, h => by
    obtain ⟨y, ys', hy, hys, rfl⟩ := mapM_cons_some f a xs ys h
    simp [hg a y hy, mapM_some_map f g h' hg xs ys' hys]

theorem mapM_some_getElem? {α β : Type} (f : α → Option β) :
    ∀ (xs : List α) (ys : List β), xs.mapM f = some ys → ∀ i : Nat, ys[i]? = (xs[i]?).bind f
  | [], ys, h, i => by simp at h; subst h; simp
  | a :: xs, ys, h, i => by
    obtain ⟨y, ys', hy, hys, rfl⟩ := mapM_cons_some f a xs ys h
    cases i with
    | zero => simp [hy]
    | succ i => simpa using mapM_some_getElem? f xs ys' hys i

theorem mapM_eq_some_map {α β : Type} (f : α → Option β) (g : α → β) :
    ∀ (xs : List α), (∀ x ∈ xs, f x = some (g x)) → xs.mapM f = some (xs.map g)
  | [], _ => by simp
  | x :: xs, h => by
    rw [List.mapM_cons, h x (by simp), mapM_eq_some_map f g xs (fun y hy => h y (by simp [hy]))]
    rfl

theorem mapM_eq_none_of_mem {α β : Type} (f : α → Option β) :
    ∀ (xs : List α) (x : α), x ∈ xs → f x = none → xs.mapM f = none
  | y :: xs, x, hx, hn => by
    rw [List.mapM_cons]
    simp only [List.mem_cons] at hx
    rcases hx with rfl | hx
    · simp [hn]
    · cases hy : f y with
      | none => simp
      | some b => simp [mapM_eq_none_of_mem f xs x hx hn]

/-! ## Coveralls -/

theorem get?_decodeFrom (arr : List (Option Nat)) (k l : Nat) :
    get? (decodeFrom k arr) l = if k ≤ l then (arr[l - k]?).join else none := by
  induction arr generalizing k with
  | nil => simp [decodeFrom]
  | cons a t ih =>
    cases a with
    | none =>
      simp only [decodeFrom, ih]
      by_cases h1 : k + 1 ≤ l
      · have h2 : k ≤ l := by omega
        have h3 : l - k = (l - (k + 1)) + 1 := by omega
        simp [h1, h2, h3]
      · by_cases h2 : k ≤ l
        · have : l - k = 0 := by omega
          simp [h1, h2, this]
        · simp [h1, h2]
    | some c =>
      simp only [decodeFrom, get?_cons, ih]
      by_cases hk : k = l
      · subst hk; simp
      · by_cases h1 : k + 1 ≤ l
        · have h2 : k ≤ l := by omega
          have h3 : l - k = (l - (k + 1)) + 1 := by omega
          simp [hk, h1, h2, h3]
        · have h2 : ¬ k ≤ l := by omega
          simp [hk, h1, h2]

theorem cvCoverage_getElem? (e : Nat) (lines : List (Nat × Nat)) (i : Nat) :
    (cvCoverage e lines)[i]? = if i < e - 1 then some (get? lines (i + 1)) else none := by
  unfold cvCoverage
  by_cases h : i < e - 1 <;> simp [h]

theorem cvCoverage_last (lines : List (Nat × Nat)) :
    cvCoverage (lastKey lines + 1) lines = coverallsArray lines := by
  simp [cvCoverage, coverallsArray]

/-- reading the coverage array written for the lines `1..=last`: every line but line 0 comes back -/
theorem get?_decode_coverage (lines : List (Nat × Nat)) (l : Nat) :
    get? (decodeFrom 1 (cvCoverage (lastKey lines + 1) lines)) l = if l = 0 then none else get? lines l := by
  rw [get?_decodeFrom, cvCoverage_getElem?]
  by_cases h0 : l = 0
  · subst h0; simp
  · have h1 : 1 ≤ l := by omega
    have e : l - 1 + 1 = l := by omega
    simp only [h1, h0, if_true, if_false, Nat.add_sub_cancel, e]
    by_cases hl : l - 1 < lastKey lines
    · simp [hl]
    · simp only [hl, if_false, Option.join_none]
      cases hg : get? lines l with
      | none => rfl
      | some c =>
        have := key_le_lastKey lines l (by simp [hg])
        omega

/-- with `end = 0` (the wrapped `last + 1`) nothing is written -/
theorem cvCoverage_zero (lines : List (Nat × Nat)) : cvCoverage 0 lines = [] := by
  simp [cvCoverage]

theorem unquads_slotQuads (l n : Nat) (v : List Bool) (rest : List Nat) :
    unquads (slotQuads l n v ++ rest) = (unquads rest).map fun rs => Lcov.slotRecords l n v ++ rs := by
  induction v generalizing n with
  | nil => simp [slotQuads, Lcov.slotRecords]
  | cons t v ih =>
    have h1 : (if t then 1 else 0 : Nat) ≤ 1 := by cases t <;> simp
    have h2 : decide ((if t then 1 else 0 : Nat) = 1) = t := by cases t <;> simp
    simp only [slotQuads, List.cons_append, unquads, h1, and_self, if_true, ih, h2, Lcov.slotRecords,
      Option.map_map]
    congr

theorem unquads_quads (bs : List (Nat × List Bool)) : unquads (quads bs) = some (Lcov.brdaRecords bs) := by
  induction bs with
  | nil => simp [quads, Lcov.brdaRecords, unquads]
  | cons lv bs ih =>
    have e1 : quads (lv :: bs) = slotQuads lv.1 0 lv.2 ++ quads bs := by simp [quads]
    have e2 : Lcov.brdaRecords (lv :: bs) = Lcov.slotRecords lv.1 0 lv.2 ++ Lcov.brdaRecords bs := by
      simp [Lcov.brdaRecords]
    rw [e1, unquads_slotQuads, ih, e2]; rfl

theorem uncvFns_cvFns (fs : List (Name × Fn)) : uncvFns (cvFns fs) = fs := by
  induction fs with
  | nil => rfl
  | cons nf fs ih =>
    simp only [uncvFns, cvFns, List.map_cons, List.map_map] at ih ⊢
    rw [ih]

/-- the object of a result whose `last + 1` does not overflow -/
def cvFileOk (plus : Bool) (r : Res) : CvFile :=
  { name := r.rel
    coverage := coverallsArray r.cov.lines
    branches := quads r.cov.branches
    functions := if plus then some (cvFns r.cov.functions) else none }

theorem cvFile_ok (oc plus : Bool) (r : Res) (h : lastKey r.cov.lines < U32MAX) :
    cvFile oc plus r = some (cvFileOk plus r) := by
  have : lastKey r.cov.lines + 1 ≤ U32MAX := h
  simp [cvFile, cvEnd, this, cvFileOk, cvCoverage_last]

theorem cvFile_panic (plus : Bool) (r : Res) (h : U32MAX ≤ lastKey r.cov.lines) :
    cvFile true plus r = none := by
  have : ¬ lastKey r.cov.lines + 1 ≤ U32MAX := by omega
  simp [cvFile, cvEnd, this]

theorem cvFile_wrap (plus : Bool) (r : Res) (h : U32MAX ≤ lastKey r.cov.lines) :
    (cvFile false plus r).map (·.coverage) = some [] := by
  have : ¬ lastKey r.cov.lines + 1 ≤ U32MAX := by omega
  simp [cvFile, cvEnd, this, cvCoverage_zero]

/-! ## covdir -/

@[simp] theorem Tree.name_mk (n f d) : (Tree.mk n f d).name = n := rfl
@[simp] theorem Tree.files_mk (n f d) : (Tree.mk n f d).files = f := rfl
@[simp] theorem Tree.dirs_mk (n f d) : (Tree.mk n f d).dirs = d := rfl

@[simp] theorem Tree.insert_name (ds : List Name) (f : Name × List Int) (t : Tree) :
    (Tree.insert ds f t).name = t.name := by
  cases ds <;> simp [Tree.insert]

theorem find?_updDir (ds : List Tree) (d : Name) (g : Tree → Tree) (n : Name)
    (hg : ∀ t, (g t).name = t.name) :
    (updDir ds d g).find? (fun x => x.name = n) =
      if n = d then some (g ((ds.find? (fun x => x.name = d)).getD (.mk d [] [])))
      else ds.find? (fun x => x.name = n) := by
  induction ds with
  | nil =>
    by_cases hn : n = d
    · subst hn; simp [updDir, hg]
    · have : ¬ d = n := fun h => hn h.symm
      simp [updDir, hg, hn, this]
  | cons t ts ih =>
    unfold updDir
    by_cases htd : t.name = d
    · by_cases hn : n = d
      · subst hn; simp [htd, hg]
      · have : ¬ d = n := fun h => hn h.symm
        simp [htd, hg, hn, this]
    · by_cases hn : n = d
      · subst hn; simp [htd, ih]
      · by_cases htn : t.name = n
        · simp [hn, htn]
        · simp [htd, hn, htn, ih]

theorem lastFile_append (fs : List (Name × List Int)) (f : Name × List Int) (n : Name) :
    lastFile (fs ++ [f]) n = if f.1 = n then some f.2 else lastFile fs n := by
  obtain ⟨a, b⟩ := f
  simp [lastFile]

theorem child_insert_nil (f : Name × List Int) (t : Tree) (n : Name) :
    (Tree.insert [] f t).child n =
      match t.dirs.find? (fun d => d.name = n) with
      | some d => some (.dir d)
      | none => if f.1 = n then some (.file f.2) else (lastFile t.files n).map .file := by
  simp only [Tree.insert, Tree.child, Tree.dirs_mk, Tree.files_mk, lastFile_append]
  cases t.dirs.find? (fun d => d.name = n) with
  | some d => rfl
  | none => by_cases h : f.1 = n <;> simp [h]

theorem child_insert_cons (d : Name) (rest : List Name) (f : Name × List Int) (t : Tree) (n : Name) :
    (Tree.insert (d :: rest) f t).child n =
      if n = d then
        some (.dir (Tree.insert rest f ((t.dirs.find? (fun x => x.name = d)).getD (.mk d [] []))))
      else t.child n := by
  simp only [Tree.insert, Tree.child, Tree.dirs_mk, Tree.files_mk]
  rw [find?_updDir _ _ _ _ (fun t => Tree.insert_name rest f t)]
  by_cases hn : n = d <;> simp [hn]

theorem lookupK_nil (t : Tree) : t.lookupK [] = some none := rfl

theorem lookupK_cons (t : Tree) (n : Name) (rest : List Name) :
    t.lookupK (n :: rest) =
      match t.child n with
      | some (.dir d) => d.lookupK rest
      | some (.file a) => if rest = [] then some (some a) else none
      | none => none := by
  simp only [Tree.lookupK, Tree.lookup]
  split <;> rename_i h <;> simp only [h]
  · split <;> rfl
  · rfl

theorem lookupK_fresh (d : Name) (q : List Name) :
    (Tree.mk d [] []).lookupK q = if q = [] then some none else none := by
  cases q with
  | nil => rfl
  | cons n rest => simp [lookupK_cons, Tree.child, lastFile]

theorem child_of_find_some {t : Tree} {n : Name} {d : Tree}
    (h : t.dirs.find? (fun x => x.name = n) = some d) : t.child n = some (.dir d) := by
  simp [Tree.child, h]

theorem child_of_find_none {t : Tree} {n : Name}
    (h : t.dirs.find? (fun x => x.name = n) = none) : t.child n = (lastFile t.files n).map .file := by
  simp [Tree.child, h]

/-- what a lookup finds after one more file was filed -/
theorem lookupK_insert (ds : List Name) (f : Name × List Int) (t : Tree) (q : List Name) :
    (Tree.insert ds f t).lookupK q =
      if q <+: ds then some none
      else if q = ds ++ [f.1] then (if t.lookupK q = some none then some none else some (some f.2))
      else t.lookupK q := by
  induction ds generalizing t q with
  | nil =>
    cases q with
    | nil => simp [lookupK_nil]
    | cons n rest =>
      have hp : ¬ (n :: rest) <+: [] := by simp
      simp only [hp, if_false, List.nil_append]
      rw [lookupK_cons, child_insert_nil, lookupK_cons t]
      cases hf : t.dirs.find? (fun d => d.name = n) with
      | some d' =>
        simp only [child_of_find_some hf]
        by_cases hq : n :: rest = [f.1]
        · simp only [List.cons.injEq] at hq
          obtain ⟨_, hr⟩ := hq
          subst hr; simp [lookupK_nil]
        · simp [hq]
      | none =>
        simp only [child_of_find_none hf]
        by_cases hfn : f.1 = n
        · subst hfn
          by_cases hr : rest = []
          · subst hr
            cases lastFile t.files f.1 <;> simp
          · have : ¬ (f.1 :: rest = [f.1]) := by simp [hr]
            simp only [if_true, hr, if_false, this]
            cases lastFile t.files f.1 <;> simp
        · have : ¬ (n :: rest = [f.1]) := by
            intro h; simp only [List.cons.injEq] at h; exact hfn h.1.symm
          simp [hfn, this]
  | cons d ds' ih =>
    cases q with
    | nil => simp [lookupK_nil]
    | cons n rest =>
      rw [lookupK_cons, child_insert_cons]
      by_cases hn : n = d
      · subst hn
        simp only [if_true, ih, List.cons_prefix_cons, true_and, List.cons_append, List.cons.injEq]
        rw [lookupK_cons t]
        cases hf : t.dirs.find? (fun x => x.name = n) with
        | some t0 => simp [child_of_find_some hf]
        | none =>
          simp only [child_of_find_none hf, Option.getD_none, lookupK_fresh]
          by_cases hp : rest <+: ds'
          · simp [hp]
          · have hr : rest ≠ [] := by intro h; subst h; exact hp (List.nil_prefix)
            simp only [hp, if_false, hr]
            cases lastFile t.files n <;> simp
      · have hp : ¬ (n :: rest) <+: (d :: ds') := by
          simp only [List.cons_prefix_cons]; intro h; exact hn h.1
        have hq : ¬ (n :: rest = d :: ds' ++ [f.1]) := by
          intro h; simp only [List.cons_append, List.cons.injEq] at h; exact hn h.1
        simp only [hn, if_false, hp, hq]
        rw [lookupK_cons t]

/-- full path of a placed file: its directory names, then its name -/
def full (p : (List Name × Name) × List Int) : List Name := p.1.1 ++ [p.1.2]

def insP (t : Tree) (p : (List Name × Name) × List Int) : Tree := t.insert p.1.1 (p.1.2, p.2)

/-- what a lookup of `q` finds after the files `ps` were filed into a tree where it found `base` -/
def spec (ps : List ((List Name × Name) × List Int)) (q : List Name)
    (base : Option (Option (List Int))) : Option (Option (List Int)) :=
  if ps.any (fun p => decide (q <+: p.1.1)) then some none
  else match ps.reverse.find? (fun p => decide (full p = q)) with
    | some p => if base = some none then some none else some (some p.2)
    | none => base

theorem lookupK_foldl (ps : List ((List Name × Name) × List Int)) (t : Tree) (q : List Name) :
    (ps.foldl insP t).lookupK q = spec ps q (t.lookupK q) := by
  induction ps generalizing t with
  | nil => simp [spec]
  | cons p ps ih =>
    rw [List.foldl_cons, ih]
    have hins : (insP t p).lookupK q =
        if q <+: p.1.1 then some none
        else if q = full p then (if t.lookupK q = some none then some none else some (some p.2))
        else t.lookupK q := lookupK_insert p.1.1 (p.1.2, p.2) t q
    rw [hins]
    unfold spec
    by_cases hany : ps.any (fun p => decide (q <+: p.1.1)) = true
    · simp [hany]
    · simp only [hany, List.any_cons, Bool.or_false, Bool.false_eq_true, if_false, List.reverse_cons,
        List.find?_append]
      by_cases hp : q <+: p.1.1
      · simp only [hp, decide_true, if_true]
        cases ps.reverse.find? (fun p => decide (full p = q)) <;> simp
      · simp only [hp, decide_false, Bool.false_eq_true, if_false]
        cases hfind : ps.reverse.find? (fun p => decide (full p = q)) with
        | some p' =>
          simp only [Option.some_or]
          by_cases hq : q = full p
          · by_cases hb : t.lookupK q = some none <;> simp [hq, hb] <;> simp [← hq]
          · simp [hq]
        | none =>
          simp only [Option.none_or, List.find?_cons, List.find?_nil]
          by_cases hq : q = full p
          · have : full p = q := hq.symm
            simp [hq]
          · have : ¬ full p = q := fun h => hq h.symm
            simp [hq, this]

theorem lookupK_root (q : List Name) : Tree.root.lookupK q = if q = [] then some none else none :=
  lookupK_fresh [] q

/-- the whole content of the covdir document, as a function of the placed files -/
theorem lookupK_build (ps : List ((List Name × Name) × List Int)) (q : List Name) :
    (build ps).lookupK q =
      if q = [] ∨ ps.any (fun p => decide (q <+: p.1.1)) = true then some none
      else (ps.reverse.find? (fun p => decide (full p = q))).map fun p => some p.2 := by
  have : build ps = ps.foldl insP Tree.root := rfl
  rw [this, lookupK_foldl, lookupK_root]
  unfold spec
  by_cases hany : ps.any (fun p => decide (q <+: p.1.1)) = true
  · simp [hany]
  · by_cases hq : q = []
    · subst hq
      simp only [hany, Bool.false_eq_true, if_false, true_or, if_true]
      cases ps.reverse.find? (fun p => decide (full p = [])) <;> simp
    · simp only [hany, hq, Bool.false_eq_true, if_false, false_or]
      cases ps.reverse.find? (fun p => decide (full p = q)) <;> simp

theorem full_injective {p p' : (List Name × Name) × List Int} (h : full p = full p') : p.1 = p'.1 := by
  unfold full at h
  have h1 := List.append_inj' h (by simp)
  obtain ⟨⟨a, b⟩, c⟩ := p
  obtain ⟨⟨a', b'⟩, c'⟩ := p'
  simp at h1
  simp [h1.1, h1.2]

theorem eq_of_nodup_map_fst {α β : Type} :
    ∀ {l : List (α × β)}, (l.map (·.1)).Nodup → ∀ {x y : α × β}, x ∈ l → y ∈ l → x.1 = y.1 → x = y
  | [], _, _, _, hx, _, _ => by simp at hx
  | a :: l, hnd, x, y, hx, hy, hxy => by
    simp only [List.map_cons, List.nodup_cons, List.mem_map, not_exists, not_and] at hnd
    simp only [List.mem_cons] at hx hy
    rcases hx with rfl | hx <;> rcases hy with rfl | hy
    · rfl
    · exact absurd hxy.symm (hnd.1 y hy)
    · exact absurd hxy (hnd.1 x hx)
    · exact eq_of_nodup_map_fst hnd.2 hx hy hxy

/-! ## files -/

theorem splitLines_line (p : List Nat) (hp : 10 ∉ p) (rest : List Nat) :
    splitLines (p ++ 10 :: rest) = p :: splitLines rest := by
  induction p with
  | nil => simp [splitLines]
  | cons b p ih =>
    have hb : b ≠ 10 := fun h => hp (by simp [h])
    have hp' : 10 ∉ p := fun h => hp (by simp [h])
    simp [splitLines, hb, ih hp']

theorem splitLines_filesBytes (rs : List Res) (h : ∀ r ∈ rs, 10 ∉ r.rel) :
    splitLines (filesBytes rs) = rs.map (·.rel) := by
  induction rs with
  | nil => rfl
  | cons r rs ih =>
    have e : filesBytes (r :: rs) = r.rel ++ 10 :: filesBytes rs := by simp [filesBytes]
    rw [e, splitLines_line _ (h r (by simp)), ih (fun x hx => h x (by simp [hx]))]; rfl

/-! ## Markdown -/

def mdCur (st : MdState) : Option (Nat × Nat) := if st.start = 0 then none else some (st.start, st.stop)
def mdFinish (st : MdState) : List (Nat × Nat) :=
  if st.start ≠ 0 then st.missed ++ [(st.start, st.stop)] else st.missed

/-- the open range after a missed line `l` -/
def ext (cur : Option (Nat × Nat)) (l : Nat) : Nat × Nat :=
  match cur with
  | none => (l, l)
  | some (s, _) => (s, l)

@[simp] theorem ext_none (l : Nat) : ext none l = (l, l) := rfl
@[simp] theorem ext_some (s e l : Nat) : ext (some (s, e)) l = (s, l) := rfl

theorem runs_cons (l h : Nat) (t : List (Nat × Nat)) (cur : Option (Nat × Nat)) :
    runs ((l, h) :: t) cur =
      if h = 0 then runs t (some (ext cur l))
      else match cur with
        | none => runs t none
        | some r => r :: runs t none := by
  cases cur with
  | none => simp [runs]
  | some r => obtain ⟨s, e⟩ := r; simp [runs]

theorem foldl_mdStep_runs (lines : List (Nat × Nat)) (st : MdState) (h0 : ∀ kv ∈ lines, kv.1 ≠ 0) :
    mdFinish (lines.foldl mdStep st) = st.missed ++ runs lines (mdCur st) := by
  induction lines generalizing st with
  | nil =>
    by_cases hs : st.start = 0 <;> simp [mdFinish, mdCur, hs, runs]
  | cons kv t ih =>
    obtain ⟨l, h⟩ := kv
    have hl : l ≠ 0 := h0 (l, h) (by simp)
    rw [List.foldl_cons, ih _ (fun kv hkv => h0 kv (by simp [hkv])), runs_cons]
    by_cases hh : h = 0
    · by_cases hs : st.start = 0
      · simp [mdStep, hh, hs, mdCur, hl]
      · simp [mdStep, hh, hs, mdCur]
    · by_cases hs : st.start = 0
      · simp [mdStep, hh, hs, mdCur]
      · simp [mdStep, hh, hs, mdCur]

theorem foldl_mdStep_total (lines : List (Nat × Nat)) (st : MdState) :
    (lines.foldl mdStep st).totalMissed = st.totalMissed + (lines.filter fun kv => kv.2 = 0).length := by
  induction lines generalizing st with
  | nil => simp
  | cons kv t ih =>
    rw [List.foldl_cons, ih]
    by_cases hh : kv.2 = 0
    · simp [mdStep, hh]; omega
    · by_cases hs : st.start = 0 <;> simp [mdStep, hh, hs]

theorem formatLines_runs (lines : List (Nat × Nat)) (h0 : ∀ kv ∈ lines, kv.1 ≠ 0) :
    (formatLines lines).2 = runs lines none := by
  have := foldl_mdStep_runs lines ⟨0, [], 0, 0⟩ h0
  simpa [formatLines, mdFinish, mdCur] using this

theorem formatLines_missed (lines : List (Nat × Nat)) :
    (formatLines lines).1 = (lines.filter fun kv => kv.2 = 0).length := by
  have := foldl_mdStep_total lines ⟨0, [], 0, 0⟩
  simpa [formatLines] using this

/-- `BTreeMap` iteration order -/
def Sorted (lines : List (Nat × Nat)) : Prop := lines.Pairwise (fun a b => a.1 < b.1)

def CurOK (cur : Option (Nat × Nat)) (t : List (Nat × Nat)) : Prop :=
  ∀ s e, cur = some (s, e) → s ≤ e ∧ ∀ kv ∈ t, e < kv.1

structure RunsSpec (cur : Option (Nat × Nat)) (t R : List (Nat × Nat)) : Prop where
  ends : ∀ r ∈ R, r.1 ≤ r.2 ∧ ((∃ e, cur = some (r.1, e)) ∨ (r.1, 0) ∈ t) ∧ ((∃ s, cur = some (s, r.2)) ∨ (r.2, 0) ∈ t)
  noCovered : ∀ r ∈ R, ∀ kv ∈ t, kv.2 ≠ 0 → ¬ (r.1 ≤ kv.1 ∧ kv.1 ≤ r.2)
  covers : ∀ kv ∈ t, kv.2 = 0 → ∃ r ∈ R, r.1 ≤ kv.1 ∧ kv.1 ≤ r.2
  curCovered : ∀ s e, cur = some (s, e) → ∃ r ∈ R, r.1 = s ∧ e ≤ r.2
  disjoint : R.Pairwise (fun a b => a.2 < b.1)

theorem runs_spec (t : List (Nat × Nat)) (cur : Option (Nat × Nat)) (hs : Sorted t) (hc : CurOK cur t) :
    RunsSpec cur t (runs t cur) := by
  induction t generalizing cur with
  | nil =>
    cases cur with
    | none => exact ⟨by simp [runs], by simp [runs], by simp, by simp, by simp [runs]⟩
    | some r =>
      obtain ⟨s, e⟩ := r
      refine ⟨?_, by simp, by simp, ?_, by simp [runs]⟩
      · intro r hr
        simp only [runs, List.mem_singleton] at hr; subst hr
        exact ⟨(hc s e rfl).1, .inl ⟨e, rfl⟩, .inl ⟨s, rfl⟩⟩
      · intro s' e' h; simp only [Option.some.injEq, Prod.mk.injEq] at h
        exact ⟨(s, e), by simp [runs], h.1, by omega⟩
  | cons kv t ih =>
    obtain ⟨l, h⟩ := kv
    have hst : Sorted t := (List.pairwise_cons.mp hs).2
    have hlt : ∀ kv ∈ t, l < kv.1 := fun kv hkv => (List.pairwise_cons.mp hs).1 kv hkv
    rw [runs_cons]
    by_cases hh : h = 0
    · subst hh
      simp only [if_true]
      -- the open range is extended to `l`
      have hc' : CurOK (some (ext cur l)) t := by
        intro s e he
        cases cur with
        | none =>
          simp only [ext_none, Option.some.injEq, Prod.mk.injEq] at he
          rw [← he.1, ← he.2]
          exact ⟨Nat.le_refl _, hlt⟩
        | some r =>
          obtain ⟨s0, e0⟩ := r
          simp only [ext_some, Option.some.injEq, Prod.mk.injEq] at he
          rw [← he.1, ← he.2]
          have h3 := (hc s0 e0 rfl).2 (l, 0) (by simp)
          have h4 := (hc s0 e0 rfl).1
          simp only at h3
          exact ⟨by omega, hlt⟩
      have I := ih _ hst hc'
      refine ⟨?_, ?_, ?_, ?_, I.disjoint⟩
      · intro r hr
        obtain ⟨h1, h2, h3⟩ := I.ends r hr
        refine ⟨h1, ?_, ?_⟩
        · rcases h2 with ⟨e, he⟩ | h2
          · cases cur with
            | none =>
              simp only [ext_none, Option.some.injEq, Prod.mk.injEq] at he
              right; rw [← he.1]; simp
            | some r0 =>
              obtain ⟨s0, e0⟩ := r0
              simp only [ext_some, Option.some.injEq, Prod.mk.injEq] at he
              left; exact ⟨e0, by rw [he.1]⟩
          · right; simp [h2]
        · rcases h3 with ⟨s, he⟩ | h3
          · have : l = r.2 := by
              cases cur with
              | none => simp only [ext_none, Option.some.injEq, Prod.mk.injEq] at he; exact he.2
              | some r0 => obtain ⟨s0, e0⟩ := r0; simp only [ext_some, Option.some.injEq, Prod.mk.injEq] at he; exact he.2
            right; rw [← this]; simp
          · right; simp [h3]
      · intro r hr kv hkv hne
        simp only [List.mem_cons] at hkv
        rcases hkv with rfl | hkv
        · simp at hne
        · exact I.noCovered r hr kv hkv hne
      · intro kv hkv hz
        simp only [List.mem_cons] at hkv
        rcases hkv with rfl | hkv
        · cases cur with
          | none =>
            obtain ⟨r, hr, h1, h2⟩ := I.curCovered l l rfl
            exact ⟨r, hr, by simp [h1], h2⟩
          | some r0 =>
            obtain ⟨s0, e0⟩ := r0
            obtain ⟨r, hr, h1, h2⟩ := I.curCovered s0 l rfl
            have := hc s0 e0 rfl
            have h3 := this.2 (l, 0) (by simp)
            simp only at h3
            exact ⟨r, hr, by simp only [h1]; omega, h2⟩
        · exact I.covers kv hkv hz
      · intro s e he
        subst he
        obtain ⟨r, hr, h1, h2⟩ := I.curCovered s l rfl
        have h3 := (hc s e rfl).2 (l, 0) (by simp)
        simp only at h3
        exact ⟨r, hr, h1, by omega⟩
    · simp only [hh, if_false]
      have I := ih none hst (by intro s e he; cases he)
      have hstart : ∀ r ∈ runs t none, (r.1, 0) ∈ t := fun r hr => by
        rcases (I.ends r hr).2.1 with ⟨e, he⟩ | h2
        · cases he
        · exact h2
      have hnc : ∀ r ∈ runs t none, ∀ kv ∈ (l, h) :: t, kv.2 ≠ 0 → ¬ (r.1 ≤ kv.1 ∧ kv.1 ≤ r.2) := by
        intro r hr kv hkv hne
        simp only [List.mem_cons] at hkv
        rcases hkv with rfl | hkv
        · have := hlt _ (hstart r hr); simp only at this ⊢; omega
        · exact I.noCovered r hr kv hkv hne
      have hcov : ∀ kv ∈ (l, h) :: t, kv.2 = 0 → ∃ r ∈ runs t none, r.1 ≤ kv.1 ∧ kv.1 ≤ r.2 := by
        intro kv hkv hz
        simp only [List.mem_cons] at hkv
        rcases hkv with rfl | hkv
        · exact absurd hz hh
        · exact I.covers kv hkv hz
      have hends : ∀ r ∈ runs t none, r.1 ≤ r.2 ∧ (r.1, 0) ∈ (l, h) :: t ∧ (r.2, 0) ∈ (l, h) :: t := by
        intro r hr
        obtain ⟨h1, _, h3⟩ := I.ends r hr
        refine ⟨h1, by simp [hstart r hr], ?_⟩
        rcases h3 with ⟨s, he⟩ | h3
        · cases he
        · simp [h3]
      cases cur with
      | none =>
        refine ⟨?_, hnc, hcov, (by intro s e he; cases he), I.disjoint⟩
        intro r hr
        obtain ⟨h1, h2, h3⟩ := hends r hr
        exact ⟨h1, .inr h2, .inr h3⟩
      | some r0 =>
        obtain ⟨s0, e0⟩ := r0
        have hc0 := hc s0 e0 rfl
        refine ⟨?_, ?_, ?_, ?_, ?_⟩
        · intro r hr
          simp only [List.mem_cons] at hr
          rcases hr with rfl | hr
          · exact ⟨hc0.1, .inl ⟨e0, rfl⟩, .inl ⟨s0, rfl⟩⟩
          · obtain ⟨h1, h2, h3⟩ := hends r hr
            exact ⟨h1, .inr h2, .inr h3⟩
        · intro r hr kv hkv hne
          simp only [List.mem_cons] at hr
          rcases hr with rfl | hr
          · have := hc0.2 kv hkv; simp only; omega
          · exact hnc r hr kv hkv hne
        · intro kv hkv hz
          obtain ⟨r, hr, h12⟩ := hcov kv hkv hz
          exact ⟨r, by simp [hr], h12⟩
        · intro s e he
          simp only [Option.some.injEq, Prod.mk.injEq] at he
          exact ⟨(s0, e0), by simp, he.1, by omega⟩
        · refine List.pairwise_cons.mpr ⟨?_, I.disjoint⟩
          intro r hr
          have := hc0.2 _ (by simp [hstart r hr] : (r.1, 0) ∈ (l, h) :: t)
          simpa using this

theorem range_unique {R : List (Nat × Nat)} (hd : R.Pairwise (fun a b => a.2 < b.1))
    (hle : ∀ r ∈ R, r.1 ≤ r.2) {r r' : Nat × Nat} (hr : r ∈ R) (hr' : r' ∈ R) {l : Nat}
    (h : r.1 ≤ l ∧ l ≤ r.2) (h' : r'.1 ≤ l ∧ l ≤ r'.2) : r = r' := by
  induction R with
  | nil => simp at hr
  | cons a R ih =>
    obtain ⟨ha, hR⟩ := List.pairwise_cons.mp hd
    simp only [List.mem_cons] at hr hr'
    rcases hr with rfl | hr <;> rcases hr' with rfl | hr'
    · rfl
    · have := ha r' hr'; omega
    · have := ha r hr; omega
    · exact ih hR (fun x hx => hle x (by simp [hx])) hr hr'

/-! ## HTML -/

theorem mem_dedup {α : Type} [DecidableEq α] (l : List α) (x : α) : x ∈ dedup l ↔ x ∈ l := by
  induction l with
  | nil => simp [dedup]
  | cons a l ih =>
    simp only [dedup, List.mem_cons, List.mem_filter, ih, decide_eq_true_eq]
    by_cases h : x = a <;> simp [h]

theorem nodup_dedup {α : Type} [DecidableEq α] (l : List α) : (dedup l).Nodup := by
  induction l with
  | nil => simp [dedup]
  | cons a l ih =>
    simp only [dedup, List.nodup_cons, List.mem_filter]
    exact ⟨by simp, List.Pairwise.filter _ ih⟩

theorem get?_map_keys {κ β : Type} [DecidableEq κ] (ks : List κ) (f : κ → β) (d : κ) :
    get? (ks.map fun k => (k, f k)) d = if d ∈ ks then some (f d) else none := by
  induction ks with
  | nil => simp
  | cons k ks ih =>
    simp only [List.map_cons, get?_cons, ih, List.mem_cons]
    by_cases h : k = d
    · subst h; simp
    · have : ¬ d = k := fun e => h e.symm
      simp [h, this]

theorem get?_foldl_set {κ β γ : Type} [DecidableEq κ] (key : γ → κ) (val : γ → β) (es : List γ)
    (m : List (κ × β)) (k : κ) :
    get? (es.foldl (fun m e => set m (key e) (val e)) m) k =
      match es.reverse.find? (fun e => decide (key e = k)) with
      | some e => some (val e)
      | none => get? m k := by
  induction es generalizing m with
  | nil => simp
  | cons e es ih =>
    rw [List.foldl_cons, ih, List.reverse_cons, List.find?_append]
    cases hf : es.reverse.find? (fun e => decide (key e = k)) with
    | some e' => simp
    | none =>
      simp only [Option.none_or, List.find?_cons, List.find?_nil, get?_set]
      by_cases hk : key e = k <;> simp [hk]

theorem get?_siteDirs (es : List HtmlEntry) (d : Path) :
    get? (siteDirs es) d =
      if d ∈ es.map (·.parent) then some (dedup ((es.filter (·.parent = d)).map (·.fname))) else none := by
  unfold siteDirs
  rw [get?_map_keys (dedup (es.map (·.parent))) (fun d => dedup ((es.filter (·.parent = d)).map (·.fname))) d]
  simp only [mem_dedup]

theorem htmlDestName_eq (n : Name) : htmlDestName n = n ++ dotHtml := by
  unfold htmlDestName dotHtml; split <;> rfl

/-- every component is a `Normal` one -/
def AllNormal (cs : List Comp) : Prop := ∀ c ∈ cs, ∃ n, c = Comp.normal n

theorem map_normal_normalNames (cs : List Comp) (h : AllNormal cs) : (normalNames cs).map Comp.normal = cs := by
  induction cs with
  | nil => rfl
  | cons c cs ih =>
    obtain ⟨n, rfl⟩ := h c (by simp)
    simp [normalNames, ih (fun x hx => h x (by simp [hx]))]

/-- the destination determines the components of a rel path made of `Normal` components -/
theorem htmlDest_components {rel : Path} {d : List Name} (h : htmlDest rel = some d)
    (hn : AllNormal (components rel)) :
    ∃ ns f, d = ns ++ [f ++ dotHtml] ∧ components rel = ns.map Comp.normal ++ [Comp.normal f] := by
  unfold htmlDest at h
  split at h
  · rename_i f revDirs hrev
    have hc : components rel = revDirs.reverse ++ [Comp.normal f] := by
      have := congrArg List.reverse hrev; simpa using this
    have hn' : AllNormal revDirs.reverse := fun c hc' => hn c (by rw [hc]; simp [List.mem_reverse.mp hc'])
    refine ⟨normalNames revDirs.reverse, f, ?_, ?_⟩
    · simp only [Option.some.injEq] at h; rw [← h, htmlDestName_eq]
    · rw [map_normal_normalNames _ hn']; exact hc
  · cases h

theorem htmlDest_injective {rel rel' : Path} {d : List Name} (h : htmlDest rel = some d)
    (h' : htmlDest rel' = some d) (hn : AllNormal (components rel)) (hn' : AllNormal (components rel')) :
    components rel = components rel' := by
  obtain ⟨ns, f, hd, hc⟩ := htmlDest_components h hn
  obtain ⟨ns', f', hd', hc'⟩ := htmlDest_components h' hn'
  rw [hd] at hd'
  have h1 := List.append_inj' hd' (by simp)
  have h2 : f = f' := by
    have := h1.2; simp only [List.cons.injEq, and_true] at this
    exact List.append_cancel_right this
  rw [hc, hc', h1.1, h2]

theorem nodup_of_map {α β : Type} (f : α → β) : ∀ {l : List α}, (l.map f).Nodup → l.Nodup
  | [], _ => List.nodup_nil
  | a :: l, h => by
    simp only [List.map_cons, List.nodup_cons, List.mem_map, not_exists, not_and] at h
    exact List.nodup_cons.mpr ⟨fun ha => h.1 a ha rfl, nodup_of_map f h.2⟩

/-- keys of the images are distinct when the keys of the sources are and equal image keys force
equal source keys -/
theorem nodup_filterMap_key {α β κ κ' : Type} (g : α → Option β) (key : β → κ) (k : α → κ') :
    ∀ (rs : List α), (∀ r ∈ rs, ∀ r' ∈ rs, ∀ y y', g r = some y → g r' = some y' → key y = key y' → k r = k r') →
      (rs.map k).Nodup → ((rs.filterMap g).map key).Nodup
  | [], _, _ => by simp
  | r :: rs, hk, hnd => by
    simp only [List.map_cons, List.nodup_cons, List.mem_map, not_exists, not_and] at hnd
    have ih := nodup_filterMap_key g key k rs
      (fun a ha b hb => hk a (by simp [ha]) b (by simp [hb])) hnd.2
    cases hg : g r with
    | none => simpa [List.filterMap_cons, hg] using ih
    | some y =>
      rw [List.filterMap_cons, hg]
      simp only [List.map_cons, List.nodup_cons, List.mem_map, List.mem_filterMap, not_exists, not_and]
      refine ⟨?_, ih⟩
      rintro y' ⟨r', hr', hg'⟩ hkey
      exact hnd.1 r' hr' (hk r (by simp) r' (by simp [hr']) y y' hg hg' hkey.symm).symm

theorem mapM_id_some {α : Type} : ∀ (l : List (Option α)) (es : List α), l.mapM id = some es → l = es.map some
  | [], es, h => by simp at h; subst h; rfl
  | a :: l, es, h => by
    obtain ⟨y, ys, hy, hys, rfl⟩ := mapM_cons_some id a l es h
    simp only [id] at hy
    simp [hy, mapM_id_some l ys hys]

/-- destination and file name of one rel path: the destination ends with the file name + ".html" -/
theorem htmlDest_fileName {rel : Path} {d : List Name} {f : Name} (h : htmlDest rel = some d)
    (hf : fileNameOf rel = some f) : ∃ ns, d = ns ++ [f ++ dotHtml] := by
  unfold htmlDest at h
  unfold fileNameOf at hf
  split at h
  · rename_i f' revDirs hrev
    rw [hrev] at hf
    simp only [Option.some.injEq] at hf h
    subst hf
    exact ⟨_, by rw [← h, htmlDestName_eq]⟩
  · cases h

theorem indexHtml_eq : indexHtml = indexName ++ dotHtml := by decide

/-- a destination whose file is not named `index` is not the place of an index file -/
theorem not_isIndexFile (s : HtmlSite) (ns : List Name) (f : Name) (hf : f ≠ indexName) :
    s.isIndexFile (ns ++ [f ++ dotHtml]) = false := by
  unfold HtmlSite.isIndexFile
  rw [List.any_eq_false]
  intro ix _ hcon
  simp only [decide_eq_true_eq] at hcon
  have h1 := List.append_inj' hcon (by simp)
  have h2 := h1.2
  simp only [List.cons.injEq, and_true] at h2
  rw [indexHtml_eq] at h2
  exact hf (List.append_cancel_right h2).symm

/-! ## page rows -/

theorem rowsFrom_getElem? (lines : List (Nat × Nat)) (k : Nat) (ts : List (List Nat)) (i : Nat) :
    (rowsFrom lines k ts)[i]? = (ts[i]?).map fun t => ⟨k + i, entry lines (k + i), t⟩ := by
  induction ts generalizing k i with
  | nil => simp [rowsFrom]
  | cons t ts ih =>
    cases i with
    | zero => simp [rowsFrom]
    | succ i =>
      simp only [rowsFrom, List.getElem?_cons_succ, ih]
      have : k + 1 + i = k + (i + 1) := by omega
      rw [this]

theorem rowsFrom_length (lines : List (Nat × Nat)) (k : Nat) (ts : List (List Nat)) :
    (rowsFrom lines k ts).length = ts.length := by
  induction ts generalizing k with
  | nil => rfl
  | cons t ts ih => simp [rowsFrom, ih]

theorem rowsFrom_counts (lines : List (Nat × Nat)) (k : Nat) (ts : List (List Nat)) :
    (rowsFrom lines k ts).map (·.count) = (List.range ts.length).map fun i => entry lines (k + i) := by
  induction ts generalizing k with
  | nil => rfl
  | cons t ts ih =>
    simp only [rowsFrom, List.map_cons, List.length_cons, List.range_succ_eq_map, ih, List.map_map]
    simp only [Nat.add_zero, List.cons.injEq, true_and]
    apply List.map_congr_left
    intro i _
    simp only [Function.comp]
    congr 1; omega

end Grcov.Writers.Docs
