/-
Lemmas about the report view of the covdir tree (`Stats/Listed.lean`).
-/
import GrcovModel.Stats.Listed
import GrcovModel.Lemmas.Stats
namespace Grcov.Stats
open Grcov AList

/-- sum of the figures of the entries of a `children` object -/
def listedSum (fs : List CDFile) (sub : Forest) : CDStats := sumCD ((childrenStats fs sub).map (·.2))

/-- every directory's figures are the sum over the entries LISTED in its `children` object -/
def Forest.ListedOK : Forest → Prop
  | .nil => True
  | .dir _ st fs sub next => st = listedSum fs sub ∧ sub.ListedOK ∧ next.ListedOK

theorem set_fresh {α : Type} (m : List (Name × α)) (k : Name) (v : α) (h : k ∉ keys m) :
    set m k v = m ++ [(k, v)] := by
  induction m with
  | nil => rfl
  | cons kv m ih =>
    obtain ⟨k', w⟩ := kv
    simp only [keys, List.map_cons, List.mem_cons, not_or] at h
    have : ¬ k' = k := fun e => h.1 e.symm
    simp only [AList.set, this, if_false, List.cons_append]
    rw [ih (by simpa [keys] using h.2)]

/-- inserting entries with pairwise distinct fresh keys keeps all of them, in order -/
theorem foldl_set_nodup {α : Type} (l m : List (Name × α)) (h : (keys m ++ keys l).Nodup) :
    l.foldl (fun m kv => set m kv.1 kv.2) m = m ++ l := by
  induction l generalizing m with
  | nil => simp
  | cons kv l ih =>
    have hk : kv.1 ∉ keys m := by
      intro hm
      have := (List.nodup_append.mp h).2.2 kv.1 hm kv.1 (by simp [keys])
      exact this rfl
    rw [List.foldl_cons, set_fresh m kv.1 kv.2 hk, ih]
    · simp
    · simpa [keys, List.append_assoc] using h

theorem levelStats_keys (F : Forest) : keys F.levelStats = F.dirNames := by
  induction F with
  | nil => rfl
  | dir n st fs sub next _ ihn => simp [Forest.levelStats, Forest.dirNames, keys] at ihn ⊢; exact ihn

theorem levelStats_sum (F : Forest) : sumCD (F.levelStats.map (·.2)) = F.levelSum := by
  induction F with
  | nil => rfl
  | dir n st fs sub next _ ihn => simp [Forest.levelStats, Forest.levelSum, ihn]

/-- with distinct names every file and every sub-directory is listed: the sum over the listed
entries is the sum over the internal children -/
theorem listedSum_of_nodup (fs : List CDFile) (sub : Forest)
    (h : (fs.map (·.name) ++ sub.dirNames).Nodup) :
    listedSum fs sub = (filesSum fs).add sub.levelSum := by
  unfold listedSum childrenStats
  rw [foldl_set_nodup _ [] (by
    simpa [keys, List.map_map, Function.comp_def, levelStats_keys, ← levelStats_keys sub] using h)]
  simp [sumCD_append, filesSum, List.map_map, Function.comp_def, levelStats_sum]

theorem listedOK_of_sums (F : Forest) (hs : F.SumsOK) (hn : F.NamesOK) : F.ListedOK := by
  induction F with
  | nil => trivial
  | dir n st fs sub next ihs ihn =>
    obtain ⟨h1, h2, h3⟩ := hs
    obtain ⟨n1, n2, n3⟩ := hn
    exact ⟨by rw [listedSum_of_nodup fs sub n1]; exact h1, ihs h2 n2, ihn h3 n3⟩

end Grcov.Stats
