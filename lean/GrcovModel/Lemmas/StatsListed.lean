/-
Lemmas about the report view of the covdir tree (`Stats/Listed.lean`).
-/
import GrcovModel.Stats.Listed
import GrcovModel.Lemmas.Stats
namespace Grcov.Stats
open Grcov AList

/-- sum of the figures of the entries of a `children` object -/
def listedSum (fs : List CDFile) (sub : Forest) : CDStats := sumCD ((childrenStats fs sub).map (·.2))

/-- every directory's figures are the sum over the entries LISTED in its `children` object -/
def Forest.ListedOK : Forest → Prop
  | .nil => True
  | .dir _ st fs sub next => st = listedSum fs sub ∧ sub.ListedOK ∧ next.ListedOK

theorem set_fresh {α : Type} (m : List (Name × α)) (k : Name) (v : α) (h : k ∉ keys m) :
    set m k v = m ++ [(k, v)] := by
  induction m with
  | nil => rfl
  | cons kv m ih =>
    obtain ⟨k', w⟩ := kv
    simp only [keys, List.map_cons, List.mem_cons, not_or] at h
    have : ¬ k' = k := fun e => h.1 e.symm
    simp only [AList.set, this, if_false, List.cons_append]
    rw [ih (by simpa [keys] using h.2)]

/-- inserting entries with pairwise distinct fresh keys keeps all of them, in order -/
theorem foldl_set_nodup {α : Type} (l m : List (Name × α)) (h : (keys m ++ keys l).Nodup) :
    l.foldl (fun m kv => set m kv.1 kv.2) m = m ++ l := by
  induction l generalizing m with
  | nil => simp
  | cons kv l ih =>
    have hk : kv.1 ∉ keys m := by
      intro hm
      have := (List.nodup_append.mp h).2.2 kv.1 hm kv.1 (by simp [keys])
      exact this rfl
    rw [List.foldl_cons, set_fresh m kv.1 kv.2 hk, ih]
    · simp
    · simpa [keys, List.append_assoc] using h

theorem levelStats_keys (F : Forest) : keys F.levelStats = F.dirNames := by
  induction F with
  | nil => rfl
  | dir n st fs sub next _ ihn => simp [Forest.levelStats, Forest.dirNames, keys] at ihn ⊢; exact ihn

theorem levelStats_sum (F : Forest) : sumCD (F.levelStats.map (·.2)) = F.levelSum := by
  induction F with
  | nil => rfl
  | dir n st fs sub next _ ihn => simp [Forest.levelStats, Forest.levelSum, ihn]

/-- with distinct names every file and every sub-directory is listed: the sum over the listed
entries is the sum over the internal children -/
theorem listedSum_of_nodup (fs : List CDFile) (sub : Forest)
    (h : (fs.map (·.name) ++ sub.dirNames).Nodup) :
    listedSum fs sub = (filesSum fs).add sub.levelSum := by
  unfold listedSum childrenStats
  rw [foldl_set_nodup _ [] (by
    simpa [keys, List.map_map, Function.comp_def, levelStats_keys, ← levelStats_keys sub] using h)]
  simp [sumCD_append, filesSum, List.map_map, Function.comp_def, levelStats_sum]

theorem listedOK_of_sums (F : Forest) (hs : F.SumsOK) (hn : F.NamesOK) : F.ListedOK := by
  induction F with
  | nil => trivial
  | dir n st fs sub next ihs ihn =>
    obtain ⟨h1, h2, h3⟩ := hs
    obtain ⟨n1, n2, n3⟩ := hn
    exact ⟨by rw [listedSum_of_nodup fs sub n1]; exact h1, ihs h2 n2, ihn h3 n3⟩

end Grcov.Stats

/-! ## the tree described by the list of filed paths

`P` is the list of (directory names, file name) the results were filed under, in order. -/
namespace Grcov.Stats
open Grcov AList

abbrev Placed := List (List Name × Name)

/-- names of the files filed directly at this node -/
def rootFiles (P : Placed) : List Name := (P.filter fun p => p.1 = []).map (·.2)
/-- first directory names of the paths that go below this node -/
def headsOf (P : Placed) : List Name := P.filterMap fun p => p.1.head?
def stripOne (n : Name) (p : List Name × Name) : Option (List Name × Name) :=
  match p.1 with
  | d :: rest => if d = n then some (rest, p.2) else none
  | [] => none
/-- the paths that go through directory `n`, relative to it -/
def strip (n : Name) (P : Placed) : Placed := P.filterMap (stripOne n)

/-- the directories of one level are the ones the paths `P` describe, recursively -/
def DescLevel : Forest → Placed → Prop
  | .nil, _ => True
  | .dir n _ fs sub next, P =>
    (fs.map (·.name) = rootFiles (strip n P) ∧ sub.dirNames.Nodup ∧
      (∀ d, d ∈ sub.dirNames ↔ d ∈ headsOf (strip n P)) ∧ DescLevel sub (strip n P)) ∧ DescLevel next P

def NodeDesc (fs : List CDFile) (sub : Forest) (Q : Placed) : Prop :=
  fs.map (·.name) = rootFiles Q ∧ sub.dirNames.Nodup ∧ (∀ d, d ∈ sub.dirNames ↔ d ∈ headsOf Q) ∧ DescLevel sub Q

theorem descLevel_dir (n st fs sub next) (P : Placed) :
    DescLevel (.dir n st fs sub next) P ↔ NodeDesc fs sub (strip n P) ∧ DescLevel next P := Iff.rfl

@[simp] theorem strip_append (n : Name) (P Q : Placed) : strip n (P ++ Q) = strip n P ++ strip n Q := by
  simp [strip]
@[simp] theorem rootFiles_append (P Q : Placed) : rootFiles (P ++ Q) = rootFiles P ++ rootFiles Q := by
  simp [rootFiles]
@[simp] theorem headsOf_append (P Q : Placed) : headsOf (P ++ Q) = headsOf P ++ headsOf Q := by
  simp [headsOf]

theorem strip_single_same (d : Name) (rest : List Name) (x : Name) : strip d [(d :: rest, x)] = [(rest, x)] := by
  simp [strip, stripOne]
theorem strip_single_other {n d : Name} (h : d ≠ n) (rest : List Name) (x : Name) :
    strip n [(d :: rest, x)] = [] := by
  simp [strip, stripOne, h]
theorem strip_single_nil (n x : Name) : strip n [([], x)] = [] := by simp [strip, stripOne]

theorem strip_nil_of_not_head (d : Name) (P : Placed) (h : d ∉ headsOf P) : strip d P = [] := by
  induction P with
  | nil => rfl
  | cons p P ih =>
    obtain ⟨ds, x⟩ := p
    cases ds with
    | nil => simpa [strip, stripOne, headsOf] using ih (by simpa [headsOf] using h)
    | cons a ds =>
      have h' : ¬ d = a ∧ d ∉ headsOf P := by simpa [headsOf] using h
      have : ¬ a = d := fun e => h'.1 e.symm
      simpa [strip, stripOne, this] using ih h'.2

/-- `DescLevel F` looks at `P` only through `strip` -/
theorem descLevel_congr (F : Forest) (P Q : Placed) (h : ∀ m, strip m P = strip m Q) :
    DescLevel F P ↔ DescLevel F Q := by
  induction F with
  | nil => exact Iff.rfl
  | dir n st fs sub next _ ihn => simp only [DescLevel, h n, ihn]

theorem descLevel_append_other (F : Forest) (P : Placed) (d : Name) (rest : List Name) (x : Name)
    (h : d ∉ F.dirNames) : DescLevel F (P ++ [(d :: rest, x)]) ↔ DescLevel F P := by
  induction F with
  | nil => exact Iff.rfl
  | dir n st fs sub next _ ihn =>
    simp only [Forest.dirNames, List.mem_cons, not_or] at h
    simp only [DescLevel, strip_append, strip_single_other h.1, List.append_nil, ihn h.2]

theorem mkChain_dirNames (d : Name) (rest : List Name) (f : CDFile) : (mkChain d rest f).dirNames = [d] := by
  cases rest <;> rfl

theorem mkChain_desc (f : CDFile) : ∀ (rest : List Name) (d : Name) (Q : Placed),
    strip d Q = [(rest, f.name)] → DescLevel (mkChain d rest f) Q
  | [], d, Q, h => by
    simp [mkChain, DescLevel, h, rootFiles, headsOf, Forest.dirNames]
  | d' :: rest', d, Q, h => by
    simp only [mkChain, DescLevel, h, and_true]
    refine ⟨by simp [rootFiles], by simp [mkChain_dirNames], ?_, ?_⟩
    · intro x; simp [mkChain_dirNames, headsOf]
    · exact mkChain_desc f rest' d' _ (strip_single_same d' rest' f.name)

theorem dirNames_insert (F : Forest) (d : Name) (rest : List Name) (f : CDFile) :
    (F.insert d rest f).dirNames = if d ∈ F.dirNames then F.dirNames else F.dirNames ++ [d] := by
  induction F with
  | nil => simp [Forest.insert, mkChain_dirNames, Forest.dirNames]
  | dir n st fs sub next _ ihn =>
    unfold Forest.insert
    by_cases hn : n = d
    · subst hn
      cases rest <;> simp [Forest.dirNames]
    · have hd : ¬ d = n := fun e => hn e.symm
      simp only [hn, if_false, Forest.dirNames, ihn, List.mem_cons, hd, false_or]
      split <;> simp

/-- filing one more path keeps the description -/
theorem descLevel_insert (f : CDFile) : ∀ (F : Forest) (P : Placed) (d : Name) (rest : List Name),
    F.dirNames.Nodup → (d ∉ F.dirNames → strip d P = []) → DescLevel F P →
    DescLevel (F.insert d rest f) (P ++ [(d :: rest, f.name)])
  | .nil, P, d, rest, _, hfree, _ => by
    apply mkChain_desc
    simp [strip_append, hfree (by simp [Forest.dirNames]), strip_single_same]
  | .dir n st fs sub next, P, d, rest, hU, hfree, hD => by
    obtain ⟨⟨h1, h2, h3, h4⟩, h5⟩ := hD
    simp only [Forest.dirNames, List.nodup_cons] at hU
    unfold Forest.insert
    by_cases hn : n = d
    · subst hn
      simp only [if_true]
      cases rest with
      | nil =>
        refine ⟨⟨?_, h2, ?_, ?_⟩, (descLevel_append_other next P n [] f.name hU.1).mpr h5⟩
        · simp [strip_append, strip_single_same, h1, rootFiles]
        · intro x; simp [strip_append, strip_single_same, h3 x, headsOf]
        · refine (descLevel_congr sub _ (strip n P) ?_).mpr h4
          intro m; simp [strip_append, strip_single_same, strip_single_nil]
      | cons d' rest' =>
        refine ⟨⟨?_, ?_, ?_, ?_⟩, (descLevel_append_other next P n _ f.name hU.1).mpr h5⟩
        · simp [strip_append, strip_single_same, h1, rootFiles]
        · rw [dirNames_insert]; split
          · exact h2
          · rename_i hnot
            exact List.nodup_append.mpr ⟨h2, by simp, by
              intro a ha b hb; simp at hb; subst hb; intro e; subst e; exact hnot ha⟩
        · intro x
          rw [dirNames_insert]
          simp only [strip_append, strip_single_same, headsOf_append]
          have : headsOf [(d' :: rest', f.name)] = [d'] := by simp [headsOf]
          rw [this]
          split
          · rename_i hin
            simp only [List.mem_append, List.mem_singleton, ← h3 x]
            constructor
            · intro hx; exact .inl hx
            · rintro (hx | rfl)
              · exact hx
              · exact hin
          · simp [h3 x]
        · simp only [strip_append, strip_single_same]
          exact descLevel_insert f sub (strip n P) d' rest' h2
            (fun hnot => strip_nil_of_not_head d' _ (fun hh => hnot ((h3 d').mpr hh))) h4
    · have hd : d ≠ n := fun e => hn e.symm
      simp only [hn, if_false]
      refine ⟨⟨?_, h2, ?_, ?_⟩, ?_⟩
      · simpa [strip_append, strip_single_other hd] using h1
      · intro x; simpa [strip_append, strip_single_other hd] using h3 x
      · simpa [strip_append, strip_single_other hd] using h4
      · exact descLevel_insert f next P d rest hU.2
          (fun hnot => hfree (by simp [Forest.dirNames, hd, hnot])) h5

/-- the guard on the filed paths: pairwise distinct, and no file path is a directory of another -/
structure PGuard (P : Placed) : Prop where
  distinct : P.Nodup
  noFileDir : ∀ p ∈ P, ∀ p' ∈ P, ¬ (p.1 ++ [p.2]) <+: p'.1

theorem stripOne_inj (n : Name) {p q r} (hp : stripOne n p = some r) (hq : stripOne n q = some r) : p = q := by
  obtain ⟨pd, px⟩ := p; obtain ⟨qd, qx⟩ := q
  unfold stripOne at hp hq
  cases pd with
  | nil => simp at hp
  | cons a pd =>
    cases qd with
    | nil => simp at hq
    | cons b qd =>
      simp only at hp hq
      split at hp
      · split at hq
        · rename_i e1 e2
          simp only [Option.some.injEq] at hp hq
          rw [← hq] at hp
          cases hp
          rw [e1, e2]
        · cases hq
      · cases hp

theorem nodup_filterMap_inj {α β : Type} (g : α → Option β)
    (hinj : ∀ a b c, g a = some c → g b = some c → a = b) :
    ∀ (l : List α), l.Nodup → (l.filterMap g).Nodup
  | [], _ => by simp
  | a :: l, h => by
    obtain ⟨h1, h2⟩ := List.nodup_cons.mp h
    cases hg : g a with
    | none => simpa [List.filterMap_cons, hg] using nodup_filterMap_inj g hinj l h2
    | some c =>
      rw [List.filterMap_cons, hg]
      refine List.nodup_cons.mpr ⟨?_, nodup_filterMap_inj g hinj l h2⟩
      intro hc
      obtain ⟨b, hb, hgb⟩ := List.mem_filterMap.mp hc
      exact h1 (hinj a b c hg hgb ▸ hb)

theorem mem_strip {n : Name} {P : Placed} {q : List Name × Name} (h : q ∈ strip n P) :
    (n :: q.1, q.2) ∈ P := by
  obtain ⟨p, hp, hs⟩ := List.mem_filterMap.mp h
  obtain ⟨pd, px⟩ := p
  unfold stripOne at hs
  cases pd with
  | nil => simp at hs
  | cons a pd =>
    simp only at hs
    split at hs
    · rename_i e; subst e; simp only [Option.some.injEq] at hs; subst hs; exact hp
    · cases hs

theorem PGuard.strip {P : Placed} (g : PGuard P) (n : Name) : PGuard (strip n P) :=
  ⟨nodup_filterMap_inj _ (fun _ _ _ => stripOne_inj n) P g.distinct, by
    intro q hq q' hq' hpre
    have := g.noFileDir _ (mem_strip hq) _ (mem_strip hq')
    exact this (by simpa using hpre)⟩

theorem nodup_map_of_inj_on {α β : Type} (f : α → β) :
    ∀ (l : List α), l.Nodup → (∀ a ∈ l, ∀ b ∈ l, f a = f b → a = b) → (l.map f).Nodup
  | [], _, _ => by simp
  | a :: l, h, hinj => by
    obtain ⟨h1, h2⟩ := List.nodup_cons.mp h
    refine List.nodup_cons.mpr ⟨?_, nodup_map_of_inj_on f l h2 (fun x hx y hy => hinj x (by simp [hx]) y (by simp [hy]))⟩
    intro hm
    obtain ⟨b, hb, hfb⟩ := List.mem_map.mp hm
    exact h1 (hinj a (by simp) b (by simp [hb]) hfb.symm ▸ hb)

theorem names_of_nodeDesc {fs : List CDFile} {sub : Forest} {Q : Placed} (g : PGuard Q)
    (h : NodeDesc fs sub Q) : (fs.map (·.name) ++ sub.dirNames).Nodup := by
  obtain ⟨h1, h2, h3, _⟩ := h
  rw [h1]
  refine List.nodup_append.mpr ⟨?_, h2, ?_⟩
  · unfold rootFiles
    refine nodup_map_of_inj_on _ _ (List.Pairwise.filter _ g.distinct) ?_
    intro a ha b hb hab
    simp only [List.mem_filter, decide_eq_true_eq] at ha hb
    obtain ⟨ad, ax⟩ := a; obtain ⟨bd, bx⟩ := b
    simp only at ha hb hab
    rw [ha.2, hb.2, hab]
  · intro x hx y hy hxy
    subst hxy
    unfold rootFiles at hx
    obtain ⟨p, hp, hpx⟩ := List.mem_map.mp hx
    simp only [List.mem_filter, decide_eq_true_eq] at hp
    have hh := (h3 x).mp hy
    unfold headsOf at hh
    obtain ⟨p', hp', hhead⟩ := List.mem_filterMap.mp hh
    refine g.noFileDir p hp.1 p' hp' ?_
    obtain ⟨pd', px'⟩ := p'
    cases pd' with
    | nil => simp at hhead
    | cons a rest =>
      simp only [List.head?_cons, Option.some.injEq] at hhead
      rw [hp.2, hpx, hhead]
      simp

/-- with the guard, every directory described by `P` has children with pairwise distinct names -/
theorem namesOK_of_desc : ∀ (F : Forest) (P : Placed), PGuard P → DescLevel F P → F.NamesOK
  | .nil, _, _, _ => trivial
  | .dir n _ fs sub next, P, g, h => by
    obtain ⟨hnode, hnext⟩ := h
    exact ⟨names_of_nodeDesc (g.strip n) hnode, namesOK_of_desc sub _ (g.strip n) hnode.2.2.2,
      namesOK_of_desc next P g hnext⟩

/-! ### the whole build -/

theorem nodeDesc_insert (r : CDRoot) (P : Placed) (dirs : List Name) (f : CDFile)
    (h : NodeDesc r.files r.sub P) :
    NodeDesc (r.insert dirs f).files (r.insert dirs f).sub (P ++ [(dirs, f.name)]) := by
  obtain ⟨h1, h2, h3, h4⟩ := h
  cases dirs with
  | nil =>
    refine ⟨by simp [CDRoot.insert, h1, rootFiles], h2, ?_, ?_⟩
    · intro x; simp [CDRoot.insert, h3 x, headsOf]
    · refine (descLevel_congr r.sub _ P ?_).mpr h4
      intro m; simp [strip_append, strip_single_nil]
  | cons d rest =>
    refine ⟨by simp [CDRoot.insert, h1, rootFiles], ?_, ?_, ?_⟩
    · simp only [CDRoot.insert]
      rw [dirNames_insert]; split
      · exact h2
      · rename_i hnot
        exact List.nodup_append.mpr ⟨h2, by simp, by
          intro a ha b hb; simp at hb; subst hb; intro e; subst e; exact hnot ha⟩
    · intro x
      simp only [CDRoot.insert]
      rw [dirNames_insert]
      have : headsOf [(d :: rest, f.name)] = [d] := by simp [headsOf]
      simp only [headsOf_append, this]
      split
      · rename_i hin
        simp only [List.mem_append, List.mem_singleton, ← h3 x]
        constructor
        · intro hx; exact .inl hx
        · rintro (hx | rfl)
          · exact hx
          · exact hin
      · simp [h3 x]
    · exact descLevel_insert f r.sub P d rest h2
        (fun hnot => strip_nil_of_not_head d _ (fun hh => hnot ((h3 d).mpr hh))) h4

/-- the (directory names, file name) a result is filed under -/
def placedPath (r : FileIn) : List Name × Name := (r.cdPath.dropLast, r.cdPath.getLastD [])

theorem covdirBuild_desc (rs : List FileIn) :
    NodeDesc (covdirBuild rs).files (covdirBuild rs).sub (rs.map placedPath) := by
  have key : ∀ (rs : List FileIn) (root : CDRoot) (P : Placed), NodeDesc root.files root.sub P →
      let out := rs.foldl (fun root r =>
        let p := r.cdPath
        root.insert p.dropLast (cdFileNew (p.getLastD []) r.cov.lines)) root
      NodeDesc out.files out.sub (P ++ rs.map placedPath) := by
    intro rs
    induction rs with
    | nil => intro root P h; simpa using h
    | cons r rs ih =>
      intro root P h
      have := nodeDesc_insert root P r.cdPath.dropLast (cdFileNew (r.cdPath.getLastD []) r.cov.lines) h
      have := ih _ _ this
      simpa [placedPath, cdFileNew, List.append_assoc] using this
  have := key rs ⟨.zero, [], .nil⟩ [] (by simp [NodeDesc, rootFiles, headsOf, Forest.dirNames, DescLevel])
  simpa [covdirBuild] using this

theorem setStats_dirNames (F : Forest) : F.setStats.dirNames = F.dirNames := by
  induction F with
  | nil => rfl
  | dir n st fs sub next _ ihn => simp [Forest.setStats, Forest.dirNames, ihn]

theorem setStats_namesOK (F : Forest) (h : F.NamesOK) : F.setStats.NamesOK := by
  induction F with
  | nil => trivial
  | dir n st fs sub next ihs ihn =>
    obtain ⟨h1, h2, h3⟩ := h
    exact ⟨by simpa [setStats_dirNames] using h1, ihs h2, ihn h3⟩

/-- with the guard on the filed paths, every directory of the tree the writer returns has children
with pairwise distinct names -/
theorem covdirTree_namesOK (rs : List FileIn) (g : PGuard (rs.map placedPath)) : (covdirTree rs).NamesOK := by
  have hd := covdirBuild_desc rs
  have h1 := names_of_nodeDesc g hd
  have h2 := namesOK_of_desc _ _ g hd.2.2.2
  exact ⟨by simpa [covdirTree, CDRoot.setStats, setStats_dirNames] using h1,
    by simpa [covdirTree, CDRoot.setStats] using setStats_namesOK _ h2⟩

end Grcov.Stats
