/-
Lemmas for the byte layer of C10: the tokenizer model reads back every well-formed byte-level
document (`events (renderL nodes) = flattenL nodes`).
-/
import GrcovModel.Jacoco.BytesSer
import GrcovModel.Lemmas.Jacoco
namespace Grcov.Jacoco.Bytes
open Grcov Grcov.Jacoco
open Grcov.Writers.CobBytes (isWs isName isNameByte isNameStart)

/-! ## lists -/

theorem span_app {p : Nat → Bool} (l r : List Nat) (hl : l.all p = true)
    (hr : ∀ c r', r = c :: r' → p c = false) :
    (l ++ r).takeWhile p = l ∧ (l ++ r).dropWhile p = r := by
  induction l with
  | nil =>
    cases r with
    | nil => simp
    | cons c r' => simp [hr c r' rfl]
  | cons b l ih =>
    simp only [List.all_cons, Bool.and_eq_true] at hl
    simp [hl.1, ih hl.2]

theorem dropWhile_all {p : Nat → Bool} (l : List Nat) (hl : l.all p = true) : l.dropWhile p = [] := by
  have := (span_app l [] hl (by intro c r h; cases h)).2
  simpa using this

/-! ## name bytes -/

theorem nameByte_facts {b : Nat} (h : isNameByte b = true) :
    isWs b = false ∧ b ≠ 62 ∧ b ≠ 34 ∧ b ≠ 39 ∧ b ≠ 61 ∧ b ≠ 47 ∧ b ≠ 60 := by
  simp only [isNameByte, isNameStart, Bool.or_eq_true, Bool.and_eq_true, decide_eq_true_eq,
    beq_iff_eq] at h
  refine ⟨?_, ?_, ?_, ?_, ?_, ?_, ?_⟩
  · simp only [isWs, Bool.or_eq_false_iff, beq_eq_false_iff_ne]; omega
  all_goals omega

theorem nameStart_nameByte {b : Nat} (h : isNameStart b = true) : isNameByte b = true := by
  simp [isNameByte, h]

theorem nameStart_facts {b : Nat} (h : isNameStart b = true) : b ≠ 33 ∧ b ≠ 47 ∧ b ≠ 63 ∧ b ≠ 60 := by
  simp only [isNameStart, Bool.or_eq_true, Bool.and_eq_true, decide_eq_true_eq, beq_iff_eq] at h
  omega

theorem isName_parts {n : Name} (h : isName n = true) :
    ∃ c r, n = c :: r ∧ isNameStart c = true ∧ n.all isNameByte = true := by
  cases n with
  | nil => simp [isName] at h
  | cons c r =>
    simp only [isName, Bool.and_eq_true] at h
    exact ⟨c, r, rfl, h.1, by simp [nameStart_nameByte h.1, h.2]⟩

theorem ws_facts {b : Nat} (h : isWs b = true) : b ≠ 62 ∧ b ≠ 34 ∧ b ≠ 39 ∧ b ≠ 61 ∧ b ≠ 47 ∧ b ≠ 60 := by
  simp only [isWs, Bool.or_eq_true, beq_iff_eq] at h
  omega

/-! ## `scanTag` -/

/-- neither `>` nor a quote -/
def plain (b : Nat) : Bool := b != 62 && b != 34 && b != 39

theorem scanTag_plain (seg : List Nat) (h : seg.all plain = true) {r c rest : List Nat}
    (hr : scanTag 0 r = some (c, rest)) : scanTag 0 (seg ++ r) = some (seg ++ c, rest) := by
  induction seg with
  | nil => simpa using hr
  | cons b seg ih =>
    simp only [List.all_cons, Bool.and_eq_true, plain, bne_iff_ne] at h
    have h1 : b ≠ 62 := h.1.1.1
    have h2 : ¬ (b = 34 ∨ b = 39) := by omega
    simp only [List.cons_append, scanTag, if_true, h1, if_false, h2, ih h.2, Option.map_some]

theorem scanTag_inq (q : Nat) (hq : q ≠ 0) (raw : List Nat) (hraw : raw.contains q = false)
    {r c rest : List Nat} (hr : scanTag 0 r = some (c, rest)) :
    scanTag q (raw ++ q :: r) = some (raw ++ q :: c, rest) := by
  induction raw with
  | nil => simp [scanTag, hq, hr]
  | cons b raw ih =>
    simp only [List.contains_cons, Bool.or_eq_false_iff, beq_eq_false_iff_ne] at hraw
    have hb : ¬ b = q := fun e => hraw.1 e.symm
    simp only [List.cons_append, scanTag, hq, if_false, hb, ih hraw.2, Option.map_some]

theorem all_plain_of_ws {l : List Nat} (h : l.all isWs = true) : l.all plain = true := by
  rw [List.all_eq_true] at h ⊢
  intro b hb
  have := ws_facts (h b hb)
  simp [plain]; omega

theorem all_plain_of_name {l : List Nat} (h : l.all isNameByte = true) : l.all plain = true := by
  rw [List.all_eq_true] at h ⊢
  intro b hb
  have := nameByte_facts (h b hb)
  simp [plain]; omega

theorem battr_wf {a : BAttr} (h : a.wf = true) :
    a.pre ≠ [] ∧ a.pre.all isWs = true ∧ isName a.key = true ∧ a.eqL.all isWs = true
    ∧ a.eqR.all isWs = true ∧ (a.quote = 34 ∨ a.quote = 39) ∧ a.raw.contains a.quote = false := by
  simp only [BAttr.wf, Bool.and_eq_true, Bool.not_eq_true', Bool.or_eq_true, beq_iff_eq,
    List.isEmpty_eq_false_iff] at h
  obtain ⟨⟨⟨⟨⟨⟨h1, h2⟩, h3⟩, h4⟩, h5⟩, h6⟩, h7⟩ := h
  exact ⟨h1, h2, h3, h4, h5, h6, h7⟩

theorem scanTag_attr (a : BAttr) (h : a.wf = true) {r c rest : List Nat}
    (hr : scanTag 0 r = some (c, rest)) : scanTag 0 (a.render ++ r) = some (a.render ++ c, rest) := by
  obtain ⟨_, h2, h3, h4, h5, h6, h7⟩ := battr_wf h
  obtain ⟨_, _, _, _, hk⟩ := isName_parts h3
  have hq0 : a.quote ≠ 0 := by omega
  have hq : (a.quote = 34 ∨ a.quote = 39) := h6
  have e : a.render ++ r
      = a.pre ++ (a.key ++ (a.eqL ++ ([61] ++ (a.eqR ++ (a.quote :: (a.raw ++ a.quote :: r)))))) := by
    simp [BAttr.render]
  have e' : a.render ++ c
      = a.pre ++ (a.key ++ (a.eqL ++ ([61] ++ (a.eqR ++ (a.quote :: (a.raw ++ a.quote :: c)))))) := by
    simp [BAttr.render]
  rw [e, e']
  apply scanTag_plain _ (all_plain_of_ws h2)
  apply scanTag_plain _ (all_plain_of_name hk)
  apply scanTag_plain _ (all_plain_of_ws h4)
  apply scanTag_plain _ (by decide)
  apply scanTag_plain _ (all_plain_of_ws h5)
  have hq62 : a.quote ≠ 62 := by omega
  simp only [scanTag, if_true, hq62, if_false, hq, scanTag_inq a.quote hq0 a.raw h7 hr, Option.map_some]

theorem scanTag_attrs (as : List BAttr) (h : as.all BAttr.wf = true) {r c rest : List Nat}
    (hr : scanTag 0 r = some (c, rest)) :
    scanTag 0 (as.flatMap BAttr.render ++ r) = some (as.flatMap BAttr.render ++ c, rest) := by
  induction as with
  | nil => simpa using hr
  | cons a as ih =>
    simp only [List.all_cons, Bool.and_eq_true] at h
    simp only [List.flatMap_cons, List.append_assoc]
    exact scanTag_attr a h.1 (ih h.2)


/-! ## the attribute iterator on rendered attributes -/

theorem render_length_pos (a : BAttr) : 1 ≤ a.render.length := by
  simp [BAttr.render]; omega

theorem attrs_length_le (as : List BAttr) : as.length ≤ (as.flatMap BAttr.render).length := by
  induction as with
  | nil => simp
  | cons a as ih =>
    have := render_length_pos a
    simp only [List.flatMap_cons, List.length_cons, List.length_append]; omega

def isKeyEnd (b : Nat) : Bool := b == 61 || isWs b

theorem splitAttrs_render (as : List BAttr) (h : as.all BAttr.wf = true) (tail : List Nat)
    (ht : tail.all isWs = true) :
    ∀ fuel, as.length + 1 ≤ fuel →
      splitAttrs fuel (as.flatMap BAttr.render ++ tail) = as.map BAttr.attr := by
  induction as with
  | nil =>
    intro fuel hf
    obtain ⟨f, rfl⟩ : ∃ f, fuel = f + 1 := ⟨fuel - 1, by simp at hf; omega⟩
    simp [splitAttrs, dropWhile_all tail ht]
  | cons a as ih =>
    intro fuel hf
    simp only [List.all_cons, Bool.and_eq_true] at h
    obtain ⟨_, h2, h3, h4, h5, h6, h7⟩ := battr_wf h.1
    obtain ⟨kc, kr, hkey, hks, hk⟩ := isName_parts h3
    obtain ⟨f, rfl⟩ : ∃ f, fuel = f + 1 := ⟨fuel - 1, by simp at hf; omega⟩
    have hkr : kr.all isNameByte = true := by rw [hkey] at hk; simp only [List.all_cons, Bool.and_eq_true] at hk; exact hk.2
    let restA := as.flatMap BAttr.render ++ tail
    have e : (a :: as).flatMap BAttr.render ++ tail
        = a.pre ++ (kc :: (kr ++ (a.eqL ++ (61 :: (a.eqR ++ (a.quote :: (a.raw ++ a.quote :: restA))))))) := by
      simp [BAttr.render, hkey, restA]
    have hkc := nameByte_facts (nameStart_nameByte hks)
    -- skip the blanks before the key
    have s1 := (span_app (p := isWs) a.pre
      (kc :: (kr ++ (a.eqL ++ (61 :: (a.eqR ++ (a.quote :: (a.raw ++ a.quote :: restA)))))))
      h2 (by intro c r' e; cases e; exact hkc.1)).2
    -- the key ends at a blank or `=`
    have hkr' : kr.all (fun b => !(b == 61 || isWs b)) = true := by
      rw [List.all_eq_true] at hkr ⊢
      intro b hb
      have := nameByte_facts (hkr b hb)
      simp [this.1]; exact this.2.2.2.2.1
    have s2 := span_app (p := fun b => !(b == 61 || isWs b)) kr
      (a.eqL ++ (61 :: (a.eqR ++ (a.quote :: (a.raw ++ a.quote :: restA)))))
      hkr' (by
        intro c r' e
        cases hl : a.eqL with
        | nil => rw [hl] at e; simp at e; simp [← e.1]
        | cons x xs =>
          rw [hl] at e; simp at e
          have : isWs x = true := by rw [hl] at h4; simp at h4; exact h4.1
          simp [← e.1, this])
    have s3 := (span_app (p := isWs) a.eqL (61 :: (a.eqR ++ (a.quote :: (a.raw ++ a.quote :: restA))))
      h4 (by intro c r' e; cases e; decide)).2
    have hq34 : isWs a.quote = false := by rcases h6 with e | e <;> rw [e] <;> decide
    have s4 := (span_app (p := isWs) a.eqR (a.quote :: (a.raw ++ a.quote :: restA))
      h5 (by intro c r' e; cases e; exact hq34)).2
    have hraw : a.raw.all (· != a.quote) = true := by
      rw [List.all_eq_true]; intro b hb
      simp only [bne_iff_ne]
      intro e
      have : a.raw.contains a.quote = true := List.contains_iff_mem.mpr (e ▸ hb)
      rw [this] at h7; cases h7
    have s5 := span_app (p := (· != a.quote)) a.raw (a.quote :: restA) hraw
      (by intro c r' e; cases e; simp)
    have ihr := ih h.2 f (by simp at hf; omega)
    rw [e]
    unfold splitAttrs
    simp only [s1]
    simp only [s2.1, s2.2, s3, s4]
    rcases h6 with hq | hq
    · rw [hq] at s5 ⊢
      simp only [s5.1, s5.2, List.map_cons, BAttr.attr, hkey, hq]
      exact congrArg _ ihr
    · rw [hq] at s5 ⊢
      simp only [s5.1, s5.2, List.map_cons, BAttr.attr, hkey, hq]
      exact congrArg _ ihr

/-- what follows the name inside a tag: nothing, or something that starts with a blank -/
theorem afterName_head (as : List BAttr) (h : as.all BAttr.wf = true) (tail : List Nat)
    (ht : tail.all isWs = true) :
    ∀ c r', as.flatMap BAttr.render ++ tail = c :: r' → isWs c = true := by
  intro c r' e
  cases as with
  | nil =>
    simp at e
    rw [e] at ht; simp at ht; exact ht.1
  | cons a as =>
    simp only [List.all_cons, Bool.and_eq_true] at h
    obtain ⟨h1, h2, _⟩ := battr_wf h.1
    cases hp : a.pre with
    | nil => exact absurd hp h1
    | cons x xs =>
      simp [BAttr.render, hp] at e
      rw [hp] at h2; simp at h2
      rw [← e.1]; exact h2.1

theorem nameOf_content (n : Name) (hn : isName n = true) (as : List BAttr)
    (h : as.all BAttr.wf = true) (tail : List Nat) (ht : tail.all isWs = true) :
    nameOf (n ++ (as.flatMap BAttr.render ++ tail)) = n
    ∧ attrsOf (n ++ (as.flatMap BAttr.render ++ tail)) = as.map BAttr.attr := by
  obtain ⟨_, _, _, _, hk⟩ := isName_parts hn
  have hnw : n.all (fun b => !isWs b) = true := by
    rw [List.all_eq_true] at hk ⊢
    intro b hb; simp [(nameByte_facts (hk b hb)).1]
  have sp := span_app (p := fun b => !isWs b) n (as.flatMap BAttr.render ++ tail) hnw
    (by intro c r' e; simp [afterName_head as h tail ht c r' e])
  refine ⟨sp.1, ?_⟩
  unfold attrsOf
  rw [sp.2]
  apply splitAttrs_render as h tail ht
  have := attrs_length_le as
  simp only [List.length_append]; omega

/-! ## the last byte of a start tag's content -/

theorem getLast_app_ne {a b : List Nat} (ha : a.getLast? ≠ some 47) (hb : b.getLast? ≠ some 47) :
    (a ++ b).getLast? ≠ some 47 := by
  rw [List.getLast?_append]
  cases h : b.getLast? with
  | none => simpa using ha
  | some x => rw [h] at hb; simpa using hb

theorem getLast_of_all {l : List Nat} (h : ∀ b ∈ l, b ≠ 47) : l.getLast? ≠ some 47 := by
  intro e
  exact h 47 (List.mem_of_getLast? e) rfl

theorem render_getLast (a : BAttr) (h : a.wf = true) : a.render.getLast? ≠ some 47 := by
  obtain ⟨_, _, _, _, _, h6, _⟩ := battr_wf h
  have : a.render = (a.pre ++ a.key ++ a.eqL ++ 61 :: (a.eqR ++ a.quote :: a.raw)) ++ [a.quote] := by
    simp [BAttr.render]
  rw [this, List.getLast?_append]
  simp; omega

theorem attrs_getLast (as : List BAttr) (h : as.all BAttr.wf = true) :
    (as.flatMap BAttr.render).getLast? ≠ some 47 := by
  induction as with
  | nil => simp
  | cons a as ih =>
    simp only [List.all_cons, Bool.and_eq_true] at h
    simp only [List.flatMap_cons]
    exact getLast_app_ne (render_getLast a h.1) (ih h.2)

theorem content_getLast (n : Name) (hn : isName n = true) (as : List BAttr)
    (h : as.all BAttr.wf = true) (tail : List Nat) (ht : tail.all isWs = true) :
    (n ++ (as.flatMap BAttr.render ++ tail)).getLast? ≠ some 47 := by
  obtain ⟨_, _, _, _, hk⟩ := isName_parts hn
  apply getLast_app_ne
  · apply getLast_of_all
    rw [List.all_eq_true] at hk
    intro b hb; exact (nameByte_facts (hk b hb)).2.2.2.2.2.1
  · apply getLast_app_ne (attrs_getLast as h)
    apply getLast_of_all
    rw [List.all_eq_true] at ht
    intro b hb; exact (ws_facts (ht b hb)).2.2.2.2.1

/-! ## end tags -/

theorem trimEnd_name (n : Name) (hn : isName n = true) (et : List Nat) (het : et.all isWs = true) :
    trimEnd (n ++ et) = n := by
  obtain ⟨c, r, hc, hs, hk⟩ := isName_parts hn
  have hcw : isWs c = false := (nameByte_facts (nameStart_nameByte hs)).1
  have hall : (n ++ et).all isWs = false := by
    rw [hc]; simp [hcw]
  unfold trimEnd
  rw [hall]
  simp only [Bool.false_eq_true, if_false, List.reverse_append]
  have hne : n.reverse ≠ [] := by rw [hc]; simp
  have hlast : ∀ x r', n.reverse = x :: r' → isWs x = false := by
    intro x r' e
    have hx : x ∈ n := by
      have : x ∈ n.reverse := by rw [e]; exact List.mem_cons_self ..
      exact List.mem_reverse.mp this
    rw [List.all_eq_true] at hk
    exact (nameByte_facts (hk x hx)).1
  have := (span_app (p := isWs) et.reverse n.reverse (by simpa using het) hlast).2
  rw [this]; simp


/-! ## comments, CDATA, DOCTYPE, PIs: the scanners do not look past what they consume -/

theorem isPrefixOf'_length {pat l : List Nat} (h : isPrefixOf' pat l = true) : pat.length ≤ l.length := by
  induction pat generalizing l with
  | nil => simp
  | cons a pat ih =>
    cases l with
    | nil => simp [isPrefixOf'] at h
    | cons b l =>
      simp only [isPrefixOf', Bool.and_eq_true] at h
      have := ih h.2
      simp only [List.length_cons]; omega

theorem isPrefixOf'_append (pat l r : List Nat) (h : pat.length ≤ l.length) :
    isPrefixOf' pat (l ++ r) = isPrefixOf' pat l := by
  induction pat generalizing l with
  | nil => simp [isPrefixOf']
  | cons a pat ih =>
    cases l with
    | nil => simp at h
    | cons b l =>
      simp only [List.length_cons] at h
      simp only [List.cons_append, isPrefixOf', ih l (by omega)]

theorem splitAtSeq_length {pat : List Nat} : ∀ {l a b : List Nat},
    splitAtSeq pat l = some (a, b) → pat.length ≤ l.length := by
  intro l
  induction l with
  | nil =>
    intro a b h
    simp only [splitAtSeq] at h
    split at h
    · rename_i he; simp [List.isEmpty_iff.mp he]
    · cases h
  | cons x l ih =>
    intro a b h
    simp only [splitAtSeq] at h
    split at h
    · rename_i hp; exact isPrefixOf'_length hp
    · cases hs : splitAtSeq pat l with
      | none => rw [hs] at h; cases h
      | some p =>
        have := ih (a := p.1) (b := p.2) (by rw [hs])
        simp only [List.length_cons]; omega

theorem splitAtSeq_append (pat : List Nat) : ∀ (l a b rest : List Nat),
    splitAtSeq pat l = some (a, b) → splitAtSeq pat (l ++ rest) = some (a, b ++ rest) := by
  intro l
  induction l with
  | nil =>
    intro a b rest h
    simp only [splitAtSeq] at h
    split at h
    · rename_i he
      have hp := List.isEmpty_iff.mp he
      cases h
      subst hp
      cases rest with
      | nil => simp [splitAtSeq]
      | cons c r => simp [splitAtSeq, isPrefixOf']
    · cases h
  | cons x l ih =>
    intro a b rest h
    simp only [splitAtSeq] at h
    split at h
    · rename_i hp
      cases h
      have hl := isPrefixOf'_length hp
      simp only [List.cons_append, splitAtSeq]
      have : isPrefixOf' pat (x :: (l ++ rest)) = true := by
        have := isPrefixOf'_append pat (x :: l) rest hl
        simpa [hp] using this
      rw [this]
      simp only [if_true, Option.some.injEq, Prod.mk.injEq, true_and]
      rw [← List.cons_append, List.drop_append_of_le_length hl]
    · rename_i hp
      cases hs : splitAtSeq pat l with
      | none => rw [hs] at h; cases h
      | some p =>
        rw [hs] at h
        simp only [Option.map_some, Option.some.injEq, Prod.mk.injEq] at h
        have hl := splitAtSeq_length (a := p.1) (b := p.2) (by rw [hs])
        have hnp : isPrefixOf' pat (x :: (l ++ rest)) = false := by
          have := isPrefixOf'_append pat (x :: l) rest (by simp only [List.length_cons]; omega)
          simp only [List.cons_append] at this
          rw [this]; simpa using hp
        simp only [List.cons_append, splitAtSeq, hnp, Bool.false_eq_true, if_false]
        rw [ih p.1 p.2 rest (by rw [hs])]
        simp [← h.1, ← h.2]

theorem scanDoctype_append : ∀ (l : List Nat) (bal : Nat) (a b rest : List Nat),
    scanDoctype bal l = some (a, b) → scanDoctype bal (l ++ rest) = some (a, b ++ rest) := by
  intro l
  induction l with
  | nil => intro bal a b rest h; simp [scanDoctype] at h
  | cons x l ih =>
    intro bal a b rest h
    by_cases hx : x = 62
    · by_cases hb : bal = 0
      · simp only [scanDoctype, hx, hb, if_true] at h
        cases h
        simp [scanDoctype, hx, hb]
      · simp only [scanDoctype, hx, hb, if_true, if_false] at h
        cases hs : scanDoctype (bal - 1) l with
        | none => rw [hs] at h; cases h
        | some p =>
          rw [hs] at h
          simp only [Option.map_some, Option.some.injEq, Prod.mk.injEq] at h
          simp only [List.cons_append, scanDoctype, hx, hb, if_true, if_false,
            ih (bal - 1) p.1 p.2 rest (by rw [hs]), Option.map_some]
          simp [← h.1, ← h.2]
    · simp only [scanDoctype, hx, if_false] at h
      cases hs : scanDoctype (if x = 60 then bal + 1 else bal) l with
      | none => rw [hs] at h; cases h
      | some p =>
        rw [hs] at h
        simp only [Option.map_some, Option.some.injEq, Prod.mk.injEq] at h
        simp only [List.cons_append, scanDoctype, hx, if_false,
          ih _ p.1 p.2 rest (by rw [hs]), Option.map_some]
        simp [← h.1, ← h.2]

theorem scanBang_append (r b rest : List Nat) (h : scanBang r = some b) :
    scanBang (r ++ rest) = some (b ++ rest) := by
  unfold scanBang at h
  split at h
  · -- comment
    rename_i r1
    split at h
    · rename_i r2
      cases hs : splitAtSeq [45, 45, 62] r2 with
      | none => rw [hs] at h; cases h
      | some p =>
        rw [hs] at h
        simp only [Option.map_some, Option.some.injEq] at h
        have := splitAtSeq_append [45, 45, 62] r2 p.1 p.2 rest (by rw [hs])
        simp [scanBang, this, h]
    · cases h
  · -- CDATA
    rename_i r1
    cases hs : splitAtSeq [93, 93, 62] r1 with
    | none => rw [hs] at h; cases h
    | some p =>
      rw [hs] at h
      have := splitAtSeq_append [93, 93, 62] r1 p.1 p.2 rest (by rw [hs])
      simp only at h
      split at h
      · rename_i hc
        cases h
        simp only [List.cons_append, scanBang, this]
        have hc' : isPrefixOf' sCdataOpen (91 :: (p.1 ++ [93, 93])) = true := hc
        simp [hc']
      · cases h
  · -- DOCTYPE
    rename_i x r1 hx1 hx2
    split at h
    · rename_i hd
      cases hs : scanDoctype 0 (x :: r1) with
      | none => rw [hs] at h; cases h
      | some p =>
        rw [hs] at h
        have := scanDoctype_append (x :: r1) 0 p.1 p.2 rest (by rw [hs])
        simp only at h
        split at h
        · rename_i hc
          cases h
          have e : (x :: r1) ++ rest = x :: (r1 ++ rest) := rfl
          rw [e] at this
          have n1 : x ≠ 45 := hx1
          have n2 : x ≠ 91 := hx2
          simp only [List.cons_append]
          unfold scanBang
          split
          · rename_i heq; cases heq; exact absurd rfl n1
          · rename_i heq; cases heq; exact absurd rfl n2
          · rename_i y r2 _ _ heq
            cases heq
            simp only [hd, if_true, this, hc]
            simp
          · rename_i heq; cases heq
        · cases h
    · cases h
  · cases h

theorem scanPi_append (r b rest : List Nat) (h : scanPi r = some b) :
    scanPi (r ++ rest) = some (b ++ rest) := by
  unfold scanPi at h ⊢
  cases hs : splitAtSeq [63, 62] r with
  | none => rw [hs] at h; cases h
  | some p =>
    rw [hs] at h
    rw [splitAtSeq_append [63, 62] r p.1 p.2 rest (by rw [hs])]
    simp only at h ⊢
    split at h
    · cases h
    · rename_i hb; cases h; simp [hb]

/-! ## one step of the event loop -/

theorem tok_text (k : Nat) (b : Nat) (r : List Nat) (st : List Name) (hb : b ≠ 60) :
    tokLoop (k + 1) (b :: r) st = .text :: tokLoop k ((b :: r).dropWhile (· != 60)) st := by
  simp [tokLoop, hb]

theorem tok_bang (k : Nat) (r1 : List Nat) (st : List Name) (rest : List Nat)
    (h : scanBang r1 = some rest) :
    tokLoop (k + 1) (60 :: 33 :: r1) st = .other :: tokLoop k rest st := by
  rw [tokLoop]; simp [h]

theorem tok_pi (k : Nat) (r1 : List Nat) (st : List Name) (rest : List Nat)
    (h : scanPi (63 :: r1) = some rest) :
    tokLoop (k + 1) (60 :: 63 :: r1) st = .other :: tokLoop k rest st := by
  rw [tokLoop]; simp [h]

theorem tok_end (k : Nat) (r1 : List Nat) (top : Name) (st : List Name) (content rest : List Nat)
    (h : scanTag 0 r1 = some (content, rest)) (ht : trimEnd content = top) :
    tokLoop (k + 1) (60 :: 47 :: r1) (top :: st) = .end_ top :: tokLoop k rest st := by
  rw [tokLoop]; simp [h, ht]

theorem tok_open (k : Nat) (c : Nat) (r' : List Nat) (st : List Name)
    (h1 : c ≠ 33) (h2 : c ≠ 47) (h3 : c ≠ 63) (content rest : List Nat)
    (h : scanTag 0 (c :: r') = some (content, rest)) :
    tokLoop (k + 1) (60 :: c :: r') st
      = if content.getLast? = some 47 then
          .empty (nameOf content.dropLast) (attrsOf content.dropLast) :: tokLoop k rest st
        else .start (nameOf content) (attrsOf content) :: tokLoop k rest (nameOf content :: st) := by
  rw [tokLoop]; simp [h1, h2, h3, h]


/-! ## the tokenizer reads back every well-formed byte-level document -/

/-- what may follow a text node: nothing, or markup -/
def StartsLt (rest : List Nat) : Prop := ∀ c r', rest = c :: r' → c = 60

theorem startsLt_nil : StartsLt [] := by intro c r h; cases h

theorem startsLt_cons (r : List Nat) : StartsLt (60 :: r) := by
  intro c r' h; cases h; rfl

theorem miscOk_head {raw : List Nat} (h : miscOk raw = true) : ∃ r, raw = 60 :: r := by
  unfold miscOk at h
  split at h
  · exact ⟨_, rfl⟩
  · exact ⟨_, rfl⟩
  · cases h

theorem render_head (n : BNode) (h : wfNode n = true) (ht : isTextNode n = false) :
    ∃ r, render n = 60 :: r := by
  cases n with
  | elem nm as tl sc et cs => unfold render; split <;> exact ⟨_, rfl⟩
  | text t => simp [isTextNode] at ht
  | misc raw =>
    simp only [wfNode] at h
    simpa [render] using miscOk_head h

theorem startsLt_renderL (cs : List BNode) (rest : List Nat) (hw : wfNodes cs = true)
    (hc : ∀ c cs', cs = c :: cs' → isTextNode c = false) (hr : StartsLt rest) :
    StartsLt (renderL cs ++ rest) := by
  cases cs with
  | nil => simpa [renderL] using hr
  | cons c cs' =>
    simp only [wfNodes, Bool.and_eq_true] at hw
    obtain ⟨r, hr'⟩ := render_head c hw.1 (hc c cs' rfl)
    simp only [renderL, hr', List.cons_append]
    exact startsLt_cons _

theorem tok_misc (raw : List Nat) (h : miscOk raw = true) (k : Nat) (rest : List Nat)
    (st : List Name) : tokLoop (k + 1) (raw ++ rest) st = .other :: tokLoop k rest st := by
  unfold miscOk at h
  split at h
  · rename_i r
    simp only [beq_iff_eq] at h
    have := scanBang_append r [] rest h
    simp only [List.nil_append] at this
    exact tok_bang k (r ++ rest) st rest this
  · rename_i r
    simp only [beq_iff_eq] at h
    have := scanPi_append (63 :: r) [] rest h
    simp only [List.nil_append, List.cons_append] at this
    exact tok_pi k (r ++ rest) st rest this
  · cases h

theorem tok_textnode (t : List Nat) (h1 : t ≠ []) (h2 : t.contains 60 = false) (k : Nat)
    (rest : List Nat) (hr : StartsLt rest) (st : List Name) :
    tokLoop (k + 1) (t ++ rest) st = .text :: tokLoop k rest st := by
  have hall : t.all (· != 60) = true := by
    rw [List.all_eq_true]; intro b hb
    simp only [bne_iff_ne]; intro e; subst e
    have : t.contains 60 = true := List.contains_iff_mem.mpr hb
    rw [this] at h2; cases h2
  have sp := (span_app (p := (· != 60)) t rest hall (by
    intro c r' e; simp [hr c r' e])).2
  cases t with
  | nil => exact absurd rfl h1
  | cons b t' =>
    simp only [List.all_cons, Bool.and_eq_true, bne_iff_ne] at hall
    rw [List.cons_append, tok_text k b (t' ++ rest) st hall.1, ← List.cons_append, sp]

theorem noAdj_cons {c : BNode} {cs : List BNode} (h : noAdjText (c :: cs) = true) :
    noAdjText cs = true ∧ (isTextNode c = true → ∀ d ds, cs = d :: ds → isTextNode d = false) := by
  cases cs with
  | nil => exact ⟨rfl, fun _ d ds e => by cases e⟩
  | cons d ds =>
    simp only [noAdjText, Bool.and_eq_true, Bool.not_eq_true', Bool.and_eq_false_iff] at h
    refine ⟨h.2, fun hc d' ds' e => ?_⟩
    cases e
    rcases h.1 with h' | h'
    · rw [hc] at h'; cases h'
    · exact h'

mutual
theorem tok_node (n : BNode) (h : wfNode n = true) (k : Nat) (rest : List Nat) (st : List Name)
    (hr : isTextNode n = true → StartsLt rest) :
    tokLoop (k + (flatten n).length) (render n ++ rest) st = flatten n ++ tokLoop k rest st := by
  match n with
  | .text t =>
    simp only [wfNode, Bool.and_eq_true, Bool.not_eq_true', List.isEmpty_eq_false_iff] at h
    simp only [flatten, render, List.length_singleton, List.singleton_append]
    exact tok_textnode t h.1 h.2 k rest (hr rfl) st
  | .misc raw =>
    simp only [wfNode] at h
    simp only [flatten, render, List.length_singleton, List.singleton_append]
    exact tok_misc raw h k rest st
  | .elem nm as tl sc et cs =>
    simp only [wfNode, Bool.and_eq_true] at h
    obtain ⟨⟨⟨⟨⟨hn, has⟩, htl⟩, het⟩, hcs⟩, hadj⟩ := h
    obtain ⟨c, r', hc, hs, hk⟩ := isName_parts hn
    obtain ⟨f1, f2, f3, _⟩ := nameStart_facts hs
    obtain ⟨hname, hattrs⟩ := nameOf_content nm hn as has tl htl
    have hlast := content_getLast nm hn as has tl htl
    by_cases hce : closesEmpty sc cs = true
    · -- `<name attrs tail/>`
      simp only [flatten, render, hce, if_true, List.length_singleton, List.singleton_append]
      have hscan : scanTag 0 (nm ++ (as.flatMap BAttr.render ++ (tl ++ [47] ++ 62 :: rest)))
          = some (nm ++ (as.flatMap BAttr.render ++ (tl ++ [47] ++ [])), rest) := by
        apply scanTag_plain _ (all_plain_of_name hk)
        apply scanTag_attrs as has
        apply scanTag_plain (tl ++ [47]) (by
          rw [List.all_append]; simp [all_plain_of_ws htl]; decide)
        simp [scanTag]
      have e : 60 :: (nm ++ as.flatMap BAttr.render ++ tl ++ [47, 62]) ++ rest
          = 60 :: c :: (r' ++ (as.flatMap BAttr.render ++ (tl ++ [47] ++ 62 :: rest))) := by
        simp [hc]
      rw [e]
      have hscan' : scanTag 0 (c :: (r' ++ (as.flatMap BAttr.render ++ (tl ++ [47] ++ 62 :: rest))))
          = some ((nm ++ (as.flatMap BAttr.render ++ tl)) ++ [47], rest) := by
        rw [← List.cons_append, ← hc, hscan]; simp
      rw [tok_open k c _ st f1 f2 f3 _ rest hscan']
      simp [hname, hattrs]
    · -- `<name attrs tail>` children `</name endTail>`
      have hce' : closesEmpty sc cs = false := by simpa using hce
      simp only [flatten, render, hce', Bool.false_eq_true, if_false]
      have hscan : scanTag 0 (nm ++ (as.flatMap BAttr.render ++ (tl ++ 62 ::
            (renderL cs ++ 60 :: 47 :: (nm ++ et ++ [62]) ++ rest))))
          = some (nm ++ (as.flatMap BAttr.render ++ (tl ++ [])),
              renderL cs ++ 60 :: 47 :: (nm ++ et ++ [62]) ++ rest) := by
        apply scanTag_plain _ (all_plain_of_name hk)
        apply scanTag_attrs as has
        apply scanTag_plain tl (all_plain_of_ws htl)
        simp [scanTag]
      have e : 60 :: (nm ++ as.flatMap BAttr.render ++ tl ++ 62 ::
            (renderL cs ++ 60 :: 47 :: (nm ++ et ++ [62]))) ++ rest
          = 60 :: c :: (r' ++ (as.flatMap BAttr.render ++ (tl ++ 62 ::
            (renderL cs ++ 60 :: 47 :: (nm ++ et ++ [62]) ++ rest)))) := by
        simp [hc]
      rw [e]
      have hscan' : scanTag 0 (c :: (r' ++ (as.flatMap BAttr.render ++ (tl ++ 62 ::
            (renderL cs ++ 60 :: 47 :: (nm ++ et ++ [62]) ++ rest)))))
          = some (nm ++ (as.flatMap BAttr.render ++ tl),
              renderL cs ++ 60 :: 47 :: (nm ++ et ++ [62]) ++ rest) := by
        rw [← List.cons_append, ← hc, hscan]; simp
      have hlen : k + (XmlEvent.start nm (as.map BAttr.attr) :: (flattenL cs ++ [XmlEvent.end_ nm])).length
          = ((k + 1) + (flattenL cs).length) + 1 := by
        simp only [List.length_cons, List.length_append, List.length_nil]; omega
      rw [hlen, tok_open _ c _ st f1 f2 f3 _ _ hscan']
      simp only [hlast, if_false, hname, hattrs]
      have e2 : renderL cs ++ 60 :: 47 :: (nm ++ et ++ [62]) ++ rest
          = renderL cs ++ (60 :: 47 :: (nm ++ et ++ 62 :: rest)) := by simp
      rw [e2, tok_nodes cs hcs hadj (k + 1) _ (nm :: st) (startsLt_cons _)]
      have hend : scanTag 0 (nm ++ et ++ 62 :: rest) = some (nm ++ et ++ [], rest) := by
        rw [List.append_assoc, List.append_assoc]
        apply scanTag_plain _ (all_plain_of_name hk)
        apply scanTag_plain _ (all_plain_of_ws het)
        simp [scanTag]
      rw [tok_end k _ nm st _ rest hend (by simpa using trimEnd_name nm hn et het)]
      simp
theorem tok_nodes (ns : List BNode) (h : wfNodes ns = true) (hadj : noAdjText ns = true) (k : Nat)
    (rest : List Nat) (st : List Name) (hr : StartsLt rest) :
    tokLoop (k + (flattenL ns).length) (renderL ns ++ rest) st = flattenL ns ++ tokLoop k rest st := by
  match ns with
  | [] => simp [flattenL, renderL]
  | c :: cs =>
    simp only [wfNodes, Bool.and_eq_true] at h
    obtain ⟨hadj', hnext⟩ := noAdj_cons hadj
    have hlen : k + (flattenL (c :: cs)).length = (k + (flattenL cs).length) + (flatten c).length := by
      simp only [flattenL, List.length_append]; omega
    rw [hlen]
    simp only [renderL, flattenL, List.append_assoc]
    rw [tok_node c h.1 _ _ st (fun hc => startsLt_renderL cs rest h.2 (hnext hc) hr)]
    rw [tok_nodes cs h.2 hadj' k rest st hr]
end

mutual
theorem flatten_length_le (n : BNode) (h : wfNode n = true) :
    (flatten n).length ≤ (render n).length := by
  match n with
  | .text t =>
    simp only [wfNode, Bool.and_eq_true, Bool.not_eq_true', List.isEmpty_eq_false_iff] at h
    cases t with
    | nil => exact absurd rfl h.1
    | cons b t => simp [flatten, render]
  | .misc raw =>
    simp only [wfNode] at h
    obtain ⟨r, hr⟩ := miscOk_head h
    simp [flatten, render, hr]
  | .elem nm as tl sc et cs =>
    simp only [wfNode, Bool.and_eq_true] at h
    have ih := flattenL_length_le cs h.1.2
    by_cases hce : closesEmpty sc cs = true
    · simp [flatten, render, hce]
    · have hce' : closesEmpty sc cs = false := by simpa using hce
      simp only [flatten, render, hce', Bool.false_eq_true, if_false, List.length_cons,
        List.length_append, List.length_nil]
      omega
theorem flattenL_length_le (ns : List BNode) (h : wfNodes ns = true) :
    (flattenL ns).length ≤ (renderL ns).length := by
  match ns with
  | [] => simp [flattenL, renderL]
  | c :: cs =>
    simp only [wfNodes, Bool.and_eq_true] at h
    have h1 := flatten_length_le c h.1
    have h2 := flattenL_length_le cs h.2
    simp only [flattenL, renderL, List.length_append]; omega
end

/-- a well-formed document does not start with a UTF-8 BOM (it starts with `<`, or with text) -/
theorem tokLoop_nil (k : Nat) (st : List Name) : tokLoop (k + 1) [] st = [] := by
  rw [tokLoop]

/-- the tokenizer model reads back every well-formed byte-level document (one that does not begin
with a byte-order mark) -/
theorem events_renderL (ns : List BNode) (h : wfDoc ns = true)
    (hb : stripBom (renderL ns) = renderL ns) : events (renderL ns) = flattenL ns := by
  simp only [wfDoc, Bool.and_eq_true] at h
  have hl := flattenL_length_le ns h.1
  unfold events
  rw [hb]
  obtain ⟨k, hk⟩ : ∃ k, (renderL ns).length + 1 = (k + 1) + (flattenL ns).length :=
    ⟨(renderL ns).length - (flattenL ns).length, by omega⟩
  have := tok_nodes ns h.1 h.2 (k + 1) [] [] startsLt_nil
  rw [hk]
  simpa [tokLoop_nil] using this


theorem stripBom_of_head {l : List Nat} (h : l.head? ≠ some 239) : stripBom l = l := by
  unfold stripBom
  split
  · simp at h
  · rfl

theorem events_jacocoXml {r : Spec.Report} (s : Serialisation r) :
    events (jacocoXml s) = eventsOf s := by
  unfold jacocoXml eventsOf
  rw [events_renderL s.nodes s.wfBytes (stripBom_of_head s.noBom), s.events_eq]

/-! ## closed example -/

/-- the byte-level tree of the example document (`Props/C10Bytes.lean`) -/
def exNodes : List BNode :=
  [.misc [60, 63, 120, 109, 108, 32, 118, 101, 114, 115, 105, 111, 110, 61, 34, 49, 46, 48, 34, 32, 101, 110, 99, 111, 100, 105, 110, 103, 61, 34, 85, 84, 70, 45, 56, 34, 32, 115, 116, 97, 110, 100, 97, 108, 111, 110, 101, 61, 34, 121, 101, 115, 34, 63, 62], .misc [60, 33, 68, 79, 67, 84, 89, 80, 69, 32, 114, 101, 112, 111, 114, 116, 32, 80, 85, 66, 76, 73, 67, 32, 34, 45, 47, 47, 74, 65, 67, 79, 67, 79, 47, 47, 68, 84, 68, 32, 82, 101, 112, 111, 114, 116, 32, 49, 46, 49, 47, 47, 69, 78, 34, 32, 34, 114, 101, 112, 111, 114, 116, 46, 100, 116, 100, 34, 62], .elem [114, 101, 112, 111, 114, 116] [⟨[32], [110, 97, 109, 101], [], [], 34, [114]⟩] [] false [] [.elem [115, 101, 115, 115, 105, 111, 110, 105, 110, 102, 111] [⟨[32], [105, 100], [], [], 34, [104, 45, 49]⟩, ⟨[32], [115, 116, 97, 114, 116], [], [], 34, [49]⟩, ⟨[10, 32, 32, 32, 32], [100, 117, 109, 112], [], [], 34, [50]⟩] [32] true [] [], .text [10, 32, 32], .elem [112, 97, 99, 107, 97, 103, 101] [⟨[32], [110, 97, 109, 101], [32], [32], 34, [112]⟩] [] false [32] [.text [10, 32, 32, 32, 32], .elem [99, 108, 97, 115, 115] [⟨[32], [115, 111, 117, 114, 99, 101, 102, 105, 108, 101, 110, 97, 109, 101], [], [], 34, [65, 46, 106, 97, 118, 97]⟩, ⟨[32], [110, 97, 109, 101], [], [], 39, [112, 47, 65]⟩] [] false [] [.elem [109, 101, 116, 104, 111, 100] [⟨[32], [110, 97, 109, 101], [], [], 34, [38, 108, 116, 59, 105, 110, 105, 116, 38, 103, 116, 59]⟩, ⟨[32], [100, 101, 115, 99], [], [], 34, [40, 41, 86]⟩, ⟨[32], [108, 105, 110, 101], [], [], 39, [51]⟩] [] false [] [.elem [99, 111, 117, 110, 116, 101, 114] [⟨[32], [116, 121, 112, 101], [], [], 34, [73, 78, 83, 84, 82, 85, 67, 84, 73, 79, 78]⟩, ⟨[32], [109, 105, 115, 115, 101, 100], [], [], 34, [48]⟩, ⟨[32], [99, 111, 118, 101, 114, 101, 100], [], [], 34, [52]⟩] [] true [] [], .elem [99, 111, 117, 110, 116, 101, 114] [⟨[32], [116, 121, 112, 101], [], [], 34, [77, 69, 84, 72, 79, 68]⟩, ⟨[32], [109, 105, 115, 115, 101, 100], [], [], 34, [48]⟩, ⟨[32], [99, 111, 118, 101, 114, 101, 100], [], [], 34, [49]⟩] [] true [] []], .misc [60, 33, 45, 45, 32, 97, 32, 62, 32, 98, 32, 45, 45, 32, 99, 32, 45, 45, 62]], .text [10, 32, 32, 32, 32], .elem [115, 111, 117, 114, 99, 101, 102, 105, 108, 101] [⟨[32], [110, 97, 109, 101], [], [], 34, [65, 46, 106, 97, 118, 97]⟩] [] false [] [.elem [108, 105, 110, 101] [⟨[32], [110, 114], [], [], 34, [51]⟩, ⟨[32], [109, 105], [], [], 34, [48]⟩, ⟨[32], [99, 105], [], [], 34, [50]⟩, ⟨[32], [109, 98], [], [], 34, [48]⟩, ⟨[32], [99, 98], [], [], 34, [48]⟩] [] true [] [], .elem [108, 105, 110, 101] [⟨[32], [110, 114], [], [], 34, [53]⟩, ⟨[32], [109, 105], [], [], 34, [49]⟩, ⟨[32], [99, 105], [], [], 34, [52]⟩, ⟨[32], [109, 98], [], [], 34, [49]⟩, ⟨[32], [99, 98], [], [], 34, [50]⟩] [] false [] [], .elem [99, 111, 117, 110, 116, 101, 114] [⟨[32], [116, 121, 112, 101], [], [], 34, [76, 73, 78, 69]⟩, ⟨[32], [109, 105, 115, 115, 101, 100], [], [], 34, [49]⟩, ⟨[32], [99, 111, 118, 101, 114, 101, 100], [], [], 34, [50]⟩] [] true [] []], .text [10, 32, 32]], .misc [60, 33, 91, 67, 68, 65, 84, 65, 91, 32, 60, 112, 97, 99, 107, 97, 103, 101, 32, 110, 97, 109, 101, 61, 34, 101, 118, 105, 108, 34, 62, 32, 93, 93, 62], .text [10]], .text [10]]

/-- the event-level serialisation the same document is -/
def exX : Spec.XReport :=
  [.junk (.other), .junk (.other), .junk (.start [114, 101, 112, 111, 114, 116] [([110, 97, 109, 101], [114])]), .junk (.empty [115, 101, 115, 115, 105, 111, 110, 105, 110, 102, 111] [([105, 100], [104, 45, 49]), ([115, 116, 97, 114, 116], [49]), ([100, 117, 109, 112], [50])]), .junk (.text), .pkg { name := [112], tag := [112, 97, 99, 107, 97, 103, 101], attrs := [([110, 97, 109, 101], [112])], body := [.junk (.text), .cls { fq := [112, 47, 65], sourcefile := some [65, 46, 106, 97, 118, 97], tag := [99, 108, 97, 115, 115], attrs := [([115, 111, 117, 114, 99, 101, 102, 105, 108, 101, 110, 97, 109, 101], [65, 46, 106, 97, 118, 97]), ([110, 97, 109, 101], [112, 47, 65])], body := [.method { name := [60, 105, 110, 105, 116, 62], line := some 3, tag := [109, 101, 116, 104, 111, 100], attrs := [([110, 97, 109, 101], [38, 108, 116, 59, 105, 110, 105, 116, 38, 103, 116, 59]), ([100, 101, 115, 99], [40, 41, 86]), ([108, 105, 110, 101], [51])], body := [.otherCounter [73, 78, 83, 84, 82, 85, 67, 84, 73, 79, 78] [99, 111, 117, 110, 116, 101, 114] [([116, 121, 112, 101], [73, 78, 83, 84, 82, 85, 67, 84, 73, 79, 78]), ([109, 105, 115, 115, 101, 100], [48]), ([99, 111, 118, 101, 114, 101, 100], [52])] true, .counter 1 [99, 111, 117, 110, 116, 101, 114] [([116, 121, 112, 101], [77, 69, 84, 72, 79, 68]), ([109, 105, 115, 115, 101, 100], [48]), ([99, 111, 118, 101, 114, 101, 100], [49])] true], selfClose := false }, .junk (.other)], selfClose := false }, .junk (.text), .src { name := [65, 46, 106, 97, 118, 97], tag := [115, 111, 117, 114, 99, 101, 102, 105, 108, 101], attrs := [([110, 97, 109, 101], [65, 46, 106, 97, 118, 97])], body := [.line ⟨3, 0, 2, 0, 0⟩ [108, 105, 110, 101] [([110, 114], [51]), ([109, 105], [48]), ([99, 105], [50]), ([109, 98], [48]), ([99, 98], [48])] true, .line ⟨5, 1, 4, 1, 2⟩ [108, 105, 110, 101] [([110, 114], [53]), ([109, 105], [49]), ([99, 105], [52]), ([109, 98], [49]), ([99, 98], [50])] false, .junk (.empty [99, 111, 117, 110, 116, 101, 114] [([116, 121, 112, 101], [76, 73, 78, 69]), ([109, 105, 115, 115, 101, 100], [49]), ([99, 111, 118, 101, 114, 101, 100], [50])])], selfClose := false }, .junk (.text)], selfClose := false }, .junk (.other), .junk (.text), .junk (.end_ [114, 101, 112, 111, 114, 116]), .junk (.text)]

/-- the bytes of the example document -/
def exBytes : List Nat :=
  [60, 63, 120, 109, 108, 32, 118, 101, 114, 115, 105, 111, 110, 61, 34, 49, 46, 48, 34, 32, 101, 110, 99, 111, 100, 105, 110, 103, 61, 34, 85, 84, 70, 45, 56, 34, 32, 115, 116, 97, 110, 100, 97, 108, 111, 110, 101, 61, 34, 121, 101, 115, 34, 63, 62, 60, 33, 68, 79, 67, 84, 89, 80, 69, 32, 114, 101, 112, 111, 114, 116, 32, 80, 85, 66, 76, 73, 67, 32, 34, 45, 47, 47, 74, 65, 67, 79, 67, 79, 47, 47, 68, 84, 68, 32, 82, 101, 112, 111, 114, 116, 32, 49, 46, 49, 47, 47, 69, 78, 34, 32, 34, 114, 101, 112, 111, 114, 116, 46, 100, 116, 100, 34, 62, 60, 114, 101, 112, 111, 114, 116, 32, 110, 97, 109, 101, 61, 34, 114, 34, 62, 60, 115, 101, 115, 115, 105, 111, 110, 105, 110, 102, 111, 32, 105, 100, 61, 34, 104, 45, 49, 34, 32, 115, 116, 97, 114, 116, 61, 34, 49, 34, 10, 32, 32, 32, 32, 100, 117, 109, 112, 61, 34, 50, 34, 32, 47, 62, 10, 32, 32, 60, 112, 97, 99, 107, 97, 103, 101, 32, 110, 97, 109, 101, 32, 61, 32, 34, 112, 34, 62, 10, 32, 32, 32, 32, 60, 99, 108, 97, 115, 115, 32, 115, 111, 117, 114, 99, 101, 102, 105, 108, 101, 110, 97, 109, 101, 61, 34, 65, 46, 106, 97, 118, 97, 34, 32, 110, 97, 109, 101, 61, 39, 112, 47, 65, 39, 62, 60, 109, 101, 116, 104, 111, 100, 32, 110, 97, 109, 101, 61, 34, 38, 108, 116, 59, 105, 110, 105, 116, 38, 103, 116, 59, 34, 32, 100, 101, 115, 99, 61, 34, 40, 41, 86, 34, 32, 108, 105, 110, 101, 61, 39, 51, 39, 62, 60, 99, 111, 117, 110, 116, 101, 114, 32, 116, 121, 112, 101, 61, 34, 73, 78, 83, 84, 82, 85, 67, 84, 73, 79, 78, 34, 32, 109, 105, 115, 115, 101, 100, 61, 34, 48, 34, 32, 99, 111, 118, 101, 114, 101, 100, 61, 34, 52, 34, 47, 62, 60, 99, 111, 117, 110, 116, 101, 114, 32, 116, 121, 112, 101, 61, 34, 77, 69, 84, 72, 79, 68, 34, 32, 109, 105, 115, 115, 101, 100, 61, 34, 48, 34, 32, 99, 111, 118, 101, 114, 101, 100, 61, 34, 49, 34, 47, 62, 60, 47, 109, 101, 116, 104, 111, 100, 62, 60, 33, 45, 45, 32, 97, 32, 62, 32, 98, 32, 45, 45, 32, 99, 32, 45, 45, 62, 60, 47, 99, 108, 97, 115, 115, 62, 10, 32, 32, 32, 32, 60, 115, 111, 117, 114, 99, 101, 102, 105, 108, 101, 32, 110, 97, 109, 101, 61, 34, 65, 46, 106, 97, 118, 97, 34, 62, 60, 108, 105, 110, 101, 32, 110, 114, 61, 34, 51, 34, 32, 109, 105, 61, 34, 48, 34, 32, 99, 105, 61, 34, 50, 34, 32, 109, 98, 61, 34, 48, 34, 32, 99, 98, 61, 34, 48, 34, 47, 62, 60, 108, 105, 110, 101, 32, 110, 114, 61, 34, 53, 34, 32, 109, 105, 61, 34, 49, 34, 32, 99, 105, 61, 34, 52, 34, 32, 109, 98, 61, 34, 49, 34, 32, 99, 98, 61, 34, 50, 34, 62, 60, 47, 108, 105, 110, 101, 62, 60, 99, 111, 117, 110, 116, 101, 114, 32, 116, 121, 112, 101, 61, 34, 76, 73, 78, 69, 34, 32, 109, 105, 115, 115, 101, 100, 61, 34, 49, 34, 32, 99, 111, 118, 101, 114, 101, 100, 61, 34, 50, 34, 47, 62, 60, 47, 115, 111, 117, 114, 99, 101, 102, 105, 108, 101, 62, 10, 32, 32, 60, 47, 112, 97, 99, 107, 97, 103, 101, 32, 62, 60, 33, 91, 67, 68, 65, 84, 65, 91, 32, 60, 112, 97, 99, 107, 97, 103, 101, 32, 110, 97, 109, 101, 61, 34, 101, 118, 105, 108, 34, 62, 32, 93, 93, 62, 10, 60, 47, 114, 101, 112, 111, 114, 116, 62, 10]

end Grcov.Jacoco.Bytes
