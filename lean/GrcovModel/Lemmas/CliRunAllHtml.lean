/-
Lemmas for the run-level C03 theorems (Props/C03Run.lean): the files of `HtmlBytes.site` – which
job's page is at which path when `output_html` has returned –, and the html / markdown reports of
`Cli.RunAll`.
-/
import GrcovModel.Lemmas.CliRunAll
import GrcovModel.Lemmas.WritersHtmlBytes
import GrcovModel.Lemmas.WritersDocs
namespace Grcov.Cli.RunAll
open Grcov AList Grcov.Rewrite Grcov.Writers Grcov.Writers.HtmlBytes

theorem get?_append_some {κ α : Type} [DecidableEq κ] (a b : List (κ × α)) (k : κ) (v : α)
    (h : get? a k = some v) : get? (a ++ b) k = some v := by
  induction a with
  | nil => cases h
  | cons kv a ih =>
    obtain ⟨k', w⟩ := kv
    simp only [List.cons_append, get?_cons] at h ⊢
    by_cases e : k' = k
    · simpa [e] using h
    · simp only [e, if_false] at h ⊢
      exact ih h

/-- the page `gen_html` writes for one job: its destination and bytes. It does not depend on the
statistics collected so far. `none`: no page (rel path not relative, source cannot be opened) -/
def pageOf (o : HtmlBytes.Opts) (j : Docs.Res × Option (List Nat)) : Option Written :=
  if !UPath.isRelative j.1.rel then none
  else match j.2 with
    | none => none
    | some bytes =>
      match fileCtx o j.1.rel j.1.cov bytes, Docs.htmlDest j.1.rel with
      | some (_, _, fc), some dest => some (dest, filePage fc)
      | _, _ => none

theorem genHtml_pageOf (o : HtmlBytes.Opts) (r : Docs.Res) (src : Option (List Nat)) (g g' : Global)
    (w : Option Written) (h : genHtml o r src g = some (g', w)) : w = pageOf o (r, src) := by
  unfold genHtml at h
  unfold pageOf
  by_cases hr : (!UPath.isRelative r.rel) = true
  · simp only [hr, if_true, Option.some.injEq, Prod.mk.injEq] at h ⊢
    exact h.2.symm
  · simp only [hr, Bool.false_eq_true, if_false] at h ⊢
    cases src with
    | none =>
      simp only [Option.some.injEq, Prod.mk.injEq] at h
      exact h.2.symm
    | some bytes =>
      simp only at h ⊢
      cases hf : fileCtx o r.rel r.cov bytes with
      | none => rw [hf] at h; simp at h
      | some pfc =>
        obtain ⟨parent, fname, fc⟩ := pfc
        cases hd : Docs.htmlDest r.rel with
        | none => rw [hf, hd] at h; simp at h
        | some dest =>
          rw [hf, hd] at h
          simp only [Option.some.injEq, Prod.mk.injEq] at h
          exact h.2.symm

/-- the pages the consumer threads write, in job order -/
theorem runJobs_writes (o : HtmlBytes.Opts) (jobs : List (Docs.Res × Option (List Nat))) (g g' : Global)
    (ws : List Written) (h : runJobs o jobs g = some (g', ws)) : ws = jobs.filterMap (pageOf o) := by
  induction jobs generalizing g ws with
  | nil =>
    simp only [runJobs, Option.some.injEq, Prod.mk.injEq] at h
    rw [← h.2]; rfl
  | cons j jobs ih =>
    obtain ⟨r, src⟩ := j
    unfold runJobs at h
    split at h
    · simp at h
    · rename_i g1 w hg
      split at h
      · simp at h
      · rename_i g2 ws' hr
        simp only [Option.some.injEq, Prod.mk.injEq] at h
        obtain ⟨rfl, rfl⟩ := h
        have e := genHtml_pageOf o r src g g1 w hg
        rw [ih g1 ws' hr, List.filterMap_cons, ← e]
        cases w <;> rfl

/-- every index file is named `index.html` -/
theorem indexWrites_name (conf : Conf) (g : Global) :
    ∀ w ∈ (indexWrites conf g).map (fun w => (w.1 ++ [Docs.indexHtml], w.2)), w.1.getLast? = some Docs.indexHtml := by
  intro w hw
  obtain ⟨x, _, rfl⟩ := List.mem_map.1 hw
  simp

/-- **Whose page is at a path.** When `output_html` has returned: if job `j` writes the page
`(dest, page)`, every other job that writes to `dest` writes the same page, and `dest` is not an
`index.html`, then the file at `dest` is that page. -/
theorem site_page_of_job (o : HtmlBytes.Opts) (jobs : List (Docs.Res × Option (List Nat)))
    (files : List (List Name × List Nat)) (h : site o jobs = some files)
    (j : Docs.Res × Option (List Nat)) (hj : j ∈ jobs) (dest : List Name) (page : List Nat)
    (hp : pageOf o j = some (dest, page))
    (huniq : ∀ j' ∈ jobs, ∀ p', pageOf o j' = some p' → p'.1 = dest → p'.2 = page)
    (hidx : dest.getLast? ≠ some Docs.indexHtml) :
    get? files dest = some page := by
  unfold site at h
  split at h
  · simp at h
  · rename_i g pages hr
    simp only [Option.some.injEq] at h
    subst h
    have hpages := runJobs_writes o jobs _ g pages hr
    rw [Docs.get?_foldl_set (fun w : List Name × List Nat => w.1) (fun w => w.2)]
    have hall : ∀ x ∈ pages ++ (indexWrites o.conf g).map (fun w => (w.1 ++ [Docs.indexHtml], w.2)),
        x.1 = dest → x.2 = page := by
      intro x hx hd
      rcases List.mem_append.1 hx with hx | hx
      · rw [hpages] at hx
        obtain ⟨j', hj', e⟩ := List.mem_filterMap.1 hx
        exact huniq j' hj' x e hd
      · exact absurd (hd ▸ indexWrites_name o.conf g x hx) hidx
    cases hf : (pages ++ (indexWrites o.conf g).map (fun w => (w.1 ++ [Docs.indexHtml], w.2))).reverse.find?
        (fun e => decide (e.1 = dest)) with
    | some e =>
      have h1 := List.find?_some hf
      have h2 := List.mem_of_find?_eq_some hf
      simp only [decide_eq_true_eq] at h1
      simp only
      rw [hall e (List.mem_reverse.1 h2) h1]
    | none =>
      exfalso
      have hm : (dest, page) ∈ (pages ++ (indexWrites o.conf g).map (fun w => (w.1 ++ [Docs.indexHtml], w.2))).reverse := by
        apply List.mem_reverse.2
        apply List.mem_append_left
        rw [hpages]
        exact List.mem_filterMap.2 ⟨j, hj, hp⟩
      have := List.find?_eq_none.1 hf _ hm
      simp at this

/-- … and there is nothing else: every file of the site is the page some job writes there, or an
`index.html`. -/
theorem site_file_origin (o : HtmlBytes.Opts) (jobs : List (Docs.Res × Option (List Nat)))
    (files : List (List Name × List Nat)) (h : site o jobs = some files) :
    ∀ f ∈ files, (∃ j ∈ jobs, pageOf o j = some f) ∨ f.1.getLast? = some Docs.indexHtml := by
  unfold site at h
  split at h
  · simp at h
  · rename_i g pages hr
    simp only [Option.some.injEq] at h
    subst h
    have hpages := runJobs_writes o jobs _ g pages hr
    intro f hf
    rcases mem_foldl_set _ _ f hf with hf | hf
    · simp at hf
    · rcases List.mem_append.1 hf with hf | hf
      · rw [hpages] at hf
        obtain ⟨j, hj, e⟩ := List.mem_filterMap.1 hf
        exact Or.inl ⟨j, hj, e⟩
      · exact Or.inr (indexWrites_name o.conf g f hf)

/-- the site exists (no consumer thread panics) as soon as every job that gets that far has a file
name: `runJobs` and `site` succeed together -/
theorem site_some_iff (o : HtmlBytes.Opts) (jobs : List (Docs.Res × Option (List Nat))) :
    (site o jobs).isSome = (runJobs o jobs ⟨[], .zero, o.absPrefix⟩).isSome := by
  unfold site
  cases runJobs o jobs ⟨[], .zero, o.absPrefix⟩ with
  | none => rfl
  | some gp => rfl

/-- the destination of the page a job writes -/
theorem pageOf_dest (o : HtmlBytes.Opts) (j : Docs.Res × Option (List Nat)) (p : Written)
    (h : pageOf o j = some p) : Docs.htmlDest j.1.rel = some p.1 := by
  unfold pageOf at h
  by_cases hr : (!UPath.isRelative j.1.rel) = true
  · simp [hr] at h
  · simp only [hr, Bool.false_eq_true, if_false] at h
    cases hs : j.2 with
    | none => rw [hs] at h; cases h
    | some bytes =>
      rw [hs] at h
      simp only at h
      cases hf : fileCtx o j.1.rel j.1.cov bytes with
      | none => rw [hf] at h; simp at h
      | some pfc =>
        obtain ⟨parent, fname, fc⟩ := pfc
        cases hd : Docs.htmlDest j.1.rel with
        | none => rw [hf, hd] at h; simp at h
        | some dest =>
          rw [hf, hd] at h
          simp only [Option.some.injEq] at h
          rw [← h]

/-- a job that writes a page has a relative rel path and an openable source -/
theorem pageOf_shown (o : HtmlBytes.Opts) (j : Docs.Res × Option (List Nat)) (p : Written)
    (h : pageOf o j = some p) : UPath.isRelative j.1.rel = true ∧ j.2.isSome = true := by
  unfold pageOf at h
  by_cases hr : (!UPath.isRelative j.1.rel) = true
  · simp [hr] at h
  · simp only [hr, Bool.false_eq_true, if_false] at h
    refine ⟨by simpa using hr, ?_⟩
    cases hs : j.2 with
    | none => rw [hs] at h; cases h
    | some bytes => rfl

/-- a page destination is `index.html` only for a source file named `index` -/
theorem htmlDestName_eq_index (f : Name) (h : Docs.htmlDestName f = Docs.indexHtml) : f = Docs.indexName := by
  have e : Docs.htmlDestName f = f ++ [46, 104, 116, 109, 108] := by
    unfold Docs.htmlDestName
    split <;> rfl
  rw [e] at h
  have : Docs.indexHtml = Docs.indexName ++ [46, 104, 116, 109, 108] := rfl
  rw [this] at h
  exact List.append_cancel_right h

theorem htmlDest_last (rel : Docs.Path) (dest : List Name) (h : Docs.htmlDest rel = some dest) :
    ∃ f, Docs.fileNameOf rel = some f ∧ dest.getLast? = some (Docs.htmlDestName f) := by
  unfold Docs.htmlDest at h
  unfold Docs.fileNameOf
  split at h
  · rename_i f revDirs hc
    simp only [Option.some.injEq] at h
    subst h
    exact ⟨f, rfl, by simp⟩
  · cases h

/-- no page of a source file that is not named `index` is at an `index.html` -/
theorem htmlDest_not_index (rel : Docs.Path) (dest : List Name) (h : Docs.htmlDest rel = some dest)
    (hn : Docs.fileNameOf rel ≠ some Docs.indexName) : dest.getLast? ≠ some Docs.indexHtml := by
  obtain ⟨f, hf, hl⟩ := htmlDest_last rel dest h
  rw [hl]
  intro e
  simp only [Option.some.injEq] at e
  exact hn (by rw [hf, htmlDestName_eq_index f e])

end Grcov.Cli.RunAll
