/-
`Lcov.utf8Lossy` (the model of `String::from_utf8_lossy`, applied to every file and function name)
is the identity on well-formed UTF-8 – given as an explicit executable grammar check `validUtf8`
(RFC 3629 / Unicode table 3-7: no overlong forms, no surrogates, nothing above U+10FFFF) –, its
output is always well-formed UTF-8, and it is idempotent.
-/
import GrcovModel.Lcov
namespace Grcov.Lcov
open Grcov

/-- second byte of a three-byte sequence led by `b` (excludes overlong forms and surrogates) -/
def ok3 (b c : Nat) : Bool :=
  decide ((b = 0xE0 ∧ 0xA0 ≤ c ∧ c ≤ 0xBF) ∨ (0xE1 ≤ b ∧ b ≤ 0xEC ∧ 0x80 ≤ c ∧ c ≤ 0xBF)
    ∨ (b = 0xED ∧ 0x80 ≤ c ∧ c ≤ 0x9F) ∨ (0xEE ≤ b ∧ b ≤ 0xEF ∧ 0x80 ≤ c ∧ c ≤ 0xBF))

/-- second byte of a four-byte sequence led by `b` (excludes overlong forms and > U+10FFFF) -/
def ok4 (b c : Nat) : Bool :=
  decide ((b = 0xF0 ∧ 0x90 ≤ c ∧ c ≤ 0xBF) ∨ (0xF1 ≤ b ∧ b ≤ 0xF3 ∧ 0x80 ≤ c ∧ c ≤ 0xBF)
    ∨ (b = 0xF4 ∧ 0x80 ≤ c ∧ c ≤ 0x8F))

/-- the well-formed UTF-8 byte sequences: a string of
`00..7F | C2..DF cont | E0..EF ok3 cont | F0..F4 ok4 cont cont` (`fuel` ≥ length) -/
def validAux : Nat → Bytes → Bool
  | _, [] => true
  | 0, _ :: _ => false
  | fuel + 1, b :: rest =>
    if b < 128 then validAux fuel rest
    else if 0xC2 ≤ b ∧ b ≤ 0xDF then
      match rest with
      | c :: r => isCont c && validAux fuel r
      | [] => false
    else if 0xE0 ≤ b ∧ b ≤ 0xEF then
      match rest with
      | c :: d :: r => ok3 b c && isCont d && validAux fuel r
      | _ => false
    else if 0xF0 ≤ b ∧ b ≤ 0xF4 then
      match rest with
      | c :: d :: e :: r => ok4 b c && isCont d && isCont e && validAux fuel r
      | _ => false
    else false

/-- `bs` is well-formed UTF-8 -/
def validUtf8 (bs : Bytes) : Bool := validAux bs.length bs

/-! ### the identity on well-formed input -/

theorem utf8LossyAux_of_valid (fuel : Nat) (bs : Bytes) (h : validAux fuel bs = true) :
    utf8LossyAux fuel bs = bs := by
  induction fuel generalizing bs with
  | zero => cases bs with
    | nil => rfl
    | cons b r => simp [validAux] at h
  | succ fuel ih =>
    cases bs with
    | nil => rfl
    | cons b rest =>
      unfold validAux at h
      unfold utf8LossyAux
      by_cases h1 : b < 128
      · rw [if_pos h1] at h ⊢; rw [ih _ h]
      · rw [if_neg h1] at h ⊢
        by_cases h2 : 0xC2 ≤ b ∧ b ≤ 0xDF
        · rw [if_pos h2] at h ⊢
          cases rest with
          | nil => simp at h
          | cons c r =>
            simp only [Bool.and_eq_true] at h
            simp only [h.1, if_true]; rw [ih _ h.2]
        · rw [if_neg h2] at h ⊢
          by_cases h3 : 0xE0 ≤ b ∧ b ≤ 0xEF
          · rw [if_pos h3] at h ⊢
            match rest, h with
            | [], h => simp at h
            | [c], h => simp at h
            | c :: d :: r, h =>
              simp only [Bool.and_eq_true, ok3, decide_eq_true_eq] at h
              simp only [h.1.1, if_true, h.1.2]; rw [ih _ h.2]
          · rw [if_neg h3] at h ⊢
            by_cases h4 : 0xF0 ≤ b ∧ b ≤ 0xF4
            · rw [if_pos h4] at h ⊢
              match rest, h with
              | [], h => simp at h
              | [c], h => simp at h
              | [c, d], h => simp at h
              | c :: d :: e :: r, h =>
                simp only [Bool.and_eq_true, ok4, decide_eq_true_eq] at h
                simp only [h.1.1.1, if_true, h.1.1.2, h.1.2]; rw [ih _ h.2]
            · rw [if_neg h4] at h; simp at h

/-- **Well-formed UTF-8 is preserved byte for byte.** -/
theorem utf8Lossy_of_valid (bs : Bytes) (h : validUtf8 bs = true) : utf8Lossy bs = bs :=
  utf8LossyAux_of_valid bs.length bs h

/-! ### more fuel changes nothing -/

theorem validAux_mono (f : Nat) (bs : Bytes) (h : validAux f bs = true) : validAux (f + 1) bs = true := by
  induction f generalizing bs with
  | zero => cases bs with
    | nil => rfl
    | cons b r => simp [validAux] at h
  | succ f ih =>
    cases bs with
    | nil => rfl
    | cons b rest =>
      unfold validAux at h ⊢
      by_cases h1 : b < 128
      · rw [if_pos h1] at h ⊢; exact ih _ h
      · rw [if_neg h1] at h ⊢
        by_cases h2 : 0xC2 ≤ b ∧ b ≤ 0xDF
        · rw [if_pos h2] at h ⊢
          cases rest with
          | nil => simp at h
          | cons c r =>
            simp only [Bool.and_eq_true] at h ⊢
            exact ⟨h.1, ih _ h.2⟩
        · rw [if_neg h2] at h ⊢
          by_cases h3 : 0xE0 ≤ b ∧ b ≤ 0xEF
          · rw [if_pos h3] at h ⊢
            match rest, h with
            | [], h => simp at h
            | [c], h => simp at h
            | c :: d :: r, h =>
              simp only [Bool.and_eq_true] at h ⊢
              exact ⟨h.1, ih _ h.2⟩
          · rw [if_neg h3] at h ⊢
            by_cases h4 : 0xF0 ≤ b ∧ b ≤ 0xF4
            · rw [if_pos h4] at h ⊢
              match rest, h with
              | [], h => simp at h
              | [c], h => simp at h
              | [c, d], h => simp at h
              | c :: d :: e :: r, h =>
                simp only [Bool.and_eq_true] at h ⊢
                exact ⟨h.1, ih _ h.2⟩
            · rw [if_neg h4] at h; simp at h

theorem validAux_le (f g : Nat) (bs : Bytes) (hfg : f ≤ g) (h : validAux f bs = true) :
    validAux g bs = true := by
  induction g with
  | zero => have : f = 0 := by omega
            subst this; exact h
  | succ g ih =>
    by_cases e : f = g + 1
    · subst e; exact h
    · exact validAux_mono g bs (ih (by omega))

/-! ### the output is well-formed -/

theorem valid_ascii (g b : Nat) (r : Bytes) (hb : b < 128) : validAux (g + 1) (b :: r) = validAux g r := by
  simp [validAux, hb]

theorem valid_fffd (g : Nat) (r : Bytes) : validAux (g + 1) (FFFD ++ r) = validAux g r := by
  simp [validAux, FFFD, ok3, isCont]

theorem validAux_nil (g : Nat) : validAux g [] = true := by cases g <;> rfl

theorem valid_fffd_nil (g : Nat) : validAux (g + 1) FFFD = true := by
  rw [← List.append_nil FFFD, valid_fffd, validAux_nil]

theorem valid2 (g b c : Nat) (r : Bytes) (h1 : ¬ b < 128) (h2 : 0xC2 ≤ b ∧ b ≤ 0xDF) (hc : isCont c = true) :
    validAux (g + 1) (b :: c :: r) = validAux g r := by
  simp [validAux, h1, h2, hc]

theorem valid3 (g b c d : Nat) (r : Bytes) (h1 : ¬ b < 128) (h2 : ¬ (0xC2 ≤ b ∧ b ≤ 0xDF))
    (h3 : 0xE0 ≤ b ∧ b ≤ 0xEF) (hc : ok3 b c = true) (hd : isCont d = true) :
    validAux (g + 1) (b :: c :: d :: r) = validAux g r := by
  simp [validAux, h1, h2, h3, hc, hd]

theorem valid4 (g b c d e : Nat) (r : Bytes) (h1 : ¬ b < 128) (h2 : ¬ (0xC2 ≤ b ∧ b ≤ 0xDF))
    (h3 : ¬ (0xE0 ≤ b ∧ b ≤ 0xEF)) (h4 : 0xF0 ≤ b ∧ b ≤ 0xF4) (hc : ok4 b c = true)
    (hd : isCont d = true) (he : isCont e = true) :
    validAux (g + 1) (b :: c :: d :: e :: r) = validAux g r := by
  simp [validAux, h1, h2, h3, h4, hc, hd, he]

theorem FFFD_length : FFFD.length = 3 := rfl

/-- whatever the input, what `from_utf8_lossy` returns is well-formed UTF-8 -/
theorem validAux_utf8LossyAux (fuel : Nat) (bs : Bytes) (g : Nat)
    (hg : (utf8LossyAux fuel bs).length ≤ g) : validAux g (utf8LossyAux fuel bs) = true := by
  induction fuel generalizing bs g with
  | zero => cases bs <;> simp [utf8LossyAux, validAux]
  | succ fuel ih =>
    cases bs with
    | nil => simp [utf8LossyAux, validAux]
    | cons b rest =>
      unfold utf8LossyAux at hg ⊢
      -- every branch below prepends a valid sequence or U+FFFD to a recursive result
      have fffdRec : ∀ (xs : Bytes) (g : Nat), (FFFD ++ utf8LossyAux fuel xs).length ≤ g →
          validAux g (FFFD ++ utf8LossyAux fuel xs) = true := by
        intro xs g hg
        simp only [List.length_append, FFFD_length] at hg
        obtain ⟨g', rfl⟩ : ∃ g', g = g' + 1 := ⟨g - 1, by omega⟩
        rw [valid_fffd]; exact ih _ _ (by omega)
      have fffdNil : ∀ g : Nat, FFFD.length ≤ g → validAux g FFFD = true := by
        intro g hg
        rw [FFFD_length] at hg
        obtain ⟨g', rfl⟩ : ∃ g', g = g' + 1 := ⟨g - 1, by omega⟩
        exact valid_fffd_nil g'
      by_cases h1 : b < 128
      · rw [if_pos h1] at hg ⊢
        simp only [List.length_cons] at hg
        obtain ⟨g', rfl⟩ : ∃ g', g = g' + 1 := ⟨g - 1, by omega⟩
        rw [valid_ascii _ _ _ h1]; exact ih _ _ (by omega)
      · rw [if_neg h1] at hg ⊢
        by_cases h2 : 0xC2 ≤ b ∧ b ≤ 0xDF
        · rw [if_pos h2] at hg ⊢
          cases rest with
          | nil => exact fffdNil g hg
          | cons c r =>
            by_cases hc : isCont c = true
            · simp only [hc, if_true, List.length_cons] at hg ⊢
              obtain ⟨g', rfl⟩ : ∃ g', g = g' + 1 := ⟨g - 1, by omega⟩
              rw [valid2 _ _ _ _ h1 h2 hc]; exact ih _ _ (by omega)
            · simp only [hc] at hg ⊢
              exact fffdRec _ g hg
        · rw [if_neg h2] at hg ⊢
          by_cases h3 : 0xE0 ≤ b ∧ b ≤ 0xEF
          · rw [if_pos h3] at hg ⊢
            cases rest with
            | nil => exact fffdNil g hg
            | cons c r1 =>
              simp only at hg ⊢
              by_cases hk : (b = 0xE0 ∧ 0xA0 ≤ c ∧ c ≤ 0xBF) ∨ (0xE1 ≤ b ∧ b ≤ 0xEC ∧ 0x80 ≤ c ∧ c ≤ 0xBF)
                  ∨ (b = 0xED ∧ 0x80 ≤ c ∧ c ≤ 0x9F) ∨ (0xEE ≤ b ∧ b ≤ 0xEF ∧ 0x80 ≤ c ∧ c ≤ 0xBF)
              · simp only [hk, if_true] at hg ⊢
                cases r1 with
                | nil => exact fffdNil g hg
                | cons d r2 =>
                  by_cases hd : isCont d = true
                  · simp only [hd, if_true, List.length_cons] at hg ⊢
                    obtain ⟨g', rfl⟩ : ∃ g', g = g' + 1 := ⟨g - 1, by omega⟩
                    rw [valid3 _ _ _ _ _ h1 h2 h3 (by simp [ok3, hk]) hd]; exact ih _ _ (by omega)
                  · simp only [hd] at hg ⊢
                    exact fffdRec _ g hg
              · simp only [hk, if_false] at hg ⊢
                exact fffdRec _ g hg
          · rw [if_neg h3] at hg ⊢
            by_cases h4 : 0xF0 ≤ b ∧ b ≤ 0xF4
            · rw [if_pos h4] at hg ⊢
              cases rest with
              | nil => exact fffdNil g hg
              | cons c r1 =>
                simp only at hg ⊢
                by_cases hk : (b = 0xF0 ∧ 0x90 ≤ c ∧ c ≤ 0xBF) ∨ (0xF1 ≤ b ∧ b ≤ 0xF3 ∧ 0x80 ≤ c ∧ c ≤ 0xBF)
                    ∨ (b = 0xF4 ∧ 0x80 ≤ c ∧ c ≤ 0x8F)
                · simp only [hk, if_true] at hg ⊢
                  cases r1 with
                  | nil => exact fffdNil g hg
                  | cons d r2 =>
                    by_cases hd : isCont d = true
                    · simp only [hd, if_true] at hg ⊢
                      cases r2 with
                      | nil => exact fffdNil g hg
                      | cons e r3 =>
                        by_cases he : isCont e = true
                        · simp only [he, if_true, List.length_cons] at hg ⊢
                          obtain ⟨g', rfl⟩ : ∃ g', g = g' + 1 := ⟨g - 1, by omega⟩
                          rw [valid4 _ _ _ _ _ _ h1 h2 h3 h4 (by simp [ok4, hk]) hd he]
                          exact ih _ _ (by omega)
                        · simp only [he] at hg ⊢
                          exact fffdRec _ g hg
                    · simp only [hd] at hg ⊢
                      exact fffdRec _ g hg
                · simp only [hk, if_false] at hg ⊢
                  exact fffdRec _ g hg
            · rw [if_neg h4] at hg ⊢
              exact fffdRec _ g hg

theorem validUtf8_utf8Lossy (bs : Bytes) : validUtf8 (utf8Lossy bs) = true :=
  validAux_utf8LossyAux bs.length bs _ (Nat.le_refl _)

/-- **Idempotence**: decoding a decoded name again changes nothing. -/
theorem utf8Lossy_idem (bs : Bytes) : utf8Lossy (utf8Lossy bs) = utf8Lossy bs :=
  utf8Lossy_of_valid _ (validUtf8_utf8Lossy bs)

/-! ### ASCII, concatenation -/

theorem validAux_ascii (bs : Bytes) (g : Nat) (hg : bs.length ≤ g) (h : ∀ b ∈ bs, b < 128) :
    validAux g bs = true := by
  induction bs generalizing g with
  | nil => cases g <;> rfl
  | cons b r ih =>
    simp only [List.length_cons] at hg
    obtain ⟨g', rfl⟩ : ∃ g', g = g' + 1 := ⟨g - 1, by omega⟩
    rw [valid_ascii _ _ _ (h b (by simp))]
    exact ih g' (by omega) fun x hx => h x (List.mem_cons_of_mem _ hx)

/-- every ASCII string (commas, spaces, digits, …) is well-formed UTF-8 -/
theorem validUtf8_ascii (bs : Bytes) (h : ∀ b ∈ bs, b < 128) : validUtf8 bs = true :=
  validAux_ascii bs _ (Nat.le_refl _) h

/-- an ASCII prefix (e.g. `5,` in front of a name) keeps a string well-formed -/
theorem validUtf8_ascii_append (xs ys : Bytes) (hx : ∀ b ∈ xs, b < 128) (hy : validUtf8 ys = true) :
    validUtf8 (xs ++ ys) = true := by
  unfold validUtf8 at *
  induction xs with
  | nil => simpa using hy
  | cons b r ih =>
    simp only [List.cons_append, List.length_cons]
    rw [valid_ascii _ _ _ (hx b (by simp))]
    exact ih fun x h => hx x (List.mem_cons_of_mem _ h)

end Grcov.Lcov
