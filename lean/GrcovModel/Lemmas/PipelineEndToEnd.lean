/-
Helpers for `Props/C02EndToEnd.lean`: the batches of a producer run's work items as the `contents`
function of `Report.reportOf`, and the fact that two item lists which carry the same things give
observably the same result map whatever the two merge orders.
-/
import GrcovModel.Lemmas.Report
import GrcovModel.Producer
namespace Grcov.Report
open Grcov Grcov.AList Grcov.Props.C01

/-- the batch a consumer obtains from work item number `i` of a producer run: `sem` of what the item
carries -/
def itemContents (sem : Producer.Obs → List (Key × Cov)) (items : List Producer.Item)
    (i : Nat) : List (Key × Cov) :=
  ((items[i]?).map fun it => sem it.obs).getD []

theorem range_flatMap_getElem? {α β : Type} (g : α → List β) (l : List α) :
    (List.range l.length).flatMap (fun i => ((l[i]?).map g).getD []) = l.flatMap g := by
  induction l with
  | nil => rfl
  | cons a l ih =>
    rw [List.length_cons, List.range_succ_eq_map, List.flatMap_cons, List.flatMap_map]
    simp only [List.getElem?_cons_zero, List.getElem?_cons_succ, List.flatMap_cons, Option.map_some,
      Option.getD_some]
    rw [ih]

/-- all the records of all the items, whatever the merge order, as a multiset -/
theorem merged_records_perm (sem : Producer.Obs → List (Key × Cov)) (items : List Producer.Item)
    (merged : List Nat) (p : merged.Perm (List.range items.length)) :
    (merged.flatMap (itemContents sem items)).Perm ((items.map Producer.Item.obs).flatMap sem) := by
  refine (p.flatMap_right _).trans ?_
  have := range_flatMap_getElem? (fun it : Producer.Item => sem it.obs) items
  unfold itemContents
  rw [this, List.flatMap_map]

/-- two item lists that carry the same things (as multisets) give observably the same result map,
whatever the two merge orders -/
theorem report_of_equiv_items (canon : Key → Key) (sem : Producer.Obs → List (Key × Cov))
    (hsem : ∀ ob, ∀ kc ∈ sem ob, kc.2.WF) (items items' : List Producer.Item)
    (pi : (items.map Producer.Item.obs).Perm (items'.map Producer.Item.obs))
    (merged merged' : List Nat) (p : merged.Perm (List.range items.length))
    (p' : merged'.Perm (List.range items'.length)) (k : Key) :
    ObsEqOpt (get? (reportOf canon (itemContents sem items) merged) k)
      (get? (reportOf canon (itemContents sem items') merged') k) := by
  rw [report_entry, report_entry]
  have pp : (merged.flatMap (itemContents sem items)).Perm (merged'.flatMap (itemContents sem items')) :=
    ((merged_records_perm sem items merged p).trans (pi.flatMap_right sem)).trans
      (merged_records_perm sem items' merged' p').symm
  refine foldInto_perm _ _ ?_ ((pp.filter _).map _)
  intro c hc
  simp only [List.mem_map, List.mem_filter, List.mem_flatMap] at hc
  obtain ⟨kc, ⟨⟨i, _, hi⟩, _⟩, rfl⟩ := hc
  unfold itemContents at hi
  cases hit : items[i]? with
  | none => rw [hit] at hi; cases hi
  | some it => rw [hit] at hi; exact hsem _ kc hi

theorem flatMap_filterMap' {α β γ : Type} (f : α → Option β) (g : β → List γ) (l : List α) :
    (l.filterMap f).flatMap g = l.flatMap fun a => ((f a).map g).getD [] := by
  induction l with
  | nil => rfl
  | cons a l ih =>
    simp only [List.filterMap_cons, List.flatMap_cons]
    cases f a <;> simp [ih]

theorem range_map_getD {α : Type} (l : List α) (d : α) :
    (List.range l.length).map (fun i => l.getD i d) = l := by
  apply List.ext_getElem
  · simp
  · intro i h1 h2
    simp only [List.length_map, List.length_range] at h1
    simp [List.getD_eq_getElem?_getD, h1]

end Grcov.Report
