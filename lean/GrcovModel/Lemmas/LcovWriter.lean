/-
The lcov writer (`output_lcov`, src/output.rs) as a list of `Spec` sections, and the proof that
the reader (`Lcov.parse`) rebuilds the data from the written bytes: decimal printing, the records
written per file, their application, well-formedness of the written sections.
-/
import GrcovModel.Lemmas.LcovFidelity
set_option maxHeartbeats 400000
namespace Grcov.Lcov
open Grcov AList Grcov.Lcov.Spec

/-- decimal digits of `n`, most significant first (`fuel` > number of digits) -/
def dec : Nat → Nat → Bytes
  | 0, _ => []
  | f + 1, n => if n < 10 then [48 + n] else dec f (n / 10) ++ [48 + n % 10]

theorem valFrom_append (a : Nat) (xs ys : Bytes) : valFrom a (xs ++ ys) = valFrom (valFrom a xs) ys := by
  simp [valFrom, List.foldl_append]

theorem dec_val (f n : Nat) (h : n < f) : valFrom 0 (dec f n) = n := by
  induction f generalizing n with
  | zero => omega
  | succ f ih =>
    unfold dec
    by_cases h10 : n < 10
    · simp [h10, valFrom]
    · simp only [h10, if_false]
      rw [valFrom_append, ih (n / 10) (by omega)]
      simp [valFrom]; omega

theorem dec_digits (f n : Nat) : ∀ x ∈ dec f n, isDigit x = true := by
  induction f generalizing n with
  | zero => simp [dec]
  | succ f ih =>
    unfold dec
    by_cases h10 : n < 10
    · simp [h10, isDigit]; omega
    · simp only [h10, if_false, List.mem_append, List.mem_singleton]
      intro x hx
      rcases hx with hx | hx
      · exact ih _ x hx
      · subst hx; simp [isDigit]; omega

theorem dec_ne_nil (f n : Nat) : dec (f + 1) n ≠ [] := by
  unfold dec; split <;> simp

/-- the canonical decimal spelling of `n` as a digit string -/
def decDigits (n : Nat) : Digits :=
  match dec (n + 1) n with
  | x :: r => ⟨x, r⟩
  | [] => ⟨48, []⟩

theorem decDigits_bytes (n : Nat) : (decDigits n).bytes = dec (n + 1) n := by
  unfold decDigits
  cases h : dec (n + 1) n with
  | nil => exact absurd h (dec_ne_nil n n)
  | cons x r => rfl

theorem decDigits_val (n : Nat) : (decDigits n).val = n := by
  simp [Digits.val, decDigits_bytes, dec_val (n + 1) n (by omega)]

theorem decDigits_wf (n bound : Nat) (h : n ≤ bound) : (decDigits n).WF bound := by
  have hb := decDigits_bytes n
  have hd := dec_digits (n + 1) n
  rw [← hb] at hd
  refine ⟨hd _ (by simp [Digits.bytes]), fun x hx => hd x (by simp [Digits.bytes, hx]), ?_⟩
  rw [decDigits_val]; exact h


/-! ### the records `output_lcov` writes for one file -/

def fnRecs (fs : List (Name × Fn)) : List Rec := fs.map fun nf => .fn (decDigits nf.2.start) nf.1
def fndaRecs (fs : List (Name × Fn)) : List Rec :=
  fs.map fun nf => .fnda (decDigits (if nf.2.executed then 1 else 0)) nf.1
def brdaRecs (bs : List (Nat × List Bool)) : List Rec :=
  (brdaRecords bs).map fun r =>
    .brda (decDigits r.1) false (decDigits 0) (decDigits r.2.1) (if r.2.2 then [49] else [45])
def daRecs (ls : List (Nat × Nat)) : List Rec := ls.map fun lc => .da (decDigits lc.1) (decDigits lc.2) none
/-- `FNF:n`, `FNH:n`, `BRF:n`, `BRH:n` -/
def keyedSummary (key : Bytes) (n : Nat) : Rec := .otherKeyed key 58 (dec (n + 1) n)
/-- `LF:n`, `LH:n` -/
def lineSummary (c : Nat) (n : Nat) : Rec := .other ([76, c, 58] ++ dec (n + 1) n)

def writerRecs (c : Cov) : List Rec :=
  fnRecs c.functions ++ fndaRecs c.functions
    ++ (if c.functions.isEmpty then [] else
          [keyedSummary [70, 78, 70] c.functions.length,
           keyedSummary [70, 78, 72] (c.functions.filter fun nf => nf.2.executed).length])
    ++ brdaRecs c.branches
    ++ [keyedSummary [66, 82, 70] (c.branches.map fun lv => lv.2.length).sum,
        keyedSummary [66, 82, 72] (c.branches.map fun lv => (lv.2.filter id).length).sum]
    ++ daRecs c.lines
    ++ [lineSummary 70 c.lines.length, lineSummary 72 (c.lines.filter fun lc => decide (lc.2 > 0)).length]

/-- one `SF … end_of_record` block as `output_lcov` writes it (`TN:` only before the first) -/
def writerSection (first : Bool) (path : Bytes) (c : Cov) : Section :=
  { pre := if first then [.other [84, 78, 58]] else []
    sf := path
    recs := writerRecs c
    eor := [110, 100, 95, 111, 102, 95, 114, 101, 99, 111, 114, 100] }

def writerSections : Bool → List (Bytes × Cov) → List Section
  | _, [] => []
  | first, (p, c) :: rs => writerSection first p c :: writerSections false rs

/-- the bytes of the lcov report (a report without files is just `TN:`, which the reader skips) -/
def printLcov (rs : List (Bytes × Cov)) : Bytes :=
  match rs with
  | [] => [84, 78, 58, LF]
  | _ => render [LF] (writerSections true rs)

/-! ### applying those records -/

def setCur (a : Acc) (c : Cov) : Acc := { a with cur := c }

theorem applyRecs_da (branch : Bool) (a : Acc) (ls : List (Nat × Nat)) :
    applyRecs branch a (daRecs ls) = daFold a ls := by
  induction ls generalizing a with
  | nil => rfl
  | cons lc ls ih =>
    simp only [daRecs, List.map_cons, applyRecs_cons, applyRec, decDigits_val]
    exact ih _

theorem applyRecs_brda (a : Acc) (bs : List (Nat × List Bool)) :
    applyRecs true a (brdaRecs bs)
      = { a with cur := { a.cur with branches := brdaFold a.cur.branches (brdaRecords bs) } } := by
  unfold brdaRecs
  generalize brdaRecords bs = rs
  induction rs generalizing a with
  | nil => rfl
  | cons r rs ih =>
    simp only [List.map_cons, applyRecs_cons, applyRec, decDigits_val, if_true]
    rw [ih]
    have ht : takenOf (if r.2.2 = true then [49] else [45]) = r.2.2 := by
      cases r.2.2 <;> simp [takenOf]
    simp [commitBranch, brdaFold, ht]

theorem applyRecs_inert_list (branch : Bool) (a : Acc) (rs : List Rec) (h : ∀ r ∈ rs, r.isInert = true) :
    applyRecs branch a rs = a := applyRecs_inert branch a rs h

/-- FN records: every function is declared with its start line and `executed = false` -/
def declFold (m : List (Name × Fn)) (fs : List (Name × Fn)) : List (Name × Fn) :=
  fs.foldl (fun m nf => set m nf.1 ⟨nf.2.start, false⟩) m

theorem applyRecs_fn (branch : Bool) (a : Acc) (fs : List (Name × Fn))
    (hu : ∀ nf ∈ fs, utf8Lossy nf.1 = nf.1) (hp : a.pending = []) :
    applyRecs branch a (fnRecs fs)
      = { a with cur := { a.cur with functions := declFold a.cur.functions fs } } := by
  induction fs generalizing a with
  | nil => rfl
  | cons nf fs ih =>
    have h1 := hu nf (by simp)
    simp only [fnRecs, List.map_cons, applyRecs_cons, applyRec, decDigits_val]
    have := ih (commitFn a nf.2.start nf.1) (fun x hx => hu x (List.mem_cons_of_mem _ hx))
      (by simp [commitFn, hp, erase])
    simp only [fnRecs] at this
    rw [this]
    obtain ⟨R, cf, c, P⟩ := a
    simp only at hp; subst hp
    simp [commitFn, declFold, h1, erase]

theorem get?_declFold (m fs : List (Name × Fn)) (hn : NodupKeys fs) (n : Name) :
    get? (declFold m fs) n = match get? fs n with
      | some f => some ⟨f.start, false⟩
      | none => get? m n := by
  induction fs generalizing m with
  | nil => simp [declFold]
  | cons nf fs ih =>
    obtain ⟨k, f⟩ := nf
    have hn' : NodupKeys fs := by unfold NodupKeys keys at *; simp at hn; exact hn.2
    have hk : get? fs k = none := by
      rw [get?_eq_none_iff]; unfold NodupKeys keys at hn; simp at hn
      intro h; simp [keys] at h; obtain ⟨v, hv⟩ := h; exact hn.1 v hv
    have : declFold m ((k, f) :: fs) = declFold (set m k ⟨f.start, false⟩) fs := rfl
    rw [this, ih _ hn']
    by_cases hkn : k = n
    · subst hkn; simp [hk, get?_set]
    · simp [hkn, get?_set]

/-- FNDA records on a map in which every function is declared -/
def execFold (m : List (Name × Fn)) (fs : List (Name × Fn)) : List (Name × Fn) :=
  fs.foldl (fun m nf => match get? m nf.1 with
    | some g => set m nf.1 { g with executed := g.executed || nf.2.executed }
    | none => m) m

theorem applyRecs_fnda (branch : Bool) (a : Acc) (fs : List (Name × Fn))
    (hu : ∀ nf ∈ fs, utf8Lossy nf.1 = nf.1)
    (hdecl : ∀ nf ∈ fs, (get? a.cur.functions nf.1).isSome) :
    applyRecs branch a (fndaRecs fs)
      = { a with cur := { a.cur with functions := execFold a.cur.functions fs } } := by
  induction fs generalizing a with
  | nil => rfl
  | cons nf fs ih =>
    have h1 := hu nf (by simp)
    have hd := hdecl nf (by simp)
    cases hg : get? a.cur.functions nf.1 with
    | none => rw [hg] at hd; simp at hd
    | some g =>
      have hflag : decide ((if nf.2.executed = true then 1 else 0) ≠ 0) = nf.2.executed := by
        cases nf.2.executed <;> simp
      let fs' : List (Name × Fn) :=
        AList.set a.cur.functions nf.1 ({ g with executed := g.executed || nf.2.executed } : Fn)
      let a1 : Acc := { a with cur := { a.cur with functions := fs' } }
      have hc : commitFnda a (decDigits (if nf.2.executed = true then 1 else 0)).val nf.1 = a1 := by
        simp [commitFnda, h1, hg, decDigits_val, hflag, a1, fs']
      simp only [fndaRecs, List.map_cons, applyRecs_cons, applyRec, hc]
      have := ih a1
        (fun x hx => hu x (List.mem_cons_of_mem _ hx))
        (by
          intro x hx
          have := hdecl x (List.mem_cons_of_mem _ hx)
          show (get? fs' x.1).isSome = true
          simp only [fs', get?_set]
          split
          · simp
          · exact this)
      simp only [fndaRecs] at this
      rw [this]
      simp [execFold, hg, a1, fs']

theorem get?_execFold (m fs : List (Name × Fn)) (hn : NodupKeys fs) (n : Name) :
    get? (execFold m fs) n = match get? m n, get? fs n with
      | some g, some f => some { g with executed := g.executed || f.executed }
      | o, _ => o := by
  induction fs generalizing m with
  | nil => cases h : get? m n <;> simp [execFold, h]
  | cons nf fs ih =>
    obtain ⟨k, f⟩ := nf
    have hn' : NodupKeys fs := by unfold NodupKeys keys at *; simp at hn; exact hn.2
    have hk : get? fs k = none := by
      rw [get?_eq_none_iff]; unfold NodupKeys keys at hn; simp at hn
      intro h; simp [keys] at h; obtain ⟨v, hv⟩ := h; exact hn.1 v hv
    have step : execFold m ((k, f) :: fs) = execFold (match get? m k with
        | some g => set m k { g with executed := g.executed || f.executed }
        | none => m) fs := rfl
    rw [step, ih _ hn']
    by_cases hkn : k = n
    · subst hkn
      cases hm : get? m k with
      | none => simp [hm, hk]
      | some g => simp [hm, hk, get?_set]
    · cases hm : get? m k with
      | none => simp [hm, hkn]
      | some g => simp [hm, hkn, get?_set]


/-! ### what the reader rebuilds from those records -/

def linesFold (m : List (Nat × Nat)) (ls : List (Nat × Nat)) : List (Nat × Nat) :=
  ls.foldl (fun m lc => set m lc.1 (satAdd ((get? m lc.1).getD 0) lc.2)) m

theorem daFold_eq (a : Acc) (ls : List (Nat × Nat)) :
    daFold a ls = { a with cur := { a.cur with lines := linesFold a.cur.lines ls } } := by
  induction ls generalizing a with
  | nil => rfl
  | cons lc ls ih =>
    have : daFold a (lc :: ls) = daFold (commitLine a lc.1 lc.2) ls := rfl
    rw [this, ih]; rfl

theorem get?_linesFold (ls : List (Nat × Nat)) (hn : NodupKeys ls) (hfit : ∀ kv ∈ ls, kv.2 ≤ U64MAX)
    (l : Nat) : get? (linesFold [] ls) l = get? ls l := by
  have := da_roundtrip ls hn hfit l
  rw [daFold_eq] at this
  exact this

/-- the record a section written by `output_lcov` is read back to -/
def rtCov (c : Cov) : Cov :=
  { lines := linesFold [] c.lines
    branches := brdaFold [] (brdaRecords c.branches)
    functions := execFold (declFold [] c.functions) c.functions }

/-- everything the property compares, start lines included -/
structure SameData (a b : Cov) : Prop where
  lines : ∀ l, get? a.lines l = get? b.lines l
  branches : ∀ l, vecAt a.branches l = vecAt b.branches l
  functions : ∀ n, get? a.functions n = get? b.functions n

theorem rtCov_same (c : Cov) (h : c.WF) : SameData (rtCov c) c := by
  refine ⟨fun l => get?_linesFold c.lines h.linesNodup h.countsFit l,
    fun l => brda_roundtrip c.branches h.branchesNodup l, fun n => ?_⟩
  simp only [rtCov]
  rw [get?_execFold _ _ h.functionsNodup, get?_declFold _ _ h.functionsNodup]
  cases hg : get? c.functions n with
  | none => simp
  | some f => simp

/-- what `output_lcov` can write and the reader's number types can hold -/
structure WriterOK (path : Bytes) (c : Cov) : Prop where
  wf : c.WF
  path : noEol path
  lineNos : ∀ lc ∈ c.lines, lc.1 ≤ U32MAX
  branchLines : ∀ lv ∈ c.branches, lv.1 ≤ U32MAX ∧ lv.2.length ≤ U32MAX
  fnNames : ∀ nf ∈ c.functions, noEol nf.1 ∧ utf8Lossy nf.1 = nf.1 ∧ nf.2.start ≤ U32MAX

theorem applyRecs_writer (R : List (Bytes × Cov)) (cf : Option Bytes) (c : Cov)
    (hu : ∀ nf ∈ c.functions, utf8Lossy nf.1 = nf.1) (hn : NodupKeys c.functions) :
    applyRecs true { results := R, curFile := cf, cur := {}, pending := [] } (writerRecs c)
      = { results := R, curFile := cf, cur := rtCov c, pending := [] } := by
  have hsum : ∀ (a : Acc), applyRecs true a
      (if c.functions.isEmpty then [] else
        [keyedSummary [70, 78, 70] c.functions.length,
         keyedSummary [70, 78, 72] (c.functions.filter fun nf => nf.2.executed).length]) = a := by
    intro a
    apply applyRecs_inert
    intro r hr
    split at hr
    · simp at hr
    · simp only [List.mem_cons, List.mem_singleton, List.not_mem_nil, or_false] at hr
      rcases hr with hr | hr <;> subst hr <;> rfl
  have hdecl : ∀ nf ∈ c.functions, (get? (declFold [] c.functions) nf.1).isSome := by
    intro nf hnf
    rw [get?_declFold _ _ hn]
    have : get? c.functions nf.1 = some nf.2 := get?_of_mem hn (by cases nf; exact hnf)
    simp [this]
  simp only [writerRecs, applyRecs_append]
  rw [applyRecs_fn true _ c.functions hu rfl]
  rw [applyRecs_fnda true _ c.functions hu (by simpa using hdecl)]
  simp only [hsum]
  rw [applyRecs_brda]
  rw [applyRecs_inert true _ _ (by
    intro r hr
    simp only [List.mem_cons, List.mem_singleton, List.not_mem_nil, or_false] at hr
    rcases hr with hr | hr <;> subst hr <;> rfl)]
  rw [applyRecs_da, daFold_eq]
  rw [applyRecs_inert true _ _ (by
    intro r hr
    simp only [List.mem_cons, List.mem_singleton, List.not_mem_nil, or_false] at hr
    rcases hr with hr | hr <;> subst hr <;> rfl)]
  rfl


/-! ### the written sections are well-formed tracefile sections -/

theorem dec_noLF (f n : Nat) : noLF (dec f n) := by
  intro x hx
  have := isDigit_le x (dec_digits f n x hx)
  simp [LF]; omega

theorem keyedSummary_wf (key : Bytes) (n : Nat)
    (hk : key = [70, 78, 70] ∨ key = [70, 78, 72] ∨ key = [66, 82, 70] ∨ key = [66, 82, 72]) :
    (keyedSummary key n).WF := by
  refine ⟨dec_noLF _ _, by decide, by decide, ?_, ?_⟩
  · rcases hk with h | h | h | h <;> subst h <;> simp <;> decide
  · rcases hk with h | h | h | h <;> subst h <;> decide

theorem lineSummary_wf (c n : Nat) (hc : c = 70 ∨ c = 72) : (lineSummary c n).WF := by
  refine ⟨?_, by simp [LF]⟩
  intro x hx
  simp only [List.cons_append, List.nil_append, List.mem_cons] at hx
  rcases hx with hx | hx | hx | hx
  · subst hx; decide
  · subst hx; rcases hc with h | h <;> subst h <;> decide
  · subst hx; decide
  · exact dec_noLF _ _ x hx

theorem slotRecords_mem (l n : Nat) (v : List Bool) (r : Nat × Nat × Bool) (h : r ∈ slotRecords l n v) :
    r.1 = l ∧ r.2.1 < n + v.length := by
  induction v generalizing n with
  | nil => simp [slotRecords] at h
  | cons t v ih =>
    simp only [slotRecords, List.mem_cons] at h
    rcases h with h | h
    · subst h; simp
    · have := ih (n + 1) h
      simp only [List.length_cons]; omega

theorem writerSection_wf (first : Bool) (path : Bytes) (c : Cov) (h : WriterOK path c) :
    (writerSection first path c).WF := by
  refine ⟨?_, h.path, ?_, ?_⟩
  rotate_left 2
  · intro x hx
    simp only [writerSection, List.mem_cons, List.not_mem_nil, or_false] at hx
    rcases hx with hx | hx | hx | hx | hx | hx | hx | hx | hx | hx | hx | hx <;> subst hx <;> decide
  · intro r hr
    simp only [writerSection] at hr
    split at hr
    · simp only [List.mem_singleton] at hr; subst hr
      refine ⟨⟨?_, by simp [LF]⟩, rfl⟩
      intro x hx
      simp only [List.mem_cons, List.not_mem_nil, or_false] at hx
      rcases hx with hx | hx | hx <;> subst hx <;> decide
    · simp at hr
  · intro r hr
    simp only [writerSection, writerRecs, List.mem_append] at hr
    rcases hr with ((((((hr | hr) | hr) | hr) | hr) | hr) | hr)
    · -- FN
      simp only [fnRecs, List.mem_map] at hr
      obtain ⟨nf, hnf, rfl⟩ := hr
      obtain ⟨h1, _, h3⟩ := h.fnNames nf hnf
      exact ⟨decDigits_wf _ _ h3, h1⟩
    · -- FNDA
      simp only [fndaRecs, List.mem_map] at hr
      obtain ⟨nf, hnf, rfl⟩ := hr
      obtain ⟨h1, _, _⟩ := h.fnNames nf hnf
      refine ⟨decDigits_wf _ _ ?_, h1⟩
      split <;> (unfold U64MAX; omega)
    · -- FNF / FNH
      split at hr
      · simp at hr
      · simp only [List.mem_cons, List.mem_singleton, List.not_mem_nil, or_false] at hr
        rcases hr with hr | hr <;> subst hr
        · exact keyedSummary_wf _ _ (Or.inl rfl)
        · exact keyedSummary_wf _ _ (Or.inr (Or.inl rfl))
    · -- BRDA
      simp only [brdaRecs, List.mem_map] at hr
      obtain ⟨q, hq, rfl⟩ := hr
      simp only [brdaRecords, List.mem_flatMap] at hq
      obtain ⟨lv, hlv, hq⟩ := hq
      obtain ⟨e1, e2⟩ := slotRecords_mem lv.1 0 lv.2 q hq
      obtain ⟨b1, b2⟩ := h.branchLines lv hlv
      refine ⟨decDigits_wf _ _ (by rw [e1]; exact b1), decDigits_wf _ _ (by unfold U64MAX; omega),
        decDigits_wf _ _ (by omega), ?_⟩
      intro x hx
      split at hx <;> (simp only [List.mem_singleton] at hx; subst hx; simp [LF, CR])
    · -- BRF / BRH
      simp only [List.mem_cons, List.mem_singleton, List.not_mem_nil, or_false] at hr
      rcases hr with hr | hr <;> subst hr
      · exact keyedSummary_wf _ _ (Or.inr (Or.inr (Or.inl rfl)))
      · exact keyedSummary_wf _ _ (Or.inr (Or.inr (Or.inr rfl)))
    · -- DA
      simp only [daRecs, List.mem_map] at hr
      obtain ⟨lc, hlc, rfl⟩ := hr
      exact ⟨decDigits_wf _ _ (h.lineNos lc hlc), decDigits_wf _ _ (h.wf.countsFit lc hlc),
        fun x hx => by simp [checksumBytes] at hx⟩
    · -- LF / LH
      simp only [List.mem_cons, List.mem_singleton, List.not_mem_nil, or_false] at hr
      rcases hr with hr | hr <;> subst hr
      · exact lineSummary_wf _ _ (Or.inl rfl)
      · exact lineSummary_wf _ _ (Or.inr rfl)

theorem semSection_writer (first : Bool) (path : Bytes) (c : Cov) (h : WriterOK path c) :
    semSection true (writerSection first path c) = some (utf8Lossy path, rtCov c) := by
  have e := applyRecs_writer [] (some (utf8Lossy path)) c (fun nf hnf => (h.fnNames nf hnf).2.1)
    h.wf.functionsNodup
  simp only [semSection, writerSection, e]
  rfl

theorem semAll_writer (first : Bool) (rs : List (Bytes × Cov)) (h : ∀ pc ∈ rs, WriterOK pc.1 pc.2) :
    semAll true (writerSections first rs) = some (rs.map fun pc => (utf8Lossy pc.1, rtCov pc.2)) := by
  induction rs generalizing first with
  | nil => rfl
  | cons pc rs ih =>
    obtain ⟨p, c⟩ := pc
    simp only [writerSections, semAll, semSection_writer first p c (h (p, c) (by simp)),
      ih false fun q hq => h q (List.mem_cons_of_mem _ hq)]
    rfl

theorem writerSections_wf (first : Bool) (rs : List (Bytes × Cov)) (h : ∀ pc ∈ rs, WriterOK pc.1 pc.2) :
    ∀ s ∈ writerSections first rs, s.WF := by
  induction rs generalizing first with
  | nil => intro s hs; simp [writerSections] at hs
  | cons pc rs ih =>
    obtain ⟨p, c⟩ := pc
    intro s hs
    simp only [writerSections, List.mem_cons] at hs
    rcases hs with hs | hs
    · subst hs; exact writerSection_wf first p c (h (p, c) (by simp))
    · exact ih false (fun q hq => h q (List.mem_cons_of_mem _ hq)) s hs

/-- **The written report is read back to the same data.** -/
theorem parse_printLcov (rs : List (Bytes × Cov)) (h : ∀ pc ∈ rs, WriterOK pc.1 pc.2) :
    parse true (printLcov rs) = .ok (rs.map fun pc => (utf8Lossy pc.1, rtCov pc.2)) := by
  cases rs with
  | nil => decide +kernel
  | cons pc rs' =>
    have := file_bytes true [LF] (Or.inl rfl) (writerSections true (pc :: rs'))
      (writerSections_wf true (pc :: rs') h) _ (semAll_writer true (pc :: rs') h) [] none
    unfold parse printLcov
    have e : ({} : St) = ⟨.dispatch, { results := [], curFile := none, cur := {} }⟩ := rfl
    simp only
    rw [e, this]
    simp [finish]

end Grcov.Lcov

namespace Grcov.Lcov
open Grcov AList Grcov.Lcov.Spec

theorem nodup_foldl_set {κ α : Type} [DecidableEq κ] {β : Type} (g : List (κ × α) → β → κ × α)
    (m : List (κ × α)) (xs : List β) (hm : NodupKeys m) :
    NodupKeys (xs.foldl (fun m x => set m (g m x).1 (g m x).2) m) := by
  induction xs generalizing m with
  | nil => exact hm
  | cons x xs ih => exact ih _ (nodupKeys_set hm _ _)

theorem linesFold_nodup (m ls : List (Nat × Nat)) (hm : NodupKeys m) : NodupKeys (linesFold m ls) := by
  unfold linesFold
  exact nodup_foldl_set (fun m lc => (lc.1, satAdd ((get? m lc.1).getD 0) lc.2)) m ls hm

theorem addBranch_nodup (m : List (Nat × List Bool)) (l no : Nat) (t : Bool) (hm : NodupKeys m) :
    NodupKeys (addBranch m l no t) := by
  unfold addBranch
  split
  · split
    · exact nodupKeys_set hm _ _
    · split <;> exact nodupKeys_set hm _ _
  · exact nodupKeys_set hm _ _

theorem brdaFold_nodup (m : List (Nat × List Bool)) (rs : List (Nat × Nat × Bool)) (hm : NodupKeys m) :
    NodupKeys (brdaFold m rs) := by
  induction rs generalizing m with
  | nil => exact hm
  | cons r rs ih => exact ih _ (addBranch_nodup m _ _ _ hm)

theorem declFold_nodup (m fs : List (Name × Fn)) (hm : NodupKeys m) : NodupKeys (declFold m fs) := by
  unfold declFold
  exact nodup_foldl_set (fun _ nf => (nf.1, ⟨nf.2.start, false⟩)) m fs hm

theorem execFold_nodup (m fs : List (Name × Fn)) (hm : NodupKeys m) : NodupKeys (execFold m fs) := by
  induction fs generalizing m with
  | nil => exact hm
  | cons nf fs ih =>
    have : execFold m (nf :: fs) = execFold (match get? m nf.1 with
        | some g => set m nf.1 { g with executed := g.executed || nf.2.executed }
        | none => m) fs := rfl
    rw [this]
    apply ih
    split
    · exact nodupKeys_set hm _ _
    · exact hm

theorem linesFold_fit (m ls : List (Nat × Nat)) (hm : ∀ kv ∈ m, kv.2 ≤ U64MAX) :
    ∀ kv ∈ linesFold m ls, kv.2 ≤ U64MAX := by
  induction ls generalizing m with
  | nil => exact hm
  | cons lc ls ih =>
    have : linesFold m (lc :: ls) = linesFold (set m lc.1 (satAdd ((get? m lc.1).getD 0) lc.2)) ls := rfl
    rw [this]
    apply ih
    intro kv hkv
    -- an entry of `set m k v` is an old entry or the new value
    have key : ∀ (m : List (Nat × Nat)) (k v : Nat), (∀ kv ∈ m, kv.2 ≤ U64MAX) → v ≤ U64MAX →
        ∀ kv ∈ set m k v, kv.2 ≤ U64MAX := by
      intro m k v hm hv
      induction m with
      | nil => intro kv hkv; simp [AList.set] at hkv; subst hkv; exact hv
      | cons a m ih2 =>
        intro kv hkv
        unfold AList.set at hkv
        split at hkv
        · simp only [List.mem_cons] at hkv
          rcases hkv with h | h
          · subst h; exact hv
          · exact hm kv (List.mem_cons_of_mem _ h)
        · simp only [List.mem_cons] at hkv
          rcases hkv with h | h
          · subst h; exact hm _ (by simp)
          · exact ih2 (fun kv hkv => hm kv (List.mem_cons_of_mem _ hkv)) kv h
    exact key m _ _ hm (satAdd_le _ _) kv hkv

theorem rtCov_wf (c : Cov) : (rtCov c).WF :=
  ⟨linesFold_nodup [] c.lines (by simp [NodupKeys, keys]),
   brdaFold_nodup [] _ (by simp [NodupKeys, keys]),
   execFold_nodup _ _ (declFold_nodup [] _ (by simp [NodupKeys, keys])),
   linesFold_fit [] c.lines (by simp)⟩

end Grcov.Lcov

namespace Grcov.Lcov
open Grcov AList Grcov.Lcov.Spec

theorem brdaFold_isSome (m : List (Nat × List Bool)) (rs : List (Nat × Nat × Bool)) (l : Nat) :
    (get? (brdaFold m rs) l).isSome = ((get? m l).isSome || rs.any fun r => decide (r.1 = l)) := by
  induction rs generalizing m with
  | nil => simp [brdaFold]
  | cons r rs ih =>
    have : brdaFold m (r :: rs) = brdaFold (addBranch m r.1 r.2.1 r.2.2) rs := rfl
    rw [this, ih]
    by_cases hl : r.1 = l
    · subst hl; simp [addBranch_isSome]
    · simp [addBranch_other _ _ _ _ _ hl, hl]

theorem slotRecords_any_line (l n : Nat) (v : List Bool) (l' : Nat) :
    (slotRecords l n v).any (fun r => decide (r.1 = l')) = (decide (l = l') && !v.isEmpty) := by
  induction v generalizing n with
  | nil => simp [slotRecords]
  | cons t v ih => by_cases h : l = l' <;> simp [slotRecords, h, ih]

theorem brdaRecords_any_line (bs : List (Nat × List Bool)) (hb : NodupKeys bs)
    (hne : ∀ lv ∈ bs, lv.2 ≠ []) (l : Nat) :
    (brdaRecords bs).any (fun r => decide (r.1 = l)) = (get? bs l).isSome := by
  induction bs with
  | nil => simp [brdaRecords]
  | cons lv bs ih =>
    obtain ⟨l0, v⟩ := lv
    have hb' : NodupKeys bs := by unfold NodupKeys keys at *; simp at hb; exact hb.2
    have hv : v ≠ [] := hne (l0, v) (by simp)
    have : brdaRecords ((l0, v) :: bs) = slotRecords l0 0 v ++ brdaRecords bs := by simp [brdaRecords]
    rw [this, List.any_append, slotRecords_any_line, ih hb' fun x hx => hne x (List.mem_cons_of_mem _ hx)]
    by_cases h : l0 = l
    · subst h; cases v with
      | nil => exact absurd rfl hv
      | cons t v => simp
    · simp [h]

/-- for branch maps without empty vectors the re-imported map is the same map, entry for entry -/
theorem brda_roundtrip_get? (bs : List (Nat × List Bool)) (hb : NodupKeys bs)
    (hne : ∀ lv ∈ bs, lv.2 ≠ []) (l : Nat) :
    get? (brdaFold [] (brdaRecords bs)) l = get? bs l := by
  have h1 := brdaFold_isSome [] (brdaRecords bs) l
  rw [brdaRecords_any_line bs hb hne] at h1
  have h2 := brda_roundtrip bs hb l
  simp only [vecAt] at h2
  cases ha : get? (brdaFold [] (brdaRecords bs)) l with
  | none => rw [ha] at h1; simp at h1; cases hb2 : get? bs l with
    | none => rfl
    | some v => rw [hb2] at h1; simp at h1
  | some u =>
    rw [ha] at h1 h2
    cases hb2 : get? bs l with
    | none => rw [hb2] at h1; simp at h1
    | some v => rw [hb2] at h2; simp at h2; rw [h2]

end Grcov.Lcov

