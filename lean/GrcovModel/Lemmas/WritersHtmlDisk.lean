/-
Lemmas for `GrcovModel/Writers/HtmlDisk.lean`: under the guards (no page file is a directory of
another page, no index file is a directory of a page) every write succeeds and the disk is the
flat map of `Writers/Docs.lean`.
-/
import GrcovModel.Writers.HtmlDisk
import GrcovModel.Lemmas.WritersDocs
namespace Grcov.Writers.HtmlDisk
open Grcov AList Grcov.Writers Grcov.Writers.Docs

theorem properPrefix_iff (a b : List Name) :
    properPrefix a b = true ↔ a.length < b.length ∧ b.take a.length = a := by
  unfold properPrefix
  simp

theorem properPrefix_dropLast_self (d : List Name) (h : d ≠ []) : properPrefix d.dropLast d = true := by
  rw [properPrefix_iff]
  have hl : 0 < d.length := List.length_pos_iff.mpr h
  refine ⟨by rw [List.length_dropLast]; omega, ?_⟩
  rw [List.length_dropLast, List.dropLast_eq_take]

theorem properPrefix_of_dropLast (a b : List Name) (h : properPrefix a b.dropLast = true) :
    properPrefix a b = true := by
  rw [properPrefix_iff] at *
  obtain ⟨h1, h2⟩ := h
  rw [List.length_dropLast] at h1
  refine ⟨by omega, ?_⟩
  rw [List.dropLast_eq_take, List.take_take] at h2
  have hm : min a.length (b.length - 1) = a.length := by omega
  rw [hm] at h2
  exact h2

theorem mem_keys_set {β : Type} (m : List (List Name × β)) (x : List Name) (v : β) (d : List Name)
    (h : d ∈ keys (set m x v)) : d ∈ keys m ∨ d = x := by
  rw [keys_set] at h
  split at h
  · exact Or.inl h
  · simp only [List.mem_append, List.mem_singleton] at h; exact h

/-- under the guard a page write never fails -/
theorem classify_written (all : List HtmlEntry) (hg : NoFileDir all) (fs : Files)
    (hk : ∀ d ∈ keys fs, ∃ e ∈ all, e.dest = d) (e : HtmlEntry) (he : e ∈ all) (hne : e.dest ≠ []) :
    classify fs e.dest = .written := by
  have hany : (fs.any fun f => properPrefix f.1 e.dest.dropLast) = false := by
    rw [List.any_eq_false]
    intro f hf hp
    obtain ⟨e', he', hd⟩ := hk f.1 (List.mem_map_of_mem hf)
    have := hg e' he' e he
    rw [hd, properPrefix_of_dropLast _ _ hp] at this
    cases this
  have hdir : isDir fs e.dest = false := by
    unfold isDir
    have h1 : e.dest.isEmpty = false := by cases h : e.dest with
      | nil => exact absurd h hne
      | cons _ _ => rfl
    rw [h1, Bool.false_or, List.any_eq_false]
    intro f hf hp
    obtain ⟨e', he', hd⟩ := hk f.1 (List.mem_map_of_mem hf)
    have := hg e he e' he'
    rw [hd, hp] at this
    cases this
  have hfile : isFile fs e.dest.dropLast = false := by
    unfold isFile
    cases hgk : get? fs e.dest.dropLast with
    | none => rfl
    | some v =>
      exfalso
      have hmem : e.dest.dropLast ∈ keys fs := (get?_isSome_iff fs _).1 (by rw [hgk]; rfl)
      obtain ⟨e', he', hd⟩ := hk _ hmem
      have := hg e' he' e he
      rw [hd, properPrefix_dropLast_self _ hne] at this
      cases this
  unfold classify
  simp only [hany, Bool.and_false, hdir, hfile, Bool.or_false]
  rfl

theorem writeAll_of_guard (all : List HtmlEntry) (hg : NoFileDir all) (hne : ∀ e ∈ all, e.dest ≠ []) :
    ∀ (es : List HtmlEntry) (fs : Files), (∀ e ∈ es, e ∈ all) →
      (∀ d ∈ keys fs, ∃ e ∈ all, e.dest = d) →
      writeAll fs es = some (es.foldl (fun m e => set m e.dest e.rows) fs)
  | [], _, _, _ => rfl
  | e :: es, fs, hsub, hk => by
    have he : e ∈ all := hsub e (by simp)
    unfold writeAll writePage
    rw [classify_written all hg fs hk e he (hne e he)]
    simp only [List.foldl_cons]
    exact writeAll_of_guard all hg hne es _ (fun x hx => hsub x (List.mem_cons_of_mem _ hx))
      (fun d hd => by
        rcases mem_keys_set fs e.dest e.rows d hd with h | h
        · exact hk d h
        · exact ⟨e, he, h.symm⟩)

/-- **no page is lost to the file system** under the guard: the page files are the flat map -/
theorem writeAll_eq_sitePages (es : List HtmlEntry) (hg : NoFileDir es) (hne : ∀ e ∈ es, e.dest ≠ []) :
    writeAll [] es = some (sitePages es) := by
  rw [writeAll_of_guard es hg hne es [] (fun _ h => h) (by simp [keys])]
  rfl

theorem mem_keys_sitePages (es : List HtmlEntry) (d : List Name) :
    d ∈ keys (sitePages es) ↔ ∃ e ∈ es, e.dest = d := by
  rw [← get?_isSome_iff]
  unfold sitePages
  rw [get?_foldl_set (fun x : HtmlEntry => x.dest) (fun x => x.rows) es [] d]
  cases hf : es.reverse.find? (fun x => decide (x.dest = d)) with
  | none =>
    simp only [get?_nil, Option.isSome_none, Bool.false_eq_true, false_iff, not_exists, not_and]
    intro e he hd
    rw [List.find?_eq_none] at hf
    have := hf e (by simpa using he)
    simp [hd] at this
  | some e' =>
    have hm : e' ∈ es := by simpa using List.mem_of_find?_eq_some hf
    have hd : e'.dest = d := by simpa using List.find?_some hf
    simp only [Option.isSome_some, true_iff]
    exact ⟨e', hm, hd⟩

/-- under the guards the index of the directory of a page is written -/
theorem classify_index_written (es : List HtmlEntry) (hg : NoFileDir es) (hi : NoIndexDir es)
    (hp : Placed es) (e : HtmlEntry) (he : e ∈ es) :
    classify (sitePages es) (dirLoc e.parent ++ [indexHtml]) = .written := by
  have hdl : (dirLoc e.parent ++ [indexHtml]).dropLast = dirLoc e.parent := by simp
  have hpar := (hp e he).2
  have hne := (hp e he).1
  have hex : pathExists (sitePages es) (dirLoc e.parent) = true := by
    unfold pathExists isDir
    by_cases hem : (dirLoc e.parent).isEmpty = true
    · simp [hem]
    · have : (sitePages es).any (fun f => properPrefix (dirLoc e.parent) f.1) = true := by
        rw [List.any_eq_true]
        have hk : e.dest ∈ keys (sitePages es) := (mem_keys_sitePages es e.dest).2 ⟨e, he, rfl⟩
        obtain ⟨f, hf, hfd⟩ := List.mem_map.mp hk
        exact ⟨f, hf, by rw [hfd, hpar]; exact properPrefix_dropLast_self _ hne⟩
      simp [this]
  have hdir : isDir (sitePages es) (dirLoc e.parent ++ [indexHtml]) = false := by
    unfold isDir
    have h1 : (dirLoc e.parent ++ [indexHtml]).isEmpty = false := by simp
    rw [h1, Bool.false_or, List.any_eq_false]
    intro f hf hpp
    obtain ⟨e', he', hd⟩ := (mem_keys_sitePages es f.1).1 (List.mem_map_of_mem hf)
    have := hi.2 e he e' he'
    rw [hd, hpp] at this
    cases this
  have hfile : isFile (sitePages es) (dirLoc e.parent) = false := by
    unfold isFile
    cases hgk : get? (sitePages es) (dirLoc e.parent) with
    | none => rfl
    | some v =>
      exfalso
      have hmem : dirLoc e.parent ∈ keys (sitePages es) := (get?_isSome_iff _ _).1 (by rw [hgk]; rfl)
      obtain ⟨e', he', hd⟩ := (mem_keys_sitePages es _).1 hmem
      have := hg e' he' e he
      rw [hd, hpar, properPrefix_dropLast_self _ hne] at this
      cases this
  unfold classify
  rw [hdl]
  simp only [hex, Bool.not_true, Bool.false_and, hdir, hfile, Bool.or_false]
  rfl

theorem mem_siteDirs (es : List HtmlEntry) (df : Path × List Name) (h : df ∈ siteDirs es) :
    ∃ e ∈ es, e.parent = df.1 := by
  unfold siteDirs at h
  obtain ⟨d, hd, rfl⟩ := List.mem_map.mp h
  rw [mem_dedup] at hd
  obtain ⟨e, he, rfl⟩ := List.mem_map.mp hd
  exact ⟨e, he, rfl⟩

theorem dirIndexes_of_guard (es : List HtmlEntry) (hg : NoFileDir es) (hi : NoIndexDir es) (hp : Placed es) :
    ∀ (ds : List (Path × List Name)) (m : IxMap), (∀ df ∈ ds, ∃ e ∈ es, e.parent = df.1) →
      dirIndexes (sitePages es) ds m = some (ds.foldl (fun m df => set m (dirLoc df.1) (some df.1, df.2)) m)
  | [], _, _ => rfl
  | df :: ds, m, h => by
    obtain ⟨e, he, hpe⟩ := h df (by simp)
    unfold dirIndexes
    rw [← hpe, classify_index_written es hg hi hp e he, hpe]
    simp only [List.foldl_cons]
    exact dirIndexes_of_guard es hg hi hp ds _ (fun x hx => h x (List.mem_cons_of_mem _ hx))

theorem classify_global_written (es : List HtmlEntry) (hi : NoIndexDir es) (hp : Placed es) :
    classify (sitePages es) [indexHtml] = .written := by
  have hdir : isDir (sitePages es) [indexHtml] = false := by
    unfold isDir
    have h1 : ([indexHtml] : List Name).isEmpty = false := rfl
    rw [h1, Bool.false_or, List.any_eq_false]
    intro f hf hpp
    obtain ⟨e', he', hd⟩ := (mem_keys_sitePages es f.1).1 (List.mem_map_of_mem hf)
    have := hi.1 e' he'
    rw [hd, hpp] at this
    cases this
  have hfile : isFile (sitePages es) [] = false := by
    unfold isFile
    cases hgk : get? (sitePages es) [] with
    | none => rfl
    | some v =>
      exfalso
      have hmem : ([] : List Name) ∈ keys (sitePages es) := (get?_isSome_iff _ _).1 (by rw [hgk]; rfl)
      obtain ⟨e', he', hd⟩ := (mem_keys_sitePages es _).1 hmem
      exact (hp e' he').1 hd
  unfold classify
  have : ([indexHtml] : List Name).dropLast = [] := rfl
  rw [this]
  have hex : pathExists (sitePages es) [] = true := by simp [pathExists, isDir]
  simp only [hex, Bool.not_true, Bool.false_and, hdir, hfile, Bool.or_false]
  rfl

/-- **the disk is the flat model** under the guards -/
theorem siteOnDisk_eq (es : List HtmlEntry) (hg : NoFileDir es) (hi : NoIndexDir es) (hp : Placed es) :
    siteOnDisk es = some
      { pages := HtmlSite.pageFiles ⟨sitePages es, siteDirs es⟩
        indexes := HtmlSite.indexFiles ⟨sitePages es, siteDirs es⟩ } := by
  unfold siteOnDisk
  rw [writeAll_eq_sitePages es hg (fun e he => (hp e he).1)]
  simp only
  unfold indexFilesOnDisk
  rw [classify_global_written es hi hp]
  simp only
  rw [dirIndexes_of_guard es hg hi hp (siteDirs es) _ (fun df hdf => mem_siteDirs es df hdf)]
  rfl

end Grcov.Writers.HtmlDisk
