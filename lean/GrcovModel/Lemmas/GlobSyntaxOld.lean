/-
Lemmas: CONSERVATIVE EXTENSION of GrcovModel/Glob.lean by GrcovModel/Glob/Syntax.lean.
The old parser (`Glob.parse`, a byte-level state machine over literals, `?`, `*`, `**`) and the new
one (`GlobSyntax.parse`, over chars) are run in lockstep (`Sim`): one char of the new parser is the
1-4 UTF-8 bytes of the old one; as long as the old parser has not said "outside the subset" the
two token stacks are the same up to spelling a literal char as its bytes, and the two matchers
agree on those tokens (`matchT_old`). Result: `parse_conservative`.
-/
import GrcovModel.Lemmas.GlobSyntax
set_option linter.unusedSimpArgs false
namespace Grcov.GlobSyntax
open Grcov.UPath (Bytes)
open Grcov.Glob (tails afterSlashes)
/-! ### the old subset -/

/-- the tokens of GrcovModel/Glob.lean a token of the old subset stands for (one per byte of a
literal) -/
def oldAtom : Atom → List Glob.Tok
  | .lit c => (enc c).map Glob.Tok.lit
  | .any => [.any]
  | .star => [.star]
  | .recPrefix => [.recPrefix]
  | .recSuffix => [.recSuffix]
  | .recZOM => [.recZOM]
  | .cls _ _ => []

def oldTok : Tok → List Glob.Tok
  | .atom a => oldAtom a
  | .alt _ => []

def OldSub : Tok → Prop
  | .atom (.cls _ _) => False
  | .alt _ => False
  | _ => True

theorem enc_ne_nil (c : Nat) : enc c ≠ [] := by
  unfold enc
  split
  · simp
  · split
    · simp
    · split <;> simp

theorem enc_ascii (c : Nat) (h : c < 128) : enc c = [c] := by simp [enc, h]

/-- every byte of a non-ASCII char is ≥ 128 -/
theorem enc_hi (c : Nat) (h : 128 ≤ c) : ∀ b ∈ enc c, 128 ≤ b := by
  intro b hb
  unfold enc at hb
  have h1 : ¬ c < 128 := by omega
  simp only [h1, if_false] at hb
  split at hb
  · simp only [List.mem_cons, List.not_mem_nil, or_false] at hb; omega
  · split at hb
    · simp only [List.mem_cons, List.not_mem_nil, or_false] at hb; omega
    · simp only [List.mem_cons, List.not_mem_nil, or_false] at hb; omega

theorem matchToks_lits_append (l : Bytes) (rest : List Glob.Tok) (bs : Bytes) :
    Glob.matchToks (l.map Glob.Tok.lit ++ rest) bs =
      (match stripPre l bs with
       | some r => Glob.matchToks rest r
       | none => false) := by
  induction l generalizing bs with
  | nil => simp [stripPre]
  | cons a l ih =>
    cases bs with
    | nil => simp [Glob.matchToks, stripPre]
    | cons b bs =>
      simp only [List.map_cons, List.cons_append, Glob.matchToks, stripPre, ih]
      by_cases h : a = b
      · subst h; simp
      · have : (b == a) = false := by simp [beq_eq_false_iff_ne]; exact fun e => h e.symm
        simp [h, this]

theorem matchA_nil (k : Bytes → Bool) : matchA [] k = k := by
  funext bs; simp [matchA]

theorem matchT_old (ts : Tokens) (h : ∀ t ∈ ts, OldSub t) (bs : Bytes) :
    matchT ts bs = Glob.matchToks (ts.flatMap oldTok) bs := by
  induction ts generalizing bs with
  | nil => simp [matchT, Glob.matchToks]
  | cons t ts ih =>
    have iht : matchT ts = Glob.matchToks (ts.flatMap oldTok) := by
      funext b; exact ih (fun t ht => h t (List.mem_cons_of_mem _ ht)) b
    have h0 := h t (List.mem_cons_self)
    cases t with
    | alt alts => exact absurd h0 (by simp [OldSub])
    | atom a =>
      cases a with
      | cls neg rs => exact absurd h0 (by simp [OldSub])
      | lit c =>
        simp only [matchT, matchA, List.flatMap_cons, oldTok, oldAtom, matchToks_lits_append, iht]
        rfl
      | any => cases bs <;> simp [matchT, matchA, oldTok, oldAtom, Glob.matchToks, iht]
      | star => simp [matchT, matchA, oldTok, oldAtom, Glob.matchToks, iht]
      | recPrefix => simp [matchT, matchA, oldTok, oldAtom, Glob.matchToks, iht]
      | recSuffix => cases bs <;> simp [matchT, matchA, oldTok, oldAtom, Glob.matchToks, iht]
      | recZOM => cases bs <;> simp [matchT, matchA, oldTok, oldAtom, Glob.matchToks, iht]


def Single : Atom → Prop
  | .lit c => c < 128
  | .cls _ _ => False
  | _ => True

def SepRel (op np : Option Nat) (top : List Tok) : Prop :=
  (op = some 47 ↔ np = some 47) ∧ (np = some 47 → ∃ a r, top = .atom a :: r ∧ Single a)

def revToks (top : List Tok) : List Glob.Tok := top.flatMap fun t => (oldTok t).reverse

structure Sim (o : Glob.PSt) (n : PSt) : Prop where
  bad : o.bad = false
  alts : n.alts = []
  toks : o.rev = revToks n.top
  sub : ∀ t ∈ n.top, OldSub t
  mode : (o.pend = 0 ∧ n.mode = .normal ∧ SepRel o.prev n.cur n.top) ∨
         (o.pend = 1 ∧ ∃ p, n.mode = .star1 p ∧ n.cur = some 42 ∧ SepRel o.prev p n.top) ∨
         (o.pend = 2 ∧ ∃ p, n.mode = .star2 p ∧ n.cur = some 42 ∧ SepRel o.prev p n.top)

theorem revToks_cons (t : Tok) (top : List Tok) : revToks (t :: top) = (oldTok t).reverse ++ revToks top := by
  simp [revToks]

theorem revToks_eq_nil (top : List Tok) (h : ∀ t ∈ top, OldSub t) : revToks top = [] ↔ top = [] := by
  cases top with
  | nil => simp [revToks]
  | cons t top =>
    simp only [revToks_cons, List.append_eq_nil_iff, List.reverse_eq_nil_iff, reduceCtorEq, iff_false, not_and]
    intro h1
    have := h t List.mem_cons_self
    cases t with
    | alt _ => exact absurd this (by simp [OldSub])
    | atom a =>
      cases a <;> simp_all [oldTok, oldAtom, OldSub, enc_ne_nil]


def oflush (rev : List Glob.Tok) : Nat → List Glob.Tok
  | 0 => rev
  | 1 => .star :: rev
  | _ => .star :: .star :: rev

def nflush (top : List Tok) : Mode → List Tok
  | .star1 _ => .atom .star :: top
  | .star2 _ => .atom .star :: .atom .star :: top
  | _ => top

/-- neither a star nor a separator nor outside the old subset -/
def Ord (c : Nat) : Prop := c ≠ 42 ∧ c ≠ 47 ∧ c ≠ 91 ∧ c ≠ 123 ∧ c ≠ 125 ∧ c ≠ 92

def otok (b : Nat) : Glob.Tok := if b = 63 then .any else .lit b
def ntok (c : Nat) : Atom := if c = 63 then .any else .lit c

theorem unsupported_false (c : Nat) (h : Ord c) : Glob.unsupported c = false := by
  obtain ⟨_, _, h1, h2, h3, h4⟩ := h
  simp [Glob.unsupported, h1, h2, h3, h4]

theorem old_step_ord (b : Nat) (hb : Ord b) (rev : List Glob.Tok) (prev : Option Nat) (pend : Nat) :
    Glob.step ⟨rev, prev, pend, false⟩ b = ⟨otok b :: oflush rev pend, some b, 0, false⟩ := by
  have hu := unsupported_false b hb
  obtain ⟨h1, h3, _⟩ := hb
  unfold Glob.step otok
  by_cases h2 : b = 63
  · subst h2
    match pend with
    | 0 => simp [Glob.step0, oflush]
    | 1 => simp [Glob.step0, oflush]
    | n + 2 =>
      simp only [oflush]
      by_cases hr : rev = []
      · simp [hr, Glob.step0, Glob.pushStars]
      · by_cases hp : prev = some 47
        · simp [hr, hp, Glob.step0, Glob.pushStars]
        · simp [hr, hp, Glob.step0, Glob.pushStars]
  · match pend with
    | 0 => simp [Glob.step0, h1, h2, hu, oflush]
    | 1 => simp [Glob.step0, h1, h2, hu, oflush]
    | n + 2 =>
      simp only [oflush]
      by_cases hr : rev = []
      · simp [hr, h3, Glob.step0, Glob.pushStars, h1, h2, hu]
      · by_cases hp : prev = some 47
        · simp [hr, hp, h3, Glob.step0, Glob.pushStars, h1, h2, hu]
        · simp [hr, hp, h3, Glob.step0, Glob.pushStars, h1, h2, hu]

theorem ord_hi (b : Nat) (h : 128 ≤ b) : Ord b := by
  unfold Ord; omega

theorem otok_hi (b : Nat) (h : 128 ≤ b) : otok b = .lit b := by
  unfold otok; have : b ≠ 63 := by omega
  simp [this]

/-- the tokens the old parser pushes for one ordinary char, last byte first -/
def otoks (c : Nat) : List Glob.Tok := if c = 63 then [.any] else ((enc c).map Glob.Tok.lit).reverse

/-- the old parser over the bytes of one ordinary char -/
theorem old_steps_ord (c : Nat) (hc : Ord c) (rev : List Glob.Tok) (prev : Option Nat) (pend : Nat) :
    (enc c).foldl Glob.step ⟨rev, prev, pend, false⟩ =
      ⟨otoks c ++ oflush rev pend, (enc c).getLast?, 0, false⟩ := by
  by_cases h : c < 128
  · by_cases h63 : c = 63
    · subst h63; simp [enc, old_step_ord 63 hc, otoks, otok]
    · simp [enc_ascii c h, old_step_ord c hc, otoks, otok, h63]
  · have hall := enc_hi c (by omega)
    have h63 : c ≠ 63 := by omega
    unfold otoks
    unfold enc at hall ⊢
    simp only [h, h63, if_false] at hall ⊢
    split at hall
    · rename_i h2
      simp only [h2, if_true, List.foldl_cons, List.foldl_nil]
      rw [old_step_ord _ (ord_hi _ (hall _ (by simp))), old_step_ord _ (ord_hi _ (hall _ (by simp))),
        otok_hi _ (hall _ (by simp)), otok_hi _ (hall _ (by simp))]
      simp [oflush]
    · rename_i h2
      split at hall
      · rename_i h3
        simp only [h2, h3, if_true, if_false, List.foldl_cons, List.foldl_nil]
        rw [old_step_ord _ (ord_hi _ (hall _ (by simp))), old_step_ord _ (ord_hi _ (hall _ (by simp))),
          old_step_ord _ (ord_hi _ (hall _ (by simp))),
          otok_hi _ (hall _ (by simp)), otok_hi _ (hall _ (by simp)), otok_hi _ (hall _ (by simp))]
        simp [oflush]
      · rename_i h3
        simp only [h2, h3, if_false, List.foldl_cons, List.foldl_nil]
        rw [old_step_ord _ (ord_hi _ (hall _ (by simp))), old_step_ord _ (ord_hi _ (hall _ (by simp))),
          old_step_ord _ (ord_hi _ (hall _ (by simp))), old_step_ord _ (ord_hi _ (hall _ (by simp))),
          otok_hi _ (hall _ (by simp)), otok_hi _ (hall _ (by simp)), otok_hi _ (hall _ (by simp)),
          otok_hi _ (hall _ (by simp))]
        simp [oflush]

theorem stepNormal_ord (c : Nat) (hc : Ord c) (top : List Tok) (cur : Option Nat) :
    stepNormal ⟨top, [], cur, .normal⟩ c = ⟨.atom (ntok c) :: top, [], some c, .normal⟩ := by
  obtain ⟨h1, h3, h4, h5, h6, h7⟩ := hc
  unfold stepNormal ntok
  by_cases h63 : c = 63
  · subst h63; simp [pushAtom]
  · by_cases h44 : c = 44
    · subst h44; simp [pushAtom]
    · simp [h1, h63, h4, h5, h6, h7, h44, pushAtom]

theorem new_step_ord (c : Nat) (hc : Ord c) (top : List Tok) (cur : Option Nat) (m : Mode)
    (hm : m = .normal ∨ (∃ p, m = .star1 p) ∨ (∃ p, m = .star2 p)) :
    step ⟨top, [], cur, m⟩ c = ⟨.atom (ntok c) :: nflush top m, [], some c, .normal⟩ := by
  have h1 := hc.1
  have h3 := hc.2.1
  rcases hm with rfl | ⟨p, rfl⟩ | ⟨p, rfl⟩
  · simp [step, stepNormal_ord c hc, nflush]
  · simp [step, h1, pushAtom, stepNormal_ord c hc, nflush]
  · unfold step
    simp only [afterStar2, star2, haveTokens, isSep, Option.all_some, Option.any_some, h3, decide_false,
      List.isEmpty_nil, Bool.not_true, Bool.and_false, Bool.or_false]
    by_cases ht : top = []
    · subst ht
      simp [twoStars, pushAtom, stepNormal_ord c hc, nflush]
    · have : top.isEmpty = false := by cases top <;> simp_all
      simp only [this, Bool.not_false, Bool.not_true, Bool.false_eq_true, if_false]
      by_cases hp : p.any isSep = true
      · simp [hp, isSep, h3, twoStars, pushAtom, stepNormal_ord c hc, nflush]
      · simp [hp, isSep, h3, twoStars, pushAtom, stepNormal_ord c hc, nflush]

theorem revToks_nflush (top : List Tok) (m : Mode) (pend : Nat)
    (h : (pend = 0 ∧ m = .normal) ∨ (pend = 1 ∧ ∃ p, m = .star1 p) ∨ (pend = 2 ∧ ∃ p, m = .star2 p)) :
    revToks (nflush top m) = oflush (revToks top) pend := by
  rcases h with ⟨rfl, rfl⟩ | ⟨rfl, p, rfl⟩ | ⟨rfl, p, rfl⟩ <;>
    simp [nflush, oflush, revToks_cons, oldTok, oldAtom]

theorem oldSub_nflush (top : List Tok) (m : Mode) (h : ∀ t ∈ top, OldSub t) : ∀ t ∈ nflush top m, OldSub t := by
  intro t ht
  cases m <;> simp only [nflush, List.mem_cons] at ht
  all_goals first
    | exact h t ht
    | (rcases ht with rfl | rfl | ht
       · simp [OldSub]
       · simp [OldSub]
       · exact h t ht)
    | (rcases ht with rfl | ht
       · simp [OldSub]
       · exact h t ht)

theorem getLast_enc_ne (c : Nat) (hc : c ≠ 47) : (enc c).getLast? ≠ some 47 := by
  by_cases h : c < 128
  · simp [enc_ascii c h, hc]
  · have hall := enc_hi c (by omega)
    intro hl
    have := hall 47 (List.mem_of_getLast? hl)
    omega

/-- an ordinary char: both parsers flush the pending stars and push its token(s) -/
theorem sim_ord (o : Glob.PSt) (n : PSt) (h : Sim o n) (c : Nat) (hc : Ord c) :
    Sim ((enc c).foldl Glob.step o) (step n c) := by
  obtain ⟨rev, prev, pend, bad⟩ := o
  obtain ⟨top, alts, cur, m⟩ := n
  obtain ⟨hbad, halts, htoks, hsub, hmode⟩ := h
  simp only at hbad halts htoks hsub hmode
  subst hbad halts
  have hm : m = .normal ∨ (∃ p, m = .star1 p) ∨ (∃ p, m = .star2 p) := by
    rcases hmode with ⟨_, h, _⟩ | ⟨_, p, h, _⟩ | ⟨_, p, h, _⟩
    · exact Or.inl h
    · exact Or.inr (Or.inl ⟨p, h⟩)
    · exact Or.inr (Or.inr ⟨p, h⟩)
  have hpm : (pend = 0 ∧ m = .normal) ∨ (pend = 1 ∧ ∃ p, m = .star1 p) ∨ (pend = 2 ∧ ∃ p, m = .star2 p) := by
    rcases hmode with ⟨h0, h, _⟩ | ⟨h0, p, h, _⟩ | ⟨h0, p, h, _⟩
    · exact Or.inl ⟨h0, h⟩
    · exact Or.inr (Or.inl ⟨h0, p, h⟩)
    · exact Or.inr (Or.inr ⟨h0, p, h⟩)
  rw [old_steps_ord c hc, new_step_ord c hc top cur m hm]
  refine ⟨rfl, rfl, ?_, ?_, Or.inl ⟨rfl, rfl, ?_, ?_⟩⟩
  · simp only [revToks_cons, revToks_nflush top m pend hpm, htoks]
    congr 1
    unfold otoks ntok
    by_cases h63 : c = 63 <;> simp [h63, oldTok, oldAtom]
  · intro t ht
    rcases List.mem_cons.1 ht with rfl | ht
    · unfold ntok; split <;> simp [OldSub]
    · exact oldSub_nflush top m hsub t ht
  · have := getLast_enc_ne c hc.2.1
    simp only [this, false_iff]
    intro h'; exact hc.2.1 (Option.some.inj h')
  · intro h'; exact absurd (Option.some.inj h') hc.2.1

theorem replace_single (a : Atom) (hs : Single a) (r : List Tok) (sfx : Bool) :
    Glob.replaceTop sfx (revToks (.atom a :: r)) = revToks (.atom (replaceAtom sfx a) :: r) ∧
    Single (replaceAtom sfx a) ∧ OldSub (.atom (replaceAtom sfx a)) := by
  cases a with
  | cls neg rs => exact absurd hs (by simp [Single])
  | lit c =>
    have hc : c < 128 := hs
    cases sfx <;>
      simp [revToks_cons, oldTok, oldAtom, enc_ascii c hc, Glob.replaceTop, replaceAtom, Single, OldSub]
  | any => cases sfx <;> simp [revToks_cons, oldTok, oldAtom, Glob.replaceTop, replaceAtom, Single, OldSub]
  | star => cases sfx <;> simp [revToks_cons, oldTok, oldAtom, Glob.replaceTop, replaceAtom, Single, OldSub]
  | recPrefix => cases sfx <;> simp [revToks_cons, oldTok, oldAtom, Glob.replaceTop, replaceAtom, Single, OldSub]
  | recSuffix => cases sfx <;> simp [revToks_cons, oldTok, oldAtom, Glob.replaceTop, replaceAtom, Single, OldSub]
  | recZOM => cases sfx <;> simp [revToks_cons, oldTok, oldAtom, Glob.replaceTop, replaceAtom, Single, OldSub]

theorem sim_star (o : Glob.PSt) (n : PSt) (h : Sim o n) : Sim (Glob.step o 42) (step n 42) := by
  obtain ⟨rev, prev, pend, bad⟩ := o
  obtain ⟨top, alts, cur, m⟩ := n
  obtain ⟨hbad, halts, htoks, hsub, hmode⟩ := h
  simp only at hbad halts htoks hsub hmode
  subst hbad halts
  rcases hmode with ⟨rfl, rfl, hr⟩ | ⟨rfl, p, rfl, rfl, hr⟩ | ⟨rfl, p, rfl, rfl, hr⟩
  · refine ⟨by simp [Glob.step, Glob.step0], by simp [step, stepNormal], ?_, ?_, Or.inr (Or.inl ⟨?_, cur, ?_, ?_, ?_⟩)⟩
      <;> simp [Glob.step, Glob.step0, step, stepNormal, htoks]
    · exact hsub
    · exact hr
  · refine ⟨by simp [Glob.step], by simp [step], ?_, ?_, Or.inr (Or.inr ⟨?_, p, ?_, ?_, ?_⟩)⟩
      <;> simp [Glob.step, step, htoks]
    · exact hsub
    · exact hr
  · have hold : Glob.step ⟨rev, prev, 2, false⟩ 42 = ⟨.star :: .star :: rev, some 42, 1, false⟩ := by
      unfold Glob.step
      by_cases hr' : rev = []
      · simp [hr', Glob.step0, Glob.pushStars]
      · by_cases hp : prev = some 47 <;> simp [hr', hp, Glob.step0, Glob.pushStars]
    have hnew : step ⟨top, [], some 42, .star2 p⟩ 42 =
        ⟨.atom .star :: .atom .star :: top, [], some 42, .star1 (some 42)⟩ := by
      unfold step
      simp only [afterStar2, star2, haveTokens, isSep, Option.all_some, Option.any_some, List.isEmpty_nil,
        Bool.not_true, Bool.and_false]
      by_cases ht : top = []
      · subst ht; simp [twoStars, pushAtom, stepNormal]
      · have : top.isEmpty = false := by cases top <;> simp_all
        by_cases hp : p.any isSep = true <;> simp [this, hp, isSep, twoStars, pushAtom, stepNormal]
    rw [hold, hnew]
    refine ⟨rfl, rfl, ?_, ?_, Or.inr (Or.inl ⟨rfl, some 42, rfl, rfl, ?_⟩)⟩
    · simp [revToks_cons, oldTok, oldAtom, htoks]
    · intro t ht
      simp only [List.mem_cons] at ht
      rcases ht with rfl | rfl | ht
      · simp [OldSub]
      · simp [OldSub]
      · exact hsub t ht
    · simp [SepRel]

theorem sim_slash (o : Glob.PSt) (n : PSt) (h : Sim o n) : Sim (Glob.step o 47) (step n 47) := by
  obtain ⟨rev, prev, pend, bad⟩ := o
  obtain ⟨top, alts, cur, m⟩ := n
  obtain ⟨hbad, halts, htoks, hsub, hmode⟩ := h
  simp only at hbad halts htoks hsub hmode
  subst hbad halts
  -- the state both reach when '/' ends up as a literal on top of `top'`
  have lit (rev' : List Glob.Tok) (top' : List Tok) (ht : rev' = revToks top') (hs : ∀ t ∈ top', OldSub t) :
      Sim ⟨.lit 47 :: rev', some 47, 0, false⟩ ⟨.atom (.lit 47) :: top', [], some 47, .normal⟩ := by
    refine ⟨rfl, rfl, ?_, ?_, Or.inl ⟨rfl, rfl, ?_⟩⟩
    · simp [revToks_cons, oldTok, oldAtom, enc, ht]
    · intro t ht'
      rcases List.mem_cons.1 ht' with rfl | ht'
      · simp [OldSub]
      · exact hs t ht'
    · exact ⟨by simp, fun _ => ⟨_, _, rfl, by simp [Single]⟩⟩
  rcases hmode with ⟨rfl, rfl, hr⟩ | ⟨rfl, p, rfl, rfl, hr⟩ | ⟨rfl, p, rfl, rfl, hr⟩
  · have := lit rev top htoks hsub
    simpa [Glob.step, Glob.step0, Glob.unsupported, step, stepNormal, pushAtom] using this
  · have := lit (.star :: rev) (.atom .star :: top) (by simp [revToks_cons, oldTok, oldAtom, htoks])
      (by intro t ht; rcases List.mem_cons.1 ht with rfl | ht
          · simp [OldSub]
          · exact hsub t ht)
    simpa [Glob.step, Glob.step0, Glob.unsupported, step, stepNormal, pushAtom] using this
  · have two := lit (.star :: .star :: rev) (.atom .star :: .atom .star :: top)
      (by simp [revToks_cons, oldTok, oldAtom, htoks])
      (by intro t ht
          simp only [List.mem_cons] at ht
          rcases ht with rfl | rfl | ht
          · simp [OldSub]
          · simp [OldSub]
          · exact hsub t ht)
    by_cases ht : top = []
    · subst ht
      have hr0 : rev = [] := by simpa [revToks] using htoks
      subst hr0
      refine ⟨by simp [Glob.step], by simp [step, afterStar2, star2, haveTokens, isSep, pushAtom], ?_, ?_,
        Or.inl ⟨by simp [Glob.step], by simp [step, afterStar2, star2, haveTokens, isSep, pushAtom], ?_⟩⟩
      · simp [Glob.step, step, afterStar2, star2, haveTokens, isSep, pushAtom, revToks, oldTok, oldAtom]
      · simp [step, afterStar2, star2, haveTokens, isSep, pushAtom, OldSub]
      · simp [Glob.step, step, afterStar2, star2, haveTokens, isSep, pushAtom, SepRel, Single]
    · have hte : top.isEmpty = false := by cases top <;> simp_all
      have hrne : rev ≠ [] := by
        rw [htoks]; intro h0; exact ht ((revToks_eq_nil top hsub).1 h0)
      by_cases hp : p = some 47
      · subst hp
        have hprev : prev = some 47 := hr.1.2 rfl
        subst hprev
        obtain ⟨a, r, rfl, hsing⟩ := hr.2 rfl
        obtain ⟨h1, h2, h3⟩ := replace_single a hsing r false
        have hold : Glob.step ⟨rev, some 47, 2, false⟩ 47 = ⟨Glob.replaceTop false rev, some 47, 0, false⟩ := by
          simp [Glob.step, hrne]
        have hnew : step ⟨.atom a :: r, [], some 42, .star2 (some 47)⟩ 47 =
            ⟨.atom (replaceAtom false a) :: r, [], some 47, .normal⟩ := by
          simp [step, afterStar2, star2, haveTokens, isSep, replaceLast]
        rw [hold, hnew]
        refine ⟨rfl, rfl, ?_, ?_, Or.inl ⟨rfl, rfl, ?_⟩⟩
        · simp only [htoks, h1]
        · intro t ht'
          rcases List.mem_cons.1 ht' with rfl | ht'
          · exact h3
          · exact hsub t (List.mem_cons_of_mem _ ht')
        · exact ⟨by simp, fun _ => ⟨_, _, rfl, h2⟩⟩
      · have hprev : prev ≠ some 47 := fun e => hp (hr.1.1 e)
        have hpa : p.any isSep = false := by
          cases p with
          | none => rfl
          | some x =>
            have : x ≠ 47 := fun e => hp (by rw [e])
            simp [isSep, this]
        have hold : Glob.step ⟨rev, prev, 2, false⟩ 47 = ⟨.lit 47 :: .star :: .star :: rev, some 47, 0, false⟩ := by
          simp [Glob.step, hrne, hprev, Glob.step0, Glob.pushStars, Glob.unsupported]
        have hnew : step ⟨top, [], some 42, .star2 p⟩ 47 =
            ⟨.atom (.lit 47) :: .atom .star :: .atom .star :: top, [], some 47, .normal⟩ := by
          simp [step, afterStar2, star2, haveTokens, hte, hpa, twoStars, pushAtom, stepNormal]
        rw [hold, hnew]; exact two

theorem old_bad_step (o : Glob.PSt) (h : o.bad = true) (b : Nat) : (Glob.step o b).bad = true := by
  obtain ⟨rev, prev, pend, bad⟩ := o
  simp only at h; subst h
  unfold Glob.step
  match pend with
  | 0 =>
    simp only [Glob.step0]
    repeat' split
    all_goals rfl
  | 1 =>
    simp only [Glob.step0]
    repeat' split
    all_goals rfl
  | n + 2 =>
    simp only [Glob.step0, Glob.pushStars]
    repeat' split
    all_goals rfl

theorem old_bad_foldl (bs : Bytes) (o : Glob.PSt) (h : o.bad = true) : (bs.foldl Glob.step o).bad = true := by
  induction bs generalizing o with
  | nil => exact h
  | cons b bs ih => exact ih _ (old_bad_step o h b)

theorem old_unsupported_step (o : Glob.PSt) (c : Nat) (h : c = 91 ∨ c = 123 ∨ c = 125 ∨ c = 92) :
    (Glob.step o c).bad = true := by
  obtain ⟨rev, prev, pend, bad⟩ := o
  have hu : Glob.unsupported c = true := by
    rcases h with rfl | rfl | rfl | rfl <;> simp [Glob.unsupported]
  have h1 : c ≠ 42 := by omega
  have h2 : c ≠ 63 := by omega
  have h3 : c ≠ 47 := by omega
  unfold Glob.step
  match pend with
  | 0 => simp [Glob.step0, h1, h2, hu]
  | 1 => simp [Glob.step0, h1, h2, hu]
  | n + 2 =>
    by_cases hr : rev = []
    · simp [hr, h3, Glob.step0, Glob.pushStars, h1, h2, hu]
    · by_cases hp : prev = some 47 <;> simp [hr, hp, h3, Glob.step0, Glob.pushStars, h1, h2, hu]

theorem revToks_reverse (top : List Tok) : (revToks top).reverse = top.reverse.flatMap oldTok := by
  induction top with
  | nil => simp [revToks]
  | cons t top ih => simp [revToks_cons, ih]

/-- at the end of the pattern both parsers hand out the same tokens -/
theorem sim_finish (o : Glob.PSt) (n : PSt) (h : Sim o n) (ot : List Glob.Tok) (hf : Glob.finish o = some ot) :
    ∃ ts, finish n = .ok ts ∧ ot = ts.flatMap oldTok ∧ ∀ t ∈ ts, OldSub t := by
  obtain ⟨rev, prev, pend, bad⟩ := o
  obtain ⟨top, alts, cur, m⟩ := n
  obtain ⟨hbad, halts, htoks, hsub, hmode⟩ := h
  simp only at hbad halts htoks hsub hmode
  subst hbad halts
  rcases hmode with ⟨rfl, rfl, hr⟩ | ⟨rfl, p, rfl, rfl, hr⟩ | ⟨rfl, p, rfl, rfl, hr⟩
  · simp only [Glob.finish, Bool.false_eq_true, if_false, Option.some.injEq] at hf
    refine ⟨top.reverse, by simp [finish, closeAlts], ?_, fun t ht => hsub t (List.mem_reverse.1 ht)⟩
    rw [← hf, htoks, revToks_reverse]
  · simp only [Glob.finish, Bool.false_eq_true, if_false, Option.some.injEq] at hf
    refine ⟨(Tok.atom .star :: top).reverse, by simp [finish, closeAlts, pushAtom], ?_, ?_⟩
    · rw [← hf, htoks, ← revToks_reverse]; simp [revToks_cons, oldTok, oldAtom]
    · intro t ht
      rcases List.mem_cons.1 (List.mem_reverse.1 ht) with rfl | ht
      · simp [OldSub]
      · exact hsub t ht
  · simp only [Glob.finish, Bool.false_eq_true, if_false] at hf
    by_cases ht : top = []
    · subst ht
      have hr0 : rev = [] := by simpa [revToks] using htoks
      subst hr0
      simp only [if_true, Option.some.injEq] at hf
      refine ⟨[.atom .recPrefix], by simp [finish, closeAlts, star2, haveTokens, pushAtom], ?_, by simp [OldSub]⟩
      simp [← hf, oldTok, oldAtom]
    · have hte : top.isEmpty = false := by cases top <;> simp_all
      have hrne : rev ≠ [] := by
        rw [htoks]; intro h0; exact ht ((revToks_eq_nil top hsub).1 h0)
      simp only [hrne, if_false] at hf
      by_cases hp : p = some 47
      · subst hp
        have hprev : prev = some 47 := hr.1.2 rfl
        subst hprev
        obtain ⟨a, r, rfl, hsing⟩ := hr.2 rfl
        obtain ⟨h1, h2, h3⟩ := replace_single a hsing r true
        simp only [ne_eq, not_true_eq_false, if_false, Option.some.injEq] at hf
        refine ⟨(Tok.atom (replaceAtom true a) :: r).reverse,
          by simp [finish, closeAlts, star2, haveTokens, isSep, replaceLast], ?_, ?_⟩
        · rw [← hf, htoks, h1, revToks_reverse]
        · intro t ht'
          rcases List.mem_cons.1 (List.mem_reverse.1 ht') with rfl | ht'
          · exact h3
          · exact hsub t (List.mem_cons_of_mem _ ht')
      · have hprev : prev ≠ some 47 := fun e => hp (hr.1.1 e)
        have hpa : p.any isSep = false := by
          cases p with
          | none => rfl
          | some x =>
            have : x ≠ 47 := fun e => hp (by rw [e])
            simp [isSep, this]
        simp only [ne_eq, hprev, not_false_eq_true, if_true, Option.some.injEq] at hf
        refine ⟨(Tok.atom .star :: .atom .star :: top).reverse,
          by simp [finish, closeAlts, star2, haveTokens, hte, hpa, twoStars, pushAtom], ?_, ?_⟩
        · rw [← hf, htoks, ← revToks_reverse]; simp [revToks_cons, oldTok, oldAtom]
        · intro t ht'
          have := List.mem_reverse.1 ht'
          simp only [List.mem_cons] at this
          rcases this with rfl | rfl | ht'
          · simp [OldSub]
          · simp [OldSub]
          · exact hsub t ht'

theorem encPat_cons (c : Nat) (cs : Chars) : encPat (c :: cs) = enc c ++ encPat cs := by
  simp [encPat]

theorem sim_run (cs : Chars) (o : Glob.PSt) (n : PSt) (h : Sim o n) (ot : List Glob.Tok)
    (hf : Glob.finish ((encPat cs).foldl Glob.step o) = some ot) :
    ∃ ts, finish (cs.foldl step n) = .ok ts ∧ ot = ts.flatMap oldTok ∧ ∀ t ∈ ts, OldSub t := by
  induction cs generalizing o n with
  | nil => exact sim_finish o n h ot (by simpa [encPat] using hf)
  | cons c cs ih =>
    rw [encPat_cons, List.foldl_append] at hf
    simp only [List.foldl_cons]
    by_cases hu : c = 91 ∨ c = 123 ∨ c = 125 ∨ c = 92
    · exfalso
      have hc : c < 128 := by omega
      rw [enc_ascii c hc] at hf
      have hb := old_bad_foldl (encPat cs) _ (old_unsupported_step o c hu)
      simp only [List.foldl_cons, List.foldl_nil] at hf
      simp [Glob.finish, hb] at hf
    · by_cases h42 : c = 42
      · subst h42
        exact ih _ _ (sim_star o n h) (by simpa [enc] using hf)
      · by_cases h47 : c = 47
        · subst h47
          exact ih _ _ (sim_slash o n h) (by simpa [enc] using hf)
        · have hord : Ord c := by unfold Ord; omega
          exact ih _ _ (sim_ord o n h c hord) hf

theorem sim_init : Sim {} {} := by
  refine ⟨rfl, rfl, rfl, by simp, Or.inl ⟨rfl, rfl, ?_⟩⟩
  simp [SepRel]

theorem oldTok_ne_nil (t : Tok) (h : OldSub t) : oldTok t ≠ [] := by
  cases t with
  | alt _ => exact absurd h (by simp [OldSub])
  | atom a => cases a <;> simp_all [oldTok, oldAtom, OldSub, enc_ne_nil]

theorem flatMap_oldTok_recPrefix (ts : Tokens) (h : ∀ t ∈ ts, OldSub t) :
    ts.flatMap oldTok = [Glob.Tok.recPrefix] ↔ ts = [.atom .recPrefix] := by
  constructor
  · intro hf
    cases ts with
    | nil => simp at hf
    | cons t ts =>
      have h1 := oldTok_ne_nil t (h t List.mem_cons_self)
      simp only [List.flatMap_cons] at hf
      cases ho : oldTok t with
      | nil => exact absurd ho h1
      | cons x xs =>
        rw [ho] at hf
        simp only [List.cons_append, List.cons.injEq] at hf
        obtain ⟨rfl, hrest⟩ := hf
        have hx : xs = [] ∧ ts.flatMap oldTok = [] := by simpa using hrest
        have hts : ts = [] := by
          cases ts with
          | nil => rfl
          | cons t2 ts2 =>
            have := oldTok_ne_nil t2 (h t2 (by simp))
            simp only [List.flatMap_cons, List.append_eq_nil_iff] at hx
            exact absurd hx.2.1 this
        subst hts
        rw [hx.1] at ho
        cases t with
        | alt _ => simp [oldTok] at ho
        | atom a =>
          cases a with
          | recPrefix => rfl
          | lit c =>
            exfalso
            simp only [oldTok, oldAtom] at ho
            cases he : enc c <;> simp [he] at ho
          | _ => simp [oldTok, oldAtom] at ho
  · rintro rfl; simp [oldTok, oldAtom]

/-- CONSERVATIVE EXTENSION, parser and matcher: a pattern of the old subset (given by its chars;
the old parser reads their UTF-8 bytes) is accepted by the new parser, and the new matcher agrees
with the old one on every path. -/
theorem parse_conservative (cs : Chars) (ot : List Glob.Tok) (h : Glob.parse (encPat cs) = some ot) :
    ∃ ts, parse cs = .ok ts ∧ ∀ p, regexMatch ts p = Glob.matchOne ot p := by
  obtain ⟨ts, h1, h2, h3⟩ := sim_run cs {} {} sim_init ot h
  refine ⟨ts, h1, fun p => ?_⟩
  unfold regexMatch Glob.matchOne
  have := flatMap_oldTok_recPrefix ts h3
  by_cases hts : ts = [.atom .recPrefix]
  · simp [hts, h2, oldTok, oldAtom]
  · have : ¬ ot = [Glob.Tok.recPrefix] := by rw [h2]; exact fun e => hts (this.1 e)
    simp only [hts, this, if_false]
    rw [h2]; exact matchT_old ts h3 p

end Grcov.GlobSyntax
