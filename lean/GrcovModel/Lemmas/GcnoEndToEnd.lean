/-
Helper lemmas for Props/C08EndToEnd.lean: the gcda that records a flow, `read_gcda` on it, `stop` for
notes with one function, and the merge of one function's line counts into an empty result.
-/
import GrcovModel.Lemmas.GcnoBytes
import GrcovModel.Lemmas.GcnoFlow
import GrcovModel.Lemmas.GcnoCert
namespace Grcov.Gcno
open Grcov AList Outcome

/-- the gcda of one run sequence with flow `F` through function `f`: its function record and the
counters of the arcs that are not on the tree, in arc order -/
def flowGcda (version checksum : Nat) (f : Func) (F : Nat → Nat) : Gcda :=
  ⟨version, checksum, [.func 3 f.ident f.lineChecksum f.cfgChecksum,
                       .arcs (2 * f.realEdgeCount) (flowVals F f.arcs 0)]⟩

theorem addGcdas_flowGcda (version checksum : Nat) (f : Func) (F : Nat → Nat) (c : Cnt)
    (hre : f.realEdgeCount < 4294967296)
    (hacc : accArcs f.blocks.length 0 f.arcs Cnt.zero (flowVals F f.arcs 0) = ok c) :
    addGcdas ⟨version, checksum, [f]⟩ State.zero [flowGcda version checksum f F] =
      ok (State.zero.set 0 c) := by
  have hz : State.zero 0 = Cnt.zero := rfl
  simp [addGcdas_cons, addGcdas_nil, addGcda, flowGcda, goRecs, identToFun, identToFunGo, hz,
    hacc]
  rw [if_neg (by omega)]
  rfl

theorem stop_single (version checksum : Nat) (f : Func) (st : State) :
    stop ⟨version, checksum, [f]⟩ st = (countOnTree version f (st 0)).bind fun fc => ok [fc] := by
  simp only [stop, stopGo]
  cases countOnTree version f (st 0) <;> rfl

theorem nodupKeys_linesToBlockLines (n : Nat) : ∀ (ls : List Nat) (m : List (Nat × List Nat)),
    NodupKeys m → NodupKeys (linesToBlockLines n ls m) := by
  intro ls
  induction ls with
  | nil => intro m h; exact h
  | cons l ls ih =>
    intro m h
    simp only [linesToBlockLines]
    apply ih
    split <;> exact nodupKeys_set h _ _

theorem nodupKeys_linesToBlock (f : Func) : NodupKeys (linesToBlock f) := by
  unfold linesToBlock
  have : ∀ (bl : List Block) (m : List (Nat × List Nat)), NodupKeys m → NodupKeys (linesToBlockGo bl m) := by
    intro bl
    induction bl with
    | nil => intro m h; exact h
    | cons b bl ih => intro m h; exact ih _ (nodupKeys_linesToBlockLines _ _ _ h)
  exact this _ _ (by simp [NodupKeys, keys])

/-- merging a function's line counts into a map: a line the map does not have yet and that occurs
once in the counts gets exactly its count -/
theorem mergeLines_get : ∀ (ls m m' : List (Nat × Nat)), NodupKeys ls → mergeLines m ls = ok m' →
    ∀ (l n : Nat), (l, n) ∈ ls → get? m l = none → get? m' l = some n := by
  intro ls
  induction ls with
  | nil => intro m m' _ _ l n h; cases h
  | cons p ls ih =>
    obtain ⟨l0, n0⟩ := p
    intro m m' hn h l n hmem hnone
    have hn' : NodupKeys ls := by
      unfold NodupKeys keys at *; simp only [List.map_cons, List.nodup_cons] at hn; exact hn.2
    have hl0 : l0 ∉ keys ls := by
      unfold NodupKeys keys at *; simp only [List.map_cons, List.nodup_cons] at hn; exact hn.1
    -- a key that does not occur in the rest keeps its value
    have keep : ∀ (ls : List (Nat × Nat)) (m m' : List (Nat × Nat)), mergeLines m ls = ok m' →
        ∀ x, x ∉ keys ls → get? m' x = get? m x := by
      intro ls
      induction ls with
      | nil => intro m m' h x _; simp only [mergeLines, Outcome.ok.injEq] at h; rw [h]
      | cons q ls ih2 =>
        obtain ⟨l1, n1⟩ := q
        intro m m' h x hx
        have hx1 : l1 ≠ x := fun e => hx (by simp [keys, e])
        have hx2 : x ∉ keys ls := fun e => hx (by simp only [keys, List.map_cons, List.mem_cons]; exact .inr e)
        simp only [mergeLines] at h
        split at h
        · split at h
          · cases h
          · rw [ih2 _ _ h x hx2, get?_set, if_neg hx1]
        · rw [ih2 _ _ h x hx2, get?_set, if_neg hx1]
    simp only [mergeLines] at h
    rcases List.mem_cons.1 hmem with e | hmem
    · simp only [Prod.mk.injEq] at e
      obtain ⟨rfl, rfl⟩ := e
      rw [hnone] at h
      simp only at h
      rw [keep ls _ _ h l hl0, get?_set, if_pos rfl]
    · have hne : l0 ≠ l := by
        intro e; subst e
        exact hl0 (List.mem_map.2 ⟨(l0, n), hmem, rfl⟩)
      split at h
      · split at h
        · cases h
        · exact ih _ _ hn' h l n hmem (by rw [get?_set, if_neg hne]; exact hnone)
      · exact ih _ _ hn' h l n hmem (by rw [get?_set, if_neg hne]; exact hnone)

end Grcov.Gcno
