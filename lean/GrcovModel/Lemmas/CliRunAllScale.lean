/-
Lemmas for the run-level C15 theorems (Props/C15Run.lean): what multiplying every line count of
every input record by `n ≥ 1` does to one whole run (`Cli.RunAll.run`) – nothing but multiply the
line counts of the report: exclusion markers remove keys, `--filter` looks at "count ≠ 0", the
sorts look at keys and paths, the writers' walk order is by key.
-/
import GrcovModel.Lemmas.CliRunAll
import GrcovModel.Lemmas.GcnoSim
namespace Grcov.Cli.RunAll
open Grcov AList Grcov.Lcov Grcov.Rewrite Grcov.FileFilter
open Grcov.Gcno (scaleLines scaleCov scaleRes)

/-- a record with every line count multiplied by `n` -/
def scaleRec (n : Nat) (r : Rec) : Rec := { r with cov := scaleCov n r.cov }

/-- the iteration order of the result map depends on the keys (paths), not on the coverage data:
rearranging commutes with any change of the data that keeps the paths. True of `{}` (insertion
order) and of every order read off a report (`HashOrder.ofListing`). -/
structure HashOrder.KeysOnly (h : HashOrder) : Prop where
  map : ∀ (f : Rec → Rec), (∀ r, (f r).abs = r.abs ∧ (f r).rel = r.rel) →
    ∀ l, h.recs (l.map f) = (h.recs l).map f

theorem HashOrder.keysOnly_id : HashOrder.KeysOnly {} := ⟨fun _ _ _ => rfl⟩

/-! ### maps on values commute with what looks at keys only -/

theorem erase_map_val {α β : Type} (g : α → β) (m : List (Nat × α)) (x : Nat) :
    erase (m.map fun p => (p.1, g p.2)) x = (erase m x).map fun p => (p.1, g p.2) := by
  induction m with
  | nil => rfl
  | cons kv m ih =>
    obtain ⟨k, v⟩ := kv
    by_cases h : k = x
    · simp [erase, h, ih]
    · simp [erase, h, ih]

theorem insertByKey_map_val {α β : Type} (g : α → β) (kv : Nat × α) (m : List (Nat × α)) :
    insertByKey (kv.1, g kv.2) (m.map fun p => (p.1, g p.2))
      = (insertByKey kv m).map fun p => (p.1, g p.2) := by
  induction m with
  | nil => rfl
  | cons x m ih =>
    simp only [List.map_cons, insertByKey]
    split
    · rfl
    · simp only [List.map_cons, ih]

theorem sortByKey_map_val {α β : Type} (g : α → β) (m : List (Nat × α)) :
    sortByKey (m.map fun p => (p.1, g p.2)) = (sortByKey m).map fun p => (p.1, g p.2) := by
  induction m with
  | nil => rfl
  | cons x m ih =>
    simp only [List.map_cons, sortByKey, ih]
    exact insertByKey_map_val g x (sortByKey m)

theorem scaleLines_erase (n : Nat) (m : List (Nat × Nat)) (x : Nat) :
    erase (scaleLines n m) x = scaleLines n (erase m x) := erase_map_val (fun v => n * v) m x

theorem applyOne_scale (n : Nat) (c : Cov) (f : FT) :
    applyOne (scaleCov n c) f = scaleCov n (applyOne c f) := by
  cases f <;> simp [applyOne, scaleCov, scaleLines_erase]

theorem applyFilters_scale (n : Nat) (fl : List FT) (c : Cov) :
    applyFilters fl (scaleCov n c) = scaleCov n (applyFilters fl c) := by
  induction fl generalizing c with
  | nil => rfl
  | cons f fl ih =>
    rw [applyFilters_cons, applyFilters_cons, applyOne_scale, ih]

theorem isCovered_scale (n : Nat) (hn : 1 ≤ n) (c : Cov) : isCovered (scaleCov n c) = isCovered c := by
  have e : (scaleLines n c.lines).any (fun lc => lc.2 != 0) = c.lines.any (fun lc => lc.2 != 0) := by
    unfold scaleLines
    rw [List.any_map]
    congr 1
    funext lc
    have : n ≠ 0 := by omega
    by_cases h : lc.2 = 0
    · simp [h]
    · have h2 : n * lc.2 ≠ 0 := Nat.mul_ne_zero this h
      have a : (n * lc.2 != 0) = true := bne_iff_ne.2 h2
      have b : (lc.2 != 0) = true := bne_iff_ne.2 h
      show (n * lc.2 != 0) = (lc.2 != 0)
      rw [a, b]
  show (if !(scaleLines n c.lines).any (fun lc => lc.2 != 0) then false else _) = _
  rw [e]
  rfl

theorem filterOk_scale (n : Nat) (hn : 1 ≤ n) (f : Option Bool) (c : Cov) :
    filterOk f (scaleCov n c) = filterOk f c := by
  cases f with
  | none => rfl
  | some b => cases b <;> simp [filterOk, isCovered_scale n hn]

theorem selectRecF_scale (n : Nat) (hn : 1 ≤ n) (cfg : Cfg) (fs : FS) (flt : Bytes → List FT)
    (abs rel : Bytes) (c : Cov) :
    selectRecF cfg fs flt abs rel (scaleCov n c) = (selectRecF cfg fs flt abs rel c).map (scaleRec n) := by
  unfold selectRecF
  simp only [applyFilters_scale, filterOk_scale n hn]
  split
  · rfl
  · split
    · rfl
    · split
      · rfl
      · split
        · rfl
        · rfl

/-- a map entry with its line counts multiplied -/
def scaleKC (n : Nat) (kc : Bytes × Cov) : Bytes × Cov := (kc.1, scaleCov n kc.2)

def mapRec (f : Rec → Rec) : Res (Option Rec) → Res (Option Rec)
  | .panic s => .panic s
  | .ok o => .ok (o.map f)

theorem rewriteKeyF_scale (n : Nat) (hn : 1 ≤ n) (cfg : Cfg) (fs : FS) (flt : Bytes → List FT)
    (kc : Bytes × Cov) :
    rewriteKeyF cfg fs flt (scaleKC n kc) = mapRec (scaleRec n) (rewriteKeyF cfg fs flt kc) := by
  unfold rewriteKeyF scaleKC
  cases resolveKey cfg fs kc.1 with
  | panic s => rfl
  | ok x =>
    cases x with
    | none => rfl
    | some ar =>
      obtain ⟨a, r⟩ := ar
      simp only [mapRec, selectRecF_scale n hn]

theorem collect_mapRec (f : Rec → Rec) (l : List (Res (Option Rec))) :
    collect (l.map (mapRec f)) = match collect l with
      | .panic s => .panic s
      | .ok rs => .ok (rs.map f) := by
  induction l with
  | nil => rfl
  | cons x l ih =>
    cases x with
    | panic s => rfl
    | ok o =>
      simp only [List.map_cons, mapRec, collect, ih]
      cases collect l with
      | panic s => rfl
      | ok rs => cases o <;> rfl

theorem rewritePathsF_scale (n : Nat) (hn : 1 ≤ n) (cfg : Cfg) (fs : FS) (flt : Bytes → List FT)
    (m : List (Bytes × Cov)) :
    rewritePathsF cfg fs flt (m.map (scaleKC n)) = match rewritePathsF cfg fs flt m with
      | .panic s => .panic s
      | .ok rs => .ok (rs.map (scaleRec n)) := by
  have e : (m.map (scaleKC n)).map (rewriteKeyF cfg fs flt)
      = (m.map (rewriteKeyF cfg fs flt)).map (mapRec (scaleRec n)) := by
    rw [List.map_map, List.map_map]
    exact List.map_congr_left fun kc _ => rewriteKeyF_scale n hn cfg fs flt kc
  unfold rewritePathsF
  rw [e, collect_mapRec]
  cases cfg.sourceDir with
  | none => rfl
  | some s => by_cases h : UPath.isAbsolute s = true <;> simp [h]

/-! ### ordering and presentation -/

theorem insertRec_map (f : Rec → Rec) (hf : ∀ r, (f r).abs = r.abs) (r : Rec) (l : List Rec) :
    MainGlue.insertRec (f r) (l.map f) = (MainGlue.insertRec r l).map f := by
  induction l with
  | nil => rfl
  | cons x l ih =>
    simp only [List.map_cons, MainGlue.insertRec, MainGlue.sortKey, hf]
    by_cases h : MainGlue.bytesLe (utf8Lossy r.abs) (utf8Lossy x.abs) = true
    · simp only [h, if_true, List.map_cons]
    · simp only [h, if_false, List.map_cons, ih, Bool.false_eq_true]

theorem sortRecs_map (f : Rec → Rec) (hf : ∀ r, (f r).abs = r.abs) (l : List Rec) :
    MainGlue.sortRecs (l.map f) = (MainGlue.sortRecs l).map f := by
  induction l with
  | nil => rfl
  | cons x l ih =>
    simp only [List.map_cons, MainGlue.sortRecs, List.foldr_cons] at ih ⊢
    rw [ih]
    exact insertRec_map f hf x _

theorem sortCov_scale (n : Nat) (c : Cov) : sortCov (scaleCov n c) = scaleCov n (sortCov c) := by
  simp only [sortCov, scaleCov, scaleLines]
  rw [sortByKey_map_val (fun v => n * v)]

theorem present_scale (o : Opts) (n : Nat) (r : Rec) : present o (scaleRec n r) = scaleRec n (present o r) := by
  simp only [present, scaleRec, sortCov_scale]

theorem ordered_map (o : Opts) (hk : o.hash.KeysOnly) (f : Rec → Rec)
    (hf : ∀ r, (f r).abs = r.abs ∧ (f r).rel = r.rel) (l : List Rec) :
    ordered o (l.map f) = (ordered o l).map f := by
  unfold ordered
  split
  · rw [hk.map f hf, sortRecs_map f fun r => (hf r).1]
  · exact hk.map f hf l

theorem relCov_scale (n : Nat) (L : List Rec) :
    (L.map (scaleRec n)).map relCov = scaleRes n (L.map relCov) := by
  simp [scaleRes, List.map_map, Function.comp, relCov, scaleRec]

/-- **The lcov report of the scaled record list.** -/
theorem report_lcov_scale (o : Opts) (ho : o.out = .lcov) (hk : o.hash.KeysOnly) (n : Nat) (rs : List Rec) :
    ∃ L, report o rs = .ok (printLcov L) ∧ report o (rs.map (scaleRec n)) = .ok (printLcov (scaleRes n L)) := by
  refine ⟨((ordered o rs).map (present o)).map relCov, by simp [report, render, ho], ?_⟩
  have e : (ordered o (rs.map (scaleRec n))).map (present o) = ((ordered o rs).map (present o)).map (scaleRec n) := by
    rw [ordered_map o hk (scaleRec n) (fun r => ⟨rfl, rfl⟩), List.map_map, List.map_map]
    exact List.map_congr_left fun r _ => present_scale o n r
  simp only [report, render, ho, e, relCov_scale]

/-! ### the result map of ONE input whose files are filed under distinct keys -/

theorem resultMap_single_distinct (o : Opts) (w : World) (i : Input)
    (hd : (((contents o.branch i).map (·.1)).map (canonOf o w)).Nodup) :
    resultMap o w [i] = (contents o.branch i).map fun kc => (canonOf o w kc.1, kc.2) := by
  simp only [resultMap, List.foldl_cons, List.foldl_nil]
  have := addResults_distinct (canonOf o w) [] (contents o.branch i) hd (by simp [keys])
  simpa [canonOf] using this

/-! ### the order read off a report depends on the rel paths only -/

theorem insertByPos_map {α β γ : Type} [DecidableEq α] (ref : List α) (key : β → α) (f : γ → β) (x : γ)
    (l : List γ) :
    insertByPos ref key (f x) (l.map f) = (insertByPos ref (key ∘ f) x l).map f := by
  induction l with
  | nil => rfl
  | cons y l ih =>
    simp only [List.map_cons, insertByPos, Function.comp]
    split
    · rfl
    · simp only [List.map_cons, ih]

theorem sortByPos_map {α β γ : Type} [DecidableEq α] (ref : List α) (key : β → α) (f : γ → β) (l : List γ) :
    sortByPos ref key (l.map f) = (sortByPos ref (key ∘ f) l).map f := by
  induction l with
  | nil => rfl
  | cons x l ih =>
    simp only [List.map_cons, sortByPos, List.foldr_cons] at ih ⊢
    rw [ih]
    exact insertByPos_map ref key f x _

theorem HashOrder.keysOnly_ofListing (recOrder : List Bytes) : (HashOrder.ofListing recOrder).KeysOnly := by
  refine ⟨fun f hf l => ?_⟩
  show sortByPos recOrder (·.rel) (l.map f) = (sortByPos recOrder (·.rel) l).map f
  rw [sortByPos_map]
  have : ((fun r : Rec => r.rel) ∘ f) = fun r : Rec => r.rel := by
    funext r; exact (hf r).2
  rw [this]

end Grcov.Cli.RunAll
