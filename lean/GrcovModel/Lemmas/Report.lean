/-
Helpers for the composition of the pipeline theorems (C02/C07) with the aggregation model (C01):
the result map of a run as the fold of `addResults` over the merged batches, and its independence
of the merge order (through `C01_grouping_invariant`).
-/
import GrcovModel.Props.C01
namespace Grcov.Report
open Grcov Grcov.AList Grcov.Props.C01

local notation "Item" => Nat

/-- the result map after the batches of `order` went through `add_results` one after the other -/
def reportOf (canon : Key → Key) (contents : Item → List (Key × Cov)) (order : List Item) :
    List (Key × Cov) :=
  order.foldl (fun m i => addResults canon m (contents i)) []

/-- observable equality of two map entries -/
def ObsEqOpt : Option Cov → Option Cov → Prop
  | none, none => True
  | some a, some b => ObsEq a b
  | _, _ => False

/-- left-nested grouping of a non-empty list -/
def combL : Tree Cov → List Cov → Tree Cov
  | t, [] => t
  | t, c :: cs => combL (.node t (.leaf c)) cs

theorem combL_leaves (t : Tree Cov) (cs : List Cov) : (combL t cs).leaves = t.leaves ++ cs := by
  induction cs generalizing t with
  | nil => simp [combL]
  | cons c cs ih => simp [combL, ih, Tree.leaves]

theorem combL_eval (t : Tree Cov) (cs : List Cov) : (combL t cs).eval = cs.foldl merge t.eval := by
  induction cs generalizing t with
  | nil => rfl
  | cons c cs ih => simp [combL, ih, Tree.eval]

theorem foldInto_some (a : Cov) (cs : List Cov) :
    foldInto (some a) cs = some (cs.foldl merge a) := by
  induction cs generalizing a with
  | nil => rfl
  | cons c cs ih => simpa [foldInto] using ih (merge a c)

theorem foldInto_none_cons (a : Cov) (cs : List Cov) :
    foldInto none (a :: cs) = some (combL (.leaf a) cs).eval := by
  have : foldInto none (a :: cs) = foldInto (some a) cs := rfl
  rw [this, foldInto_some, combL_eval]; rfl

/-- a map entry does not depend (observably) on the order in which its contributions arrived -/
theorem foldInto_perm (cs ds : List Cov) (h : ∀ c ∈ cs, c.WF) (p : cs.Perm ds) :
    ObsEqOpt (foldInto none cs) (foldInto none ds) := by
  cases cs with
  | nil => have := p.symm.eq_nil; subst this; trivial
  | cons a cs =>
    cases ds with
    | nil => exact absurd p.eq_nil (by simp)
    | cons b ds =>
      rw [foldInto_none_cons, foldInto_none_cons]
      refine C01_grouping_invariant _ _ ?_ ?_
      · intro c hc; rw [combL_leaves] at hc; exact h c (by simpa [Tree.leaves] using hc)
      · rw [combL_leaves, combL_leaves]; simpa [Tree.leaves] using p

theorem addResults_append (canon : Key → Key) (m : List (Key × Cov)) (b₁ b₂ : List (Key × Cov)) :
    addResults canon (addResults canon m b₁) b₂ = addResults canon m (b₁ ++ b₂) := by
  simp [addResults, List.foldl_append]

/-- merging batch after batch is merging the concatenation of the batches -/
theorem reportOf_flat (canon : Key → Key) (contents : Item → List (Key × Cov)) (order : List Item) :
    reportOf canon contents order = addResults canon [] (order.flatMap contents) := by
  suffices H : ∀ m, order.foldl (fun m i => addResults canon m (contents i)) m
      = addResults canon m (order.flatMap contents) from H []
  induction order with
  | nil => intro m; simp [addResults]
  | cons i order ih => intro m; simp [List.foldl_cons, ih, addResults_append]


theorem report_entry (canon : Key → Key) (contents : Item → List (Key × Cov))
    (order : List Item) (k : Key) :
    get? (reportOf canon contents order) k
      = foldInto none (((order.flatMap contents).filter fun kc => canon kc.1 = k).map (·.2)) := by
  rw [reportOf_flat, get?_addResults]; rfl

theorem report_order_irrelevant (canon : Key → Key) (contents : Item → List (Key × Cov))
    (hwf : ∀ i, ∀ kc ∈ contents i, kc.2.WF) (o₁ o₂ : List Item) (p : o₁.Perm o₂) (k : Key) :
    ObsEqOpt (get? (reportOf canon contents o₁) k) (get? (reportOf canon contents o₂) k) := by
  rw [report_entry, report_entry]
  refine foldInto_perm _ _ ?_ (((p.flatMap_right contents).filter _).map _)
  intro c hc
  simp only [List.mem_map, List.mem_filter, List.mem_flatMap] at hc
  obtain ⟨kc, ⟨⟨i, _, hi⟩, _⟩, rfl⟩ := hc
  exact hwf i kc hi



/-- report-level statement: when all inputs agree on a function's start line, the report carries it -/
theorem report_start_common (canon : Key → Key) (contents : Nat → List (Key × Cov))
    (hwf : ∀ i, ∀ kc ∈ contents i, kc.2.WF) (order : List Nat) (k : Key) (n : Name) (s : Nat)
    (agree : ∀ i ∈ order, ∀ kc ∈ contents i, canon kc.1 = k → ∀ g, get? kc.2.functions n = some g → g.start = s)
    (c : Cov) (hc : get? (reportOf canon contents order) k = some c) (f : Fn)
    (hf : get? c.functions n = some f) : f.start = s := by
  rw [report_entry] at hc
  generalize hL : (((order.flatMap contents).filter fun kc => canon kc.1 = k).map (·.2)) = L at hc
  have hmem : ∀ c' ∈ L, c'.WF ∧ ∀ g, get? c'.functions n = some g → g.start = s := by
    intro c' hc'
    rw [← hL] at hc'
    simp only [List.mem_map, List.mem_filter, List.mem_flatMap] at hc'
    obtain ⟨kc, ⟨⟨i, hi, hkc⟩, hk⟩, rfl⟩ := hc'
    exact ⟨hwf i kc hkc, agree i hi kc hkc (by simpa using hk)⟩
  cases L with
  | nil => simp [foldInto] at hc
  | cons a cs =>
    rw [foldInto_none_cons] at hc
    cases hc
    refine C01_start_common_when_agree (combL (.leaf a) cs) ?_ n s ?_ f hf
    · intro c' hc'; rw [combL_leaves] at hc'; exact (hmem c' (by simpa [Tree.leaves] using hc')).1
    · intro c' hc'; rw [combL_leaves] at hc'; exact (hmem c' (by simpa [Tree.leaves] using hc')).2

end Grcov.Report
