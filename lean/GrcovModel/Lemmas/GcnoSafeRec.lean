/-
C14 for the gcno/gcda reader: `readGcno`/`readGcda` never crash and never run out of fuel, `build`
never crashes and yields a well-formed shape, `addGcda` on a well-formed shape crashes only by
u64 overflow.
-/
import GrcovModel.Lemmas.GcnoSafe
namespace Grcov.Gcno
open Outcome

/-! ## file headers -/

theorem guessEndian_sat (m bs : List Nat) : Sat NoSite False (guessEndian m bs) fun _ => True := by
  unfold guessEndian
  split
  · split
    · trivial
    · split <;> trivial
  · trivial

theorem readVersion_sat (le : Bool) (bs : List Nat) :
    Sat NoSite False (readVersion le bs) fun _ => True := by
  unfold readVersion getVersion
  split
  · split
    · split
      · split <;> trivial
      · trivial
    · split
      · split <;> trivial
      · trivial
  · trivial

/-- **`readGcno` never crashes** and never runs out of fuel, whatever the bytes; the record stream
it returns holds no crash marker -/
theorem readGcno_sat (bs : List Nat) :
    Sat NoSite False (readGcno bs) fun x => ∀ r ∈ x.2.2, r.notCrash := by
  unfold readGcno
  refine Sat.bind ((guessEndian_sat _ bs).mono fun ⟨le, r0⟩ _ => ?_)
  refine Sat.bind ((readVersion_sat le r0).mono fun ⟨version, r1⟩ _ => ?_)
  simp only
  cases h2 : readU32 le r1 with
  | short => trivial
  | crash s => exact absurd h2 (readU32_ne_crash _ _ _)
  | ok checksum r2 =>
    simp only
    by_cases h90 : version ≥ 90
    · simp only [if_pos h90]
      cases h3 : readString le r2 with
      | short => trivial
      | crash s => exact absurd h3 (readString_ne_crash _ _ _)
      | ok cwd r3 =>
        simp only
        have h80 : version ≥ 80 := by omega
        simp only [if_pos h80]
        cases h4 : skipN 4 r3 with
        | short => trivial
        | crash s => exact absurd h4 (skipN_ne_crash _ _ _)
        | ok u r4 => exact parseRecs_notCrash _ _ _ _ _ _ _
    · simp only [if_neg h90]
      by_cases h80 : version ≥ 80
      · simp only [if_pos h80]
        cases h4 : skipN 4 r2 with
        | short => trivial
        | crash s => exact absurd h4 (skipN_ne_crash _ _ _)
        | ok u r4 => exact parseRecs_notCrash _ _ _ _ _ _ _
      · simp only [if_neg h80]
        exact parseRecs_notCrash _ _ _ _ _ _ _

/-- **`readGcda` never crashes** and never runs out of fuel, whatever the bytes -/
theorem readGcda_sat (bs : List Nat) :
    Sat NoSite False (readGcda bs) fun p =>
      Sat NoSite False p.rest fun x => ∀ r ∈ x.2, r.notCrash := by
  unfold readGcda
  refine Sat.bind ((guessEndian_sat _ bs).mono fun ⟨le, r0⟩ _ => ?_)
  refine Sat.bind ((readVersion_sat le r0).mono fun ⟨version, r1⟩ _ => ?_)
  simp only [sat_ok]
  cases h2 : readU32 le r1 with
  | short => trivial
  | crash s => exact absurd h2 (readU32_ne_crash _ _ _)
  | ok checksum r2 => exact parseDRecs_notCrash _ _ _ _ _

/-! ## well-formed shapes -/

/-- the adjacency lists of a block hold arc ids below `m` -/
def Block.IdsLt (m : Nat) (b : Block) : Prop :=
  (∀ e ∈ b.source, e < m) ∧ (∀ e ∈ b.destination, e < m)

/-- arc endpoints are block numbers, adjacency lists hold arc ids: what `read_gcno` builds, and
what every index expression of the counting code relies on -/
structure Func.WF (f : Func) : Prop where
  arcs : ∀ a ∈ f.arcs, a.src < f.blocks.length ∧ a.dst < f.blocks.length
  ids : ∀ b ∈ f.blocks, b.IdsLt f.arcs.length
  nos : ∀ b ∈ f.blocks, b.no < f.blocks.length

def Notes.WF (g : Notes) : Prop := ∀ f ∈ g.funcs, f.WF

theorem Block.IdsLt.mono {m m' : Nat} {b : Block} (h : b.IdsLt m) (hm : m ≤ m') : b.IdsLt m' :=
  ⟨fun e he => Nat.lt_of_lt_of_le (h.1 e he) hm, fun e he => Nat.lt_of_lt_of_le (h.2 e he) hm⟩

theorem all_modifyAt {α : Type} {P : α → Prop} (g : α → α) (hg : ∀ a, P a → P (g a)) :
    ∀ (l : List α) (i : Nat), (∀ a ∈ l, P a) → ∀ a ∈ modifyAt g l i, P a
  | [], _, _, a, ha => by simp [modifyAt] at ha
  | x :: l, 0, h, a, ha => by
    simp only [modifyAt, List.mem_cons] at ha
    rcases ha with rfl | ha
    · exact hg _ (h x (by simp))
    · exact h a (by simp [ha])
  | x :: l, i + 1, h, a, ha => by
    simp only [modifyAt, List.mem_cons] at ha
    rcases ha with rfl | ha
    · exact h _ (by simp)
    · exact all_modifyAt g hg l i (fun b hb => h b (by simp [hb])) a ha

theorem mem_insertAt : ∀ (l : List Nat) (i y x : Nat), x ∈ insertAt l i y → x = y ∨ x ∈ l
  | [], 0, y, x, h => by simpa [insertAt] using h
  | a :: l, 0, y, x, h => by simpa [insertAt] using h
  | [], i + 1, y, x, h => by simpa [insertAt] using h
  | a :: l, i + 1, y, x, h => by
    simp only [insertAt, List.mem_cons] at h
    rcases h with rfl | h
    · exact .inr (by simp)
    · rcases mem_insertAt l i y x h with h | h
      · exact .inl h
      · exact .inr (by simp [h])

/-- `edges.push(…)` with its two adjacency updates: the common part of `read_edges` and of the
virtual arc of `count_on_tree` -/
def pushArc (f : Func) (src dst flags : Nat) : Func :=
  let id := f.arcs.length
  let arcs := f.arcs ++ [⟨src, dst, flags⟩]
  let blocks := modifyAt (fun b => insertDest arcs b id dst) f.blocks src
  { f with arcs := arcs
           blocks := modifyAt (fun b => { b with source := b.source ++ [id] }) blocks dst }

theorem addArc_eq (f : Func) (src dst flags : Nat) :
    addArc f src dst flags =
      if dst < f.blocks.length then ok (pushArc f src dst flags) else err .blockNo := rfl

theorem addVirtualArc_eq (version : Nat) (f : Func) :
    addVirtualArc version f =
      if f.blocks.length ≥ 2 then pushArc f (sinkNo version f.blocks.length) 0 1 else f := rfl

theorem pushArc_blocks_length (f : Func) (s d fl : Nat) :
    (pushArc f s d fl).blocks.length = f.blocks.length := by
  simp [pushArc, modifyAt_length]

theorem pushArc_WF {f : Func} (h : f.WF) {s d : Nat} (fl : Nat) (hs : s < f.blocks.length)
    (hd : d < f.blocks.length) : (pushArc f s d fl).WF := by
  constructor
  · intro a ha
    rw [pushArc_blocks_length]
    have : a ∈ f.arcs ++ [⟨s, d, fl⟩] := ha
    rcases List.mem_append.1 this with ha | ha
    · exact h.arcs a ha
    · simp only [List.mem_singleton] at ha; subst ha; exact ⟨hs, hd⟩
  · have hlen : (pushArc f s d fl).arcs.length = f.arcs.length + 1 := by simp [pushArc]
    rw [hlen]
    show ∀ b ∈ modifyAt _ (modifyAt _ f.blocks s) d, b.IdsLt (f.arcs.length + 1)
    apply all_modifyAt
    · intro b hb
      refine ⟨fun e he => ?_, hb.2⟩
      rcases List.mem_append.1 he with he | he
      · exact hb.1 e he
      · simp only [List.mem_singleton] at he; omega
    apply all_modifyAt
    · intro b hb
      refine ⟨hb.1, fun e he => ?_⟩
      rcases mem_insertAt _ _ _ _ he with he | he
      · omega
      · exact hb.2 e he
    · intro b hb
      exact (h.ids b hb).mono (by omega)
  · rw [pushArc_blocks_length]
    show ∀ b ∈ modifyAt _ (modifyAt _ f.blocks s) d, b.no < f.blocks.length
    apply all_modifyAt
    · intro b hb; exact hb
    apply all_modifyAt
    · intro b hb; exact hb
    · exact h.nos

theorem addVirtualArc_WF {f : Func} (h : f.WF) (version : Nat) : (addVirtualArc version f).WF := by
  rw [addVirtualArc_eq]
  split
  · apply pushArc_WF h
    · unfold sinkNo; split <;> omega
    · omega
  · exact h

/-! ## `build` -/

theorem mem_replaceLast {α : Type} : ∀ (l : List α) (y x : α), x ∈ replaceLast l y → x ∈ l ∨ x = y
  | [], _, _, h => by simp [replaceLast] at h
  | [_], y, x, h => by simp [replaceLast] at h; exact .inr h
  | a :: b :: l, y, x, h => by
    simp only [replaceLast, List.mem_cons] at h
    rcases h with rfl | h
    · exact .inl (by simp)
    · rcases mem_replaceLast (b :: l) y x (by simpa using h) with h | h
      · exact .inl (List.mem_cons_of_mem _ h)
      · exact .inr h

theorem mem_of_getLast? {α : Type} : ∀ (l : List α) (a : α), l.getLast? = some a → a ∈ l
  | [], _, h => by simp at h
  | [x], a, h => by simp at h; simp [h]
  | x :: y :: l, a, h => by
    have : (y :: l).getLast? = some a := by simpa [List.getLast?_cons_cons] using h
    exact List.mem_cons_of_mem _ (mem_of_getLast? (y :: l) a this)

theorem takeLines_adj (version : Nat) (f : Func) : ∀ (items : List LineItem) (mt : Bool) (b : Block),
    (takeLines version f mt items b).source = b.source ∧
    (takeLines version f mt items b).destination = b.destination ∧
    (takeLines version f mt items b).no = b.no := by
  intro items
  induction items with
  | nil => intro mt b; simp [takeLines]
  | cons it rest ih =>
    intro mt b
    cases it with
    | line n =>
      simp only [takeLines]
      split
      · exact ih _ _
      · exact ih _ _
    | file nm =>
      simp only [takeLines]
      split
      · exact ⟨rfl, rfl, rfl⟩
      · exact ih _ _

theorem Notes.WF_replaceLast {g : Notes} (hg : g.WF) {f' : Func} (hf' : f'.WF) :
    Notes.WF { g with funcs := replaceLast g.funcs f' } := by
  intro x hx
  rcases mem_replaceLast _ _ _ hx with h | h
  · exact hg x h
  · exact h ▸ hf'

theorem buildStep_sat {g : Notes} (hg : g.WF) {r : NRec} (hr : r.notCrash) :
    Sat NoSite False (buildStep g r) Notes.WF := by
  cases r with
  | short => trivial
  | fail k => trivial
  | crash s => exact hr
  | func ident ls cs name file st en =>
    simp only [buildStep, sat_ok]
    intro x hx
    rcases List.mem_append.1 hx with h | h
    · exact hg x h
    · simp only [List.mem_singleton] at h
      subst h
      exact ⟨by simp, by simp, by simp⟩
  | blocks n =>
    simp only [buildStep]
    cases hl : g.funcs.getLast? with
    | none => exact hg
    | some f =>
      have hf := hg f (mem_of_getLast? _ _ hl)
      simp only [sat_ok]
      apply Notes.WF_replaceLast hg
      constructor
      · intro a ha
        have := hf.arcs a ha
        simp only [List.length_append, List.length_map, List.length_range]
        omega
      · intro b hb
        rcases List.mem_append.1 hb with h | h
        · exact hf.ids b h
        · obtain ⟨i, _, rfl⟩ := List.mem_map.1 h
          exact ⟨by simp, by simp⟩
      · intro b hb
        simp only [List.length_append, List.length_map, List.length_range]
        rcases List.mem_append.1 hb with h | h
        · have := hf.nos b h; omega
        · obtain ⟨i, hi, rfl⟩ := List.mem_map.1 h
          have := List.mem_range.1 hi
          simp only
          omega
  | arcs src as =>
    simp only [buildStep]
    cases hl : g.funcs.getLast? with
    | none => exact hg
    | some f =>
      have hf := hg f (mem_of_getLast? _ _ hl)
      simp only
      split
      · rename_i hsrc
        apply Sat.bind
        refine (Sat.foldl (C := NoSite) (D := False)
          (Inv := fun f' : Func => f'.WF ∧ f'.blocks.length = f.blocks.length) as f ⟨hf, rfl⟩ ?_).mono ?_
        · intro f' df _ hinv
          rw [addArc_eq]
          split
          · rename_i hd
            exact ⟨pushArc_WF hinv.1 _ (by omega) hd, by rw [pushArc_blocks_length]; exact hinv.2⟩
          · trivial
        · intro f' hinv
          exact Notes.WF_replaceLast hg hinv.1
      · trivial
  | lines blk items =>
    simp only [buildStep]
    cases hl : g.funcs.getLast? with
    | none => exact hg
    | some f =>
      have hf := hg f (mem_of_getLast? _ _ hl)
      simp only
      split
      · simp only [sat_ok]
        apply Notes.WF_replaceLast hg
        constructor
        · intro a ha
          have := hf.arcs a ha
          simp only [modifyAt_length]
          exact this
        · show ∀ b ∈ modifyAt _ f.blocks blk, b.IdsLt f.arcs.length
          apply all_modifyAt
          · intro b hb
            have := takeLines_adj g.version f items true b
            exact ⟨by rw [this.1]; exact hb.1, by rw [this.2.1]; exact hb.2⟩
          · exact hf.ids
        · simp only [modifyAt_length]
          show ∀ b ∈ modifyAt _ f.blocks blk, b.no < f.blocks.length
          apply all_modifyAt
          · intro b hb
            rw [(takeLines_adj g.version f items true b).2.2]; exact hb
          · exact hf.nos
      · trivial

/-- **`build` never crashes** on a record stream without crash markers (and a fold cannot run out
of fuel); its result is a well-formed shape -/
theorem build_sat (version checksum : Nat) {recs : List NRec} (h : ∀ r ∈ recs, r.notCrash) :
    Sat NoSite False (build version checksum recs) Notes.WF := by
  unfold build
  apply Sat.foldl
  · intro f hf; simp at hf
  · intro g r hr hg
    exact buildStep_sat hg (h r hr)

/-! ## `addGcda` -/

theorem identToFunGo_lt (id : Nat) : ∀ (fs : List Func) (i : Nat) (r : Option Nat) (j : Nat),
    identToFunGo id fs i r = some j → r = some j ∨ (i ≤ j ∧ j < i + fs.length) := by
  intro fs
  induction fs with
  | nil => intro i r j h; exact .inl h
  | cons f fs ih =>
    intro i r j h
    simp only [identToFunGo] at h
    rcases ih _ _ _ h with h | h
    · split at h
      · simp only [Option.some.injEq] at h
        exact .inr ⟨by omega, by simp; omega⟩
      · exact .inl h
    · exact .inr ⟨by omega, by simp only [List.length_cons]; omega⟩

theorem identToFun_lt {fs : List Func} {id i : Nat} (h : identToFun fs id = some i) : i < fs.length := by
  rcases identToFunGo_lt id fs 0 none i h with h | h
  · cases h
  · omega

theorem accArcs_sat (n : Nat) : ∀ (rest : List Arc) (i : Nat) (c : Cnt) (vs : List Nat),
    (∀ a ∈ rest, a.src < n) → Sat OvOnly False (accArcs n i rest c vs) fun _ => True := by
  intro rest
  induction rest with
  | nil => intro i c vs _; simp [accArcs]
  | cons a rest ih =>
    intro i c vs h
    have hr : ∀ a ∈ rest, a.src < n := fun b hb => h b (List.mem_cons_of_mem _ hb)
    simp only [accArcs]
    split
    · exact ih _ _ _ hr
    · cases vs with
      | nil => trivial
      | cons v vs =>
        simp only
        split
        · rfl
        · split
          · have := h a (by simp); omega
          · split
            · rfl
            · exact ih _ _ _ hr

/-- the record loop of `read_gcda` on a well-formed shape crashes only by overflow -/
theorem goRecs_sat {g : Notes} (hg : g.WF) : ∀ (recs : List DRec) (cur : Option Nat) (st : State),
    (∀ r ∈ recs, r.notCrash) → (∀ i, cur = some i → i < g.funcs.length) →
    Sat OvOnly False (goRecs g cur recs st) fun _ => True := by
  intro recs
  induction recs with
  | nil => intro cur st _ _; simp [goRecs]
  | cons d rest ih =>
    intro cur st hn hcur
    have hrest : ∀ r ∈ rest, r.notCrash := fun r hr => hn r (List.mem_cons_of_mem _ hr)
    have hd := hn d (by simp)
    cases d with
    | func len id ls cs =>
      simp only [goRecs]
      split
      · exact ih _ _ hrest hcur
      · split
        · trivial
        · cases hi : identToFun g.funcs id with
          | none => trivial
          | some i =>
            have hlt := identToFun_lt hi
            simp only
            rw [List.getElem?_eq_getElem hlt]
            simp only
            split
            · trivial
            · exact ih _ _ hrest (fun j hj => by cases hj; exact hlt)
    | arcs len vs =>
      cases cur with
      | none => simp only [goRecs]; exact ih _ _ hrest hcur
      | some i =>
        have hlt := hcur i rfl
        simp only [goRecs]
        rw [List.getElem?_eq_getElem hlt]
        simp only
        split
        · trivial
        · apply Sat.bind
          have hf := hg _ (List.getElem_mem hlt)
          refine (accArcs_sat _ _ 0 (st i) vs fun a ha => (hf.arcs a ha).1).mono fun c _ => ?_
          exact ih _ _ hrest hcur
    | other => simp only [goRecs]; exact ih _ _ hrest hcur
    | fail k => simp only [goRecs]; trivial
    | crash s => exact absurd hd (by simp)

theorem addGcda_sat {g : Notes} (hg : g.WF) (st : State) (d : Gcda) (h : ∀ r ∈ d.recs, r.notCrash) :
    Sat OvOnly False (addGcda g st d) fun _ => True := by
  unfold addGcda
  split
  · trivial
  · split
    · trivial
    · exact goRecs_sat hg _ _ _ h (fun i hi => by cases hi)

/-- **`Gcno::read(Gcda)` on any bytes**, given a well-formed shape: error, result, or the overflow
crash; nothing else -/
theorem addGcdaBytes_sat {g : Notes} (hg : g.WF) (st : State) (bs : List Nat) :
    Sat OvOnly False (addGcdaBytes g st bs) fun _ => True := by
  unfold addGcdaBytes
  refine Sat.bind (((readGcda_sat bs).weaken (C' := OvOnly) (fun s h => h.elim) id).mono fun p hp => ?_)
  split
  · trivial
  · refine Sat.bind ((hp.weaken (C' := OvOnly) (fun s h => h.elim) id).mono fun ⟨cs, recs⟩ hr => ?_)
    exact addGcda_sat hg st _ hr

end Grcov.Gcno
