/-
Lemmas about the parser of GrcovModel/Regex/Syntax.lean on LITERAL patterns: a text without special
chars, or any text with its meta characters escaped (`regex::escape`), optionally between `^` and `$`,
parses to the chain of its literals (with the two assertions); it passes the nest and the size check
when it is shorter than 19 000 chars.
-/
import GrcovModel.Regex.Match
namespace Grcov.Regex

/-- not special for the main loop of the parser: none of `( ) | [ ? * + { \ . ^ $` -/
def Plain (c : Nat) : Bool :=
  !(c = 40 || c = 41 || c = 124 || c = 91 || c = 63 || c = 42 || c = 43 || c = 123 || c = 92 ||
    c = 46 || c = 94 || c = 36)

/-- `regex::escape`: a backslash before every meta character -/
def escape (cs : Chars) : Chars := cs.flatMap fun c => if isMeta c then [92, c] else [c]

def pushAst (st : PState) (a : Ast) : PState := { st with concat := a :: st.concat }

theorem plain_of_not_meta {c : Nat} (h : isMeta c = false) : Plain c = true := by
  simp only [isMeta, Bool.or_eq_false_iff, decide_eq_false_iff_not] at h
  simp only [Plain, Bool.not_eq_true', Bool.or_eq_false_iff, decide_eq_false_iff_not]
  omega

theorem loop_plain (f : Nat) (st : PState) (c : Nat) (r : Chars) (hc : Plain c = true) :
    loop (f + 1) st (c :: r) = loop f (pushAst st (.lit c)) r := by
  simp only [Plain, Bool.not_eq_true', Bool.or_eq_false_iff, decide_eq_false_iff_not] at hc
  obtain ⟨⟨⟨⟨⟨⟨⟨⟨⟨⟨⟨h1, h2⟩, h3⟩, h4⟩, h5⟩, h6⟩, h7⟩, h8⟩, h9⟩, h10⟩, h11⟩, h12⟩ := hc
  simp [loop, h1, h2, h3, h4, h5, h6, h7, h8, h9, h10, h11, h12, pushAst]

theorem not_alnum_of_escapeable {c : Nat} (h : isEscapeable c = true) : isAsciiAlnum c = false := by
  simp only [isEscapeable, Bool.or_eq_true, Bool.and_eq_true, decide_eq_true_eq, Bool.not_eq_true',
    bne_iff_ne, ne_eq] at h
  rcases h with hm | ⟨⟨⟨_, ha⟩, _⟩, _⟩
  · simp only [isMeta, Bool.or_eq_true, decide_eq_true_eq] at hm
    simp only [isAsciiAlnum, Bool.or_eq_false_iff, Bool.and_eq_false_iff, decide_eq_false_iff_not]
    omega
  · exact ha

/-- a backslash before any escapeable char (meta or ASCII punctuation) is that char -/
theorem parseEscape_escapeable (c : Nat) (r : Chars) (he : isEscapeable c = true) :
    parseEscape (c :: r) = .ok (.lit c, r) := by
  have ha := not_alnum_of_escapeable he
  simp only [isAsciiAlnum, Bool.or_eq_false_iff, Bool.and_eq_false_iff, decide_eq_false_iff_not] at ha
  have hd : isDigit c = false := by
    simp only [isDigit, Bool.and_eq_false_iff, decide_eq_false_iff_not]; omega
  have e1 : ¬ c = 120 := by omega
  have e2 : ¬ c = 117 := by omega
  have e3 : ¬ c = 85 := by omega
  have e4 : ¬ c = 112 := by omega
  have e5 : ¬ c = 80 := by omega
  have e6 : ¬ c = 100 := by omega
  have e7 : ¬ c = 68 := by omega
  have e8 : ¬ c = 115 := by omega
  have e9 : ¬ c = 83 := by omega
  have e10 : ¬ c = 119 := by omega
  have e11 : ¬ c = 87 := by omega
  have key : escapePrim c = .ok (.lit c) := by
    unfold escapePrim
    rw [if_neg (by simp [hd]), if_neg (by simp [e4, e5]), if_neg e6,
      if_neg e7, if_neg e8, if_neg e9, if_neg e10, if_neg e11]
    by_cases hm : isMeta c = true
    · rw [if_pos hm]
    · rw [if_neg hm, if_pos he]
  have e12 : ¬ c = 98 := by omega
  simp only [parseEscape, e1, e2, e3, e12, if_false, key]

theorem parseEscape_meta (c : Nat) (r : Chars) (hm : isMeta c = true) :
    parseEscape (c :: r) = .ok (.lit c, r) :=
  parseEscape_escapeable c r (by simp [isEscapeable, hm])

theorem loop_escaped (f : Nat) (st : PState) (c : Nat) (r : Chars) (hm : isMeta c = true) :
    loop (f + 1) st (92 :: c :: r) = loop f (pushAst st (.lit c)) r := by
  simp [loop, parseEscape_meta c r hm, pushAst, Prim.toAst]

theorem loop_escapeable (f : Nat) (st : PState) (c : Nat) (r : Chars) (he : isEscapeable c = true) :
    loop (f + 1) st (92 :: c :: r) = loop f (pushAst st (.lit c)) r := by
  simp [loop, parseEscape_escapeable c r he, pushAst, Prim.toAst]

/-- one char of a literal pattern as typed: verbatim (`false`) or after a backslash (`true`) -/
def spell (p : Nat × Bool) : Chars := if p.2 then [92, p.1] else [p.1]

/-- a legal spelling: verbatim only for chars that are not special for the parser
(`( ) | [ ? * + { \ . ^ $`), a backslash only before an escapeable char -/
def SpellOk (p : Nat × Bool) : Bool := if p.2 then isEscapeable p.1 else Plain p.1

/-- a literal text as typed -/
def spelled (l : List (Nat × Bool)) : Chars := l.flatMap spell

theorem spelled_cons (p : Nat × Bool) (l : List (Nat × Bool)) : spelled (p :: l) = spell p ++ spelled l := by
  simp [spelled]

theorem length_le_spelled (l : List (Nat × Bool)) : l.length ≤ (spelled l).length := by
  induction l with
  | nil => simp [spelled]
  | cons p l ih =>
    rw [spelled_cons]
    cases hp : p.2 <;> simp [spell, hp] <;> omega

/-- the parser walks through a spelled literal text pushing one literal per char -/
theorem loop_spelled (l : List (Nat × Bool)) (hok : ∀ p ∈ l, SpellOk p = true) :
    ∀ (f : Nat) (st : PState) (rest : Chars),
    loop (f + l.length) st (spelled l ++ rest)
      = loop f { st with concat := (l.map fun p => Ast.lit p.1).reverse ++ st.concat } rest := by
  induction l with
  | nil => intro f st rest; simp [spelled]
  | cons p l ih =>
    intro f st rest
    rw [spelled_cons]
    have e : f + (p :: l).length = (f + l.length) + 1 := by simp; omega
    rw [e]
    have hp := hok p (by simp)
    have ih' := ih (fun q hq => hok q (by simp [hq]))
    obtain ⟨c, b⟩ := p
    cases b
    · simp only [SpellOk, Bool.false_eq_true, if_false] at hp
      simp only [spell, Bool.false_eq_true, if_false, List.cons_append, List.nil_append]
      rw [loop_plain _ _ _ _ hp, ih']
      simp [pushAst]
    · simp only [SpellOk, if_true] at hp
      simp only [spell, if_true, List.cons_append, List.nil_append]
      rw [loop_escapeable _ _ _ _ hp, ih']
      simp [pushAst]

theorem loop_caret (f : Nat) (st : PState) (r : Chars) :
    loop (f + 1) st (94 :: r) = loop f (pushAst st (.look .startText)) r := by
  simp [loop, pushAst]

theorem loop_dollar (f : Nat) (st : PState) (r : Chars) :
    loop (f + 1) st (36 :: r) = loop f (pushAst st (.look .endText)) r := by
  simp [loop, pushAst]

theorem escape_cons (c : Nat) (cs : Chars) :
    escape (c :: cs) = (if isMeta c then [92, c] else [c]) ++ escape cs := by
  simp [escape]

theorem length_le_escape (cs : Chars) : cs.length ≤ (escape cs).length := by
  induction cs with
  | nil => simp [escape]
  | cons c cs ih =>
    rw [escape_cons]
    by_cases h : isMeta c = true <;> simp [h] <;> omega

theorem escape_length_le (cs : Chars) : (escape cs).length ≤ 2 * cs.length := by
  induction cs with
  | nil => simp [escape]
  | cons c cs ih =>
    rw [escape_cons]
    by_cases h : isMeta c = true <;> simp [h] <;> omega

/-- the parser walks through an escaped text pushing one literal per char -/
theorem loop_escape (cs : Chars) : ∀ (f : Nat) (st : PState) (rest : Chars),
    loop (f + cs.length) st (escape cs ++ rest)
      = loop f { st with concat := (cs.map Ast.lit).reverse ++ st.concat } rest := by
  induction cs with
  | nil => intro f st rest; simp [escape]
  | cons c cs ih =>
    intro f st rest
    rw [escape_cons]
    have e : f + (c :: cs).length = (f + cs.length) + 1 := by simp; omega
    rw [e]
    by_cases hm : isMeta c = true
    · simp only [hm, if_true, List.cons_append, List.nil_append]
      rw [loop_escaped _ _ _ _ hm, ih]
      simp [pushAst]
    · have hm' : isMeta c = false := by simpa using hm
      simp only [hm', Bool.false_eq_true, if_false, List.cons_append, List.nil_append]
      rw [loop_plain _ _ _ _ (plain_of_not_meta hm'), ih]
      simp [pushAst]

/-- a text of plain chars is its own escape -/
theorem escape_plain (cs : Chars) (h : ∀ c ∈ cs, isMeta c = false) : escape cs = cs := by
  induction cs with
  | nil => rfl
  | cons c cs ih =>
    rw [escape_cons, h c (by simp), ih (fun d hd => h d (by simp [hd]))]
    simp

/-- the literal chain between optional assertions -/
def anchoredAst (pre post : Bool) (cs : Chars) : Ast :=
  catOf ((if pre then [Ast.look .startText] else []) ++ cs.map Ast.lit ++
    (if post then [Ast.look .endText] else []))

/-- `^`? escaped text `$`? -/
def anchoredText (pre post : Bool) (cs : Chars) : Chars :=
  (if pre then [94] else []) ++ escape cs ++ (if post then [36] else [])

theorem parseAst_anchored (pre post : Bool) (cs : Chars) :
    parseAst (anchoredText pre post cs) = .ok (anchoredAst pre post cs) := by
  unfold parseAst
  have hlen := length_le_escape cs
  cases pre <;> cases post
  · -- no assertion
    simp only [anchoredText, anchoredAst, Bool.false_eq_true, if_false, List.nil_append,
      List.append_nil]
    obtain ⟨g, hg⟩ : ∃ g, (escape cs).length + 1 = (g + 1) + cs.length := ⟨(escape cs).length - cs.length, by omega⟩
    have := loop_escape cs (g + 1) {} []
    rw [List.append_nil] at this
    rw [hg, this]
    simp [loop, popGroupEnd]
  · -- `$`
    simp only [anchoredText, anchoredAst, Bool.false_eq_true, if_false, if_true, List.nil_append]
    obtain ⟨g, hg⟩ : ∃ g, (escape cs ++ [36]).length + 1 = (g + 2) + cs.length :=
      ⟨(escape cs).length - cs.length, by simp; omega⟩
    rw [hg, loop_escape cs (g + 2) {} [36], loop_dollar]
    simp [loop, popGroupEnd, pushAst]
  · -- `^`
    simp only [anchoredText, anchoredAst, Bool.false_eq_true, if_false, if_true, List.append_nil,
      List.cons_append, List.nil_append]
    obtain ⟨g, hg⟩ : ∃ g, (94 :: escape cs).length + 1 = ((g + 1) + cs.length) + 1 :=
      ⟨(escape cs).length - cs.length, by simp; omega⟩
    have := loop_escape cs (g + 1) (pushAst {} (.look .startText)) []
    rw [List.append_nil] at this
    rw [hg, loop_caret, this]
    simp [loop, popGroupEnd, pushAst]
  · -- `^ … $`
    simp only [anchoredText, anchoredAst, if_true, List.cons_append, List.nil_append]
    obtain ⟨g, hg⟩ : ∃ g, (94 :: (escape cs ++ [36])).length + 1 = ((g + 2) + cs.length) + 1 :=
      ⟨(escape cs).length - cs.length, by simp; omega⟩
    rw [hg, loop_caret, loop_escape cs (g + 2) _ [36], loop_dollar]
    simp [loop, popGroupEnd, pushAst]

/-- `^`? spelled text `$`? -/
def spelledText (pre post : Bool) (l : List (Nat × Bool)) : Chars :=
  (if pre then [94] else []) ++ spelled l ++ (if post then [36] else [])

theorem parseAst_spelled (pre post : Bool) (l : List (Nat × Bool)) (hok : ∀ p ∈ l, SpellOk p = true) :
    parseAst (spelledText pre post l) = .ok (anchoredAst pre post (l.map (·.1))) := by
  unfold parseAst
  have hlen := length_le_spelled l
  have hmap : (List.map (fun p : Nat × Bool => Ast.lit p.1) l) = (l.map (·.1)).map Ast.lit := by
    simp [List.map_map]
  cases pre <;> cases post
  · simp only [spelledText, anchoredAst, Bool.false_eq_true, if_false, List.nil_append,
      List.append_nil]
    obtain ⟨g, hg⟩ : ∃ g, (spelled l).length + 1 = (g + 1) + l.length := ⟨(spelled l).length - l.length, by omega⟩
    have := loop_spelled l hok (g + 1) {} []
    rw [List.append_nil] at this
    rw [hg, this, hmap]
    simp [loop, popGroupEnd]
  · simp only [spelledText, anchoredAst, Bool.false_eq_true, if_false, if_true, List.nil_append]
    obtain ⟨g, hg⟩ : ∃ g, (spelled l ++ [36]).length + 1 = (g + 2) + l.length :=
      ⟨(spelled l).length - l.length, by simp; omega⟩
    rw [hg, loop_spelled l hok (g + 2) {} [36], loop_dollar, hmap]
    simp [loop, popGroupEnd, pushAst]
  · simp only [spelledText, anchoredAst, Bool.false_eq_true, if_false, if_true, List.append_nil,
      List.cons_append, List.nil_append]
    obtain ⟨g, hg⟩ : ∃ g, (94 :: spelled l).length + 1 = ((g + 1) + l.length) + 1 :=
      ⟨(spelled l).length - l.length, by simp; omega⟩
    have := loop_spelled l hok (g + 1) (pushAst {} (.look .startText)) []
    rw [List.append_nil] at this
    rw [hg, loop_caret, this, hmap]
    simp [loop, popGroupEnd, pushAst]
  · simp only [spelledText, anchoredAst, if_true, List.cons_append, List.nil_append]
    obtain ⟨g, hg⟩ : ∃ g, (94 :: (spelled l ++ [36])).length + 1 = ((g + 2) + l.length) + 1 :=
      ⟨(spelled l).length - l.length, by simp; omega⟩
    rw [hg, loop_caret, loop_spelled l hok (g + 2) _ [36], loop_dollar, hmap]
    simp [loop, popGroupEnd, pushAst]

/-! ### the limits -/

/-- no nesting construct -/
def Leaf : Ast → Bool
  | .lit _ => true
  | .look _ => true
  | _ => false

theorem heightIn_leaf {a : Ast} (h : Leaf a = true) (ctx : Ctx) : heightIn ctx a = 0 := by
  cases a <;> simp_all [Leaf, heightIn]

theorem heightIn_catOf_leaves : ∀ (as : List Ast), (∀ a ∈ as, Leaf a = true) → ∀ ctx, heightIn ctx (catOf as) ≤ 1
  | [], _, ctx => by simp [catOf, heightIn]
  | [a], h, ctx => by simp [catOf, heightIn_leaf (h a (by simp))]
  | a :: b :: r, h, ctx => by
    simp only [catOf, heightIn]
    have h1 := heightIn_leaf (h a (by simp)) .top
    have h2 := heightIn_catOf_leaves (b :: r) (fun x hx => h x (by simp [hx])) .inCat
    by_cases hc : ctx = .inCat
    · simp [hc, h1]; exact h2
    · simp only [hc, if_false, h1]
      -- the tail of the same concatenation does not count again
      have h3 : heightIn .inCat (catOf (b :: r)) = 0 := by
        clear h2
        induction r generalizing b with
        | nil => simp [catOf, heightIn_leaf (h b (by simp))]
        | cons c r ih =>
          simp only [catOf, heightIn, if_true]
          have hb := heightIn_leaf (h b (by simp)) .top
          have := ih c (fun x hx => by
            rcases List.mem_cons.1 hx with rfl | hx
            · exact h _ (by simp)
            · rcases List.mem_cons.1 hx with rfl | hx
              · exact h _ (by simp)
              · exact h x (by simp [hx]))
          simp [hb, this]
      simp [h3]

theorem cost_leaf {a : Ast} (h : Leaf a = true) : cost a ≤ 200 := by
  cases a <;> simp_all [Leaf, cost]

theorem cost_catOf_leaves : ∀ (as : List Ast), (∀ a ∈ as, Leaf a = true) → cost (catOf as) ≤ 200 * as.length + 50
  | [], _ => by simp [catOf, cost]
  | [a], h => by have := cost_leaf (h a (by simp)); simp [catOf]; omega
  | a :: b :: r, h => by
    simp only [catOf, cost]
    have h1 := cost_leaf (h a (by simp))
    have h2 := cost_catOf_leaves (b :: r) (fun x hx => h x (by simp [hx]))
    simp only [List.length_cons] at h2 ⊢
    omega

theorem anchored_leaves (pre post : Bool) (cs : Chars) :
    ∀ a ∈ (if pre then [Ast.look .startText] else []) ++ cs.map Ast.lit ++
      (if post then [Ast.look .endText] else []), Leaf a = true := by
  intro a ha
  simp only [List.mem_append, List.mem_map] at ha
  rcases ha with (ha | ⟨c, _, rfl⟩) | ha
  · cases pre <;> simp at ha; subst ha; rfl
  · rfl
  · cases post <;> simp at ha; subst ha; rfl

/-- `Regex::new` accepts the literal pattern (nest and size limits included) -/
theorem parse_anchored (pre post : Bool) (cs : Chars) (hlen : cs.length ≤ 19000) :
    parse (anchoredText pre post cs) = .ok (anchoredAst pre post cs) := by
  unfold parse
  rw [parseAst_anchored]
  have hl := anchored_leaves pre post cs
  have hh := heightIn_catOf_leaves _ hl .top
  have hc := cost_catOf_leaves _ hl
  have hn : ((if pre then [Ast.look .startText] else []) ++ cs.map Ast.lit ++
      (if post then [Ast.look .endText] else [])).length ≤ cs.length + 2 := by
    cases pre <;> cases post <;> simp
  have h1 : ¬ height (anchoredAst pre post cs) > nestLimit := by
    unfold height anchoredAst nestLimit; omega
  have h2 : ¬ cost (anchoredAst pre post cs) > costLimit := by
    unfold anchoredAst costLimit; omega
  simp [h1, h2]

/-- `Regex::new` accepts a literal however it is spelled -/
theorem parse_spelled (pre post : Bool) (l : List (Nat × Bool)) (hok : ∀ p ∈ l, SpellOk p = true)
    (hlen : l.length ≤ 19000) :
    parse (spelledText pre post l) = .ok (anchoredAst pre post (l.map (·.1))) := by
  unfold parse
  rw [parseAst_spelled pre post l hok]
  have hl := anchored_leaves pre post (l.map (·.1))
  have hh := heightIn_catOf_leaves _ hl .top
  have hc := cost_catOf_leaves _ hl
  have hn : ((if pre then [Ast.look .startText] else []) ++ (l.map (·.1)).map Ast.lit ++
      (if post then [Ast.look .endText] else [])).length ≤ l.length + 2 := by
    cases pre <;> cases post <;> simp
  have h1 : ¬ height (anchoredAst pre post (l.map (·.1))) > nestLimit := by
    unfold height anchoredAst nestLimit; omega
  have h2 : ¬ cost (anchoredAst pre post (l.map (·.1))) > costLimit := by
    unfold anchoredAst costLimit; omega
  simp [h1, h2]

end Grcov.Regex

