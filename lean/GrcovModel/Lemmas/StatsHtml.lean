/-
Helper lemmas for C13, html part (second review, items 22, 23):
* the global HTML totals are the sum over ALL shown records, duplicates included (no
  distinctness needed: `HtmlStats::add` runs for every record, only the row map replaces);
* the header of a file page against the rows the page lists (`Writers.Docs.htmlRows`);
* the rounding of `Stats/Rounded.lean`.
-/
import GrcovModel.Lemmas.Stats
import GrcovModel.Lemmas.WritersDocs
import GrcovModel.Stats.Rounded
namespace Grcov.Stats
open Grcov AList

/-! ### global totals, duplicates included -/

theorem foldl_html_stats (rs : List FileIn) (g : HGlobal) :
    (rs.foldl (fun g r =>
      if r.shown then getDirsResult g (joinPath r.rel.dropLast) (r.rel.getLastD []) (htmlStats r.cov)
      else g) g).stats
      = g.stats.add (sumH ((rs.filter (·.shown)).map fun r => htmlStats r.cov)) := by
  induction rs generalizing g with
  | nil => simp
  | cons r rs ih =>
    rw [List.foldl_cons, ih]
    by_cases hs : r.shown = true
    · simp only [hs, if_true, List.filter_cons_of_pos, List.map_cons, sumH_cons]
      show (g.stats.add (htmlStats r.cov)).add _ = _
      rw [HStats.add_assoc]
    · simp [hs]

/-- the global totals are the sum over every record the writer looks at — a path that occurs twice
is counted twice -/
theorem htmlGlobal_stats_eq (rs : List FileIn) :
    (htmlGlobal rs).stats = sumH ((rs.filter (·.shown)).map fun r => htmlStats r.cov) := by
  unfold htmlGlobal
  rw [foldl_html_stats]
  exact HStats.zero_add _

theorem sumH_totalLines (xs : List HStats) : (sumH xs).totalLines = (xs.map (·.totalLines)).sum := by
  induction xs with
  | nil => rfl
  | cons x xs ih => simp [ih]

theorem sumH_coveredLines (xs : List HStats) : (sumH xs).coveredLines = (xs.map (·.coveredLines)).sum := by
  induction xs with
  | nil => rfl
  | cons x xs ih => simp [ih]

/-! ### the file page: header against listed rows -/

open Grcov.Writers Grcov.Writers.Docs

theorem entry_nonneg_iff (lines : List (Nat × Nat)) (l : Nat) :
    (0 ≤ entry lines l) ↔ l ∈ keys lines := by
  unfold entry
  cases hg : get? lines l with
  | none =>
    have : ¬ l ∈ keys lines := by
      intro hm
      have := (get?_isSome_iff lines l).2 hm
      simp [hg] at this
    simp [this]
  | some c =>
    have : l ∈ keys lines := (get?_isSome_iff lines l).1 (by simp [hg])
    simp [this]

theorem entry_pos_iff (lines : List (Nat × Nat)) (hnd : NodupKeys lines) (l : Nat) :
    (0 < entry lines l) ↔ l ∈ keys (lines.filter fun kv => decide (0 < kv.2)) := by
  unfold entry
  constructor
  · intro h
    cases hg : get? lines l with
    | none => rw [hg] at h; simp at h
    | some c =>
      rw [hg] at h
      have hm := mem_of_get? hg
      simp only [keys, List.mem_map]
      exact ⟨(l, c), List.mem_filter.2 ⟨hm, by simpa using h⟩, rfl⟩
  · intro h
    simp only [keys, List.mem_map] at h
    obtain ⟨kv, hkv, hk1⟩ := h
    obtain ⟨hm, hp⟩ := List.mem_filter.1 hkv
    obtain ⟨k, n⟩ := kv
    simp only at hk1; subst hk1
    rw [get?_of_mem hnd hm]
    simpa using hp

theorem mem_keys_le_lastKey (lines : List (Nat × Nat)) (k : Nat) (hk : k ∈ keys lines) : k ≤ lastKey lines :=
  key_le_lastKey lines k ((get?_isSome_iff lines k).2 hk)

/-- a source with at least `lastKey` lines: the rows with a count are as many as the record's
lines, those with a positive count as many as its hit lines -/
theorem htmlRows_counts (src : List Nat) (lines : List (Nat × Nat)) (hnd : NodupKeys lines)
    (h1 : ∀ kv ∈ lines, 1 ≤ kv.1) (hlen : lastKey lines ≤ (lossyLines src).length) :
    (htmlRows src lines).countP (fun r => decide (0 ≤ r.count)) = lines.length ∧
    (htmlRows src lines).countP (fun r => decide (0 < r.count)) = countPos lines := by
  have hmap : ∀ q : Int → Bool, (htmlRows src lines).countP (fun r => q r.count)
      = (List.range (lossyLines src).length).countP (fun i => q (entry lines (1 + i))) := by
    intro q
    have := rowsFrom_counts lines 1 (lossyLines src)
    have h2 : (htmlRows src lines).countP (fun r => q r.count)
        = ((htmlRows src lines).map (·.count)).countP q := by
      rw [List.countP_map]; rfl
    rw [h2]
    unfold htmlRows
    rw [this, List.countP_map]; rfl
  constructor
  · rw [hmap fun c => decide (0 ≤ c)]
    have hk : (keys lines).length = lines.length := by simp [keys]
    rw [← hk, ← countP_range_mem (keys lines) (lossyLines src).length hnd]
    · apply List.countP_congr
      intro i _
      simp only [decide_eq_true_eq]
      rw [Nat.add_comm 1 i]
      exact entry_nonneg_iff lines (i + 1)
    · intro k hk'
      simp only [keys, List.mem_map] at hk'
      obtain ⟨kv, hkv, rfl⟩ := hk'
      exact ⟨h1 kv hkv, Nat.le_trans (mem_keys_le_lastKey lines kv.1 (List.mem_map.2 ⟨kv, hkv, rfl⟩)) hlen⟩
  · rw [hmap fun c => decide (0 < c)]
    let pos := lines.filter fun kv => decide (0 < kv.2)
    have hsub : (keys pos).Sublist (keys lines) := List.Sublist.map _ List.filter_sublist
    have hk : (keys pos).length = countPos lines := by
      simp [keys, pos, countPos, List.countP_eq_length_filter]
    rw [← hk, ← countP_range_mem (keys pos) (lossyLines src).length (List.Nodup.sublist hsub hnd)]
    · apply List.countP_congr
      intro i _
      simp only [decide_eq_true_eq]
      rw [Nat.add_comm 1 i]
      exact entry_pos_iff lines hnd (i + 1)
    · intro k hk'
      have hk'' := hsub.subset hk'
      have hk3 := hk''
      simp only [keys, List.mem_map] at hk''
      obtain ⟨kv, hkv, rfl⟩ := hk''
      exact ⟨h1 kv hkv, Nat.le_trans (mem_keys_le_lastKey lines kv.1 hk3) hlen⟩

/-! ### rounding -/

theorem roundedTo_eq_off_tie (p : Nat) (r : Rate) (h : atTie p r = false) :
    roundedTo .halfAway p r = roundedTo .halfEven p r := by
  unfold atTie at h
  simp only [decide_eq_false_iff_not] at h
  unfold roundedTo
  simp only
  by_cases h1 : 2 * scaledRem p r < r.den
  · simp [h1]
  · by_cases h2 : r.den < 2 * scaledRem p r
    · simp [h1, h2]
    · exfalso; omega

theorem roundedTo_at_tie (p : Nat) (r : Rate) (h : atTie p r = true) :
    roundedTo .halfAway p r = scaledFloor p r + 1 ∧
    roundedTo .halfEven p r = (if scaledFloor p r % 2 = 0 then scaledFloor p r else scaledFloor p r + 1) := by
  unfold atTie at h
  simp only [decide_eq_true_eq] at h
  unfold roundedTo
  simp only
  have h1 : ¬ 2 * scaledRem p r < r.den := by omega
  have h2 : ¬ r.den < 2 * scaledRem p r := by omega
  simp [h1, h2]

/-- the rounded value is within half a unit of the last place of the exact rate (cross-multiplied:
`|n·den − num·10^p| · 2 ≤ den`) -/
theorem roundedTo_close (m : RMode) (p : Nat) (r : Rate) (hd : r.den ≠ 0) :
    2 * absDiff (roundedTo m p r * r.den) (r.num * 10 ^ p) ≤ r.den := by
  have hdm := Nat.div_add_mod (r.num * 10 ^ p) r.den
  have hlt := Nat.mod_lt (r.num * 10 ^ p) (Nat.pos_of_ne_zero hd)
  unfold roundedTo scaledFloor scaledRem
  simp only
  generalize r.num * 10 ^ p / r.den = q at *
  generalize r.num * 10 ^ p % r.den = rem at *
  generalize r.num * 10 ^ p = a at *
  have hq : r.den * q = q * r.den := Nat.mul_comm _ _
  have hs : (q + 1) * r.den = q * r.den + r.den := Nat.succ_mul q r.den
  unfold absDiff
  by_cases h1 : 2 * rem < r.den
  · simp only [h1, if_true]; split <;> omega
  · by_cases h2 : r.den < 2 * rem
    · simp only [h1, h2, if_true, if_false, hs]; split <;> omega
    · simp only [h1, h2, if_false]
      cases m with
      | halfAway => simp only [hs]; split <;> omega
      | halfEven =>
        by_cases h3 : q % 2 = 0
        · simp only [h3, if_true]; split <;> omega
        · simp only [h3, if_false, hs]; split <;> omega

end Grcov.Stats
