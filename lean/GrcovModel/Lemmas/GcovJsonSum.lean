/-
C09 (JSON form, since /repo 5a9c87e): the three folds of `parse_gcov_gz` over the entries of a file
(`Json.fileLines`: saturating sum per line, `Json.fileBranches`: position-wise OR per line,
`Json.fileFunctions`: OR of the executed flags per demangled name, first start line kept) equal the
key-by-key denotation of `Spec/Gcov.lean` (`semLines`, `semBranches`, `semFunctions`), for every
list of entries – in particular when a line or a demangled name occurs several times.
-/
import GrcovModel.Spec.Gcov
namespace Grcov.Gcov.JsonL
open Grcov AList Grcov.Gcov Grcov.Gcov.Json Grcov.Gcov.Spec

/-! ### association lists: extensionality, `firstKeys` -/

section generic
variable {κ α β : Type} [DecidableEq κ]

/-- two maps with the same key list (no repeated key) and the same `get?` are equal -/
theorem alist_ext : ∀ {m m' : List (κ × α)}, keys m = keys m' → NodupKeys m →
    (∀ k, get? m k = get? m' k) → m = m'
  | [], [], _, _, _ => rfl
  | [], _ :: _, hk, _, _ => by simp [keys] at hk
  | _ :: _, [], hk, _, _ => by simp [keys] at hk
  | (k, v) :: t, (k', v') :: t', hk, hn, hg => by
    simp only [keys, List.map_cons, List.cons.injEq] at hk
    obtain ⟨rfl, hkt⟩ := hk
    have hn' : k ∉ keys t ∧ NodupKeys t := by
      simpa [NodupKeys, keys] using hn
    have hv : v = v' := by simpa using hg k
    subst hv
    have : t = t' := by
      apply alist_ext hkt hn'.2
      intro x
      by_cases hx : k = x
      · subst hx
        rw [(get?_eq_none_iff t k).mpr hn'.1, (get?_eq_none_iff t' k).mpr (by rw [← show keys t = keys t' from hkt]; exact hn'.1)]
      · simpa [hx] using hg x
    rw [this]

theorem mem_firstKeysInto (acc ks : List κ) (k : κ) :
    k ∈ firstKeysInto acc ks ↔ k ∈ acc ∨ k ∈ ks := by
  induction ks generalizing acc with
  | nil => simp [firstKeysInto]
  | cons x ks ih =>
    simp only [firstKeysInto, ih, List.mem_cons]
    by_cases hx : x ∈ acc
    · simp only [hx, if_true]
      constructor
      · rintro (h | h); exact .inl h; exact .inr (.inr h)
      · rintro (h | rfl | h); exact .inl h; exact .inl hx; exact .inr h
    · simp only [hx, if_false, List.mem_append, List.mem_singleton]
      constructor
      · rintro ((h | h) | h); exact .inl h; exact .inr (.inl h); exact .inr (.inr h)
      · rintro (h | h | h); exact .inl (.inl h); exact .inl (.inr h); exact .inr h

theorem nodup_firstKeysInto (acc ks : List κ) (h : acc.Nodup) : (firstKeysInto acc ks).Nodup := by
  induction ks generalizing acc with
  | nil => exact h
  | cons x ks ih =>
    simp only [firstKeysInto]
    apply ih
    by_cases hx : x ∈ acc
    · simpa [hx] using h
    · simp only [hx, if_false]
      rw [List.nodup_append]
      refine ⟨h, by simp, ?_⟩
      intro a ha b hb
      simp at hb; subst hb
      intro e; subst e; exact hx ha

theorem mem_firstKeys (ks : List κ) (k : κ) : k ∈ firstKeys ks ↔ k ∈ ks := by
  simp [firstKeys, mem_firstKeysInto]

theorem nodup_firstKeys (ks : List κ) : (firstKeys ks).Nodup :=
  nodup_firstKeysInto [] ks List.nodup_nil

/-- a fold whose step inserts or updates the entry of `key x` visits the keys in first-occurrence
order -/
theorem keys_foldl (g : List (κ × α) → β → List (κ × α)) (key : β → κ)
    (hg : ∀ m x, (key x ∈ keys m → keys (g m x) = keys m)
               ∧ (key x ∉ keys m → keys (g m x) = keys m ++ [key x]))
    (xs : List β) (m : List (κ × α)) :
    keys (xs.foldl g m) = firstKeysInto (keys m) (xs.map key) := by
  induction xs generalizing m with
  | nil => rfl
  | cons x xs ih =>
    simp only [List.foldl_cons, List.map_cons, firstKeysInto, ih]
    by_cases h : key x ∈ keys m
    · rw [(hg m x).1 h, if_pos h]
    · rw [(hg m x).2 h, if_neg h]

theorem keys_set' (m : List (κ × α)) (x : κ) (v : α) :
    (x ∈ keys m → keys (set m x v) = keys m) ∧ (x ∉ keys m → keys (set m x v) = keys m ++ [x]) := by
  constructor <;> intro h <;> rw [keys_set] <;> simp [h]

/-- the map `k ↦ v k` on the keys `ks` -/
theorem keys_tabulate (ks : List κ) (v : κ → α) : keys (ks.map fun k => (k, v k)) = ks := by
  induction ks with
  | nil => rfl
  | cons k ks ih => simp only [keys, List.map_cons] at ih ⊢; rw [ih]

theorem get?_tabulate (ks : List κ) (v : κ → α) (x : κ) :
    get? (ks.map fun k => (k, v k)) x = if x ∈ ks then some (v x) else none := by
  induction ks with
  | nil => simp
  | cons k ks ih =>
    simp only [List.map_cons, get?_cons, ih, List.mem_cons]
    by_cases hk : k = x
    · subst hk; simp
    · have : ¬ x = k := fun e => hk e.symm
      simp [hk, this]

/-- a fold is the tabulated map as soon as its keys come in first-occurrence order and its `get?`
is the tabulated value -/
theorem foldl_eq_tabulate (g : List (κ × α) → β → List (κ × α)) (key : β → κ)
    (hg : ∀ m x, (key x ∈ keys m → keys (g m x) = keys m)
               ∧ (key x ∉ keys m → keys (g m x) = keys m ++ [key x]))
    (xs : List β) (v : κ → α)
    (hv : ∀ k, k ∈ xs.map key → get? (xs.foldl g []) k = some (v k)) :
    xs.foldl g [] = (firstKeys (xs.map key)).map fun k => (k, v k) := by
  have hk : keys (xs.foldl g []) = firstKeys (xs.map key) := keys_foldl g key hg xs []
  apply alist_ext
  · rw [hk, keys_tabulate]
  · unfold NodupKeys; rw [hk]; exact nodup_firstKeys _
  · intro k
    rw [get?_tabulate]
    by_cases hm : k ∈ xs.map key
    · rw [hv k hm, if_pos ((mem_firstKeys _ k).mpr hm)]
    · rw [if_neg (fun h => hm ((mem_firstKeys _ k).mp h))]
      rw [get?_eq_none_iff, hk, mem_firstKeys]; exact hm

theorem foldl_skip (g : α → β → α) (p : β → Bool) (xs : List β) (a : α) :
    xs.foldl (fun m x => if p x then m else g m x) a = (xs.filter fun x => !p x).foldl g a := by
  induction xs generalizing a with
  | nil => rfl
  | cons x xs ih =>
    simp only [List.foldl_cons, List.filter_cons]
    cases hp : p x <;> simp [ih]

end generic

/-! ### line counts: the saturating sum -/

theorem keys_addCount (m : List (Nat × Nat)) (l c : Nat) :
    (l ∈ keys m → keys (addCount m l c) = keys m)
    ∧ (l ∉ keys m → keys (addCount m l c) = keys m ++ [l]) := keys_set' _ _ _

theorem get?_addCount (m : List (Nat × Nat)) (l c x : Nat) :
    get? (addCount m l c) x = if l = x then some (satAdd ((get? m l).getD 0) c) else get? m x :=
  get?_set _ _ _ _

theorem get?_foldl_addCount (ls : List LineJ) (m : List (Nat × Nat)) (x : Nat) :
    get? (ls.foldl (fun m ln => addCount m ln.lineNumber ln.count) m) x
      = if (ls.filter fun e => e.lineNumber = x).isEmpty then get? m x
        else some (min ((get? m x).getD 0 + ((ls.filter fun e => e.lineNumber = x).map (·.count)).sum) U64MAX) := by
  induction ls generalizing m with
  | nil => simp
  | cons e ls ih =>
    by_cases he : e.lineNumber = x
    · simp only [List.foldl_cons, ih, get?_addCount, List.filter_cons, he, if_true, decide_true,
        Option.getD_some, List.isEmpty_cons, Bool.false_eq_true, if_false, List.map_cons,
        List.sum_cons]
      split
      · rename_i h0
        have : (List.map (fun e => e.count) (List.filter (fun e => decide (e.lineNumber = x)) ls)) = [] := by
          rw [List.isEmpty_iff] at h0; rw [h0]; rfl
        rw [this]; simp only [List.sum_nil, satAdd]; congr 1
      · simp only [satAdd]; congr 1; omega
    · simp only [List.foldl_cons, ih, get?_addCount, List.filter_cons, he, if_false, decide_false,
        Bool.false_eq_true]

theorem fileLines_get? (ls : List LineJ) (x : Nat) (hx : x ∈ ls.map (·.lineNumber)) :
    get? (fileLines ls) x
      = some (min ((ls.filter fun e => e.lineNumber = x).map (·.count)).sum U64MAX) := by
  unfold fileLines
  rw [get?_foldl_addCount]
  have : (ls.filter fun e => e.lineNumber = x).isEmpty = false := by
    obtain ⟨e, he, rfl⟩ := List.mem_map.mp hx
    cases h : (ls.filter fun e' => e'.lineNumber = e.lineNumber) with
    | nil =>
      have : e ∈ ls.filter fun e' => e'.lineNumber = e.lineNumber := by simp [he]
      rw [h] at this; simp at this
    | cons _ _ => rfl
  simp [this]

/-! ### branches: position-wise OR -/

theorem foldl_zipOr_length (vs : List (List Bool)) (u : List Bool) :
    (vs.foldl zipOr u).length = max u.length ((vs.map (·.length)).foldr max 0) := by
  induction vs generalizing u with
  | nil => simp
  | cons v vs ih => simp only [List.foldl_cons, ih, zipOr_length, List.map_cons, List.foldr_cons]; omega

theorem foldl_zipOr_getD (vs : List (List Bool)) (u : List Bool) (i : Nat) :
    (vs.foldl zipOr u).getD i false = (u.getD i false || vs.any fun v => v.getD i false) := by
  induction vs generalizing u with
  | nil => simp
  | cons v vs ih => simp only [List.foldl_cons, ih, zipOr_getD, List.any_cons, Bool.or_assoc]

theorem ext_getD {u v : List Bool} (hl : u.length = v.length)
    (hg : ∀ i, i < u.length → u.getD i false = v.getD i false) : u = v := by
  apply List.ext_getElem hl
  intro i h1 h2
  have := hg i h1
  simpa [List.getD_eq_getElem?_getD, List.getElem?_eq_getElem h1, List.getElem?_eq_getElem h2] using this

theorem keys_orBranches (m : List (Nat × List Bool)) (l : Nat) (t : List Bool) :
    (l ∈ keys m → keys (orBranches m l t) = keys m)
    ∧ (l ∉ keys m → keys (orBranches m l t) = keys m ++ [l]) := keys_set' _ _ _

theorem get?_orBranches (m : List (Nat × List Bool)) (l : Nat) (t : List Bool) (x : Nat) :
    get? (orBranches m l t) x = if l = x then some (zipOr ((get? m l).getD []) t) else get? m x :=
  get?_set _ _ _ _

theorem get?_foldl_orBranches (ls : List (Nat × List Bool)) (m : List (Nat × List Bool)) (x : Nat) :
    get? (ls.foldl (fun m e => orBranches m e.1 e.2) m) x
      = if (ls.filter fun e => e.1 = x).isEmpty then get? m x
        else some (((ls.filter fun e => e.1 = x).map (·.2)).foldl zipOr ((get? m x).getD [])) := by
  induction ls generalizing m with
  | nil => simp
  | cons e ls ih =>
    by_cases he : e.1 = x
    · simp only [List.foldl_cons, ih, get?_orBranches, List.filter_cons, he, if_true, decide_true,
        Option.getD_some, List.isEmpty_cons, Bool.false_eq_true, if_false, List.map_cons,
        List.foldl_cons]
      split
      · rename_i h0
        rw [List.isEmpty_iff] at h0; rw [h0]; rfl
      · rfl
    · simp only [List.foldl_cons, ih, get?_orBranches, List.filter_cons, he, if_false, decide_false,
        Bool.false_eq_true]

/-! ### functions: OR of the executed flags, first start line -/

theorem keys_addFunction (m : List (Name × Fn)) (f : FnJ) :
    (f.demangled ∈ keys m → keys (addFunction m f) = keys m)
    ∧ (f.demangled ∉ keys m → keys (addFunction m f) = keys m ++ [f.demangled]) := by
  unfold addFunction
  split <;> exact keys_set' _ _ _

theorem get?_addFunction (m : List (Name × Fn)) (f : FnJ) (x : Name) :
    get? (addFunction m f) x
      = if f.demangled = x then
          some ⟨((get? m x).map (·.start)).getD f.startLine,
                ((get? m x).map (·.executed)).getD false || decide (f.exec > 0)⟩
        else get? m x := by
  unfold addFunction
  by_cases hx : f.demangled = x
  · subst hx
    cases hm : get? m f.demangled <;> simp [get?_set]
  · cases hm : get? m f.demangled <;> simp [get?_set, hx]

theorem get?_foldl_addFunction (fs : List FnJ) (m : List (Name × Fn)) (x : Name) :
    get? (fs.foldl addFunction m) x
      = match fs.filter fun g => g.demangled = x with
        | [] => get? m x
        | g :: gs =>
          some ⟨((get? m x).map (·.start)).getD g.startLine,
                ((get? m x).map (·.executed)).getD false || (g :: gs).any fun h => decide (h.exec > 0)⟩ := by
  induction fs generalizing m with
  | nil => simp
  | cons e fs ih =>
    simp only [List.foldl_cons, ih, get?_addFunction, List.filter_cons]
    by_cases he : e.demangled = x
    · simp only [he, if_true, decide_true]
      cases hf : fs.filter fun g => g.demangled = x with
      | nil => simp
      | cons g gs => simp [Bool.or_assoc]
    · simp [he]

end Grcov.Gcov.JsonL
