/-
Per-constant facts for `Writers/HtmlConsts.lean` (GENERATED together with it by Writers/HtmlConsts.gen.py): where the skeleton
reader stands after each piece of template text and what it keeps of it (`skEnd`, `skel` from each
of the three states), the markup characters of the piece (`metaOf`), and that no piece contains `&`.
All by evaluation.
-/
import GrcovModel.Writers.HtmlBytes
namespace Grcov.Writers.HtmlBytes
open Grcov.Escape Grcov.Writers.HtmlConsts

@[simp] theorem skEnd_text_cDoc1 : skEnd .text cDoc1 = .text := by decide +kernel
@[simp] theorem skel_text_cDoc1 : skel .text cDoc1 = [60, 33, 68, 79, 67, 84, 89, 80, 69, 32, 104, 116, 109, 108, 62, 60, 104, 116, 109, 108, 32, 108, 97, 110, 103, 61, 34, 34, 62, 60, 104, 101, 97, 100, 62, 60, 109, 101, 116, 97, 32, 99, 104, 97, 114, 115, 101, 116, 61, 34, 34, 62, 60, 109, 101, 116, 97, 32, 110, 97, 109, 101, 61, 34, 34, 32, 99, 111, 110, 116, 101, 110, 116, 61, 34, 34, 62, 60, 116, 105, 116, 108, 101, 62] := by decide +kernel
@[simp] theorem skEnd_tag_cDoc1 : skEnd .tag cDoc1 = .text := by decide +kernel
@[simp] theorem skel_tag_cDoc1 : skel .tag cDoc1 = [60, 33, 68, 79, 67, 84, 89, 80, 69, 32, 104, 116, 109, 108, 62, 60, 104, 116, 109, 108, 32, 108, 97, 110, 103, 61, 34, 34, 62, 60, 104, 101, 97, 100, 62, 60, 109, 101, 116, 97, 32, 99, 104, 97, 114, 115, 101, 116, 61, 34, 34, 62, 60, 109, 101, 116, 97, 32, 110, 97, 109, 101, 61, 34, 34, 32, 99, 111, 110, 116, 101, 110, 116, 61, 34, 34, 62, 60, 116, 105, 116, 108, 101, 62] := by decide +kernel
@[simp] theorem skEnd_val_cDoc1 : skEnd .val cDoc1 = .val := by decide +kernel
@[simp] theorem skel_val_cDoc1 : skel .val cDoc1 = [34, 101, 110, 45, 117, 115, 34, 34, 117, 116, 102, 45, 56, 34, 34, 118, 105, 101, 119, 112, 111, 114, 116, 34, 34, 119, 105, 100, 116, 104, 61, 100, 101, 118, 105, 99, 101, 45, 119, 105, 100, 116, 104, 44, 32, 105, 110, 105, 116, 105, 97, 108, 45, 115, 99, 97, 108, 101, 61, 49, 34] := by decide +kernel
@[simp] theorem metaOf_cDoc1 : metaOf cDoc1 = [60, 62, 60, 34, 34, 62, 60, 62, 60, 34, 34, 62, 60, 34, 34, 34, 34, 62, 60, 62] := by decide +kernel
theorem noAmp_cDoc1 : 38 ∉ cDoc1 := by decide +kernel

@[simp] theorem skEnd_text_cDoc2 : skEnd .text cDoc2 = .val := by decide +kernel
@[simp] theorem skel_text_cDoc2 : skel .text cDoc2 = [60, 108, 105, 110, 107, 32, 114, 101, 108, 61, 34, 34, 32, 104, 114, 101, 102, 61, 34] := by decide +kernel
@[simp] theorem skEnd_tag_cDoc2 : skEnd .tag cDoc2 = .val := by decide +kernel
@[simp] theorem skel_tag_cDoc2 : skel .tag cDoc2 = [47, 116, 105, 116, 108, 101, 62, 60, 108, 105, 110, 107, 32, 114, 101, 108, 61, 34, 34, 32, 104, 114, 101, 102, 61, 34] := by decide +kernel
@[simp] theorem skEnd_val_cDoc2 : skEnd .val cDoc2 = .tag := by decide +kernel
@[simp] theorem skel_val_cDoc2 : skel .val cDoc2 = [34, 115, 116, 121, 108, 101, 115, 104, 101, 101, 116, 34, 34] := by decide +kernel
@[simp] theorem metaOf_cDoc2 : metaOf cDoc2 = [62, 60, 34, 34, 34] := by decide +kernel
theorem noAmp_cDoc2 : 38 ∉ cDoc2 := by decide +kernel

@[simp] theorem skEnd_text_cDoc3 : skEnd .text cDoc3 = .text := by decide +kernel
@[simp] theorem skel_text_cDoc3 : skel .text cDoc3 = [60, 47, 104, 101, 97, 100, 62, 60, 98, 111, 100, 121, 62, 60, 100, 105, 118, 32, 99, 108, 97, 115, 115, 61, 34, 34, 62] := by decide +kernel
@[simp] theorem skEnd_tag_cDoc3 : skEnd .tag cDoc3 = .text := by decide +kernel
@[simp] theorem skel_tag_cDoc3 : skel .tag cDoc3 = [62, 60, 47, 104, 101, 97, 100, 62, 60, 98, 111, 100, 121, 62, 60, 100, 105, 118, 32, 99, 108, 97, 115, 115, 61, 34, 34, 62] := by decide +kernel
@[simp] theorem skEnd_val_cDoc3 : skEnd .val cDoc3 = .val := by decide +kernel
@[simp] theorem skel_val_cDoc3 : skel .val cDoc3 = [34, 99, 111, 110, 116, 97, 105, 110, 101, 114, 34] := by decide +kernel
@[simp] theorem metaOf_cDoc3 : metaOf cDoc3 = [62, 60, 62, 60, 62, 60, 34, 34, 62] := by decide +kernel
theorem noAmp_cDoc3 : 38 ∉ cDoc3 := by decide +kernel

@[simp] theorem skEnd_text_cDoc4 : skEnd .text cDoc4 = .text := by decide +kernel
@[simp] theorem skel_text_cDoc4 : skel .text cDoc4 = [60, 47, 100, 105, 118, 62, 60, 102, 111, 111, 116, 101, 114, 32, 99, 108, 97, 115, 115, 61, 34, 34, 62] := by decide +kernel
@[simp] theorem skEnd_tag_cDoc4 : skEnd .tag cDoc4 = .text := by decide +kernel
@[simp] theorem skel_tag_cDoc4 : skel .tag cDoc4 = [60, 47, 100, 105, 118, 62, 60, 102, 111, 111, 116, 101, 114, 32, 99, 108, 97, 115, 115, 61, 34, 34, 62] := by decide +kernel
@[simp] theorem skEnd_val_cDoc4 : skEnd .val cDoc4 = .val := by decide +kernel
@[simp] theorem skel_val_cDoc4 : skel .val cDoc4 = [34, 102, 111, 111, 116, 101, 114, 34] := by decide +kernel
@[simp] theorem metaOf_cDoc4 : metaOf cDoc4 = [60, 62, 60, 34, 34, 62] := by decide +kernel
theorem noAmp_cDoc4 : 38 ∉ cDoc4 := by decide +kernel

@[simp] theorem skEnd_text_cDate1 : skEnd .text cDate1 = .text := by decide +kernel
@[simp] theorem skel_text_cDate1 : skel .text cDate1 = [60, 100, 105, 118, 32, 99, 108, 97, 115, 115, 61, 34, 34, 62, 60, 112, 32, 99, 108, 97, 115, 115, 61, 34, 34, 62] := by decide +kernel
@[simp] theorem skEnd_tag_cDate1 : skEnd .tag cDate1 = .text := by decide +kernel
@[simp] theorem skel_tag_cDate1 : skel .tag cDate1 = [10, 32, 32, 32, 32, 32, 32, 32, 32, 32, 32, 32, 32, 32, 32, 32, 32, 60, 100, 105, 118, 32, 99, 108, 97, 115, 115, 61, 34, 34, 62, 60, 112, 32, 99, 108, 97, 115, 115, 61, 34, 34, 62] := by decide +kernel
@[simp] theorem skEnd_val_cDate1 : skEnd .val cDate1 = .val := by decide +kernel
@[simp] theorem skel_val_cDate1 : skel .val cDate1 = [34, 99, 111, 110, 116, 101, 110, 116, 32, 104, 97, 115, 45, 116, 101, 120, 116, 45, 99, 101, 110, 116, 101, 114, 101, 100, 34, 34, 104, 101, 97, 100, 105, 110, 103, 34] := by decide +kernel
@[simp] theorem metaOf_cDate1 : metaOf cDate1 = [60, 34, 34, 62, 60, 34, 34, 62] := by decide +kernel
theorem noAmp_cDate1 : 38 ∉ cDate1 := by decide +kernel

@[simp] theorem skEnd_text_cDate2 : skEnd .text cDate2 = .text := by decide +kernel
@[simp] theorem skel_text_cDate2 : skel .text cDate2 = [60, 47, 100, 105, 118, 62] := by decide +kernel
@[simp] theorem skEnd_tag_cDate2 : skEnd .tag cDate2 = .text := by decide +kernel
@[simp] theorem skel_tag_cDate2 : skel .tag cDate2 = [47, 112, 62, 60, 47, 100, 105, 118, 62] := by decide +kernel
@[simp] theorem skEnd_val_cDate2 : skEnd .val cDate2 = .val := by decide +kernel
@[simp] theorem skel_val_cDate2 : skel .val cDate2 = [] := by decide +kernel
@[simp] theorem metaOf_cDate2 : metaOf cDate2 = [62, 60, 62] := by decide +kernel
theorem noAmp_cDate2 : 38 ∉ cDate2 := by decide +kernel

@[simp] theorem skEnd_text_cDoc5 : skEnd .text cDoc5 = .text := by decide +kernel
@[simp] theorem skel_text_cDoc5 : skel .text cDoc5 = [60, 47, 102, 111, 111, 116, 101, 114, 62, 60, 47, 98, 111, 100, 121, 62, 60, 47, 104, 116, 109, 108, 62] := by decide +kernel
@[simp] theorem skEnd_tag_cDoc5 : skEnd .tag cDoc5 = .text := by decide +kernel
@[simp] theorem skel_tag_cDoc5 : skel .tag cDoc5 = [10, 32, 32, 32, 32, 32, 32, 32, 32, 60, 47, 102, 111, 111, 116, 101, 114, 62, 60, 47, 98, 111, 100, 121, 62, 60, 47, 104, 116, 109, 108, 62] := by decide +kernel
@[simp] theorem skEnd_val_cDoc5 : skEnd .val cDoc5 = .val := by decide +kernel
@[simp] theorem skel_val_cDoc5 : skel .val cDoc5 = [] := by decide +kernel
@[simp] theorem metaOf_cDoc5 : metaOf cDoc5 = [60, 62, 60, 62, 60, 62] := by decide +kernel
theorem noAmp_cDoc5 : 38 ∉ cDoc5 := by decide +kernel

@[simp] theorem skEnd_text_cSum1 : skEnd .text cSum1 = .text := by decide +kernel
@[simp] theorem skel_text_cSum1 : skel .text cSum1 = [60, 110, 97, 118, 32, 99, 108, 97, 115, 115, 61, 34, 34, 32, 97, 114, 105, 97, 45, 108, 97, 98, 101, 108, 61, 34, 34, 62, 60, 117, 108, 62] := by decide +kernel
@[simp] theorem skEnd_tag_cSum1 : skEnd .tag cSum1 = .text := by decide +kernel
@[simp] theorem skel_tag_cSum1 : skel .tag cSum1 = [10, 32, 32, 32, 32, 60, 110, 97, 118, 32, 99, 108, 97, 115, 115, 61, 34, 34, 32, 97, 114, 105, 97, 45, 108, 97, 98, 101, 108, 61, 34, 34, 62, 60, 117, 108, 62] := by decide +kernel
@[simp] theorem skEnd_val_cSum1 : skEnd .val cSum1 = .val := by decide +kernel
@[simp] theorem skel_val_cSum1 : skel .val cSum1 = [34, 98, 114, 101, 97, 100, 99, 114, 117, 109, 98, 32, 105, 115, 45, 114, 105, 103, 104, 116, 34, 34, 98, 114, 101, 97, 100, 99, 114, 117, 109, 98, 115, 34] := by decide +kernel
@[simp] theorem metaOf_cSum1 : metaOf cSum1 = [60, 34, 34, 34, 34, 62, 60, 62] := by decide +kernel
theorem noAmp_cSum1 : 38 ∉ cSum1 := by decide +kernel

@[simp] theorem skEnd_text_cCrumb1 : skEnd .text cCrumb1 = .val := by decide +kernel
@[simp] theorem skel_text_cCrumb1 : skel .text cCrumb1 = [60, 108, 105, 62, 60, 97, 32, 104, 114, 101, 102, 61, 34] := by decide +kernel
@[simp] theorem skEnd_tag_cCrumb1 : skEnd .tag cCrumb1 = .val := by decide +kernel
@[simp] theorem skel_tag_cCrumb1 : skel .tag cCrumb1 = [60, 108, 105, 62, 60, 97, 32, 104, 114, 101, 102, 61, 34] := by decide +kernel
@[simp] theorem skEnd_val_cCrumb1 : skEnd .val cCrumb1 = .tag := by decide +kernel
@[simp] theorem skel_val_cCrumb1 : skel .val cCrumb1 = [34] := by decide +kernel
@[simp] theorem metaOf_cCrumb1 : metaOf cCrumb1 = [60, 62, 60, 34] := by decide +kernel
theorem noAmp_cCrumb1 : 38 ∉ cCrumb1 := by decide +kernel

@[simp] theorem skEnd_text_cCrumb2 : skEnd .text cCrumb2 = .text := by decide +kernel
@[simp] theorem skel_text_cCrumb2 : skel .text cCrumb2 = [] := by decide +kernel
@[simp] theorem skEnd_tag_cCrumb2 : skEnd .tag cCrumb2 = .text := by decide +kernel
@[simp] theorem skel_tag_cCrumb2 : skel .tag cCrumb2 = [62] := by decide +kernel
@[simp] theorem skEnd_val_cCrumb2 : skEnd .val cCrumb2 = .val := by decide +kernel
@[simp] theorem skel_val_cCrumb2 : skel .val cCrumb2 = [] := by decide +kernel
@[simp] theorem metaOf_cCrumb2 : metaOf cCrumb2 = [62] := by decide +kernel
theorem noAmp_cCrumb2 : 38 ∉ cCrumb2 := by decide +kernel

@[simp] theorem skEnd_text_cCrumb3 : skEnd .text cCrumb3 = .text := by decide +kernel
@[simp] theorem skel_text_cCrumb3 : skel .text cCrumb3 = [60, 47, 108, 105, 62] := by decide +kernel
@[simp] theorem skEnd_tag_cCrumb3 : skEnd .tag cCrumb3 = .text := by decide +kernel
@[simp] theorem skel_tag_cCrumb3 : skel .tag cCrumb3 = [47, 97, 62, 60, 47, 108, 105, 62] := by decide +kernel
@[simp] theorem skEnd_val_cCrumb3 : skEnd .val cCrumb3 = .val := by decide +kernel
@[simp] theorem skel_val_cCrumb3 : skel .val cCrumb3 = [] := by decide +kernel
@[simp] theorem metaOf_cCrumb3 : metaOf cCrumb3 = [62, 60, 62] := by decide +kernel
theorem noAmp_cCrumb3 : 38 ∉ cCrumb3 := by decide +kernel

@[simp] theorem skEnd_text_cCur1 : skEnd .text cCur1 = .text := by decide +kernel
@[simp] theorem skel_text_cCur1 : skel .text cCur1 = [60, 108, 105, 32, 99, 108, 97, 115, 115, 61, 34, 34, 62, 60, 97, 32, 104, 114, 101, 102, 61, 34, 34, 62] := by decide +kernel
@[simp] theorem skEnd_tag_cCur1 : skEnd .tag cCur1 = .text := by decide +kernel
@[simp] theorem skel_tag_cCur1 : skel .tag cCur1 = [60, 108, 105, 32, 99, 108, 97, 115, 115, 61, 34, 34, 62, 60, 97, 32, 104, 114, 101, 102, 61, 34, 34, 62] := by decide +kernel
@[simp] theorem skEnd_val_cCur1 : skEnd .val cCur1 = .val := by decide +kernel
@[simp] theorem skel_val_cCur1 : skel .val cCur1 = [34, 105, 115, 45, 97, 99, 116, 105, 118, 101, 34, 34, 35, 34] := by decide +kernel
@[simp] theorem metaOf_cCur1 : metaOf cCur1 = [60, 34, 34, 62, 60, 34, 34, 62] := by decide +kernel
theorem noAmp_cCur1 : 38 ∉ cCur1 := by decide +kernel

@[simp] theorem skEnd_text_cSum2 : skEnd .text cSum2 = .text := by decide +kernel
@[simp] theorem skel_text_cSum2 : skel .text cSum2 = [60, 47, 117, 108, 62, 60, 47, 110, 97, 118, 62, 60, 110, 97, 118, 32, 99, 108, 97, 115, 115, 61, 34, 34, 62] := by decide +kernel
@[simp] theorem skEnd_tag_cSum2 : skEnd .tag cSum2 = .text := by decide +kernel
@[simp] theorem skel_tag_cSum2 : skel .tag cSum2 = [10, 32, 32, 32, 32, 32, 32, 32, 32, 60, 47, 117, 108, 62, 60, 47, 110, 97, 118, 62, 60, 110, 97, 118, 32, 99, 108, 97, 115, 115, 61, 34, 34, 62] := by decide +kernel
@[simp] theorem skEnd_val_cSum2 : skEnd .val cSum2 = .val := by decide +kernel
@[simp] theorem skel_val_cSum2 : skel .val cSum2 = [34, 108, 101, 118, 101, 108, 34] := by decide +kernel
@[simp] theorem metaOf_cSum2 : metaOf cSum2 = [60, 62, 60, 62, 60, 34, 34, 62] := by decide +kernel
theorem noAmp_cSum2 : 38 ∉ cSum2 := by decide +kernel

@[simp] theorem skEnd_text_cSum3 : skEnd .text cSum3 = .text := by decide +kernel
@[simp] theorem skel_text_cSum3 : skel .text cSum3 = [] := by decide +kernel
@[simp] theorem skEnd_tag_cSum3 : skEnd .tag cSum3 = .tag := by decide +kernel
@[simp] theorem skel_tag_cSum3 : skel .tag cSum3 = [10, 32, 32, 32, 32, 32, 32, 32, 32] := by decide +kernel
@[simp] theorem skEnd_val_cSum3 : skEnd .val cSum3 = .val := by decide +kernel
@[simp] theorem skel_val_cSum3 : skel .val cSum3 = [] := by decide +kernel
@[simp] theorem metaOf_cSum3 : metaOf cSum3 = [] := by decide +kernel
theorem noAmp_cSum3 : 38 ∉ cSum3 := by decide +kernel

@[simp] theorem skEnd_text_cSum5 : skEnd .text cSum5 = .text := by decide +kernel
@[simp] theorem skel_text_cSum5 : skel .text cSum5 = [] := by decide +kernel
@[simp] theorem skEnd_tag_cSum5 : skEnd .tag cSum5 = .tag := by decide +kernel
@[simp] theorem skel_tag_cSum5 : skel .tag cSum5 = [10, 9, 32, 32, 32, 32] := by decide +kernel
@[simp] theorem skEnd_val_cSum5 : skEnd .val cSum5 = .val := by decide +kernel
@[simp] theorem skel_val_cSum5 : skel .val cSum5 = [] := by decide +kernel
@[simp] theorem metaOf_cSum5 : metaOf cSum5 = [] := by decide +kernel
theorem noAmp_cSum5 : 38 ∉ cSum5 := by decide +kernel

@[simp] theorem skEnd_text_cSum6 : skEnd .text cSum6 = .text := by decide +kernel
@[simp] theorem skel_text_cSum6 : skel .text cSum6 = [] := by decide +kernel
@[simp] theorem skEnd_tag_cSum6 : skEnd .tag cSum6 = .tag := by decide +kernel
@[simp] theorem skel_tag_cSum6 : skel .tag cSum6 = [10, 9] := by decide +kernel
@[simp] theorem skEnd_val_cSum6 : skEnd .val cSum6 = .val := by decide +kernel
@[simp] theorem skel_val_cSum6 : skel .val cSum6 = [] := by decide +kernel
@[simp] theorem metaOf_cSum6 : metaOf cSum6 = [] := by decide +kernel
theorem noAmp_cSum6 : 38 ∉ cSum6 := by decide +kernel

@[simp] theorem skEnd_text_cSum7 : skEnd .text cSum7 = .text := by decide +kernel
@[simp] theorem skel_text_cSum7 : skel .text cSum7 = [60, 47, 110, 97, 118, 62] := by decide +kernel
@[simp] theorem skEnd_tag_cSum7 : skEnd .tag cSum7 = .text := by decide +kernel
@[simp] theorem skel_tag_cSum7 : skel .tag cSum7 = [10, 32, 32, 32, 32, 60, 47, 110, 97, 118, 62] := by decide +kernel
@[simp] theorem skEnd_val_cSum7 : skEnd .val cSum7 = .val := by decide +kernel
@[simp] theorem skel_val_cSum7 : skel .val cSum7 = [] := by decide +kernel
@[simp] theorem metaOf_cSum7 : metaOf cSum7 = [60, 62] := by decide +kernel
theorem noAmp_cSum7 : 38 ∉ cSum7 := by decide +kernel

@[simp] theorem skEnd_text_cSl1 : skEnd .text cSl1 = .text := by decide +kernel
@[simp] theorem skel_text_cSl1 : skel .text cSl1 = [60, 100, 105, 118, 32, 99, 108, 97, 115, 115, 61, 34, 34, 62, 60, 100, 105, 118, 62, 60, 112, 32, 99, 108, 97, 115, 115, 61, 34, 34, 62] := by decide +kernel
@[simp] theorem skEnd_tag_cSl1 : skEnd .tag cSl1 = .text := by decide +kernel
@[simp] theorem skel_tag_cSl1 : skel .tag cSl1 = [60, 100, 105, 118, 32, 99, 108, 97, 115, 115, 61, 34, 34, 62, 60, 100, 105, 118, 62, 60, 112, 32, 99, 108, 97, 115, 115, 61, 34, 34, 62] := by decide +kernel
@[simp] theorem skEnd_val_cSl1 : skEnd .val cSl1 = .val := by decide +kernel
@[simp] theorem skel_val_cSl1 : skel .val cSl1 = [34, 108, 101, 118, 101, 108, 45, 105, 116, 101, 109, 32, 104, 97, 115, 45, 116, 101, 120, 116, 45, 99, 101, 110, 116, 101, 114, 101, 100, 34, 34, 104, 101, 97, 100, 105, 110, 103, 34] := by decide +kernel
@[simp] theorem metaOf_cSl1 : metaOf cSl1 = [60, 34, 34, 62, 60, 62, 60, 34, 34, 62] := by decide +kernel
theorem noAmp_cSl1 : 38 ∉ cSl1 := by decide +kernel

@[simp] theorem skEnd_text_cSl2 : skEnd .text cSl2 = .val := by decide +kernel
@[simp] theorem skel_text_cSl2 : skel .text cSl2 = [60, 112, 32, 99, 108, 97, 115, 115, 61, 34] := by decide +kernel
@[simp] theorem skEnd_tag_cSl2 : skEnd .tag cSl2 = .val := by decide +kernel
@[simp] theorem skel_tag_cSl2 : skel .tag cSl2 = [47, 112, 62, 60, 112, 32, 99, 108, 97, 115, 115, 61, 34] := by decide +kernel
@[simp] theorem skEnd_val_cSl2 : skEnd .val cSl2 = .tag := by decide +kernel
@[simp] theorem skel_val_cSl2 : skel .val cSl2 = [34, 116, 105, 116, 108, 101, 32, 104, 97, 115, 45, 116, 101, 120, 116, 45] := by decide +kernel
@[simp] theorem metaOf_cSl2 : metaOf cSl2 = [62, 60, 34] := by decide +kernel
theorem noAmp_cSl2 : 38 ∉ cSl2 := by decide +kernel

@[simp] theorem skEnd_text_cSl3 : skEnd .text cSl3 = .val := by decide +kernel
@[simp] theorem skel_text_cSl3 : skel .text cSl3 = [60, 97, 98, 98, 114, 32, 116, 105, 116, 108, 101, 61, 34] := by decide +kernel
@[simp] theorem skEnd_tag_cSl3 : skEnd .tag cSl3 = .val := by decide +kernel
@[simp] theorem skel_tag_cSl3 : skel .tag cSl3 = [62, 60, 97, 98, 98, 114, 32, 116, 105, 116, 108, 101, 61, 34] := by decide +kernel
@[simp] theorem skEnd_val_cSl3 : skEnd .val cSl3 = .tag := by decide +kernel
@[simp] theorem skel_val_cSl3 : skel .val cSl3 = [34] := by decide +kernel
@[simp] theorem metaOf_cSl3 : metaOf cSl3 = [62, 60, 34] := by decide +kernel
theorem noAmp_cSl3 : 38 ∉ cSl3 := by decide +kernel

@[simp] theorem skEnd_text_cSlash : skEnd .text cSlash = .text := by decide +kernel
@[simp] theorem skel_text_cSlash : skel .text cSlash = [] := by decide +kernel
@[simp] theorem skEnd_tag_cSlash : skEnd .tag cSlash = .tag := by decide +kernel
@[simp] theorem skel_tag_cSlash : skel .tag cSlash = [47, 32] := by decide +kernel
@[simp] theorem skEnd_val_cSlash : skEnd .val cSlash = .val := by decide +kernel
@[simp] theorem skel_val_cSlash : skel .val cSlash = [] := by decide +kernel
@[simp] theorem metaOf_cSlash : metaOf cSlash = [] := by decide +kernel
theorem noAmp_cSlash : 38 ∉ cSlash := by decide +kernel

@[simp] theorem skEnd_text_cSl4 : skEnd .text cSl4 = .text := by decide +kernel
@[simp] theorem skel_text_cSl4 : skel .text cSl4 = [] := by decide +kernel
@[simp] theorem skEnd_tag_cSl4 : skEnd .tag cSl4 = .text := by decide +kernel
@[simp] theorem skel_tag_cSl4 : skel .tag cSl4 = [62] := by decide +kernel
@[simp] theorem skEnd_val_cSl4 : skEnd .val cSl4 = .val := by decide +kernel
@[simp] theorem skel_val_cSl4 : skel .val cSl4 = [] := by decide +kernel
@[simp] theorem metaOf_cSl4 : metaOf cSl4 = [62] := by decide +kernel
theorem noAmp_cSl4 : 38 ∉ cSl4 := by decide +kernel

@[simp] theorem skEnd_text_cSl5 : skEnd .text cSl5 = .text := by decide +kernel
@[simp] theorem skel_text_cSl5 : skel .text cSl5 = [60, 47, 97, 98, 98, 114, 62, 60, 47, 112, 62, 60, 47, 100, 105, 118, 62, 60, 47, 100, 105, 118, 62] := by decide +kernel
@[simp] theorem skEnd_tag_cSl5 : skEnd .tag cSl5 = .text := by decide +kernel
@[simp] theorem skel_tag_cSl5 : skel .tag cSl5 = [37, 60, 47, 97, 98, 98, 114, 62, 60, 47, 112, 62, 60, 47, 100, 105, 118, 62, 60, 47, 100, 105, 118, 62] := by decide +kernel
@[simp] theorem skEnd_val_cSl5 : skEnd .val cSl5 = .val := by decide +kernel
@[simp] theorem skel_val_cSl5 : skel .val cSl5 = [] := by decide +kernel
@[simp] theorem metaOf_cSl5 : metaOf cSl5 = [60, 62, 60, 62, 60, 62, 60, 62] := by decide +kernel
theorem noAmp_cSl5 : 38 ∉ cSl5 := by decide +kernel

@[simp] theorem skEnd_text_cFile1 : skEnd .text cFile1 = .text := by decide +kernel
@[simp] theorem skel_text_cFile1 : skel .text cFile1 = [60, 100, 105, 118, 32, 114, 111, 108, 101, 61, 34, 34, 32, 97, 114, 105, 97, 45, 108, 97, 98, 101, 108, 61, 34, 34, 62] := by decide +kernel
@[simp] theorem skEnd_tag_cFile1 : skEnd .tag cFile1 = .text := by decide +kernel
@[simp] theorem skel_tag_cFile1 : skel .tag cFile1 = [10, 32, 32, 32, 32, 60, 100, 105, 118, 32, 114, 111, 108, 101, 61, 34, 34, 32, 97, 114, 105, 97, 45, 108, 97, 98, 101, 108, 61, 34, 34, 62] := by decide +kernel
@[simp] theorem skEnd_val_cFile1 : skEnd .val cFile1 = .val := by decide +kernel
@[simp] theorem skel_val_cFile1 : skel .val cFile1 = [34, 116, 97, 98, 108, 101, 34, 34, 67, 111, 118, 101, 114, 97, 103, 101, 32, 114, 101, 112, 111, 114, 116, 34] := by decide +kernel
@[simp] theorem metaOf_cFile1 : metaOf cFile1 = [60, 34, 34, 34, 34, 62] := by decide +kernel
theorem noAmp_cFile1 : 38 ∉ cFile1 := by decide +kernel

@[simp] theorem skEnd_text_cFile2 : skEnd .text cFile2 = .text := by decide +kernel
@[simp] theorem skel_text_cFile2 : skel .text cFile2 = [] := by decide +kernel
@[simp] theorem skEnd_tag_cFile2 : skEnd .tag cFile2 = .text := by decide +kernel
@[simp] theorem skel_tag_cFile2 : skel .tag cFile2 = [47, 100, 105, 118, 62] := by decide +kernel
@[simp] theorem skEnd_val_cFile2 : skEnd .val cFile2 = .val := by decide +kernel
@[simp] theorem skel_val_cFile2 : skel .val cFile2 = [] := by decide +kernel
@[simp] theorem metaOf_cFile2 : metaOf cFile2 = [62] := by decide +kernel
theorem noAmp_cFile2 : 38 ∉ cFile2 := by decide +kernel

@[simp] theorem skEnd_text_cRow1 : skEnd .text cRow1 = .val := by decide +kernel
@[simp] theorem skel_text_cRow1 : skel .text cRow1 = [60, 100, 105, 118, 10, 32, 32, 32, 32, 32, 32, 32, 32, 32, 32, 32, 32, 32, 32, 32, 32, 99, 108, 97, 115, 115, 61, 34, 34, 10, 32, 32, 32, 32, 32, 32, 32, 32, 32, 32, 32, 32, 32, 32, 32, 32, 105, 100, 61, 34] := by decide +kernel
@[simp] theorem skEnd_tag_cRow1 : skEnd .tag cRow1 = .val := by decide +kernel
@[simp] theorem skel_tag_cRow1 : skel .tag cRow1 = [100, 105, 118, 32, 99, 108, 97, 115, 115, 61, 34, 34, 32, 114, 111, 108, 101, 61, 34, 34, 62, 60, 100, 105, 118, 10, 32, 32, 32, 32, 32, 32, 32, 32, 32, 32, 32, 32, 32, 32, 32, 32, 99, 108, 97, 115, 115, 61, 34, 34, 10, 32, 32, 32, 32, 32, 32, 32, 32, 32, 32, 32, 32, 32, 32, 32, 32, 105, 100, 61, 34] := by decide +kernel
@[simp] theorem skEnd_val_cRow1 : skEnd .val cRow1 = .tag := by decide +kernel
@[simp] theorem skel_val_cRow1 : skel .val cRow1 = [34, 99, 111, 108, 117, 109, 110, 115, 32, 112, 45, 48, 32, 109, 45, 48, 34, 34, 114, 111, 119, 34, 34, 99, 111, 108, 117, 109, 110, 32, 105, 115, 45, 49, 32, 105, 115, 45, 110, 97, 114, 114, 111, 119, 32, 112, 45, 48, 32, 104, 97, 115, 45, 116, 101, 120, 116, 45, 99, 101, 110, 116, 101, 114, 101, 100, 34, 34] := by decide +kernel
@[simp] theorem metaOf_cRow1 : metaOf cRow1 = [34, 34, 34, 34, 62, 60, 34, 34, 34] := by decide +kernel
theorem noAmp_cRow1 : 38 ∉ cRow1 := by decide +kernel

@[simp] theorem skEnd_text_cRow2 : skEnd .text cRow2 = .val := by decide +kernel
@[simp] theorem skel_text_cRow2 : skel .text cRow2 = [60, 97, 32, 104, 114, 101, 102, 61, 34] := by decide +kernel
@[simp] theorem skEnd_tag_cRow2 : skEnd .tag cRow2 = .val := by decide +kernel
@[simp] theorem skel_tag_cRow2 : skel .tag cRow2 = [10, 32, 32, 32, 32, 32, 32, 32, 32, 32, 32, 32, 32, 32, 32, 32, 32, 114, 111, 108, 101, 61, 34, 34, 62, 60, 97, 32, 104, 114, 101, 102, 61, 34] := by decide +kernel
@[simp] theorem skEnd_val_cRow2 : skEnd .val cRow2 = .tag := by decide +kernel
@[simp] theorem skel_val_cRow2 : skel .val cRow2 = [34, 99, 101, 108, 108, 34, 34, 35] := by decide +kernel
@[simp] theorem metaOf_cRow2 : metaOf cRow2 = [34, 34, 62, 60, 34] := by decide +kernel
theorem noAmp_cRow2 : 38 ∉ cRow2 := by decide +kernel

@[simp] theorem skEnd_text_cRow3 : skEnd .text cRow3 = .text := by decide +kernel
@[simp] theorem skel_text_cRow3 : skel .text cRow3 = [] := by decide +kernel
@[simp] theorem skEnd_tag_cRow3 : skEnd .tag cRow3 = .text := by decide +kernel
@[simp] theorem skel_tag_cRow3 : skel .tag cRow3 = [62] := by decide +kernel
@[simp] theorem skEnd_val_cRow3 : skEnd .val cRow3 = .val := by decide +kernel
@[simp] theorem skel_val_cRow3 : skel .val cRow3 = [] := by decide +kernel
@[simp] theorem metaOf_cRow3 : metaOf cRow3 = [62] := by decide +kernel
theorem noAmp_cRow3 : 38 ∉ cRow3 := by decide +kernel

@[simp] theorem skEnd_text_cRow4 : skEnd .text cRow4 = .val := by decide +kernel
@[simp] theorem skel_text_cRow4 : skel .text cRow4 = [60, 47, 100, 105, 118, 62, 60, 100, 105, 118, 10, 32, 32, 32, 32, 32, 32, 32, 32, 32, 32, 32, 32, 32, 32, 32, 32, 99, 108, 97, 115, 115, 61, 34] := by decide +kernel
@[simp] theorem skEnd_tag_cRow4 : skEnd .tag cRow4 = .val := by decide +kernel
@[simp] theorem skel_tag_cRow4 : skel .tag cRow4 = [47, 97, 62, 60, 47, 100, 105, 118, 62, 60, 100, 105, 118, 10, 32, 32, 32, 32, 32, 32, 32, 32, 32, 32, 32, 32, 32, 32, 32, 32, 99, 108, 97, 115, 115, 61, 34] := by decide +kernel
@[simp] theorem skEnd_val_cRow4 : skEnd .val cRow4 = .tag := by decide +kernel
@[simp] theorem skel_val_cRow4 : skel .val cRow4 = [34, 99, 111, 108, 117, 109, 110, 32, 105, 115, 45, 49, 32, 105, 115, 45, 110, 97, 114, 114, 111, 119, 32, 112, 45, 48, 32, 104, 97, 115, 45, 116, 101, 120, 116, 45, 99, 101, 110, 116, 101, 114, 101, 100, 32, 104, 97, 115, 45, 116, 101, 120, 116, 45] := by decide +kernel
@[simp] theorem metaOf_cRow4 : metaOf cRow4 = [62, 60, 62, 60, 34] := by decide +kernel
theorem noAmp_cRow4 : 38 ∉ cRow4 := by decide +kernel

@[simp] theorem skEnd_text_cRow5 : skEnd .text cRow5 = .text := by decide +kernel
@[simp] theorem skel_text_cRow5 : skel .text cRow5 = [] := by decide +kernel
@[simp] theorem skEnd_tag_cRow5 : skEnd .tag cRow5 = .tag := by decide +kernel
@[simp] theorem skel_tag_cRow5 : skel .tag cRow5 = [104, 97, 115, 45, 98, 97, 99, 107, 103, 114, 111, 117, 110, 100, 45] := by decide +kernel
@[simp] theorem skEnd_val_cRow5 : skEnd .val cRow5 = .val := by decide +kernel
@[simp] theorem skel_val_cRow5 : skel .val cRow5 = [] := by decide +kernel
@[simp] theorem metaOf_cRow5 : metaOf cRow5 = [] := by decide +kernel
theorem noAmp_cRow5 : 38 ∉ cRow5 := by decide +kernel

@[simp] theorem skEnd_text_cRow6 : skEnd .text cRow6 = .text := by decide +kernel
@[simp] theorem skel_text_cRow6 : skel .text cRow6 = [] := by decide +kernel
@[simp] theorem skEnd_tag_cRow6 : skEnd .tag cRow6 = .val := by decide +kernel
@[simp] theorem skel_tag_cRow6 : skel .tag cRow6 = [10, 32, 32, 32, 32, 32, 32, 32, 32, 32, 32, 32, 32, 32, 32, 32, 32, 114, 111, 108, 101, 61, 34, 34, 32, 97, 114, 105, 97, 45, 108, 97, 98, 101, 108, 61, 34] := by decide +kernel
@[simp] theorem skEnd_val_cRow6 : skEnd .val cRow6 = .tag := by decide +kernel
@[simp] theorem skel_val_cRow6 : skel .val cRow6 = [34, 99, 101, 108, 108, 34, 34] := by decide +kernel
@[simp] theorem metaOf_cRow6 : metaOf cRow6 = [34, 34, 34] := by decide +kernel
theorem noAmp_cRow6 : 38 ∉ cRow6 := by decide +kernel

@[simp] theorem skEnd_text_cRow7 : skEnd .text cRow7 = .text := by decide +kernel
@[simp] theorem skel_text_cRow7 : skel .text cRow7 = [] := by decide +kernel
@[simp] theorem skEnd_tag_cRow7 : skEnd .tag cRow7 = .text := by decide +kernel
@[simp] theorem skel_tag_cRow7 : skel .tag cRow7 = [62] := by decide +kernel
@[simp] theorem skEnd_val_cRow7 : skEnd .val cRow7 = .val := by decide +kernel
@[simp] theorem skel_val_cRow7 : skel .val cRow7 = [] := by decide +kernel
@[simp] theorem metaOf_cRow7 : metaOf cRow7 = [62] := by decide +kernel
theorem noAmp_cRow7 : 38 ∉ cRow7 := by decide +kernel

@[simp] theorem skEnd_text_cRow8 : skEnd .text cRow8 = .val := by decide +kernel
@[simp] theorem skel_text_cRow8 : skel .text cRow8 = [60, 47, 100, 105, 118, 62, 60, 100, 105, 118, 32, 99, 108, 97, 115, 115, 61, 34] := by decide +kernel
@[simp] theorem skEnd_tag_cRow8 : skEnd .tag cRow8 = .val := by decide +kernel
@[simp] theorem skel_tag_cRow8 : skel .tag cRow8 = [32, 32, 32, 32, 32, 32, 32, 32, 32, 32, 32, 32, 60, 47, 100, 105, 118, 62, 60, 100, 105, 118, 32, 99, 108, 97, 115, 115, 61, 34] := by decide +kernel
@[simp] theorem skEnd_val_cRow8 : skEnd .val cRow8 = .tag := by decide +kernel
@[simp] theorem skel_val_cRow8 : skel .val cRow8 = [34, 99, 111, 108, 117, 109, 110, 32, 104, 97, 115, 45, 98, 97, 99, 107, 103, 114, 111, 117, 110, 100, 45] := by decide +kernel
@[simp] theorem metaOf_cRow8 : metaOf cRow8 = [60, 62, 60, 34] := by decide +kernel
theorem noAmp_cRow8 : 38 ∉ cRow8 := by decide +kernel

@[simp] theorem skEnd_text_cRow9 : skEnd .text cRow9 = .val := by decide +kernel
@[simp] theorem skel_text_cRow9 : skel .text cRow9 = [60, 112, 114, 101, 32, 99, 108, 97, 115, 115, 61, 34] := by decide +kernel
@[simp] theorem skEnd_tag_cRow9 : skEnd .tag cRow9 = .tag := by decide +kernel
@[simp] theorem skel_tag_cRow9 : skel .tag cRow9 = [112, 45, 48, 34, 34, 99, 101, 108, 108, 34, 34, 104, 97, 115, 45, 98, 97, 99, 107, 103, 114, 111, 117, 110, 100, 45] := by decide +kernel
@[simp] theorem skEnd_val_cRow9 : skEnd .val cRow9 = .val := by decide +kernel
@[simp] theorem skel_val_cRow9 : skel .val cRow9 = [34, 10, 32, 32, 32, 32, 32, 32, 32, 32, 32, 32, 32, 32, 32, 32, 32, 32, 32, 114, 111, 108, 101, 61, 34, 34, 62, 60, 112, 114, 101, 32, 99, 108, 97, 115, 115, 61, 34] := by decide +kernel
@[simp] theorem metaOf_cRow9 : metaOf cRow9 = [34, 34, 34, 62, 60, 34] := by decide +kernel
theorem noAmp_cRow9 : 38 ∉ cRow9 := by decide +kernel

@[simp] theorem skEnd_text_cRow10 : skEnd .text cRow10 = .text := by decide +kernel
@[simp] theorem skel_text_cRow10 : skel .text cRow10 = [] := by decide +kernel
@[simp] theorem skEnd_tag_cRow10 : skEnd .tag cRow10 = .val := by decide +kernel
@[simp] theorem skel_tag_cRow10 : skel .tag cRow10 = [112, 121, 45, 48, 32, 112, 120, 45, 50, 34] := by decide +kernel
@[simp] theorem skEnd_val_cRow10 : skEnd .val cRow10 = .text := by decide +kernel
@[simp] theorem skel_val_cRow10 : skel .val cRow10 = [34, 62] := by decide +kernel
@[simp] theorem metaOf_cRow10 : metaOf cRow10 = [34, 62] := by decide +kernel
theorem noAmp_cRow10 : 38 ∉ cRow10 := by decide +kernel

@[simp] theorem skEnd_text_cRow11 : skEnd .text cRow11 = .text := by decide +kernel
@[simp] theorem skel_text_cRow11 : skel .text cRow11 = [60, 47, 100, 105, 118, 62, 60, 47, 100, 105, 118, 62] := by decide +kernel
@[simp] theorem skEnd_tag_cRow11 : skEnd .tag cRow11 = .text := by decide +kernel
@[simp] theorem skel_tag_cRow11 : skel .tag cRow11 = [47, 112, 114, 101, 62, 60, 47, 100, 105, 118, 62, 60, 47, 100, 105, 118, 62] := by decide +kernel
@[simp] theorem skEnd_val_cRow11 : skEnd .val cRow11 = .val := by decide +kernel
@[simp] theorem skel_val_cRow11 : skel .val cRow11 = [] := by decide +kernel
@[simp] theorem metaOf_cRow11 : metaOf cRow11 = [62, 60, 62, 60, 62] := by decide +kernel
theorem noAmp_cRow11 : 38 ∉ cRow11 := by decide +kernel

@[simp] theorem skEnd_text_cIdx1 : skEnd .text cIdx1 = .text := by decide +kernel
@[simp] theorem skel_text_cIdx1 : skel .text cIdx1 = [60, 116, 97, 98, 108, 101, 32, 99, 108, 97, 115, 115, 61, 34, 34, 62, 60, 116, 104, 101, 97, 100, 62, 60, 116, 114, 62, 60, 116, 104, 62] := by decide +kernel
@[simp] theorem skEnd_tag_cIdx1 : skEnd .tag cIdx1 = .text := by decide +kernel
@[simp] theorem skel_tag_cIdx1 : skel .tag cIdx1 = [10, 32, 32, 32, 32, 60, 116, 97, 98, 108, 101, 32, 99, 108, 97, 115, 115, 61, 34, 34, 62, 60, 116, 104, 101, 97, 100, 62, 60, 116, 114, 62, 60, 116, 104, 62] := by decide +kernel
@[simp] theorem skEnd_val_cIdx1 : skEnd .val cIdx1 = .val := by decide +kernel
@[simp] theorem skel_val_cIdx1 : skel .val cIdx1 = [34, 116, 97, 98, 108, 101, 32, 105, 115, 45, 102, 117, 108, 108, 119, 105, 100, 116, 104, 34] := by decide +kernel
@[simp] theorem metaOf_cIdx1 : metaOf cIdx1 = [60, 34, 34, 62, 60, 62, 60, 62, 60, 62] := by decide +kernel
theorem noAmp_cIdx1 : 38 ∉ cIdx1 := by decide +kernel

@[simp] theorem skEnd_text_cIdx2 : skEnd .text cIdx2 = .text := by decide +kernel
@[simp] theorem skel_text_cIdx2 : skel .text cIdx2 = [60, 116, 104, 32, 99, 108, 97, 115, 115, 61, 34, 34, 32, 99, 111, 108, 115, 112, 97, 110, 61, 34, 34, 62, 60, 47, 116, 104, 62, 60, 116, 104, 32, 99, 108, 97, 115, 115, 61, 34, 34, 32, 99, 111, 108, 115, 112, 97, 110, 61, 34, 34, 62, 60, 47, 116, 104, 62] := by decide +kernel
@[simp] theorem skEnd_tag_cIdx2 : skEnd .tag cIdx2 = .text := by decide +kernel
@[simp] theorem skel_tag_cIdx2 : skel .tag cIdx2 = [47, 116, 104, 62, 60, 116, 104, 32, 99, 108, 97, 115, 115, 61, 34, 34, 32, 99, 111, 108, 115, 112, 97, 110, 61, 34, 34, 62, 60, 47, 116, 104, 62, 60, 116, 104, 32, 99, 108, 97, 115, 115, 61, 34, 34, 32, 99, 111, 108, 115, 112, 97, 110, 61, 34, 34, 62, 60, 47, 116, 104, 62] := by decide +kernel
@[simp] theorem skEnd_val_cIdx2 : skEnd .val cIdx2 = .val := by decide +kernel
@[simp] theorem skel_val_cIdx2 : skel .val cIdx2 = [34, 104, 97, 115, 45, 116, 101, 120, 116, 45, 99, 101, 110, 116, 101, 114, 101, 100, 34, 34, 51, 34, 34, 104, 97, 115, 45, 116, 101, 120, 116, 45, 99, 101, 110, 116, 101, 114, 101, 100, 34, 34, 50, 34] := by decide +kernel
@[simp] theorem metaOf_cIdx2 : metaOf cIdx2 = [62, 60, 34, 34, 34, 34, 62, 60, 62, 60, 34, 34, 34, 34, 62, 60, 62] := by decide +kernel
theorem noAmp_cIdx2 : 38 ∉ cIdx2 := by decide +kernel

@[simp] theorem skEnd_text_cIdx3 : skEnd .text cIdx3 = .text := by decide +kernel
@[simp] theorem skel_text_cIdx3 : skel .text cIdx3 = [60, 116, 104, 32, 99, 108, 97, 115, 115, 61, 34, 34, 32, 99, 111, 108, 115, 112, 97, 110, 61, 34, 34, 62, 60, 47, 116, 104, 62] := by decide +kernel
@[simp] theorem skEnd_tag_cIdx3 : skEnd .tag cIdx3 = .text := by decide +kernel
@[simp] theorem skel_tag_cIdx3 : skel .tag cIdx3 = [10, 32, 32, 32, 32, 32, 32, 32, 32, 32, 32, 32, 32, 32, 32, 32, 32, 32, 32, 32, 32, 60, 116, 104, 32, 99, 108, 97, 115, 115, 61, 34, 34, 32, 99, 111, 108, 115, 112, 97, 110, 61, 34, 34, 62, 60, 47, 116, 104, 62] := by decide +kernel
@[simp] theorem skEnd_val_cIdx3 : skEnd .val cIdx3 = .val := by decide +kernel
@[simp] theorem skel_val_cIdx3 : skel .val cIdx3 = [34, 104, 97, 115, 45, 116, 101, 120, 116, 45, 99, 101, 110, 116, 101, 114, 101, 100, 34, 34, 50, 34] := by decide +kernel
@[simp] theorem metaOf_cIdx3 : metaOf cIdx3 = [60, 34, 34, 34, 34, 62, 60, 62] := by decide +kernel
theorem noAmp_cIdx3 : 38 ∉ cIdx3 := by decide +kernel

@[simp] theorem skEnd_text_cIdx4 : skEnd .text cIdx4 = .text := by decide +kernel
@[simp] theorem skel_text_cIdx4 : skel .text cIdx4 = [60, 47, 116, 114, 62, 60, 47, 116, 104, 101, 97, 100, 62, 60, 116, 98, 111, 100, 121, 62] := by decide +kernel
@[simp] theorem skEnd_tag_cIdx4 : skEnd .tag cIdx4 = .text := by decide +kernel
@[simp] theorem skel_tag_cIdx4 : skel .tag cIdx4 = [10, 32, 32, 32, 32, 32, 32, 32, 32, 32, 32, 32, 32, 60, 47, 116, 114, 62, 60, 47, 116, 104, 101, 97, 100, 62, 60, 116, 98, 111, 100, 121, 62] := by decide +kernel
@[simp] theorem skEnd_val_cIdx4 : skEnd .val cIdx4 = .val := by decide +kernel
@[simp] theorem skel_val_cIdx4 : skel .val cIdx4 = [] := by decide +kernel
@[simp] theorem metaOf_cIdx4 : metaOf cIdx4 = [60, 62, 60, 62, 60, 62] := by decide +kernel
theorem noAmp_cIdx4 : 38 ∉ cIdx4 := by decide +kernel

@[simp] theorem skEnd_text_cIdxPre : skEnd .text cIdxPre = .val := by decide +kernel
@[simp] theorem skel_text_cIdxPre : skel .text cIdxPre = [60, 116, 114, 62, 60, 116, 104, 62, 60, 97, 32, 104, 114, 101, 102, 61, 34] := by decide +kernel
@[simp] theorem skEnd_tag_cIdxPre : skEnd .tag cIdxPre = .val := by decide +kernel
@[simp] theorem skel_tag_cIdxPre : skel .tag cIdxPre = [10, 32, 32, 32, 32, 32, 32, 32, 32, 32, 32, 32, 32, 32, 32, 32, 32, 32, 32, 32, 32, 10, 32, 32, 32, 32, 60, 116, 114, 62, 60, 116, 104, 62, 60, 97, 32, 104, 114, 101, 102, 61, 34] := by decide +kernel
@[simp] theorem skEnd_val_cIdxPre : skEnd .val cIdxPre = .tag := by decide +kernel
@[simp] theorem skel_val_cIdxPre : skel .val cIdxPre = [34] := by decide +kernel
@[simp] theorem metaOf_cIdxPre : metaOf cIdxPre = [60, 62, 60, 62, 60, 34] := by decide +kernel
theorem noAmp_cIdxPre : 38 ∉ cIdxPre := by decide +kernel

@[simp] theorem skEnd_text_cSt1 : skEnd .text cSt1 = .text := by decide +kernel
@[simp] theorem skel_text_cSt1 : skel .text cSt1 = [] := by decide +kernel
@[simp] theorem skEnd_tag_cSt1 : skEnd .tag cSt1 = .text := by decide +kernel
@[simp] theorem skel_tag_cSt1 : skel .tag cSt1 = [62] := by decide +kernel
@[simp] theorem skEnd_val_cSt1 : skEnd .val cSt1 = .val := by decide +kernel
@[simp] theorem skel_val_cSt1 : skel .val cSt1 = [] := by decide +kernel
@[simp] theorem metaOf_cSt1 : metaOf cSt1 = [62] := by decide +kernel
theorem noAmp_cSt1 : 38 ∉ cSt1 := by decide +kernel

@[simp] theorem skEnd_text_cSt2 : skEnd .text cSt2 = .val := by decide +kernel
@[simp] theorem skel_text_cSt2 : skel .text cSt2 = [60, 47, 116, 104, 62, 60, 33, 45, 45, 32, 45, 45, 62, 60, 116, 100, 32, 99, 108, 97, 115, 115, 61, 34, 34, 62, 60, 112, 114, 111, 103, 114, 101, 115, 115, 10, 32, 32, 32, 32, 32, 32, 32, 32, 32, 32, 32, 32, 32, 32, 32, 32, 99, 108, 97, 115, 115, 61, 34] := by decide +kernel
@[simp] theorem skEnd_tag_cSt2 : skEnd .tag cSt2 = .val := by decide +kernel
@[simp] theorem skel_tag_cSt2 : skel .tag cSt2 = [47, 97, 62, 60, 47, 116, 104, 62, 60, 33, 45, 45, 32, 45, 45, 62, 60, 116, 100, 32, 99, 108, 97, 115, 115, 61, 34, 34, 62, 60, 112, 114, 111, 103, 114, 101, 115, 115, 10, 32, 32, 32, 32, 32, 32, 32, 32, 32, 32, 32, 32, 32, 32, 32, 32, 99, 108, 97, 115, 115, 61, 34] := by decide +kernel
@[simp] theorem skEnd_val_cSt2 : skEnd .val cSt2 = .tag := by decide +kernel
@[simp] theorem skel_val_cSt2 : skel .val cSt2 = [34, 112, 45, 50, 34, 34, 112, 114, 111, 103, 114, 101, 115, 115, 32, 105, 115, 45] := by decide +kernel
@[simp] theorem metaOf_cSt2 : metaOf cSt2 = [62, 60, 62, 60, 62, 60, 34, 34, 62, 60, 34] := by decide +kernel
theorem noAmp_cSt2 : 38 ∉ cSt2 := by decide +kernel

@[simp] theorem skEnd_text_cSt3 : skEnd .text cSt3 = .text := by decide +kernel
@[simp] theorem skel_text_cSt3 : skel .text cSt3 = [] := by decide +kernel
@[simp] theorem skEnd_tag_cSt3 : skEnd .tag cSt3 = .tag := by decide +kernel
@[simp] theorem skel_tag_cSt3 : skel .tag cSt3 = [105, 115, 45, 108, 97, 114, 103, 101, 34, 34] := by decide +kernel
@[simp] theorem skEnd_val_cSt3 : skEnd .val cSt3 = .val := by decide +kernel
@[simp] theorem skel_val_cSt3 : skel .val cSt3 = [34, 10, 32, 32, 32, 32, 32, 32, 32, 32, 32, 32, 32, 32, 32, 32, 32, 32, 118, 97, 108, 117, 101, 61, 34] := by decide +kernel
@[simp] theorem metaOf_cSt3 : metaOf cSt3 = [34, 34] := by decide +kernel
theorem noAmp_cSt3 : 38 ∉ cSt3 := by decide +kernel

@[simp] theorem skEnd_text_cSt4 : skEnd .text cSt4 = .text := by decide +kernel
@[simp] theorem skel_text_cSt4 : skel .text cSt4 = [] := by decide +kernel
@[simp] theorem skEnd_tag_cSt4 : skEnd .tag cSt4 = .text := by decide +kernel
@[simp] theorem skel_tag_cSt4 : skel .tag cSt4 = [10, 32, 32, 32, 32, 32, 32, 32, 32, 32, 32, 32, 32, 32, 32, 32, 32, 109, 97, 120, 61, 34, 34, 62] := by decide +kernel
@[simp] theorem skEnd_val_cSt4 : skEnd .val cSt4 = .val := by decide +kernel
@[simp] theorem skel_val_cSt4 : skel .val cSt4 = [34, 49, 48, 48, 34] := by decide +kernel
@[simp] theorem metaOf_cSt4 : metaOf cSt4 = [34, 34, 62] := by decide +kernel
theorem noAmp_cSt4 : 38 ∉ cSt4 := by decide +kernel

@[simp] theorem skEnd_text_cSt5 : skEnd .text cSt5 = .val := by decide +kernel
@[simp] theorem skel_text_cSt5 : skel .text cSt5 = [60, 47, 112, 114, 111, 103, 114, 101, 115, 115, 62, 60, 47, 116, 100, 62, 60, 116, 100, 32, 99, 108, 97, 115, 115, 61, 34] := by decide +kernel
@[simp] theorem skEnd_tag_cSt5 : skEnd .tag cSt5 = .val := by decide +kernel
@[simp] theorem skel_tag_cSt5 : skel .tag cSt5 = [10, 32, 32, 32, 32, 32, 32, 32, 32, 32, 32, 32, 32, 60, 47, 112, 114, 111, 103, 114, 101, 115, 115, 62, 60, 47, 116, 100, 62, 60, 116, 100, 32, 99, 108, 97, 115, 115, 61, 34] := by decide +kernel
@[simp] theorem skEnd_val_cSt5 : skEnd .val cSt5 = .tag := by decide +kernel
@[simp] theorem skel_val_cSt5 : skel .val cSt5 = [34, 104, 97, 115, 45, 116, 101, 120, 116, 45, 99, 101, 110, 116, 101, 114, 101, 100, 32, 104, 97, 115, 45, 98, 97, 99, 107, 103, 114, 111, 117, 110, 100, 45] := by decide +kernel
@[simp] theorem metaOf_cSt5 : metaOf cSt5 = [60, 62, 60, 62, 60, 34] := by decide +kernel
theorem noAmp_cSt5 : 38 ∉ cSt5 := by decide +kernel

@[simp] theorem skEnd_text_cSt6 : skEnd .text cSt6 = .text := by decide +kernel
@[simp] theorem skel_text_cSt6 : skel .text cSt6 = [] := by decide +kernel
@[simp] theorem skEnd_tag_cSt6 : skEnd .tag cSt6 = .val := by decide +kernel
@[simp] theorem skel_tag_cSt6 : skel .tag cSt6 = [112, 45, 50, 34] := by decide +kernel
@[simp] theorem skEnd_val_cSt6 : skEnd .val cSt6 = .text := by decide +kernel
@[simp] theorem skel_val_cSt6 : skel .val cSt6 = [34, 62] := by decide +kernel
@[simp] theorem metaOf_cSt6 : metaOf cSt6 = [34, 62] := by decide +kernel
theorem noAmp_cSt6 : 38 ∉ cSt6 := by decide +kernel

@[simp] theorem skEnd_text_cSt7 : skEnd .text cSt7 = .val := by decide +kernel
@[simp] theorem skel_text_cSt7 : skel .text cSt7 = [60, 47, 116, 100, 62, 60, 116, 100, 32, 99, 108, 97, 115, 115, 61, 34] := by decide +kernel
@[simp] theorem skEnd_tag_cSt7 : skEnd .tag cSt7 = .val := by decide +kernel
@[simp] theorem skel_tag_cSt7 : skel .tag cSt7 = [10, 32, 32, 32, 32, 32, 32, 32, 32, 60, 47, 116, 100, 62, 60, 116, 100, 32, 99, 108, 97, 115, 115, 61, 34] := by decide +kernel
@[simp] theorem skEnd_val_cSt7 : skEnd .val cSt7 = .tag := by decide +kernel
@[simp] theorem skel_val_cSt7 : skel .val cSt7 = [34, 104, 97, 115, 45, 116, 101, 120, 116, 45, 99, 101, 110, 116, 101, 114, 101, 100, 32, 104, 97, 115, 45, 98, 97, 99, 107, 103, 114, 111, 117, 110, 100, 45] := by decide +kernel
@[simp] theorem metaOf_cSt7 : metaOf cSt7 = [60, 62, 60, 34] := by decide +kernel
theorem noAmp_cSt7 : 38 ∉ cSt7 := by decide +kernel

@[simp] theorem skEnd_text_cSt8 : skEnd .text cSt8 = .val := by decide +kernel
@[simp] theorem skel_text_cSt8 : skel .text cSt8 = [60, 47, 116, 100, 62, 60, 33, 45, 45, 32, 45, 45, 62, 60, 116, 100, 32, 99, 108, 97, 115, 115, 61, 34] := by decide +kernel
@[simp] theorem skEnd_tag_cSt8 : skEnd .tag cSt8 = .val := by decide +kernel
@[simp] theorem skel_tag_cSt8 : skel .tag cSt8 = [32, 32, 32, 32, 32, 32, 32, 32, 60, 47, 116, 100, 62, 60, 33, 45, 45, 32, 45, 45, 62, 60, 116, 100, 32, 99, 108, 97, 115, 115, 61, 34] := by decide +kernel
@[simp] theorem skEnd_val_cSt8 : skEnd .val cSt8 = .tag := by decide +kernel
@[simp] theorem skel_val_cSt8 : skel .val cSt8 = [34, 104, 97, 115, 45, 116, 101, 120, 116, 45, 99, 101, 110, 116, 101, 114, 101, 100, 32, 104, 97, 115, 45, 98, 97, 99, 107, 103, 114, 111, 117, 110, 100, 45] := by decide +kernel
@[simp] theorem metaOf_cSt8 : metaOf cSt8 = [60, 62, 60, 62, 60, 34] := by decide +kernel
theorem noAmp_cSt8 : 38 ∉ cSt8 := by decide +kernel

@[simp] theorem skEnd_text_cSt9 : skEnd .text cSt9 = .text := by decide +kernel
@[simp] theorem skel_text_cSt9 : skel .text cSt9 = [] := by decide +kernel
@[simp] theorem skEnd_tag_cSt9 : skEnd .tag cSt9 = .val := by decide +kernel
@[simp] theorem skel_tag_cSt9 : skel .tag cSt9 = [112, 45, 50, 34] := by decide +kernel
@[simp] theorem skEnd_val_cSt9 : skEnd .val cSt9 = .text := by decide +kernel
@[simp] theorem skel_val_cSt9 : skel .val cSt9 = [34, 62] := by decide +kernel
@[simp] theorem metaOf_cSt9 : metaOf cSt9 = [34, 62] := by decide +kernel
theorem noAmp_cSt9 : 38 ∉ cSt9 := by decide +kernel

@[simp] theorem skEnd_text_cSt10 : skEnd .text cSt10 = .val := by decide +kernel
@[simp] theorem skel_text_cSt10 : skel .text cSt10 = [60, 47, 116, 100, 62, 60, 116, 100, 32, 99, 108, 97, 115, 115, 61, 34] := by decide +kernel
@[simp] theorem skEnd_tag_cSt10 : skEnd .tag cSt10 = .val := by decide +kernel
@[simp] theorem skel_tag_cSt10 : skel .tag cSt10 = [60, 47, 116, 100, 62, 60, 116, 100, 32, 99, 108, 97, 115, 115, 61, 34] := by decide +kernel
@[simp] theorem skEnd_val_cSt10 : skEnd .val cSt10 = .tag := by decide +kernel
@[simp] theorem skel_val_cSt10 : skel .val cSt10 = [34, 104, 97, 115, 45, 116, 101, 120, 116, 45, 99, 101, 110, 116, 101, 114, 101, 100, 32, 104, 97, 115, 45, 98, 97, 99, 107, 103, 114, 111, 117, 110, 100, 45] := by decide +kernel
@[simp] theorem metaOf_cSt10 : metaOf cSt10 = [60, 62, 60, 34] := by decide +kernel
theorem noAmp_cSt10 : 38 ∉ cSt10 := by decide +kernel

@[simp] theorem skEnd_text_cSt11 : skEnd .text cSt11 = .text := by decide +kernel
@[simp] theorem skel_text_cSt11 : skel .text cSt11 = [60, 47, 116, 100, 62, 60, 33, 45, 45, 32, 45, 45, 62] := by decide +kernel
@[simp] theorem skEnd_tag_cSt11 : skEnd .tag cSt11 = .text := by decide +kernel
@[simp] theorem skel_tag_cSt11 : skel .tag cSt11 = [60, 47, 116, 100, 62, 60, 33, 45, 45, 32, 45, 45, 62] := by decide +kernel
@[simp] theorem skEnd_val_cSt11 : skEnd .val cSt11 = .val := by decide +kernel
@[simp] theorem skel_val_cSt11 : skel .val cSt11 = [] := by decide +kernel
@[simp] theorem metaOf_cSt11 : metaOf cSt11 = [60, 62, 60, 62] := by decide +kernel
theorem noAmp_cSt11 : 38 ∉ cSt11 := by decide +kernel

@[simp] theorem skEnd_text_cSt12 : skEnd .text cSt12 = .val := by decide +kernel
@[simp] theorem skel_text_cSt12 : skel .text cSt12 = [60, 116, 100, 32, 99, 108, 97, 115, 115, 61, 34] := by decide +kernel
@[simp] theorem skEnd_tag_cSt12 : skEnd .tag cSt12 = .val := by decide +kernel
@[simp] theorem skel_tag_cSt12 : skel .tag cSt12 = [10, 32, 32, 32, 32, 32, 32, 32, 32, 32, 32, 32, 32, 60, 116, 100, 32, 99, 108, 97, 115, 115, 61, 34] := by decide +kernel
@[simp] theorem skEnd_val_cSt12 : skEnd .val cSt12 = .tag := by decide +kernel
@[simp] theorem skel_val_cSt12 : skel .val cSt12 = [34, 104, 97, 115, 45, 116, 101, 120, 116, 45, 99, 101, 110, 116, 101, 114, 101, 100, 32, 104, 97, 115, 45, 98, 97, 99, 107, 103, 114, 111, 117, 110, 100, 45] := by decide +kernel
@[simp] theorem metaOf_cSt12 : metaOf cSt12 = [60, 34] := by decide +kernel
theorem noAmp_cSt12 : 38 ∉ cSt12 := by decide +kernel

@[simp] theorem skEnd_text_cSt13 : skEnd .text cSt13 = .val := by decide +kernel
@[simp] theorem skel_text_cSt13 : skel .text cSt13 = [60, 47, 116, 100, 62, 60, 116, 100, 32, 99, 108, 97, 115, 115, 61, 34] := by decide +kernel
@[simp] theorem skEnd_tag_cSt13 : skEnd .tag cSt13 = .val := by decide +kernel
@[simp] theorem skel_tag_cSt13 : skel .tag cSt13 = [60, 47, 116, 100, 62, 60, 116, 100, 32, 99, 108, 97, 115, 115, 61, 34] := by decide +kernel
@[simp] theorem skEnd_val_cSt13 : skEnd .val cSt13 = .tag := by decide +kernel
@[simp] theorem skel_val_cSt13 : skel .val cSt13 = [34, 104, 97, 115, 45, 116, 101, 120, 116, 45, 99, 101, 110, 116, 101, 114, 101, 100, 32, 104, 97, 115, 45, 98, 97, 99, 107, 103, 114, 111, 117, 110, 100, 45] := by decide +kernel
@[simp] theorem metaOf_cSt13 : metaOf cSt13 = [60, 62, 60, 34] := by decide +kernel
theorem noAmp_cSt13 : 38 ∉ cSt13 := by decide +kernel

@[simp] theorem skEnd_text_cSt14 : skEnd .text cSt14 = .text := by decide +kernel
@[simp] theorem skel_text_cSt14 : skel .text cSt14 = [] := by decide +kernel
@[simp] theorem skEnd_tag_cSt14 : skEnd .tag cSt14 = .text := by decide +kernel
@[simp] theorem skel_tag_cSt14 : skel .tag cSt14 = [47, 116, 100, 62] := by decide +kernel
@[simp] theorem skEnd_val_cSt14 : skEnd .val cSt14 = .val := by decide +kernel
@[simp] theorem skel_val_cSt14 : skel .val cSt14 = [] := by decide +kernel
@[simp] theorem metaOf_cSt14 : metaOf cSt14 = [62] := by decide +kernel
theorem noAmp_cSt14 : 38 ∉ cSt14 := by decide +kernel

@[simp] theorem skEnd_text_cSt15 : skEnd .text cSt15 = .text := by decide +kernel
@[simp] theorem skel_text_cSt15 : skel .text cSt15 = [60, 47, 116, 114, 62] := by decide +kernel
@[simp] theorem skEnd_tag_cSt15 : skEnd .tag cSt15 = .text := by decide +kernel
@[simp] theorem skel_tag_cSt15 : skel .tag cSt15 = [10, 32, 32, 32, 32, 60, 47, 116, 114, 62] := by decide +kernel
@[simp] theorem skEnd_val_cSt15 : skEnd .val cSt15 = .val := by decide +kernel
@[simp] theorem skel_val_cSt15 : skel .val cSt15 = [] := by decide +kernel
@[simp] theorem metaOf_cSt15 : metaOf cSt15 = [60, 62] := by decide +kernel
theorem noAmp_cSt15 : 38 ∉ cSt15 := by decide +kernel

@[simp] theorem skEnd_text_cIdx5 : skEnd .text cIdx5 = .text := by decide +kernel
@[simp] theorem skel_text_cIdx5 : skel .text cIdx5 = [60, 47, 116, 97, 98, 108, 101, 62] := by decide +kernel
@[simp] theorem skEnd_tag_cIdx5 : skEnd .tag cIdx5 = .text := by decide +kernel
@[simp] theorem skel_tag_cIdx5 : skel .tag cIdx5 = [47, 116, 98, 111, 100, 121, 62, 60, 47, 116, 97, 98, 108, 101, 62] := by decide +kernel
@[simp] theorem skEnd_val_cIdx5 : skEnd .val cIdx5 = .val := by decide +kernel
@[simp] theorem skel_val_cIdx5 : skel .val cIdx5 = [] := by decide +kernel
@[simp] theorem metaOf_cIdx5 : metaOf cIdx5 = [62, 60, 62] := by decide +kernel
theorem noAmp_cIdx5 : 38 ∉ cIdx5 := by decide +kernel

@[simp] theorem skEnd_text_wSuccess : skEnd .text wSuccess = .text := by decide +kernel
@[simp] theorem skel_text_wSuccess : skel .text wSuccess = [] := by decide +kernel
@[simp] theorem skEnd_tag_wSuccess : skEnd .tag wSuccess = .tag := by decide +kernel
@[simp] theorem skel_tag_wSuccess : skel .tag wSuccess = [115, 117, 99, 99, 101, 115, 115] := by decide +kernel
@[simp] theorem skEnd_val_wSuccess : skEnd .val wSuccess = .val := by decide +kernel
@[simp] theorem skel_val_wSuccess : skel .val wSuccess = [] := by decide +kernel
@[simp] theorem metaOf_wSuccess : metaOf wSuccess = [] := by decide +kernel
theorem noAmp_wSuccess : 38 ∉ wSuccess := by decide +kernel

@[simp] theorem skEnd_text_wWarning : skEnd .text wWarning = .text := by decide +kernel
@[simp] theorem skel_text_wWarning : skel .text wWarning = [] := by decide +kernel
@[simp] theorem skEnd_tag_wWarning : skEnd .tag wWarning = .tag := by decide +kernel
@[simp] theorem skel_tag_wWarning : skel .tag wWarning = [119, 97, 114, 110, 105, 110, 103] := by decide +kernel
@[simp] theorem skEnd_val_wWarning : skEnd .val wWarning = .val := by decide +kernel
@[simp] theorem skel_val_wWarning : skel .val wWarning = [] := by decide +kernel
@[simp] theorem metaOf_wWarning : metaOf wWarning = [] := by decide +kernel
theorem noAmp_wWarning : 38 ∉ wWarning := by decide +kernel

@[simp] theorem skEnd_text_wDanger : skEnd .text wDanger = .text := by decide +kernel
@[simp] theorem skel_text_wDanger : skel .text wDanger = [] := by decide +kernel
@[simp] theorem skEnd_tag_wDanger : skEnd .tag wDanger = .tag := by decide +kernel
@[simp] theorem skel_tag_wDanger : skel .tag wDanger = [100, 97, 110, 103, 101, 114] := by decide +kernel
@[simp] theorem skEnd_val_wDanger : skEnd .val wDanger = .val := by decide +kernel
@[simp] theorem skel_val_wDanger : skel .val wDanger = [] := by decide +kernel
@[simp] theorem metaOf_wDanger : metaOf wDanger = [] := by decide +kernel
theorem noAmp_wDanger : 38 ∉ wDanger := by decide +kernel

@[simp] theorem skEnd_text_wWhite : skEnd .text wWhite = .text := by decide +kernel
@[simp] theorem skel_text_wWhite : skel .text wWhite = [] := by decide +kernel
@[simp] theorem skEnd_tag_wWhite : skEnd .tag wWhite = .tag := by decide +kernel
@[simp] theorem skel_tag_wWhite : skel .tag wWhite = [119, 104, 105, 116, 101] := by decide +kernel
@[simp] theorem skEnd_val_wWhite : skEnd .val wWhite = .val := by decide +kernel
@[simp] theorem skel_val_wWhite : skel .val wWhite = [] := by decide +kernel
@[simp] theorem metaOf_wWhite : metaOf wWhite = [] := by decide +kernel
theorem noAmp_wWhite : 38 ∉ wWhite := by decide +kernel

@[simp] theorem skEnd_text_wSuccessLight : skEnd .text wSuccessLight = .text := by decide +kernel
@[simp] theorem skel_text_wSuccessLight : skel .text wSuccessLight = [] := by decide +kernel
@[simp] theorem skEnd_tag_wSuccessLight : skEnd .tag wSuccessLight = .tag := by decide +kernel
@[simp] theorem skel_tag_wSuccessLight : skel .tag wSuccessLight = [115, 117, 99, 99, 101, 115, 115, 45, 108, 105, 103, 104, 116] := by decide +kernel
@[simp] theorem skEnd_val_wSuccessLight : skEnd .val wSuccessLight = .val := by decide +kernel
@[simp] theorem skel_val_wSuccessLight : skel .val wSuccessLight = [] := by decide +kernel
@[simp] theorem metaOf_wSuccessLight : metaOf wSuccessLight = [] := by decide +kernel
theorem noAmp_wSuccessLight : 38 ∉ wSuccessLight := by decide +kernel

@[simp] theorem skEnd_text_wDangerLight : skEnd .text wDangerLight = .text := by decide +kernel
@[simp] theorem skel_text_wDangerLight : skel .text wDangerLight = [] := by decide +kernel
@[simp] theorem skEnd_tag_wDangerLight : skEnd .tag wDangerLight = .tag := by decide +kernel
@[simp] theorem skel_tag_wDangerLight : skel .tag wDangerLight = [100, 97, 110, 103, 101, 114, 45, 108, 105, 103, 104, 116] := by decide +kernel
@[simp] theorem skEnd_val_wDangerLight : skEnd .val wDangerLight = .val := by decide +kernel
@[simp] theorem skel_val_wDangerLight : skel .val wDangerLight = [] := by decide +kernel
@[simp] theorem metaOf_wDangerLight : metaOf wDangerLight = [] := by decide +kernel
theorem noAmp_wDangerLight : 38 ∉ wDangerLight := by decide +kernel

@[simp] theorem skEnd_text_wNoCoverage : skEnd .text wNoCoverage = .text := by decide +kernel
@[simp] theorem skel_text_wNoCoverage : skel .text wNoCoverage = [] := by decide +kernel
@[simp] theorem skEnd_tag_wNoCoverage : skEnd .tag wNoCoverage = .tag := by decide +kernel
@[simp] theorem skel_tag_wNoCoverage : skel .tag wNoCoverage = [110, 111, 32, 99, 111, 118, 101, 114, 97, 103, 101] := by decide +kernel
@[simp] theorem skEnd_val_wNoCoverage : skEnd .val wNoCoverage = .val := by decide +kernel
@[simp] theorem skel_val_wNoCoverage : skel .val wNoCoverage = [] := by decide +kernel
@[simp] theorem metaOf_wNoCoverage : metaOf wNoCoverage = [] := by decide +kernel
theorem noAmp_wNoCoverage : 38 ∉ wNoCoverage := by decide +kernel

@[simp] theorem skEnd_text_wZero : skEnd .text wZero = .text := by decide +kernel
@[simp] theorem skel_text_wZero : skel .text wZero = [] := by decide +kernel
@[simp] theorem skEnd_tag_wZero : skEnd .tag wZero = .tag := by decide +kernel
@[simp] theorem skel_tag_wZero : skel .tag wZero = [48] := by decide +kernel
@[simp] theorem skEnd_val_wZero : skEnd .val wZero = .val := by decide +kernel
@[simp] theorem skel_val_wZero : skel .val wZero = [] := by decide +kernel
@[simp] theorem metaOf_wZero : metaOf wZero = [] := by decide +kernel
theorem noAmp_wZero : 38 ∉ wZero := by decide +kernel

@[simp] theorem skEnd_text_wLines : skEnd .text wLines = .text := by decide +kernel
@[simp] theorem skel_text_wLines : skel .text wLines = [] := by decide +kernel
@[simp] theorem skEnd_tag_wLines : skEnd .tag wLines = .tag := by decide +kernel
@[simp] theorem skel_tag_wLines : skel .tag wLines = [76, 105, 110, 101, 115] := by decide +kernel
@[simp] theorem skEnd_val_wLines : skEnd .val wLines = .val := by decide +kernel
@[simp] theorem skel_val_wLines : skel .val wLines = [] := by decide +kernel
@[simp] theorem metaOf_wLines : metaOf wLines = [] := by decide +kernel
theorem noAmp_wLines : 38 ∉ wLines := by decide +kernel

@[simp] theorem skEnd_text_wFunctions : skEnd .text wFunctions = .text := by decide +kernel
@[simp] theorem skel_text_wFunctions : skel .text wFunctions = [] := by decide +kernel
@[simp] theorem skEnd_tag_wFunctions : skEnd .tag wFunctions = .tag := by decide +kernel
@[simp] theorem skel_tag_wFunctions : skel .tag wFunctions = [70, 117, 110, 99, 116, 105, 111, 110, 115] := by decide +kernel
@[simp] theorem skEnd_val_wFunctions : skEnd .val wFunctions = .val := by decide +kernel
@[simp] theorem skel_val_wFunctions : skel .val wFunctions = [] := by decide +kernel
@[simp] theorem metaOf_wFunctions : metaOf wFunctions = [] := by decide +kernel
theorem noAmp_wFunctions : 38 ∉ wFunctions := by decide +kernel

@[simp] theorem skEnd_text_wBranches : skEnd .text wBranches = .text := by decide +kernel
@[simp] theorem skel_text_wBranches : skel .text wBranches = [] := by decide +kernel
@[simp] theorem skEnd_tag_wBranches : skEnd .tag wBranches = .tag := by decide +kernel
@[simp] theorem skel_tag_wBranches : skel .tag wBranches = [66, 114, 97, 110, 99, 104, 101, 115] := by decide +kernel
@[simp] theorem skEnd_val_wBranches : skEnd .val wBranches = .val := by decide +kernel
@[simp] theorem skel_val_wBranches : skel .val wBranches = [] := by decide +kernel
@[simp] theorem metaOf_wBranches : metaOf wBranches = [] := by decide +kernel
theorem noAmp_wBranches : 38 ∉ wBranches := by decide +kernel

@[simp] theorem skEnd_text_wDirectory : skEnd .text wDirectory = .text := by decide +kernel
@[simp] theorem skel_text_wDirectory : skel .text wDirectory = [] := by decide +kernel
@[simp] theorem skEnd_tag_wDirectory : skEnd .tag wDirectory = .tag := by decide +kernel
@[simp] theorem skel_tag_wDirectory : skel .tag wDirectory = [68, 105, 114, 101, 99, 116, 111, 114, 121] := by decide +kernel
@[simp] theorem skEnd_val_wDirectory : skEnd .val wDirectory = .val := by decide +kernel
@[simp] theorem skel_val_wDirectory : skel .val wDirectory = [] := by decide +kernel
@[simp] theorem metaOf_wDirectory : metaOf wDirectory = [] := by decide +kernel
theorem noAmp_wDirectory : 38 ∉ wDirectory := by decide +kernel

@[simp] theorem skEnd_text_wFile : skEnd .text wFile = .text := by decide +kernel
@[simp] theorem skel_text_wFile : skel .text wFile = [] := by decide +kernel
@[simp] theorem skEnd_tag_wFile : skEnd .tag wFile = .tag := by decide +kernel
@[simp] theorem skel_tag_wFile : skel .tag wFile = [70, 105, 108, 101] := by decide +kernel
@[simp] theorem skEnd_val_wFile : skEnd .val wFile = .val := by decide +kernel
@[simp] theorem skel_val_wFile : skel .val wFile = [] := by decide +kernel
@[simp] theorem metaOf_wFile : metaOf wFile = [] := by decide +kernel
theorem noAmp_wFile : 38 ∉ wFile := by decide +kernel

@[simp] theorem skEnd_text_wTopLevel : skEnd .text wTopLevel = .text := by decide +kernel
@[simp] theorem skel_text_wTopLevel : skel .text wTopLevel = [] := by decide +kernel
@[simp] theorem skEnd_tag_wTopLevel : skEnd .tag wTopLevel = .tag := by decide +kernel
@[simp] theorem skel_tag_wTopLevel : skel .tag wTopLevel = [116, 111, 112, 95, 108, 101, 118, 101, 108] := by decide +kernel
@[simp] theorem skEnd_val_wTopLevel : skEnd .val wTopLevel = .val := by decide +kernel
@[simp] theorem skel_val_wTopLevel : skel .val wTopLevel = [] := by decide +kernel
@[simp] theorem metaOf_wTopLevel : metaOf wTopLevel = [] := by decide +kernel
theorem noAmp_wTopLevel : 38 ∉ wTopLevel := by decide +kernel

@[simp] theorem skEnd_text_cBulmaCdn : skEnd .text cBulmaCdn = .text := by decide +kernel
@[simp] theorem skel_text_cBulmaCdn : skel .text cBulmaCdn = [] := by decide +kernel
@[simp] theorem skEnd_tag_cBulmaCdn : skEnd .tag cBulmaCdn = .tag := by decide +kernel
@[simp] theorem skel_tag_cBulmaCdn : skel .tag cBulmaCdn = [104, 116, 116, 112, 115, 58, 47, 47, 99, 100, 110, 46, 106, 115, 100, 101, 108, 105, 118, 114, 46, 110, 101, 116, 47, 110, 112, 109, 47, 98, 117, 108, 109, 97, 64, 48, 46, 57, 46, 49, 47, 99, 115, 115, 47, 98, 117, 108, 109, 97, 46, 109, 105, 110, 46, 99, 115, 115] := by decide +kernel
@[simp] theorem skEnd_val_cBulmaCdn : skEnd .val cBulmaCdn = .val := by decide +kernel
@[simp] theorem skel_val_cBulmaCdn : skel .val cBulmaCdn = [] := by decide +kernel
@[simp] theorem metaOf_cBulmaCdn : metaOf cBulmaCdn = [] := by decide +kernel
theorem noAmp_cBulmaCdn : 38 ∉ cBulmaCdn := by decide +kernel

@[simp] theorem skEnd_text_cBulmaFile : skEnd .text cBulmaFile = .text := by decide +kernel
@[simp] theorem skel_text_cBulmaFile : skel .text cBulmaFile = [] := by decide +kernel
@[simp] theorem skEnd_tag_cBulmaFile : skEnd .tag cBulmaFile = .tag := by decide +kernel
@[simp] theorem skel_tag_cBulmaFile : skel .tag cBulmaFile = [47, 98, 117, 108, 109, 97, 46, 109, 105, 110, 46, 99, 115, 115] := by decide +kernel
@[simp] theorem skEnd_val_cBulmaFile : skEnd .val cBulmaFile = .val := by decide +kernel
@[simp] theorem skel_val_cBulmaFile : skel .val cBulmaFile = [] := by decide +kernel
@[simp] theorem metaOf_cBulmaFile : metaOf cBulmaFile = [] := by decide +kernel
theorem noAmp_cBulmaFile : 38 ∉ cBulmaFile := by decide +kernel

@[simp] theorem skEnd_text_cUp : skEnd .text cUp = .text := by decide +kernel
@[simp] theorem skel_text_cUp : skel .text cUp = [] := by decide +kernel
@[simp] theorem skEnd_tag_cUp : skEnd .tag cUp = .tag := by decide +kernel
@[simp] theorem skel_tag_cUp : skel .tag cUp = [46, 46, 47] := by decide +kernel
@[simp] theorem skEnd_val_cUp : skEnd .val cUp = .val := by decide +kernel
@[simp] theorem skel_val_cUp : skel .val cUp = [] := by decide +kernel
@[simp] theorem metaOf_cUp : metaOf cUp = [] := by decide +kernel
theorem noAmp_cUp : 38 ∉ cUp := by decide +kernel

end Grcov.Writers.HtmlBytes
