/-
Exit status of a run without worker deaths (review item: every report theorem assumes
`mainPc = done 0`; this is the theorem that such runs exist exactly when no worker dies):
an invariant `OkInv` (no worker dead, producer not dead, any exit code reached so far is 0) is
preserved by every enabled step when no input kills its worker.
-/
import GrcovModel.Lemmas.Pipeline
namespace Grcov.Pipeline
open Grcov


def NoDead (s : State) : Prop := ∀ w ∈ s.workers, w ≠ W.dead

structure OkInv (s : State) : Prop where
  nd : NoDead s
  pd : s.prodDead = false
  code : ∀ c, s.mainPc = .done c → c = 0

theorem mem_set_cases {ws : List W} {i : Nat} {v x : W} (h : x ∈ ws.set i v) : x = v ∨ x ∈ ws := by
  rcases List.mem_or_eq_of_mem_set h with h | h
  · exact Or.inr h
  · exact Or.inl h

theorem getD_dead_mem {ws : List W} {i : Nat} (h : ws.getD i .exited = .dead) : W.dead ∈ ws := by
  have hw : i < ws.length := getD_ne_default_lt (by rw [h]; simp)
  rw [List.getD_eq_getElem?_getD, List.getElem?_eq_getElem hw] at h
  simp at h
  rw [← h]; exact List.getElem_mem hw

theorem step_ok (fate : Item → Fate) (hnd : ∀ x, fate x ≠ .die) (s : State) (st : Step)
    (he : enabled s st = true) (hf : FlowInv fate s) (hn : 1 ≤ s.n) (h : OkInv s) :
    OkInv (step fate s st) := by
  obtain ⟨nd, pd, code⟩ := h
  cases st with
  | prodSend =>
    simp only [step]
    split
    · exact ⟨nd, pd, code⟩
    · split
      · exact ⟨nd, pd, code⟩
      · rename_i hra
        exfalso
        simp only [enabled, Bool.and_eq_true, Bool.not_eq_true'] at he
        have ht : terminal s = false := he.1.1.1.1
        have hp : s.prodDone = false := he.1.1.1.2
        have := (producing_phase fate s hf ht hp).2
        have hlen := hf.stop.1
        have h0 : 0 < s.workers.length := by omega
        have hm : s.workers[0] ∈ s.workers := List.getElem_mem h0
        have h1 : s.workers[0] ≠ .dead := nd _ hm
        have h2 : s.workers[0] ≠ .exited := by
          intro e; rw [e] at hm
          have h3 : 0 < List.count W.exited s.workers := List.count_pos_iff.mpr hm
          unfold nExited at this; omega
        apply hra
        simp only [receiversAlive, Bool.or_eq_true]
        right
        rw [List.any_eq_true]
        refine ⟨_, hm, ?_⟩
        cases hw : s.workers[0] <;> simp_all [W.alive]
  | prodExit => exact ⟨nd, pd, code⟩
  | recv w =>
    simp only [step]
    split
    · exact ⟨nd, pd, code⟩
    · refine ⟨?_, pd, code⟩
      intro x hx; rcases mem_set_cases hx with h | h
      · rw [h]; simp
      · exact nd x h
    · refine ⟨?_, pd, code⟩
      intro x hx; rcases mem_set_cases hx with h | h
      · rw [h]; simp
      · exact nd x h
  | finish w =>
    simp only [step]
    split
    · rename_i x hx
      have := hnd x
      cases hfx : fate x with
      | ok =>
        simp only []
        refine ⟨?_, pd, code⟩
        intro y hy; rcases mem_set_cases hy with h | h
        · rw [h]; simp
        · exact nd y h
      | reject =>
        simp only []
        refine ⟨?_, pd, code⟩
        intro y hy; rcases mem_set_cases hy with h | h
        · rw [h]; simp
        · exact nd y h
      | die => exact absurd hfx this
    · exact ⟨nd, pd, code⟩
  | main =>
    simp only [step]
    split
    · rw [pd]; simp only [Bool.false_eq_true, if_false]
      exact ⟨nd, by simpa using pd, by intro c hc; simp at hc⟩
    · split
      · exact ⟨nd, pd, by intro c hc; simp at hc⟩
      · split
        · exact ⟨nd, pd, by intro c hc; simp at hc⟩
        · exact ⟨nd, pd, by intro c hc; simp at hc⟩
    · split
      · exact ⟨nd, pd, by intro c hc; simp at hc; exact hc.symm⟩
      · split
        · rename_i hdead
          exact absurd (getD_dead_mem hdead) (fun hm => nd _ hm rfl)
        · exact ⟨nd, pd, by intro c hc; simp at hc⟩
    · exact ⟨nd, pd, code⟩

theorem run_ok (fate : Item → Fate) (hnd : ∀ x, fate x ≠ .die) {s0 s : State} {tr : List Step}
    (hr : Run fate s0 tr s) (hf : FlowInv fate s0) (hn0 : 1 ≤ s0.n) (hok : OkInv s0) : OkInv s := by
  induction hr with
  | nil => exact hok
  | cons he _ ih =>
    rename_i s1 st _ _ _
    exact ih (step_flowInv fate s1 st he hf) (by rw [(step_n fate s1 st).1]; exact hn0) (step_ok fate hnd s1 st he hf hn0 hok)

/-- without worker-killing faults every run that terminates ends with status 0 -/
theorem no_die_exit0 (fate : Item → Fate) (hnd : ∀ x, fate x ≠ .die) (n : Nat) (hn : 1 ≤ n) (rx : Bool)
    (items : List Item) (tr : List Step) (s : State) (h : Run fate (init n rx items) tr s)
    (c : Nat) (hd : s.mainPc = .done c) : c = 0 :=
  (run_ok fate hnd h (flowInv_init fate n rx items) (by simpa [init] using hn)
      ⟨by intro w hw; simp [init] at hw; rw [hw.2]; simp, rfl, by intro c hc; simp [init] at hc⟩).code c hd

end Grcov.Pipeline
