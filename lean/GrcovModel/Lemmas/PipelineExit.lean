/-
Exit status of a run without worker deaths (review item: every report theorem assumes
`mainPc = done 0`; this is the theorem that such runs exist exactly when no worker dies):
an invariant `OkInv` (no worker dead, producer not dead, any exit code reached so far is 0) is
preserved by every enabled step when no input kills its worker.
-/
import GrcovModel.Lemmas.Pipeline
namespace Grcov.Pipeline
open Grcov


def NoDead (s : State) : Prop := ∀ w ∈ s.workers, w ≠ W.dead

structure OkInv (s : State) : Prop where
  nd : NoDead s
  pd : s.prodDead = false
  code : ∀ c, s.mainPc = .done c → c = 0
  np : s.poisoned = false

theorem mem_set_cases {ws : List W} {i : Nat} {v x : W} (h : x ∈ ws.set i v) : x = v ∨ x ∈ ws := by
  rcases List.mem_or_eq_of_mem_set h with h | h
  · exact Or.inr h
  · exact Or.inl h

theorem getD_dead_mem {ws : List W} {i : Nat} (h : ws.getD i .exited = .dead) : W.dead ∈ ws := by
  have hw : i < ws.length := getD_ne_default_lt (by rw [h]; simp)
  rw [List.getD_eq_getElem?_getD, List.getElem?_eq_getElem hw] at h
  simp at h
  rw [← h]; exact List.getElem_mem hw

theorem noDead_set {s : State} (nd : NoDead s) (w : Nat) (v : W) (hv : v ≠ .dead) :
    ∀ x ∈ s.workers.set w v, x ≠ W.dead := by
  intro x hx
  rcases mem_set_cases hx with h | h
  · rw [h]; exact hv
  · exact nd x h

/-- no input kills its worker and the step is not one of the two fault steps -/
theorem step_ok (fate : Item → Fate) (size : Item → Nat) (hnd : ∀ x, fate x ≠ .die) (s : State) (st : Step)
    (he : enabled size s st = true) (hnf : st.isFault = false) (hf : FlowInv fate s) (hn : 1 ≤ s.n)
    (h : OkInv s) : OkInv (step fate s st) := by
  obtain ⟨nd, pd, code, np⟩ := h
  cases st with
  | prodDies => simp [Step.isFault] at hnf
  | workerDies w => simp [Step.isFault] at hnf
  | prodSend =>
    simp only [step]
    split
    · exact ⟨nd, pd, code, np⟩
    · split
      · exact ⟨nd, pd, code, np⟩
      · rename_i hra
        exfalso
        simp only [enabled, Bool.and_eq_true, Bool.not_eq_true'] at he
        have ht : terminal s = false := he.1.1.1.1
        have hp : s.prodDone = false := he.1.1.1.2
        have := (producing_phase fate s hf ht hp).2
        have hlen := hf.stop.1
        have h0 : 0 < s.workers.length := by omega
        have hm : s.workers[0] ∈ s.workers := List.getElem_mem h0
        have h1 : s.workers[0] ≠ .dead := nd _ hm
        have h2 : s.workers[0] ≠ .exited := by
          intro e; rw [e] at hm
          have h3 : 0 < List.count W.exited s.workers := List.count_pos_iff.mpr hm
          unfold nExited at this; omega
        apply hra
        simp only [receiversAlive, Bool.or_eq_true]
        right
        rw [List.any_eq_true]
        refine ⟨_, hm, ?_⟩
        cases hw : s.workers[0] <;> simp_all [W.alive]
  | prodExit => exact ⟨nd, pd, code, np⟩
  | recv w =>
    simp only [step]
    split
    · exact ⟨nd, pd, code, np⟩
    · exact ⟨noDead_set nd w _ (by simp), pd, code, np⟩
    · exact ⟨noDead_set nd w _ (by simp), pd, code, np⟩
  | parsed w =>
    simp only [step]
    split
    · rename_i x hx
      have := hnd x
      cases hfx : fate x with
      | ok => exact ⟨noDead_set nd w _ (by simp), pd, code, np⟩
      | reject => exact ⟨noDead_set nd w _ (by simp), pd, code, np⟩
      | die => exact absurd hfx this
    · exact ⟨nd, pd, code, np⟩
  | lock w =>
    simp only [step]
    split
    · rw [np]; simp only [Bool.false_eq_true, if_false]
      exact ⟨noDead_set nd w _ (by simp), pd, code, rfl⟩
    · exact ⟨nd, pd, code, np⟩
  | mergeEntry w =>
    simp only [step]
    split
    · exact ⟨noDead_set nd w _ (by simp), pd, code, np⟩
    · exact ⟨nd, pd, code, np⟩
  | unlock w =>
    simp only [step]
    split
    · exact ⟨noDead_set nd w _ (by simp), pd, code, np⟩
    · exact ⟨nd, pd, code, np⟩
  | main =>
    simp only [step]
    split
    · rw [pd]; simp only [Bool.false_eq_true, if_false]
      exact ⟨nd, by simpa using pd, by intro c hc; simp at hc, np⟩
    · split
      · exact ⟨nd, pd, by intro c hc; simp at hc, np⟩
      · split
        · exact ⟨nd, pd, by intro c hc; simp at hc, np⟩
        · exact ⟨nd, pd, by intro c hc; simp at hc, np⟩
    · split
      · exact ⟨nd, pd, by intro c hc; simp at hc; exact hc.symm, np⟩
      · split
        · rename_i hdead
          exact absurd (getD_dead_mem hdead) (fun hm => nd _ hm rfl)
        · exact ⟨nd, pd, by intro c hc; simp at hc, np⟩
    · exact ⟨nd, pd, code, np⟩

theorem run_ok (fate : Item → Fate) (size : Item → Nat) (hnd : ∀ x, fate x ≠ .die) {s0 s : State}
    {tr : List Step} (hr : Run fate size s0 tr s) (hnf : ∀ st ∈ tr, st.isFault = false)
    (hf : FlowInv fate s0) (hn0 : 1 ≤ s0.n) (hok : OkInv s0) : OkInv s := by
  induction hr with
  | nil => exact hok
  | cons he _ ih =>
    rename_i s1 st _ _ _
    exact ih (fun x hx => hnf x (List.mem_cons_of_mem _ hx)) (step_flowInv fate size s1 st he hf)
      (by rw [(step_n fate s1 st).1]; exact hn0)
      (step_ok fate size hnd s1 st he (hnf st (by simp)) hf hn0 hok)

/-- without worker-killing inputs and without injected faults every run that terminates ends with
status 0 -/
theorem no_die_exit0 (fate : Item → Fate) (size : Item → Nat) (hnd : ∀ x, fate x ≠ .die) (n : Nat)
    (hn : 1 ≤ n) (rx : Bool) (items : List Item) (tr : List Step) (s : State)
    (h : Run fate size (init n rx items) tr s) (hnf : ∀ st ∈ tr, st.isFault = false)
    (c : Nat) (hd : s.mainPc = .done c) : c = 0 :=
  (run_ok fate size hnd h hnf (flowInv_init fate n rx items) (by simpa [init] using hn)
      ⟨by intro w hw; simp [init] at hw; rw [hw.2]; simp, rfl, by intro c hc; simp [init] at hc, rfl⟩).code c hd

/-- once the producer is dead, `main` is either still waiting for it or has exited with 1 -/
def ProdDeadInv (s : State) : Prop :=
  s.prodDead = true → s.mainPc = .joinProd ∨ s.mainPc = .done 1

theorem step_prodDeadInv (fate : Item → Fate) (size : Item → Nat) (s : State) (st : Step)
    (he : enabled size s st = true) (hpast : s.mainPc = .joinProd ∨ s.prodDone = true ∨ s.mainPc = .done 1)
    (hx : ¬ (s.prodDone = true ∧ s.prodDead = true))
    (h : ProdDeadInv s) : ProdDeadInv (step fate s st) ∧
      ¬ ((step fate s st).prodDone = true ∧ (step fate s st).prodDead = true) := by
  cases st with
  | prodSend =>
    simp only [enabled, Bool.and_eq_true, Bool.not_eq_true'] at he
    obtain ⟨⟨⟨⟨ht, hpd⟩, _⟩, _⟩, _⟩ := he
    simp only [step]
    split
    · exact ⟨h, hx⟩
    · split
      · exact ⟨h, hx⟩
      · refine ⟨fun _ => ?_, by simp [hpd]⟩
        rcases hpast with h1 | h1 | h1
        · exact Or.inl h1
        · rw [hpd] at h1; cases h1
        · exact Or.inr h1
  | prodExit =>
    simp only [enabled, Bool.and_eq_true, Bool.not_eq_true'] at he
    exact ⟨h, by simp [step, he.1.2]⟩
  | prodDies =>
    simp only [enabled, Bool.and_eq_true, Bool.not_eq_true'] at he
    obtain ⟨⟨ht, hpd⟩, _⟩ := he
    refine ⟨fun _ => ?_, by simp [step, hpd]⟩
    rcases hpast with h1 | h1 | h1
    · exact Or.inl h1
    · rw [hpd] at h1; cases h1
    · exact Or.inr h1
  | recv w => simp only [step]; split <;> exact ⟨h, hx⟩
  | parsed w => simp only [step]; repeat' split
                all_goals exact ⟨h, hx⟩
  | lock w => simp only [step]; repeat' split
              all_goals exact ⟨h, hx⟩
  | mergeEntry w => simp only [step]; split <;> exact ⟨h, hx⟩
  | unlock w => simp only [step]; split <;> exact ⟨h, hx⟩
  | workerDies w => simp only [step]; split <;> exact ⟨h, hx⟩
  | main =>
    simp only [step]
    cases hpc : s.mainPc with
    | joinProd =>
      simp only
      split
      · exact ⟨fun _ => Or.inr rfl, hx⟩
      · rename_i hnd
        exact ⟨fun hd => absurd hd hnd, hx⟩
    | stops k =>
      have hnd : s.prodDead = false := by
        cases hd : s.prodDead with
        | false => rfl
        | true => rcases h hd with h1 | h1 <;> rw [hpc] at h1 <;> cases h1
      simp only
      repeat' split
      all_goals exact ⟨fun hd => absurd hd (by rw [hnd]; simp), hx⟩
    | joinWorkers i =>
      have hnd : s.prodDead = false := by
        cases hd : s.prodDead with
        | false => rfl
        | true => rcases h hd with h1 | h1 <;> rw [hpc] at h1 <;> cases h1
      simp only
      repeat' split
      all_goals exact ⟨fun hd => absurd hd (by rw [hnd]; simp), hx⟩
    | done c => simp [enabled, hpc] at he

theorem prodDead_not_done0 {fate : Item → Fate} {size : Item → Nat} {s0 s : State} {tr : List Step}
    (h : Run fate size s0 tr s) (h0 : s0.prodDead = false) (hf0 : FlowInv fate s0) :
    s.prodDead = true → s.mainPc ≠ .done 0 := by
  have key : ProdDeadInv s ∧ ¬ (s.prodDone = true ∧ s.prodDead = true) := by
    have start : ProdDeadInv s0 ∧ ¬ (s0.prodDone = true ∧ s0.prodDead = true) :=
      ⟨fun hd => absurd hd (by rw [h0]; simp), by simp [h0]⟩
    clear h0
    induction h with
    | nil => exact start
    | cons he _ ih =>
      rename_i s1 st _ _ _
      exact ih (step_flowInv fate size s1 st he hf0)
        (step_prodDeadInv fate size s1 st he hf0.past start.2 start.1)
  intro hd hdone
  rcases key.1 hd with h1 | h1 <;> rw [hdone] at h1 <;> cases h1

/-! ### after a death inside `add_results` the result map is frozen -/

/-- a poisoned mutex has no owner -/
def PoisonQuiet (s : State) : Prop := s.poisoned = true → s.owner = none

theorem poisonQuiet_init (n : Nat) (rx : Bool) (items : List Item) : PoisonQuiet (init n rx items) := by
  intro h; simp [init] at h

theorem step_poisonQuiet (fate : Item → Fate) (size : Item → Nat) (s : State) (st : Step)
    (he : enabled size s st = true) (h : PoisonQuiet s) : PoisonQuiet (step fate s st) := by
  cases st with
  | prodSend =>
    simp only [step]
    split
    · exact h
    · split <;> exact h
  | prodExit => exact h
  | prodDies => exact h
  | main =>
    simp only [step]
    split
    · split <;> exact h
    · split
      · exact h
      · split <;> exact h
    · split
      · exact h
      · split <;> exact h
    · exact h
  | recv w =>
    simp only [step]
    split <;> exact h
  | parsed w =>
    simp only [step]
    split
    · split <;> exact h
    · exact h
  | lock w =>
    simp only [enabled, Bool.and_eq_true] at he
    have hfree : s.owner = none := by simpa using he.1.2
    simp only [step]
    split
    · split
      · intro _; exact hfree
      · rename_i hnp
        intro hp
        exact absurd hp hnp
    · exact h
  | mergeEntry w =>
    simp only [step]
    split <;> exact h
  | unlock w =>
    simp only [step]
    split
    · intro _; rfl
    · exact h
  | workerDies w =>
    simp only [step]
    split
    · exact h
    · exact h
    · exact h
    · intro _; rfl
    · exact h

theorem run_poisonQuiet {fate : Item → Fate} {size : Item → Nat} {s s' : State} {tr : List Step}
    (h : Run fate size s tr s') (hi : PoisonQuiet s) : PoisonQuiet s' := by
  induction h with
  | nil => exact hi
  | cons he _ ih => exact ih (step_poisonQuiet _ _ _ _ he hi)

/-- one step from a poisoned state: nothing is written, nothing enters `merged`, the mutex stays
poisoned -/
theorem step_frozen (fate : Item → Fate) (size : Item → Nat) (s : State) (st : Step)
    (he : enabled size s st = true) (hmx : MutexInv s) (hq : PoisonQuiet s) (hp : s.poisoned = true) :
    (step fate s st).log = s.log ∧ (step fate s st).merged = s.merged ∧
      (step fate s st).poisoned = true := by
  have hown : s.owner = none := hq hp
  have notMerging : ∀ w x j, s.workers.getD w .exited = .merging x j → False := by
    intro w x j hh
    have := hmx.2 w (by rw [hh]; rfl)
    rw [hown] at this; cases this
  cases st with
  | prodSend =>
    simp only [step]
    split
    · exact ⟨rfl, rfl, hp⟩
    · split <;> exact ⟨rfl, rfl, hp⟩
  | prodExit => exact ⟨rfl, rfl, hp⟩
  | prodDies => exact ⟨rfl, rfl, hp⟩
  | main =>
    simp only [step]
    split
    · split <;> exact ⟨rfl, rfl, hp⟩
    · split
      · exact ⟨rfl, rfl, hp⟩
      · split <;> exact ⟨rfl, rfl, hp⟩
    · split
      · exact ⟨rfl, rfl, hp⟩
      · split <;> exact ⟨rfl, rfl, hp⟩
    · exact ⟨rfl, rfl, hp⟩
  | recv w =>
    simp only [step]
    split <;> exact ⟨rfl, rfl, hp⟩
  | parsed w =>
    simp only [step]
    split
    · split <;> exact ⟨rfl, rfl, hp⟩
    · exact ⟨rfl, rfl, hp⟩
  | lock w =>
    simp only [step]
    split
    · simp [hp]
    · exact ⟨rfl, rfl, hp⟩
  | mergeEntry w =>
    simp only [step]
    split
    · rename_i x j hh
      exact (notMerging w x j hh).elim
    · exact ⟨rfl, rfl, hp⟩
  | unlock w =>
    simp only [step]
    split <;> exact ⟨rfl, rfl, hp⟩
  | workerDies w =>
    simp only [step]
    split
    · exact ⟨rfl, rfl, hp⟩
    · exact ⟨rfl, rfl, hp⟩
    · exact ⟨rfl, rfl, hp⟩
    · exact ⟨rfl, rfl, rfl⟩
    · exact ⟨rfl, rfl, hp⟩

theorem run_frozen {fate : Item → Fate} {size : Item → Nat} {s s' : State} {tr : List Step}
    (h : Run fate size s tr s') (hmx : MutexInv s) (hq : PoisonQuiet s) (hp : s.poisoned = true) :
    s'.log = s.log ∧ s'.merged = s.merged ∧ s'.poisoned = true := by
  induction h with
  | nil => exact ⟨rfl, rfl, hp⟩
  | cons he _ ih =>
    obtain ⟨e1, e2, e3⟩ := step_frozen _ _ _ _ he hmx hq hp
    obtain ⟨f1, f2, f3⟩ := ih (step_mutexInv _ _ _ _ he hmx) (step_poisonQuiet _ _ _ _ he hq) e3
    exact ⟨f1.trans e1, f2.trans e2, f3⟩

end Grcov.Pipeline
