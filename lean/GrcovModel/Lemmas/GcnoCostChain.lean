/-
The recursion depth of `propagate_counts` is not bounded by a constant: on the chain of `n` blocks
(`chainLoop n` = `chainFunc n` with its virtual arc) the propagation started at block 0 nests `n`
calls – for every `n ≥ 2`.
-/
import GrcovModel.Lemmas.GcnoCost
namespace Grcov.Gcno
open Outcome

theorem chainLoop_block {n b : Nat} (hb : b < n) :
    (chainLoop n).blocks[b]? =
      some { no := b, source := [if b = 0 then n - 1 else b - 1], destination := [b], lines := [],
             lineMax := 0 } := by
  simp [chainLoop, List.getElem?_map, List.getElem?_range hb]

theorem chainLoop_arc {n e : Nat} (he : e < n) :
    (chainLoop n).arcs[e]? = some ⟨e, if e + 1 < n then e + 1 else 0, if e = 0 then 0 else 1⟩ := by
  simp [chainLoop, List.getElem?_map, List.getElem?_range he]

/-- coming down the chain: the call for block `b` (entered through its outgoing arc `b`) returns
the counter of arc 0 and nests `b` calls -/
theorem propC_chain (n c0 : Nat) (hc : c0 ≤ U64MAX) : ∀ (b : Nat), 1 ≤ b → b < n → ∀ (fuel : Nat) (s : PS),
    b ≤ fuel → (∀ x, 1 ≤ x → x ≤ b → x ∉ s.vis) → s.cnt 0 = c0 →
    ∃ s' k, propC (chainLoop n) fuel s b (some b) = ok ((s', c0), k) ∧ k.depth = b ∧ k.calls = b ∧
      s'.cnt 0 = c0 := by
  intro b
  induction b with
  | zero => intro h; omega
  | succ b ih =>
    intro _ hbn fuel s hfuel hvis hcnt
    obtain ⟨fuel, rfl⟩ : ∃ f, fuel = f + 1 := ⟨fuel - 1, by omega⟩
    have hnv : b + 1 ∉ s.vis := hvis (b + 1) (by omega) (by omega)
    simp only [propC, if_neg hnv, chainLoop_block hbn]
    have hsrc : (if b + 1 = 0 then n - 1 else b + 1 - 1) = b := by simp
    simp only [hsrc, sumArcsC, arcStepC]
    have hpb : ¬ (some (b + 1) = some b) := by simp
    rw [if_neg hpb, chainLoop_arc (by omega : b < n)]
    simp only
    by_cases hb0 : b = 0
    · -- block 1: its incoming arc 0 carries the counter
      subst hb0
      simp only [Arc.onTree, if_true]
      simp [hcnt, Outcome.bind, Cost.seq, Cost.call]
      rw [if_neg (by omega : ¬ U64MAX < c0)]
      exact ⟨_, _, rfl, rfl, rfl, by simp [upd, hcnt]⟩
    · have honTree : (Arc.onTree ⟨b, if b + 1 < n then b + 1 else 0, if b = 0 then 0 else 1⟩) = true := by
        simp [Arc.onTree, hb0]
      rw [if_pos honTree]
      simp only [if_true]
      obtain ⟨s1, k1, h1, hd, hcalls, hc1⟩ := ih (by omega) (by omega) fuel
        { s with vis := (b + 1) :: s.vis } (by omega)
        (by
          intro x hx1 hxb hm
          rcases List.mem_cons.1 hm with e | hm
          · omega
          · exact hvis x hx1 (by omega) hm)
        hcnt
      rw [h1]
      simp [Outcome.bind, Cost.seq, Cost.call, hd, hcalls]
      rw [if_neg (by omega : ¬ U64MAX < c0)]
      exact ⟨_, _, rfl, rfl, rfl, by simp [upd, hc1]⟩

/-- **The recursion depth of `propagate_counts` reaches the number of blocks**: for every `n ≥ 2`,
on the chain of `n` blocks the call for block 0 – the first one `count_on_tree` makes – nests `n`
calls (and makes `n` calls in all). -/
theorem propC_chain_depth (n : Nat) (hn : 2 ≤ n) (cnt : Nat → Nat) (hc : cnt 0 ≤ U64MAX) :
    ∃ r, propC (chainLoop n) (propFuel (chainLoop n)) ⟨cnt, []⟩ 0 none = ok r ∧
      r.2.depth = n ∧ r.2.calls = n := by
  have hlen : (chainLoop n).blocks.length = n := by simp [chainLoop]
  obtain ⟨fuel, hf⟩ : ∃ f, propFuel (chainLoop n) = f + 1 := ⟨n + 1, by simp [propFuel, hlen]⟩
  have hfuel : n - 1 ≤ fuel := by simp [propFuel, hlen] at hf; omega
  rw [hf]
  simp only [propC, List.not_mem_nil, if_false, chainLoop_block (by omega : 0 < n), if_true,
    sumArcsC, arcStepC]
  have hp : ¬ ((none : Option Nat) = some (n - 1)) := by simp
  have hp0 : ¬ ((none : Option Nat) = some 0) := by simp
  rw [if_neg hp, chainLoop_arc (by omega : n - 1 < n)]
  simp only
  have honTree : (Arc.onTree ⟨n - 1, if n - 1 + 1 < n then n - 1 + 1 else 0, if n - 1 = 0 then 0 else 1⟩) = true := by
    have : ¬ (n - 1 = 0) := by omega
    simp [Arc.onTree, this]
  rw [if_pos honTree]
  obtain ⟨s1, k1, h1, hd, hcalls, hc1⟩ := propC_chain n (cnt 0) hc (n - 1) (by omega) (by omega) fuel
    ⟨cnt, [0]⟩ hfuel (by intro x hx _ hm; simp at hm; omega) rfl
  rw [h1]
  simp only [bind_ok]
  rw [if_neg (by omega)]
  simp only [sumArcsC, bind_ok, if_neg hp0, chainLoop_arc (by omega : 0 < n)]
  simp [Arc.onTree, Outcome.bind, hc1, Cost.seq, Cost.call, hd, hcalls]
  rw [if_neg (by omega : ¬ U64MAX < cnt 0)]
  refine ⟨_, _, _, rfl, ?_, ?_⟩
  · simp only [Cost.depth]; omega
  · simp only [Cost.calls]; omega

end Grcov.Gcno
