/-
Whatever the bytes, the records `parse_lcov` returns are well-formed maps (`Cov.WF`: unique line /
branch-line / function keys, counts ≤ 2^64-1): the invariant of the byte machine of GrcovModel/Lcov.lean.
Used by the whole-run theorems (Props/C02Run.lean) to discharge `InputsWF` for lcov inputs.
-/
import GrcovModel.Lcov
namespace Grcov.Lcov
open Grcov AList

def AccWF (a : Acc) : Prop := a.cur.WF ∧ ∀ pc ∈ a.results, pc.2.WF

theorem empty_cov_wf : ({} : Cov).WF :=
  ⟨by simp [NodupKeys, keys], by simp [NodupKeys, keys], by simp [NodupKeys, keys], by simp⟩

theorem mem_set_lines {m : List (Nat × Nat)} {k v : Nat} {kv : Nat × Nat} (h : kv ∈ AList.set m k v) :
    kv ∈ m ∨ kv = (k, v) := by
  induction m with
  | nil => simp [AList.set] at h; exact Or.inr h
  | cons x m ih =>
    obtain ⟨k', w⟩ := x
    unfold AList.set at h
    split at h
    · rename_i e
      rcases List.mem_cons.1 h with h | h
      · exact Or.inr (by rw [h, e])
      · exact Or.inl (List.mem_cons_of_mem _ h)
    · rcases List.mem_cons.1 h with h | h
      · exact Or.inl (by rw [h]; exact List.mem_cons_self ..)
      · rcases ih h with h | h
        · exact Or.inl (List.mem_cons_of_mem _ h)
        · exact Or.inr h

theorem commitLine_wf (a : Acc) (l c : Nat) (h : AccWF a) : AccWF (commitLine a l c) := by
  refine ⟨⟨nodupKeys_set h.1.linesNodup _ _, h.1.branchesNodup, h.1.functionsNodup, ?_⟩, h.2⟩
  intro kv hkv
  rcases mem_set_lines hkv with hm | rfl
  · exact h.1.countsFit kv hm
  · exact satAdd_le _ _

theorem commitFn_wf (a : Acc) (s : Nat) (n : Bytes) (h : AccWF a) : AccWF (commitFn a s n) :=
  ⟨⟨h.1.linesNodup, h.1.branchesNodup, nodupKeys_set h.1.functionsNodup _ _, h.1.countsFit⟩, h.2⟩

theorem addBranch_nodup (m : List (Nat × List Bool)) (l no : Nat) (t : Bool) (h : NodupKeys m) :
    NodupKeys (addBranch m l no t) := by
  unfold addBranch
  split
  · split
    · exact nodupKeys_set h _ _
    · split <;> exact nodupKeys_set h _ _
  · exact nodupKeys_set h _ _

theorem commitBranch_wf (a : Acc) (l n : Nat) (t : Bool) (h : AccWF a) : AccWF (commitBranch a l n t) :=
  ⟨⟨h.1.linesNodup, addBranch_nodup _ _ _ _ h.1.branchesNodup, h.1.functionsNodup, h.1.countsFit⟩, h.2⟩

theorem commitFnda_wf (a : Acc) (n : Nat) (nm : Bytes) (h : AccWF a) : AccWF (commitFnda a n nm) := by
  unfold commitFnda
  simp only
  split
  · exact ⟨⟨h.1.linesNodup, h.1.branchesNodup, nodupKeys_set h.1.functionsNodup _ _, h.1.countsFit⟩, h.2⟩
  · exact h

theorem step_wf (branch : Bool) (s : St) (b : Nat) (h : AccWF s.acc) : AccWF (step branch s b).acc := by
  unfold step
  simp only
  split <;> (try exact h) <;> (repeat' split) <;>
    first
      | exact h
      | exact commitLine_wf _ _ _ h
      | exact commitFn_wf _ _ _ h
      | exact commitBranch_wf _ _ _ _ h
      | exact commitFnda_wf _ _ _ h
      | exact ⟨empty_cov_wf, fun pc hpc => by
          rcases List.mem_append.1 hpc with hm | hm
          · exact h.2 pc hm
          · simp only [List.mem_singleton] at hm; subst hm; exact h.1⟩
      | exact ⟨h.1, h.2⟩


def noOkHalt (c : Ctl) : Prop := ∀ rs, c ≠ .halt (.ok rs)

theorem digitsStep_noOk (bound r b : Nat) (cont done : Nat → Ctl) (hc : ∀ v, noOkHalt (cont v))
    (hd : ∀ v, noOkHalt (done v)) : noOkHalt (digitsStep bound r b cont done) := by
  unfold digitsStep
  split
  · split
    · exact hc _
    · intro rs; simp [invalidRecord]
  · exact hd _

theorem afterKey_noOk (branch : Bool) (k : Nat) : noOkHalt (afterKey branch k) := by
  unfold afterKey
  intro rs
  repeat' split
  all_goals simp

theorem step_noOk (branch : Bool) (s : St) (b : Nat) (h : noOkHalt s.ctl) : noOkHalt (step branch s b).ctl := by
  unfold step
  simp only
  split <;> (try exact h) <;> (repeat' split) <;>
    first
      | exact h
      | exact afterKey_noOk _ _
      | exact digitsStep_noOk _ _ _ _ _ (fun v rs => by simp) (fun v rs => by simp)
      | exact digitsStep_noOk _ _ _ (Ctl.brBlock _) (fun _ => Ctl.brAfterBlock _) (fun v rs => by simp) (fun v rs => by simp)
      | (intro rs; simp [invalidRecord])

theorem run_inv (branch : Bool) (s : St) (bs : Bytes) (h : AccWF s.acc) (hc : noOkHalt s.ctl) :
    AccWF (run branch s bs).acc ∧ noOkHalt (run branch s bs).ctl := by
  induction bs generalizing s with
  | nil => exact ⟨h, hc⟩
  | cons b bs ih => exact ih _ (step_wf branch s b h) (step_noOk branch s b hc)

/-- whatever the bytes: the records `parse_lcov` returns are maps with unique keys and `u64` counts -/
theorem parse_wf (branch : Bool) (bs : Bytes) (rs : List (Bytes × Cov)) (h : parse branch bs = .ok rs) :
    ∀ pc ∈ rs, pc.2.WF := by
  have hi := run_inv branch {} bs ⟨empty_cov_wf, by simp⟩ (by intro rs; simp)
  unfold parse finish at h
  split at h
  · rename_i o ho; subst h; exact absurd ho (hi.2 rs)
  all_goals first
    | (cases h; exact hi.1.2)
    | (split at h <;> first | (cases h; exact hi.1.2) | cases h)
    | cases h

end Grcov.Lcov
