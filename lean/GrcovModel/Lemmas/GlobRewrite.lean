/-
Lemmas about `rewritePathsX` / `rewritePathsG` (GrcovModel/Glob/Strategy.lean): `rewrite_paths`
with glob sets of the whole pattern language. The path part is `Rewrite.resolveKey` unchanged, so
every per-record fact of Props/C11.lean transfers through `rewriteKeyX_some_base`; the selection
and partition lemmas are re-derived for `GlobSet::is_match` of the whole language (`setIsMatch`).
-/
import GrcovModel.Lemmas.GlobStrategy
import GrcovModel.Lemmas.GlobSyntaxOld
import GrcovModel.Lemmas.Rewrite
namespace Grcov.GlobSyntax
open Grcov Grcov.UPath Grcov.Rewrite

theorem selectRecX_some_iff (x : XCfg) (fs : FS) (abs rel : Bytes) (cov : Cov) (r : Rec) :
    selectRecX x fs abs rel cov = some r ↔
      setIsMatch x.ignore rel = false ∧ (x.keep = [] ∨ setIsMatch x.keep rel = true) ∧
      (x.ignoreNotExisting = true → fs.exists abs = true) ∧ filterOk x.filter cov = true ∧
      r = ⟨abs, rel, cov⟩ := by
  unfold selectRecX
  by_cases h1 : setIsMatch x.ignore rel = true
  · simp [h1]
  · simp only [h1, Bool.false_eq_true, if_false]
    by_cases h2 : (!x.keep.isEmpty && !setIsMatch x.keep rel) = true
    · simp only [h2, if_true]
      simp only [Bool.and_eq_true, Bool.not_eq_eq_eq_not, Bool.not_true, List.isEmpty_eq_false_iff] at h2
      simp [h2.1, h2.2]
    · simp only [h2, Bool.false_eq_true, if_false]
      have h2' : x.keep = [] ∨ setIsMatch x.keep rel = true := by
        simp only [Bool.and_eq_true, Bool.not_eq_eq_eq_not, Bool.not_true, List.isEmpty_eq_false_iff,
          not_and, Bool.not_eq_false] at h2
        by_cases hk : x.keep = []
        · exact Or.inl hk
        · exact Or.inr (h2 hk)
      by_cases h3 : (x.ignoreNotExisting && !fs.exists abs) = true
      · simp only [h3, if_true]
        simp only [Bool.and_eq_true, Bool.not_eq_eq_eq_not, Bool.not_true] at h3
        simp [h3.1, h3.2]
      · simp only [h3, Bool.false_eq_true, if_false]
        have h3' : x.ignoreNotExisting = true → fs.exists abs = true := by
          intro hi; simp [hi] at h3; exact h3
        by_cases h4 : filterOk x.filter cov = true
        · simp only [h4, Bool.not_true, Bool.false_eq_true, if_false, Option.some.injEq]
          constructor
          · intro e; exact ⟨by simp, h2', h3', trivial, e.symm⟩
          · rintro ⟨_, _, _, _, e⟩; exact e.symm
        · simp [h4]

theorem rewriteKeyX_some_iff (x : XCfg) (fs : FS) (kc : Bytes × Cov) (r : Rec) :
    rewriteKeyX x fs kc = .ok (some r) ↔
      ∃ abs rel, resolveKey x.base fs kc.1 = .ok (some (abs, rel)) ∧
        selectRecX x fs abs rel kc.2 = some r := by
  unfold rewriteKeyX
  cases h : resolveKey x.base fs kc.1 with
  | panic s => simp
  | ok o =>
    cases o with
    | none => simp
    | some ar =>
      obtain ⟨a, rl⟩ := ar
      simp only [Res.ok.injEq, Option.some.injEq, Prod.mk.injEq]
      constructor
      · intro h; exact ⟨a, rl, ⟨rfl, rfl⟩, h⟩
      · rintro ⟨_, _, ⟨rfl, rfl⟩, h⟩; exact h

/-- a record selected with glob sets of the whole language is a record of the run without glob
sets: every per-record theorem about `Rewrite.rewriteKey` speaks about it -/
theorem rewriteKeyX_some_base (x : XCfg) (fs : FS) (kc : Bytes × Cov) (r : Rec)
    (h : rewriteKeyX x fs kc = .ok (some r)) : rewriteKey x.base fs kc = .ok (some r) := by
  obtain ⟨a, rl, h1, h2⟩ := (rewriteKeyX_some_iff x fs kc r).1 h
  obtain ⟨_, _, h3, h4, h5⟩ := (selectRecX_some_iff x fs a rl kc.2 r).1 h2
  refine (rewriteKey_some_iff _ _ _ _).2 ⟨a, rl, h1, ?_⟩
  exact (selectRec_some_iff _ _ _ _ _ _).2 ⟨by simp [XCfg.base, Glob.setMatch], Or.inl rfl, h3, h4, h5⟩

def keyRecX (x : XCfg) (fs : FS) (kc : Bytes × Cov) : Option Rec := okPart (rewriteKeyX x fs kc)

theorem rewritePathsX_eq_ok (x : XCfg) (fs : FS) (m : List (Bytes × Cov)) (rep : List Rec) :
    rewritePathsX x fs m = .ok rep ↔
      (∀ s, x.sourceDir = some s → isAbsolute s = true) ∧
      (∀ kc ∈ m, ∃ o, rewriteKeyX x fs kc = .ok o) ∧ rep = m.filterMap (keyRecX x fs) := by
  have hc := collect_eq_ok (m.map (rewriteKeyX x fs)) rep
  simp only [List.mem_map, forall_exists_index, and_imp, forall_apply_eq_imp_iff₂,
    List.filterMap_map] at hc
  unfold rewritePathsX
  cases hs : x.sourceDir with
  | none =>
    simp only [hc]
    have : (okPart ∘ rewriteKeyX x fs) = keyRecX x fs := rfl
    simp [this]
  | some s =>
    simp only
    have : (okPart ∘ rewriteKeyX x fs) = keyRecX x fs := rfl
    by_cases ha : isAbsolute s = true
    · simp only [ha, if_true, hc]; simp [this, ha]
    · simp only [ha]; simp [ha]

theorem keyRecX_eq_some (x : XCfg) (fs : FS) (kc : Bytes × Cov) (r : Rec) :
    keyRecX x fs kc = some r ↔ rewriteKeyX x fs kc = .ok (some r) := by
  unfold keyRecX
  cases rewriteKeyX x fs kc with
  | panic s => simp [okPart]
  | ok o => simp [okPart]

theorem mem_rewritePathsX {x : XCfg} {fs : FS} {m : List (Bytes × Cov)} {rep : List Rec}
    (h : rewritePathsX x fs m = .ok rep) (r : Rec) :
    r ∈ rep ↔ ∃ kc ∈ m, rewriteKeyX x fs kc = .ok (some r) := by
  obtain ⟨_, _, e⟩ := (rewritePathsX_eq_ok x fs m rep).1 h
  subst e
  simp [List.mem_filterMap, keyRecX_eq_some]

theorem setIsMatch_append (a b : List Tokens) (p : Bytes) :
    setIsMatch (a ++ b) p = (setIsMatch a p || setIsMatch b p) := by
  simp [setIsMatch, List.any_append]

/-- one key under `--ignore (I ++ G)` / `--keep-only G` versus the unfiltered configuration -/
theorem rewriteKeyX_ignore_keep (x : XCfg) (hk : x.keep = []) (G : List Tokens) (hG : G ≠ [])
    (fs : FS) (kc : Bytes × Cov) :
    let cI := { x with ignore := x.ignore ++ G }
    let cK := { x with keep := G }
    (∀ s, rewriteKeyX x fs kc = .panic s →
        (∃ s, rewriteKeyX cI fs kc = .panic s) ∧ ∃ s, rewriteKeyX cK fs kc = .panic s) ∧
    (∀ o, rewriteKeyX x fs kc = .ok o →
      (rewriteKeyX cI fs kc = .ok o ∧ rewriteKeyX cK fs kc = .ok none) ∨
      (rewriteKeyX cI fs kc = .ok none ∧ rewriteKeyX cK fs kc = .ok o)) := by
  intro cI cK
  have eI : cI.base = x.base := rfl
  have eK : cK.base = x.base := rfl
  unfold rewriteKeyX
  rw [eI, eK]
  cases hr : resolveKey x.base fs kc.1 with
  | panic s => simp
  | ok o =>
    cases o with
    | none => simp
    | some ar =>
      obtain ⟨a, rl⟩ := ar
      simp only [reduceCtorEq, false_implies, implies_true, true_and, Res.ok.injEq, forall_eq']
      have hGe : G.isEmpty = false := by cases G <;> simp_all
      unfold selectRecX
      simp only [cI, cK, hk, setIsMatch_append, List.isEmpty_nil, Bool.not_true, Bool.false_and,
        Bool.false_eq_true, if_false, hGe, Bool.not_false, Bool.true_and]
      by_cases h1 : setIsMatch x.ignore rl = true
      · simp [h1]
      · simp only [h1, Bool.false_eq_true, if_false, Bool.false_or]
        by_cases hg : setIsMatch G rl = true
        · simp [hg]
        · simp [hg]

theorem rewriteKeyX_filter (x : XCfg) (hf : x.filter = none) (fs : FS) (kc : Bytes × Cov) :
    let cT := { x with filter := some true }
    let cF := { x with filter := some false }
    (∀ s, rewriteKeyX x fs kc = .panic s →
        (∃ s, rewriteKeyX cT fs kc = .panic s) ∧ ∃ s, rewriteKeyX cF fs kc = .panic s) ∧
    (∀ o, rewriteKeyX x fs kc = .ok o →
      (rewriteKeyX cT fs kc = .ok o ∧ rewriteKeyX cF fs kc = .ok none) ∨
      (rewriteKeyX cT fs kc = .ok none ∧ rewriteKeyX cF fs kc = .ok o)) := by
  intro cT cF
  have eT : resolveKey cT.base fs kc.1 = resolveKey x.base fs kc.1 := resolveKey_congr rfl rfl rfl fs _
  have eF : resolveKey cF.base fs kc.1 = resolveKey x.base fs kc.1 := resolveKey_congr rfl rfl rfl fs _
  unfold rewriteKeyX
  rw [eT, eF]
  cases hr : resolveKey x.base fs kc.1 with
  | panic s => simp
  | ok o =>
    cases o with
    | none => simp
    | some ar =>
      obtain ⟨a, rl⟩ := ar
      simp only [reduceCtorEq, false_implies, implies_true, true_and, Res.ok.injEq, forall_eq']
      unfold selectRecX
      simp only [cT, cF, hf, filterOk]
      by_cases h1 : setIsMatch x.ignore rl = true
      · simp [h1]
      · simp only [h1, Bool.false_eq_true, if_false]
        by_cases h2 : (!x.keep.isEmpty && !setIsMatch x.keep rl) = true
        · simp [h2]
        · simp only [h2, Bool.false_eq_true, if_false]
          by_cases h3 : (x.ignoreNotExisting && !fs.exists a) = true
          · simp [h3]
          · simp only [h3, Bool.false_eq_true, if_false]
            by_cases hcv : isCovered kc.2 = true <;> simp [hcv]

/-- lifting a per-key "exactly one of the two" to whole reports -/
theorem partition_reportsX (x cA cB : XCfg) (fs : FS) (m : List (Bytes × Cov))
    (hsd : cA.sourceDir = x.sourceDir ∧ cB.sourceDir = x.sourceDir)
    (H : ∀ kc ∈ m,
      (∀ s, rewriteKeyX x fs kc = .panic s →
        (∃ s, rewriteKeyX cA fs kc = .panic s) ∧ ∃ s, rewriteKeyX cB fs kc = .panic s) ∧
      (∀ o, rewriteKeyX x fs kc = .ok o →
        (rewriteKeyX cA fs kc = .ok o ∧ rewriteKeyX cB fs kc = .ok none) ∨
        (rewriteKeyX cA fs kc = .ok none ∧ rewriteKeyX cB fs kc = .ok o)))
    (rep : List Rec) (h : rewritePathsX x fs m = .ok rep) :
    ∃ ra rb, rewritePathsX cA fs m = .ok ra ∧ rewritePathsX cB fs m = .ok rb ∧
      (ra ++ rb).Perm rep := by
  obtain ⟨habs, hok, e⟩ := (rewritePathsX_eq_ok x fs m rep).1 h
  refine ⟨m.filterMap (keyRecX cA fs), m.filterMap (keyRecX cB fs), ?_, ?_, ?_⟩
  · rw [rewritePathsX_eq_ok]
    refine ⟨fun s hs => habs s (hsd.1 ▸ hs), ?_, rfl⟩
    intro kc hkc
    obtain ⟨o, ho⟩ := hok kc hkc
    rcases (H kc hkc).2 o ho with ⟨h1, _⟩ | ⟨h1, _⟩ <;> exact ⟨_, h1⟩
  · rw [rewritePathsX_eq_ok]
    refine ⟨fun s hs => habs s (hsd.2 ▸ hs), ?_, rfl⟩
    intro kc hkc
    obtain ⟨o, ho⟩ := hok kc hkc
    rcases (H kc hkc).2 o ho with ⟨_, h1⟩ | ⟨_, h1⟩ <;> exact ⟨_, h1⟩
  · subst e
    apply perm_filterMap_split
    intro kc hkc
    obtain ⟨o, ho⟩ := hok kc hkc
    rcases (H kc hkc).2 o ho with ⟨h1, h2⟩ | ⟨h1, h2⟩
    · left; simp [keyRecX, h1, h2, ho, okPart]
    · right; simp [keyRecX, h1, h2, ho, okPart]

/-! ### sets -/

theorem setIsMatch_eq_setRegexMatch (gs : List Tokens) (p : Bytes) (hg : p.getLast? ≠ some 46) :
    setIsMatch gs p = setRegexMatch gs p := by
  unfold setIsMatch setRegexMatch
  congr 1
  funext ts
  exact stratMatch_eq_regexMatch ts p hg

theorem compileSet_error_iff (gs : List Chars) :
    (∃ e, compileSet gs = .error e) ↔ ∃ g ∈ gs, ∃ e, parse g = .error e := by
  induction gs with
  | nil => simp [compileSet]
  | cons g gs ih =>
    simp only [compileSet, List.mem_cons, exists_eq_or_imp]
    cases hp : parse g with
    | error e => simp
    | ok t =>
      cases hc : compileSet gs with
      | error e =>
        have := ih.1 ⟨e, hc⟩
        simp only [reduceCtorEq, exists_false, false_or]
        constructor
        · intro _; exact this
        · intro _; exact ⟨e, rfl⟩
      | ok ts =>
        simp only [reduceCtorEq, exists_false, false_or, false_iff]
        intro h
        have := ih.2 h
        rw [hc] at this
        obtain ⟨e, he⟩ := this; cases he

/-- a set of patterns of the old subset compiles in the new model, and the two sets answer the
same on every path (regex semantics on both sides) -/
theorem compileSet_conservative (gs : List Chars) (old : Glob.GlobSet)
    (h : Glob.compile (gs.map encPat) = some old) :
    ∃ ts, compileSet gs = .ok ts ∧ ∀ p, setRegexMatch ts p = Glob.setMatch old p := by
  induction gs generalizing old with
  | nil =>
    simp only [Glob.compile, List.map_nil, List.mapM_nil] at h
    cases h
    exact ⟨[], rfl, fun p => rfl⟩
  | cons g gs ih =>
    simp only [Glob.compile, List.map_cons, List.mapM_cons] at h
    cases hp : Glob.parse (encPat g) with
    | none => simp [hp] at h
    | some ot =>
      cases hc : (gs.map encPat).mapM Glob.parse with
      | none => simp [hp, hc] at h
      | some olds =>
        simp only [hp, hc] at h
        have : old = ot :: olds := by cases h; rfl
        subst this
        obtain ⟨t, h1, h2⟩ := parse_conservative g ot hp
        obtain ⟨ts, h3, h4⟩ := ih olds hc
        refine ⟨t :: ts, by simp [compileSet, h1, h3], fun p => ?_⟩
        simp only [setRegexMatch, Glob.setMatch, List.any_cons, h2]
        congr 1
        exact h4 p

end Grcov.GlobSyntax
