/-
Helper definitions and lemmas of C06 (sharded aggregation through lcov): observable equality,
shard trees over records and over reports (lists of file records), closure of the writer's domain
under aggregation. Property theorems: GrcovModel/Props/C06.lean, Props/C06Cli.lean.
-/
import GrcovModel.Props.C01
import GrcovModel.Lemmas.LcovWriter
import GrcovModel.Lemmas.LcovIterate
namespace Grcov.Props.C06
open Grcov AList Grcov.Props.C01 Grcov.Lcov

theorem obsEq_refl (a : Cov) : ObsEq a a := ⟨fun _ => rfl, fun _ => rfl, fun _ => rfl⟩
theorem obsEq_symm {a b : Cov} (h : ObsEq a b) : ObsEq b a :=
  ⟨fun l => (h.lines l).symm, fun l => (h.branches l).symm, fun n => (h.fns n).symm⟩
theorem obsEq_trans {a b c : Cov} (h₁ : ObsEq a b) (h₂ : ObsEq b c) : ObsEq a c :=
  ⟨fun l => (h₁.lines l).trans (h₂.lines l), fun l => (h₁.branches l).trans (h₂.branches l),
   fun n => (h₁.fns n).trans (h₂.fns n)⟩

/-- aggregation respects observable equality -/
theorem merge_congr {a a' b b' : Cov} (hb : b.WF) (hb' : b'.WF) (ha : ObsEq a a') (hbb : ObsEq b b') :
    ObsEq (merge a b) (merge a' b') := by
  refine ⟨fun l => ?_, fun l => ?_, fun n => ?_⟩
  · rw [merge_lines _ _ hb, merge_lines _ _ hb', ha.lines, hbb.lines]
  · rw [merge_branches _ _ hb, merge_branches _ _ hb', ha.branches, hbb.branches]
  · rw [merge_functions _ _ hb, merge_functions _ _ hb', execOf_optCombine, execOf_optCombine,
      ha.fns, hbb.fns]

/-- any nesting of intermediate reports -/
def evalSharded (rt : Cov → Cov) : Tree Cov → Cov
  | .leaf a => a
  | .node l r => rt (merge (evalSharded rt l) (evalSharded rt r))

theorem evalSharded_spec (rt : Cov → Cov) (hrt : ∀ c, c.WF → ObsEq (rt c) c ∧ (rt c).WF)
    (t : Tree Cov) (h : ∀ c ∈ t.leaves, c.WF) :
    ObsEq (evalSharded rt t) t.eval ∧ (evalSharded rt t).WF := by
  induction t with
  | leaf a => exact ⟨obsEq_refl a, h a (by simp [Tree.leaves])⟩
  | node l r ihl ihr =>
    simp only [Tree.leaves, List.mem_append] at h
    obtain ⟨el, wl⟩ := ihl fun c hc => h c (Or.inl hc)
    obtain ⟨er, wr⟩ := ihr fun c hc => h c (Or.inr hc)
    have wm : (merge (evalSharded rt l) (evalSharded rt r)).WF := merge_wf _ _ wl wr
    obtain ⟨e1, w1⟩ := hrt _ wm
    have wre : r.eval.WF := Tree.eval_wf r fun c hc => h c (Or.inr hc)
    exact ⟨obsEq_trans e1 (merge_congr wr wre el er), w1⟩

/-- records as the readers produce them: unique keys, u64 counts, no empty branch vector -/
def Good (c : Cov) : Prop := c.WF ∧ ∀ l v, get? c.branches l = some v → v ≠ []

theorem good_mem (c : Cov) (h : Good c) : ∀ lv ∈ c.branches, lv.2 ≠ [] := by
  intro lv hlv
  exact h.2 lv.1 lv.2 (get?_of_mem h.1.branchesNodup (by cases lv; exact hlv))

theorem zipOr_ne_nil (u v : List Bool) (h : u ≠ [] ∨ v ≠ []) : zipOr u v ≠ [] := by
  cases u with
  | nil => simpa using h
  | cons x u => cases v <;> simp

theorem good_merge (a b : Cov) (ha : Good a) (hb : Good b) : Good (merge a b) := by
  refine ⟨merge_wf a b ha.1 hb.1, fun l v hv => ?_⟩
  rw [merge_branches a b hb.1] at hv
  cases hA : get? a.branches l with
  | none => rw [hA] at hv; simp at hv; exact hb.2 l v hv
  | some u =>
    cases hB : get? b.branches l with
    | none => rw [hA, hB] at hv; simp at hv; subst hv; exact ha.2 l u hA
    | some w =>
      rw [hA, hB] at hv; simp at hv; subst hv
      exact zipOr_ne_nil u w (Or.inl (ha.2 l u hA))

/-- the lcov round trip preserves the observables of C01 and the shape of the records -/
theorem rtCov_good (c : Cov) (h : Good c) : ObsEq (rtCov c) c ∧ Good (rtCov c) := by
  have s := rtCov_same c h.1
  have hb := fun l => brda_roundtrip_get? c.branches h.1.branchesNodup (good_mem c h) l
  refine ⟨⟨s.lines, hb, fun n => by rw [s.functions]⟩, rtCov_wf c, fun l v hv => ?_⟩
  have : get? (rtCov c).branches l = get? c.branches l := hb l
  rw [this] at hv; exact h.2 l v hv

theorem evalSharded_lcov (t : Tree Cov) (h : ∀ c ∈ t.leaves, Good c) :
    ObsEq (evalSharded rtCov t) t.eval ∧ Good (evalSharded rtCov t) := by
  induction t with
  | leaf a => exact ⟨obsEq_refl a, h a (by simp [Tree.leaves])⟩
  | node l r ihl ihr =>
    simp only [Tree.leaves, List.mem_append] at h
    obtain ⟨el, gl⟩ := ihl fun c hc => h c (Or.inl hc)
    obtain ⟨er, gr⟩ := ihr fun c hc => h c (Or.inr hc)
    have gm := good_merge _ _ gl gr
    obtain ⟨e1, g1⟩ := rtCov_good _ gm
    have wre : r.eval.WF := Tree.eval_wf r fun c hc => (h c (Or.inr hc)).1
    exact ⟨obsEq_trans e1 (merge_congr gr.1 wre el er), g1⟩

end Grcov.Props.C06

/-! ## Report level: lists of file records, through the bytes of the lcov report -/

namespace Grcov.Props.C06.Rep
open Grcov AList Grcov.Props.C01 Grcov.Props.C06 Grcov.Lcov Grcov.Lcov.Spec

/-- a report: one record per file, in the order of the result map -/
abbrev Report := List (Bytes × Cov)

/-- aggregating two reports in one run: `add_results` of the second onto the first (paths already
rewritten at the shard stage, so no canonicalisation) -/
def mergeReports (a b : Report) : Report := addResults id a b

theorem filter_key_nodup (b : Report) (hb : NodupKeys b) (k : Bytes) :
    (b.filter fun kc => decide (kc.1 = k)).map (·.2) = (get? b k).toList := by
  induction b with
  | nil => rfl
  | cons kc b ih =>
    obtain ⟨k0, c⟩ := kc
    obtain ⟨hk, hn⟩ := nodup_cons_keys hb
    simp only [List.filter_cons, get?_cons]
    by_cases e : k0 = k
    · subst e
      have hnone : get? b k0 = none := (get?_eq_none_iff b k0).mpr hk
      have := ih hn
      simp only [decide_true, if_true, List.map_cons]
      rw [this, hnone]; rfl
    · simp only [e, decide_false, Bool.false_eq_true, if_false]; exact ih hn

theorem get?_mergeReports (a b : Report) (hb : NodupKeys b) (k : Bytes) :
    get? (mergeReports a b) k = optCombine merge (get? a k) (get? b k) := by
  unfold mergeReports
  rw [get?_addResults]
  have e : (b.filter fun kc => decide (id kc.1 = k)) = b.filter fun kc => decide (kc.1 = k) := rfl
  rw [e, filter_key_nodup b hb k]
  cases get? a k <;> cases get? b k <;> simp [foldInto]

/-- numbers and names fit what the writer can print and the reader's types hold (pointwise form of
the bounds in `WriterOK`) -/
structure Bounded (c : Cov) : Prop where
  lines : ∀ l n, get? c.lines l = some n → l ≤ U32MAX
  branches : ∀ l v, get? c.branches l = some v → l ≤ U32MAX ∧ v.length ≤ U32MAX
  fns : ∀ n f, get? c.functions n = some f → noEol n ∧ utf8Lossy n = n ∧ f.start ≤ U32MAX

theorem writerOK_of_bounded (p : Bytes) (c : Cov) (hw : c.WF) (hp : noEol p) (hb : Bounded c) :
    WriterOK p c :=
  ⟨hw, hp,
   fun lc h => hb.lines lc.1 lc.2 (get?_of_mem hw.linesNodup (by cases lc; exact h)),
   fun lv h => hb.branches lv.1 lv.2 (get?_of_mem hw.branchesNodup (by cases lv; exact h)),
   fun nf h => hb.fns nf.1 nf.2 (get?_of_mem hw.functionsNodup (by cases nf; exact h))⟩

theorem bounded_merge (a b : Cov) (hbw : b.WF) (ha : Bounded a) (hb : Bounded b) : Bounded (merge a b) := by
  refine ⟨fun l n h => ?_, fun l v h => ?_, fun n f h => ?_⟩
  · rw [merge_lines a b hbw] at h
    cases hA : get? a.lines l with
    | some x => exact ha.lines l x hA
    | none =>
      cases hB : get? b.lines l with
      | some y => exact hb.lines l y hB
      | none => rw [hA, hB] at h; simp at h
  · rw [merge_branches a b hbw] at h
    cases hA : get? a.branches l with
    | some x =>
      cases hB : get? b.branches l with
      | some y =>
        rw [hA, hB] at h; simp only [optCombine_some_some, Option.some.injEq] at h; subst h
        have h1 := ha.branches l x hA
        have h2 := hb.branches l y hB
        refine ⟨h1.1, ?_⟩
        rw [zipOr_length]; exact Nat.max_le.mpr ⟨h1.2, h2.2⟩
      | none => rw [hA, hB] at h; simp at h; subst h; exact ha.branches l x hA
    | none =>
      rw [hA] at h; simp at h; exact hb.branches l v h
  · rw [merge_functions a b hbw] at h
    cases hA : get? a.functions n with
    | some x =>
      cases hB : get? b.functions n with
      | some y =>
        rw [hA, hB] at h; simp only [optCombine_some_some, Option.some.injEq] at h; subst h
        exact ha.fns n x hA
      | none => rw [hA, hB] at h; simp at h; subst h; exact ha.fns n x hA
    | none =>
      rw [hA] at h; simp at h; exact hb.fns n f h

/-- a report as grcov holds it after reading inputs and rewriting paths: one record per path, paths
are strings without line terminators, records as the readers produce them within the writer's
bounds -/
structure RepOK (r : Report) : Prop where
  nodup : NodupKeys r
  recs : ∀ pc ∈ r, noEol pc.1 ∧ utf8Lossy pc.1 = pc.1 ∧ Good pc.2 ∧ Bounded pc.2

/-- in terms of the writer's domain (C05): unique paths, every record writable, paths strings, no
empty branch vector -/
theorem repOK_of_writerOK (r : Report) (hn : NodupKeys r)
    (h : ∀ pc ∈ r, WriterOK pc.1 pc.2 ∧ utf8Lossy pc.1 = pc.1 ∧ ∀ lv ∈ pc.2.branches, lv.2 ≠ []) :
    RepOK r := by
  refine ⟨hn, fun pc hpc => ?_⟩
  obtain ⟨hw, hp, hne⟩ := h pc hpc
  refine ⟨hw.path, hp, ⟨hw.wf, fun l v hg => hne (l, v) (mem_of_get? hg)⟩,
    ⟨fun l n hg => hw.lineNos (l, n) (mem_of_get? hg),
     fun l v hg => hw.branchLines (l, v) (mem_of_get? hg),
     fun n f hg => hw.fnNames (n, f) (mem_of_get? hg)⟩⟩

theorem repOK_merge (a b : Report) (ha : RepOK a) (hb : RepOK b) : RepOK (mergeReports a b) := by
  refine ⟨nodupKeys_addResults id a b ha.nodup, fun pc hpc => ?_⟩
  obtain ⟨k, v⟩ := pc
  have hg := get?_of_mem (nodupKeys_addResults id a b ha.nodup) hpc
  rw [show addResults id a b = mergeReports a b from rfl, get?_mergeReports a b hb.nodup] at hg
  cases hA : get? a k with
  | some x =>
    have hx := ha.recs (k, x) (mem_of_get? hA)
    cases hB : get? b k with
    | some y =>
      have hy := hb.recs (k, y) (mem_of_get? hB)
      rw [hA, hB] at hg; simp only [optCombine_some_some, Option.some.injEq] at hg; subst hg
      exact ⟨hx.1, hx.2.1, good_merge x y hx.2.2.1 hy.2.2.1, bounded_merge x y hy.2.2.1.1 hx.2.2.2 hy.2.2.2⟩
    | none => rw [hA, hB] at hg; simp at hg; subst hg; exact hx
  | none =>
    rw [hA] at hg; simp at hg
    exact hb.recs (k, v) (mem_of_get? hg)

theorem nonEmptyVecs_good (c : Cov) (h : Good c) : nonEmptyVecs c.branches = c.branches := by
  unfold nonEmptyVecs
  rw [List.filter_eq_self]
  intro lv hlv
  have := good_mem c h lv hlv
  cases hv : lv.2 with
  | nil => exact absurd hv this
  | cons t v => rfl

/-- for records without empty branch vectors the reader rebuilds the written record literally -/
theorem rtCov_of_good (c : Cov) (h : Good c) : rtCov c = c := by
  rw [rtCov_eq c h.1]
  unfold dropEmpty; rw [nonEmptyVecs_good c h]

theorem writerOK_of_repOK (r : Report) (h : RepOK r) : ∀ pc ∈ r, WriterOK pc.1 pc.2 :=
  fun pc hpc => let ⟨h1, _, h3, h4⟩ := h.recs pc hpc; writerOK_of_bounded pc.1 pc.2 h3.1 h1 h4

/-- writing a report and reading it back (with `--branch`) returns the report itself -/
theorem reimport_repOK (r : Report) (h : RepOK r) : reimport r = some r := by
  have hp := parse_printLcov r (writerOK_of_repOK r h)
  have e : (r.map fun pc => (utf8Lossy pc.1, rtCov pc.2)) = r := by
    rw [List.map_congr_left (g := id)]
    · simp
    · intro pc hpc
      obtain ⟨_, h2, h3, _⟩ := h.recs pc hpc
      cases pc; simp only [id] at h2 h3 ⊢; rw [h2, rtCov_of_good _ h3]
  simp only [reimport, hp, e]

/-- direct aggregation: the reports of the leaves merged with the grouping of the tree, nothing
written or read in between -/
def evalDirect : Tree Report → Report
  | .leaf r => r
  | .node l r => mergeReports (evalDirect l) (evalDirect r)

/-- sharded aggregation through files: every inner node merges the reports of its children, WRITES
the lcov report (`printLcov`) and the next stage READS those bytes back (`parse true`) -/
def evalShardedBytes : Tree Report → Option Report
  | .leaf r => some r
  | .node l r =>
    (evalShardedBytes l).bind fun a => (evalShardedBytes r).bind fun b => reimport (mergeReports a b)

theorem evalDirect_repOK (t : Tree Report) (h : ∀ r ∈ t.leaves, RepOK r) : RepOK (evalDirect t) := by
  induction t with
  | leaf r => exact h r (by simp [Tree.leaves])
  | node l r ihl ihr =>
    simp only [Tree.leaves, List.mem_append] at h
    exact repOK_merge _ _ (ihl fun x hx => h x (Or.inl hx)) (ihr fun x hx => h x (Or.inr hx))

theorem evalShardedBytes_eq (t : Tree Report) (h : ∀ r ∈ t.leaves, RepOK r) :
    evalShardedBytes t = some (evalDirect t) := by
  induction t with
  | leaf r => rfl
  | node l r ihl ihr =>
    simp only [Tree.leaves, List.mem_append] at h
    have hl := ihl fun x hx => h x (Or.inl hx)
    have hr := ihr fun x hx => h x (Or.inr hx)
    simp only [evalShardedBytes, hl, hr, Option.bind_some, evalDirect]
    exact reimport_repOK _ (repOK_merge _ _ (evalDirect_repOK l fun x hx => h x (Or.inl hx))
      (evalDirect_repOK r fun x hx => h x (Or.inr hx)))

/-- the record of file `k` in a report, an absent file read as the empty record -/
def covAt (r : Report) (k : Bytes) : Cov := (get? r k).getD {}

theorem empty_wf : ({} : Cov).WF := Cov.empty_wf

theorem covAt_wf (r : Report) (h : RepOK r) (k : Bytes) : (covAt r k).WF := by
  unfold covAt
  cases hg : get? r k with
  | none => exact empty_wf
  | some c => exact (h.recs (k, c) (mem_of_get? hg)).2.2.1.1

theorem obsEq_merge_empty_left (b : Cov) (hb : b.WF) : ObsEq (merge {} b) b :=
  ⟨fun l => by rw [merge_lines _ _ hb]; simp, fun l => by rw [merge_branches _ _ hb]; simp,
   fun n => by rw [merge_functions _ _ hb]; simp⟩

theorem covAt_mergeReports (a b : Report) (_ha : RepOK a) (hb : RepOK b) (k : Bytes) :
    ObsEq (covAt (mergeReports a b) k) (merge (covAt a k) (covAt b k)) := by
  unfold covAt
  rw [get?_mergeReports a b hb.nodup]
  cases hA : get? a k with
  | some x =>
    cases hB : get? b k with
    | some y => simp only [optCombine_some_some, Option.getD_some]; exact obsEq_refl _
    | none => simp only [optCombine_none_right, Option.getD_some, Option.getD_none]
              exact obsEq_refl _
  | none =>
    cases hB : get? b k with
    | some y =>
      simp only [optCombine_none_left, Option.getD_some, Option.getD_none]
      exact obsEq_symm (obsEq_merge_empty_left y (hb.recs (k, y) (mem_of_get? hB)).2.2.1.1)
    | none => simp only [optCombine_none_left, Option.getD_none]; exact obsEq_refl _

/-- the tree of the records of one file -/
def Tree.at (k : Bytes) : Tree Report → Tree Cov
  | .leaf r => .leaf (covAt r k)
  | .node l r => .node (Tree.at k l) (Tree.at k r)

theorem leaves_at (k : Bytes) (t : Tree Report) : (Tree.at k t).leaves = t.leaves.map (covAt · k) := by
  induction t with
  | leaf r => rfl
  | node l r ihl ihr => simp [Tree.at, Tree.leaves, ihl, ihr]

theorem covAt_evalDirect (t : Tree Report) (h : ∀ r ∈ t.leaves, RepOK r) (k : Bytes) :
    ObsEq (covAt (evalDirect t) k) (Tree.at k t).eval := by
  induction t with
  | leaf r => exact obsEq_refl _
  | node l r ihl ihr =>
    simp only [Tree.leaves, List.mem_append] at h
    have hl := fun x hx => h x (Or.inl hx)
    have hr := fun x hx => h x (Or.inr hx)
    have e := covAt_mergeReports _ _ (evalDirect_repOK l hl) (evalDirect_repOK r hr) k
    have wr : (Tree.at k r).eval.WF := Tree.eval_wf _ (by
      intro c hc; rw [leaves_at] at hc
      simp only [List.mem_map] at hc
      obtain ⟨x, hx, rfl⟩ := hc; exact covAt_wf x (hr x hx) k)
    exact obsEq_trans e (merge_congr (covAt_wf _ (evalDirect_repOK r hr) k) wr (ihl hl) (ihr hr))

/-- the files of a merged report are the files of either side -/
theorem isSome_mergeReports (a b : Report) (hb : NodupKeys b) (k : Bytes) :
    (get? (mergeReports a b) k).isSome = ((get? a k).isSome || (get? b k).isSome) := by
  rw [get?_mergeReports a b hb]
  cases get? a k <;> cases get? b k <;> simp

theorem isSome_evalDirect (t : Tree Report) (h : ∀ r ∈ t.leaves, RepOK r) (k : Bytes) :
    (get? (evalDirect t) k).isSome = t.leaves.any fun r => (get? r k).isSome := by
  induction t with
  | leaf r => simp [evalDirect, Tree.leaves]
  | node l r ihl ihr =>
    simp only [Tree.leaves, List.mem_append] at h
    have hr := fun x hx => h x (Or.inr hx)
    simp only [evalDirect, Tree.leaves, List.any_append]
    rw [isSome_mergeReports _ _ (evalDirect_repOK r hr).nodup, ihl fun x hx => h x (Or.inl hx), ihr hr]

end Grcov.Props.C06.Rep
