/-
Lemmas for `Writers/JsonBytes.lean`: the reader reads back what the writer wrote.
-/
import GrcovModel.Writers.JsonBytes
import GrcovModel.Lemmas.Escape
import GrcovModel.Lemmas.WritersCobBytes
namespace Grcov.Writers.JsonBytes
open Grcov AList Grcov.Escape Grcov.Writers Grcov.Writers.Docs
open Grcov.Writers.CobBytes (decBytes decVal? strBytes decFuel decFuel_digits decFuel_ne_nil decVal?_decBytes)

/-- what follows a value does not continue a number -/
def NumStop (rest : Bytes) : Prop := ∀ b r, rest = b :: r → isNumChar b = false

theorem numStop_nil : NumStop [] := by intro b r h; cases h
theorem numStop_cons {c : Nat} (r : Bytes) (h : isNumChar c = false) : NumStop (c :: r) := by
  intro b r' e; cases e; exact h

theorem takeWhile_stop (t rest : Bytes) (ht : t.all isNumChar = true) (hs : NumStop rest) :
    (t ++ rest).takeWhile isNumChar = t ∧ (t ++ rest).dropWhile isNumChar = rest := by
  induction t with
  | nil =>
    cases rest with
    | nil => simp
    | cons c r => simp [List.takeWhile, List.dropWhile, hs c r rfl]
  | cons x t ih =>
    simp only [List.all_cons, Bool.and_eq_true] at ht
    have := ih ht.2
    simp [List.takeWhile, List.dropWhile, ht.1, this.1, this.2]

theorem decBytes_digits (n : Nat) : ∀ b ∈ decBytes n, 48 ≤ b ∧ b ≤ 57 := decFuel_digits _ _

theorem decBytes_cons (n : Nat) : ∃ d ds, decBytes n = d :: ds ∧ 48 ≤ d ∧ d ≤ 57 := by
  cases h : decBytes n with
  | nil => exact absurd h (decFuel_ne_nil n n)
  | cons d ds => exact ⟨d, ds, rfl, decBytes_digits n d (by rw [h]; simp)⟩

theorem decBytes_allDigit (n : Nat) : (decBytes n).all isDigitB = true := by
  rw [List.all_eq_true]; intro b hb
  have := decBytes_digits n b hb
  simp [isDigitB, this.1, this.2]

theorem isDigit_isNum {b : Nat} (h : isDigitB b = true) : isNumChar b = true := by
  simp only [isDigitB, Bool.and_eq_true, decide_eq_true_eq] at h
  simp [isNumChar, h.1, h.2]

theorem decBytes_allNum (n : Nat) : (decBytes n).all isNumChar = true := by
  rw [List.all_eq_true]; intro b hb
  exact isDigit_isNum (List.all_eq_true.mp (decBytes_allDigit n) b hb)

theorem numOfTok_serInt (i : Int) : numOfTok (serInt i) = .int i := by
  unfold serInt
  by_cases hi : i < 0
  · simp only [hi, if_true, numOfTok]
    have hne : decBytes i.natAbs ≠ [] := decFuel_ne_nil _ _
    simp only [hne, ne_eq, not_false_eq_true, decBytes_allDigit, and_self, if_true, decVal?_decBytes]
    congr 1; omega
  · simp only [hi, if_false]
    obtain ⟨d, ds, hd, h1, h2⟩ := decBytes_cons i.natAbs
    have hall := decBytes_allDigit i.natAbs
    have hv := decVal?_decBytes i.natAbs
    rw [hd] at hall hv ⊢
    have h45 : d ≠ 45 := by omega
    unfold numOfTok
    split
    · rename_i ds' heq; simp only [List.cons.injEq] at heq; exact absurd heq.1 h45
    · simp only [ne_eq, reduceCtorEq, not_false_eq_true, hall, and_self, if_true, hv]
      congr 1; omega

theorem tokOk_parts {t : Bytes} (h : tokOk t = true) :
    t.all isNumChar = true ∧ (∃ b r, t = b :: r ∧ (isDigitB b || b == 45) = true) ∧
    (46 ∈ t ∨ 101 ∈ t ∨ 69 ∈ t) := by
  unfold tokOk at h
  simp only [Bool.and_eq_true, Bool.or_eq_true, List.contains_iff_mem] at h
  obtain ⟨⟨h1, h2⟩, h3⟩ := h
  refine ⟨h1, ?_, by simpa [or_assoc] using h3⟩
  cases t with
  | nil => simp at h2
  | cons b r => exact ⟨b, r, rfl, by simpa using h2⟩

theorem not_allDigit_of_mem {ds : Bytes} {c : Nat} (hc : c ∈ ds) (hnd : isDigitB c = false) :
    ds.all isDigitB = false := by
  rw [List.all_eq_false]; exact ⟨c, hc, by simp [hnd]⟩

theorem numOfTok_tok {t : Bytes} (h : tokOk t = true) : numOfTok t = .tok t := by
  obtain ⟨_, ⟨b, r, rfl, _⟩, hmem⟩ := tokOk_parts h
  have hx : ∃ c ∈ b :: r, isDigitB c = false ∧ c ≠ 45 := by
    rcases hmem with h | h | h
    · exact ⟨46, h, by decide, by decide⟩
    · exact ⟨101, h, by decide, by decide⟩
    · exact ⟨69, h, by decide, by decide⟩
  obtain ⟨c, hc, hnd, h45⟩ := hx
  unfold numOfTok
  split
  · rename_i ds heq
    simp only [List.cons.injEq] at heq
    obtain ⟨rfl, rfl⟩ := heq
    have : c ∈ r := by
      simp only [List.mem_cons] at hc
      rcases hc with rfl | hc
      · exact absurd rfl h45
      · exact hc
    simp [not_allDigit_of_mem this hnd]
  · simp [not_allDigit_of_mem hc hnd]

/-! ## fuel -/

mutual
def cost : Json → Nat
  | .arr [] => 1
  | .arr (x :: xs) => 1 + cost x + costTail xs
  | .obj [] => 1
  | .obj (kv :: fs) => 2 + cost kv.2 + costFields fs
  | .null => 1
  | .bool _ => 1
  | .int _ => 1
  | .tok _ => 1
  | .str _ => 1
def costTail : List Json → Nat
  | [] => 1
  | x :: xs => 1 + cost x + costTail xs
def costFields : List (Bytes × Json) → Nat
  | [] => 1
  | kv :: fs => 2 + cost kv.2 + costFields fs
end

theorem scan_serStr (s rest : Bytes) : scanJson [] (jsonStr s ++ 34 :: rest) = some (s, rest) := by
  simpa using scanJson_jsonStr s [] rest

/-- the first byte of a serialised value -/
theorem ser_head (j : Json) (h : wf j = true) :
    ∃ b r, ser j = b :: r ∧ b ≠ 93 ∧ b ≠ 125 ∧ b ≠ 44 := by
  cases j with
  | null => exact ⟨110, [117, 108, 108], by simp [ser], by decide, by decide, by decide⟩
  | bool b =>
    cases b
    · exact ⟨102, [97, 108, 115, 101], by simp [ser], by decide, by decide, by decide⟩
    · exact ⟨116, [114, 117, 101], by simp [ser], by decide, by decide, by decide⟩
  | int i =>
    by_cases hi : i < 0
    · exact ⟨45, decBytes i.natAbs, by simp [ser, serInt, hi], by decide, by decide, by decide⟩
    · obtain ⟨d, ds, hd, h1, h2⟩ := decBytes_cons i.natAbs
      exact ⟨d, ds, by simp [ser, serInt, hi, hd], by omega, by omega, by omega⟩
  | tok t =>
    simp only [wf] at h
    obtain ⟨_, ⟨b, r, rfl, hb⟩, _⟩ := tokOk_parts h
    refine ⟨b, r, by simp [ser], ?_, ?_, ?_⟩ <;>
    · intro e; subst e; simp [isDigitB] at hb
  | str s => exact ⟨34, jsonStr s ++ [34], by simp [ser, serStr], by decide, by decide, by decide⟩
  | arr xs =>
    cases xs with
    | nil => exact ⟨91, [93], by simp [ser], by decide, by decide, by decide⟩
    | cons x xs => exact ⟨91, ser x ++ serTail xs, by simp [ser], by decide, by decide, by decide⟩
  | obj fs =>
    cases fs with
    | nil => exact ⟨123, [125], by simp [ser], by decide, by decide, by decide⟩
    | cons kv fs => exact ⟨123, serStr kv.1 ++ 58 :: ser kv.2 ++ serFields fs, by simp [ser], by decide, by decide, by decide⟩

theorem numStop_serTail (xs : List Json) (rest : Bytes) : NumStop (serTail xs ++ rest) := by
  cases xs <;> simp only [serTail, List.cons_append] <;> exact numStop_cons _ (by decide)

theorem numStop_serFields (fs : List (Bytes × Json)) (rest : Bytes) : NumStop (serFields fs ++ rest) := by
  cases fs <;> simp only [serFields, List.cons_append] <;> exact numStop_cons _ (by decide)

mutual
theorem parseVal_ser : ∀ (j : Json) (f : Nat) (rest : Bytes), wf j = true → cost j ≤ f → NumStop rest →
    parseVal f (ser j ++ rest) = some (j, rest)
  | .null, f, rest, _, hf, _ => by
    obtain ⟨f', rfl⟩ : ∃ f', f = f' + 1 := ⟨f - 1, by simp only [cost] at hf; omega⟩
    simp [ser, parseVal, isDigitB]
  | .bool true, f, rest, _, hf, _ => by
    obtain ⟨f', rfl⟩ : ∃ f', f = f' + 1 := ⟨f - 1, by simp only [cost] at hf; omega⟩
    simp [ser, parseVal, isDigitB]
  | .bool false, f, rest, _, hf, _ => by
    obtain ⟨f', rfl⟩ : ∃ f', f = f' + 1 := ⟨f - 1, by simp only [cost] at hf; omega⟩
    simp [ser, parseVal, isDigitB]
  | .int i, f, rest, _, hf, hs => by
    obtain ⟨f', rfl⟩ : ∃ f', f = f' + 1 := ⟨f - 1, by simp only [cost] at hf; omega⟩
    have hall : (serInt i).all isNumChar = true := by
      unfold serInt; split
      · simp [decBytes_allNum, isNumChar]
      · exact decBytes_allNum _
    obtain ⟨b, r, hbr, _, _, _⟩ := ser_head (.int i) rfl
    simp only [ser] at hbr
    have hb : (isDigitB b || b == 45) = true := by
      unfold serInt at hbr
      by_cases hi : i < 0
      · simp only [hi, if_true, List.cons.injEq] at hbr; rw [← hbr.1]; decide
      · simp only [hi, if_false] at hbr
        have := decBytes_digits i.natAbs b (by rw [hbr]; simp)
        simp [isDigitB, this.1, this.2]
    have tw := takeWhile_stop (serInt i) rest hall hs
    simp only [ser]
    rw [hbr, List.cons_append]
    simp only [parseVal, hb, if_true]
    rw [← List.cons_append, ← hbr, tw.1, tw.2, numOfTok_serInt]
  | .tok t, f, rest, hw, hf, hs => by
    obtain ⟨f', rfl⟩ : ∃ f', f = f' + 1 := ⟨f - 1, by simp only [cost] at hf; omega⟩
    simp only [wf] at hw
    obtain ⟨hall, ⟨b, r, hbr, hb⟩, _⟩ := tokOk_parts hw
    have tw := takeWhile_stop t rest hall hs
    simp only [ser]
    rw [hbr, List.cons_append]
    simp only [parseVal, hb, if_true]
    rw [← List.cons_append, ← hbr, tw.1, tw.2, numOfTok_tok hw]
  | .str s, f, rest, _, hf, _ => by
    obtain ⟨f', rfl⟩ : ∃ f', f = f' + 1 := ⟨f - 1, by simp only [cost] at hf; omega⟩
    simp [ser, serStr, parseVal, isDigitB, scan_serStr]
  | .arr [], f, rest, _, hf, _ => by
    obtain ⟨f', rfl⟩ : ∃ f', f = f' + 1 := ⟨f - 1, by simp only [cost] at hf; omega⟩
    simp [ser, parseVal, isDigitB]
  | .arr (x :: xs), f, rest, hw, hf, _ => by
    obtain ⟨f', rfl⟩ : ∃ f', f = f' + 1 := ⟨f - 1, by simp only [cost] at hf; omega⟩
    simp only [wf, wfs, Bool.and_eq_true] at hw
    simp only [cost] at hf
    obtain ⟨b, r, hbr, h93, _, _⟩ := ser_head x hw.1
    have e1 := parseVal_ser x f' (serTail xs ++ rest) hw.1 (by omega) (numStop_serTail xs rest)
    have e2 := parseTail_ser xs f' rest hw.2 (by omega)
    have hd : (isDigitB 91 || (91 : Nat) == 45) = false := by decide
    simp only [ser, List.cons_append, List.append_assoc, parseVal, hd, Bool.false_eq_true, if_false,
      show (91 : Nat) ≠ 34 by decide, if_true]
    rw [hbr, List.cons_append] at e1 ⊢
    split
    · rename_i r1 heq; simp only [List.cons.injEq] at heq; exact absurd heq.1 h93
    · rw [e1]; simp only [e2]
  | .obj [], f, rest, _, hf, _ => by
    obtain ⟨f', rfl⟩ : ∃ f', f = f' + 1 := ⟨f - 1, by simp only [cost] at hf; omega⟩
    simp [ser, parseVal, isDigitB]
  | .obj (kv :: fs), f, rest, hw, hf, _ => by
    obtain ⟨f', rfl⟩ : ∃ f', f = f' + 1 := ⟨f - 1, by simp only [cost] at hf; omega⟩
    simp only [wf, wfFields, Bool.and_eq_true] at hw
    simp only [cost] at hf
    have e1 := parseField_ser kv f' (serFields fs ++ rest) hw.1 (by omega) (numStop_serFields fs rest)
    have e2 := parseFields_ser fs f' rest hw.2 (by omega)
    have hd : (isDigitB 123 || (123 : Nat) == 45) = false := by decide
    simp only [ser, List.cons_append, List.append_assoc, parseVal, hd, Bool.false_eq_true, if_false,
      show (123 : Nat) ≠ 34 by decide, show (123 : Nat) ≠ 91 by decide, if_true]
    simp only [serStr, List.cons_append, List.append_assoc, List.nil_append] at e1 ⊢
    rw [e1]; simp only [e2]
theorem parseTail_ser : ∀ (xs : List Json) (f : Nat) (rest : Bytes), wfs xs = true → costTail xs ≤ f →
    parseTail f (serTail xs ++ rest) = some (xs, rest)
  | [], f, rest, _, hf => by
    obtain ⟨f', rfl⟩ : ∃ f', f = f' + 1 := ⟨f - 1, by simp only [costTail] at hf; omega⟩
    simp [serTail, parseTail]
  | x :: xs, f, rest, hw, hf => by
    obtain ⟨f', rfl⟩ : ∃ f', f = f' + 1 := ⟨f - 1, by simp only [costTail] at hf; omega⟩
    simp only [wfs, Bool.and_eq_true] at hw
    simp only [costTail] at hf
    have e1 := parseVal_ser x f' (serTail xs ++ rest) hw.1 (by omega) (numStop_serTail xs rest)
    have e2 := parseTail_ser xs f' rest hw.2 (by omega)
    simp only [serTail, List.cons_append, List.append_assoc, parseTail, e1, e2]
theorem parseField_ser : ∀ (kv : Bytes × Json) (f : Nat) (rest : Bytes), wf kv.2 = true → cost kv.2 + 1 ≤ f →
    NumStop rest → parseField f (serStr kv.1 ++ 58 :: ser kv.2 ++ rest) = some (kv, rest)
  | (k, v), f, rest, hw, hf, hs => by
    obtain ⟨f', rfl⟩ : ∃ f', f = f' + 1 := ⟨f - 1, by omega⟩
    have e1 := parseVal_ser v f' rest hw (by simpa using hf) hs
    simp only [serStr, List.cons_append, List.append_assoc, List.nil_append, parseField, scan_serStr, e1]
theorem parseFields_ser : ∀ (fs : List (Bytes × Json)) (f : Nat) (rest : Bytes), wfFields fs = true →
    costFields fs ≤ f → parseFields f (serFields fs ++ rest) = some (fs, rest)
  | [], f, rest, _, hf => by
    obtain ⟨f', rfl⟩ : ∃ f', f = f' + 1 := ⟨f - 1, by simp only [costFields] at hf; omega⟩
    simp [serFields, parseFields]
  | kv :: fs, f, rest, hw, hf => by
    obtain ⟨f', rfl⟩ : ∃ f', f = f' + 1 := ⟨f - 1, by simp only [costFields] at hf; omega⟩
    simp only [wfFields, Bool.and_eq_true] at hw
    simp only [costFields] at hf
    have e1 := parseField_ser kv f' (serFields fs ++ rest) hw.1 (by omega) (numStop_serFields fs rest)
    have e2 := parseFields_ser fs f' rest hw.2 (by omega)
    simp only [serFields, List.cons_append, List.append_assoc, parseFields] at e1 ⊢
    simp only [serStr, List.cons_append, List.append_assoc, List.nil_append] at e1 ⊢
    rw [e1]; simp only [e2]
end

/-! ## the whole document -/

theorem serStr_length (s : Bytes) : 2 ≤ (serStr s).length := by simp [serStr]

mutual
theorem cost_le : ∀ (j : Json), wf j = true → cost j ≤ (ser j).length
  | .null, _ => by simp [cost, ser]
  | .bool true, _ => by simp [cost, ser]
  | .bool false, _ => by simp [cost, ser]
  | .int i, _ => by
    obtain ⟨b, r, h, _⟩ := ser_head (.int i) rfl
    simp [cost, h]
  | .tok t, hw => by
    obtain ⟨b, r, h, _⟩ := ser_head (.tok t) hw
    simp [cost, h]
  | .str s, _ => by have := serStr_length s; simp only [cost, ser]; omega
  | .arr [], _ => by simp [cost, ser]
  | .arr (x :: xs), hw => by
    simp only [wf, wfs, Bool.and_eq_true] at hw
    have := cost_le x hw.1
    have := costTail_le xs hw.2
    simp only [cost, ser, List.length_cons, List.length_append]; omega
  | .obj [], _ => by simp [cost, ser]
  | .obj (kv :: fs), hw => by
    simp only [wf, wfFields, Bool.and_eq_true] at hw
    have := cost_le kv.2 hw.1
    have := costFields_le fs hw.2
    have := serStr_length kv.1
    simp only [cost, ser, List.length_cons, List.length_append]; omega
theorem costTail_le : ∀ (xs : List Json), wfs xs = true → costTail xs ≤ (serTail xs).length
  | [], _ => by simp [costTail, serTail]
  | x :: xs, hw => by
    simp only [wfs, Bool.and_eq_true] at hw
    have := cost_le x hw.1
    have := costTail_le xs hw.2
    simp only [costTail, serTail, List.length_cons, List.length_append]; omega
theorem costFields_le : ∀ (fs : List (Bytes × Json)), wfFields fs = true → costFields fs ≤ (serFields fs).length
  | [], _ => by simp [costFields, serFields]
  | kv :: fs, hw => by
    simp only [wfFields, Bool.and_eq_true] at hw
    have := cost_le kv.2 hw.1
    have := costFields_le fs hw.2
    have := serStr_length kv.1
    simp only [costFields, serFields, List.length_cons, List.length_append]; omega
end

/-- the reader reads back exactly the value the writer serialised -/
theorem jsonParse_jsonSerialize (j : Json) (h : wf j = true) : jsonParse (jsonSerialize j) = some j := by
  unfold jsonParse jsonSerialize
  have := parseVal_ser j (2 * (ser j).length + 2) [] h (by have := cost_le j h; omega) numStop_nil
  simp only [List.append_nil] at this
  rw [this]

/-! ## `mkObj` -/

theorem wfFields_mapInsert (m : List (Bytes × Json)) (k : Bytes) (v : Json) (hm : wfFields m = true)
    (hv : wf v = true) : wfFields (mapInsert m k v) = true := by
  induction m with
  | nil => simp [mapInsert, wfFields, hv]
  | cons kv m ih =>
    obtain ⟨k', v'⟩ := kv
    simp only [wfFields, Bool.and_eq_true] at hm
    unfold mapInsert
    split
    · simp [wfFields, hv, hm.2]
    · split
      · simp [wfFields, hv, hm.1, hm.2]
      · simp [wfFields, hm.1, ih hm.2]

theorem wf_mkObj (fields : List (Bytes × Json)) (h : ∀ kv ∈ fields, wf kv.2 = true) : wf (mkObj fields) = true := by
  unfold mkObj
  simp only [wf]
  have key : ∀ (fs m : List (Bytes × Json)), wfFields m = true → (∀ kv ∈ fs, wf kv.2 = true) →
      wfFields (fs.foldl (fun m kv => mapInsert m kv.1 kv.2) m) = true := by
    intro fs
    induction fs with
    | nil => intro m hm _; simpa using hm
    | cons kv fs ih =>
      intro m hm hf
      exact ih _ (wfFields_mapInsert m kv.1 kv.2 hm (hf kv (by simp))) (fun x hx => hf x (by simp [hx]))
  exact key fields [] rfl h

theorem wfs_of_forall (xs : List Json) (h : ∀ x ∈ xs, wf x = true) : wfs xs = true := by
  induction xs with
  | nil => rfl
  | cons x xs ih => simp [wfs, h x (by simp), ih (fun y hy => h y (by simp [hy]))]

theorem wf_arr_map {α : Type} (f : α → Json) (l : List α) (h : ∀ a, wf (f a) = true) : wf (.arr (l.map f)) = true := by
  simp only [wf]; exact wfs_of_forall _ (by intro x hx; obtain ⟨a, _, rfl⟩ := List.mem_map.mp hx; exact h a)

/-! ### documents are well formed -/

theorem wf_cvFnJson (f : CvFn) : wf (cvFnJson f) = true := by
  unfold cvFnJson; apply wf_mkObj; intro kv hkv; simp at hkv; rcases hkv with rfl | rfl | rfl <;> rfl

theorem wf_cvFileJson (g : Bytes) (f : CvFile) : wf (cvFileJson g f) = true := by
  unfold cvFileJson; apply wf_mkObj
  intro kv hkv
  simp only [List.mem_append, List.mem_cons, List.not_mem_nil, or_false] at hkv
  rcases hkv with (rfl | rfl | rfl | rfl) | hkv
  · rfl
  · rfl
  · exact wf_arr_map _ _ (by intro a; cases a <;> rfl)
  · exact wf_arr_map _ _ (by intro a; rfl)
  · cases hf : f.functions with
    | none => simp [hf] at hkv
    | some fs =>
      simp only [hf, List.mem_singleton] at hkv; subst hkv
      exact wf_arr_map _ _ wf_cvFnJson

theorem wf_zipDigests (gs : List Bytes) (d : List CvFile) : ∀ x ∈ zipDigests gs d, wf x = true := by
  induction d generalizing gs with
  | nil => intro x hx; cases gs <;> simp [zipDigests] at hx
  | cons f d ih =>
    intro x hx
    cases gs with
    | nil =>
      simp only [zipDigests, List.mem_cons] at hx
      rcases hx with rfl | hx
      · exact wf_cvFileJson _ _
      · exact ih [] x hx
    | cons g gs =>
      simp only [zipDigests, List.mem_cons] at hx
      rcases hx with rfl | hx
      · exact wf_cvFileJson _ _
      · exact ih gs x hx

theorem wf_optField (k : String) (v : Option Bytes) : ∀ kv ∈ optField k v, wf kv.2 = true := by
  intro kv hkv; cases v <;> simp [optField] at hkv; subst hkv; rfl

theorem wf_coverallsJson (top : CvTop) (gs : List Bytes) (d : List CvFile) (hg : wf top.git = true) :
    wf (coverallsJson top gs d) = true := by
  unfold coverallsJson; apply wf_mkObj
  intro kv hkv
  simp only [List.mem_append, List.mem_cons, List.not_mem_nil, or_false] at hkv
  rcases hkv with ((((rfl | rfl | rfl | rfl | rfl) | h) | h) | h) | h
  · exact hg
  · simp only [wf]; exact wfs_of_forall _ (wf_zipDigests gs d)
  · rfl
  · rfl
  · rfl
  all_goals exact wf_optField _ _ kv h

/-- every printed `coveragePercent` looks like a float -/
def FillOk (fill : Fill) : Prop := ∀ p, tokOk (fill p) = true

theorem wf_figFields (fill : Fill) (hf : FillOk fill) (path : List Name) (n : Name) (g : CdFig) :
    ∀ kv ∈ figFields fill path n g, wf kv.2 = true := by
  intro kv hkv
  simp only [figFields, List.mem_cons, List.not_mem_nil, or_false] at hkv
  rcases hkv with rfl | rfl | rfl | rfl | rfl
  · rfl
  · rfl
  · rfl
  · rfl
  · exact hf _

theorem wf_fileJson (fill : Fill) (hf : FillOk fill) (path : List Name) (f : Name × List Int) :
    wf (fileJson fill path f) = true := by
  unfold fileJson; apply wf_mkObj
  intro kv hkv
  simp only [List.mem_append, List.mem_singleton] at hkv
  rcases hkv with h | rfl
  · exact wf_figFields fill hf _ _ _ kv h
  · exact wf_arr_map _ _ (by intro a; rfl)

mutual
theorem wf_treeJson (fill : Fill) (hf : FillOk fill) : ∀ (t : Docs.Tree) (path : List Name), wf (treeJson fill path t) = true
  | .mk n fs ds, path => by
    unfold treeJson; apply wf_mkObj
    intro kv hkv
    simp only [List.mem_append, List.mem_singleton] at hkv
    rcases hkv with h | rfl
    · exact wf_figFields fill hf _ _ _ kv h
    · apply wf_mkObj
      intro kv hkv
      simp only [List.mem_append, List.mem_map] at hkv
      rcases hkv with ⟨f, _, rfl⟩ | h
      · exact wf_fileJson fill hf path f
      · exact wf_dirsJson fill hf ds path kv h
theorem wf_dirsJson (fill : Fill) (hf : FillOk fill) : ∀ (ds : List Docs.Tree) (path : List Name),
    ∀ kv ∈ dirsJson fill path ds, wf kv.2 = true
  | [], _, kv, hkv => by simp [dirsJson] at hkv
  | t :: ts, path, kv, hkv => by
    simp only [dirsJson, List.mem_cons] at hkv
    rcases hkv with rfl | h
    · exact wf_treeJson fill hf t _
    · exact wf_dirsJson fill hf ts path kv h
end

theorem wf_covdirJson (fill : Fill) (hf : FillOk fill) (t : Docs.Tree) : wf (covdirJson fill t) = true :=
  wf_treeJson fill hf t []

/-! ## looking a key up in `mkObj` -/

theorem get?_mapInsert (m : List (Bytes × Json)) (k : Bytes) (v : Json) (x : Bytes) :
    get? (mapInsert m k v) x = if k = x then some v else get? m x := by
  induction m with
  | nil => simp [mapInsert]
  | cons kv m ih =>
    obtain ⟨k', v'⟩ := kv
    unfold mapInsert
    split
    · rename_i e; subst e
      by_cases hx : k = x <;> simp [hx]
    · split
      · simp
      · rename_i hne _
        simp only [get?_cons, ih]
        by_cases hk : k' = x
        · subst hk; simp [hne]
        · simp [hk]

theorem objGet_mkObj (fields : List (Bytes × Json)) (x : Bytes) :
    objGet (mkObj fields) x = (fields.reverse.find? fun kv => decide (kv.1 = x)).map (·.2) := by
  unfold mkObj
  have key : ∀ (fs m : List (Bytes × Json)),
      get? (fs.foldl (fun m kv => mapInsert m kv.1 kv.2) m) x =
        match fs.reverse.find? (fun kv => decide (kv.1 = x)) with
        | some kv => some kv.2
        | none => get? m x := by
    intro fs
    induction fs with
    | nil => intro m; simp
    | cons kv fs ih =>
      intro m
      rw [List.foldl_cons, ih, List.reverse_cons, List.find?_append]
      cases fs.reverse.find? (fun kv => decide (kv.1 = x)) with
      | some kv' => simp
      | none =>
        simp only [Option.none_or, List.find?_cons, List.find?_nil, get?_mapInsert]
        by_cases hk : kv.1 = x <;> simp [hk]
  rw [show ∀ fs, objGet (Json.obj fs) x = get? fs x from fun _ => rfl, key fields []]
  cases fields.reverse.find? (fun kv => decide (kv.1 = x)) <;> simp

theorem mapM_decCov (c : List (Option Nat)) :
    (c.map covEntryJson).mapM decCovEntry = some c := by
  induction c with
  | nil => rfl
  | cons a c ih =>
    rw [List.map_cons, List.mapM_cons, ih]
    cases a <;> simp [decCovEntry, nat, covEntryJson]

theorem mapM_asNat (b : List Nat) : (b.map nat).mapM asNat = some b := by
  induction b with
  | nil => rfl
  | cons a b ih => rw [List.map_cons, List.mapM_cons, ih]; simp [asNat, nat]

theorem mapM_decCov' (c : List (Option Nat)) :
    c.mapM (decCovEntry ∘ covEntryJson) = some c := by
  induction c with
  | nil => rfl
  | cons a c ih =>
    rw [List.mapM_cons, ih]
    cases a <;> simp [decCovEntry, nat, covEntryJson]

theorem mapM_asNat' (b : List Nat) : b.mapM (asNat ∘ nat) = some b := by
  induction b with
  | nil => rfl
  | cons a b ih => rw [List.mapM_cons, ih]; simp [asNat, nat]

theorem decFn_cvFnJson (f : CvFn) : decFn (cvFnJson f) = some f := by
  unfold decFn cvFnJson
  simp only [objGet_mkObj]
  have h1 : key "name" ≠ key "start" := by decide
  have h2 : key "name" ≠ key "exec" := by decide
  have h3 : key "start" ≠ key "exec" := by decide
  simp [h1, h2, h3, h1.symm, h2.symm, h3.symm, asStr, asNat, asBool, nat]

theorem mapM_decFn' (fs : List CvFn) : fs.mapM (decFn ∘ cvFnJson) = some fs := by
  induction fs with
  | nil => rfl
  | cons f fs ih => rw [List.mapM_cons, ih]; simp [decFn_cvFnJson]

theorem mapM_decFn (fs : List CvFn) : (fs.map cvFnJson).mapM decFn = some fs := by
  induction fs with
  | nil => rfl
  | cons f fs ih => rw [List.map_cons, List.mapM_cons, ih, decFn_cvFnJson]; rfl

/-- a `source_files` object read back is the file entry it was built from (the digest aside) -/
theorem decFile_cvFileJson (g : Bytes) (f : CvFile) : decFile (cvFileJson g f) = some f := by
  obtain ⟨n, c, b, fns⟩ := f
  unfold decFile cvFileJson
  simp only [objGet_mkObj]
  have d1 : key "name" ≠ key "source_digest" := by decide
  have d2 : key "name" ≠ key "coverage" := by decide
  have d3 : key "name" ≠ key "branches" := by decide
  have d4 : key "name" ≠ key "functions" := by decide
  have d5 : key "source_digest" ≠ key "coverage" := by decide
  have d6 : key "source_digest" ≠ key "branches" := by decide
  have d7 : key "source_digest" ≠ key "functions" := by decide
  have d8 : key "coverage" ≠ key "branches" := by decide
  have d9 : key "coverage" ≠ key "functions" := by decide
  have d10 : key "branches" ≠ key "functions" := by decide
  cases fns with
  | none =>
    simp [d1, d2, d3, d4, d5, d6, d7, d8, d9, d10, d1.symm, d2.symm, d3.symm, d4.symm, d5.symm, d6.symm,
      d7.symm, d8.symm, d9.symm, d10.symm, asStr, asArr, mapM_decCov', mapM_asNat']
  | some fs =>
    simp [d1, d2, d3, d4, d5, d6, d7, d8, d9, d10, d1.symm, d2.symm, d3.symm, d4.symm, d5.symm, d6.symm,
      d7.symm, d8.symm, d9.symm, d10.symm, asStr, asArr, mapM_decCov', mapM_asNat', mapM_decFn']

theorem mapM_decFile (gs : List Bytes) (d : List CvFile) : (zipDigests gs d).mapM decFile = some d := by
  induction d generalizing gs with
  | nil => cases gs <;> rfl
  | cons f d ih =>
    cases gs with
    | nil => rw [zipDigests, List.mapM_cons, decFile_cvFileJson, ih]; rfl
    | cons g gs => rw [zipDigests, List.mapM_cons, decFile_cvFileJson, ih]; rfl

theorem decodeCoverallsJson_coverallsJson (top : CvTop) (gs : List Bytes) (d : List CvFile) :
    decodeCoverallsJson (coverallsJson top gs d) = some d := by
  unfold decodeCoverallsJson coverallsJson
  rw [objGet_mkObj]
  have e1 : key "source_files" ≠ key "git" := by decide
  have e2 : key "source_files" ≠ key "service_number" := by decide
  have e3 : key "source_files" ≠ key "service_pull_request" := by decide
  have e4 : key "source_files" ≠ key "parallel" := by decide
  have e5 : key "source_files" ≠ key "repo_token" := by decide
  have e6 : key "source_files" ≠ key "service_name" := by decide
  have e7 : key "source_files" ≠ key "flag_name" := by decide
  have e8 : key "source_files" ≠ key "service_job_id" := by decide
  cases top.repoToken <;> cases top.serviceName <;> cases top.flagName <;> cases top.serviceJobId <;>
    simp [optField, e1.symm, e2.symm, e3.symm, e4.symm, e5.symm, e6.symm, e7.symm, e8.symm, asArr, mapM_decFile]

end Grcov.Writers.JsonBytes
