/-
Helper lemmas for C12 (one record per source file): without a source dir and a path mapping the
reported path of a key is the lexical normal form of the key after separator replacement and
prefix removal, every key with such a normal form is resolved, and a report has pairwise distinct
paths exactly when that map is injective on the reported keys.
-/
import GrcovModel.Lemmas.RewriteIdem
namespace Grcov.Rewrite
open Grcov Grcov.UPath Grcov.Glob AList

/-! ### bytes of a stripped path -/

theorem mem_join_split {p : Bytes} {S : List Bytes} (hS : ∀ s ∈ S, s ∈ split p) {b : Nat}
    (h : b ∈ join S) : b = 47 ∨ b ∈ p := by
  rcases mem_join h with e | ⟨s, hs, hb⟩
  · exact Or.inl e
  · exact Or.inr (mem_of_mem_split (hS s hs) b hb)

theorem remainder_bytes (p : Bytes) (k : Nat) {b : Nat} (h : b ∈ remainder p k) : b = 47 ∨ b ∈ p := by
  unfold remainder at h
  split at h
  · unfold trimRightKeepLead at h
    split at h
    · exact Or.inr h
    · rename_i s0 t hsp
      have hsub : ∀ s ∈ s0 :: t, s ∈ split p := by rw [hsp]; exact fun _ h => h
      split at h
      · rcases List.mem_cons.1 h with e | h
        · exact Or.inl e
        · exact mem_join_split (fun s hs => hsub s (List.mem_cons_of_mem _ (trimR_subset _ s hs))) h
      · split at h
        · refine mem_join_split ?_ h
          intro s hs
          rcases List.mem_cons.1 hs with e | hs
          · exact hsub s (e ▸ List.mem_cons_self)
          · exact hsub s (List.mem_cons_of_mem _ (trimR_subset _ s hs))
        · exact mem_join_split (fun s hs => hsub s (trimR_subset _ s hs)) h
  · refine mem_join_split ?_ h
    intro s hs
    exact dropComps_subset _ _ s (trimL_subset _ s (trimR_subset _ s hs))

theorem removePrefix_noBackslash {pre : Option Bytes} {p : Bytes} (hp : 92 ∉ p) :
    92 ∉ removePrefix pre p := by
  unfold removePrefix
  cases pre with
  | none => exact hp
  | some q =>
    simp only
    cases hs : stripPrefix p q with
    | none => exact hp
    | some r =>
      unfold stripPrefix at hs
      split at hs
      · cases hs
        intro hb
        rcases remainder_bytes p _ hb with e | e
        · cases e
        · exact hp e
      · cases hs

/-! ### no source dir, no mapping -/

/-- what a key becomes before normalisation: separators replaced, prefix removed -/
theorem keyPath_noMapping {cfg : Cfg} (hM : cfg.mapping = none) (key : Bytes) :
    keyPath cfg key = removePrefix cfg.prefixDir (bsl key) := by
  simp [keyPath, hM, applyMapping]

theorem keyPath_noBackslash {cfg : Cfg} (hM : cfg.mapping = none) (key : Bytes) :
    92 ∉ keyPath cfg key := by
  rw [keyPath_noMapping hM]; exact removePrefix_noBackslash (bsl_noBackslash key)

/-- the reported path is the lexical normal form of the key's path -/
theorem rel_eq_nf {cfg : Cfg} {fs : FS} (hS : cfg.sourceDir = none) (hM : cfg.mapping = none)
    {kc : Bytes × Cov} {r : Rec} (h : rewriteKey cfg fs kc = .ok (some r)) :
    normalizePath (keyPath cfg kc.1) = some r.rel := by
  obtain ⟨a, rl, hres, hsel⟩ := (rewriteKey_some_iff _ _ _ _).1 h
  obtain ⟨_, _, _, _, er⟩ := (selectRec_some_iff _ _ _ _ _ _).1 hsel
  obtain ⟨r0, hg, hf⟩ := resolveKey_some hres
  rw [hS] at hg
  obtain ⟨ac, _, _, hn⟩ := (getAbsPath_some_iff _ _ _ _ _).1 hg
  simp only [fixupRelPath] at hn
  have hb : 92 ∉ r0 := normalizePath_noBackslash (keyPath_noBackslash hM kc.1) hn
  unfold finalRel at hf
  rw [bsl_id hb] at hf
  obtain ⟨np, e, hreal, _⟩ := normalizePath_shape hn
  rw [e, normalizePath_render hreal] at hf
  cases hf
  rw [er, hn, e]

/-- … and every key whose path has a normal form is resolved to it (clean current directory) -/
theorem resolveKey_noSource {cfg : Cfg} {fs : FS} (hS : cfg.sourceDir = none) (hM : cfg.mapping = none)
    (hcwd : ∀ n ∈ fs.cwd, RealName n) {key n : Bytes} (hn : normalizePath (keyPath cfg key) = some n) :
    ∃ a, resolveKey cfg fs key = .ok (some (a, n)) := by
  obtain ⟨np, e, hreal, _⟩ := normalizePath_shape hn
  have hnb : 92 ∉ n := normalizePath_noBackslash (keyPath_noBackslash hM key) hn
  have hfin : finalRel n = some n := by
    unfold finalRel; rw [bsl_id hnb, e, normalizePath_render hreal]
  have hguess : absGuess fs none (keyPath cfg key) = some (keyPath cfg key) := by
    unfold absGuess; split <;> rfl
  obtain ⟨ac, hac, npa, hra, ea⟩ : ∃ ac, canonOrNorm fs (keyPath cfg key) = some ac ∧
      ∃ npa : NPath, (∀ x ∈ npa.names, RealName x) ∧ ac = render npa := by
    unfold canonOrNorm
    cases hr : fs.realpath (keyPath cfg key) with
    | some c =>
      obtain ⟨names, hn', e'⟩ := realpath_clean hcwd hr
      exact ⟨c, rfl, ⟨true, names⟩, hn', e'⟩
    | none => exact ⟨n, by simp [hn], np, hreal, e⟩
  refine ⟨ac, ?_⟩
  unfold resolveKey
  simp only [hM, Option.isSome_none, Bool.false_and, Bool.false_eq_true, if_false, hS]
  have : getAbsPath fs none (keyPath cfg key) = .ok (some (ac, n)) := by
    rw [getAbsPath_some_iff]
    exact ⟨ac, by simp [absCanon, hguess, hac], by rw [ea, normalizePath_render hra], by simpa [fixupRelPath] using hn⟩
  rw [this]
  simp [finishPath, hfin]

/-! ### distinct paths ⇔ injectivity on the reported keys -/

theorem pairwise_forall_symm {α : Type} {R : α → α → Prop} (hR : ∀ a b, R a b → R b a) {l : List α}
    (h : l.Pairwise R) : ∀ a ∈ l, ∀ b ∈ l, a ≠ b → R a b := by
  induction l with
  | nil => intro a ha; cases ha
  | cons x l ih =>
    rw [List.pairwise_cons] at h
    intro a ha b hb hab
    rcases List.mem_cons.1 ha with ea | ha' <;> rcases List.mem_cons.1 hb with eb | hb'
    · exact absurd (ea.trans eb.symm) hab
    · rw [ea]; exact h.1 b hb'
    · rw [eb]; exact hR _ _ (h.1 a ha')
    · exact ih h.2 a ha' b hb' hab

/-- a per-key partial function whose records are named by `G key`: the reported names are pairwise
distinct iff `G` is injective on the keys that yield a record -/
theorem nodup_rel_iff (f : Bytes × Cov → Option Rec) (G : Bytes → Bytes) (m : List (Bytes × Cov))
    (hm : NodupKeys m) (hrel : ∀ kc ∈ m, ∀ r, f kc = some r → r.rel = G kc.1) :
    ((m.filterMap f).map (·.rel)).Nodup ↔
      ∀ kc1 ∈ m, ∀ kc2 ∈ m, (f kc1).isSome → (f kc2).isSome → G kc1.1 = G kc2.1 → kc1.1 = kc2.1 := by
  have hkeys : m.Pairwise fun a b => a.1 ≠ b.1 := by
    unfold NodupKeys keys at hm
    rw [List.nodup_iff_pairwise_ne, List.pairwise_map] at hm
    exact hm
  rw [List.nodup_iff_pairwise_ne, List.pairwise_map, List.pairwise_filterMap]
  constructor
  · intro hp kc1 h1 kc2 h2 s1 s2 hG
    refine Classical.byContradiction fun hne => ?_
    have hne' : kc1 ≠ kc2 := fun e => hne (e ▸ rfl)
    have := pairwise_forall_symm (R := fun a a' => ∀ b, f a = some b → ∀ b', f a' = some b' → b.rel ≠ b'.rel)
      (fun a b hab b1 hb1 b2 hb2 e => hab b2 hb2 b1 hb1 e.symm) hp kc1 h1 kc2 h2 hne'
    obtain ⟨r1, e1⟩ := Option.isSome_iff_exists.1 s1
    obtain ⟨r2, e2⟩ := Option.isSome_iff_exists.1 s2
    exact this r1 e1 r2 e2 (by rw [hrel kc1 h1 r1 e1, hrel kc2 h2 r2 e2, hG])
  · intro hinj
    refine List.Pairwise.imp_of_mem ?_ hkeys
    intro a b ha hb hab r1 e1 r2 e2 e
    apply hab
    exact hinj a ha b hb (by simp [e1]) (by simp [e2]) (by rw [← hrel a ha r1 e1, ← hrel b hb r2 e2, e])

end Grcov.Rewrite
